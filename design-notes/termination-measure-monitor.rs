// Run-time monitor used during design (scratch tree only): the tuple must decrease
// lexicographically at every main-loop iteration. Validated on 220k fragment inputs
// and 4000 grammar programs against the repaired scratch tree.
    fn verif_measure(&self) -> (u32, u32, u32, u32) {
        fn w(m: &LexerMode) -> u32 {
            match m {
                LexerMode::Default => 0,
                LexerMode::WsOrCStyleCommentOnly | LexerMode::ExpectSymbol(..) | LexerMode::ExpectSemiOrEOF
                | LexerMode::MakeCheckpoint | LexerMode::MaybeMacroCallArgsOrLabel { .. } | LexerMode::MaybeTailMacroArgValue
                | LexerMode::MacroDefNextArgOrDefaultValue | LexerMode::MacroDefName | LexerMode::MaybeMacroDefArgs
                | LexerMode::StringExpr { .. } => 1,
                LexerMode::MacroCallValue { .. } | LexerMode::MacroNameExpr(..) | LexerMode::MacroEval { .. }
                | LexerMode::MacroStrQuotedExpr { .. } | LexerMode::MacroSemiTerminatedTextExpr
                | LexerMode::MacroStatOptionsTextExpr => 2,
                LexerMode::MaybeMacroCallArgAssign { .. } => 3,
                LexerMode::MacroCallArgOrValue { .. } => 8,
                LexerMode::MacroLocalGlobal { .. } => 10,
                LexerMode::MacroDefArg => 12,
                LexerMode::MacroDo => 20,
            }
        }
        let rem = self.cursor.remaining_len();
        let big_r = self.checkpoint.as_ref().map_or(rem, |c| c.cursor.remaining_len());
        let wsum: u32 = self.mode_stack.iter().map(w).sum();
        let next = self.cursor.peek();
        let n = self.mode_stack.len();
        let non_ws_above = |i: usize| -> Option<(usize, &LexerMode)> {
            self.mode_stack.iter().enumerate().skip(i + 1).find(|(_, m)| !matches!(m, LexerMode::WsOrCStyleCommentOnly))
        };
        let mut armed = 0u32;
        for (i, m) in self.mode_stack.iter().enumerate() {
            match m {
                LexerMode::MacroDefArg => armed += 1,
                LexerMode::MacroCallArgOrValue { .. } => {
                    let a = match non_ws_above(i) {
                        Some((_, LexerMode::MacroCallValue { .. })) => false,
                        Some((j, LexerMode::MaybeMacroCallArgAssign { .. })) => j + 2 < n, // shadows only in top-2
                        Some(_) => true,
                        None => !(i + 1 == n && matches!(next, Some(')') | Some(','))),
                    };
                    if a { armed += 1; }
                }
                _ => {}
            }
        }
        let bonus = if let Some(cp) = &self.checkpoint {
            let l = cp.mode_stack_len;
            let suffix: &[LexerMode] = if n >= l { &self.mode_stack[l..] } else { &[] };
            let has_args = suffix.iter().any(|m| matches!(m, LexerMode::MaybeMacroCallArgsOrLabel { .. }));
            let has_assign = self.mode_stack.iter().rev().take(2).any(|m| matches!(m, LexerMode::MaybeMacroCallArgAssign { .. }));
            if has_args { 1 } else if has_assign { 2 } else { 0 }
        } else { 0 };
        let phase = 3 * armed + bonus;
        (big_r, phase, rem, wsum)
    }

