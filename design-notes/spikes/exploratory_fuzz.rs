use sas_lexer::{lex_program, LexResult, TokenType, TokenChannel, Payload};
use std::collections::BTreeMap;
struct Rng(u64);
impl Rng { fn next(&mut self)->u64{ self.0^=self.0<<13; self.0^=self.0>>7; self.0^=self.0<<17; self.0 } fn below(&mut self,n:usize)->usize{ (self.next()%(n as u64)) as usize } }
const FR: &[&str] = &[" ", "\n", ";", "a", "b1", "_x", "1", "2.5", "1e3", "0fx", "'s'", "'s''t'", "\"d\"", "\"d\"\"e\"", "\"", "'", "&", "&&", "&a", "&a.", "&&a&b..", "%", "%m", "%m(", "(", ")", ",", "=", "/", "/*c*/", "/*", "*", "* c;", "%*c;", "%let ", "%let a=", "%put ", "%do", "%do ", "%to ", "%by ", "%end", "%end;", "%if ", "%then ", "%else ", "%macro ", "%macro m(", "%mend", "%mend;", "%str(", "%nrstr(", "%eval(", "%sysevalf(", "%scan(", "%substr(", "%sysfunc(", "%qsysfunc(f(", "%upcase(", "%index(", "%local ", "%global ", "%goto ", "%copy ", "%syscall ", "%while(", "%until(", "%return", "%abort ", "%'", "%\"", "%%", "%(", "%)", "eq", " ne ", " and ", "or", "not ", "in", "#", "+", "-", "<=", ">=", "^=", "~", "datalines;", "cards4;", ";;;;", "$f1.", "$", "'a'x", "'4142'x", "\"4142\"x", "'a'd", "'a'dt", "\"a\"n", "é", "ы", "😀", "\u{2003}", "\u{feff}", "x", ":", "%lbl:", ".", "..", "|", "||", "!", "!!", "<>", "><", "=*", "@", "?", "{", "}", "[", "]", "readonly", "%local / ", "%sysmexecdepth", "%include ", "%run", "%list", "%window ", "%input ", "%sysexec ", "%symdel ", "%sysmacdelete ", "%kverify(", "%compstor(", "%validchs(", "%unquote(", "%bquote(", "%superq(", "%nrbquote(", "%cmpres(", "%left(", "%qscan(", "%ksubstr(", "%length(", "%datatyp(", "9999999999999999999999", "ffx", "1ex", "1e", "1.e5", ".5", "1.", "12x", "0123456789abcdefx", "%then", "%else", "%do;", "%do %while(", "%do %until(", "%do i=1 %to 3;", "a=", "%m(a=", "%m(a", "%m (", "%m /*c*/ (", "%m :", "\t", "\r\n"];
fn main(){
  let args: Vec<String> = std::env::args().collect();
  let seed: u64 = args.get(1).map(|s| s.parse().unwrap()).unwrap_or(1);
  let n: usize = args.get(2).map(|s| s.parse().unwrap()).unwrap_or(10000);
  let maxlen: usize = args.get(3).map(|s| s.parse().unwrap()).unwrap_or(8);
  let mut rng = Rng(seed.wrapping_mul(0x9E3779B97F4A7C15).wrapping_add(1));
  let mut fails: BTreeMap<String,(usize,String)> = BTreeMap::new();
  std::panic::set_hook(Box::new(|_|{}));
  for _ in 0..n {
    let k = 1+rng.below(maxlen); let mut s=String::new();
    for _ in 0..k { s.push_str(FR[rng.below(FR.len())]); }
    let s2=s.clone();
    let r = std::panic::catch_unwind(move || check(&s2));
    let v = match r { Ok(v)=>v, Err(e)=>{ let m = e.downcast_ref::<String>().cloned().or(e.downcast_ref::<&str>().map(|x|x.to_string())).unwrap_or_default(); vec![format!("PANIC {}", m.chars().take(60).collect::<String>())] } };
    for f in v { let e=fails.entry(f).or_insert((0,s.clone())); e.0+=1; if s.len()<e.1.len(){e.1=s.clone();} }
  }
  for (k,(c,s)) in fails { println!("{:6} {} :: {:?}", c,k,s); }
}
fn check(s:&str)->Vec<String>{
  let mut out=vec![];
  let LexResult{buffer,errors,..}=lex_program(&s).unwrap();
  let toks: Vec<_> = buffer.iter_tokens_infos().map(|(i,t)|(i,*t)).collect();
  // C01 internal
  for e in &errors { if e.error_kind().is_internal(){ out.push(format!("C01 internal {:?}", e.error_kind())); } }
  // C02
  let bom = if s.starts_with('\u{feff}') {3} else {0};
  if toks[0].1.byte_offset().get()!=bom { out.push("C02 first".into()); }
  for w in toks.windows(2){ if w[0].1.byte_offset()>w[1].1.byte_offset(){ out.push("C02 order".into()); } }
  let last=toks.last().unwrap().1; if last.token_type()!=TokenType::EOF || last.byte_offset().get() as usize!=s.len(){ out.push("C02 eof".into()); }
  if toks.iter().filter(|t|t.1.token_type()==TokenType::EOF).count()!=1 { out.push("C02 eofcount".into()); }
  // C03/C04
  for (i,t) in &toks { let b=t.byte_offset().get() as usize; if !s.is_char_boundary(b){ out.push("C02 boundary".into()); continue;} let pre=&s[..b];
    if pre.chars().count() as u32!=t.start().get(){ out.push("C03 tok".into()); }
    let line=1+pre.matches('\n').count() as u32; if t.line()!=line { out.push(format!("C04 line {:?}", t.token_type())); }
    let ls = pre.rfind('\n').map(|p|p+1).unwrap_or(0); let mut col=s[ls..b].chars().count() as u32; if ls==0 && bom==3 && b>=3 {col-=1;}
    if buffer.get_token_start_column(*i).unwrap()!=col { out.push("C04 col".into()); }
    let e=buffer.get_token_end_byte_offset(*i).unwrap().get() as usize; if e<b || !s.is_char_boundary(e) {continue;} let pre=&s[..e];
    let eline=1+pre.matches('\n').count() as u32; if buffer.get_token_end_line(*i).unwrap()!=eline { out.push(format!("C04 endline {:?} empty={}", t.token_type(), e==b)); }
    let ls = pre.rfind('\n').map(|p|p+1).unwrap_or(0); let mut col=s[ls..e].chars().count() as u32; if ls==0 && bom==3 && e>=3 {col-=1;}
    if buffer.get_token_end_column(*i).ok()!=Some(col) { out.push(format!("C04 endcol {:?} empty={}", t.token_type(), e==b)); }
  }
  if buffer.line_count()!=1+s.matches('\n').count() as u32 { out.push("C04 linecount".into()); }
  for e in &errors { let b=e.at_byte_offset() as usize; if b>s.len()||!s.is_char_boundary(b){out.push("C09 errpos".into());continue;} let pre=&s[..b];
    if pre.chars().count() as u32!=e.at_char_offset(){out.push("C03 err".into());}
    if 1+pre.matches('\n').count() as u32!=e.on_line(){out.push(format!("C04 errline {:?}",e.error_kind()));}
    match e.last_token(){ Some(ti)=>{ if ti.get() as usize>=toks.len(){out.push("C09 lasttok oob".into());} else if toks[ti.get() as usize].1.byte_offset().get() as usize>b {out.push(format!("C09 lasttok after {:?}",e.error_kind()));} } None=>{} }
  }
  for w in errors.windows(2){ if w[0].at_byte_offset()>w[1].at_byte_offset(){ out.push(format!("C09 errorder {:?} {:?}",w[0].error_kind(),w[1].error_kind())); } }
  // C09 missing expected
  use sas_lexer::error::ErrorKind as EK;
  for e in &errors { let tt=match e.error_kind(){EK::MissingExpectedAssign=>Some(TokenType::ASSIGN),EK::MissingExpectedLParen=>Some(TokenType::LPAREN),EK::MissingExpectedRParen=>Some(TokenType::RPAREN),EK::MissingExpectedComma=>Some(TokenType::COMMA),EK::MissingExpectedFSlash=>Some(TokenType::FSLASH),EK::MissingExpectedSemiOrEOF=>Some(TokenType::SEMI),_=>None};
    if let Some(tt)=tt { let ok=toks.iter().enumerate().any(|(k,(i,t))| t.token_type()==tt && t.byte_offset().get()==e.at_byte_offset() && buffer.get_token_end_byte_offset(*i).unwrap()==t.byte_offset() && k+1<toks.len()); if !ok { out.push(format!("C09 err-no-token {:?}",e.error_kind())); } } }
  for (k,(i,t)) in toks.iter().enumerate(){ if k+1==toks.len(){break;} let empty=buffer.get_token_end_byte_offset(*i).unwrap()==t.byte_offset(); if !empty {continue;}
    let ek=match t.token_type(){TokenType::ASSIGN=>Some(EK::MissingExpectedAssign),TokenType::LPAREN=>Some(EK::MissingExpectedLParen),TokenType::RPAREN=>Some(EK::MissingExpectedRParen),TokenType::COMMA=>Some(EK::MissingExpectedComma),TokenType::FSLASH=>Some(EK::MissingExpectedFSlash),TokenType::SEMI=>Some(EK::MissingExpectedSemiOrEOF),_=>None};
    if let Some(ek)=ek { let ok=errors.iter().any(|e|e.error_kind()==ek && e.at_byte_offset()==t.byte_offset().get()); if !ok && !(t.token_type()==TokenType::SEMI && t.byte_offset().get() as usize==s.len()) { out.push(format!("C09 token-no-err {:?}",t.token_type())); } }
    else if !matches!(t.token_type(), TokenType::MacroStringEmpty|TokenType::MacroSep|TokenType::DatalinesData|TokenType::StringExprEnd|TokenType::MacroString|TokenType::StringExprText) { out.push(format!("C06 empty {:?}",t.token_type())); }
    else if matches!(t.token_type(), TokenType::MacroString|TokenType::StringExprText|TokenType::StringExprEnd) { out.push(format!("C06 empty? {:?}",t.token_type())); }
  }
  // C05
  let rv=buffer.into_resolved_token_vec(); if rv.len()!=toks.len(){out.push("C05 len".into());}
  for (r,(i,t)) in rv.iter().zip(toks.iter()){ let ok = r.channel==t.channel()&&r.token_type==t.token_type()&&r.token_index==i.get()&&r.start==t.start().get()&&r.stop==buffer.get_token_end(*i).unwrap().get()&&r.line==t.line()&&Ok(r.column)==buffer.get_token_start_column(*i)&&Ok(r.end_line)==buffer.get_token_end_line(*i)&&Ok(r.end_column)==buffer.get_token_end_column(*i)&&r.payload==t.payload(); if !ok { out.push(format!("C05 mismatch empty={} ", r.start==r.stop)); } }
  // C07 partition
  let mut pos=0u32; for (_,t) in &toks { if let Payload::StringLiteral(a,b)=t.payload(){ if a!=pos||b<a{out.push(format!("C07 partition {:?}",t.token_type()));} pos=b; } } if pos as usize!=buffer.string_literals_buffer().len(){out.push("C07 partition tail".into());}
  // C10 string expr balance
  let mut depth=0i32; for (_,t) in &toks { match t.token_type(){ TokenType::StringExprStart=>depth+=1, TokenType::StringExprEnd|TokenType::BitTestingLiteralExprEnd|TokenType::DateLiteralExprEnd|TokenType::DateTimeLiteralExprEnd|TokenType::NameLiteralExprEnd|TokenType::TimeLiteralExprEnd|TokenType::HexStringLiteralExprEnd=>{depth-=1; if depth<0{out.push("C10 strexpr end w/o start".into()); depth=0;}}, TokenType::StringExprText=> if depth==0 {out.push("C10 text outside".into());}, _=>{} } } if depth!=0{out.push("C10 strexpr unclosed".into());}
  // channel
  for (_,t) in &toks { let is_c=matches!(t.token_type(),TokenType::CStyleComment|TokenType::PredictedCommentStat|TokenType::MacroComment); if is_c!=(t.channel()==TokenChannel::COMMENT){out.push("C06 comment channel".into());} if t.token_type()==TokenType::WS && t.channel()!=TokenChannel::HIDDEN {out.push("C06 ws channel".into());} if t.channel()==TokenChannel::HIDDEN && !matches!(t.token_type(),TokenType::WS|TokenType::CatchAll|TokenType::COLON|TokenType::KwmStr|TokenType::KwmNrStr|TokenType::LPAREN|TokenType::RPAREN){out.push(format!("C06 hidden {:?}",t.token_type()));} }

  // C16 / C17
  let dump=|src:&str|->Option<Vec<String>>{ let r=std::panic::catch_unwind(||{ let LexResult{buffer,errors,..}=lex_program(&src).unwrap(); let mut v=vec![]; for (_,t) in buffer.iter_tokens_infos(){ let p=match t.payload(){Payload::StringLiteral(a,b)=>format!("S{}-{}",a,b),Payload::Integer(i)=>format!("I{}",i),Payload::Float(f)=>format!("F{}",f.to_bits()),Payload::None=>"N".into()}; v.push(format!("{:?} {:?} {} {} {} {}",t.token_type(),t.channel(),t.byte_offset().get(),t.start().get(),t.line(),p)); } for e in &errors { v.push(format!("E {:?} {} {}",e.error_kind(),e.at_byte_offset(),e.last_token().map(|x|x.get() as i64).unwrap_or(-1))); } v }); r.ok() };
  let base=dump(s);
  let up: String = s.chars().map(|c| c.to_ascii_uppercase()).collect();
  let lo: String = s.chars().map(|c| c.to_ascii_lowercase()).collect();
  if let Some(b)=&base { if dump(&up).as_ref()!=Some(b) { out.push("C16 upper".into()); } if dump(&lo).as_ref()!=Some(b) { out.push("C16 lower".into()); } }
  out.sort(); out.dedup(); out
}
