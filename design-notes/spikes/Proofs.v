From Coq Require Import List NArith Lia Bool ZifyBool ZifyN.
Require Import Mini.
Import ListNotations.
Local Open Scope N_scope.

Fixpoint nlcount (p : list char) : N := match p with [] => 0 | x :: t => (if x =? NL then 1 else 0) + nlcount t end.
Lemma nlcount_app a b : nlcount (a ++ b) = nlcount a + nlcount b.
Proof. induction a; cbn [nlcount app]; lia. Qed.
Lemma nl_starts_len p b c : N.of_nat (length (nl_starts p b c)) = nlcount p.
Proof. revert b c; induction p as [|x p IH]; intros; cbn [nl_starts nlcount]; [reflexivity|].
  destruct (x =? NL); cbn [length]; rewrite ?Nat2N.inj_succ, ?IH; lia. Qed.

Definition first_line := {| l_byte := 0; l_start := 0 |}.

Section WithSrc.
Variable src : list char.

(* a position record is "the position after prefix p of src" *)
Definition at_prefix (p : list char) (b c l : N) : Prop := b = blen p /\ c = clen p /\ l = nlcount p.
Definition tok_ok (consumed : list char) (t : tok) : Prop :=
  exists p m, consumed = p ++ m /\ at_prefix p (t_byte t) (t_start t) (t_line t).

Record Inv (debt : bool) (s : st) : Prop := {
  i_total : total s = blen src;
  i_split : exists p, src = p ++ rest s /\ coff s = clen p
      /\ (exists p', p = p' ++ (if debt then [NL] else []) /\ rev (lines_r s) = first_line :: nl_starts p' 0 0)
      /\ (exists pc m, p = pc ++ m /\ at_prefix pc (ct_byte s) (ct_start s) (ct_line s))
      /\ Forall (tok_ok p) (toks_r s)
      /\ match toks_r s with [] => True | t :: _ => t_byte t <= ct_byte s end;
}.

Ltac inv_destruct H :=
  let Ht := fresh "Ht" in let p := fresh "p" in let Hs := fresh "Hsrc" in let Hc := fresh "Hcoff" in
  let p' := fresh "p'" in let Hp' := fresh "Hp'" in let Hl := fresh "Hlines" in
  let pc := fresh "pc" in let m := fresh "m" in let Hpc := fresh "Hpc" in let Hct := fresh "Hct" in
  let Hf := fresh "Htoks" in let Hso := fresh "Hsorted" in
  destruct H as [Ht (p & Hs & Hc & (p' & Hp' & Hl) & (pc & m & Hpc & Hct) & Hf & Hso)].

Lemma tok_ok_ext p x t : tok_ok p t -> tok_ok (p ++ x) t.
Proof. intros (q & m & -> & H). exists q, (m ++ x). now rewrite app_assoc. Qed.

Lemma advance_inv s c t : Inv false s -> rest s = c :: t -> Inv (c =? NL) (advance s).
Proof.
  intros H Hr. inv_destruct H. unfold advance; rewrite Hr. rewrite app_nil_r in Hp'; subst p'.
  constructor; cbn; [assumption|]. exists (p ++ [c]). rewrite Hr in Hsrc. repeat split.
  - now rewrite <- app_assoc.
  - rewrite clen_app. unfold clen at 2. cbn. lia.
  - destruct (c =? NL) eqn:E.
    + exists p. apply N.eqb_eq in E; subst c. split; [reflexivity|assumption].
    + exists (p ++ [c]). rewrite app_nil_r. split; [reflexivity|]. rewrite nl_starts_app. cbn [nl_starts]. rewrite E, app_nil_r. assumption.
  - exists pc, (m ++ [c]). rewrite Hpc, app_assoc. split; [reflexivity|assumption].
  - eapply Forall_impl; [|exact Htoks]. intros a Ha. now apply tok_ok_ext.
  - assumption.
Qed.

Lemma advance_nil s d : Inv d s -> rest s = [] -> Inv d (advance s).
Proof. intros H Hr. unfold advance. now rewrite Hr. Qed.

Lemma cur_byte_split s p : total s = blen src -> src = p ++ rest s -> cur_byte s = blen p.
Proof. intros Ht Hs. unfold cur_byte. rewrite Ht. rewrite Hs at 1. rewrite blen_app. lia. Qed.

Lemma add_line_inv s : Inv true s -> Inv false (add_line s).
Proof.
  intros H. inv_destruct H. constructor; cbn; [assumption|]. exists p. repeat split; try assumption.
  - exists p. rewrite app_nil_r. split; [reflexivity|]. cbn [rev]. rewrite Hlines. subst p.
    rewrite nl_starts_app. cbn [nl_starts]. rewrite N.eqb_refl. cbn [app].
    rewrite (cur_byte_split s (p' ++ [NL])); try assumption. rewrite Hcoff.
    rewrite blen_app, clen_app. unfold clen at 2. cbn. rewrite !N.add_0_l, !N.add_0_r. reflexivity.
  - exists pc, m. split; assumption.
Qed.

Lemma emit_inv d ty s : Inv d s -> Inv d (emit ty s).
Proof.
  intros H. inv_destruct H. constructor; cbn; [assumption|]. exists p. repeat split; try assumption.
  - exists p'. split; assumption.
  - exists pc, m. split; assumption.
  - constructor; [|assumption]. exists pc, m. split; [assumption|]. exact Hct.
  - lia.
Qed.

Lemma start_token_inv s : Inv false s -> Inv false (start_token s).
Proof.
  intros H. inv_destruct H. rewrite app_nil_r in Hp'; subst p'. constructor; cbn; [assumption|]. exists p. repeat split; try assumption.
  - exists p. rewrite app_nil_r. split; [reflexivity|assumption].
  - exists p, []. rewrite app_nil_r. split; [reflexivity|]. repeat split.
    + now apply cur_byte_split.
    + assumption.
    + rewrite <- (rev_length (lines_r s)), Hlines. cbn [length]. rewrite Nat2N.inj_succ.
      pose proof (nl_starts_len p 0 0) as E. lia.
  - destruct (toks_r s) as [|t ts]; [exact I|]. apply Forall_inv in Htoks. destruct Htoks as (q & m' & Hq & Hb & _).
    rewrite (cur_byte_split s p); try assumption. rewrite Hb, Hq, blen_app. lia.
Qed.

(* loop rule *)
Lemma loop_rule (P Q : st -> Prop) body fuel s :
  (forall s, P s -> match body s with (true, s') => P s' /\ (length (rest s') < length (rest s))%nat | (false, s') => Q s' end) ->
  P s -> (length (rest s) < fuel)%nat -> Q (loop fuel body s).
Proof.
  intros Hb. revert s. induction fuel as [|f IH]; intros s HP Hf; [lia|]. cbn [loop].
  specialize (Hb s HP). destruct (body s) as [[|] s']; [|assumption]. destruct Hb as [HP' Hlt]. apply IH; [assumption|lia].
Qed.
Lemma while_rule (P Q : st -> Prop) body s :
  (forall s, P s -> match body s with (true, s') => P s' /\ (length (rest s') < length (rest s))%nat | (false, s') => Q s' end) ->
  P s -> Q (while_rest body s).
Proof. intros Hb HP. unfold while_rest. eapply loop_rule; [exact Hb|exact HP|lia]. Qed.

Lemma rest_advance s c t : rest s = c :: t -> rest (advance s) = t.
Proof. intros H. unfold advance. now rewrite H. Qed.
Lemma rest_add_line s : rest (add_line s) = rest s. Proof. reflexivity. Qed.
Lemma rest_emit ty s : rest (emit ty s) = rest s. Proof. reflexivity. Qed.
Lemma rest_start s : rest (start_token s) = rest s. Proof. reflexivity. Qed.

(* advance followed by conditional add_line: the fused step, debt-free *)
Lemma adv_nl_inv s c t : Inv false s -> rest s = c :: t ->
  Inv false (if c =? NL then add_line (advance s) else advance s).
Proof. intros H Hr. pose proof (advance_inv s c t H Hr) as H'. destruct (c =? NL); [now apply add_line_inv|assumption]. Qed.

Lemma lex_ws_inv s c t : Inv false s -> rest s = c :: t -> Inv false (lex_ws s).
Proof.
  intros H Hr. unfold lex_ws. apply emit_inv.
  apply (while_rule (fun s => Inv false s /\ rest s <> []) (Inv false)); [|split; [assumption|congruence]].
  clear H Hr. clear s c t. intros s [H Hne]. destruct (rest s) as [|c t] eqn:Hr; [congruence|].
  cbv beta zeta.
  assert (Hpk : peek s = Some c) by (unfold peek; rewrite Hr; reflexivity). rewrite !Hpk.
  pose proof (adv_nl_inv s c t H Hr) as H'.
  assert (Hrest : rest (if c =? NL then add_line (advance s) else advance s) = t).
  { destruct (c =? NL); [rewrite rest_add_line|]; eapply rest_advance; eassumption. }
  set (s1 := if c =? NL then add_line (advance s) else advance s) in *.
  unfold peek. rewrite Hrest. destruct t as [|c' t']; cbn [hd_error]; [assumption|].
  destruct (is_ws c'); [|assumption].
  split; [split; [assumption|congruence]|cbn; lia].
Qed.

Lemma not_nl_47 c : c = 47 -> (c =? NL) = false. Proof. intros ->; reflexivity. Qed.

Lemma lex_cmt_inv s : Inv false s -> (exists t, rest s = 47 :: 42 :: t) -> Inv false (lex_cstyle_comment s).
Proof.
  intros H [t Hr]. unfold lex_cstyle_comment. apply emit_inv.
  assert (H1 : Inv false (advance s)) by (apply (advance_inv s 47 (42 :: t)); assumption).
  assert (Hr1 : rest (advance s) = 42 :: t) by (eapply rest_advance; eassumption).
  assert (H2 : Inv false (advance (advance s))) by (apply (advance_inv _ 42 t); assumption).
  apply (while_rule (Inv false) (Inv false)); [|assumption].
  clear H Hr H1 Hr1 H2. clear s t. intros s H. unfold peek at 1. destruct (rest s) as [|c t] eqn:Hr; cbn [hd_error]; [assumption|].
  pose proof (advance_inv s c t H Hr) as H'. pose proof (rest_advance s c t Hr) as Hr'.
  cbv zeta. destruct ((c =? 42) && _) eqn:E.
  - apply andb_prop in E. destruct E as [E E2]. replace (c =? NL) with false in H' by (unfold NL; lia).
    unfold peek in E2. rewrite Hr' in E2. destruct t as [|c' t']; [discriminate|]. cbn [hd_error] in E2.
    pose proof (advance_inv _ c' t' H' Hr') as H''.
    assert (c' = 47) by (destruct c' as [|q]; [discriminate|]; repeat (destruct q as [q|q|]; try discriminate); reflexivity).
    rewrite (not_nl_47 c') in H'' by assumption. exact H''.
  - split.
    + destruct (c =? NL); [now apply add_line_inv|assumption].
    + destruct (c =? NL); rewrite ?rest_add_line, Hr'; cbn; lia.
Qed.

Lemma dispatch_inv s c t : Inv false s -> rest s = c :: t ->
  Inv false (dispatch_default c s) /\ (length (rest (dispatch_default c s)) < length (rest s))%nat.
Proof. Abort.
End WithSrc.
