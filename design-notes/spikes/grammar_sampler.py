import random, subprocess, sys, collections
R=random.Random(int(sys.argv[1]) if len(sys.argv)>1 else 1)
N=int(sys.argv[2]) if len(sys.argv)>2 else 3000
MAXD=int(sys.argv[3]) if len(sys.argv)>3 else 4
KW_ONEARG="index kindex length klength qlowcase qklowcase upcase kupcase qupcase qkupcase sysmexecname sysprod quote nrquote bquote nrbquote superq unquote symexist symglobl symlocal sysget sysmacexec sysmacexist".split()
KW_MANY="datatyp lowcase klowcase cmpres qcmpres kcmpres qkcmpres left qleft kleft qkleft trim qtrim ktrim qktrim".split()
KW_NAMED="compstor validchs verify kverify".split()
MNEM="eq ne lt le gt ge and or not in".split()
used=collections.Counter()
def pick(*xs): return R.choice(xs)
def case(w): return ''.join(c.upper() if R.random()<0.3 else c for c in w)
def gap(nonempty=False):
    parts=[]
    k=R.choice([0,0,1,1,2]) if not nonempty else R.choice([1,1,2])
    for _ in range(k): parts.append(pick(' ','  ','\n',' ','\t','/* c */','/*x;,=)(*/'))
    if nonempty and not any(p.strip()=='' for p in parts): parts.insert(0,' ')
    return ''.join(parts)
def G(): return gap()
def G1(): return gap(True)
def name(): return pick('a','b1','_x','var','abc_d','n')
def uname(): return pick('m','mymac','util_x','m2','zz')
def word():
    w=pick('x','abc','v1','a.b','1','42','x-y','k:','$c','a+b','q!')
    return w
def evalword(): return pick('x','abc','v1','7','42','0','zz9')
def mvar(d):
    used['MVar']+=1
    return pick('&a','&a.','&&a&b','&&pre&i..s','&a&b','&&&x')
def sq(): used['sq']+=1; return sq0()+'\x01SEP'
def sq0(): return pick("'s'","'it''s'","''","'a;b,c)('","'x'n","'01jan2020'd","'4142'x","'0'b","'12:00't","'a'dt")
def dq(d):
    used['DQ']+=1
    parts=[]
    for _ in range(R.randint(0,3)):
        c=R.random()
        if c<0.4 or d<=0: parts.append(pick('text','a b',' ','""','x;y','(',',',"'"))
        elif c<0.6: parts.append(mvar(d))
        elif c<0.8: parts.append(call(d-1,stmt=False))
        else: parts.append(builtin(d-1))
    return '"'+''.join(parts)+'"'+pick('','','','n','d')+'\x01SEP'
def strtext(d):
    parts=[]
    for _ in range(R.randint(0,4)):
        parts.append(pick('a',' ',',',';','=','%%',"%'",'%"','%(','%)','x y','+','/','-'))
    if d>0 and R.random()<0.3: parts.append('('+strtext(d-1)+')')
    return ''.join(parts)
def strcall(d):
    used['Str']+=1
    return '%'+case(pick('str','nrstr'))+G()+'('+strtext(d)+')'
def value(d, allow_empty=True):
    parts=[]
    for _ in range(R.randint(0 if allow_empty else 1,3)):
        c=R.random()
        if c<0.35 or d<=0: parts.append(word())
        elif c<0.45: parts.append(' ')
        elif c<0.55: parts.append('('+balanced(d-1)+')')
        elif c<0.62: parts.append(sq())
        elif c<0.7: parts.append(dq(d-1))
        elif c<0.8: parts.append(mvar(d))
        elif c<0.87: parts.append(call(d-1,stmt=False))
        elif c<0.94: parts.append(builtin(d-1))
        else: parts.append(strcall(d-1))
    return ''.join(parts)
def balanced(d):
    parts=[]
    for _ in range(R.randint(1,3)):
        parts.append(pick(value(d), ',', ';', '=', ' '))
    return ''.join(parts)
def arg(d, named_ok=True):
    s=G()
    if named_ok and R.random()<0.4: s+=name()+G()+'='+G()
    return s+value(d)
def call(d, stmt=False):
    used['Call']+=1
    s='%'+uname()
    if R.random()<0.7:
        s+=pick('','',' ','/*c*/')+'('+','.join(arg(d) for _ in range(R.randint(1,3)))+')'
    else:
        s+='\x00NOPAREN'   # marker: must not be followed by gap+( ; removed later
    return s
def operand(d):
    c=R.random()
    if c<0.3 or d<=0: return pick('1','42','0','7',evalword())
    if c<0.45: return mvar(d)
    if c<0.55: return call(d-1)
    if c<0.7: return builtin(d-1)
    if c<0.78: return sq()
    if c<0.85: return dq(d-1)
    return '('+G()+evalexpr(d-1)+G()+')'
def op(): return pick('+','-','*','**','/','<','<=','>','>=','=','^=','~=','#',' eq ',' ne ',' lt ',' le ',' gt ',' ge ',' and ',' or ',' in ','&','|')
def evalexpr(d):
    used['Eval']+=1
    s=operand(d)
    for _ in range(R.randint(0,2)): s+=G()+op()+G()+operand(d)
    return s
def nameexpr(d):
    c=R.random()
    if c<0.6 or d<=0: return name()
    if c<0.8: return name()+mvar(d)
    return mvar(d)
def builtin(d):
    c=R.randint(0,8)
    used['Builtin%d'%c]+=1
    if c==0: return '%'+case('eval')+G()+'('+G()+evalexpr(d)+')'
    if c==1: return '%'+case('sysevalf')+G()+'('+G()+evalexpr(d)+(','+G()+pick('boolean','ceil','floor','integer') if R.random()<0.4 else '')+')'
    if c==2: return '%'+case(pick('scan','qscan','kscan','qkscan'))+G()+'('+G()+value(d,False)+','+G()+evalexpr(d)+(','+G()+value(d) if R.random()<0.5 else '')+')'
    if c==3: return '%'+case(pick('substr','qsubstr','ksubstr','qksubstr'))+G()+'('+G()+value(d,False)+','+G()+evalexpr(d)+(','+G()+evalexpr(d) if R.random()<0.5 else '')+')'
    if c==4: return '%'+case(R.choice(KW_ONEARG))+G()+'('+G()+balanced(d)+')'
    if c==5: return '%'+case(R.choice(KW_MANY))+G()+'('+','.join(G()+value(d) for _ in range(R.randint(1,3)))+')'
    if c==6: return '%'+case(R.choice(KW_NAMED))+G()+'('+','.join(arg(d) for _ in range(R.randint(1,3)))+')'
    if c==7: return '%'+case(pick('sysfunc','qsysfunc'))+G()+'('+G()+pick('cats','substr','putn','today')+G()+'('+G()+','.join((G() if i else '')+evalexpr(d) for i in range(R.randint(1,3)))+')'+G()+(','+G()+pick('best.','date9.','8.2') if R.random()<0.4 else '')+')'
    return '%sysmexecdepth'
def text(d):
    parts=[]
    for _ in range(R.randint(0,4)):
        c=R.random()
        if c<0.4 or d<=0: parts.append(pick('abc','1',' ','a b','x=y','(p)',',','/','-','+','.'))
        elif c<0.5: parts.append(mvar(d))
        elif c<0.6: parts.append(sq())
        elif c<0.7: parts.append(dq(d-1))
        elif c<0.8: parts.append(call(d-1))
        elif c<0.9: parts.append(builtin(d-1))
        else: parts.append(strcall(d-1))
    return ''.join(parts)
def otok(d):
    c=R.random()
    if c<0.3 or d<=0: return pick('x','data','set','abc','_n_','run','proc','sql','ыы','é1')
    if c<0.4: return pick('1','2.5','1e3','0fx','.5','12')
    if c<0.5: return sq()
    if c<0.58: return dq(d-1)
    if c<0.7: return pick('=','+','-','(',')',',','<=','||','**','*','/','.','$f1.','@','{','}','[',']','<>','^=','!','?','#',':')
    if c<0.8: return mvar(d)
    if c<0.9: return call(d-1)
    return builtin(d-1)
def openstmt(d):
    used['Open']+=1
    first=otok(d)
    while first in ('*','**'): first=otok(d)
    s=first
    for _ in range(R.randint(0,4)): s+=G1()+otok(d)
    return s+G()+';'
def cmt():
    used['Cmt']+=1
    return pick('/* c ; */','* stat comment '+pick("","'q'",'(,)')+';','%* macro '+pick('',"'a;b'",'"x;y"')+' comment;')
def data():
    used['Data']+=1
    four=R.random()<0.3
    return case(pick('datalines','cards','lines'))+('4' if four else '')+pick('',' ','\n')+';'+pick('\n1 2\n3 4\n','\n','\nabc, %x &y\n','')+(';;;;' if four else ';')
def body(d):
    c=R.random()
    if c<0.35 and d>0: return do(d-1)
    if c<0.6: return mstmt(d-1, nodo=True)
    if c<0.85: return openstmt(d-1)
    return call(d-1)+G()+';'
def do(d):
    c=R.randint(0,2)
    used['Do%d'%c]+=1
    inner=''.join(G()+item(d-1) for _ in range(R.randint(0,2))) if d>0 else ''
    end=G()+'%'+case('end')+G()+';'
    if c==0: return '%'+case('do')+G()+';'+inner+end
    if c==1: return '%do'+G1()+nameexpr(d)+G()+'='+G()+evalexpr(d)+G1()+'%'+case('to')+G1()+evalexpr(d)+(G1()+'%by'+G1()+evalexpr(d) if R.random()<0.4 else '')+G()+';'+inner+end
    return '%do'+G1()+'%'+case(pick('while','until'))+G()+'('+G()+evalexpr(d)+')'+G()+';'+inner+end
def mstmt(d, nodo=False):
    c=R.randint(0,7 if not nodo else 5)
    used['MStmt%d'%c]+=1
    if c==0: return '%'+case('let')+G1()+nameexpr(d)+G()+'='+G()+text(d)+';'
    if c==1: return '%'+case('put')+G1()+text(d)+';'
    if c==2: return '%'+case('goto')+G1()+nameexpr(d)+G()+';'
    if c==3: return '%'+case(pick('local','global'))+''.join(G1()+nameexpr(d) for _ in range(R.randint(1,3)))+G()+';'
    if c==4: return '%'+pick('local','global')+G()+'/'+G()+'readonly'+G1()+name()+G()+'='+G()+text(d)+';'
    if c==5: return '%'+case('if')+G1()+evalexpr(d)+G1()+'%'+case('then')+G1()+body(d)+(G()+'%'+case('else')+G1()+body(d) if R.random()<0.5 else '')
    if c==6: return do(d)
    return '%return'+G()+';'
def mdef(d):
    used['MDef']+=1
    s='%'+case('macro')+G1()+uname()
    if R.random()<0.6:
        ps=[]
        for _ in range(R.randint(0,3)):
            p=name()
            if R.random()<0.5: p+=G()+'='+G()+value(d)
            ps.append(p)
        s+=G()+'('+G()+(G()+','+G()).join(ps)+G()+')'
    if R.random()<0.2: s+=G()+'/'+G()+pick('store','minoperator','des="x"','store source')
    s+=G()+';'
    for _ in range(R.randint(0,3)): s+=G()+item(d-1)
    s+=G()+'%'+case('mend')+(G1()+uname() if R.random()<0.4 else '')+G()+';'
    return s
def item(d):
    c=R.random()
    if d<=0 or c<0.3: return openstmt(d)
    if c<0.4: return cmt()
    if c<0.5: return data()
    if c<0.75: return mstmt(d)
    if c<0.85: return mdef(d)
    return call(d-1)+G()+';'
def fix_sep(s):
    import re
    # a literal must not be directly followed by a name character (would read as suffix/identifier): insert a space
    return re.sub('\x01SEP(?=[A-Za-z0-9_])',' ',s).replace('\x01SEP','')
def fix_noparen(s):
    # a paren-less call must not be followed by gap + '(' ; drop a following '(' case by inserting '.'? simply remove marker and if followed by gap+'(' or gap+':' insert ';'-free separator '.'
    out=[];i=0
    while True:
        j=s.find('\x00NOPAREN',i)
        if j<0: out.append(s[i:]); break
        out.append(s[i:j]); k=j+len('\x00NOPAREN'); t=s[k:]
        # skip gaps
        import re
        m=re.match(r'(\s|/\*.*?\*/)*',t,re.S)
        nxt=t[m.end():m.end()+1]
        if nxt in '(:' or re.match(r'[A-Za-z0-9_]',t[:1] or ' '): out.append(' .' if nxt in '(:' else ' ')   # separator char ends the call
        i=k
    return ''.join(out)
progs=[]
for _ in range(N):
    p=''.join(pick('',' ','\n')+item(MAXD) for _ in range(R.randint(1,4)))
    progs.append(fix_sep(fix_noparen(p)))
data_in='\n'.join(x.encode().hex() for x in progs)+'\n'
out=subprocess.run(['/tmp/dump_sep'],input=data_in.encode(),capture_output=True).stdout.decode().split('\n')[:-1]
bad=0; kinds=collections.Counter(); ex={}
for p,o in zip(progs,out):
    if o=='PANIC': kinds['PANIC']+=1; ex.setdefault('PANIC',p) if len(p)<len(ex.get('PANIC','x'*10**6)) or 'PANIC' not in ex else None; 
    else:
        errs=o.split('|')[1].split()
        for e in errs:
            k=e.split(':')[0]; kinds[k]+=1
            if k not in ex or len(p)<len(ex[k]): ex[k]=p
        if errs: bad+=1
print('programs',N,'with errors',bad,dict(kinds))
for k,v in ex.items(): print(k,repr(v))
