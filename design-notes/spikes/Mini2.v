From Coq Require Import List NArith Lia Bool ZifyBool ZifyN.
Import ListNotations.
Local Open Scope N_scope.
Arguments N.add : simpl never. Arguments N.sub : simpl never. Arguments N.ltb : simpl never. Arguments N.eqb : simpl never. Arguments N.leb : simpl never.

(* ---------- Text ---------- *)
Definition char := N.
Definition NL : char := 10.
Definition utf8_len (c : char) : N :=
  if c <? 128 then 1 else if c <? 2048 then 2 else if c <? 65536 then 3 else 4.
Lemma utf8_len_pos c : 1 <= utf8_len c. Proof. unfold utf8_len. repeat destruct (_ <? _); lia. Qed.
Fixpoint blen (l : list char) : N := match l with [] => 0 | c :: t => utf8_len c + blen t end.
Definition clen (l : list char) : N := N.of_nat (length l).
Lemma blen_app a b : blen (a ++ b) = blen a + blen b. Proof. induction a; cbn [blen app]; lia. Qed.
Lemma clen_app a b : clen (a ++ b) = clen a + clen b. Proof. unfold clen. rewrite app_length. lia. Qed.

Record linfo := { l_byte : N; l_start : N }.
Record tok := { t_ty : N; t_byte : N; t_start : N; t_line : N }.

(* line starts contributed by prefix p, scanning from offsets (b,c) *)
Fixpoint nl_starts (p : list char) (b c : N) : list linfo :=
  match p with
  | [] => []
  | x :: t => let b' := b + utf8_len x in let c' := c + 1 in
              if x =? NL then {| l_byte := b'; l_start := c' |} :: nl_starts t b' c' else nl_starts t b' c'
  end.
Lemma nl_starts_app p q b c : nl_starts (p ++ q) b c = nl_starts p b c ++ nl_starts q (b + blen p) (c + clen p).
Proof.
  revert b c; induction p as [|x p IH]; intros b c; cbn [app nl_starts blen].
  - unfold clen; cbn. now rewrite !N.add_0_r.
  - rewrite IH. replace (b + utf8_len x + blen p) with (b + (utf8_len x + blen p)) by lia.
    replace (c + 1 + clen p) with (c + clen (x :: p)) by (unfold clen; cbn [length]; lia).
    destruct (x =? NL); reflexivity.
Qed.

(* ---------- State ---------- *)
Record st := {
  total : N; rest : list char; coff : N; rem : N; fuel0 : nat; nlines : N;
  lines_r : list linfo; toks_r : list tok;
  ct_byte : N; ct_start : N; ct_line : N;
}.
Definition cur_byte (s : st) := total s - rem s.
Definition set_cursor (s : st) r c rm := {| total := total s; rest := r; coff := c; rem := rm; fuel0 := fuel0 s; nlines := nlines s; lines_r := lines_r s; toks_r := toks_r s; ct_byte := ct_byte s; ct_start := ct_start s; ct_line := ct_line s |}.
Definition advance (s : st) : st := match rest s with [] => s | x :: t => set_cursor s t (coff s + 1) (rem s - utf8_len x) end.
Definition add_line (s : st) : st :=
  {| total := total s; rest := rest s; coff := coff s; rem := rem s; fuel0 := fuel0 s; nlines := nlines s + 1; lines_r := {| l_byte := cur_byte s; l_start := coff s |} :: lines_r s;
     toks_r := toks_r s; ct_byte := ct_byte s; ct_start := ct_start s; ct_line := ct_line s |}.
Definition start_token (s : st) : st :=
  {| total := total s; rest := rest s; coff := coff s; rem := rem s; fuel0 := fuel0 s; nlines := nlines s; lines_r := lines_r s; toks_r := toks_r s;
     ct_byte := cur_byte s; ct_start := coff s; ct_line := nlines s - 1 |}.
Definition emit (ty : N) (s : st) : st :=
  {| total := total s; rest := rest s; coff := coff s; rem := rem s; fuel0 := fuel0 s; nlines := nlines s; lines_r := lines_r s;
     toks_r := {| t_ty := ty; t_byte := ct_byte s; t_start := ct_start s; t_line := ct_line s |} :: toks_r s;
     ct_byte := ct_byte s; ct_start := ct_start s; ct_line := ct_line s |}.
Definition peek (s : st) : option char := hd_error (rest s).
Definition peek_next (s : st) : char := match rest s with _ :: c :: _ => c | _ => 0 end.

(* loop combinator: body returns (continue?, state); fuel = remaining chars + 1 *)
Fixpoint loop (fuel : nat) (body : st -> bool * st) (s : st) : st :=
  match fuel with O => s | S f => let '(k, s') := body s in if k then loop f body s' else s' end.
Definition while_rest (body : st -> bool * st) (s : st) : st := loop (fuel0 s) body s.

(* ---------- Handlers (mirroring the Rust) ---------- *)
Definition is_ws (c : char) := (c =? 32) || (c =? 9) || (c =? NL) || (c =? 13).
Definition T_WS := 3. Definition T_SEMI := 4. Definition T_CATCH := 2. Definition T_CMT := 70. Definition T_EOF := 0.

Definition lex_ws (s : st) : st :=
  let s := while_rest (fun s =>
      let c := peek s in
      let s := advance s in
      let s := match c with Some c => if c =? NL then add_line s else s | None => s end in
      (match peek s with Some c => is_ws c | None => false end, s)) s in
  emit T_WS s.

Definition lex_cstyle_comment (s : st) : st :=
  let s := advance (advance s) in
  let s := while_rest (fun s =>
      match peek s with
      | None => (false, s)
      | Some c => let s := advance s in
          if (c =? 42) && (match peek s with Some 47 => true | _ => false end) then (false, advance s)
          else (true, if c =? NL then add_line s else s)
      end) s in
  emit T_CMT s.

Definition dispatch_default (c : char) (s : st) : st :=
  let s := start_token s in
  if is_ws c then lex_ws s
  else if (c =? 47) && (peek_next s =? 42) then lex_cstyle_comment s
  else if c =? 59 then emit T_SEMI (advance s)
  else emit T_CATCH (advance s).

Definition lex_loop (s : st) : st :=
  while_rest (fun s => match peek s with None => (false, s) | Some c => (true, dispatch_default c s) end) s.

Definition finalize (s : st) : st := emit T_EOF (start_token s).
Definition init (src : list char) : st :=
  {| total := blen src; rest := src; coff := 0; rem := blen src; fuel0 := S (length src); nlines := 1; lines_r := [{| l_byte := 0; l_start := 0 |}]; toks_r := [];
     ct_byte := 0; ct_start := 0; ct_line := 0 |}.
Definition lex (src : list char) : st := finalize (lex_loop (init src)).

