From Coq Require Import List NArith Lia Bool.
Require Import Mini.
Import ListNotations.
Local Open Scope N_scope.

Definition sh_l (l : linfo) := {| l_byte := l_byte l + 3; l_start := l_start l + 1 |}.
Definition sh_t (t : tok) := {| t_ty := t_ty t; t_byte := t_byte t + 3; t_start := t_start t + 1; t_line := t_line t |}.
Definition shift (s : st) : st :=
  {| total := total s + 3; rest := rest s; coff := coff s + 1; lines_r := map sh_l (lines_r s); toks_r := map sh_t (toks_r s);
     ct_byte := ct_byte s + 3; ct_start := ct_start s + 1; ct_line := ct_line s |}.

(* side condition: cursor has not run past total (always true under Inv) *)
Definition ok (s : st) := blen (rest s) <= total s.

Lemma peek_shift s : peek (shift s) = peek s. Proof. reflexivity. Qed.
Lemma peek_next_shift s : peek_next (shift s) = peek_next s. Proof. reflexivity. Qed.
Lemma rest_shift s : rest (shift s) = rest s. Proof. reflexivity. Qed.
Lemma advance_shift s : advance (shift s) = shift (advance s).
Proof. unfold advance, shift; cbn. destruct (rest s) eqn:E; cbn; rewrite ?E; reflexivity. Qed.
Lemma cur_byte_shift s : ok s -> cur_byte (shift s) = cur_byte s + 3.
Proof. unfold ok, cur_byte, shift; cbn. lia. Qed.
Lemma add_line_shift s : ok s -> add_line (shift s) = shift (add_line s).
Proof. intros H. unfold add_line. rewrite cur_byte_shift by assumption. reflexivity. Qed.
Lemma start_token_shift s : ok s -> start_token (shift s) = shift (start_token s).
Proof. intros H. unfold start_token. rewrite cur_byte_shift by assumption. unfold shift; cbn. rewrite map_length. reflexivity. Qed.
Lemma emit_shift ty s : emit ty (shift s) = shift (emit ty s). Proof. reflexivity. Qed.

Lemma ok_advance s : ok s -> ok (advance s).
Proof. unfold ok, advance. destruct (rest s) eqn:E; cbn; rewrite ?E; cbn [blen]; lia. Qed.
Lemma ok_add_line s : ok s -> ok (add_line s). Proof. exact (fun H => H). Qed.
Lemma ok_emit ty s : ok s -> ok (emit ty s). Proof. exact (fun H => H). Qed.
Lemma ok_start s : ok s -> ok (start_token s). Proof. exact (fun H => H). Qed.

Lemma loop_shift body fuel : 
  (forall s, ok s -> body (shift s) = (fst (body s), shift (snd (body s))) /\ ok (snd (body s))) ->
  forall s, ok s -> loop fuel body (shift s) = shift (loop fuel body s) /\ ok (loop fuel body s).
Proof.
  intros Hb. induction fuel as [|f IH]; intros s Hs; cbn [loop]; [split; [reflexivity|assumption]|].
  destruct (Hb s Hs) as [E Hok]. rewrite E. destruct (body s) as [k s']; cbn [fst snd] in *.
  destruct k; [apply IH; assumption|split; [reflexivity|assumption]].
Qed.
Lemma while_shift body :
  (forall s, ok s -> body (shift s) = (fst (body s), shift (snd (body s))) /\ ok (snd (body s))) ->
  forall s, ok s -> while_rest body (shift s) = shift (while_rest body s) /\ ok (while_rest body s).
Proof. intros Hb s Hs. unfold while_rest. rewrite rest_shift. now apply loop_shift. Qed.

Ltac shift_step :=
  repeat first
    [ rewrite peek_shift | rewrite peek_next_shift | rewrite rest_shift | rewrite advance_shift | rewrite emit_shift
    | rewrite add_line_shift by (repeat first [assumption | apply ok_advance | apply ok_add_line | apply ok_emit | apply ok_start])
    | rewrite start_token_shift by (repeat first [assumption | apply ok_advance | apply ok_add_line | apply ok_emit | apply ok_start]) ].
Ltac ok_solve := repeat first [assumption | apply ok_advance | apply ok_add_line | apply ok_emit | apply ok_start
                               | match goal with |- ok (if ?b then _ else _) => destruct b end
                               | match goal with |- ok (match ?x with _ => _ end) => destruct x end ].

Lemma lex_ws_shift s : ok s -> lex_ws (shift s) = shift (lex_ws s) /\ ok (lex_ws s).
Proof.
  intros Hs. unfold lex_ws.
  match goal with |- context [while_rest ?b (shift s)] => destruct (while_shift b) with (s := s) as [E Hok]; [|assumption|] end.
  - clear s Hs. intros s Hs. cbv zeta. shift_step. destruct (peek s) as [c|]; cbn [fst snd].
    + destruct (c =? NL); shift_step; (split; [reflexivity|ok_solve]).
    + shift_step. split; [reflexivity|ok_solve].
  - rewrite E, emit_shift. split; [reflexivity|ok_solve].
Qed.

Lemma lex_cmt_shift s : ok s -> lex_cstyle_comment (shift s) = shift (lex_cstyle_comment s) /\ ok (lex_cstyle_comment s).
Proof.
  intros Hs. unfold lex_cstyle_comment. shift_step.
  match goal with |- context [while_rest ?b (shift ?x)] => destruct (while_shift b) with (s := x) as [E Hok]; [|ok_solve|] end.
  - clear s Hs. intros s Hs. shift_step. destruct (peek s) as [c|]; cbn [fst snd]; [|split; [reflexivity|assumption]].
    cbv zeta. shift_step. destruct ((c =? 42) && _); cbn [fst snd]; shift_step.
    + split; [reflexivity|ok_solve].
    + destruct (c =? NL); shift_step; (split; [reflexivity|ok_solve]).
  - rewrite E, emit_shift. split; [reflexivity|ok_solve].
Qed.
