(** * hex.rs: a hex string literal is decoded exactly when its body (commas removed) is a
    sequence of hex digit pairs; the decoded value is the Latin-1 text of the bytes. *)
From Coq Require Import NArith List Bool Lia Arith.
From SasLexer Require Import Gen.TokenType Gen.ErrorKind Gen.Channel Model.Base Model.Helpers Model.Numeric.
Import ListNotations.
Open Scope N_scope.

Fixpoint pairs_ok (l : list char) : bool :=
  match l with
  | [] => true
  | a :: b :: r => is_ascii_hexdigit a && is_ascii_hexdigit b && pairs_ok r
  | [_] => false
  end.

Fixpoint decode_pairs (l : list char) : list N :=
  match l with
  | a :: b :: r => (16 * hexdigit_val a + hexdigit_val b) :: decode_pairs r
  | _ => []
  end.

Lemma hex_pairs_spec : forall n l, (List.length l <= n)%nat ->
  hex_pairs l = if pairs_ok l then Some (decode_pairs l) else None.
Proof.
  induction n as [|n IH]; intros l Hn.
  - destruct l; [reflexivity|cbn in Hn; lia].
  - destruct l as [|a [|b r]]; [reflexivity|reflexivity|].
    cbn [hex_pairs pairs_ok decode_pairs].
    destruct (is_ascii_hexdigit a && is_ascii_hexdigit b); [|reflexivity].
    rewrite (IH r) by (cbn in Hn; lia). cbn [andb]. destruct (pairs_ok r); reflexivity.
Qed.

Lemma pairs_ok_forall l : pairs_ok l = true -> forallb is_ascii_hexdigit l = true /\ Nat.even (List.length l) = true.
Proof.
  assert (H : forall n l, (List.length l <= n)%nat -> pairs_ok l = true ->
                          forallb is_ascii_hexdigit l = true /\ Nat.even (List.length l) = true).
  { induction n as [|n IH]; intros l0 Hn P.
    - destruct l0; [split; reflexivity|cbn in Hn; lia].
    - destruct l0 as [|a [|b r]]; [split; reflexivity|discriminate|].
      cbn [pairs_ok] in P. apply andb_true_iff in P. destruct P as [P Pr]. apply andb_true_iff in P. destruct P as [Pa Pb].
      destruct (IH r ltac:(cbn in Hn; lia) Pr) as [F E].
      cbn [forallb List.length]. rewrite Pa, Pb, F. split; [reflexivity|exact E]. }
  intros P. exact (H (List.length l) l (le_n _) P).
Qed.

Lemma forall_pairs_ok : forall n l, (List.length l <= n)%nat ->
  forallb is_ascii_hexdigit l = true -> Nat.even (List.length l) = true -> pairs_ok l = true.
Proof.
  induction n as [|n IH]; intros l Hn F E.
  - destruct l; [reflexivity|cbn in Hn; lia].
  - destruct l as [|a [|b r]]; [reflexivity|cbn in E; discriminate|].
    cbn [forallb] in F. apply andb_true_iff in F. destruct F as [Fa F]. apply andb_true_iff in F. destruct F as [Fb Fr].
    cbn [pairs_ok]. rewrite Fa, Fb. cbn [andb]. apply IH; [cbn in Hn; lia|exact Fr|exact E].
Qed.

(** the token text is [q body q x]: quote, body, quote, suffix *)
Theorem parse_sas_hex_string_spec q body q2 x :
  is_ascii q = true -> is_ascii q2 = true -> is_ascii x = true ->
  let cleaned := filter (fun c => negb (c =? c_comma)) body in
  parse_sas_hex_string (q :: body ++ [q2; x]) =
  if forallb is_ascii_hexdigit cleaned && Nat.even (List.length cleaned)
  then inl (decode_pairs cleaned) else inr E_InvalidHexStringConstant.
Proof.
  intros Aq Aq2 Ax. cbv zeta. unfold parse_sas_hex_string.
  rewrite app_length. cbn [List.length].
  destruct (Nat.ltb_spec (List.length body + 2) 2) as [Hlt|_]; [lia|].
  replace (List.length body + 2 - 2)%nat with (List.length body) by lia.
  rewrite firstn_app, firstn_all, Nat.sub_diag. cbn [firstn]. rewrite app_nil_r.
  rewrite skipn_app, skipn_all, Nat.sub_diag. cbn [skipn app].
  rewrite Aq. cbn [negb orb forallb]. rewrite Aq2, Ax. cbn [andb negb].
  set (cleaned := filter (fun c => negb (c =? c_comma)) body). rewrite (hex_pairs_spec (List.length cleaned) cleaned (le_n _)).
  destruct (pairs_ok cleaned) eqn:P.
  - destruct (pairs_ok_forall _ P) as [F E].
    replace (forallb is_ascii_hexdigit cleaned && Nat.even (List.length cleaned)) with true
      by (symmetry; apply andb_true_iff; split; assumption). reflexivity.
  - destruct (forallb is_ascii_hexdigit cleaned) eqn:F; [|reflexivity].
    destruct (Nat.even (List.length cleaned)) eqn:E; [|reflexivity].
    rewrite (forall_pairs_ok (List.length cleaned) cleaned (le_n _) F E) in P. discriminate.
Qed.

(** each decoded byte is below 256 when the pairs are hex digits *)
Lemma hexdigit_val_bound c : is_ascii_hexdigit c = true -> hexdigit_val c < 16.
Proof.
  unfold is_ascii_hexdigit, hexdigit_val, is_ascii_digit. intros H.
  repeat match goal with
         | H : (_ || _) = true |- _ => apply orb_true_iff in H; destruct H
         | H : (_ && _) = true |- _ => apply andb_true_iff in H; destruct H
         | H : (_ <=? _) = true |- _ => apply N.leb_le in H
         end;
  repeat match goal with |- context [?a <=? ?b] => destruct (N.leb_spec a b) end; cbn; lia.
Qed.
