(** * Sanity of the reference lexer (C11): it is a longest-match reading, not a copy of the model.
    Maximal munch for the run-shaped lexemes (whitespace, ampersand runs, identifiers), and the
    comment/statement-comment extents. *)
From Coq Require Import NArith List Bool Lia.
From SasLexer Require Import Gen.TokenType Gen.ErrorKind Gen.Channel Model.Base Model.Helpers Model.Numeric Spec.RefLex.
Import ListNotations.
Open Scope N_scope.

(** [count_while p l] characters satisfy [p], and the next one (if any) does not *)
Lemma count_while_spec (p : char -> bool) l :
  let n := N.to_nat (count_while p l) in
  forallb p (firstn n l) = true /\ match skipn n l with c :: _ => p c = false | [] => True end.
Proof.
  induction l as [|c r IH]; cbn [count_while]; [split; [reflexivity|exact I]|].
  destruct (p c) eqn:E.
  - cbv zeta in *. replace (N.to_nat (1 + count_while p r)) with (S (N.to_nat (count_while p r))) by lia.
    cbn [firstn skipn forallb]. rewrite E. destruct IH as [I1 I2]. split; [exact I1|exact I2].
  - cbn. split; [reflexivity|exact E].
Qed.

Lemma take_while_spec (p : char -> bool) l :
  forallb p (take_while p l) = true /\
  match skipn (List.length (take_while p l)) l with c :: _ => p c = false | [] => True end.
Proof.
  induction l as [|c r IH]; cbn [take_while]; [split; [reflexivity|exact I]|].
  destruct (p c) eqn:E; cbn [forallb List.length skipn]; [rewrite E; exact IH|split; [reflexivity|exact E]].
Qed.

(** whitespace: the WS lexeme is the maximal run of whitespace *)
Theorem reflex_ws_maximal c r pos st :
  is_whitespace c = true ->
  let '(toks, errs, n, st') := lexeme (c :: r) pos st in
  map rt_type toks = [T_WS] /\ map rt_chan toks = [CH_HIDDEN] /\ errs = [] /\ st' = st /\
  forallb is_whitespace (firstn (N.to_nat n) (c :: r)) = true /\
  match skipn (N.to_nat n) (c :: r) with x :: _ => is_whitespace x = false | [] => True end.
Proof.
  intros Hc. unfold lexeme. rewrite Hc.
  destruct (count_while_spec is_whitespace (c :: r)) as [H1 H2]. repeat split; assumption.
Qed.

(** an ampersand run on macro-free text is one AMP token over the whole run *)
Theorem reflex_amp_maximal r pos st :
  is_whitespace c_amp = false ->
  let '(toks, errs, n, st') := lexeme (c_amp :: r) pos st in
  map rt_type toks = [T_AMP] /\ errs = [] /\
  match skipn (N.to_nat n) (c_amp :: r) with x :: _ => (x =? c_amp) = false | [] => True end.
Proof.
  intros Hw. unfold lexeme. rewrite Hw.
  replace ((c_amp =? c_squote) || (c_amp =? c_dquote)) with false by reflexivity.
  replace (c_amp =? c_semi) with false by reflexivity.
  replace (c_amp =? c_slash) with false by reflexivity.
  replace (c_amp =? c_amp) with true by reflexivity.
  destruct (count_while_spec (fun x => x =? c_amp) (c_amp :: r)) as [_ H2]. repeat split; exact H2.
Qed.

Lemma ws_amp : is_whitespace c_amp = false.
Proof. reflexivity. Qed.

(** the closing of a C-style comment is the first "*/" after the opener *)
Lemma fce_none_shift : forall l m m', find_comment_end l m = None -> find_comment_end l m' = None.
Proof.
  induction l as [|x l IHl]; intros m m' Hm; [reflexivity|]. destruct l as [|y l'']; [reflexivity|].
  cbn [find_comment_end] in *. destruct ((x =? c_star) && (y =? c_slash)); [discriminate|]. eapply IHl; exact Hm.
Qed.

Lemma fce_cons a b l n :
  find_comment_end (a :: b :: l) n =
  if (a =? c_star) && (b =? c_slash) then Some (n + 2) else find_comment_end (b :: l) (n + 1).
Proof. reflexivity. Qed.

Lemma find_comment_end_spec l : forall n k,
  find_comment_end l n = Some k ->
  exists pre post, l = pre ++ c_star :: c_slash :: post /\ k = n + len pre + 2 /\
                   find_comment_end (pre ++ [c_star]) 0 = None.
Proof.
  induction l as [|a l IH]; intros n k H; [discriminate|].
  destruct l as [|b l']; [discriminate|].
  rewrite fce_cons in H.
  destruct ((a =? c_star) && (b =? c_slash)) eqn:E.
  - inversion H; subst. apply andb_true_iff in E. destruct E as [Ea Eb].
    apply N.eqb_eq in Ea. apply N.eqb_eq in Eb. subst.
    exists [], l'. split; [reflexivity|]. split; [cbn; lia|reflexivity].
  - destruct (IH (n + 1) k H) as (pre & post & El & Ek & Hn).
    exists (a :: pre), post. split; [cbn [app]; rewrite El; reflexivity|]. split.
    + unfold len in *. cbn [List.length]. lia.
    + destruct pre as [|p0 pre'].
      * cbn [app] in *. inversion El; subst b. rewrite fce_cons.
        replace ((a =? c_star) && (c_star =? c_slash)) with false by (rewrite andb_false_r; reflexivity).
        reflexivity.
      * cbn [app] in *. assert (Hb : b = p0) by (inversion El; reflexivity). subst p0.
        rewrite fce_cons, E. eapply fce_none_shift. exact Hn.
Qed.

(** so the comment token of an opener followed by [body ++ "*/" ++ rest] ends at the first closer *)
Theorem reflex_cstyle_comment_extent rest pos st k :
  find_comment_end rest 2 = Some k ->
  lexeme (c_slash :: c_star :: rest) pos st =
    ([mkRtok T_CStyleComment CH_COMMENT pos PNone], [], k, st) /\
  exists body post, rest = body ++ c_star :: c_slash :: post /\ k = len body + 4 /\
                    find_comment_end (body ++ [c_star]) 0 = None.
Proof.
  intros H. split.
  - unfold lexeme. replace (is_whitespace c_slash) with false by reflexivity.
    replace ((c_slash =? c_squote) || (c_slash =? c_dquote)) with false by reflexivity.
    replace (c_slash =? c_semi) with false by reflexivity.
    replace (c_slash =? c_slash) with true by reflexivity.
    replace (c_star =? c_star) with true by reflexivity.
    change (skipn_N 2 (c_slash :: c_star :: rest)) with rest. rewrite H. reflexivity.
  - destruct (find_comment_end_spec _ _ _ H) as (pre & post & E1 & E2 & E3).
    exists pre, post. repeat split; [exact E1|lia|exact E3].
Qed.

(** '*' at statement start is a comment to the next ';' (or the end); after a started statement it is an operator *)
Theorem reflex_star_position r pos lit n prev :
  let st b := mkRstate b prev lit n in
  (let '(toks, _, k, _) := lexeme (c_star :: r) pos (st false) in
   map rt_type toks = [T_PredictedCommentStat] /\ map rt_chan toks = [CH_COMMENT] /\ k = find_semi r 1) /\
  (let '(toks, _, k, _) := lexeme (c_star :: r) pos (st true) in
   map rt_chan toks = [CH_DEFAULT] /\
   (map rt_type toks = [T_STAR] /\ k = 1 \/ map rt_type toks = [T_STAR2] /\ k = 2)).
Proof.
  cbv zeta. split.
  - unfold lexeme. cbn [rs_pending]. 
    replace (is_whitespace c_star) with false by reflexivity.
    replace ((c_star =? c_squote) || (c_star =? c_dquote)) with false by reflexivity.
    replace (c_star =? c_semi) with false by reflexivity.
    replace (c_star =? c_slash) with false by reflexivity.
    replace (c_star =? c_amp) with false by reflexivity.
    replace (c_star =? c_pct) with false by reflexivity.
    replace (is_ascii_digit c_star) with false by reflexivity.
    replace (c_star =? c_dot) with false by reflexivity. cbn [andb orb].
    replace (is_valid_unicode_sas_name_start c_star) with false by reflexivity.
    replace (c_star =? c_star) with true by reflexivity. repeat split.
  - unfold lexeme. cbn [rs_pending].
    replace (is_whitespace c_star) with false by reflexivity.
    replace ((c_star =? c_squote) || (c_star =? c_dquote)) with false by reflexivity.
    replace (c_star =? c_semi) with false by reflexivity.
    replace (c_star =? c_slash) with false by reflexivity.
    replace (c_star =? c_amp) with false by reflexivity.
    replace (c_star =? c_pct) with false by reflexivity.
    replace (is_ascii_digit c_star) with false by reflexivity.
    replace (c_star =? c_dot) with false by reflexivity. cbn [andb orb].
    replace (is_valid_unicode_sas_name_start c_star) with false by reflexivity.
    replace (c_star =? c_star) with true by reflexivity.
    destruct (match r with x :: _ => x | [] => 0 end =? c_star); split; try reflexivity; [right|left]; split; reflexivity.
Qed.
