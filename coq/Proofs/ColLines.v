(** * Start columns of tokens (C04).
    From the three generic facts - positions ([InvPos]: a token's character offset is the length of
    the prefix before its byte offset), the line table ([LInv]) and token lines ([TLInv]) - the
    column the accessor reports for a token is the number of characters between the last line
    feed before the token (or the start of the text after the byte-order mark) and the token. *)
From Coq Require Import NArith ZArith List Bool Lia.
From RecordUpdate Require Import RecordSet.
From SasLexer Require Import Gen.TokenType Gen.ErrorKind Gen.Channel Model.Base Model.Core Model.Buffer
     Model.Lexer3 Proofs.BufferProofs Proofs.Generic Proofs.LexGeneric Proofs.Lines Proofs.LexLines Proofs.TokLines Proofs.ErrLines.
Import ListNotations RecordSetNotations.
Open Scope N_scope.

Lemma nthN_map {A B} (f : A -> B) : forall (l : list A) i y,
  nthN (map f l) i = Some y -> exists x, nthN l i = Some x /\ y = f x.
Proof.
  induction l as [|a l IH]; intros i y H; [cbn in H; discriminate|].
  cbn [map nthN] in *. destruct (i =? 0); [injection H as <-; exists a; split; reflexivity|]. apply IH. exact H.
Qed.

Lemma nthN_map_some {A B} (f : A -> B) : forall (l : list A) i x, nthN l i = Some x -> nthN (map f l) i = Some (f x).
Proof.
  induction l as [|a l IH]; intros i x H; [cbn in H; discriminate|].
  cbn [map nthN] in *. destruct (i =? 0); [injection H as <-; reflexivity|]. apply IH. exact H.
Qed.

Lemma nthN_In {A} : forall (l : list A) i x, nthN l i = Some x -> In x l.
Proof.
  induction l as [|a l IH]; intros i x H; [cbn in H; discriminate|].
  cbn [nthN] in H. destruct (i =? 0); [injection H as <-; left; reflexivity|]. right. exact (IH _ _ H).
Qed.

(** the entry of the line table for the line on which position [|p|] lies *)
Lemma nth_table p q : nthN (table line0 (p ++ q)) (count_nl p) = Some (last (table line0 p) line0).
Proof.
  assert (Hsplit : table line0 (p ++ q) = table line0 p ++ starts_from (0 + blen p) (0 + len p) q).
  { unfold table. rewrite starts_from_app. reflexivity. }
  rewrite Hsplit.
  assert (Hne : table line0 p <> []) by discriminate.
  destruct (exists_last Hne) as (l' & x & E). rewrite E. rewrite last_snoc.
  assert (Hl : len l' = count_nl p).
  { pose proof (f_equal (@len _) E) as L. unfold table in L. rewrite len_cons, starts_from_length in L.
    unfold len in L |- *. rewrite app_length in L. cbn [List.length] in L. lia. }
  rewrite <- Hl, <- app_assoc. cbn [app]. apply nthN_app_len.
Qed.

Theorem lex_token_start_column cfg src :
  let r := lex cfg src in
  let '((bb, _), text) := split_bom src in
  lr_outcome r = None ->
  g_lines_ok (s_ghost (lr_state r)) = true ->
  g_line_debt (s_ghost (lr_state r)) = false ->
  c_rest (s_cur (lr_state r)) = [] ->
  match w_toks (s_buf (lr_state r)) with t :: _ => tt_eqb (t_type t) T_EOF | [] => false end = true ->
  forall d i t, nthN (b_toks (lr_buffer r)) i = Some t ->
  forall pre rest, text = pre ++ rest -> blen pre + bb = t_byte t ->
    get_token_start_column d (lr_buffer r) i = AOk (col_of pre 0).
Proof.
  cbv zeta. unfold lex. destruct (split_bom src) as [[bb bc] text] eqn:Es.
  intros Ho Ok Debt Rest Heof d i t Hi pre rest E B.
  destruct (lex_text_buffer_errors cfg bb bc text) as [Hb _]. rewrite Hb in *.
  set (s2 := lr_state (lex_text cfg bb bc text)) in *.
  pose proof (lex_text_state_InvPos cfg bb bc text) as I. fold s2 in I.
  destruct (lex_text_state_LInv cfg bb bc text Ho Ok) as (L1 & L2 & _). fold s2 in L1, L2.
  pose proof (lex_text_state_TLInv cfg bb bc text Ho Ok) as (T1 & _). fold s2 in T1.
  specialize (L2 text). rewrite Rest, app_nil_r in L2. specialize (L2 eq_refl). rewrite Debt in L2.
  (* the token *)
  assert (Htoks : b_toks (into_detached bb bc s2) = map (shift_tok bb bc) (rev (w_toks (s_buf s2)))).
  { unfold into_detached. cbn [b_toks]. rewrite Heof. reflexivity. }
  assert (Hlines : b_lines (into_detached bb bc s2) = map (shift_line bb bc) (table line0 text)).
  { unfold into_detached. cbn [b_lines]. destruct (w_lines (s_buf s2)) as [|l ls] eqn:El; [cbn in L2; discriminate|]. rewrite L2. reflexivity. }
  rewrite Htoks in Hi. destruct (nthN_map _ _ _ _ Hi) as (t0 & Hi0 & ->).
  pose proof (nthN_In _ _ _ Hi0) as Hin. apply in_rev in Hin.
  pose proof (proj1 (Forall_forall _ _) (ip_toks _ _ I) t0 Hin) as (p & q & Ep & Bp & Cp).
  pose proof (proj1 (Forall_forall _ _) T1 t0 Hin) as Lt. unfold tok_ok, LineAt in Lt.
  cbn [shift_tok t_byte] in B.
  assert (pre = p) by (apply (blen_prefix_unique pre p rest q); [rewrite <- E, <- Ep; reflexivity|lia]). subst pre.
  specialize (Lt p q Ep Bp).
  (* the accessor *)
  unfold get_token_start_column, idx_assert, get_tok, n_toks.
  pose proof (nthN_lt _ _ _ Hi) as Hlt. rewrite Htoks.
  replace (i <? len (map (shift_tok bb bc) (rev (w_toks (s_buf s2))))) with true by (symmetry; apply N.ltb_lt; exact Hlt).
  rewrite andb_false_r. rewrite Hi. cbn [shift_tok t_line t_start].
  rewrite Hlines, Lt. rewrite Ep at 1.
  rewrite (nthN_map_some _ _ _ _ (nth_table p q)). cbn [shift_line l_start].
  pose proof (last_table_start p) as LT.
  unfold sub32. rewrite <- Cp.
  replace (l_start (last (table line0 p) line0) + bc <=? len p + bc) with true by (symmetry; apply N.leb_le; lia).
  f_equal. lia.
Qed.
