(** * Missing mandatory delimiters (C14): what the lexer does in an [ExpectSymbol] mode.
    [lex_expected_token] when the next character is not the expected one (release profile; with
    Proofs/DbgErase the same holds for a debug run that returns): the matching MissingExpected
    error is recorded at the current position, a token of the expected type and channel is
    added at the current token start *without consuming input* (zero width: [lex_token] and
    [finalize_lexing] call [start_token] right before), and the mode is popped.  Together with
    the pre-load tables (which modes each construct expects) this is the C14 mechanism. *)
From Coq Require Import NArith ZArith List Bool Lia.
From RecordUpdate Require Import RecordSet.
From SasLexer Require Import Gen.TokenType Gen.ErrorKind Gen.Channel Model.Base Model.Core
     Model.Helpers Model.Numeric Model.Lexer1 Model.Lexer2 Model.Lexer3 Proofs.Generic Proofs.Bom.
Import ListNotations RecordSetNotations.
Open Scope N_scope.

Definition expected_row (ty : TokenType) : option (char * ErrorKind) :=
  if tt_eqb ty T_RPAREN then Some (c_rparen, E_MissingExpectedRParen)
  else if tt_eqb ty T_ASSIGN then Some (c_eq, E_MissingExpectedAssign)
  else if tt_eqb ty T_LPAREN then Some (c_lparen, E_MissingExpectedLParen)
  else if tt_eqb ty T_COMMA then Some (c_comma, E_MissingExpectedComma)
  else if tt_eqb ty T_FSLASH then Some (c_slash, E_MissingExpectedFSlash)
  else None.

Definition recovered (s : st) (ty : TokenType) (chn : TokenChannel) (ek : ErrorKind) : st :=
  let s3 := Core.emit_error s ek in
  let b := s_buf s3 in
  Core.pop_mode (s3 <| s_buf := b <| w_toks := mkTok chn ty (s_ct_byte s) (s_ct_start s) (s_ct_line s) PNone :: w_toks b |>
                                 <| w_ntoks := w_ntoks b + 1 |> |>).

Lemma lex_expected_token_missing s ty chn next expected ek :
  expected_row ty = Some (expected, ek) ->
  match next with Some c => (c =? expected) = false | None => True end ->
  run false (lex_expected_token next ty chn) s = Done tt (recovered s ty chn ek).
Proof.
  intros Hrow Hn.
  assert (Hcond : match next with Some c => negb (c =? expected) | None => true end = true).
  { destruct next as [c|]; [rewrite Hn; reflexivity|reflexivity]. }
  unfold lex_expected_token, expected_row in *.
  destruct (tt_eqb ty T_RPAREN);
    [|destruct (tt_eqb ty T_ASSIGN); [|destruct (tt_eqb ty T_LPAREN);
      [|destruct (tt_eqb ty T_COMMA); [|destruct (tt_eqb ty T_FSLASH); [|discriminate]]]]];
  inversion Hrow; subst;
  cbv zeta; cbn [bindP assert_dbg do]; cbn [run exec andb];
  match goal with |- context [if ?b then Lexer1.emit_error _ else _] => replace b with true by (symmetry; exact Hcond) end;
  reflexivity.
Qed.

(** the recovery token sits at the current token start with the expected type and channel, the
    error carries the cursor position and kind, the cursor has not moved, the mode is popped *)
Lemma recovery_facts s ty chn ek m0 r :
  s_modes s = m0 :: r ->
  let s' := recovered s ty chn ek in
  s_cur s' = s_cur s /\ s_modes s' = r /\
  (exists e, hd_error (s_errs s') = Some e /\ e_kind e = ek /\ e_byte e = cur_byte s /\ e_char e = cur_char s) /\
  (exists t, hd_error (w_toks (s_buf s')) = Some t /\ t_type t = ty /\ t_chan t = chn /\
             t_byte t = s_ct_byte s /\ t_start t = s_ct_start s /\ t_payload t = PNone).
Proof.
  intros Em. cbv zeta. unfold recovered, Core.pop_mode, Core.emit_error, push_error, note_observe_lines. cbn. rewrite Em. cbn.
  split; [reflexivity|]. split; [reflexivity|]. split.
  - eexists. split; [reflexivity|]. cbn. repeat split.
  - eexists. split; [reflexivity|]. cbn. repeat split.
Qed.

(** the mandatory delimiters of the C14 list are pre-loaded as [ExpectSymbol] / [ExpectSemiOrEOF] modes *)
Definition has_mode (m : mode) (l : list mode) : bool := existsb (mode_eqb m) l.

Lemma c14_preloads :
  has_mode (MExpectSymbol T_ASSIGN CH_DEFAULT) (PRE_let E_InvalidMacroLetVarName)
  && has_mode (MExpectSymbol T_ASSIGN CH_DEFAULT) (PRE_do_var false (Some E_UnexpectedSemiInDoLoop))
  && has_mode (MExpectSymbol T_COMMA CH_DEFAULT) (PRE_scan_or_substr true)
  && has_mode (MExpectSymbol T_COMMA CH_DEFAULT) (PRE_scan_or_substr false)
  && has_mode (MExpectSymbol T_FSLASH CH_DEFAULT) PRE_name_then_opts
  && has_mode MExpectSemiOrEOF PRE_until_while
  && has_mode (MExpectSymbol T_LPAREN CH_DEFAULT) PRE_until_while = true.
Proof. vm_compute. reflexivity. Qed.
