(** * The lexer model on macro-free open code is the reference lexer (C11).
    Simulation, one lexeme class at a time: from any state in the open-code configuration that
    is related to a reference state, the main loop's iteration(s) on the next lexeme produce the
    tokens, errors, literal bytes and carried bits that [Spec.RefLex.lexeme] prescribes.
    Release profile. *)
From Coq Require Import NArith ZArith List Bool Lia.
From RecordUpdate Require Import RecordSet.
From SasLexer Require Import Gen.TokenType Gen.ErrorKind Gen.Channel Gen.Unicode Model.Base Model.Core
     Model.Helpers Model.Numeric Model.Lexer1 Model.Lexer2 Model.Lexer3 Spec.RefLex
     Proofs.Generic Proofs.LexGeneric Proofs.Bom Proofs.SemiProgram Proofs.SemiCompose Proofs.RefLexProofs.
Import ListNotations RecordSetNotations.
Open Scope N_scope.

(** ** What is compared *)
Definition tv (bb : N) (t : tok) := (t_type t, t_chan t, t_byte t + bb, t_payload t).
Definition rv (t : rtok) := (rt_type t, rt_chan t, rt_byte t, rt_payload t).
Definition ev (bb : N) (e : err_info) := (e_kind e, e_byte e + bb).
Definition rve (e : rerr) := (re_kind e, re_byte e).

(** everything a scanning loop leaves alone: all but the cursor, the line table and the ghosts *)
Definition frame (s : st) :=
  (s_src s, s_srclen s, w_toks (s_buf s), w_ntoks (s_buf s), w_lit (s_buf s), w_litlen (s_buf s),
   (s_ct_byte s, s_ct_start s, s_ct_line s), s_modes s, s_nmodes s, s_errs s, s_nerrs s,
   (s_cp s, s_mnl s, s_pstat s, s_mark s, s_perr s), (s_iters s, s_aborted s, s_loop_detected s)).

Definition lines_pos (s : st) : Prop := exists p, w_nlines (s_buf s) = Npos p.

Record FrameEq (a b : st) : Prop := {
  fe_src : s_src a = s_src b; fe_srclen : s_srclen a = s_srclen b;
  fe_toks : w_toks (s_buf a) = w_toks (s_buf b); fe_ntoks : w_ntoks (s_buf a) = w_ntoks (s_buf b);
  fe_lit : w_lit (s_buf a) = w_lit (s_buf b); fe_litlen : w_litlen (s_buf a) = w_litlen (s_buf b);
  fe_ctb : s_ct_byte a = s_ct_byte b; fe_cts : s_ct_start a = s_ct_start b; fe_ctl : s_ct_line a = s_ct_line b;
  fe_modes : s_modes a = s_modes b; fe_nmodes : s_nmodes a = s_nmodes b;
  fe_errs : s_errs a = s_errs b; fe_nerrs : s_nerrs a = s_nerrs b;
  fe_cp : s_cp a = s_cp b; fe_mnl : s_mnl a = s_mnl b; fe_pstat : s_pstat a = s_pstat b;
  fe_mark : s_mark a = s_mark b; fe_perr : s_perr a = s_perr b;
  fe_iters : s_iters a = s_iters b; fe_ab : s_aborted a = s_aborted b; fe_ld : s_loop_detected a = s_loop_detected b
}.

Lemma frame_eq a b : frame a = frame b -> FrameEq a b.
Proof. unfold frame. intros H. inversion H. constructor; assumption. Qed.

(** ** The primitives in the release profile, as equations *)
Definition adv_ghost (g : ghost) (x : char) : ghost :=
  let g' := if g_line_debt g then g <| g_lines_ok := false |> else g in
  if x =? NL then g' <| g_line_debt := true |> else g'.

Definition st_adv (s : st) (x : char) (r : list char) : st :=
  s <| s_cur := mkCursor r (c_rem (s_cur s) - utf8_len x) (c_off (s_cur s) + 1) x |>
    <| s_ghost := adv_ghost (s_ghost s) x |>.

Lemma ex_advance s x r : c_rest (s_cur s) = x :: r -> exec false OAdvance s = Done (Some x) (st_adv s x r).
Proof. intros H. unfold exec. rewrite H. reflexivity. Qed.

Lemma ex_advance_nil s : c_rest (s_cur s) = [] -> exec false OAdvance s = Done None s.
Proof. intros H. unfold exec. rewrite H. reflexivity. Qed.

Definition st_add_line (s : st) : st :=
  let s0 := clear_debt s in
  let b := s_buf s0 in
  s0 <| s_buf := b <| w_lines := mkLine (cur_byte s) (cur_char s) :: w_lines b |> <| w_nlines := w_nlines b + 1 |> |>.

Lemma ex_add_line s : exec false OAddLine s = Done tt (st_add_line s).
Proof. reflexivity. Qed.

Lemma ex_get s : exec false OGet s = Done (scrub s) s.
Proof. reflexivity. Qed.

Lemma peek_scrub s : peek (scrub s) = peek s. Proof. reflexivity. Qed.
Lemma peek_is_scrub s p : peek_is (scrub s) p = peek_is s p. Proof. reflexivity. Qed.

Lemma lines_pos_adv s x r : lines_pos s -> lines_pos (st_adv s x r).
Proof. intros H. exact H. Qed.

Lemma lines_pos_add_line s : lines_pos s -> lines_pos (st_add_line s).
Proof. intros [p H]. unfold lines_pos, st_add_line. cbn. rewrite H. exists (p + 1)%positive. reflexivity. Qed.

(** ** Scanning loops *)
Section Loops.
  Variable F : nat.
  Variable msep : bool.

  (** one character of a whitespace run: advance, register a line feed *)
  Definition ws1 (s : st) (x : char) (r : list char) : st :=
    if x =? NL then st_add_line (st_adv s x r) else st_adv s x r.

  Lemma ws1_rest s x r : c_rest (s_cur (ws1 s x r)) = r.
  Proof. unfold ws1. destruct (x =? NL); reflexivity. Qed.
  Lemma ws1_frame s x r : frame (ws1 s x r) = frame s.
  Proof. unfold ws1. destruct (x =? NL); reflexivity. Qed.
  Lemma ws1_lines s x r : lines_pos s -> lines_pos (ws1 s x r).
  Proof. intros H. unfold ws1. destruct (x =? NL); [apply lines_pos_add_line|]; apply lines_pos_adv; exact H. Qed.

  Lemma ws_loop_unfold f s x r : c_rest (s_cur s) = x :: r ->
    run false (lex_ws_loop (S f)) s =
    if peek_is (ws1 s x r) is_whitespace then run false (lex_ws_loop f) (ws1 s x r) else Done tt (ws1 s x r).
  Proof.
    intros H. cbn [lex_ws_loop]. unfold advance, when, add_line, get, ret. cbn [bindP do]. cbn [run].
    rewrite (ex_advance s x r H). unfold ws1.
    destruct (x =? NL); repeat (cbn [run bindP do]; rewrite ?ex_add_line, ?ex_get); rewrite peek_is_scrub;
      match goal with |- context [peek_is ?s0 is_whitespace] => destruct (peek_is s0 is_whitespace) end; reflexivity.
  Qed.

  (** [lex_ws_loop]: consumes the first character and the whitespace after it *)
  Lemma ws_loop_spec : forall r x f s,
    (List.length r < f)%nat -> c_rest (s_cur s) = x :: r -> lines_pos s ->
    exists s', run false (lex_ws_loop f) s = Done tt s' /\
      c_rest (s_cur s') = drop_while is_whitespace r /\ frame s' = frame s /\ lines_pos s'.
  Proof.
    induction r as [|y r IH]; intros x f s Hf Hr Hl; (destruct f as [|f]; [cbn in Hf; lia|]);
      rewrite (ws_loop_unfold f s x _ Hr); unfold peek_is, peek; rewrite ws1_rest.
    - exists (ws1 s x []). split; [reflexivity|]. split; [apply ws1_rest|]. split; [apply ws1_frame|apply ws1_lines; exact Hl].
    - cbn [drop_while]. destruct (is_whitespace y) eqn:Ey.
      + destruct (IH y f (ws1 s x (y :: r)) ltac:(cbn in Hf; lia) (ws1_rest _ _ _) (ws1_lines _ _ _ Hl)) as (s' & Hrun & Hrest & Hfr & Hl').
        exists s'. split; [exact Hrun|]. split; [exact Hrest|]. split; [rewrite Hfr; apply ws1_frame|exact Hl'].
      + exists (ws1 s x (y :: r)). split; [reflexivity|]. split; [apply ws1_rest|]. split; [apply ws1_frame|apply ws1_lines; exact Hl].
  Qed.
End Loops.

(** ** More primitives *)
Definition st_start (s : st) : st :=
  (note_observe_lines s) <| s_ct_byte := cur_byte s |> <| s_ct_start := cur_char s |>
                         <| s_ct_line := w_nlines (s_buf s) - 1 |>.

Lemma ex_start_token s : lines_pos s -> exec false OStartToken s = Done tt (st_start s).
Proof.
  intros [p H]. unfold exec, last_line_or_add, last_line. cbn [s_buf note_observe_lines].
  replace (w_nlines (s_buf (note_observe_lines s))) with (w_nlines (s_buf s)) by reflexivity.
  rewrite H. change (N.pos p =? 0) with false. cbv iota. unfold st_start. rewrite H. reflexivity.
Qed.

Definition st_emit (s : st) (ch : TokenChannel) (ty : TokenType) (pl : payload) : st :=
  let b := s_buf s in
  s <| s_buf := b <| w_toks := mkTok ch ty (s_ct_byte s) (s_ct_start s) (s_ct_line s) pl :: w_toks b |>
                  <| w_ntoks := w_ntoks b + 1 |> |>.

Lemma ex_emit s ch ty pl : exec false (OEmitToken ch ty pl) s = Done tt (st_emit s ch ty pl).
Proof. reflexivity. Qed.

Lemma ex_assert s f site : exec false (OAssertDbg f site) s = Done tt s.
Proof. reflexivity. Qed.

Lemma ex_mode s m ms : s_modes s = m :: ms -> exec false OMode s = Done m s.
Proof. intros H. unfold exec. rewrite H. reflexivity. Qed.

Lemma ex_set_pending s v b ps : s_pstat s = b :: ps -> exec false (OSetPending v) s = Done tt (s <| s_pstat := v :: ps |>).
Proof. intros H. unfold exec. rewrite H. reflexivity. Qed.

Lemma ex_emit_error s k : exec false (OEmitError k) s = Done tt (Core.emit_error s k).
Proof. reflexivity. Qed.

(** ** The open-code configuration, related to a reference state *)
Record OC (text : list char) (s : st) (rs : rstate) : Prop := {
  oc_inv : InvPos text s;
  oc_modes : s_modes s = [MDefault];
  oc_cp : s_cp s = None;
  oc_mnl : s_mnl s = 0;
  oc_pstat : s_pstat s = [rs_pending rs];
  oc_prev : last_default_type s = rs_prev rs;
  oc_lit : w_lit (s_buf s) = rs_lit rs;
  oc_litlen : w_litlen (s_buf s) = rs_litlen rs;
  oc_lines : lines_pos s
}.

(** the effect of one lexeme on a related pair *)
Record StepOK (text : list char) (bb : N) (s : st) (ts : list rtok) (es : list rerr) (n : N) (rs' : rstate) (s' : st) : Prop := {
  so_oc : OC text s' rs';
  so_rest : c_rest (s_cur s') = skipn_N (N.to_nat n) (c_rest (s_cur s));
  so_toks : map (tv bb) (w_toks (s_buf s')) = rev (map rv ts) ++ map (tv bb) (w_toks (s_buf s));
  so_errs : map (ev bb) (s_errs s') = rev (map rve es) ++ map (ev bb) (s_errs s);
  so_ctr : (s_iters s', s_aborted s', s_loop_detected s') = (s_iters s, s_aborted s, s_loop_detected s)
}.

Lemma skipn_count_while (p : char -> bool) l : skipn_N (N.to_nat (count_while p l)) l = drop_while p l.
Proof.
  induction l as [|c r IH]; [reflexivity|]. cbn [count_while drop_while].
  destruct (p c); [|reflexivity].
  replace (N.to_nat (1 + count_while p r)) with (S (N.to_nat (count_while p r))) by lia. cbn [skipn_N]. exact IH.
Qed.

(** the cursor of a state satisfying the position invariant *)
Lemma cur_byte_rest text s : InvPos text s -> cur_byte s + blen (c_rest (s_cur s)) = blen text.
Proof.
  intros I. destruct (ip_cur _ _ I) as (pre & E & _ & R). unfold cur_byte. rewrite (ip_srclen _ _ I), R.
  pose proof (f_equal blen E) as HB. rewrite blen_app in HB. lia.
Qed.

Section Classes.
  Variable text : list char.
  Variable bb : N.
  Variable F : nat.
  Variable msep : bool.

  (** the common prefix of [lex_token] in open-code mode: mode lookup, debug assertion, token start *)
  Ltac open_default Hm Hl :=
    unfold lex_token; cbn [bindP do run]; rewrite (ex_mode _ MDefault [] Hm); cbn [run];
    unfold dispatch_mode_default, assert_dbg, start_token, get; cbn [bindP do run];
    rewrite ex_assert; cbn [run]; rewrite (ex_start_token _ Hl); cbn [run]; rewrite ex_get; cbn [run].

  Lemma OC_start s rs : OC text s rs -> OC text (st_start s) rs.
  Proof.
    intros [I M C N P V L1 L2 L]. constructor; try assumption.
    pose proof (run_InvPos false text (do OStartToken) s I) as H.
    cbn [run do] in H. rewrite (ex_start_token s L) in H. exact H.
  Qed.

  (** whitespace *)
  Lemma class_ws s rs c r :
    OC text s rs -> c_rest (s_cur s) = c :: r -> is_whitespace c = true -> (List.length (c :: r) < F)%nat ->
    let '(ts, es, n, rs') := lexeme (c :: r) (cur_byte s + bb) rs in
    exists s', run false (lex_token F msep c) s = Done tt s' /\ StepOK text bb s ts es n rs' s'.
  Proof.
    intros HOC Hr Hc Hf. unfold lexeme. rewrite Hc.
    pose proof (OC_start s rs HOC) as HOC1.
    open_default (oc_modes _ _ _ HOC) (oc_lines _ _ _ HOC). rewrite Hc.
    unfold lex_ws, assert_dbg, emit_token. cbn [bindP do run]. rewrite ex_assert. cbn [run].
    rewrite run_bindP.
    destruct (ws_loop_spec r c F (st_start s) ltac:(cbn in Hf; lia) Hr (oc_lines _ _ _ HOC1)) as (s1 & Hrun & Hrest & Hfr & Hl1).
    rewrite Hrun. cbn [run do]. rewrite ex_emit. cbn [run].
    eexists. split; [reflexivity|].
    pose proof (frame_eq _ _ Hfr) as Fe.
    assert (Hinv : InvPos text (st_emit s1 CH_HIDDEN T_WS PNone)).
    { pose proof (run_InvPos false text (lex_ws_loop F ;; emit_token CH_HIDDEN T_WS PNone) (st_start s) (oc_inv _ _ _ HOC1)) as H.
      rewrite run_bindP, Hrun in H. unfold emit_token in H. cbn [run do] in H. rewrite ex_emit in H. exact H. }
    constructor.
    - constructor.
      + exact Hinv.
      + cbn. rewrite (fe_modes _ _ Fe). exact (oc_modes _ _ _ HOC).
      + cbn. rewrite (fe_cp _ _ Fe). exact (oc_cp _ _ _ HOC).
      + cbn. rewrite (fe_mnl _ _ Fe). exact (oc_mnl _ _ _ HOC).
      + cbn. rewrite (fe_pstat _ _ Fe). exact (oc_pstat _ _ _ HOC).
      + unfold last_default_type, last_default_tok. cbn. rewrite (fe_toks _ _ Fe). exact (oc_prev _ _ _ HOC).
      + cbn. rewrite (fe_lit _ _ Fe). exact (oc_lit _ _ _ HOC).
      + cbn. rewrite (fe_litlen _ _ Fe). exact (oc_litlen _ _ _ HOC).
      + destruct Hl1 as [p Hp]. exists p. exact Hp.
    - change (c_rest (s_cur (st_emit s1 CH_HIDDEN T_WS PNone))) with (c_rest (s_cur s1)).
      rewrite Hrest, Hr. rewrite skipn_count_while. cbn [drop_while]. rewrite Hc. reflexivity.
    - cbn. rewrite (fe_toks _ _ Fe), (fe_ctb _ _ Fe). reflexivity.
    - cbn. rewrite (fe_errs _ _ Fe). reflexivity.
    - cbn. rewrite (fe_iters _ _ Fe), (fe_ab _ _ Fe), (fe_ld _ _ Fe). reflexivity.
  Qed.


End Classes.

(** ** One- and two-character tokens *)
Section Simple.
  Variable text : list char.
  Variable bb : N.

  Definition st_pend (s : st) (v : bool) : st := s <| s_pstat := [v] |>.

  Lemma run_simple1 s rs c r ch ty v :
    OC text s rs -> c_rest (s_cur s) = c :: r ->
    run false (start_token ;; advance_ ;; emit_token ch ty PNone ;; set_pending_stat v) s =
    Done tt (st_pend (st_emit (st_adv (st_start s) c r) ch ty PNone) v).
  Proof.
    intros HOC Hr. unfold start_token, advance_, emit_token, set_pending_stat, ret. cbn [bindP do run].
    rewrite (ex_start_token s (oc_lines _ _ _ HOC)). cbn [run].
    rewrite (ex_advance (st_start s) c r Hr). cbn [run]. rewrite ex_emit. cbn [run].
    rewrite (ex_set_pending _ v (rs_pending rs) []); [reflexivity|]. exact (oc_pstat _ _ _ HOC).
  Qed.

  Lemma run_simple2 s rs c c2 r ch ty v :
    OC text s rs -> c_rest (s_cur s) = c :: c2 :: r ->
    run false (start_token ;; advance_ ;; advance_ ;; emit_token ch ty PNone ;; set_pending_stat v) s =
    Done tt (st_pend (st_emit (st_adv (st_adv (st_start s) c (c2 :: r)) c2 r) ch ty PNone) v).
  Proof.
    intros HOC Hr. unfold start_token, advance_, emit_token, set_pending_stat, ret. cbn [bindP do run].
    rewrite (ex_start_token s (oc_lines _ _ _ HOC)). cbn [run].
    rewrite (ex_advance (st_start s) c (c2 :: r) Hr). cbn [run].
    rewrite (ex_advance (st_adv (st_start s) c (c2 :: r)) c2 r eq_refl). cbn [run]. rewrite ex_emit. cbn [run].
    rewrite (ex_set_pending _ v (rs_pending rs) []); [reflexivity|]. exact (oc_pstat _ _ _ HOC).
  Qed.

  (** the reference state after a token on channel [ch] *)
  Definition rs_after (rs : rstate) (ch : TokenChannel) (ty : TokenType) (v : bool) : rstate :=
    mkRstate v (if ch_eqb ch CH_DEFAULT then Some ty else rs_prev rs) (rs_lit rs) (rs_litlen rs).

  Lemma last_default_emit s ch ty pl :
    last_default_type (st_emit s ch ty pl) = if ch_eqb ch CH_DEFAULT then Some ty else last_default_type s.
  Proof.
    unfold last_default_type, last_default_tok, st_emit. cbn [s_buf w_toks set]. cbn [find].
    unfold is_default at 1. cbn [t_chan]. destruct (ch_eqb ch CH_DEFAULT); reflexivity.
  Qed.

  Lemma last_default_pend s v : last_default_type (st_pend s v) = last_default_type s.
  Proof. reflexivity. Qed.

  Lemma step_simple1 s rs c r ch ty v :
    OC text s rs -> c_rest (s_cur s) = c :: r ->
    StepOK text bb s [mkRtok ty ch (cur_byte s + bb) PNone] [] 1 (rs_after rs ch ty v)
           (st_pend (st_emit (st_adv (st_start s) c r) ch ty PNone) v).
  Proof.
    intros HOC Hr.
    assert (Hinv : InvPos text (st_pend (st_emit (st_adv (st_start s) c r) ch ty PNone) v)).
    { pose proof (run_InvPos false text (start_token ;; advance_ ;; emit_token ch ty PNone ;; set_pending_stat v) s (oc_inv _ _ _ HOC)) as H.
      rewrite (run_simple1 s rs c r ch ty v HOC Hr) in H. exact H. }
    constructor.
    - constructor; try exact Hinv.
      + exact (oc_modes _ _ _ HOC).
      + exact (oc_cp _ _ _ HOC).
      + exact (oc_mnl _ _ _ HOC).
      + reflexivity.
      + rewrite last_default_pend, last_default_emit. cbn [rs_after rs_prev].
        destruct (ch_eqb ch CH_DEFAULT); [reflexivity|]. exact (oc_prev _ _ _ HOC).
      + exact (oc_lit _ _ _ HOC).
      + exact (oc_litlen _ _ _ HOC).
      + exact (oc_lines _ _ _ HOC).
    - rewrite Hr. reflexivity.
    - reflexivity.
    - reflexivity.
    - reflexivity.
  Qed.

  Lemma step_simple2 s rs c c2 r ch ty v :
    OC text s rs -> c_rest (s_cur s) = c :: c2 :: r ->
    StepOK text bb s [mkRtok ty ch (cur_byte s + bb) PNone] [] 2 (rs_after rs ch ty v)
           (st_pend (st_emit (st_adv (st_adv (st_start s) c (c2 :: r)) c2 r) ch ty PNone) v).
  Proof.
    intros HOC Hr.
    assert (Hinv : InvPos text (st_pend (st_emit (st_adv (st_adv (st_start s) c (c2 :: r)) c2 r) ch ty PNone) v)).
    { pose proof (run_InvPos false text (start_token ;; advance_ ;; advance_ ;; emit_token ch ty PNone ;; set_pending_stat v) s (oc_inv _ _ _ HOC)) as H.
      rewrite (run_simple2 s rs c c2 r ch ty v HOC Hr) in H. exact H. }
    constructor.
    - constructor; try exact Hinv.
      + exact (oc_modes _ _ _ HOC).
      + exact (oc_cp _ _ _ HOC).
      + exact (oc_mnl _ _ _ HOC).
      + reflexivity.
      + rewrite last_default_pend, last_default_emit. cbn [rs_after rs_prev].
        destruct (ch_eqb ch CH_DEFAULT); [reflexivity|]. exact (oc_prev _ _ _ HOC).
      + exact (oc_lit _ _ _ HOC).
      + exact (oc_litlen _ _ _ HOC).
      + exact (oc_lines _ _ _ HOC).
    - rewrite Hr. reflexivity.
    - reflexivity.
    - reflexivity.
    - reflexivity.
  Qed.
End Simple.

Section Classes2.
  Variable text : list char.
  Variable bb : N.
  Variable F : nat.
  Variable msep : bool.

  Ltac open_default Hm Hl :=
    unfold lex_token; cbn [bindP do run]; rewrite (ex_mode _ MDefault [] Hm); cbn [run];
    unfold dispatch_mode_default, assert_dbg, start_token, get; cbn [bindP do run];
    rewrite ex_assert; cbn [run]; rewrite (ex_start_token _ Hl); cbn [run]; rewrite ex_get; cbn [run].

  (** evaluate the closed tests of an if-chain *)
  (* only tests without variables are evaluated: vm_compute on an open comparison against a table explodes *)
  Ltac no_vars t := match t with context [?x] => is_var x; fail 1 | _ => idtac end.
  Ltac eval_bool b :=
    no_vars b;
    let v := eval vm_compute in b in
    match v with
    | true => progress change b with true
    | false => progress change b with false
    end.
  Ltac close_tests :=
    repeat first
      [ match goal with |- context [if ?b then _ else _] => eval_bool b; cbv iota end
      | match goal with |- context [?a =? ?b] => eval_bool (a =? b) end
      | match goal with |- context [is_ascii_digit ?a] => eval_bool (is_ascii_digit a) end
      | match goal with |- context [is_whitespace ?a] => eval_bool (is_whitespace a) end
      | match goal with |- context [is_valid_unicode_sas_name_start ?a] => eval_bool (is_valid_unicode_sas_name_start a) end
      | progress cbn [andb orb negb]
      | progress cbv iota ].

  Definition lt_class (l : list char) (c : char) : Prop :=
    forall s rs, macro_free l = true -> OC text s rs -> c_rest (s_cur s) = l -> (List.length l < F)%nat ->
    let '(ts, es, n, rs') := lexeme l (cur_byte s + bb) rs in
    (1 <= n) /\ (n <= len l) /\
    exists s', run false (lex_token F msep c) s = Done tt s' /\ StepOK text bb s ts es n rs' s'.

  Lemma len_ge1 {A} (c : A) r : 1 <= len (c :: r).
  Proof. unfold len. cbn [List.length]. lia. Qed.
  Lemma len_ge2 {A} (c c2 : A) r : 2 <= len (c :: c2 :: r).
  Proof. unfold len. cbn [List.length]. lia. Qed.

  (** single-character symbols *)
  Definition SYM1 : list char := [40; 41; 123; 125; 91; 93; 43; 45; 44; 58; 64; 35; 63].

  Lemma lexeme_sym1 c r pos rs : In c SYM1 ->
    exists ty, sym1 c = Some ty /\
      lexeme (c :: r) pos rs = ([mkRtok ty CH_DEFAULT pos PNone], [], 1, rs_after rs CH_DEFAULT ty true).
  Proof.
    intros Hin. unfold SYM1 in Hin. cbn [In] in Hin.
    repeat (destruct Hin as [<-|Hin]; [eexists; split; [reflexivity|]; unfold lexeme; close_tests; reflexivity|]).
    contradiction.
  Qed.

  Lemma class_sym1 c r : In c SYM1 -> lt_class (c :: r) c.
  Proof.
    intros Hin s rs _ HOC Hr Hf.
    destruct (lexeme_sym1 c r (cur_byte s + bb) rs Hin) as (ty & Hty & ->).
    split; [lia|]. split; [apply len_ge1|].
    exists (st_pend (st_emit (st_adv (st_start s) c r) CH_DEFAULT ty PNone) true). split.
    - open_default (oc_modes _ _ _ HOC) (oc_lines _ _ _ HOC).
      unfold SYM1 in Hin. cbn [In] in Hin.
      repeat (destruct Hin as [<-|Hin]; [
        close_tests; unfold lex_symbols; close_tests; unfold one, advance_, emit, get, when, set_pending_stat, ret; cbn [bindP do run];
        rewrite (ex_advance (st_start s) _ r Hr); cbn [run]; rewrite ex_emit; cbn [run]; rewrite ex_get; cbn [run];
        cbn [last_tok_type last_tok scrub st_emit s_buf w_toks set hd_error option_map t_type];
        cbv in Hty; inversion Hty; subst ty; close_tests; cbn [bindP do run];
        rewrite (ex_set_pending _ true (rs_pending rs) []); [reflexivity|exact (oc_pstat _ _ _ HOC)] |]).
      contradiction.
    - exact (step_simple1 text bb s rs c r CH_DEFAULT ty true HOC Hr).
  Qed.

  (** the tail of [dispatch_mode_default] after [lex_symbols]: the statement is pending unless the token is a predicted comment *)
  Lemma run_symbols_tail X ch ty pl b :
    s_pstat X = [b] -> tt_eqb ty T_PredictedCommentStat = false ->
    run false (s' <- get ;;
               when (match last_tok_type s' with Some t => negb (tt_eqb t T_PredictedCommentStat) | None => false end)
                    (set_pending_stat true)) (st_emit X ch ty pl) =
    Done tt (st_pend (st_emit X ch ty pl) true).
  Proof.
    intros Hp Hty. unfold get, when, set_pending_stat. cbn [bindP do run]. rewrite ex_get. cbn [run].
    change (last_tok_type (scrub (st_emit X ch ty pl))) with (Some ty). cbv iota. rewrite Hty. cbn [negb].
    cbn [bindP do run]. rewrite (ex_set_pending _ true b []); [reflexivity|exact Hp].
  Qed.

  Lemma run_one s c r ty : c_rest (s_cur s) = c :: r ->
    run false (one ty) s = Done tt (st_emit (st_adv s c r) CH_DEFAULT ty PNone).
  Proof.
    intros Hr. unfold one, advance_, emit, ret. cbn [bindP do run]. rewrite (ex_advance s c r Hr). cbn [run].
    rewrite ex_emit. reflexivity.
  Qed.

  Lemma run_one_or_two s c r second t2 t1 : c_rest (s_cur s) = c :: r ->
    run false (one_or_two second t2 t1) s =
    match r with
    | c2 :: r' => if c2 =? second then Done tt (st_emit (st_adv (st_adv s c r) c2 r') CH_DEFAULT t2 PNone)
                  else Done tt (st_emit (st_adv s c r) CH_DEFAULT t1 PNone)
    | [] => Done tt (st_emit (st_adv s c r) CH_DEFAULT t1 PNone)
    end.
  Proof.
    intros Hr. unfold one_or_two, advance_, emit, get, ret. cbn [bindP do run]. rewrite (ex_advance s c r Hr). cbn [run].
    rewrite ex_get. cbn [run]. rewrite peek_is_scrub. unfold peek_is, peek.
    change (c_rest (s_cur (st_adv s c r))) with r.
    destruct r as [|c2 r']; [cbn [bindP do run]; rewrite ex_emit; reflexivity|].
    destruct (c2 =? second); cbn [bindP do run].
    - rewrite (ex_advance (st_adv s c (c2 :: r')) c2 r' eq_refl). cbn [run]. rewrite ex_emit. reflexivity.
    - rewrite ex_emit. reflexivity.
  Qed.

  (** ';' *)
  Lemma class_semi r : lt_class (c_semi :: r) c_semi.
  Proof.
    intros s rs _ HOC Hr Hf.
    assert (E : lexeme (c_semi :: r) (cur_byte s + bb) rs =
                ([mkRtok T_SEMI CH_DEFAULT (cur_byte s + bb) PNone], [], 1, rs_after rs CH_DEFAULT T_SEMI false))
      by (unfold lexeme; close_tests; reflexivity).
    rewrite E. split; [lia|]. split; [apply len_ge1|].
    exists (st_pend (st_emit (st_adv (st_start s) c_semi r) CH_DEFAULT T_SEMI PNone) false). split.
    - open_default (oc_modes _ _ _ HOC) (oc_lines _ _ _ HOC). close_tests.
      unfold advance_, emit, set_pending_stat, ret. cbn [bindP do run].
      rewrite (ex_advance (st_start s) c_semi r Hr). cbn [run]. rewrite ex_emit. cbn [run].
      rewrite (ex_set_pending _ false (rs_pending rs) []); [reflexivity|exact (oc_pstat _ _ _ HOC)].
    - exact (step_simple1 text bb s rs c_semi r CH_DEFAULT T_SEMI false HOC Hr).
  Qed.

  (** '%' that is not a macro trigger *)
  Lemma class_percent r : lt_class (c_pct :: r) c_pct.
  Proof.
    intros s rs Hmf HOC Hr Hf.
    assert (E : lexeme (c_pct :: r) (cur_byte s + bb) rs =
                ([mkRtok T_PERCENT CH_DEFAULT (cur_byte s + bb) PNone], [], 1, rs_after rs CH_DEFAULT T_PERCENT true))
      by (unfold lexeme; close_tests; reflexivity).
    rewrite E. split; [lia|]. split; [apply len_ge1|].
    exists (st_pend (st_emit (st_adv (st_start s) c_pct r) CH_DEFAULT T_PERCENT PNone) true). split.
    - open_default (oc_modes _ _ _ HOC) (oc_lines _ _ _ HOC). close_tests.
      assert (Hnx : (peek_next (scrub (st_start s)) =? c_star) = false /\
                    is_valid_unicode_sas_name_start (peek_next (scrub (st_start s))) = false).
      { unfold peek_next. change (c_rest (s_cur (scrub (st_start s)))) with (c_rest (s_cur s)). rewrite Hr.
        cbn [macro_free] in Hmf. replace (c_pct =? c_pct) with true in Hmf by reflexivity.
        destruct r as [|x r']; [split; reflexivity|].
        apply andb_true_iff in Hmf. destruct Hmf as [Hmf _]. apply negb_true_iff in Hmf.
        apply orb_false_iff in Hmf. exact Hmf. }
      destruct Hnx as [N1 N2]. rewrite N1, N2.
      unfold advance_, emit, set_pending_stat, ret. cbn [bindP do run].
      rewrite (ex_advance (st_start s) c_pct r Hr). cbn [run]. rewrite ex_emit. cbn [run].
      rewrite (ex_set_pending _ true (rs_pending rs) []); [reflexivity|exact (oc_pstat _ _ _ HOC)].
    - exact (step_simple1 text bb s rs c_pct r CH_DEFAULT T_PERCENT true HOC Hr).
  Qed.

  (** '/' that does not open a comment *)
  Lemma class_fslash r : match r with x :: _ => (x =? c_star) = false | [] => True end -> lt_class (c_slash :: r) c_slash.
  Proof.
    intros Hx s rs _ HOC Hr Hf.
    assert (E : lexeme (c_slash :: r) (cur_byte s + bb) rs =
                ([mkRtok T_FSLASH CH_DEFAULT (cur_byte s + bb) PNone], [], 1, rs_after rs CH_DEFAULT T_FSLASH true)).
    { unfold lexeme. close_tests. destruct r as [|x r']; [close_tests; reflexivity|]. rewrite Hx. reflexivity. }
    rewrite E. split; [lia|]. split; [apply len_ge1|].
    exists (st_pend (st_emit (st_adv (st_start s) c_slash r) CH_DEFAULT T_FSLASH PNone) true). split.
    - open_default (oc_modes _ _ _ HOC) (oc_lines _ _ _ HOC). close_tests.
      assert (Hnx : (peek_next (scrub (st_start s)) =? c_star) = false).
      { unfold peek_next. change (c_rest (s_cur (scrub (st_start s)))) with (c_rest (s_cur s)). rewrite Hr.
        destruct r as [|x r']; [reflexivity|exact Hx]. }
      rewrite Hnx.
      unfold advance_, emit, set_pending_stat, ret. cbn [bindP do run].
      rewrite (ex_advance (st_start s) c_slash r Hr). cbn [run]. rewrite ex_emit. cbn [run].
      rewrite (ex_set_pending _ true (rs_pending rs) []); [reflexivity|exact (oc_pstat _ _ _ HOC)].
    - exact (step_simple1 text bb s rs c_slash r CH_DEFAULT T_FSLASH true HOC Hr).
  Qed.

  (** symbols of one or two characters *)
  Definition TWO_TABLE : list (char * char * TokenType * TokenType) :=
    [(33, 33, T_EXCL2, T_EXCL); (166, 166, T_BPIPE2, T_BPIPE); (124, 124, T_PIPE2, T_PIPE);
     (172, 61, T_NE, T_NOT); (94, 61, T_NE, T_NOT); (126, 61, T_NE, T_NOT); (8728, 61, T_NE, T_NOT);
     (61, 42, T_SoundsLike, T_ASSIGN)].

  Lemma lexeme_two c second t2 t1 r pos rs : In (c, second, t2, t1) TWO_TABLE ->
    lexeme (c :: r) pos rs =
    match r with
    | c2 :: _ => if c2 =? second then ([mkRtok t2 CH_DEFAULT pos PNone], [], 2, rs_after rs CH_DEFAULT t2 true)
                 else ([mkRtok t1 CH_DEFAULT pos PNone], [], 1, rs_after rs CH_DEFAULT t1 true)
    | [] => ([mkRtok t1 CH_DEFAULT pos PNone], [], 1, rs_after rs CH_DEFAULT t1 true)
    end.
  Proof.
    intros Hin. unfold TWO_TABLE in Hin. cbn [In] in Hin.
    repeat (destruct Hin as [Hin|Hin]; [inversion Hin; subst; clear Hin; unfold lexeme; close_tests;
      (destruct r as [|c2 r']; [close_tests; reflexivity|]);
      repeat match goal with |- context [c2 =? ?k] => no_vars k; let v := eval vm_compute in k in progress change k with v end;
      match goal with |- context [c2 =? ?k] => destruct (c2 =? k) end; reflexivity|]).
    contradiction.
  Qed.

  Lemma class_two c second t2 t1 r : In (c, second, t2, t1) TWO_TABLE -> lt_class (c :: r) c.
  Proof.
    intros Hin s rs _ HOC Hr Hf.
    rewrite (lexeme_two c second t2 t1 r (cur_byte s + bb) rs Hin).
    assert (Hrun : run false (lex_token F msep c) s =
                   match run false (one_or_two second t2 t1) (st_start s) with
                   | Done _ X => run false (s' <- get ;;
                        when (match last_tok_type s' with Some t => negb (tt_eqb t T_PredictedCommentStat) | None => false end)
                             (set_pending_stat true)) X
                   | Panic site X => Panic site X
                   end).
    { open_default (oc_modes _ _ _ HOC) (oc_lines _ _ _ HOC).
      unfold TWO_TABLE in Hin. cbn [In] in Hin.
      repeat (destruct Hin as [Hin|Hin]; [inversion Hin; subst; clear Hin; close_tests; unfold lex_symbols; close_tests;
                                          rewrite run_bindP; reflexivity|]).
      contradiction. }
    rewrite Hrun. rewrite (run_one_or_two (st_start s) c r second t2 t1 Hr).
    assert (Ht2 : tt_eqb t2 T_PredictedCommentStat = false /\ tt_eqb t1 T_PredictedCommentStat = false).
    { unfold TWO_TABLE in Hin. cbn [In] in Hin.
      repeat (destruct Hin as [Hin|Hin]; [inversion Hin; subst; split; reflexivity|]). contradiction. }
    destruct Ht2 as [Ht2 Ht1].
    destruct r as [|c2 r'].
    - split; [lia|]. split; [apply len_ge1|]. eexists. split.
      + apply (run_symbols_tail _ CH_DEFAULT t1 PNone (rs_pending rs)); [exact (oc_pstat _ _ _ HOC)|exact Ht1].
      + exact (step_simple1 text bb s rs c [] CH_DEFAULT t1 true HOC Hr).
    - destruct (c2 =? second).
      + split; [lia|]. split; [apply len_ge2|]. eexists. split.
        * apply (run_symbols_tail _ CH_DEFAULT t2 PNone (rs_pending rs)); [exact (oc_pstat _ _ _ HOC)|exact Ht2].
        * exact (step_simple2 text bb s rs c c2 r' CH_DEFAULT t2 true HOC Hr).
      + split; [lia|]. split; [apply len_ge1|]. eexists. split.
        * apply (run_symbols_tail _ CH_DEFAULT t1 PNone (rs_pending rs)); [exact (oc_pstat _ _ _ HOC)|exact Ht1].
        * exact (step_simple1 text bb s rs c (c2 :: r') CH_DEFAULT t1 true HOC Hr).
  Qed.

  (** '<' and '>' *)
  Definition three_way (a : char) (ta : TokenType) (b : char) (tb t1 : TokenType) : prog unit :=
    advance_ ;; s <- get ;;
    if peek_is s (fun x => x =? a) then advance_ ;; emit ta
    else if peek_is s (fun x => x =? b) then advance_ ;; emit tb
    else emit t1.

  Lemma run_three_way s c r a ta b tb t1 : c_rest (s_cur s) = c :: r ->
    run false (three_way a ta b tb t1) s =
    match r with
    | c2 :: r' => if c2 =? a then Done tt (st_emit (st_adv (st_adv s c r) c2 r') CH_DEFAULT ta PNone)
                  else if c2 =? b then Done tt (st_emit (st_adv (st_adv s c r) c2 r') CH_DEFAULT tb PNone)
                  else Done tt (st_emit (st_adv s c r) CH_DEFAULT t1 PNone)
    | [] => Done tt (st_emit (st_adv s c r) CH_DEFAULT t1 PNone)
    end.
  Proof.
    intros Hr. unfold three_way, advance_, emit, get, ret. cbn [bindP do run]. rewrite (ex_advance s c r Hr). cbn [run].
    rewrite ex_get. cbn [run]. rewrite !peek_is_scrub. unfold peek_is, peek.
    change (c_rest (s_cur (st_adv s c r))) with r.
    destruct r as [|c2 r']; [cbn [bindP do run]; rewrite ex_emit; reflexivity|].
    destruct (c2 =? a); cbn [bindP do run].
    - rewrite (ex_advance (st_adv s c (c2 :: r')) c2 r' eq_refl). cbn [run]. rewrite ex_emit. reflexivity.
    - destruct (c2 =? b); cbn [bindP do run].
      + rewrite (ex_advance (st_adv s c (c2 :: r')) c2 r' eq_refl). cbn [run]. rewrite ex_emit. reflexivity.
      + rewrite ex_emit. reflexivity.
  Qed.

  Definition THREE_TABLE : list (char * char * TokenType * char * TokenType * TokenType) :=
    [(60, 61, T_LE, 62, T_LTGT, T_LT); (62, 61, T_GE, 60, T_GTLT, T_GT)].

  Lemma lexeme_three c a ta b tb t1 r pos rs : In (c, a, ta, b, tb, t1) THREE_TABLE ->
    lexeme (c :: r) pos rs =
    match r with
    | c2 :: _ => if c2 =? a then ([mkRtok ta CH_DEFAULT pos PNone], [], 2, rs_after rs CH_DEFAULT ta true)
                 else if c2 =? b then ([mkRtok tb CH_DEFAULT pos PNone], [], 2, rs_after rs CH_DEFAULT tb true)
                 else ([mkRtok t1 CH_DEFAULT pos PNone], [], 1, rs_after rs CH_DEFAULT t1 true)
    | [] => ([mkRtok t1 CH_DEFAULT pos PNone], [], 1, rs_after rs CH_DEFAULT t1 true)
    end.
  Proof.
    intros Hin. unfold THREE_TABLE in Hin. cbn [In] in Hin.
    repeat (destruct Hin as [Hin|Hin]; [inversion Hin; subst; clear Hin; unfold lexeme; close_tests;
      (destruct r as [|c2 r']; [close_tests; reflexivity|]);
      repeat match goal with |- context [c2 =? ?k] => no_vars k; let v := eval vm_compute in k in progress change k with v end;
      destruct (c2 =? 61); [reflexivity|]; match goal with |- context [c2 =? ?k] => destruct (c2 =? k) end; reflexivity|]).
    contradiction.
  Qed.

  Lemma class_three c a ta b tb t1 r : In (c, a, ta, b, tb, t1) THREE_TABLE -> lt_class (c :: r) c.
  Proof.
    intros Hin s rs _ HOC Hr Hf.
    rewrite (lexeme_three c a ta b tb t1 r (cur_byte s + bb) rs Hin).
    assert (Hrun : run false (lex_token F msep c) s =
                   match run false (three_way a ta b tb t1) (st_start s) with
                   | Done _ X => run false (s' <- get ;;
                        when (match last_tok_type s' with Some t => negb (tt_eqb t T_PredictedCommentStat) | None => false end)
                             (set_pending_stat true)) X
                   | Panic site X => Panic site X
                   end).
    { open_default (oc_modes _ _ _ HOC) (oc_lines _ _ _ HOC).
      unfold THREE_TABLE in Hin. cbn [In] in Hin.
      repeat (destruct Hin as [Hin|Hin]; [inversion Hin; subst; clear Hin; close_tests; unfold lex_symbols; close_tests;
                                          rewrite run_bindP; reflexivity|]).
      contradiction. }
    rewrite Hrun. rewrite (run_three_way (st_start s) c r a ta b tb t1 Hr).
    assert (Ht : tt_eqb ta T_PredictedCommentStat = false /\ tt_eqb tb T_PredictedCommentStat = false /\ tt_eqb t1 T_PredictedCommentStat = false).
    { unfold THREE_TABLE in Hin. cbn [In] in Hin.
      repeat (destruct Hin as [Hin|Hin]; [inversion Hin; subst; repeat split; reflexivity|]). contradiction. }
    destruct Ht as (Hta & Htb & Ht1).
    destruct r as [|c2 r'].
    - split; [lia|]. split; [apply len_ge1|]. eexists. split.
      + apply (run_symbols_tail _ CH_DEFAULT t1 PNone (rs_pending rs)); [exact (oc_pstat _ _ _ HOC)|exact Ht1].
      + exact (step_simple1 text bb s rs c [] CH_DEFAULT t1 true HOC Hr).
    - destruct (c2 =? a); [|destruct (c2 =? b)].
      + split; [lia|]. split; [apply len_ge2|]. eexists. split.
        * apply (run_symbols_tail _ CH_DEFAULT ta PNone (rs_pending rs)); [exact (oc_pstat _ _ _ HOC)|exact Hta].
        * exact (step_simple2 text bb s rs c c2 r' CH_DEFAULT ta true HOC Hr).
      + split; [lia|]. split; [apply len_ge2|]. eexists. split.
        * apply (run_symbols_tail _ CH_DEFAULT tb PNone (rs_pending rs)); [exact (oc_pstat _ _ _ HOC)|exact Htb].
        * exact (step_simple2 text bb s rs c c2 r' CH_DEFAULT tb true HOC Hr).
      + split; [lia|]. split; [apply len_ge1|]. eexists. split.
        * apply (run_symbols_tail _ CH_DEFAULT t1 PNone (rs_pending rs)); [exact (oc_pstat _ _ _ HOC)|exact Ht1].
        * exact (step_simple1 text bb s rs c (c2 :: r') CH_DEFAULT t1 true HOC Hr).
  Qed.

  (** '.' that does not start a number *)
  Lemma class_dot r : match r with x :: _ => is_ascii_digit x = false | [] => True end -> lt_class (c_dot :: r) c_dot.
  Proof.
    intros Hx s rs _ HOC Hr Hf.
    assert (E : lexeme (c_dot :: r) (cur_byte s + bb) rs =
                ([mkRtok T_DOT CH_DEFAULT (cur_byte s + bb) PNone], [], 1, rs_after rs CH_DEFAULT T_DOT true)).
    { unfold lexeme. close_tests. destruct r as [|x r']; [close_tests; reflexivity|]. rewrite Hx. close_tests. reflexivity. }
    rewrite E. split; [lia|]. split; [apply len_ge1|].
    exists (st_pend (st_emit (st_adv (st_start s) c_dot r) CH_DEFAULT T_DOT PNone) true). split.
    - open_default (oc_modes _ _ _ HOC) (oc_lines _ _ _ HOC). close_tests. unfold lex_symbols. close_tests.
      unfold get. cbn [bindP do run]. rewrite ex_get. cbn [run].
      assert (Hnx : is_ascii_digit (peek_next (scrub (st_start s))) = false).
      { unfold peek_next. change (c_rest (s_cur (scrub (st_start s)))) with (c_rest (s_cur s)). rewrite Hr.
        destruct r as [|x r']; [reflexivity|exact Hx]. }
      rewrite Hnx. rewrite run_bindP. rewrite (run_one (st_start s) c_dot r T_DOT Hr).
      apply (run_symbols_tail _ CH_DEFAULT T_DOT PNone (rs_pending rs)); [exact (oc_pstat _ _ _ HOC)|reflexivity].
    - exact (step_simple1 text bb s rs c_dot r CH_DEFAULT T_DOT true HOC Hr).
  Qed.

  (** any other character: a CatchAll token on the hidden channel *)
  Definition OTHER_SYMS : list char :=
    [39; 34; 59; 47; 38; 37; 42; 33; 166; 124; 172; 94; 126; 8728; 60; 62; 61; 46; 36] ++ SYM1.

  Definition catch_all (c : char) : bool :=
    negb (is_whitespace c) && negb (is_ascii_digit c) && negb (is_valid_unicode_sas_name_start c) &&
    forallb (fun k => negb (c =? k)) OTHER_SYMS.

  Lemma catch_all_neq c k : catch_all c = true -> In k OTHER_SYMS -> (c =? k) = false.
  Proof.
    unfold catch_all. intros H Hin. apply andb_true_iff in H. destruct H as [_ H].
    rewrite forallb_forall in H. apply negb_true_iff. apply H. exact Hin.
  Qed.

  Ltac use_neq Hc :=
    repeat match goal with
           | |- context [?c =? ?k] =>
             let E := fresh "E" in
             assert (E : (c =? k) = false) by (apply (catch_all_neq c k Hc); vm_compute; tauto);
             rewrite E; clear E
           end.

  Lemma catch_all_facts c : catch_all c = true ->
    is_whitespace c = false /\ is_ascii_digit c = false /\ is_valid_unicode_sas_name_start c = false.
  Proof.
    unfold catch_all. intros H. apply andb_true_iff in H. destruct H as [H _].
    apply andb_true_iff in H. destruct H as [H Hns]. apply andb_true_iff in H. destruct H as [Hws Hdg].
    apply negb_true_iff in Hws. apply negb_true_iff in Hdg. apply negb_true_iff in Hns. auto.
  Qed.

  Lemma lexeme_catch_all c r pos rs : catch_all c = true ->
    lexeme (c :: r) pos rs = ([mkRtok T_CatchAll CH_HIDDEN pos PNone], [], 1, rs_after rs CH_HIDDEN T_CatchAll true).
  Proof.
    intros Hc. destruct (catch_all_facts c Hc) as (Hws & Hdg & Hns).
    unfold lexeme. rewrite Hws. use_neq Hc. rewrite Hdg, Hns. cbn [orb andb]. unfold sym1. use_neq Hc. reflexivity.
  Qed.

  Lemma lex_symbols_catch_all c : catch_all c = true ->
    lex_symbols F c = (advance_ ;; emit_token CH_HIDDEN T_CatchAll PNone).
  Proof. intros Hc. unfold lex_symbols. use_neq Hc. reflexivity. Qed.

  Lemma default_to_symbols c s : catch_all c = true -> s_modes s = [MDefault] -> lines_pos s ->
    run false (lex_token F msep c) s =
    run false (lex_symbols F c ;; s' <- get ;;
               when (match last_tok_type s' with Some t => negb (tt_eqb t T_PredictedCommentStat) | None => false end)
                    (set_pending_stat true)) (st_start s).
  Proof.
    intros Hc Hm Hl. destruct (catch_all_facts c Hc) as (Hws & Hdg & Hns).
    open_default Hm Hl. rewrite Hws. use_neq Hc. rewrite Hdg, Hns. reflexivity.
  Qed.

  Lemma class_catch_all c r : catch_all c = true -> lt_class (c :: r) c.
  Proof.
    intros Hc s rs _ HOC Hr Hf.
    rewrite (lexeme_catch_all c r (cur_byte s + bb) rs Hc). split; [lia|]. split; [apply len_ge1|].
    exists (st_pend (st_emit (st_adv (st_start s) c r) CH_HIDDEN T_CatchAll PNone) true). split.
    - rewrite (default_to_symbols c s Hc (oc_modes _ _ _ HOC) (oc_lines _ _ _ HOC)).
      rewrite (lex_symbols_catch_all c Hc).
      rewrite run_bindP. unfold advance_, emit_token, ret. cbn [bindP do run].
      rewrite (ex_advance (st_start s) c r Hr). cbn [run]. rewrite ex_emit.
      apply (run_symbols_tail _ CH_HIDDEN T_CatchAll PNone (rs_pending rs)); [exact (oc_pstat _ _ _ HOC)|reflexivity].
    - exact (step_simple1 text bb s rs c r CH_HIDDEN T_CatchAll true HOC Hr).
  Qed.

  (** ** Tokens found by a scanning loop *)
  Lemma InvPos_run {A} (p : prog A) s a s' : InvPos text s -> run false p s = Done a s' -> InvPos text s'.
  Proof. intros I H. pose proof (run_InvPos false text p s I) as R. rewrite H in R. exact R. Qed.

  Lemma step_scan {A} (p : prog A) a s rs s1 n ch ty pl v :
    OC text s rs -> frame s1 = frame (st_start s) -> lines_pos s1 ->
    c_rest (s_cur s1) = skipn_N (N.to_nat n) (c_rest (s_cur s)) ->
    run false p s = Done a (st_pend (st_emit s1 ch ty pl) v) ->
    StepOK text bb s [mkRtok ty ch (cur_byte s + bb) pl] [] n (rs_after rs ch ty v) (st_pend (st_emit s1 ch ty pl) v).
  Proof.
    intros HOC Hfr Hl Hrest Hrun. pose proof (frame_eq _ _ Hfr) as Fe.
    pose proof (InvPos_run p s a _ (oc_inv _ _ _ HOC) Hrun) as Hinv.
    constructor.
    - constructor.
      + exact Hinv.
      + change (s_modes s1 = [MDefault]). rewrite (fe_modes _ _ Fe). exact (oc_modes _ _ _ HOC).
      + change (s_cp s1 = None). rewrite (fe_cp _ _ Fe). exact (oc_cp _ _ _ HOC).
      + change (s_mnl s1 = 0). rewrite (fe_mnl _ _ Fe). exact (oc_mnl _ _ _ HOC).
      + reflexivity.
      + rewrite last_default_pend, last_default_emit. cbn [rs_after rs_prev].
        destruct (ch_eqb ch CH_DEFAULT); [reflexivity|].
        unfold last_default_type, last_default_tok. rewrite (fe_toks _ _ Fe). exact (oc_prev _ _ _ HOC).
      + change (w_lit (s_buf s1) = rs_lit rs). rewrite (fe_lit _ _ Fe). exact (oc_lit _ _ _ HOC).
      + change (w_litlen (s_buf s1) = rs_litlen rs). rewrite (fe_litlen _ _ Fe). exact (oc_litlen _ _ _ HOC).
      + destruct Hl as [q Hq]. exists q. exact Hq.
    - exact Hrest.
    - change (map (tv bb) (mkTok ch ty (s_ct_byte s1) (s_ct_start s1) (s_ct_line s1) pl :: w_toks (s_buf s1)) =
              rev (map rv [mkRtok ty ch (cur_byte s + bb) pl]) ++ map (tv bb) (w_toks (s_buf s))).
      rewrite (fe_toks _ _ Fe), (fe_ctb _ _ Fe). reflexivity.
    - change (map (ev bb) (s_errs s1) = map (ev bb) (s_errs s)). rewrite (fe_errs _ _ Fe). reflexivity.
    - change ((s_iters s1, s_aborted s1, s_loop_detected s1) = (s_iters s, s_aborted s, s_loop_detected s)).
      rewrite (fe_iters _ _ Fe), (fe_ab _ _ Fe), (fe_ld _ _ Fe). reflexivity.
  Qed.

  (** [eat_while]: the state after the run of characters satisfying [p] *)
  Fixpoint st_eat (p : char -> bool) (s : st) (l : list char) : st :=
    match l with
    | x :: r => if p x then st_eat p (st_adv s x r) r else s
    | [] => s
    end.

  Lemma st_eat_spec p : forall l s, c_rest (s_cur s) = l ->
    c_rest (s_cur (st_eat p s l)) = drop_while p l /\ frame (st_eat p s l) = frame s /\
    w_nlines (s_buf (st_eat p s l)) = w_nlines (s_buf s).
  Proof.
    induction l as [|x r IH]; intros s Hr; cbn [st_eat drop_while]; [auto|].
    destruct (p x); [|auto].
    destruct (IH (st_adv s x r) eq_refl) as (A & B & C). split; [exact A|]. split; [rewrite B; reflexivity|rewrite C; reflexivity].
  Qed.

  Lemma eat_while_spec p : forall l f s, (List.length l < f)%nat -> c_rest (s_cur s) = l ->
    run false (eat_while_loop p f) s = Done tt (st_eat p s l).
  Proof.
    induction l as [|x r IH]; intros f s Hf Hr; (destruct f as [|f]; [cbn in Hf; lia|]);
      cbn [eat_while_loop]; unfold get, advance_, ret; cbn [bindP do run]; rewrite ex_get; cbn [run];
      rewrite peek_is_scrub; unfold peek_is, peek; rewrite Hr; cbn [st_eat].
    - reflexivity.
    - destruct (p x); [|reflexivity]. cbn [bindP do run]. rewrite (ex_advance s x r Hr). cbn [run].
      apply IH; [cbn in Hf; lia|reflexivity].
  Qed.

  (** '&' run that is not a macro variable reference *)
  Lemma amp_not_macro r : macro_free (c_amp :: r) = true -> fst (is_macro_amp (c_amp :: r)) = false.
  Proof.
    intros H. cbn [macro_free] in H. replace (c_amp =? c_pct) with false in H by reflexivity.
    replace (c_amp =? c_amp) with true in H by reflexivity.
    apply andb_true_iff in H. destruct H as [H _].
    unfold is_macro_amp. cbn [drop_while]. replace (c_amp =? c_amp) with true by reflexivity.
    destruct (drop_while (fun x => x =? c_amp) r) as [|x q]; [reflexivity|].
    cbn [fst]. apply negb_true_iff. exact H.
  Qed.

  Lemma class_amp r : lt_class (c_amp :: r) c_amp.
  Proof.
    intros s rs Hmf HOC Hr Hf.
    assert (E : lexeme (c_amp :: r) (cur_byte s + bb) rs =
                ([mkRtok T_AMP CH_DEFAULT (cur_byte s + bb) PNone], [], count_while (fun x => x =? c_amp) (c_amp :: r),
                 rs_after rs CH_DEFAULT T_AMP true))
      by (unfold lexeme; close_tests; reflexivity).
    rewrite E. clear E.
    assert (Hn : 1 <= count_while (fun x => x =? c_amp) (c_amp :: r) <= len (c_amp :: r)).
    { cbn [count_while]. replace (c_amp =? c_amp) with true by reflexivity. split; [lia|].
      unfold len. cbn [List.length]. assert (G : forall l, count_while (fun x => x =? c_amp) l <= N.of_nat (List.length l)).
      { induction l as [|x l IH]; cbn [count_while List.length]; [lia|]. destruct (x =? c_amp); lia. }
      specialize (G r). lia. }
    split; [apply Hn|]. split; [apply Hn|].
    pose proof (st_eat_spec (fun x => x =? c_amp) (c_amp :: r) (st_start s) Hr) as (R1 & F1 & L1).
    exists (st_pend (st_emit (st_eat (fun x => x =? c_amp) (st_start s) (c_amp :: r)) CH_DEFAULT T_AMP PNone) true).
    assert (Hrun : run false (lex_token F msep c_amp) s =
                   Done tt (st_pend (st_emit (st_eat (fun x => x =? c_amp) (st_start s) (c_amp :: r)) CH_DEFAULT T_AMP PNone) true)).
    { open_default (oc_modes _ _ _ HOC) (oc_lines _ _ _ HOC). close_tests.
      unfold lex_macro_var_expr, assert_dbg, get. cbn [bindP do run]. rewrite ex_assert. cbn [run]. rewrite ex_get. cbn [run].
      change (rest (scrub (st_start s))) with (c_rest (s_cur s)). rewrite Hr.
      pose proof (amp_not_macro r Hmf) as Hna. destruct (is_macro_amp (c_amp :: r)) as [im na]. cbn [fst] in Hna. subst im.
      cbn [negb]. unfold ret, when. cbn [bindP run negb]. unfold eat_while, emit, set_pending_stat.
      rewrite run_bindP. rewrite run_bindP.
      rewrite (eat_while_spec (fun x => x =? c_amp) (c_amp :: r) F (st_start s) Hf Hr).
      cbn [do run]. rewrite ex_emit. cbn [run].
      rewrite (ex_set_pending _ true (rs_pending rs) []); [reflexivity|].
      change (s_pstat (st_eat (fun x => x =? c_amp) (st_start s) (c_amp :: r)) = [rs_pending rs]).
      pose proof (frame_eq _ _ F1) as Fe. rewrite (fe_pstat _ _ Fe). exact (oc_pstat _ _ _ HOC). }
    split; [exact Hrun|].
    apply (step_scan (lex_token F msep c_amp) tt s rs _ _ CH_DEFAULT T_AMP PNone true HOC F1).
    - destruct (oc_lines _ _ _ HOC) as [q Hq]. exists q. rewrite L1. exact Hq.
    - rewrite R1, Hr. symmetry. apply skipn_count_while.
    - exact Hrun.
  Qed.

  (** '*': multiplication inside a statement, a comment to the next ';' at statement start *)
  Fixpoint st_pc (s : st) (l : list char) : st :=
    match l with
    | [] => s
    | x :: r => if x =? NL then st_pc (ws1 s x r) r else if x =? c_semi then ws1 s x r else st_pc (ws1 s x r) r
    end.

  Lemma find_semi_acc l : forall n, find_semi l n = n + find_semi l 0.
  Proof.
    induction l as [|x r IH]; intros n; cbn [find_semi]; [lia|].
    destruct (x =? c_semi); [lia|]. rewrite (IH (n + 1)), (IH (0 + 1)). lia.
  Qed.

  Lemma st_pc_spec : forall l s, c_rest (s_cur s) = l -> lines_pos s ->
    c_rest (s_cur (st_pc s l)) = skipn_N (N.to_nat (find_semi l 0)) l /\ frame (st_pc s l) = frame s /\ lines_pos (st_pc s l).
  Proof.
    induction l as [|x r IH]; intros s Hr Hl; cbn [st_pc find_semi]; [cbn; auto|].
    assert (Hnl : (x =? NL) = true -> (x =? c_semi) = false).
    { intros E. apply N.eqb_eq in E. subst x. reflexivity. }
    destruct (x =? NL) eqn:En.
    - rewrite (Hnl eq_refl). rewrite find_semi_acc.
      destruct (IH (ws1 s x r) (ws1_rest _ _ _) (ws1_lines _ _ _ Hl)) as (A & B & C).
      replace (N.to_nat (0 + 1 + find_semi r 0)) with (S (N.to_nat (find_semi r 0))) by lia. cbn [skipn_N].
      split; [exact A|]. split; [rewrite B; apply ws1_frame|exact C].
    - destruct (x =? c_semi).
      + cbn. split; [apply ws1_rest|]. split; [apply ws1_frame|apply ws1_lines; exact Hl].
      + rewrite find_semi_acc.
        destruct (IH (ws1 s x r) (ws1_rest _ _ _) (ws1_lines _ _ _ Hl)) as (A & B & C).
        replace (N.to_nat (0 + 1 + find_semi r 0)) with (S (N.to_nat (find_semi r 0))) by lia. cbn [skipn_N].
        split; [exact A|]. split; [rewrite B; apply ws1_frame|exact C].
  Qed.

  Lemma pc_open_spec : forall l f s, (List.length l < f)%nat -> c_rest (s_cur s) = l ->
    run false (pc_open_loop f) s = Done tt (st_pc s l).
  Proof.
    induction l as [|x r IH]; intros f s Hf Hr; (destruct f as [|f]; [cbn in Hf; lia|]);
      cbn [pc_open_loop]; unfold advance, add_line, ret; cbn [bindP do run].
    - rewrite (ex_advance_nil s Hr). reflexivity.
    - rewrite (ex_advance s x r Hr). cbn [run st_pc]. unfold ws1.
      destruct (x =? NL) eqn:En.
      + cbn [bindP do run]. rewrite ex_add_line. cbn [run]. apply IH; [cbn in Hf; lia|reflexivity].
      + destruct (x =? c_semi); [reflexivity|]. apply IH; [cbn in Hf; lia|reflexivity].
  Qed.

  Lemma ex_pending s b ps : s_pstat s = b :: ps -> exec false OPending s = Done b s.
  Proof. intros H. unfold exec. rewrite H. reflexivity. Qed.

  (** a token on a non-default channel that leaves the carried bits alone *)
  Lemma step_scan_hidden {A} (p : prog A) a s rs s1 n ch ty pl :
    ch_eqb ch CH_DEFAULT = false ->
    OC text s rs -> frame s1 = frame (st_start s) -> lines_pos s1 ->
    c_rest (s_cur s1) = skipn_N (N.to_nat n) (c_rest (s_cur s)) ->
    run false p s = Done a (st_emit s1 ch ty pl) ->
    StepOK text bb s [mkRtok ty ch (cur_byte s + bb) pl] [] n rs (st_emit s1 ch ty pl).
  Proof.
    intros Hch HOC Hfr Hl Hrest Hrun. pose proof (frame_eq _ _ Hfr) as Fe.
    pose proof (InvPos_run p s a _ (oc_inv _ _ _ HOC) Hrun) as Hinv.
    constructor.
    - constructor.
      + exact Hinv.
      + change (s_modes s1 = [MDefault]). rewrite (fe_modes _ _ Fe). exact (oc_modes _ _ _ HOC).
      + change (s_cp s1 = None). rewrite (fe_cp _ _ Fe). exact (oc_cp _ _ _ HOC).
      + change (s_mnl s1 = 0). rewrite (fe_mnl _ _ Fe). exact (oc_mnl _ _ _ HOC).
      + change (s_pstat s1 = [rs_pending rs]). rewrite (fe_pstat _ _ Fe). exact (oc_pstat _ _ _ HOC).
      + rewrite last_default_emit, Hch.
        unfold last_default_type, last_default_tok. rewrite (fe_toks _ _ Fe). exact (oc_prev _ _ _ HOC).
      + change (w_lit (s_buf s1) = rs_lit rs). rewrite (fe_lit _ _ Fe). exact (oc_lit _ _ _ HOC).
      + change (w_litlen (s_buf s1) = rs_litlen rs). rewrite (fe_litlen _ _ Fe). exact (oc_litlen _ _ _ HOC).
      + destruct Hl as [q Hq]. exists q. exact Hq.
    - exact Hrest.
    - change (map (tv bb) (mkTok ch ty (s_ct_byte s1) (s_ct_start s1) (s_ct_line s1) pl :: w_toks (s_buf s1)) =
              rev (map rv [mkRtok ty ch (cur_byte s + bb) pl]) ++ map (tv bb) (w_toks (s_buf s))).
      rewrite (fe_toks _ _ Fe), (fe_ctb _ _ Fe). reflexivity.
    - change (map (ev bb) (s_errs s1) = map (ev bb) (s_errs s)). rewrite (fe_errs _ _ Fe). reflexivity.
    - change ((s_iters s1, s_aborted s1, s_loop_detected s1) = (s_iters s, s_aborted s, s_loop_detected s)).
      rewrite (fe_iters _ _ Fe), (fe_ab _ _ Fe), (fe_ld _ _ Fe). reflexivity.
  Qed.

  Lemma default_to_symbols_star s : s_modes s = [MDefault] -> lines_pos s ->
    run false (lex_token F msep c_star) s =
    run false (lex_symbols F c_star ;; s' <- get ;;
               when (match last_tok_type s' with Some t => negb (tt_eqb t T_PredictedCommentStat) | None => false end)
                    (set_pending_stat true)) (st_start s).
  Proof. intros Hm Hl. open_default Hm Hl. close_tests. reflexivity. Qed.

  Lemma lex_symbols_star :
    lex_symbols F c_star =
    (advance_ ;; b <- lex_predicted_comment F ;;
     if b then ret tt
     else s <- get ;; if peek_is s (fun x => x =? c_star) then advance_ ;; emit T_STAR2 else emit T_STAR).
  Proof. unfold lex_symbols. close_tests. reflexivity. Qed.

  Lemma class_star r : lt_class (c_star :: r) c_star.
  Proof.
    intros s rs _ HOC Hr Hf.
    rewrite (default_to_symbols_star s (oc_modes _ _ _ HOC) (oc_lines _ _ _ HOC)), lex_symbols_star.
    set (s1 := st_adv (st_start s) c_star r).
    assert (Hp1 : s_pstat s1 = [rs_pending rs]) by exact (oc_pstat _ _ _ HOC).
    destruct (rs_pending rs) eqn:Hpend.
    - (* inside a statement: an operator *)
      assert (E : lexeme (c_star :: r) (cur_byte s + bb) rs =
                  match r with
                  | c2 :: _ => if c2 =? c_star then ([mkRtok T_STAR2 CH_DEFAULT (cur_byte s + bb) PNone], [], 2, rs_after rs CH_DEFAULT T_STAR2 true)
                               else ([mkRtok T_STAR CH_DEFAULT (cur_byte s + bb) PNone], [], 1, rs_after rs CH_DEFAULT T_STAR true)
                  | [] => ([mkRtok T_STAR CH_DEFAULT (cur_byte s + bb) PNone], [], 1, rs_after rs CH_DEFAULT T_STAR true)
                  end).
      { unfold lexeme. close_tests. rewrite Hpend. destruct r as [|c2 r']; [close_tests; reflexivity|].
        destruct (c2 =? c_star); reflexivity. }
      rewrite E. clear E.
      assert (Hrun : forall X ty, s_pstat X = [true] -> tt_eqb ty T_PredictedCommentStat = false ->
                run false (s' <- get ;;
                   when (match last_tok_type s' with Some t => negb (tt_eqb t T_PredictedCommentStat) | None => false end)
                        (set_pending_stat true)) (st_emit X CH_DEFAULT ty PNone) = Done tt (st_pend (st_emit X CH_DEFAULT ty PNone) true)).
      { intros X ty HX Hty. apply (run_symbols_tail X CH_DEFAULT ty PNone true HX Hty). }
      assert (Hhead : run false (advance_ ;; b <- lex_predicted_comment F ;;
                        if b then ret tt else s0 <- get ;; if peek_is s0 (fun x => x =? c_star) then advance_ ;; emit T_STAR2 else emit T_STAR) (st_start s) =
                      match r with
                      | c2 :: r' => if c2 =? c_star then Done tt (st_emit (st_adv s1 c2 r') CH_DEFAULT T_STAR2 PNone)
                                    else Done tt (st_emit s1 CH_DEFAULT T_STAR PNone)
                      | [] => Done tt (st_emit s1 CH_DEFAULT T_STAR PNone)
                      end).
      { unfold advance_, lex_predicted_comment, get, emit, ret. cbn [bindP do run].
        rewrite (ex_advance (st_start s) c_star r Hr). cbn [run]. fold s1.
        rewrite (ex_pending s1 true [] Hp1). cbn [run bindP do]. rewrite ex_get. cbn [run].
        rewrite peek_is_scrub. unfold peek_is, peek. change (c_rest (s_cur s1)) with r.
        destruct r as [|c2 r']; [cbn [bindP do run]; rewrite ex_emit; reflexivity|].
        destruct (c2 =? c_star); cbn [bindP do run].
        - rewrite (ex_advance s1 c2 r' eq_refl). cbn [run]. rewrite ex_emit. reflexivity.
        - rewrite ex_emit. reflexivity. }
      rewrite run_bindP, Hhead.
      destruct r as [|c2 r'].
      + split; [lia|]. split; [apply len_ge1|]. eexists. split; [apply Hrun; [exact Hp1|reflexivity]|].
        exact (step_simple1 text bb s rs c_star [] CH_DEFAULT T_STAR true HOC Hr).
      + destruct (c2 =? c_star).
        * split; [lia|]. split; [apply len_ge2|]. eexists. split; [apply Hrun; [exact Hp1|reflexivity]|].
          exact (step_simple2 text bb s rs c_star c2 r' CH_DEFAULT T_STAR2 true HOC Hr).
        * split; [lia|]. split; [apply len_ge1|]. eexists. split; [apply Hrun; [exact Hp1|reflexivity]|].
          exact (step_simple1 text bb s rs c_star (c2 :: r') CH_DEFAULT T_STAR true HOC Hr).
    - (* at statement start: a comment through the next ';' *)
      assert (E : lexeme (c_star :: r) (cur_byte s + bb) rs =
                  ([mkRtok T_PredictedCommentStat CH_COMMENT (cur_byte s + bb) PNone], [], find_semi r 1, rs)).
      { unfold lexeme. close_tests. rewrite Hpend. reflexivity. }
      rewrite E. clear E.
      assert (Hn : 1 <= find_semi r 1 <= len (c_star :: r)).
      { rewrite find_semi_acc. split; [lia|]. unfold len. cbn [List.length].
        assert (G : forall l, find_semi l 0 <= N.of_nat (List.length l)).
        { induction l as [|x l IH]; cbn [find_semi List.length]; [lia|]. destruct (x =? c_semi); [lia|].
          rewrite find_semi_acc. lia. }
        specialize (G r). lia. }
      split; [apply Hn|]. split; [apply Hn|].
      assert (Hl1 : lines_pos s1) by exact (oc_lines _ _ _ HOC).
      destruct (st_pc_spec r s1 eq_refl Hl1) as (R2 & F2 & L2).
      exists (st_emit (st_pc s1 r) CH_COMMENT T_PredictedCommentStat PNone).
      assert (Hhead : run false (advance_ ;; b <- lex_predicted_comment F ;;
                        if b then ret tt else s0 <- get ;; if peek_is s0 (fun x => x =? c_star) then advance_ ;; emit T_STAR2 else emit T_STAR) (st_start s) =
                      Done tt (st_emit (st_pc s1 r) CH_COMMENT T_PredictedCommentStat PNone)).
      { unfold advance_, lex_predicted_comment, get, emit_token, ret. cbn [bindP do run].
        rewrite (ex_advance (st_start s) c_star r Hr). cbn [run]. fold s1.
        rewrite (ex_pending s1 false [] Hp1). cbn [run bindP do]. rewrite ex_get. cbn [run].
        change (s_mnl (scrub s1)) with (s_mnl s). rewrite (oc_mnl _ _ _ HOC). change (0 =? 0) with true. cbv iota.
        rewrite !run_bindP. rewrite (pc_open_spec r F s1 ltac:(cbn in Hf; lia) eq_refl).
        repeat (cbn [bindP do run]; rewrite ?ex_emit). reflexivity. }
      assert (Htail : run false (s' <- get ;;
                      when (match last_tok_type s' with Some t => negb (tt_eqb t T_PredictedCommentStat) | None => false end)
                           (set_pending_stat true)) (st_emit (st_pc s1 r) CH_COMMENT T_PredictedCommentStat PNone) =
                     Done tt (st_emit (st_pc s1 r) CH_COMMENT T_PredictedCommentStat PNone)).
      { unfold get, when. cbn [bindP do run]. rewrite ex_get. cbn [run].
        change (last_tok_type (scrub (st_emit (st_pc s1 r) CH_COMMENT T_PredictedCommentStat PNone))) with (Some T_PredictedCommentStat).
        cbv iota. change (tt_eqb T_PredictedCommentStat T_PredictedCommentStat) with true. reflexivity. }
      assert (Hrun : run false ((advance_ ;; b <- lex_predicted_comment F ;;
                        if b then ret tt else s0 <- get ;; if peek_is s0 (fun x => x =? c_star) then advance_ ;; emit T_STAR2 else emit T_STAR) ;;
                      s' <- get ;;
                      when (match last_tok_type s' with Some t => negb (tt_eqb t T_PredictedCommentStat) | None => false end)
                           (set_pending_stat true)) (st_start s) =
                     Done tt (st_emit (st_pc s1 r) CH_COMMENT T_PredictedCommentStat PNone)).
      { rewrite run_bindP, Hhead. exact Htail. }
      split; [exact Hrun|].
      assert (Hrun' : run false (start_token ;; (advance_ ;; b <- lex_predicted_comment F ;;
                        if b then ret tt else s0 <- get ;; if peek_is s0 (fun x => x =? c_star) then advance_ ;; emit T_STAR2 else emit T_STAR) ;;
                      s' <- get ;;
                      when (match last_tok_type s' with Some t => negb (tt_eqb t T_PredictedCommentStat) | None => false end)
                           (set_pending_stat true)) s =
                     Done tt (st_emit (st_pc s1 r) CH_COMMENT T_PredictedCommentStat PNone)).
      { unfold start_token at 1. rewrite run_bindP. cbn [do run]. rewrite (ex_start_token s (oc_lines _ _ _ HOC)). exact Hrun. }
      refine (step_scan_hidden _ tt s rs (st_pc s1 r) (find_semi r 1) CH_COMMENT T_PredictedCommentStat PNone eq_refl HOC _ L2 _ Hrun').
      + rewrite F2. reflexivity.
      + rewrite R2, Hr. rewrite (find_semi_acc r 1). replace (N.to_nat (1 + find_semi r 0)) with (S (N.to_nat (find_semi r 0))) by lia. reflexivity.
  Qed.

  (** the same with one error reported after the token *)
  Lemma step_scan_hidden_err {A} (p : prog A) a s rs s1 n ch ty pl k :
    ch_eqb ch CH_DEFAULT = false ->
    OC text s rs -> frame s1 = frame (st_start s) -> lines_pos s1 ->
    c_rest (s_cur s1) = skipn_N (N.to_nat n) (c_rest (s_cur s)) ->
    run false p s = Done a (Core.emit_error (st_emit s1 ch ty pl) k) ->
    StepOK text bb s [mkRtok ty ch (cur_byte s + bb) pl] [mkRerr k (cur_byte s1 + bb)] n rs
           (Core.emit_error (st_emit s1 ch ty pl) k).
  Proof.
    intros Hch HOC Hfr Hl Hrest Hrun. pose proof (frame_eq _ _ Hfr) as Fe.
    pose proof (InvPos_run p s a _ (oc_inv _ _ _ HOC) Hrun) as Hinv.
    constructor.
    - constructor.
      + exact Hinv.
      + change (s_modes s1 = [MDefault]). rewrite (fe_modes _ _ Fe). exact (oc_modes _ _ _ HOC).
      + change (s_cp s1 = None). rewrite (fe_cp _ _ Fe). exact (oc_cp _ _ _ HOC).
      + change (s_mnl s1 = 0). rewrite (fe_mnl _ _ Fe). exact (oc_mnl _ _ _ HOC).
      + change (s_pstat s1 = [rs_pending rs]). rewrite (fe_pstat _ _ Fe). exact (oc_pstat _ _ _ HOC).
      + change (last_default_type (st_emit s1 ch ty pl) = rs_prev rs). rewrite last_default_emit, Hch.
        unfold last_default_type, last_default_tok. rewrite (fe_toks _ _ Fe). exact (oc_prev _ _ _ HOC).
      + change (w_lit (s_buf s1) = rs_lit rs). rewrite (fe_lit _ _ Fe). exact (oc_lit _ _ _ HOC).
      + change (w_litlen (s_buf s1) = rs_litlen rs). rewrite (fe_litlen _ _ Fe). exact (oc_litlen _ _ _ HOC).
      + destruct Hl as [q Hq]. exists q. exact Hq.
    - exact Hrest.
    - change (map (tv bb) (mkTok ch ty (s_ct_byte s1) (s_ct_start s1) (s_ct_line s1) pl :: w_toks (s_buf s1)) =
              rev (map rv [mkRtok ty ch (cur_byte s + bb) pl]) ++ map (tv bb) (w_toks (s_buf s))).
      rewrite (fe_toks _ _ Fe), (fe_ctb _ _ Fe). reflexivity.
    - change (ev bb (prep_error (st_emit s1 ch ty pl) k) :: map (ev bb) (s_errs s1) =
              rev (map rve [mkRerr k (cur_byte s1 + bb)]) ++ map (ev bb) (s_errs s)).
      rewrite (fe_errs _ _ Fe). reflexivity.
    - change ((s_iters s1, s_aborted s1, s_loop_detected s1) = (s_iters s, s_aborted s, s_loop_detected s)).
      rewrite (fe_iters _ _ Fe), (fe_ab _ _ Fe), (fe_ld _ _ Fe). reflexivity.
  Qed.

  (** C-style comments *)
  Fixpoint st_cs (s : st) (l : list char) : st * bool :=
    match l with
    | [] => (s, false)
    | x :: r =>
      let s1 := st_adv s x r in
      match r with
      | y :: r' =>
        if (x =? c_star) && (y =? c_slash) then (st_adv s1 y r', true)
        else st_cs (if x =? NL then st_add_line s1 else s1) r
      | [] => st_cs (if x =? NL then st_add_line s1 else s1) r
      end
    end.

  Lemma fce_acc l : forall n, find_comment_end l n = option_map (fun k => n + k) (find_comment_end l 0).
  Proof.
    induction l as [|a l IH]; intros n; [reflexivity|]. destruct l as [|b l']; [reflexivity|].
    rewrite !fce_cons. destruct ((a =? c_star) && (b =? c_slash)); [cbn [option_map]; f_equal; lia|].
    rewrite (IH (n + 1)), (IH (0 + 1)). destruct (find_comment_end (b :: l') 0); cbn [option_map]; [f_equal; lia|reflexivity].
  Qed.

  Lemma st_cs_spec : forall l s, c_rest (s_cur s) = l -> lines_pos s ->
    let '(s', closed) := st_cs s l in
    frame s' = frame s /\ lines_pos s' /\
    match find_comment_end l 0 with
    | Some k => closed = true /\ c_rest (s_cur s') = skipn_N (N.to_nat k) l /\ k <= len l
    | None => closed = false /\ c_rest (s_cur s') = []
    end.
  Proof.
    induction l as [|x r IH]; intros s Hr Hl; [cbn; auto|].
    cbn [st_cs].
    assert (Hstep : forall s2, s2 = (if x =? NL then st_add_line (st_adv s x r) else st_adv s x r) ->
              c_rest (s_cur s2) = r /\ frame s2 = frame s /\ lines_pos s2).
    { intros s2 ->. destruct (x =? NL); (split; [reflexivity|]); (split; [reflexivity|]);
        [apply lines_pos_add_line|]; apply lines_pos_adv; exact Hl. }
    destruct r as [|y r'].
    - destruct (Hstep _ eq_refl) as (A & B & C). cbn [st_cs find_comment_end]. auto.
    - rewrite fce_cons. destruct ((x =? c_star) && (y =? c_slash)) eqn:E.
      + split; [reflexivity|]. split; [exact Hl|]. split; [reflexivity|]. split; [reflexivity|].
        unfold len. cbn [List.length]. lia.
      + destruct (Hstep _ eq_refl) as (A & B & C).
        specialize (IH _ A C).
        destruct (st_cs (if x =? NL then st_add_line (st_adv s x (y :: r')) else st_adv s x (y :: r')) (y :: r')) as [s' closed].
        destruct IH as (I1 & I2 & I3). split; [rewrite I1; exact B|]. split; [exact I2|].
        rewrite (fce_acc (y :: r') (0 + 1)).
        destruct (find_comment_end (y :: r') 0) as [k|]; cbn [option_map].
        * destruct I3 as (J1 & J2 & J3). split; [exact J1|]. split.
          -- rewrite J2. replace (N.to_nat (0 + 1 + k)) with (S (N.to_nat k)) by lia. reflexivity.
          -- unfold len in *. cbn [List.length] in *. lia.
        * exact I3.
  Qed.

  Lemma cstyle_loop_spec : forall l f s, (List.length l < f)%nat -> c_rest (s_cur s) = l ->
    run false (cstyle_loop f) s =
    let '(s', closed) := st_cs s l in
    if closed then Done true (st_emit s' CH_COMMENT T_CStyleComment PNone) else Done false s'.
  Proof.
    induction l as [|x r IH]; intros f s Hf Hr; (destruct f as [|f]; [cbn in Hf; lia|]);
      cbn [cstyle_loop]; unfold advance, advance_, get, emit_token, when, add_line, ret; cbn [bindP do run].
    - rewrite (ex_advance_nil s Hr). reflexivity.
    - rewrite (ex_advance s x r Hr). cbn [run]. rewrite ex_get. cbn [run]. rewrite peek_is_scrub.
      unfold peek_is, peek. change (c_rest (s_cur (st_adv s x r))) with r. cbn [st_cs].
      assert (Hf' : (List.length r < f)%nat) by (cbn [List.length] in Hf; lia).
      destruct r as [|y r'].
      + rewrite andb_false_r. destruct (x =? NL); cbn [bindP do run]; rewrite ?ex_add_line; cbn [run];
          match goal with |- context [run false (cstyle_loop f) ?S] => rewrite (IH f S Hf' eq_refl) end; reflexivity.
      + destruct ((x =? c_star) && (y =? c_slash)).
        * cbn [bindP do run]. rewrite (ex_advance (st_adv s x (y :: r')) y r' eq_refl). cbn [run]. rewrite ex_emit. reflexivity.
        * destruct (x =? NL); cbn [bindP do run]; rewrite ?ex_add_line; cbn [run];
            match goal with |- context [run false (cstyle_loop f) ?S] => rewrite (IH f S Hf' eq_refl) end; reflexivity.
  Qed.

  Lemma class_comment r : lt_class (c_slash :: c_star :: r) c_slash.
  Proof.
    intros s rs _ HOC Hr Hf.
    set (s1 := st_adv (st_start s) c_slash (c_star :: r)).
    set (s2 := st_adv s1 c_star r).
    assert (Hl2 : lines_pos s2) by exact (oc_lines _ _ _ HOC).
    pose proof (st_cs_spec r s2 eq_refl Hl2) as Hspec.
    assert (Hrun : run false (lex_token F msep c_slash) s =
                   let '(s', closed) := st_cs s2 r in
                   if closed then Done tt (st_emit s' CH_COMMENT T_CStyleComment PNone)
                   else Done tt (Core.emit_error (st_emit s' CH_COMMENT T_CStyleComment PNone) E_UnterminatedComment)).
    { open_default (oc_modes _ _ _ HOC) (oc_lines _ _ _ HOC). close_tests.
      replace (peek_next (scrub (st_start s)) =? c_star) with true
        by (unfold peek_next; change (c_rest (s_cur (scrub (st_start s)))) with (c_rest (s_cur s)); rewrite Hr; reflexivity).
      unfold lex_cstyle_comment, assert_dbg, advance_, ret. cbn [bindP do run]. rewrite !ex_assert. cbn [run].
      rewrite (ex_advance (st_start s) c_slash (c_star :: r) Hr). cbn [run]. fold s1.
      rewrite (ex_advance s1 c_star r eq_refl). cbn [run]. fold s2. rewrite run_bindP.
      rewrite (cstyle_loop_spec r F s2 ltac:(cbn [List.length] in Hf; lia) eq_refl).
      destruct (st_cs s2 r) as [s' closed]. destruct closed.
      - reflexivity.
      - unfold emit_token, emit_error. cbn [bindP do run]. rewrite ex_emit. cbn [run]. rewrite ex_emit_error. reflexivity. }
    assert (E : lexeme (c_slash :: c_star :: r) (cur_byte s + bb) rs =
                match find_comment_end r 2 with
                | Some n => ([mkRtok T_CStyleComment CH_COMMENT (cur_byte s + bb) PNone], [], n, rs)
                | None => ([mkRtok T_CStyleComment CH_COMMENT (cur_byte s + bb) PNone],
                           [mkRerr E_UnterminatedComment (cur_byte s + bb + blen (c_slash :: c_star :: r))], len (c_slash :: c_star :: r), rs)
                end).
    { unfold lexeme. close_tests. reflexivity. }
    rewrite E. clear E. rewrite (fce_acc r 2).
    destruct (st_cs s2 r) as [s' closed]. destruct Hspec as (Hfr & Hl' & Hcase).
    destruct (find_comment_end r 0) as [k|]; cbn [option_map].
    - destruct Hcase as (-> & Hrest & Hk).
      split; [lia|]. split; [unfold len in *; cbn [List.length]; lia|].
      exists (st_emit s' CH_COMMENT T_CStyleComment PNone). split; [exact Hrun|].
      refine (step_scan_hidden _ tt s rs s' (2 + k) CH_COMMENT T_CStyleComment PNone eq_refl HOC _ Hl' _ Hrun).
      + rewrite Hfr. reflexivity.
      + rewrite Hrest, Hr. replace (N.to_nat (2 + k)) with (S (S (N.to_nat k))) by lia. reflexivity.
    - destruct Hcase as (-> & Hrest).
      split; [unfold len; cbn [List.length]; lia|]. split; [lia|].
      exists (Core.emit_error (st_emit s' CH_COMMENT T_CStyleComment PNone) E_UnterminatedComment). split; [exact Hrun|].
      assert (Hpos : cur_byte s' + bb = cur_byte s + bb + blen (c_slash :: c_star :: r)).
      { pose proof (InvPos_run _ s tt _ (oc_inv _ _ _ HOC) Hrun) as I'.
        pose proof (cur_byte_rest text _ I') as B1. pose proof (cur_byte_rest text s (oc_inv _ _ _ HOC)) as B2.
        change (cur_byte (Core.emit_error (st_emit s' CH_COMMENT T_CStyleComment PNone) E_UnterminatedComment)) with (cur_byte s') in B1.
        change (c_rest (s_cur (Core.emit_error (st_emit s' CH_COMMENT T_CStyleComment PNone) E_UnterminatedComment))) with (c_rest (s_cur s')) in B1.
        rewrite Hrest in B1. rewrite Hr in B2. cbn [blen] in B1. lia. }
      rewrite <- Hpos.
      refine (step_scan_hidden_err _ tt s rs s' (len (c_slash :: c_star :: r)) CH_COMMENT T_CStyleComment PNone E_UnterminatedComment eq_refl HOC _ Hl' _ Hrun).
      + rewrite Hfr. reflexivity.
      + rewrite Hrest, Hr. unfold len. rewrite Nat2N.id. clear. induction (c_slash :: c_star :: r) as [|x l IH]; [reflexivity|exact IH].
  Qed.
End Classes2.

(** ** From lexeme classes to the whole text *)
Lemma macro_free_skipn k : forall l, macro_free l = true -> macro_free (skipn_N k l) = true.
Proof.
  induction k as [|k IH]; intros l H; [exact H|]. destruct l as [|c r]; [reflexivity|].
  cbn [skipn_N]. apply IH. cbn [macro_free] in H. apply andb_true_iff in H. exact (proj2 H).
Qed.

Lemma skipn_N_length {A} k : forall (l : list A), List.length (skipn_N k l) = (List.length l - k)%nat.
Proof. induction k as [|k IH]; intros [|c r]; cbn [skipn_N List.length]; try lia. rewrite IH. lia. Qed.

Lemma OC_iters text s rs i : OC text s rs -> OC text (s <| s_iters := i |>) rs.
Proof.
  intros [I M C N P V L1 L2 L]. constructor; try assumption.
  eapply InvPos_core; [|exact I]. repeat split.
Qed.

Section Whole.
  Variable text : list char.
  Variable bb : N.
  Variable F : nat.
  Variable msep : bool.
  Variable limit : N.

  (** what a lexeme class has to provide, at the level of the main loop: [k] iterations *)
  Definition lexeme_sim (l : list char) : Prop :=
    forall s rs, OC text s rs -> c_rest (s_cur s) = l -> (List.length l < F)%nat ->
    let '(ts, es, n, rs') := lexeme l (cur_byte s + bb) rs in
    exists (k : nat) s',
      (1 <= k)%nat /\ (N.of_nat k <= 2 * n) /\ (1 <= n) /\ (n <= len l) /\
      OC text s' rs' /\
      c_rest (s_cur s') = skipn_N (N.to_nat n) l /\
      map (tv bb) (w_toks (s_buf s')) = rev (map rv ts) ++ map (tv bb) (w_toks (s_buf s)) /\
      map (ev bb) (s_errs s') = rev (map rve es) ++ map (ev bb) (s_errs s) /\
      s_iters s' = s_iters s + N.of_nat k /\ s_aborted s' = s_aborted s /\
      (s_iters s + N.of_nat k <= limit ->
       forall f last, exists last',
         run false (main_loop F msep limit (k + f) last) s = run false (main_loop F msep limit f last') s').

  (** a class proved at the level of one [lex_token] call gives the one-iteration form *)
  Lemma single_iteration l c r :
    l = c :: r ->
    (forall s rs, OC text s rs -> c_rest (s_cur s) = l -> (List.length l < F)%nat ->
       let '(ts, es, n, rs') := lexeme l (cur_byte s + bb) rs in
       (1 <= n) /\ (n <= len l) /\
       exists s', run false (lex_token F msep c) s = Done tt s' /\ StepOK text bb s ts es n rs' s') ->
    lexeme_sim l.
  Proof.
    intros El H s rs HOC Hr Hf.
    pose proof (OC_iters text s rs (s_iters s + 1) HOC) as HOC1.
    specialize (H (s <| s_iters := s_iters s + 1 |>) rs HOC1 Hr Hf).
    change (cur_byte (s <| s_iters := s_iters s + 1 |>)) with (cur_byte s) in H.
    destruct (lexeme l (cur_byte s + bb) rs) as [[[ts es] n] rs'].
    destruct H as (Hn1 & Hn2 & s' & Hrun & [Ho Hre Ht He Hc]).
    exists 1%nat, s'. split; [lia|]. split; [lia|]. split; [exact Hn1|]. split; [exact Hn2|].
    split; [exact Ho|]. split; [rewrite <- Hr; exact Hre|]. split; [exact Ht|]. split; [exact He|].
    pose proof (f_equal (fun t => fst (fst t)) Hc) as Hi. pose proof (f_equal (fun t => snd (fst t)) Hc) as Ha. cbn in Hi, Ha.
    split; [rewrite Hi; reflexivity|]. split; [exact Ha|].
    intros Hlim f last. eexists.
    apply (main_loop_step F msep limit f last s c s').
    - unfold peek. rewrite Hr, El. reflexivity.
    - apply N.ltb_ge. cbn in Hlim. lia.
    - exact Hrun.
  Qed.

  Hypothesis classes : forall l, l <> [] -> macro_free l = true -> lexeme_sim l.

  Lemma loop_sim : forall m s rs f fr last acc_t acc_e,
    List.length (c_rest (s_cur s)) = m -> OC text s rs -> macro_free (c_rest (s_cur s)) = true ->
    (m < F)%nat -> s_iters s + 2 * N.of_nat m <= limit -> (2 * m < f)%nat -> (m < fr)%nat ->
    map (tv bb) (w_toks (s_buf s)) = map rv acc_t -> map (ev bb) (s_errs s) = map rve acc_e ->
    exists s_end rs_end T E,
      run false (main_loop F msep limit f last) s = Done false s_end /\
      reflex_loop fr (c_rest (s_cur s)) (cur_byte s + bb) rs acc_t acc_e =
        (rev (mkRtok T_EOF CH_DEFAULT (cur_byte s_end + bb) PNone :: T), rev E, rs_end) /\
      OC text s_end rs_end /\ c_rest (s_cur s_end) = [] /\
      map (tv bb) (w_toks (s_buf s_end)) = map rv T /\ map (ev bb) (s_errs s_end) = map rve E /\
      s_aborted s_end = s_aborted s.
  Proof.
    induction m as [m IH] using lt_wf_ind. intros s rs f fr last acc_t acc_e Hm HOC Hmf HF Hlim Hfuel Hfr Ht He.
    destruct (c_rest (s_cur s)) as [|c r] eqn:Hr.
    - (* end of input *)
      destruct f as [|f]; [lia|]. destruct fr as [|fr]; [lia|].
      exists s, rs, acc_t, acc_e. split; [apply main_loop_end; unfold peek; rewrite Hr; reflexivity|].
      split; [reflexivity|]. split; [exact HOC|]. split; [exact Hr|]. split; [exact Ht|]. split; [exact He|reflexivity].
    - pose proof (classes (c :: r) ltac:(discriminate) Hmf s rs HOC Hr ltac:(cbn [List.length] in *; lia)) as Hc.
      destruct fr as [|fr]; [lia|]. cbn [reflex_loop].
      destruct (lexeme (c :: r) (cur_byte s + bb) rs) as [[[ts es] n] rs'].
      destruct Hc as (k & s' & Hk1 & Hk2 & Hn1 & Hn2 & HOC' & Hrest' & Htoks' & Herrs' & Hit' & Hab' & Hloop).
      assert (Hlen : len (c :: r) = N.of_nat m) by (unfold len; rewrite Hm; reflexivity).
      assert (Hk3 : (k <= 2 * m)%nat) by lia.
      destruct (Hloop ltac:(lia) (f - k)%nat last) as (last' & Hstep).
      replace (k + (f - k))%nat with f in Hstep by lia. rewrite Hstep.
      set (m' := List.length (c_rest (s_cur s'))).
      assert (Hm'eq : m' = (m - N.to_nat n)%nat).
      { subst m'. rewrite Hrest', skipn_N_length. rewrite Hm. reflexivity. }
      assert (Hm' : (m' < m)%nat) by lia.
      assert (Hbyte : cur_byte s' + bb = cur_byte s + bb + blen (firstn (N.to_nat n) (c :: r))).
      { pose proof (cur_byte_rest text s (oc_inv _ _ _ HOC)) as B1.
        pose proof (cur_byte_rest text s' (oc_inv _ _ _ HOC')) as B2.
        rewrite Hr in B1. rewrite Hrest' in B2.
        assert (Hsplit : blen (c :: r) = blen (firstn (N.to_nat n) (c :: r)) + blen (skipn_N (N.to_nat n) (c :: r))).
        { clear. generalize (N.to_nat n) as j. intros j. revert j. generalize (c :: r) as l. clear.
          induction l as [|x l IHl]; intros [|j]; cbn [firstn skipn_N blen]; try lia. rewrite (IHl j). lia. }
        lia. }
      destruct (IH m' Hm' s' rs' (f - k)%nat fr last' (rev_append ts acc_t) (rev_append es acc_e) eq_refl HOC')
        as (s_end & rs_end & T & E & Hrun & Hrf & HOCe & Hreste & Hte & Hee & Habe).
      + rewrite Hrest'. apply macro_free_skipn. exact Hmf.
      + lia.
      + rewrite Hit'. lia.
      + lia.
      + lia.
      + rewrite Htoks', Ht. rewrite rev_append_rev, map_app, map_rev. reflexivity.
      + rewrite Herrs', He. rewrite rev_append_rev, map_app, map_rev. reflexivity.
      + exists s_end, rs_end, T, E. split; [exact Hrun|]. split.
        * rewrite <- Hrf. rewrite Hrest', Hbyte. reflexivity.
        * split; [exact HOCe|]. split; [exact Hreste|]. split; [exact Hte|]. split; [exact Hee|]. rewrite Habe. exact Hab'.
  Qed.

  (** the whole run on the text *)
  Definition tv0 (t : tok) := (t_type t, t_chan t, t_byte t, t_payload t).
  Definition ev0 (e : err_info) := (e_kind e, e_byte e).

  Lemma tv0_shift bc t : tv0 (shift_tok bb bc t) = tv bb t.
  Proof. reflexivity. Qed.
  Lemma ev0_shift bc e : ev0 (shift_err bb bc e) = ev bb e.
  Proof. reflexivity. Qed.

  Definition rs0 : rstate := mkRstate false None [] 0.

  Lemma OC_init : text = text -> OC text (init text) rs0.
  Proof.
    intros _. constructor; try reflexivity.
    - apply init_InvPos.
    - exists xH. reflexivity.
  Qed.
End Whole.

Theorem lex_text_is_reflex text bb bc msep :
  (forall l, l <> [] -> macro_free l = true ->
     lexeme_sim text bb (S (List.length text)) msep (8 * (blen text + bb) + 64) l) ->
  macro_free text = true ->
  let r := lex_text (mkCfg false msep) bb bc text in
  let '(T, E, rs) := reflex_loop (S (List.length text)) text bb rs0 [] [] in
  lr_outcome r = None /\ s_aborted (lr_state r) = false /\
  map tv0 (b_toks (lr_buffer r)) = map rv T /\ map ev0 (lr_errors r) = map rve E /\
  b_lit (lr_buffer r) = rev (rs_lit rs).
Proof.
  intros classes Hmf. cbv zeta. unfold lex_text. cbn [dbg Base.msep].
  set (n := List.length text).
  destruct (loop_sim text bb (S n) msep (8 * (blen text + bb) + 64) classes n (init text) rs0
                     (8 * (4 * n) + 64 + 2 + 24)%nat (S n) (blen text + bb, [MDefault]) [] []
                     eq_refl (OC_init text eq_refl) Hmf ltac:(lia)) as (s1 & rs1 & T & E & Hrun & Hrf & HOC1 & Hrest1 & Ht1 & He1 & Hab1).
  - cbn [init s_iters]. assert (N.of_nat n <= blen text); [|lia].
    subst n. clear. induction text as [|c t IH]; [cbn; lia|]. cbn [List.length blen]. pose proof (utf8_len_pos c). lia.
  - lia.
  - lia.
  - reflexivity.
  - reflexivity.
  - change (cur_byte (init text) + bb) with (blen text - blen text + bb) in Hrf.
    replace (blen text - blen text + bb) with bb in Hrf by lia.
    change (c_rest (s_cur (init text))) with text in Hrf. fold n. rewrite Hrf. rewrite Hrun.
    destruct (oc_lines _ _ _ HOC1) as [p Hp].
    destruct (finalize_default_exact (N.to_nat (s_nmodes s1)) s1 p (oc_modes _ _ _ HOC1) Hp) as (s2 & Hfin & Htok2 & Ho2 & Hab2).
    rewrite Hfin. cbn [lr_outcome lr_state lr_buffer lr_errors].
    pose proof (f_equal o2_lit Ho2) as L2. pose proof (f_equal o2_errs Ho2) as E2.
    cbn [observe2 o2_lit o2_errs] in L2, E2.
    split; [reflexivity|]. split; [rewrite Hab2, Hab1; reflexivity|]. split; [|split].
    + rewrite into_detached_toks, map_map. unfold detached_toks. rewrite Htok2. cbn [t_type].
      replace (tt_eqb T_EOF T_EOF) with true by reflexivity.
      rewrite (map_ext _ (tv bb) (fun t => tv0_shift bb bc t)).
      rewrite !map_rev. cbn [map]. rewrite Ht1. reflexivity.
    + rewrite map_map. rewrite (map_ext _ (ev bb) (fun e => ev0_shift bb bc e)).
      rewrite map_rev, E2, He1, <- map_rev. reflexivity.
    + unfold into_detached. cbn [b_lit]. rewrite L2. rewrite (oc_lit _ _ _ HOC1). reflexivity.
Qed.
