(** * Facts about the tables of the lexer (keyword maps, macro_sep predicate, mode pre-loads,
    character classes), proved by computation over the finite generated enumerations. *)
From Coq Require Import NArith List Bool String Lia.
From SasLexer Require Import Gen.TokenType Gen.ErrorKind Gen.Channel Gen.Unicode Model.Base Model.Core
     Model.Helpers Model.Lexer1 Model.Lexer2.
Import ListNotations.
Open Scope N_scope.

(** every token type is in [all_token_types] *)
Lemma all_token_types_complete_b : forall t, existsb (tt_eqb t) all_token_types = true.
Proof. destruct t; vm_compute; reflexivity. Qed.

Lemma all_token_types_complete : forall t, In t all_token_types.
Proof.
  intros t. destruct (proj1 (existsb_exists _ _) (all_token_types_complete_b t)) as (x & Hx & E).
  apply tt_eqb_eq in E. subst. exact Hx.
Qed.

Lemma forall_tt (P : TokenType -> bool) : forallb P all_token_types = true -> forall t, P t = true.
Proof. intros H t. exact (proj1 (forallb_forall _ _) H t (all_token_types_complete t)). Qed.

(** ** needs_macro_sep (C18) *)
Definition sep_prev_forbidden : list TokenType := [T_SEMI; T_MacroLabel; T_KwmThen; T_KwmElse].
Definition is_stat_or_label (t : TokenType) : bool := is_macro_stat_tok_type t || tt_eqb t T_MacroLabel.

Lemma needs_sep_spec_b :
  forallb (fun t => forallb (fun p =>
      implb (needs_macro_sep (Some p) t) (negb (tt_in p sep_prev_forbidden) && is_stat_or_label t))
      all_token_types && negb (needs_macro_sep None t)) all_token_types = true.
Proof. vm_compute. reflexivity. Qed.

Theorem needs_sep_spec : forall prev t, needs_macro_sep prev t = true ->
  (exists p, prev = Some p /\ tt_in p sep_prev_forbidden = false) /\ is_stat_or_label t = true.
Proof.
  intros prev t H.
  pose proof (forall_tt _ needs_sep_spec_b t) as Ht. cbn beta in Ht.
  apply andb_true_iff in Ht. destruct Ht as [Hall Hnone].
  destruct prev as [p|].
  - pose proof (proj1 (forallb_forall _ _) Hall p (all_token_types_complete p)) as Hp.
    cbn beta in Hp. rewrite H in Hp. cbn [implb] in Hp. apply andb_true_iff in Hp. destruct Hp as [H1 H2].
    split; [exists p; split; [reflexivity|apply negb_true_iff; exact H1]|exact H2].
  - rewrite H in Hnone. discriminate.
Qed.

(** ** keyword maps (C06, C16) *)
Definition keys_distinct (m : list (list char * TokenType)) : bool :=
  forallb (fun p => match lookup m (fst p) with Some t => tt_eqb t (snd p) | None => false end) m.

Lemma keywords_lookup : keys_distinct KEYWORDS_C = true.
Proof. vm_compute. reflexivity. Qed.
Lemma mkeywords_lookup : keys_distinct MKEYWORDS_C = true.
Proof. vm_compute. reflexivity. Qed.

Lemma keywords_upper : forallb (fun p => chars_eqb (upper (fst p)) (fst p)) (KEYWORDS_C ++ MKEYWORDS_C) = true.
Proof. vm_compute. reflexivity. Qed.

Lemma keywords_len : forallb (fun p => blen (fst p) <=? MAX_KEYWORDS_LEN) KEYWORDS_C
                     && forallb (fun p => blen (fst p) <=? MAX_MKEYWORDS_LEN) MKEYWORDS_C
                     && existsb (fun p => blen (fst p) =? MAX_KEYWORDS_LEN) KEYWORDS_C
                     && existsb (fun p => blen (fst p) =? MAX_MKEYWORDS_LEN) MKEYWORDS_C = true.
Proof. vm_compute. reflexivity. Qed.

(** keyword types of the two maps: [Kw..] types only in KEYWORDS, inside-subset types only in MKEYWORDS *)
Lemma mkeywords_in_subset :
  forallb (fun p => (tt_to_N SUBSET_START <? tt_to_N (snd p)) && (tt_to_N (snd p) <=? tt_to_N SUBSET_END)) MKEYWORDS_C = true.
Proof. vm_compute. reflexivity. Qed.

(** ** ASCII upper-casing *)
Lemma upper_idem l : upper (upper l) = upper l.
Proof.
  unfold upper. rewrite map_map. apply map_ext. intros c. unfold to_ascii_uppercase, is_ascii_lower.
  destruct ((97 <=? c) && (c <=? 122)) eqn:E; [|rewrite E; reflexivity].
  apply andb_true_iff in E. destruct E as [E1 E2]. apply N.leb_le in E1. apply N.leb_le in E2.
  destruct (N.leb_spec 97 (c - 32)); [lia|reflexivity].
Qed.

(** ** mode pre-loads of the argument-taking built-ins (C10, C14) *)
Definition arg_builtin (t : TokenType) : bool :=
  (tt_to_N T_KwmCmpres <=? tt_to_N t) && (tt_to_N t <=? tt_to_N T_KwmNrStr) && negb (tt_eqb t T_KwmSysmexecdepth).

Definition preload_of (t : TokenType) : option (list mode) :=
  match kw_arm_of t with
  | A_str mask => Some (PRE_str_call mask)
  | A_eval f => Some (PRE_eval_call f)
  | A_scan => Some (PRE_scan_or_substr true)
  | A_substr => Some (PRE_scan_or_substr false)
  | A_builtin_args => Some PRE_builtin_args
  | A_one_arg => Some PRE_builtin_one_arg
  | A_named => Some PRE_builtin_named
  | A_sysfunc => Some PRE_sysfunc
  | _ => None
  end.

Definition kw_channel (t : TokenType) : TokenChannel :=
  if tt_eqb t T_KwmStr || tt_eqb t T_KwmNrStr then CH_HIDDEN else CH_DEFAULT.

(** every argument-taking built-in pre-loads, on top of the stack, "skip whitespace/comments,
    then expect '(' on the keyword's channel", and at the bottom "expect ')' on that channel" *)
Definition preload_ok (t : TokenType) : bool :=
  match preload_of t with
  | Some ms =>
    match rev ms, ms with
    | top :: second :: _, bottom :: _ =>
      mode_eqb top MWsOrCStyleCommentOnly
      && mode_eqb second (MExpectSymbol T_LPAREN (kw_channel t))
      && mode_eqb bottom (MExpectSymbol T_RPAREN (kw_channel t))
    | _, _ => false
    end
  | None => false
  end.

Lemma builtin_preloads_b : forallb (fun t => implb (arg_builtin t) (preload_ok t)) all_token_types = true.
Proof. vm_compute. reflexivity. Qed.

Theorem builtin_preloads : forall t, arg_builtin t = true -> preload_ok t = true.
Proof.
  intros t H. pose proof (forall_tt _ builtin_preloads_b t) as Ht. cbn beta in Ht. rewrite H in Ht. exact Ht.
Qed.

(** every macro keyword type has an arm in dispatch_macro_call_or_stat *)
Lemma every_subset_type_has_arm :
  forallb (fun t => implb ((tt_to_N SUBSET_START <=? tt_to_N t) && (tt_to_N t <=? tt_to_N SUBSET_END))
                          (match kw_arm_of t with A_unknown => false | _ => true end)) all_token_types = true.
Proof. vm_compute. reflexivity. Qed.

(** statements whose grammar ends in ';' pre-load ExpectSemiOrEOF at the bottom *)
Definition stat_preload_bottom_semi : bool :=
  forallb (fun ms => match ms with MExpectSemiOrEOF :: _ => true | _ => false end)
          [PRE_until_while; PRE_let E_InvalidMacroLetVarName; PRE_name_then_opts; PRE_syscall].
Lemma stat_preloads_end_in_semi : stat_preload_bottom_semi = true.
Proof. vm_compute. reflexivity. Qed.

(** ** character classes *)
Lemma ascii_classes :
  forallb (fun c => Bool.eqb (is_xid_continue c) (is_valid_sas_name_continue c)
                    && Bool.eqb (is_xid_start c) (is_ascii_lower c || is_ascii_upper c)
                    && Bool.eqb (is_whitespace c) (((9 <=? c) && (c <=? 13)) || (c =? 32)))
          (map N.of_nat (seq 0 128)) = true.
Proof. vm_compute. reflexivity. Qed.

Lemma special_chars_not_ident :
  forallb (fun c => negb (is_xid_continue c) && negb (is_xid_start c))
          [10; 13; 32; 34; 37; 38; 39; 40; 41; 42; 44; 46; 47; 59; 61] = true.
Proof. vm_compute. reflexivity. Qed.
