(** * In the release profile the loop-detector flag is never touched (every program over the primitives) *)
From Coq Require Import NArith ZArith List Bool Lia.
From RecordUpdate Require Import RecordSet.
From SasLexer Require Import Gen.TokenType Gen.ErrorKind Gen.Channel Model.Base Model.Core Proofs.Generic Proofs.DbgErase.
Import ListNotations RecordSetNotations.
Open Scope N_scope.

Theorem exec_flag_release {A} (o : op A) s b s' :
  exec false o s = Done b s' -> s_loop_detected s' = s_loop_detected s.
Proof.
  intros H.
  destruct o; cbn [exec andb] in *;
    try (unfold add_string_literal, pop_mode, push_mode, emit_error, push_error in H;
         crush_flag H; cbn in *; solve [auto]).
  all: repeat match goal with
              | H : match ?x with _ => _ end = Done _ _ |- _ => destruct x eqn:?; try discriminate
              | H : Done _ _ = Done _ _ |- _ => inversion H; subst; clear H
              end;
       repeat match goal with
              | E : buf_add_line _ _ _ _ = Done _ _ |- _ => apply flag_add_line in E
              | E : last_line_or_add _ _ = Done _ _ |- _ => apply flag_last_line in E
              | E : buf_add_token _ _ _ = Done _ _ |- _ => apply flag_add_token in E
              end;
       cbn in *; rewrite ?flag_note, ?flag_emit_error, ?flag_pop_mode in *; cbn in *; auto; try congruence.
Qed.

Theorem run_flag_release {A} (p : prog A) : forall s a s',
  run false p s = Done a s' -> s_loop_detected s' = s_loop_detected s.
Proof.
  induction p as [x|B o k IH]; intros s a s' H; cbn [run] in H.
  - inversion H; subst. reflexivity.
  - destruct (exec false o s) as [b s1|site s1] eqn:E; [|discriminate].
    rewrite (IH b s1 a s' H). exact (exec_flag_release o s b s1 E).
Qed.
