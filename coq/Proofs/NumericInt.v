(** * Integer readings (C08): positional value of digit strings, decimal and hexadecimal. *)
From Coq Require Import NArith ZArith List Bool Lia.
From SasLexer Require Import Gen.TokenType Gen.ErrorKind Gen.Channel Model.Base Model.Helpers Model.Numeric.
Import ListNotations.
Open Scope N_scope.

(** positional value, most significant digit first: the value written in the source *)
Fixpoint pos_value (base : N) (dv : char -> N) (l : list char) : N :=
  match l with
  | [] => 0
  | c :: r => dv c * base ^ len r + pos_value base dv r
  end.

Lemma len_cons {A} (a : A) l : len (a :: l) = len l + 1.
Proof. unfold len. cbn [List.length]. lia. Qed.

Lemma fold_digits base dv l : forall a,
  fold_left (fun a c => a * base + dv c) l a = a * base ^ len l + pos_value base dv l.
Proof.
  induction l as [|c r IH]; intros a; cbn [fold_left pos_value].
  - change (len (@nil char)) with 0. rewrite N.pow_0_r. lia.
  - rewrite IH, len_cons. rewrite N.pow_add_r, N.pow_1_r. lia.
Qed.

Theorem digits_val_is_positional base dv l : digits_val base dv l = pos_value base dv l.
Proof. unfold digits_val. rewrite fold_digits. lia. Qed.

Lemma pos_value_app base dv p q :
  pos_value base dv (p ++ q) = pos_value base dv p * base ^ len q + pos_value base dv q.
Proof.
  induction p as [|c r IH]; cbn [app pos_value]; [lia|].
  rewrite IH. unfold len. rewrite app_length, Nat2N.inj_add, N.pow_add_r. lia.
Qed.

(** the digit values *)
Lemma digit_val_spec c : is_ascii_digit c = true -> digit_val c < 10 /\ c = 48 + digit_val c.
Proof.
  unfold is_ascii_digit, digit_val. intros H. apply andb_true_iff in H. destruct H as [H1 H2].
  apply N.leb_le in H1. apply N.leb_le in H2. lia.
Qed.

Lemma hexdigit_val_spec c : is_ascii_hexdigit c = true ->
  hexdigit_val c < 16 /\
  ((48 <= c <= 57 /\ hexdigit_val c = c - 48) \/
   (97 <= c <= 102 /\ hexdigit_val c = 10 + (c - 97)) \/
   (65 <= c <= 70 /\ hexdigit_val c = 10 + (c - 65))).
Proof.
  unfold is_ascii_hexdigit, hexdigit_val, is_ascii_digit. intros H.
  destruct (N.leb_spec 48 c), (N.leb_spec c 57), (N.leb_spec 97 c), (N.leb_spec c 102),
           (N.leb_spec 65 c), (N.leb_spec c 70); cbn [andb orb] in *; try discriminate; lia.
Qed.

Lemma pos_value_bound base dv l : 1 <= base ->
  (forall c, In c l -> dv c < base) -> pos_value base dv l < base ^ len l.
Proof.
  intros Hb. induction l as [|c r IH]; intros H; cbn [pos_value].
  - change (len (@nil char)) with 0. rewrite N.pow_0_r. lia.
  - rewrite len_cons, N.pow_add_r, N.pow_1_r.
    assert (dv c < base) by (apply H; left; reflexivity).
    assert (pos_value base dv r < base ^ len r) by (apply IH; intros x Hx; apply H; right; exact Hx).
    nia.
Qed.

Lemma take_while_all (p : char -> bool) l : forall c, In c (take_while p l) -> p c = true.
Proof.
  induction l as [|a r IH]; intros c Hc; cbn [take_while] in Hc; [contradiction|].
  destruct (p a) eqn:E; [|contradiction]. destruct Hc as [<-|Hc]; [exact E|apply IH; exact Hc].
Qed.

Lemma take_drop_while (p : char -> bool) l : l = take_while p l ++ drop_while p l.
Proof.
  induction l as [|a r IH]; [reflexivity|]. cbn [take_while drop_while].
  destruct (p a); [cbn [app]; f_equal; exact IH|reflexivity].
Qed.

Lemma drop_while_head (p : char -> bool) l : match drop_while p l with c :: _ => p c = false | [] => True end.
Proof.
  induction l as [|a r IH]; [exact I|]. cbn [drop_while]. destruct (p a) eqn:E; [exact IH|exact E].
Qed.

(** [try_parse_integer]: the maximal digit prefix, read as a decimal number that fits in 64 bits *)
Theorem try_parse_integer_spec l :
  let ds := take_while is_ascii_digit l in
  match try_parse_integer l with
  | Some r =>
    ds <> [] /\ pos_value 10 digit_val ds <= U64_MAX /\
    r = mkNum T_IntegerLiteral (PInt (pos_value 10 digit_val ds)) (len ds) None
  | None => ds = [] \/ U64_MAX < pos_value 10 digit_val ds
  end.
Proof.
  cbv zeta. unfold try_parse_integer. cbv zeta. rewrite digits_val_is_positional.
  destruct (take_while is_ascii_digit l) as [|d ds] eqn:E; [left; reflexivity|].
  destruct (N.ltb_spec U64_MAX (pos_value 10 digit_val (d :: ds))) as [L|L].
  - right. exact L.
  - split; [discriminate|]. split; [exact L|reflexivity].
Qed.

(** [try_parse_hex_integer]: the maximal hex-digit prefix; an exact integer when it fits *)
Theorem try_parse_hex_integer_spec l :
  let ds := take_while is_ascii_hexdigit l in
  match try_parse_hex_integer l with
  | Some r =>
    ds <> [] /\
    (pos_value 16 hexdigit_val ds <= U64_MAX ->
       r = mkNum T_IntegerLiteral (PInt (pos_value 16 hexdigit_val ds)) (len ds) None) /\
    (U64_MAX < pos_value 16 hexdigit_val ds ->
       n_type r = T_FloatLiteral /\ n_err r = Some E_InvalidNumericLiteral /\ len ds <= n_len r)
  | None => ds = []
  end.
Proof.
  cbv zeta. unfold try_parse_hex_integer. cbv zeta. rewrite digits_val_is_positional.
  destruct (take_while is_ascii_hexdigit l) as [|d ds] eqn:E; [reflexivity|].
  destruct (N.leb_spec (pos_value 16 hexdigit_val (d :: ds)) U64_MAX) as [L|L].
  - split; [discriminate|]. split; [intros _; reflexivity|]. intros C. lia.
  - destruct (drop_while is_ascii_hexdigit l) as [|c r]; [|destruct (c =? c_dot)];
      (split; [discriminate|]; split; [intros C; lia|]; intros _; cbn [n_type n_err n_len]; repeat split; lia).
Qed.

(** digits are in range, so the values are honest positional readings *)
Lemma dec_digits_ok l : forall c, In c (take_while is_ascii_digit l) -> digit_val c < 10.
Proof. intros c H. apply digit_val_spec. eapply take_while_all. exact H. Qed.

Lemma hex_digits_ok l : forall c, In c (take_while is_ascii_hexdigit l) -> hexdigit_val c < 16.
Proof. intros c H. apply hexdigit_val_spec. eapply take_while_all. exact H. Qed.
