(** * The line table (C04), generically.
    [LInv]: as long as the line-protocol monitor [g_lines_ok] is true, the line table equals
    [table first consumed] - the first line start followed by the position after every line
    feed of the consumed text (minus a pending one while [g_line_debt]) - and a live
    checkpoint remembers a prefix of it.  Preserved by every primitive, hence by every
    program.  The monitor itself is what handlers have to respect: call [add_line] right
    after consuming a line feed and before anything looks at the line table. *)
From Coq Require Import NArith ZArith List Bool Lia.
From RecordUpdate Require Import RecordSet.
From SasLexer Require Import Gen.TokenType Gen.ErrorKind Gen.Channel Model.Base Model.Core Model.Buffer Proofs.BufferProofs Proofs.Generic.
Import ListNotations RecordSetNotations.
Open Scope N_scope.

Fixpoint starts_from (b c : N) (p : list char) : list line_info :=
  match p with
  | [] => []
  | x :: r =>
    let b' := b + utf8_len x in
    let c' := c + 1 in
    if x =? NL then mkLine b' c' :: starts_from b' c' r else starts_from b' c' r
  end.

Definition table (first : line_info) (p : list char) : list line_info := first :: starts_from 0 0 p.

Lemma starts_from_app p : forall b c q,
  starts_from b c (p ++ q) = starts_from b c p ++ starts_from (b + blen p) (c + len p) q.
Proof.
  induction p as [|x p IH]; intros b c q; cbn [app starts_from blen].
  - unfold len. cbn [List.length N.of_nat]. rewrite (N.add_0_r b), (N.add_0_r c). reflexivity.
  - rewrite len_cons. rewrite IH.
    replace (b + utf8_len x + blen p) with (b + (utf8_len x + blen p)) by lia.
    replace (c + 1 + len p) with (c + (len p + 1)) by lia.
    destruct (x =? NL); reflexivity.
Qed.

Lemma table_snoc first p x :
  table first (p ++ [x]) =
  table first p ++ (if x =? NL then [mkLine (blen p + utf8_len x) (len p + 1)] else []).
Proof.
  unfold table. rewrite starts_from_app. cbn [starts_from]. rewrite !N.add_0_l.
  destruct (x =? NL); cbn [app]; rewrite ?app_nil_r; reflexivity.
Qed.

Definition no_nl (l : list char) : Prop := Forall (fun c => (c =? NL) = false) l.

Lemma starts_from_no_nl l : no_nl l -> forall b c, starts_from b c l = [].
Proof.
  induction 1 as [|x l Hx Hl IH]; intros b c; cbn [starts_from]; [reflexivity|]. rewrite Hx. apply IH.
Qed.

Lemma table_app_no_nl first p l : no_nl l -> table first (p ++ l) = table first p.
Proof. intros H. unfold table. rewrite starts_from_app, (starts_from_no_nl l H), app_nil_r. reflexivity. Qed.

(** ** What [advance_by] consumes *)
Lemma advance_by_split n : forall cu,
  exists cons, c_rest cu = cons ++ c_rest (advance_by_loop n cu) /\
               (List.length cons <= n)%nat /\
               cons = firstn n (c_rest cu).
Proof.
  induction n as [|n IH]; intros cu; cbn [advance_by_loop].
  - exists []. repeat split; auto.
  - destruct cu as [rest_ rem off prev]. cbn [c_rest]. destruct rest_ as [|x r].
    + exists []. repeat split; auto with arith.
    + destruct (IH (mkCursor r (rem - utf8_len x) (off + 1) x)) as (cons & E & L & F). cbn [c_rest] in *.
      exists (x :: cons). cbn [app List.length firstn]. split; [f_equal; exact E|]. split; [lia|f_equal; exact F].
Qed.

Lemma monitor_advance_by l : forall n,
  has_nl_before_last l n = false ->
  if nth_is_nl l n
  then exists c', firstn n l = c' ++ [NL] /\ no_nl c'
  else no_nl (firstn n l).
Proof.
  induction l as [|x l IH]; intros n H.
  - destruct n as [|[|n]]; cbn; constructor.
  - destruct n as [|[|n]].
    + cbn. constructor.
    + cbn [nth_is_nl firstn]. destruct (x =? NL) eqn:E.
      * exists []. split; [apply N.eqb_eq in E; subst; reflexivity|constructor].
      * constructor; [exact E|constructor].
    + cbn [has_nl_before_last] in H. apply orb_false_iff in H. destruct H as [Hx Hr].
      specialize (IH (S n) Hr).
      change (nth_is_nl (x :: l) (S (S n))) with (nth_is_nl l (S n)).
      change (firstn (S (S n)) (x :: l)) with (x :: firstn (S n) l).
      destruct (nth_is_nl l (S n)).
      * destruct IH as (c' & E & N'). exists (x :: c'). cbn [app]. split; [f_equal; exact E|constructor; assumption].
      * constructor; assumption.
Qed.

(** ** The invariant *)
Definition lines_part (first : line_info) (src : list char) (s : st) : Prop :=
  forall pre, src = pre ++ c_rest (s_cur s) ->
    if g_line_debt (s_ghost s)
    then exists pre', pre = pre' ++ [NL] /\ rev (w_lines (s_buf s)) = table first pre'
    else rev (w_lines (s_buf s)) = table first pre.

Definition cp_part (first : line_info) (src : list char) (s : st) : Prop :=
  match s_cp s with
  | Some k => forall prek, src = prek ++ c_rest (k_cursor k) ->
      k_nlines k <= w_nlines (s_buf s) /\
      firstn (N.to_nat (k_nlines k)) (rev (w_lines (s_buf s))) = table first prek
  | None => True
  end.

Definition LInv (first : line_info) (src : list char) (s : st) : Prop :=
  g_lines_ok (s_ghost s) = true ->
  w_nlines (s_buf s) = len (w_lines (s_buf s)) /\ lines_part first src s /\ cp_part first src s.

Definition res_linv {A} first src (r : res A) : Prop :=
  match r with Done _ s => LInv first src s | Panic _ _ => True end.

(** updates that keep cursor, lines, checkpoint and debt, and do not turn the monitor on *)
Definition lcore_eq (s s' : st) : Prop :=
  s_cur s' = s_cur s /\ w_lines (s_buf s') = w_lines (s_buf s) /\ w_nlines (s_buf s') = w_nlines (s_buf s) /\
  s_cp s' = s_cp s /\ g_line_debt (s_ghost s') = g_line_debt (s_ghost s) /\
  (g_lines_ok (s_ghost s') = true -> g_lines_ok (s_ghost s) = true).

Lemma LInv_core first src s s' : lcore_eq s s' -> LInv first src s -> LInv first src s'.
Proof.
  intros (E1 & E2 & E3 & E4 & E5 & E6) L OK. specialize (L (E6 OK)). destruct L as (L1 & L2 & L3).
  unfold lines_part, cp_part. rewrite E1, E2, E3, E4, E5. auto.
Qed.

Ltac lcore := repeat split; try reflexivity; auto.

Lemma note_ok s : g_lines_ok (s_ghost (note_observe_lines s)) = true ->
  g_lines_ok (s_ghost s) = true /\ g_line_debt (s_ghost s) = false.
Proof. cbn. intros H. apply andb_true_iff in H. destruct H as [H1 H2]. apply negb_true_iff in H2. auto. Qed.

Lemma LInv_note first src s : LInv first src s -> LInv first src (note_observe_lines s).
Proof. apply LInv_core. lcore. intros H. apply (note_ok s H). Qed.

Lemma LInv_emit_error first src s k : LInv first src s -> LInv first src (emit_error s k).
Proof. intros L. unfold emit_error, push_error. eapply LInv_core; [|apply LInv_note; exact L]. lcore. Qed.

Lemma LInv_push_mode first src s m : LInv first src s -> LInv first src (push_mode s m).
Proof. apply LInv_core. lcore. Qed.

Lemma LInv_pop_mode first src s : LInv first src s -> LInv first src (pop_mode s).
Proof.
  intros L. unfold pop_mode. destruct (s_modes s).
  - apply LInv_push_mode, LInv_emit_error, L.
  - revert L. apply LInv_core. lcore.
Qed.

Lemma rev_truncate {A} (l : list A) n k :
  n = len l -> k <= n -> rev (truncate_rev l n k) = firstn (N.to_nat k) (rev l).
Proof.
  intros -> Hk. unfold truncate_rev.
  assert (Hd : forall m (l0 : list A), (m <= List.length l0)%nat -> rev (drop m l0) = firstn (List.length l0 - m) (rev l0)).
  { induction m as [|m IH]; intros l0 Hm.
    - cbn [drop]. rewrite Nat.sub_0_r, <- rev_length, firstn_all. reflexivity.
    - destruct l0 as [|x l0]; [cbn in Hm; lia|]. cbn [drop rev List.length]. rewrite IH by (cbn in Hm; lia).
      rewrite firstn_app. replace (S (List.length l0) - S m - List.length (rev l0))%nat with 0%nat by (rewrite rev_length; lia).
      cbn [firstn]. rewrite app_nil_r. reflexivity. }
  destruct (N.ltb_spec k (len l)).
  - rewrite Hd by (unfold len in *; lia). f_equal. unfold len in *. lia.
  - assert (k = len l) by lia. subst k. unfold len. rewrite Nnat.Nat2N.id, <- rev_length, firstn_all. reflexivity.
Qed.

Lemma table_nonempty first p : table first p <> [].
Proof. discriminate. Qed.

Section Exec.
  Variable first : line_info.
  Variable src : list char.

  Lemma cur_facts s pre :
    InvPos src s -> src = pre ++ c_rest (s_cur s) -> cur_byte s = blen pre /\ cur_char s = len pre.
  Proof.
    intros I E. destruct (ip_cur _ _ I) as (pre' & E' & O & R).
    assert (pre = pre') by (eapply app_inv_tail; rewrite <- E, <- E'; reflexivity). subst pre'.
    unfold cur_byte, cur_char. rewrite (ip_srclen _ _ I), R, O. split; [|reflexivity].
    rewrite E at 1. rewrite blen_app. lia.
  Qed.

  Lemma add_line_linv d s :
    InvPos src s -> LInv first src s ->
    res_linv first src (buf_add_line d (clear_debt s) (cur_byte s) (cur_char s)).
  Proof.
    intros I L. unfold buf_add_line. destruct (d && _); cbn [res_linv]; [exact Logic.I|].
    intros OK. cbn in OK. apply andb_true_iff in OK. destruct OK as [OK D].
    destruct (L OK) as (L1 & L2 & L3). cbn.
    split; [rewrite L1; unfold len; cbn [List.length]; lia|]. split.
    - unfold lines_part in *. cbn. intros pre E. specialize (L2 pre E). rewrite D in L2.
      destruct L2 as (pre' & -> & T). rewrite T, table_snoc. cbn [N.eqb]. 
      destruct (cur_facts s _ I E) as [Hb Hc]. rewrite Hb, Hc, blen_snoc, len_snoc.
      replace (NL =? NL) with true by reflexivity. reflexivity.
    - unfold cp_part in *. cbn. destruct (s_cp s) as [k|]; [|exact Logic.I].
      intros prek Ek. destruct (L3 prek Ek) as [Hk Hf]. split; [lia|].
      rewrite firstn_app. rewrite Hf.
      replace (N.to_nat (k_nlines k) - List.length (rev (w_lines (s_buf s))))%nat with 0%nat
        by (rewrite rev_length; unfold len in L1; lia).
      cbn [firstn]. rewrite app_nil_r. reflexivity.
  Qed.

  Lemma lines_len s : g_lines_ok (s_ghost s) = true -> LInv first src s -> InvPos src s -> w_nlines (s_buf s) <> 0.
  Proof.
    intros OK L I. destruct (L OK) as (L1 & L2 & _).
    destruct (ip_cur _ _ I) as (pre & E & _). specialize (L2 pre E).
    assert (w_lines (s_buf s) <> []).
    { destruct (g_line_debt _); [destruct L2 as (? & _ & T)|rename L2 into T];
        intros Z; rewrite Z in T; cbn in T; discriminate. }
    rewrite L1. unfold len. destruct (w_lines (s_buf s)); [congruence|cbn; lia].
  Qed.

  Lemma last_line_linv d s :
    InvPos src s -> LInv first src s -> res_linv first src (last_line_or_add d (note_observe_lines s)).
  Proof.
    intros I L. unfold last_line_or_add, last_line.
    destruct (w_nlines (s_buf (note_observe_lines s)) =? 0) eqn:Z.
    - unfold buf_add_line. destruct (d && _); [exact Logic.I|]. cbn [res_linv].
      intros OK. cbn in OK. exfalso. apply andb_true_iff in OK. destruct OK as [OK _].
      apply N.eqb_eq in Z. cbn in Z. exact (lines_len s OK L I Z).
    - cbn [res_linv]. apply LInv_note. exact L.
  Qed.

  Lemma add_token_linv d s t : LInv first src s -> res_linv first src (buf_add_token d s t).
  Proof.
    intros L. unfold buf_add_token.
    repeat (match goal with |- res_linv _ _ (if ?c then _ else _) => destruct c end; cbn [res_linv]; try exact Logic.I).
    revert L. apply LInv_core. lcore.
  Qed.

  Theorem exec_LInv d {A} (o : op A) s :
    InvPos src s -> LInv first src s -> res_linv first src (exec d o s).
  Proof.
    intros I L. destruct o; cbn [exec].
    - (* OGet *) exact L.
    - (* OAdvance *)
      destruct (c_rest (s_cur s)) as [|x r] eqn:Er; [exact L|]. cbn [res_linv].
      intros OK. cbn in OK.
      assert (OK0 : g_lines_ok (s_ghost s) = true /\ g_line_debt (s_ghost s) = false).
      { destruct (g_line_debt (s_ghost s)) eqn:D; destruct (x =? NL); cbn in OK; auto; discriminate. }
      destruct OK0 as [OK0 D0]. destruct (L OK0) as (L1 & L2 & L3). cbn.
      split; [exact L1|]. split.
      + unfold lines_part in *. cbn. intros pre' E'.
        assert (E0 : src = (removelast pre') ++ c_rest (s_cur s) /\ pre' = removelast pre' ++ [x]).
        { destruct (ip_cur _ _ I) as (p0 & E0 & _). rewrite Er in E0.
          assert (pre' = p0 ++ [x]).
          { eapply app_inv_tail. rewrite <- E'. rewrite <- app_assoc. exact E0. }
          subst pre'. rewrite removelast_last, Er. split; [exact E0|reflexivity]. }
        destruct E0 as [E0 Ep]. specialize (L2 _ E0). rewrite D0 in L2.
        rewrite D0. destruct (x =? NL) eqn:Ex; cbn.
        * apply N.eqb_eq in Ex. subst x. exists (removelast pre'). split; [exact Ep|exact L2].
        * rewrite Ep, table_snoc, Ex, app_nil_r. rewrite ?D0. exact L2.
      + unfold cp_part in *. cbn. exact L3.
    - (* OAdvanceBy *)
      destruct (d && _); [exact Logic.I|]. cbn [res_linv].
      intros OK. cbn in OK.
      set (k := N.to_nat n) in *.
      destruct (g_line_debt (s_ghost s) && (0 <? n) || has_nl_before_last (c_rest (s_cur s)) k) eqn:Bad.
      { exfalso. destruct (nth_is_nl _ _); cbn in OK; discriminate. }
      apply orb_false_iff in Bad. destruct Bad as [Bd Bn].
      assert (OK0 : g_lines_ok (s_ghost s) = true) by (destruct (nth_is_nl _ _); cbn in OK; exact OK).
      destruct (L OK0) as (L1 & L2 & L3). cbn.
      split; [exact L1|]. split; [|exact L3].
      unfold lines_part in *. cbn. intros pre' E'.
      destruct (advance_by_split k (s_cur s)) as (cons & Ec & _ & Ef).
      destruct (ip_cur _ _ I) as (p0 & E0 & _).
      assert (pre' = p0 ++ cons).
      { eapply app_inv_tail. rewrite <- E', <- app_assoc, <- Ec. exact E0. }
      subst pre'. specialize (L2 _ E0).
      pose proof (monitor_advance_by (c_rest (s_cur s)) k Bn) as M. rewrite <- Ef in M.
      destruct (Nat.eq_dec k 0) as [K0|K0].
      + (* nothing consumed *)
        rewrite K0 in Ef. cbn in Ef. subst cons. rewrite app_nil_r.
        rewrite K0. replace (nth_is_nl (c_rest (s_cur s)) 0) with false by (destruct (c_rest (s_cur s)); reflexivity).
        exact L2.
      + assert (D0 : g_line_debt (s_ghost s) = false).
        { destruct (g_line_debt (s_ghost s)); [|reflexivity]. cbn in Bd.
          destruct (N.ltb_spec 0 n); [discriminate|]. unfold k in K0. lia. }
        rewrite D0 in L2.
        destruct (nth_is_nl (c_rest (s_cur s)) k); cbn.
        * destruct M as (c' & -> & Nn). exists (p0 ++ c'). split; [rewrite app_assoc; reflexivity|].
          rewrite table_app_no_nl by exact Nn. exact L2.
        * rewrite D0. rewrite table_app_no_nl by exact M. exact L2.
    - (* OAddLine *)
      pose proof (add_line_linv d s I L) as H.
      destruct (buf_add_line d (clear_debt s) (cur_byte s) (cur_char s)); exact H.
    - (* OStartToken *)
      pose proof (last_line_linv d s I L) as H.
      destruct (last_line_or_add d (note_observe_lines s)); [|exact Logic.I].
      cbn [res_linv] in *. revert H. apply LInv_core. lcore.
    - (* OMarkIfNone *)
      destruct (s_mark s); [exact L|].
      pose proof (last_line_linv d s I L) as H.
      destruct (last_line_or_add d (note_observe_lines s)); [|exact Logic.I].
      cbn [res_linv] in *. revert H. apply LInv_core. lcore.
    - (* OClearMark *) cbn [res_linv]. revert L. apply LInv_core. lcore.
    - (* OEmitToken *) apply add_token_linv; exact L.
    - (* OEmitTokenAtMark *) destruct (s_mark s) as [[[? ?] ?]|]; [apply add_token_linv; exact L|exact L].
    - (* OUpdateLastToken *)
      destruct (w_toks (s_buf s)); [apply add_token_linv, LInv_emit_error, L|].
      cbn [res_linv]. revert L. apply LInv_core. lcore.
    - (* ORetypeLastDefaultToLabel *)
      match goal with |- res_linv _ _ (match ?g with _ => _ end) => destruct g end; [|exact L].
      cbn [res_linv]. revert L. apply LInv_core. lcore.
    - (* OInsertSepBeforeLastDefault *)
      match goal with |- res_linv _ _ (match ?g with _ => _ end) => destruct g as [[[above lt] below]|] end; [|exact L].
      destruct (needs _ _); [|exact L].
      repeat (match goal with |- res_linv _ _ (if ?c then _ else _) => destruct c end; cbn [res_linv]; try exact Logic.I).
      revert L. apply LInv_core. lcore.
    - (* OAddStringLiteral *) unfold add_string_literal. cbn [res_linv]. revert L. apply LInv_core. lcore.
    - (* OAddStringLiteralFromSrc *)
      unfold add_string_literal.
      match goal with |- res_linv _ _ (if ?c then _ else _) => destruct c; [exact Logic.I|] end.
      match goal with |- context [src_slice ?x ?y ?z] => destruct (src_slice x y z) end; cbn [res_linv].
      + revert L. apply LInv_core. lcore.
      + eapply LInv_core; [|apply (LInv_emit_error _ _ _ E_InternalErrorOutOfBounds L)]. lcore.
    - (* OSrcSlice *) destruct (src_slice s a b); [exact L|apply LInv_emit_error; exact L].
    - (* OPushMode *) apply LInv_push_mode; exact L.
    - (* OPopMode *) apply LInv_pop_mode; exact L.
    - (* OMode *) destruct (s_modes s); [apply LInv_push_mode, LInv_emit_error, L|exact L].
    - (* OEvalPnl *)
      destruct (s_modes s) as [|[] r]; try exact L. destruct increment; [revert L; apply LInv_core; lcore|].
      destruct (d && _); [exact Logic.I|revert L; apply LInv_core; lcore].
    - (* OValuePnlAdd *) destruct (s_modes s) as [|[] r]; try exact L; try exact Logic.I.
    - (* OStrPnlAdd *) destruct (s_modes s) as [|[] r]; try exact L; try exact Logic.I.
    - (* OInsertModes *) destruct (_ <? _); [exact Logic.I|revert L; apply LInv_core; lcore].
    - (* OSetNameFound *)
      destruct (_ <? _); [|apply LInv_emit_error; exact L].
      destruct (update_nth _ _ _); [revert L; apply LInv_core; lcore|apply LInv_emit_error; exact L].
    - (* OPushPending *) revert L; apply LInv_core; lcore.
    - (* OPopPending *) destruct (s_pstat s) as [|? [|? ?]]; exact L.
    - (* OSetPending *)
      destruct (s_pstat s); cbn [res_linv].
      + eapply LInv_core; [|apply (LInv_emit_error _ _ _ E_InternalErrorEmptyPendingStatStack L)]. lcore.
      + revert L; apply LInv_core; lcore.
    - (* OPending *)
      destruct (s_pstat s); [|exact L]. cbn [res_linv].
      eapply LInv_core; [|apply (LInv_emit_error _ _ _ E_InternalErrorEmptyPendingStatStack L)]. lcore.
    - (* OCheckpoint *)
      destruct (d && _); [exact Logic.I|]. cbn [res_linv].
      intros OK. cbn in OK. destruct (note_ok s OK) as [OK0 D0].
      destruct (L OK0) as (L1 & L2 & L3). cbn. split; [exact L1|]. split.
      + unfold lines_part in *. cbn. exact L2.
      + unfold cp_part. cbn. intros prek Ek. split; [lia|].
        specialize (L2 prek Ek). rewrite D0 in L2. rewrite <- L2.
        rewrite L1. unfold len. rewrite Nnat.Nat2N.id, <- rev_length. apply firstn_all.
    - (* OClearCheckpoint *)
      cbn [res_linv]. intros OK. destruct (L OK) as (L1 & L2 & L3). cbn. split; [exact L1|]. split; [exact L2|exact Logic.I].
    - (* ORollback *)
      destruct (s_cp s) as [k|] eqn:Ek; [|apply LInv_emit_error; exact L]. cbn [res_linv].
      intros OK. cbn in OK.
      destruct (L OK) as (L1 & L2 & L3). unfold cp_part in L3. rewrite Ek in L3. cbn.
      split; [|split; [|exact Logic.I]].
      + assert (Hkc' : CursorOK src (k_cursor k)) by (pose proof (ip_cp _ _ I) as X; rewrite Ek in X; exact (proj1 X)).
        destruct Hkc' as (prek & Eprek & _). destruct (L3 prek Eprek) as [Hle _].
        rewrite N.min_r by exact Hle.
        unfold truncate_rev. destruct (N.ltb_spec (k_nlines k) (w_nlines (s_buf s))).
        * unfold len. rewrite L1 in *. unfold len in *.
          assert (Hd : forall m (l : list line_info), (m <= List.length l)%nat -> List.length (drop m l) = (List.length l - m)%nat).
          { induction m as [|m IH]; intros l Hm; [cbn; lia|]. destruct l; [cbn in *; lia|]. cbn [drop List.length]. rewrite IH by (cbn in Hm; lia). lia. }
          rewrite Hd by lia. lia.
        * lia.
      + unfold lines_part. cbn. intros pre E.
        destruct (L3 pre E) as [Hle Hf]. rewrite <- Hf. apply rev_truncate; [exact L1|exact Hle].
    - (* OEmitError *) apply LInv_emit_error; exact L.
    - (* OPrepError *)
      cbn [res_linv]. eapply LInv_core; [|apply LInv_note; exact L]. lcore.
    - (* OEmitPreparedError *)
      destruct (s_perr s); [|exact L]. cbn [res_linv]. revert L. apply LInv_core. lcore.
    - (* OSetMnl *) revert L; apply LInv_core; lcore.
    - (* OAssertDbg *) destruct (d && _); [exact Logic.I|exact L].
    - (* OUnreachable *) exact Logic.I.
    - (* OTick *) destruct (_ <? _); cbn [res_linv]; revert L; apply LInv_core; lcore.
    - (* OLoopDetect *)
      destruct (d && _); cbn [res_linv].
      + eapply LInv_core; [|apply (LInv_emit_error _ _ _ E_InternalErrorInfiniteLoop L)]. lcore.
      + revert L; apply LInv_core; lcore.
    - (* OFinalEOF *)
      pose proof (last_line_linv d s I L) as H.
      destruct (last_line_or_add d (note_observe_lines s)); [|exact Logic.I].
      cbn [res_linv] in H. apply add_token_linv. exact H.
  Qed.

  Theorem run_LInv d {A} (p : prog A) : forall s,
    InvPos src s -> LInv first src s ->
    match run d p s with Done _ s' => LInv first src s' | Panic _ _ => True end.
  Proof.
    induction p as [a|B o k IH]; intros s I L; cbn [run]; [exact L|].
    pose proof (exec_LInv d o s I L) as H. pose proof (exec_InvPos d src o s I) as HI.
    destruct (exec d o s); [apply IH; assumption|exact Logic.I].
  Qed.
End Exec.
