(** * Open code = reference lexer (C11): double-quoted literals (string expressions without macro content) *)
From Coq Require Import NArith ZArith List Bool Lia String.
From RecordUpdate Require Import RecordSet.
From SasLexer Require Import Gen.TokenType Gen.ErrorKind Gen.Channel Gen.Unicode Model.Base Model.Core
     Model.Helpers Model.Numeric Model.Lexer1 Model.Lexer2 Model.Lexer3 Spec.RefLex
     Proofs.Generic Proofs.LexGeneric Proofs.Bom Proofs.SemiProgram Proofs.SemiCompose Proofs.RefLexProofs
     Proofs.HexString Proofs.OcBase Proofs.OcSym Proofs.OcScan Proofs.OcNum Proofs.OcIdent Proofs.OcData Proofs.OcStr Proofs.OcWhole.
Import ListNotations RecordSetNotations.
Open Scope N_scope.

Definition is_amp (c : char) : bool := c =? c_amp.

(** the text scan of a string expression without macro triggers; it stops in front of the closing quote *)
Fixpoint st_dq (m : nat) (X : st) (l ad pend P : list char) (k : N) : qres :=
  match m with
  | O => mkQres false X ad pend P k
  | S m' =>
    match l with
    | [] => mkQres false X ad pend P k
    | x :: r =>
      if x =? c_amp then
        let n := count_while is_amp l in
        st_dq m' (st_adv_by X n) (skipn_N (N.to_nat n) l) ad (pend ++ firstn (N.to_nat n) l) P (k + n)
      else if x =? c_pct then st_dq m' (st_adv X x r) r ad (pend ++ [x]) P (k + 1)
      else if x =? NL then st_dq m' (st_add_line (st_adv X x r)) r ad (pend ++ [x]) P (k + 1)
      else if x =? c_dquote then
        match r with
        | y :: r' =>
          if y =? c_dquote then
            st_dq m' (st_adv (st_addlit (st_adv X x r) (pend ++ [x])) y r') r' (ad ++ pend ++ [x]) [] (P ++ pend ++ [x; y]) (k + 2)
          else mkQres true X ad pend P k
        | [] => mkQres true X ad pend P k
        end
      else st_dq m' (st_adv X x r) r ad (pend ++ [x]) P (k + 1)
    end
  end.

Lemma count_amp_pos r : 1 <= count_while is_amp (c_amp :: r).
Proof. cbn [count_while]. unfold is_amp. rewrite N.eqb_refl. lia. Qed.

Lemma count_while_le (p : char -> bool) l : count_while p l <= len l.
Proof. induction l as [|x l IH]; [cbn; lia|]. cbn [count_while]. rewrite len_cons. destruct (p x); lia. Qed.

Lemma skipn_count_len (p : char -> bool) l : (List.length (skipn_N (N.to_nat (count_while p l)) l) = List.length l - N.to_nat (count_while p l))%nat.
Proof. apply skipn_N_len. Qed.

Lemma dq_k_mono : forall m l X ad pend P k, k <= q_k (st_dq m X l ad pend P k).
Proof.
  induction m as [|m IH]; intros l X ad pend P k; [cbn; lia|]. cbn [st_dq]. destruct l as [|x r]; [cbn; lia|].
  destruct (x =? c_amp); [match goal with |- _ <= q_k (st_dq m ?X' ?l' ?a ?p ?P' ?k') => pose proof (IH l' X' a p P' k') end; lia|].
  destruct (x =? c_pct); [match goal with |- _ <= q_k (st_dq m ?X' ?l' ?a ?p ?P' ?k') => pose proof (IH l' X' a p P' k') end; lia|].
  destruct (x =? NL); [match goal with |- _ <= q_k (st_dq m ?X' ?l' ?a ?p ?P' ?k') => pose proof (IH l' X' a p P' k') end; lia|].
  destruct (x =? c_dquote).
  - destruct r as [|y r']; [cbn; lia|]. destruct (y =? c_dquote); [|cbn; lia].
    match goal with |- _ <= q_k (st_dq m ?X' ?l' ?a ?p ?P' ?k') => pose proof (IH l' X' a p P' k') end. lia.
  - match goal with |- _ <= q_k (st_dq m ?X' ?l' ?a ?p ?P' ?k') => pose proof (IH l' X' a p P' k') end. lia.
Qed.

(** the reference scan over a run of ampersands *)
Lemma scan_amps q : q <> c_amp -> forall a l n val esc, forallb is_amp a = true ->
  scan_quoted q (a ++ l) n val esc = scan_quoted q l (n + len a) (rev a ++ val) esc.
Proof.
  intros Hq. induction a as [|x a IH]; intros l n val esc Ha.
  - cbn [app rev len List.length]. change (N.of_nat 0) with 0. rewrite N.add_0_r. reflexivity.
  - cbn [forallb] in Ha. apply andb_true_iff in Ha. destruct Ha as [Hx Ha]. unfold is_amp in Hx. apply N.eqb_eq in Hx. subst x.
    cbn [app scan_quoted]. destruct (N.eqb_spec c_amp q) as [E|_]; [congruence|].
    rewrite (IH l (n + 1) (c_amp :: val) esc Ha). rewrite len_cons. cbn [rev]. rewrite <- app_assoc. f_equal. lia.
Qed.

Lemma firstn_count_while (p : char -> bool) l : forallb p (firstn (N.to_nat (count_while p l)) l) = true.
Proof.
  induction l as [|x l IH]; [reflexivity|]. cbn [count_while]. destruct (p x) eqn:E; [|reflexivity].
  replace (N.to_nat (1 + count_while p l)) with (S (N.to_nat (count_while p l))) by lia. cbn [firstn forallb]. rewrite E, IH. reflexivity.
Qed.

Lemma firstn_len_count (p : char -> bool) l : len (firstn (N.to_nat (count_while p l)) l) = count_while p l.
Proof.
  induction l as [|x l IH]; [reflexivity|]. cbn [count_while]. destruct (p x); [|reflexivity].
  replace (N.to_nat (1 + count_while p l)) with (S (N.to_nat (count_while p l))) by lia. cbn [firstn]. rewrite len_cons, IH. lia.
Qed.

(** the reference scan agrees with [st_dq] *)
Lemma dq_scan : forall m l X ad pend P k n, (List.length l < m)%nat ->
  scan_quoted c_dquote l n (rev (ad ++ pend)) (negb (is_nil ad)) =
  let R := st_dq m X l ad pend P k in
  (n + (q_k R - k) + (if q_closed R then 1 else 0), q_closed R, q_ad R ++ q_pend R, negb (is_nil (q_ad R))).
Proof.
  induction m as [|m IH]; intros l X ad pend P k n Hl; [lia|].
  destruct l as [|x r].
  { cbn [scan_quoted st_dq q_k q_closed q_ad q_pend]. rewrite rev_involutive. f_equal. f_equal. f_equal. lia. }
  cbn [List.length] in Hl. cbn [st_dq].
  destruct (x =? c_amp) eqn:Ea.
  - apply N.eqb_eq in Ea. subst x. set (nn := count_while is_amp (c_amp :: r)).
    rewrite (firstn_skipn_N (N.to_nat nn) (c_amp :: r)) at 1.
    rewrite (scan_amps c_dquote ltac:(discriminate) _ _ n _ _ (firstn_count_while is_amp (c_amp :: r))).
    unfold nn at 2. rewrite (firstn_len_count is_amp (c_amp :: r)). fold nn.
    replace (rev (firstn (N.to_nat nn) (c_amp :: r)) ++ rev (ad ++ pend)) with (rev (ad ++ (pend ++ firstn (N.to_nat nn) (c_amp :: r))))
      by (rewrite app_assoc, rev_app_distr; reflexivity).
    pose proof (count_amp_pos r) as Hp. fold nn in Hp.
    match goal with |- context [st_dq m ?X' ?l' ?a ?p ?P' ?k'] =>
      rewrite (IH l' X' a p P' k' (n + nn) ltac:(unfold nn; rewrite skipn_N_len; cbn [List.length]; lia));
      pose proof (dq_k_mono m l' X' a p P' k') as Hk end.
    cbv zeta. f_equal. f_equal. f_equal. lia.
  - cbn [scan_quoted].
    assert (Hstep : forall X', (x =? c_dquote) = false ->
              scan_quoted c_dquote r (n + 1) (x :: rev (ad ++ pend)) (negb (is_nil ad)) =
              let R := st_dq m X' r ad (pend ++ [x]) P (k + 1) in
              (n + (q_k R - k) + (if q_closed R then 1 else 0), q_closed R, q_ad R ++ q_pend R, negb (is_nil (q_ad R)))).
    { intros X' _. replace (x :: rev (ad ++ pend)) with (rev (ad ++ (pend ++ [x]))) by (rewrite app_assoc, rev_app_distr; reflexivity).
      rewrite (IH r X' ad (pend ++ [x]) P (k + 1) (n + 1) ltac:(lia)). cbv zeta.
      pose proof (dq_k_mono m r X' ad (pend ++ [x]) P (k + 1)). f_equal. f_equal. f_equal. lia. }
    destruct (x =? c_pct) eqn:Ep.
    { apply N.eqb_eq in Ep. subst x. change (c_pct =? c_dquote) with false. cbv iota. apply Hstep. reflexivity. }
    destruct (x =? NL) eqn:En.
    { apply N.eqb_eq in En. subst x. change (NL =? c_dquote) with false. cbv iota. apply Hstep. reflexivity. }
    destruct (x =? c_dquote) eqn:Eq.
    + destruct r as [|y r'].
      * cbn [q_k q_closed q_ad q_pend]. rewrite rev_involutive. f_equal. f_equal. f_equal. lia.
      * destruct (y =? c_dquote) eqn:Ey.
        -- apply N.eqb_eq in Eq. subst x.
           replace (c_dquote :: rev (ad ++ pend)) with (rev ((ad ++ pend ++ [c_dquote]) ++ [])) by (rewrite app_nil_r, app_assoc, rev_app_distr; reflexivity).
           replace true with (negb (is_nil (ad ++ pend ++ [c_dquote]))) by (destruct ad; [destruct pend|]; reflexivity).
           match goal with |- context [st_dq m ?X' r' ?a ?p ?P' ?k'] =>
             rewrite (IH r' X' a p P' k' (n + 2) ltac:(cbn [List.length] in Hl; lia));
             pose proof (dq_k_mono m r' X' a p P' k') as Hk end.
           cbv zeta. f_equal. f_equal. f_equal. lia.
        -- cbn [q_k q_closed q_ad q_pend]. rewrite rev_involutive. f_equal. f_equal. f_equal. lia.
    + apply Hstep. reflexivity.
Qed.

Lemma adv_by_loop_rem k : forall c, c_rem c = blen (c_rest c) -> c_rem (advance_by_loop k c) = blen (c_rest (advance_by_loop k c)).
Proof.
  induction k as [|k IH]; intros c H; [exact H|]. cbn [advance_by_loop]. destruct (c_rest c) as [|x r] eqn:E; [rewrite E; exact H|].
  apply IH. cbn [c_rem c_rest]. rewrite H. cbn [blen]. lia.
Qed.

Lemma MidQ_adv_by s0 X ad tn en l n : no_nl (firstn (N.to_nat n) l) = true ->
  MidQ s0 X ad tn en l -> MidQ s0 (st_adv_by X n) ad tn en (skipn_N (N.to_nat n) l).
Proof.
  intros Hnl [C L1 L2 T E R M L]. destruct (st_adv_by_spec X n) as (R1 & F1 & N1).
  assert (Hlp : lines_pos (st_adv_by X n)) by (apply lines_pos_adv_by; [exact L|rewrite R; exact Hnl]).
  unfold st_adv_by, exec in *. cbn [andb] in *. constructor; try assumption.
  - cbn [s_cur set]. rewrite advance_by_loop_rest. rewrite R. reflexivity.
  - cbn [s_cur set]. rewrite adv_by_loop_rem; [|rewrite R; exact M]. rewrite advance_by_loop_rest, R. reflexivity.
Qed.

Lemma is_amp_not_nl x : is_amp x = true -> (x =? NL) = false.
Proof. intros H. destruct (N.eqb_spec x NL) as [->|]; [vm_compute in H; discriminate H|reflexivity]. Qed.

Lemma macro_free_tail c r : macro_free (c :: r) = true -> macro_free r = true.
Proof. cbn [macro_free]. intros H. apply andb_true_iff in H. exact (proj2 H). Qed.

Lemma macro_free_skip k : forall l, macro_free l = true -> macro_free (skipn_N k l) = true.
Proof. induction k as [|k IH]; intros [|c r] H; cbn [skipn_N]; try exact H. apply IH. exact (macro_free_tail c r H). Qed.

Lemma amp_run_not_macro r : macro_free (c_amp :: r) = true ->
  is_macro_amp (c_amp :: r) = (false, count_while is_amp (c_amp :: r)).
Proof.
  intros H. pose proof (amp_not_macro r H) as Hf. unfold is_macro_amp in *.
  change (fun c => c =? c_amp) with is_amp in *.
  destruct (drop_while is_amp (c_amp :: r)) as [|x q]; [reflexivity|]. cbn [fst] in Hf. rewrite Hf. reflexivity.
Qed.

Lemma pct_not_macro r : macro_free (c_pct :: r) = true ->
  is_macro_percent (match r with c :: _ => c | [] => EOF_CHAR end) false = false.
Proof.
  cbn [macro_free]. replace (c_pct =? c_pct) with true by reflexivity. intros H. apply andb_true_iff in H. destruct H as [H _].
  unfold is_macro_percent. destruct r as [|x r']; [reflexivity|]. apply negb_true_iff in H. rewrite H. reflexivity.
Qed.

(** ** the text loop of the model runs [st_dq] *)
Definition dq_tail (ls : N) (R : qres) : prog unit :=
  pl <- resolve_string_literal_payload ls (ls + blen (q_ad R)) (blen (q_P R)) None false ;;
  if q_closed R then lex_double_quoted_literal pl else handle_unterminated_str_expr pl.

Lemma dq_run s0 : s_srclen s0 = blen (s_src s0) ->
  forall m l X ad pend P k f lit_end le tn,
  (List.length l < m)%nat -> (List.length l < f)%nat -> macro_free l = true ->
  MidQ s0 X ad tn [] l -> s_src s0 = P ++ pend ++ l ->
  lit_end = w_litlen (s_buf s0) + blen ad -> le = blen P -> last_is_start X = true ->
  let R := st_dq m X l ad pend P k in
  run false (str_expr_text_loop f (w_litlen (s_buf s0)) lit_end le) X = run false (dq_tail (w_litlen (s_buf s0)) R) (q_st R) /\
  MidQ s0 (q_st R) (q_ad R) tn [] (skipn_N (N.to_nat (q_k R - k)) l) /\
  s_src s0 = q_P R ++ q_pend R ++ skipn_N (N.to_nat (q_k R - k)) l /\
  (if q_closed R then exists rest'', skipn_N (N.to_nat (q_k R - k)) l = c_dquote :: rest'' else skipn_N (N.to_nat (q_k R - k)) l = []) /\
  last_is_start (q_st R) = true.
Proof.
  intros Hlen. induction m as [|m IH]; intros l X ad pend P k f lit_end le tn Hm Hf Hmf HM Hsrc Hle Hl Hlis; [lia|].
  destruct f as [|f]; [lia|].
  cbv zeta. cbn [st_dq str_expr_text_loop]. unfold get. cbn [bindP do run]. rewrite ex_get. cbn [run]. rewrite peek_scrub. unfold peek.
  rewrite (mq_rest _ _ _ _ _ _ HM).
  destruct l as [|x r].
  { cbn [q_st q_ad q_P q_closed q_k q_pend]. replace (k - k) with 0 by lia. cbn [N.to_nat skipn_N].
    subst. split; [reflexivity|]. split; [exact HM|]. split; [exact Hsrc|]. split; [reflexivity|exact Hlis]. }
  cbn [List.length] in Hm, Hf.
  assert (Hone : forall X1, MidQ s0 X1 ad tn [] r -> last_is_start X1 = true ->
            run false (str_expr_text_loop f (w_litlen (s_buf s0)) lit_end le) X1 =
              run false (dq_tail (w_litlen (s_buf s0)) (st_dq m X1 r ad (pend ++ [x]) P (k + 1))) (q_st (st_dq m X1 r ad (pend ++ [x]) P (k + 1))) /\
            MidQ s0 (q_st (st_dq m X1 r ad (pend ++ [x]) P (k + 1))) (q_ad (st_dq m X1 r ad (pend ++ [x]) P (k + 1))) tn []
                 (skipn_N (N.to_nat (q_k (st_dq m X1 r ad (pend ++ [x]) P (k + 1)) - k)) (x :: r)) /\
            s_src s0 = q_P (st_dq m X1 r ad (pend ++ [x]) P (k + 1)) ++ q_pend (st_dq m X1 r ad (pend ++ [x]) P (k + 1)) ++
                       skipn_N (N.to_nat (q_k (st_dq m X1 r ad (pend ++ [x]) P (k + 1)) - k)) (x :: r) /\
            (if q_closed (st_dq m X1 r ad (pend ++ [x]) P (k + 1))
             then exists rest'', skipn_N (N.to_nat (q_k (st_dq m X1 r ad (pend ++ [x]) P (k + 1)) - k)) (x :: r) = c_dquote :: rest''
             else skipn_N (N.to_nat (q_k (st_dq m X1 r ad (pend ++ [x]) P (k + 1)) - k)) (x :: r) = []) /\
            last_is_start (q_st (st_dq m X1 r ad (pend ++ [x]) P (k + 1))) = true).
  { intros X1 HM1 Hlis1.
    assert (Hsrc' : s_src s0 = P ++ (pend ++ [x]) ++ r) by (rewrite Hsrc, <- app_assoc; reflexivity).
    destruct (IH r X1 ad (pend ++ [x]) P (k + 1) f lit_end le tn ltac:(lia) ltac:(lia) (macro_free_tail x r Hmf) HM1 Hsrc' Hle Hl Hlis1)
      as (R1 & R2 & R3 & R4 & R5).
    pose proof (dq_k_mono m r X1 ad (pend ++ [x]) P (k + 1)) as Hk.
    set (R := st_dq m X1 r ad (pend ++ [x]) P (k + 1)) in *.
    replace (N.to_nat (q_k R - k)) with (S (N.to_nat (q_k R - (k + 1)))) by lia. cbn [skipn_N].
    split; [exact R1|]. split; [exact R2|]. split; [exact R3|]. split; [exact R4|exact R5]. }
  destruct (x =? c_amp) eqn:Ea.
  - (* a run of ampersands that is not a macro variable reference *)
    apply N.eqb_eq in Ea. subst x.
    change (rest (scrub X)) with (c_rest (s_cur X)). rewrite (mq_rest _ _ _ _ _ _ HM).
    rewrite (amp_run_not_macro r Hmf). cbv iota beta. unfold advance_by. cbn [bindP do run]. rewrite ex_advance_by. cbn [run].
    set (nn := count_while is_amp (c_amp :: r)) in *.
    pose proof (count_amp_pos r) as Hp. fold nn in Hp.
    assert (Hnn : no_nl (firstn (N.to_nat nn) (c_amp :: r)) = true).
    { replace (N.to_nat nn) with (N.to_nat nn + 0)%nat by lia. unfold nn. apply (no_nl_while is_amp is_amp_not_nl). reflexivity. }
    pose proof (MidQ_adv_by _ _ _ _ _ _ nn Hnn HM) as HM1.
    assert (Hsrc' : s_src s0 = P ++ (pend ++ firstn (N.to_nat nn) (c_amp :: r)) ++ skipn_N (N.to_nat nn) (c_amp :: r)).
    { rewrite Hsrc. rewrite <- app_assoc. f_equal. f_equal. apply firstn_skipn_N. }
    assert (Hlis1 : last_is_start (st_adv_by X nn) = true).
    { unfold last_is_start, last_tok_type, last_tok in *. rewrite (mq_toks _ _ _ _ _ _ HM1). rewrite <- (mq_toks _ _ _ _ _ _ HM). exact Hlis. }
    destruct (IH (skipn_N (N.to_nat nn) (c_amp :: r)) (st_adv_by X nn) ad (pend ++ firstn (N.to_nat nn) (c_amp :: r)) P (k + nn) f lit_end le tn
                 ltac:(rewrite skipn_N_len; cbn [List.length]; lia) ltac:(rewrite skipn_N_len; cbn [List.length]; lia)
                 (macro_free_skip _ _ Hmf) HM1 Hsrc' Hle Hl Hlis1) as (R1 & R2 & R3 & R4 & R5).
    pose proof (dq_k_mono m (skipn_N (N.to_nat nn) (c_amp :: r)) (st_adv_by X nn) ad (pend ++ firstn (N.to_nat nn) (c_amp :: r)) P (k + nn)) as Hk.
    set (R := st_dq m (st_adv_by X nn) (skipn_N (N.to_nat nn) (c_amp :: r)) ad (pend ++ firstn (N.to_nat nn) (c_amp :: r)) P (k + nn)) in *.
    assert (Hsk : skipn_N (N.to_nat (q_k R - k)) (c_amp :: r) = skipn_N (N.to_nat (q_k R - (k + nn))) (skipn_N (N.to_nat nn) (c_amp :: r))).
    { rewrite skipn_N_add. f_equal. lia. }
    rewrite Hsk. split; [exact R1|]. split; [exact R2|]. split; [exact R3|]. split; [exact R4|exact R5].
  - destruct (x =? c_pct) eqn:Ep.
    + (* a percent sign that is not a macro trigger *)
      apply N.eqb_eq in Ep. subst x.
      replace (is_macro_percent (peek_next (scrub X)) false) with false.
      2:{ unfold peek_next. change (c_rest (s_cur (scrub X))) with (c_rest (s_cur X)). rewrite (mq_rest _ _ _ _ _ _ HM).
          symmetry. exact (pct_not_macro r Hmf). }
      unfold advance_, ret. cbn [bindP do run]. rewrite (ex_advance X c_pct r (mq_rest _ _ _ _ _ _ HM)). cbn [run bindP do].
      apply Hone; [apply MidQ_adv; [reflexivity|exact HM]|exact Hlis].
    + destruct (x =? NL) eqn:En.
      * unfold advance_, add_line, ret. cbn [bindP do run]. rewrite (ex_advance X x r (mq_rest _ _ _ _ _ _ HM)). cbn [run bindP do]. rewrite ex_add_line. cbn [run].
        apply Hone; [apply MidQ_nl; [exact En|exact HM]|exact Hlis].
      * destruct (x =? c_dquote) eqn:Eq.
        -- apply N.eqb_eq in Eq. subst x. unfold peek_next. change (c_rest (s_cur (scrub X))) with (c_rest (s_cur X)). rewrite (mq_rest _ _ _ _ _ _ HM).
           destruct r as [|y r'].
           ++ change (EOF_CHAR =? c_dquote) with false. cbv iota.
              change (last_is_start (scrub X)) with (last_is_start X). rewrite Hlis.
              cbn [q_st q_ad q_P q_closed q_k q_pend]. replace (k - k) with 0 by lia. cbn [N.to_nat skipn_N].
              subst. split; [reflexivity|]. split; [exact HM|]. split; [exact Hsrc|]. split; [exists []; reflexivity|exact Hlis].
           ++ destruct (y =? c_dquote) eqn:Ey.
              ** (* a doubled quote *)
                 apply N.eqb_eq in Ey. subst y.
                 unfold advance_, ret. cbn [bindP do run]. rewrite (ex_advance X c_dquote (c_dquote :: r') (mq_rest _ _ _ _ _ _ HM)). cbn [run bindP do].
                 pose proof (MidQ_adv _ _ _ _ _ _ _ (eq_refl : (c_dquote =? NL) = false) HM) as HM1. set (X1 := st_adv X c_dquote (c_dquote :: r')) in *.
                 destruct (cfgq_src s0 X1 (mq_cfg _ _ _ _ _ _ HM1)) as [Hs1 _].
                 assert (Hcb1 : cur_byte X1 = blen P + blen (pend ++ [c_dquote])).
                 { rewrite (MidQ_cur_byte _ _ _ _ _ _ HM1). rewrite Hlen, Hsrc. rewrite !blen_app. cbn [blen]. lia. }
                 assert (Hslice : src_slice X1 le (cur_byte X1) = Some (pend ++ [c_dquote])).
                 { rewrite Hcb1, Hl. apply (src_slice_spec X1 P (pend ++ [c_dquote]) (c_dquote :: r')). rewrite Hs1, Hsrc. rewrite <- app_assoc. reflexivity. }
                 rewrite (ex_addlit_src_cur X1 le (pend ++ [c_dquote]) Hslice). cbn [run].
                 pose proof (MidQ_addlit _ _ _ _ _ _ (pend ++ [c_dquote]) HM1) as HM2. set (X2 := st_addlit X1 (pend ++ [c_dquote])) in *.
                 rewrite (ex_advance X2 c_dquote r' (mq_rest _ _ _ _ _ _ HM2)). cbn [run bindP do]. rewrite ex_get. cbn [run].
                 pose proof (MidQ_adv _ _ _ _ _ _ _ (eq_refl : (c_dquote =? NL) = false) HM2) as HM3. set (X3 := st_adv X2 c_dquote r') in *.
                 assert (Hsrc3 : s_src s0 = (P ++ pend ++ [c_dquote; c_dquote]) ++ [] ++ r') by (rewrite Hsrc, <- !app_assoc; reflexivity).
                 assert (Hlis3 : last_is_start X3 = true).
                 { unfold last_is_start, last_tok_type, last_tok in *. rewrite (mq_toks _ _ _ _ _ _ HM3). rewrite <- (mq_toks _ _ _ _ _ _ HM). exact Hlis. }
                 destruct (IH r' X3 (ad ++ pend ++ [c_dquote]) [] (P ++ pend ++ [c_dquote; c_dquote]) (k + 2) f
                              (w_litlen (s_buf X1) + blen (pend ++ [c_dquote])) (cur_byte (scrub X3)) tn
                              ltac:(cbn [List.length] in Hm; lia) ltac:(cbn [List.length] in Hf; lia)
                              (macro_free_tail _ _ (macro_free_tail _ _ Hmf)) HM3 Hsrc3) as (R1 & R2 & R3 & R4 & R5).
                 --- rewrite (mq_litlen _ _ _ _ _ _ HM1). rewrite !blen_app. lia.
                 --- change (cur_byte (scrub X3)) with (cur_byte X3). rewrite (MidQ_cur_byte _ _ _ _ _ _ HM3). rewrite Hlen, Hsrc3. rewrite !blen_app. cbn [blen]. lia.
                 --- exact Hlis3.
                 --- replace (N.min (w_litlen (s_buf s0)) (w_litlen (s_buf X1))) with (w_litlen (s_buf s0))
                       by (rewrite (mq_litlen _ _ _ _ _ _ HM1); lia).
                     pose proof (dq_k_mono m r' X3 (ad ++ pend ++ [c_dquote]) [] (P ++ pend ++ [c_dquote; c_dquote]) (k + 2)) as Hk.
                     set (R := st_dq m X3 r' (ad ++ pend ++ [c_dquote]) [] (P ++ pend ++ [c_dquote; c_dquote]) (k + 2)) in *.
                     replace (N.to_nat (q_k R - k)) with (S (S (N.to_nat (q_k R - (k + 2))))) by lia. cbn [skipn_N].
                     split; [exact R1|]. split; [exact R2|]. split; [exact R3|]. split; [exact R4|exact R5].
              ** (* the closing quote *)
                 change (last_is_start (scrub X)) with (last_is_start X). rewrite Hlis.
                 cbn [q_st q_ad q_P q_closed q_k q_pend]. replace (k - k) with 0 by lia. cbn [N.to_nat skipn_N].
                 subst. split; [reflexivity|]. split; [exact HM|]. split; [exact Hsrc|]. split; [exists (y :: r'); reflexivity|exact Hlis].
        -- unfold advance_, ret. cbn [bindP do run]. rewrite (ex_advance X x r (mq_rest _ _ _ _ _ _ HM)). cbn [run bindP do].
           apply Hone; [apply MidQ_adv; [exact En|exact HM]|exact Hlis].
Qed.


(** ** the second iteration: [dispatch_mode_str_expr] on the first character after the opening quote *)
Lemma run_str_text F X :
  run false (lex_str_expr_text F) X =
  run false (str_expr_text_loop F (w_litlen (s_buf X)) (w_litlen (s_buf X)) (s_ct_byte X)) X.
Proof. unfold lex_str_expr_text, get. cbn [bindP do run]. rewrite ex_get. reflexivity. Qed.

Lemma dq_entry F msep SB ms c' r' P :
  s_modes SB = MStringExpr true :: ms -> lines_pos SB ->
  c_rest (s_cur SB) = c' :: r' -> c_rem (s_cur SB) = blen (c' :: r') ->
  macro_free (c' :: r') = true -> last_is_start SB = true -> (List.length (c' :: r') < F)%nat ->
  s_srclen SB = blen (s_src SB) -> s_src SB = P ++ c' :: r' ->
  let s0 := st_start SB in
  let l := c' :: r' in
  let R := st_dq (S (List.length l)) s0 l [] [] P 0 in
  run false (lex_token F msep c') SB = run false (dq_tail (w_litlen (s_buf s0)) R) (q_st R) /\
  MidQ s0 (q_st R) (q_ad R) [] [] (skipn_N (N.to_nat (q_k R)) l) /\
  s_src s0 = q_P R ++ q_pend R ++ skipn_N (N.to_nat (q_k R)) l /\
  (if q_closed R then exists rest'', skipn_N (N.to_nat (q_k R)) l = c_dquote :: rest'' else skipn_N (N.to_nat (q_k R)) l = []) /\
  last_is_start (q_st R) = true.
Proof.
  intros Hm Hl Hr Hrem Hmf Hlis Hf Hlen Hsrc s0 l R.
  assert (M0 : MidQ s0 s0 [] [] [] l).
  { constructor; try reflexivity.
    - cbn [blen]. rewrite N.add_0_r. reflexivity.
    - exact Hr.
    - exact Hrem.
    - unfold s0. apply lines_pos_start. exact Hl. }
  assert (Hlen0 : s_srclen s0 = blen (s_src s0)) by exact Hlen.
  assert (Hsrc0 : s_src s0 = P ++ [] ++ l) by exact Hsrc.
  assert (Hct : s_ct_byte s0 = blen P).
  { change (s_ct_byte s0) with (cur_byte SB). unfold cur_byte. rewrite Hrem, Hlen, Hsrc, blen_app. fold l. lia. }
  assert (Hlis0 : last_is_start s0 = true) by exact Hlis.
  (* the text loop from the start of the token *)
  pose proof (dq_run s0 Hlen0 (S (List.length l)) l s0 [] [] P 0 F (w_litlen (s_buf s0)) (s_ct_byte s0) []
                ltac:(lia) Hf Hmf M0 Hsrc0 ltac:(cbn [blen]; lia) Hct Hlis0) as Htext.
  cbv zeta in Htext. fold R in Htext. rewrite N.sub_0_r in Htext.
  assert (Hstart : run false (lex_token F msep c') SB =
            run false (if c' =? c_dquote then
                         if peek_next (scrub s0) =? c_dquote then lex_str_expr_text F
                         else if last_is_start (scrub s0) then lex_double_quoted_literal PNone
                         else advance_ ;; t <- expr_end_type ;; emit t ;; Lexer1.pop_mode
                       else if c' =? c_amp then b <- lex_macro_var_expr F ;; when (negb b) (lex_str_expr_text F)
                       else if c' =? c_pct then
                         if is_valid_unicode_sas_name_start (peek_next (scrub s0)) then lex_macro_identifier msep false
                         else advance_ ;; lex_str_expr_text F
                       else lex_str_expr_text F) s0).
  { unfold lex_token. cbn [bindP do run]. rewrite (ex_mode _ (MStringExpr true) ms Hm). cbn [run].
    unfold dispatch_mode_str_expr, assert_dbg, start_token, get. cbn [bindP do run].
    rewrite ex_assert. cbn [run]. rewrite (ex_start_token _ Hl). cbn [run]. rewrite ex_get. cbn [run]. reflexivity. }
  rewrite Hstart. clear Hstart.
  destruct (c' =? c_dquote) eqn:Eq.
  - apply N.eqb_eq in Eq. subst c'. unfold peek_next. change (c_rest (s_cur (scrub s0))) with (c_rest (s_cur SB)). rewrite Hr.
    destruct r' as [|y r''].
    + (* the empty literal at the end of the text *)
      change (EOF_CHAR =? c_dquote) with false. cbv iota. change (last_is_start (scrub s0)) with (last_is_start SB). rewrite Hlis.
      subst R l. cbn [st_dq List.length]. change (c_dquote =? c_amp) with false. change (c_dquote =? c_pct) with false.
      change (c_dquote =? NL) with false. change (c_dquote =? c_dquote) with true. cbv iota.
      cbn [q_st q_ad q_P q_closed q_k q_pend N.to_nat skipn_N].
      split; [|split; [exact M0|split; [exact Hsrc0|split; [exists []; reflexivity|exact Hlis0]]]].
      unfold dq_tail, resolve_string_literal_payload. cbn [q_ad q_closed blen]. rewrite N.add_0_r, N.eqb_refl. reflexivity.
    + destruct (y =? c_dquote) eqn:Ey.
      * rewrite run_str_text. exact Htext.
      * change (last_is_start (scrub s0)) with (last_is_start SB). rewrite Hlis.
        subst R l. cbn [st_dq List.length]. change (c_dquote =? c_amp) with false. change (c_dquote =? c_pct) with false.
        change (c_dquote =? NL) with false. change (c_dquote =? c_dquote) with true. cbv iota. rewrite Ey.
        cbn [q_st q_ad q_P q_closed q_k q_pend N.to_nat skipn_N].
        split; [|split; [exact M0|split; [exact Hsrc0|split; [exists (y :: r''); reflexivity|exact Hlis0]]]].
        unfold dq_tail, resolve_string_literal_payload. cbn [q_ad q_closed blen]. rewrite N.add_0_r, N.eqb_refl. reflexivity.
  - destruct (c' =? c_amp) eqn:Ea.
    + apply N.eqb_eq in Ea. subst c'.
      unfold lex_macro_var_expr, assert_dbg, get. cbn [bindP do run]. rewrite ex_assert. cbn [run]. rewrite ex_get. cbn [run].
      change (rest (scrub s0)) with (c_rest (s_cur SB)). rewrite Hr. rewrite (amp_run_not_macro r' Hmf). cbn [negb]. unfold ret, when. cbn [bindP run negb].
      rewrite run_str_text. exact Htext.
    + destruct (c' =? c_pct) eqn:Ep.
      * apply N.eqb_eq in Ep. subst c'.
        assert (Hnn : is_valid_unicode_sas_name_start (peek_next (scrub s0)) = false).
        { unfold peek_next. change (c_rest (s_cur (scrub s0))) with (c_rest (s_cur SB)). rewrite Hr.
          destruct r' as [|x r'']; [reflexivity|]. cbn [macro_free] in Hmf. replace (c_pct =? c_pct) with true in Hmf by reflexivity.
          apply andb_true_iff in Hmf. destruct Hmf as [Hmf _]. apply negb_true_iff, orb_false_iff in Hmf. exact (proj2 Hmf). }
        rewrite Hnn. unfold advance_, ret. cbn [bindP do run]. rewrite (ex_advance s0 c_pct r' Hr). cbn [run bindP do].
        rewrite run_str_text.
        pose proof (MidQ_adv _ _ _ _ _ _ _ (eq_refl : (c_pct =? NL) = false) M0) as M1.
        assert (Hsrc1 : s_src s0 = P ++ ([] ++ [c_pct]) ++ r') by exact Hsrc.
        pose proof (dq_run s0 Hlen0 (S (List.length r')) r' (st_adv s0 c_pct r') [] ([] ++ [c_pct]) P (0 + 1) F (w_litlen (s_buf s0)) (s_ct_byte s0) []
                      ltac:(lia) ltac:(cbn [List.length] in Hf; lia) (macro_free_tail _ _ Hmf) M1 Hsrc1 ltac:(cbn [blen]; lia) Hct Hlis0) as Ht1.
        cbv zeta in Ht1.
        assert (ER : R = st_dq (S (List.length r')) (st_adv s0 c_pct r') r' [] ([] ++ [c_pct]) P (0 + 1)).
        { subst R l. cbn [List.length]. remember (S (List.length r')) as mm. cbn [st_dq].
          change (c_pct =? c_amp) with false. change (c_pct =? c_pct) with true. reflexivity. }
        rewrite <- ER in Ht1.
        pose proof (dq_k_mono (S (List.length r')) r' (st_adv s0 c_pct r') [] ([] ++ [c_pct]) P (0 + 1)) as Hk. rewrite <- ER in Hk.
        replace (N.to_nat (q_k R)) with (S (N.to_nat (q_k R - (0 + 1)))) by lia. subst l. cbn [skipn_N].
        change (w_litlen (s_buf (st_adv s0 c_pct r'))) with (w_litlen (s_buf s0)).
        change (s_ct_byte (st_adv s0 c_pct r')) with (s_ct_byte s0). exact Ht1.
      * rewrite run_str_text. exact Htext.
Qed.


(** ** the end of the literal *)
Definition st_upd' (Y : st) (t : tok) (ts : list tok) (ch : TokenChannel) (ty : TokenType) (pl : payload) : st :=
  Y <| s_buf := (s_buf Y) <| w_toks := mkTok ch ty (t_byte t) (t_start t) (t_line t) pl :: ts |> |>.

Lemma st_upd_eq Y t ts ch ty pl : w_toks (s_buf Y) = t :: ts -> st_upd Y ch ty pl = st_upd' Y t ts ch ty pl.
Proof. intros H. unfold st_upd, st_upd'. rewrite H. reflexivity. Qed.

Lemma suffix_hex l ty extra : suffix_model l = (ty, extra) -> tt_eqb ty T_HexStringLiteral = true ->
  exists x r, l = x :: r /\ is_cc 120 88 x = true /\ extra = 1.
Proof.
  intros Esuf Eh. unfold suffix_model in Esuf. destruct l as [|x r]; [inversion Esuf; subst; discriminate|].
  exists x, r. split; [reflexivity|].
  destruct (is_cc 98 66 x); [inversion Esuf; subst; discriminate|].
  destruct (is_cc 100 68 x); [destruct (is_cc 116 84 _); inversion Esuf; subst; discriminate|].
  destruct (is_cc 110 78 x); [inversion Esuf; subst; discriminate|].
  destruct (is_cc 116 84 x); [inversion Esuf; subst; discriminate|].
  destruct (is_cc 120 88 x); [inversion Esuf; subst; auto|inversion Esuf; subst; discriminate].
Qed.

Lemma hex_ok_no_dquote body x v : is_cc 120 88 x = true ->
  parse_sas_hex_string (c_dquote :: body ++ [c_dquote; x]) = inl v -> ~ In c_dquote body.
Proof.
  intros Hx H Hin.
  assert (Ax : is_ascii x = true).
  { unfold is_cc in Hx. apply orb_true_iff in Hx. destruct Hx as [E|E]; apply N.eqb_eq in E; subst x; reflexivity. }
  pose proof (HexString.parse_sas_hex_string_spec c_dquote body c_dquote x eq_refl eq_refl Ax) as Hs. cbv zeta in Hs.
  pose proof (eq_trans (eq_sym Hs) H) as H2. clear H Hs. rename H2 into H.
  destruct (forallb is_ascii_hexdigit (filter (fun c => negb (c =? c_comma)) body)) eqn:Ef; [|discriminate].
  rewrite forallb_forall in Ef. specialize (Ef c_dquote).
  assert (Hf : In c_dquote (filter (fun c => negb (c =? c_comma)) body)) by (apply filter_In; split; [exact Hin|reflexivity]).
  specialize (Ef Hf). discriminate.
Qed.

Lemma MidQ_emit_error s0 X ad tn en rr k : MidQ s0 X ad tn en rr -> MidQ s0 (Core.emit_error X k) ad tn (prep_error X k :: en) rr.
Proof.
  intros [C L1 L2 T E R M L]. constructor; try assumption.
  - change (s_errs (Core.emit_error X k)) with (prep_error X k :: s_errs X). rewrite E. reflexivity.
  - apply lines_pos_error. exact L.
Qed.

Lemma lines_pos_upd' X t0 ts0 ch ty pl : lines_pos X -> lines_pos (st_upd' X t0 ts0 ch ty pl).
Proof. exact (fun H => H). Qed.

Section DqTail.
  Variable bb : N.

  (** no closing quote: the start token becomes an unterminated string literal *)
  Lemma dq_tail_open s0 R ms t0 ts0 :
    s_srclen s0 = blen (s_src s0) -> q_closed R = false ->
    MidQ s0 (q_st R) (q_ad R) [] [] [] ->
    s_src s0 = q_P R ++ q_pend R ++ [] ->
    w_toks (s_buf s0) = t0 :: ts0 -> t_type t0 = T_StringExprStart ->
    s_modes s0 = MStringExpr true :: ms ->
    let ls := w_litlen (s_buf s0) in
    let val := q_ad R ++ q_pend R in
    let Y := if is_nil (q_ad R) then q_st R else st_addlit (q_st R) (q_pend R) in
    let pl := if is_nil (q_ad R) then PNone else PStr ls (ls + blen val) in
    run false (dq_tail ls R) (q_st R) =
      Done tt (st_pop (Core.emit_error (st_upd' Y t0 ts0 CH_DEFAULT T_StringLiteral pl) E_UnterminatedStringLiteral) ms) /\
    MidQ s0 Y (if is_nil (q_ad R) then [] else val) [] [] [].
  Proof.
    intros Hlen Ecl MR Hsrc Ht0 Hty Hm ls val Y pl.
    assert (Hte : cur_byte (q_st R) = blen (q_P R) + blen (q_pend R)).
    { rewrite (MidQ_cur_byte _ _ _ _ _ _ MR). cbn [blen]. rewrite Hlen, Hsrc, !blen_app. cbn [blen]. lia. }
    pose proof (run_resolve_payload s0 (q_st R) (q_ad R) [] [] [] (q_P R) (q_pend R) [] None Hlen MR Hsrc Hte) as Hres. fold ls in Hres.
    assert (MY : MidQ s0 Y (if is_nil (q_ad R) then [] else val) [] [] []).
    { subst Y val. destruct (q_ad R) as [|a0 ad'] eqn:Ead; cbn [is_nil]; [exact MR|]. apply MidQ_addlit. exact MR. }
    split; [|exact MY].
    assert (HtY : w_toks (s_buf Y) = t0 :: ts0) by (rewrite (mq_toks _ _ _ _ _ _ MY); exact Ht0).
    assert (HmY : s_modes Y = MStringExpr true :: ms).
    { destruct (cfgq_fields _ _ (mq_cfg _ _ _ _ _ _ MY)) as (C1 & _). rewrite C1. exact Hm. }
    assert (Hhandle : run false (handle_unterminated_str_expr pl) Y =
              Done tt (st_pop (Core.emit_error (st_upd' Y t0 ts0 CH_DEFAULT T_StringLiteral pl) E_UnterminatedStringLiteral) ms)).
    { unfold handle_unterminated_str_expr, assert_dbg, get, emit_error, Lexer1.pop_mode. cbn [bindP do run]. rewrite ex_assert. cbn [run].
      rewrite ex_get. cbn [run].
      replace (last_is_start (scrub Y)) with true
        by (unfold last_is_start, last_tok_type, last_tok; change (s_buf (scrub Y)) with (s_buf Y); rewrite HtY; cbn [hd_error option_map]; rewrite Hty; reflexivity).
      cbn [bindP do run]. rewrite (ex_upd Y _ _ _ _ _ HtY), (st_upd_eq Y _ _ _ _ _ HtY). cbn [run]. rewrite ex_emit_error. cbn [run].
      rewrite ex_pop_mode. rewrite (pop_mode_cons (Core.emit_error (st_upd' Y t0 ts0 CH_DEFAULT T_StringLiteral pl) E_UnterminatedStringLiteral) (MStringExpr true) ms HmY). reflexivity. }
    unfold dq_tail. rewrite Ecl. rewrite run_bindP, Hres.
    subst Y pl val. destruct (is_nil (q_ad R)); exact Hhandle.
  Qed.

  (** a closing quote: suffix, optional hex decoding, the start token becomes the literal *)
  Lemma dq_tail_closed s0 R rest'' pre W ms t0 ts0 :
    s_srclen s0 = blen (s_src s0) -> q_closed R = true ->
    MidQ s0 (q_st R) (q_ad R) [] [] (c_dquote :: rest'') ->
    s_src s0 = q_P R ++ q_pend R ++ c_dquote :: rest'' ->
    q_P R ++ q_pend R = pre ++ c_dquote :: W -> s_ct_byte s0 = blen pre + 1 ->
    (q_ad R = [] \/ In c_dquote W) ->
    w_toks (s_buf s0) = t0 :: ts0 -> s_modes s0 = MStringExpr true :: ms ->
    let ls := w_litlen (s_buf s0) in
    let val := q_ad R ++ q_pend R in
    let ty := fst (suffix_model rest'') in
    let extra := snd (suffix_model rest'') in
    let tokt := c_dquote :: W ++ c_dquote :: firstn (N.to_nat extra) rest'' in
    let plain := if is_nil (q_ad R) then ([], PNone) else (val, PStr ls (ls + blen val)) in
    let res :=
       if tt_eqb ty T_HexStringLiteral then
         match parse_sas_hex_string tokt with
         | inl v => (v, PStr ls (ls + blen v), [])
         | inr e => (fst plain, snd plain, [e])
         end
       else (fst plain, snd plain, []) in
    exists Y en,
      run false (dq_tail ls R) (q_st R) = Done tt (st_pop (st_upd' Y t0 ts0 CH_DEFAULT ty (snd (fst res))) ms) /\
      MidQ s0 Y (fst (fst res)) [] en (skipn_N (N.to_nat extra) rest'') /\
      map (ev bb) en = map (fun k => (k, cur_byte Y + bb)) (snd res).
  Proof.
    intros Hlen Ecl MR Hsrc Hpre Hct Hesc Ht0 Hm ls val ty extra tokt plain res.
    assert (Hte : cur_byte (q_st R) = blen (q_P R) + blen (q_pend R)).
    { rewrite (MidQ_cur_byte _ _ _ _ _ _ MR). rewrite Hlen, Hsrc, !blen_app. lia. }
    pose proof (run_resolve_payload s0 (q_st R) (q_ad R) [] [] _ (q_P R) (q_pend R) (c_dquote :: rest'') None Hlen MR Hsrc Hte) as Hres.
    fold ls in Hres.
    (* the state and the payload after [resolve_string_literal_payload] *)
    set (XP := if is_nil (q_ad R) then q_st R else st_addlit (q_st R) (q_pend R)).
    assert (MP : MidQ s0 XP (fst plain) [] [] (c_dquote :: rest'')).
    { subst XP plain val. destruct (q_ad R) as [|a0 ad'] eqn:Ead; cbn [is_nil fst]; [exact MR|]. apply MidQ_addlit. exact MR. }
    assert (Hrun0 : run false (dq_tail ls R) (q_st R) = run false (lex_double_quoted_literal (snd plain)) XP).
    { unfold dq_tail. rewrite Ecl. rewrite run_bindP, Hres. subst XP plain. destruct (is_nil (q_ad R)); reflexivity. }
    assert (Hnil : q_ad R = [] -> fst plain = []) by (intros E; subst plain; rewrite E; reflexivity).
    clearbody XP plain. clear Hres.
    rewrite Hrun0. clear Hrun0.
    pose proof (MidQ_adv _ _ _ _ _ _ _ (eq_refl : (c_dquote =? NL) = false) MP) as MQ. set (XQ := st_adv XP c_dquote rest'') in *.
    pose proof (MidQ_suffix _ _ _ _ _ _ MQ) as ME. fold extra in ME.
    pose proof (run_ending XQ rest'' (mq_rest _ _ _ _ _ _ MQ)) as Hend. fold ty in Hend.
    set (Xe := st_suffix XQ rest'') in *.
    destruct (cfgq_fields _ _ (mq_cfg _ _ _ _ _ _ ME)) as (C1 & _ & _ & _ & _ & C6).
    assert (Hhead : forall (k : prog payload),
              run false (lex_double_quoted_literal (snd plain)) XP =
              run false (pl' <- (if tt_eqb ty T_HexStringLiteral then
                                   s <- get ;;
                                   textc <- do (OSrcSlice (s_ct_byte s - 1) (cur_byte s)) ;;
                                   match parse_sas_hex_string textc with
                                   | inl v => '(a, b) <- do (OAddStringLiteral v) ;; ret (PStr a b)
                                   | inr e => emit_error e ;; ret (snd plain)
                                   end
                                 else ret (snd plain)) ;;
                         do (OUpdateLastToken CH_DEFAULT ty pl') ;; Lexer1.pop_mode) Xe).
    { intros _. unfold lex_double_quoted_literal, assert_dbg, advance_, ret. cbn [bindP do run]. rewrite ex_assert. cbn [run].
      rewrite (ex_advance XP c_dquote rest'' (mq_rest _ _ _ _ _ _ MP)). cbn [run bindP do]. fold XQ.
      rewrite run_bindP. rewrite Hend. reflexivity. }
    rewrite (Hhead (ret PNone)). clear Hhead.
    (* the common end: replace the start token, leave the mode *)
    assert (Hfin : forall Y pl ad en rr, MidQ s0 Y ad [] en rr ->
              run false (do (OUpdateLastToken CH_DEFAULT ty pl) ;; Lexer1.pop_mode) Y = Done tt (st_pop (st_upd' Y t0 ts0 CH_DEFAULT ty pl) ms)).
    { intros Y pl ad en rr MY.
      assert (HtY : w_toks (s_buf Y) = t0 :: ts0) by (rewrite (mq_toks _ _ _ _ _ _ MY); exact Ht0).
      assert (HmY : s_modes Y = MStringExpr true :: ms).
      { destruct (cfgq_fields _ _ (mq_cfg _ _ _ _ _ _ MY)) as (D1 & _). rewrite D1. exact Hm. }
      unfold Lexer1.pop_mode. cbn [bindP do run]. rewrite (ex_upd Y _ _ _ _ _ HtY), (st_upd_eq Y _ _ _ _ _ HtY). cbn [run].
      rewrite ex_pop_mode. rewrite (pop_mode_cons (st_upd' Y t0 ts0 CH_DEFAULT ty pl) (MStringExpr true) ms HmY). reflexivity. }
    destruct (tt_eqb ty T_HexStringLiteral) eqn:Ehex.
    - (* x suffix *)
      destruct (suffix_hex rest'' ty extra ltac:(subst ty extra; destruct (suffix_model rest''); reflexivity) Ehex) as (x & r3 & Er3 & Hxx & Eex).
      assert (Htokt : tokt = c_dquote :: W ++ [c_dquote; x]).
      { subst tokt. rewrite Eex, Er3. reflexivity. }
      assert (Hsrc_e : s_src Xe = pre ++ tokt ++ skipn_N (N.to_nat extra) rest'').
      { destruct (cfgq_src s0 Xe (mq_cfg _ _ _ _ _ _ ME)) as [Hs _]. rewrite Hs, Hsrc.
        rewrite app_assoc, Hpre. subst tokt. rewrite <- !app_assoc. cbn [app]. f_equal. f_equal. rewrite <- app_assoc. cbn [app]. f_equal. f_equal.
        apply firstn_skipn_N. }
      assert (Hcbe : cur_byte Xe = blen pre + blen tokt).
      { rewrite (MidQ_cur_byte _ _ _ _ _ _ ME). destruct (cfgq_src s0 Xe (mq_cfg _ _ _ _ _ _ ME)) as [Hs Hsl].
        rewrite Hlen, <- Hs, Hsrc_e, !blen_app. lia. }
      assert (Hsl : src_slice Xe (s_ct_byte (scrub Xe) - 1) (cur_byte (scrub Xe)) = Some tokt).
      { change (s_ct_byte (scrub Xe)) with (s_ct_byte Xe). change (cur_byte (scrub Xe)) with (cur_byte Xe).
        rewrite C6, Hct, Hcbe. replace (blen pre + 1 - 1) with (blen pre) by lia.
        apply (src_slice_spec Xe pre tokt _ Hsrc_e). }
      rewrite run_bindP. unfold get at 1. rewrite run_bindP. cbn [do run]. rewrite ex_get. cbn [run].
      rewrite run_bindP. cbn [do run]. rewrite (ex_src_slice Xe _ _ _ Hsl). cbn [run].
      subst res. cbv zeta.
      destruct (parse_sas_hex_string tokt) as [v|e] eqn:Ep.
      + (* decoded: there was no doubled quote *)
        assert (Hnoesc : fst plain = []).
        { apply Hnil. destruct Hesc as [E|Hin]; [exact E|exfalso]. rewrite Htokt in Ep. exact (hex_ok_no_dquote W x v Hxx Ep Hin). }
        cbn [fst snd]. rewrite Hnoesc in ME.
        pose proof (MidQ_addlit _ _ _ _ _ _ v ME) as ME2. cbn [app] in ME2.
        assert (Hlite : w_litlen (s_buf Xe) = ls) by (rewrite (mq_litlen _ _ _ _ _ _ ME); cbn [blen]; lia).
        exists (st_addlit Xe v), []. split; [|split; [exact ME2|reflexivity]].
        cbn [bindP do run]. rewrite ex_addlit. unfold ret. cbn [run bindP]. rewrite Hlite.
        exact (Hfin _ _ _ _ _ ME2).
      + (* not hexadecimal *)
        cbn [fst snd]. pose proof (MidQ_emit_error _ _ _ _ _ _ e ME) as ME2.
        exists (Core.emit_error Xe e), [prep_error Xe e]. split; [|split; [exact ME2|reflexivity]].
        unfold emit_error, ret. cbn [bindP do run]. rewrite ex_emit_error. cbn [run].
        exact (Hfin _ _ _ _ _ ME2).
    - subst res. cbv zeta. cbn [fst snd]. exists Xe, []. split; [|split; [exact ME|reflexivity]].
      unfold ret at 1. cbn [bindP]. exact (Hfin _ _ _ _ _ ME).
  Qed.
End DqTail.


(** the scanned prefix only grows, and an escape leaves a quote in it *)
Lemma dq_P : forall m l X ad pend P k,
  exists W, q_P (st_dq m X l ad pend P k) = P ++ W /\ (q_ad (st_dq m X l ad pend P k) = ad \/ In c_dquote W).
Proof.
  induction m as [|m IH]; intros l X ad pend P k; [exists []; cbn; rewrite app_nil_r; auto|].
  destruct l as [|x r]; [exists []; cbn; rewrite app_nil_r; auto|]. cbn [st_dq].
  destruct (x =? c_amp); [apply IH|].
  destruct (x =? c_pct); [apply IH|].
  destruct (x =? NL); [apply IH|].
  destruct (x =? c_dquote) eqn:Ex; [|apply IH].
  destruct r as [|y r']; [exists []; cbn; rewrite app_nil_r; auto|].
  destruct (y =? c_dquote) eqn:Ey; [|exists []; cbn; rewrite app_nil_r; auto].
  match goal with |- context [st_dq m ?X' r' ?a ?p ?P' ?k'] => destruct (IH r' X' a p P' k') as (W & HW & _) end.
  exists ((pend ++ [x; y]) ++ W). split; [rewrite HW, <- app_assoc; reflexivity|].
  right. apply N.eqb_eq in Ex. subst x. apply in_or_app. left. apply in_or_app. right. left. reflexivity.
Qed.

Section DqClass.
  Variable text : list char.
  Variable bb : N.
  Variable F : nat.
  Variable msep : bool.
  Variable limit : N.

  Lemma lexeme_dquote r pos rs :
    lexeme (c_dquote :: r) pos rs =
    let l := c_dquote :: r in
    let adv (n : N) : N := pos + blen (firstn (N.to_nat n) l) in
    let set p ty (s : rstate) := mkRstate p (Some ty) (rs_lit s) (rs_litlen s) in
    let '(n, closed, val, esc) := scan_quoted c_dquote r 1 [] false in
    if negb closed then
      let '(st', pl) := if esc then push_lit rs val else (rs, PNone) in
      ([mkRtok T_StringLiteral CH_DEFAULT pos pl], [mkRerr E_UnterminatedStringLiteral (adv n)], n, set true T_StringLiteral st')
    else
      let after := skipn_N (N.to_nat n) l in
      let '(ty, extra) := suffix_of after in
      let total := n + extra in
      let hexv := if tt_eqb ty T_HexStringLiteral
                  then match parse_sas_hex_string (firstn (N.to_nat total) l) with inl v => Some (inl v) | inr e => Some (inr e) end
                  else None in
      let '(st', pl, errs) :=
          match hexv with
          | Some (inl v) => let '(s', p) := push_lit rs v in (s', p, [])
          | Some (inr e) => let '(s', p) := if esc then push_lit rs val else (rs, PNone) in (s', p, [mkRerr e (adv total)])
          | None => let '(s', p) := if esc then push_lit rs val else (rs, PNone) in (s', p, [])
          end in
      ([mkRtok ty CH_DEFAULT pos pl], errs, total, set true ty st').
  Proof. unfold lexeme. close_tests. reflexivity. Qed.

  (** the state in which the start token has become the literal and the mode has been left *)
  Lemma dq_close s rs s0 Y added en rr Z ty pl t0 :
    OC text s rs ->
    w_toks (s_buf s0) = t0 :: w_toks (s_buf s) -> t_byte t0 = cur_byte s ->
    w_lit (s_buf s0) = w_lit (s_buf s) -> w_litlen (s_buf s0) = w_litlen (s_buf s) ->
    s_cp s0 = None -> s_mnl s0 = 0 -> s_pstat s0 = [true] ->
    MidQ s0 Y added [] en rr ->
    InvPos text Z -> lines_pos Z ->
    s_buf Z = s_buf (st_upd' Y t0 (w_toks (s_buf s)) CH_DEFAULT ty pl) ->
    s_cur Z = s_cur Y -> s_modes Z = [MDefault] ->
    s_cp Z = s_cp Y -> s_mnl Z = s_mnl Y -> s_pstat Z = s_pstat Y ->
    OC text Z (mkRstate true (Some ty) (rev_append (utf8_encode_all added) (rs_lit rs)) (rs_litlen rs + blen added)) /\
    c_rest (s_cur Z) = rr /\
    map (tv bb) (w_toks (s_buf Z)) = (ty, CH_DEFAULT, cur_byte s + bb, pl) :: map (tv bb) (w_toks (s_buf s)).
  Proof.
    intros HOC Ht0 Hb0 Hlit0 Hll0 Hcp0 Hmnl0 Hps0 MY IZ LZ Zbuf Zcur Zmodes Zcp Zmnl Zps.
    destruct (cfgq_fields _ _ (mq_cfg _ _ _ _ _ _ MY)) as (C1 & C2 & C3 & C4 & C5 & C6).
    split; [|split].
    - constructor.
      + exact IZ.
      + exact Zmodes.
      + rewrite Zcp, C2. exact Hcp0.
      + rewrite Zmnl, C3. exact Hmnl0.
      + rewrite Zps, C4. exact Hps0.
      + unfold last_default_type, last_default_tok. rewrite Zbuf. reflexivity.
      + rewrite Zbuf. change (w_lit (s_buf Y) = rev_append (utf8_encode_all added) (rs_lit rs)).
        rewrite (mq_lit _ _ _ _ _ _ MY), Hlit0, (oc_lit _ _ _ HOC). apply utf8_push_spec.
      + rewrite Zbuf. change (w_litlen (s_buf Y) = rs_litlen rs + blen added).
        rewrite (mq_litlen _ _ _ _ _ _ MY), Hll0, (oc_litlen _ _ _ HOC). reflexivity.
      + exact LZ.
    - rewrite Zcur. exact (mq_rest _ _ _ _ _ _ MY).
    - rewrite Zbuf. cbn [st_upd' s_buf w_toks set map tv t_type t_chan t_byte t_payload]. rewrite Hb0. reflexivity.
  Qed.

  Lemma InvPos_iters s i : InvPos text s -> InvPos text (s <| s_iters := i |>).
  Proof. apply InvPos_core. repeat split. Qed.

  Lemma dquote_setup s rs c' r' :
    OC text s rs -> c_rest (s_cur s) = c_dquote :: c' :: r' -> (List.length (c_dquote :: c' :: r') < F)%nat ->
    macro_free (c' :: r') = true ->
    let si := s <| s_iters := s_iters s + 1 |> in
    let SA := st_dqstart si (c' :: r') in
    let SB := SA <| s_iters := s_iters SA + 1 |> in
    let t0 := mkTok CH_DEFAULT T_StringExprStart (cur_byte s) (cur_char s) (w_nlines (s_buf s) - 1) PNone in
    exists pre s0 R,
      text = pre ++ c_dquote :: c' :: r' /\ cur_byte s = blen pre /\
      run false (lex_token F msep c_dquote) si = Done tt SA /\
      InvPos text SB /\ peek SA = Some c' /\ s_iters SA = s_iters s + 1 /\
      R = st_dq (S (List.length (c' :: r'))) s0 (c' :: r') [] [] (pre ++ [c_dquote]) 0 /\
      run false (lex_token F msep c') SB = run false (dq_tail (w_litlen (s_buf s0)) R) (q_st R) /\
      MidQ s0 (q_st R) (q_ad R) [] [] (skipn_N (N.to_nat (q_k R)) (c' :: r')) /\
      text = q_P R ++ q_pend R ++ skipn_N (N.to_nat (q_k R)) (c' :: r') /\
      (if q_closed R then exists rest'', skipn_N (N.to_nat (q_k R)) (c' :: r') = c_dquote :: rest''
       else skipn_N (N.to_nat (q_k R)) (c' :: r') = []) /\
      s_src s0 = text /\ s_srclen s0 = blen (s_src s0) /\
      w_toks (s_buf s0) = t0 :: w_toks (s_buf s) /\ s_errs s0 = s_errs s /\
      w_lit (s_buf s0) = w_lit (s_buf s) /\ w_litlen (s_buf s0) = w_litlen (s_buf s) /\
      s_cp s0 = None /\ s_mnl s0 = 0 /\ s_pstat s0 = [true] /\ s_modes s0 = [MStringExpr true; MDefault] /\
      s_ct_byte s0 = blen pre + 1 /\
      (s_iters s0, s_aborted s0, s_loop_detected s0) = (s_iters s + 1 + 1, s_aborted s, s_loop_detected s).
  Proof.
    intros HOC Hr Hf Hmf si SA SB t0.
    pose proof (OC_iters text s rs (s_iters s + 1) HOC) as HOCi. fold si in HOCi.
    destruct (ip_cur _ _ (oc_inv _ _ _ HOC)) as (pre & Epre & _ & Hrem). rewrite Hr in Epre, Hrem.
    assert (Hsrc : s_src s = text) by exact (ip_src _ _ (oc_inv _ _ _ HOC)).
    assert (Hsl : s_srclen s = blen text) by exact (ip_srclen _ _ (oc_inv _ _ _ HOC)).
    assert (Hcb : cur_byte s = blen pre).
    { pose proof (cur_byte_rest text s (oc_inv _ _ _ HOC)) as B. rewrite Hr in B. pose proof (f_equal blen Epre) as E. rewrite blen_app in E. lia. }
    assert (Hrun1 : run false (lex_token F msep c_dquote) si = Done tt SA).
    { apply (run_dquote_start F msep si (c' :: r') (rs_pending rs)).
      - exact (oc_modes _ _ _ HOC).
      - exact (oc_lines _ _ _ HOC).
      - exact Hr.
      - exact (oc_pstat _ _ _ HOC). }
    assert (ISA : InvPos text SA) by exact (InvPos_run text _ si tt SA (oc_inv _ _ _ HOCi) Hrun1).
    assert (ISB : InvPos text SB) by exact (InvPos_iters SA _ ISA).
    assert (HmB : s_modes SB = MStringExpr true :: [MDefault]).
    { change (s_modes SB) with (MStringExpr true :: s_modes s). rewrite (oc_modes _ _ _ HOC). reflexivity. }
    assert (HlB : lines_pos SB).
    { unfold SB, SA, si. apply lines_pos_iters, lines_pos_dqstart, lines_pos_iters. exact (oc_lines _ _ _ HOC). }
    assert (HrB : c_rest (s_cur SB) = c' :: r') by reflexivity.
    assert (HremB : c_rem (s_cur SB) = blen (c' :: r')).
    { change (c_rem (s_cur SB)) with (c_rem (s_cur s) - utf8_len c_dquote). rewrite Hrem. cbn [blen]. lia. }
    assert (HlisB : last_is_start SB = true) by reflexivity.
    assert (HlenB : s_srclen SB = blen (s_src SB)).
    { change (s_srclen SB) with (s_srclen s). change (s_src SB) with (s_src s). rewrite Hsl, Hsrc. reflexivity. }
    assert (HsrcB : s_src SB = (pre ++ [c_dquote]) ++ c' :: r').
    { change (s_src SB) with (s_src s). rewrite Hsrc, Epre, <- app_assoc. reflexivity. }
    destruct (dq_entry F msep SB [MDefault] c' r' (pre ++ [c_dquote]) HmB HlB HrB HremB Hmf HlisB
                ltac:(cbn [List.length] in Hf |- *; lia) HlenB HsrcB) as (E1 & MR & Hs0 & Hcl & _).
    exists pre, (st_start SB), (st_dq (S (List.length (c' :: r'))) (st_start SB) (c' :: r') [] [] (pre ++ [c_dquote]) 0).
    split; [exact Epre|]. split; [exact Hcb|]. split; [exact Hrun1|]. split; [exact ISB|]. split; [reflexivity|]. split; [reflexivity|].
    split; [reflexivity|]. split; [exact E1|]. split; [exact MR|].
    split; [rewrite <- Hs0; change (s_src (st_start SB)) with (s_src s); symmetry; exact Hsrc|].
    split; [exact Hcl|].
    split; [exact Hsrc|].
    split; [change (s_srclen (st_start SB)) with (s_srclen s); change (s_src (st_start SB)) with (s_src s); rewrite Hsl, Hsrc; reflexivity|].
    split; [reflexivity|]. split; [reflexivity|]. split; [reflexivity|]. split; [reflexivity|].
    split; [exact (oc_cp _ _ _ HOC)|]. split; [exact (oc_mnl _ _ _ HOC)|]. split; [reflexivity|].
    split; [change (s_modes (st_start SB)) with (MStringExpr true :: s_modes s); rewrite (oc_modes _ _ _ HOC); reflexivity|].
    split; [|reflexivity].
    change (s_ct_byte (st_start SB)) with (cur_byte SB). unfold cur_byte. rewrite HremB, HlenB, HsrcB, !blen_app. cbn [blen]. change (utf8_len c_dquote) with 1. lia.
  Qed.

  Lemma class_dquote c' r' : macro_free (c' :: r') = true -> lexeme_sim text bb F msep limit (c_dquote :: c' :: r').
  Proof.
    intros Hmf s rs HOC Hr Hf.
    destruct (dquote_setup s rs c' r' HOC Hr Hf Hmf)
      as (pre & s0 & R & Epre & Hcb & Hrun1 & ISB & HpkA & HitA & ER & Hrun2 & MR & Htext & Hcl & Hsrc0 & Hlen0 & Ht0 & Herr0 & Hlit0 & Hll0 &
          Hcp0 & Hmnl0 & Hps0 & Hm0 & Hct0 & Hctr0).
    cbv zeta in *.
    set (si := s <| s_iters := s_iters s + 1 |>) in *.
    set (SA := st_dqstart si (c' :: r')) in *.
    set (SB := SA <| s_iters := s_iters SA + 1 |>) in *.
    set (t0 := mkTok CH_DEFAULT T_StringExprStart (cur_byte s) (cur_char s) (w_nlines (s_buf s) - 1) PNone) in *.
    set (l' := c' :: r') in *.
    set (ls := w_litlen (s_buf s0)) in *.
    assert (Hls : ls = rs_litlen rs) by (rewrite Hll0; exact (oc_litlen _ _ _ HOC)).
    assert (Hl'len : (1 <= List.length l')%nat) by (subst l'; cbn [List.length]; lia).
    (* the reference scan *)
    pose proof (dq_scan (S (List.length l')) l' s0 [] [] (pre ++ [c_dquote]) 0 1 ltac:(lia)) as Hscan.
    cbn [app rev is_nil negb] in Hscan. cbv zeta in Hscan. rewrite <- ER in Hscan. rewrite N.sub_0_r in Hscan.
    rewrite (lexeme_dquote l' (cur_byte s + bb) rs). cbv zeta. rewrite Hscan.
    (* the two iterations of the main loop *)
    assert (Hloop : forall Z, run false (lex_token F msep c') SB = Done tt Z -> s_iters s + N.of_nat 2 <= limit ->
              forall f last, exists last', run false (main_loop F msep limit (2 + f) last) s = run false (main_loop F msep limit f last') Z).
    { intros Z HZ Hlim f last. eexists. cbn [Nat.add]. change (N.of_nat 2) with 2 in Hlim.
      rewrite (main_loop_step F msep limit (S f) last s c_dquote SA).
      - apply (main_loop_step F msep limit f _ SA c' Z).
        + exact HpkA.
        + apply N.ltb_ge. rewrite HitA. lia.
        + exact HZ.
      - unfold peek. rewrite Hr. reflexivity.
      - apply N.ltb_ge. lia.
      - exact Hrun1. }
    (* what every way of ending the literal has in common *)
    assert (Hgen : forall ty total added pl ks Y en rr Z,
              run false (lex_token F msep c') SB = Done tt Z ->
              MidQ s0 Y added [] en rr -> rr = skipn_N (N.to_nat total) (c_dquote :: l') -> 2 <= total -> lines_pos Z ->
              s_buf Z = s_buf (st_upd' Y t0 (w_toks (s_buf s)) CH_DEFAULT ty pl) -> s_cur Z = s_cur Y -> s_modes Z = [MDefault] ->
              s_cp Z = s_cp Y -> s_mnl Z = s_mnl Y -> s_pstat Z = s_pstat Y ->
              (s_iters Z, s_aborted Z) = (s_iters Y, s_aborted Y) ->
              map (ev bb) (s_errs Z) = rev (map (fun k => (k, cur_byte Y + bb)) ks) ++ map (ev bb) (s_errs s0) ->
              exists (kk : nat) s',
                (1 <= kk)%nat /\ (N.of_nat kk <= 2 * N.min total (len (c_dquote :: l'))) /\ (1 <= total) /\
                OC text s' (mkRstate true (Some ty) (rev_append (utf8_encode_all added) (rs_lit rs)) (rs_litlen rs + blen added)) /\
                c_rest (s_cur s') = skipn_N (N.to_nat total) (c_dquote :: l') /\
                map (tv bb) (w_toks (s_buf s')) = rev (map rv [mkRtok ty CH_DEFAULT (cur_byte s + bb) pl]) ++ map (tv bb) (w_toks (s_buf s)) /\
                map (ev bb) (s_errs s') =
                  rev (map rve (map (fun e => mkRerr e (cur_byte s + bb + blen (firstn (N.to_nat total) (c_dquote :: l')))) ks)) ++ map (ev bb) (s_errs s) /\
                s_iters s' = s_iters s + N.of_nat kk /\ s_aborted s' = s_aborted s /\
                (s_iters s + N.of_nat kk <= limit ->
                 forall f last, exists last',
                   run false (main_loop F msep limit (kk + f) last) s = run false (main_loop F msep limit f last') s')).
    { intros ty total added pl ks Y en rr Z HZ MY Err Htot LZ Zbuf Zcur Zmodes Zcp Zmnl Zps Zctr Zerrs.
      assert (IZ : InvPos text Z) by exact (InvPos_run text _ SB tt Z ISB HZ).
      destruct (dq_close s rs s0 Y added en rr Z ty pl t0 HOC Ht0 eq_refl Hlit0 Hll0 Hcp0 Hmnl0 Hps0 MY IZ LZ Zbuf Zcur Zmodes Zcp Zmnl Zps)
        as (OZ & RZ & TZ).
      destruct (cfgq_fields _ _ (mq_cfg _ _ _ _ _ _ MY)) as (_ & _ & _ & _ & C5 & _).
      pose proof (f_equal (fun t => fst (fst t)) (eq_trans C5 Hctr0)) as Hi. pose proof (f_equal (fun t => snd (fst t)) (eq_trans C5 Hctr0)) as Ha.
      cbn [fst snd] in Hi, Ha.
      pose proof (f_equal fst Zctr) as Zi. pose proof (f_equal snd Zctr) as Za. cbn [fst snd] in Zi, Za.
      assert (Hpos : cur_byte Y + bb = cur_byte s + bb + blen (firstn (N.to_nat total) (c_dquote :: l'))).
      { rewrite (MidQ_cur_byte _ _ _ _ _ _ MY). rewrite Err.
        pose proof (blen_firstn_skipn (c_dquote :: l') (N.to_nat total)) as B1.
        pose proof (cur_byte_rest text s (oc_inv _ _ _ HOC)) as B2. rewrite Hr in B2. fold l' in B2.
        rewrite Hlen0, Hsrc0. lia. }
      exists 2%nat, Z. split; [lia|]. split.
      { change (N.of_nat 2) with 2. unfold len. cbn [List.length]. lia. }
      split; [lia|]. split; [exact OZ|]. split; [rewrite RZ; exact Err|]. split; [exact TZ|].
      split; [rewrite Zerrs, Herr0, map_map, Hpos; reflexivity|].
      split; [rewrite Zi, Hi; change (N.of_nat 2) with 2; lia|]. split; [rewrite Za, Ha; reflexivity|].
      exact (Hloop Z HZ). }
    set (k := q_k R) in *.
    destruct (q_closed R) eqn:Ecl; cbn [negb].
    - (* closed *)
      destruct Hcl as (rest'' & Hsk).
      assert (Hafter : skipn_N (N.to_nat (1 + k + 1)) (c_dquote :: l') = rest'').
      { replace (N.to_nat (1 + k + 1)) with (S (N.to_nat k + 1)) by lia. cbn [skipn_N].
        rewrite <- (skipn_N_add 1 (N.to_nat k) l'), Hsk. reflexivity. }
      rewrite Hafter, suffix_same.
      destruct (suffix_model rest'') as [ty extra] eqn:Esuf.
      set (total := 1 + k + 1 + extra).
      destruct (dq_P (S (List.length l')) l' s0 [] [] (pre ++ [c_dquote]) 0) as (W & HW & HWq). rewrite <- ER in HW, HWq.
      set (WW := W ++ q_pend R).
      assert (Hl' : l' = WW ++ c_dquote :: rest'').
      { pose proof Htext as H1. rewrite HW, Hsk, Epre in H1. rewrite <- !app_assoc in H1. apply app_inv_head in H1.
        cbn [app] in H1. injection H1 as H1. subst WW. rewrite <- app_assoc. exact H1. }
      assert (Hk : N.to_nat k = List.length WW).
      { pose proof (skipn_N_len (N.to_nat k) l') as L1. rewrite Hsk in L1.
        pose proof (f_equal (@List.length char) Hl') as L2. rewrite app_length in L2. cbn [List.length] in L1, L2. lia. }
      assert (Htok : firstn (N.to_nat total) (c_dquote :: l') = c_dquote :: WW ++ c_dquote :: firstn (N.to_nat extra) rest'').
      { subst total. replace (N.to_nat (1 + k + 1 + extra)) with (S (List.length WW + S (N.to_nat extra))) by lia. cbn [firstn]. f_equal.
        rewrite Hl'. rewrite firstn_app_2. cbn [firstn]. reflexivity. }
      assert (Hskip : skipn_N (N.to_nat extra) rest'' = skipn_N (N.to_nat total) (c_dquote :: l')).
      { subst total. replace (N.to_nat (1 + k + 1 + extra)) with (S ((N.to_nat k + 1) + N.to_nat extra)) by lia. cbn [skipn_N].
        rewrite <- (skipn_N_add (N.to_nat extra) (N.to_nat k + 1) l'), <- (skipn_N_add 1 (N.to_nat k) l'), Hsk. reflexivity. }
      assert (MR' : MidQ s0 (q_st R) (q_ad R) [] [] (c_dquote :: rest'')) by (rewrite <- Hsk; exact MR).
      assert (Hsrc' : s_src s0 = q_P R ++ q_pend R ++ c_dquote :: rest'') by (rewrite Hsrc0, <- Hsk; exact Htext).
      assert (Hpre : q_P R ++ q_pend R = pre ++ c_dquote :: WW) by (rewrite HW; subst WW; rewrite <- !app_assoc; reflexivity).
      assert (Hesc : q_ad R = [] \/ In c_dquote WW).
      { destruct HWq as [E|Hin]; [left; exact E|right; subst WW; apply in_or_app; left; exact Hin]. }
      pose proof (dq_tail_closed bb s0 R rest'' pre WW [MDefault] t0 (w_toks (s_buf s)) Hlen0 Ecl MR' Hsrc' Hpre Hct0 Hesc Ht0 Hm0) as HT.
      cbv zeta in HT. rewrite Esuf in HT. cbn [fst snd] in HT. rewrite <- Htok in HT. fold ls in HT.
      set (val := q_ad R ++ q_pend R) in *.
      (* a run that ends in [st_pop (st_upd' Y ...)] *)
      assert (Hcl2 : forall added pl ks Y en,
                run false (dq_tail ls R) (q_st R) = Done tt (st_pop (st_upd' Y t0 (w_toks (s_buf s)) CH_DEFAULT ty pl) [MDefault]) ->
                MidQ s0 Y added [] en (skipn_N (N.to_nat extra) rest'') ->
                map (ev bb) en = map (fun k => (k, cur_byte Y + bb)) ks -> (List.length ks <= 1)%nat ->
                exists (kk : nat) s',
                  (1 <= kk)%nat /\ (N.of_nat kk <= 2 * N.min total (len (c_dquote :: l'))) /\ (1 <= total) /\
                  OC text s' (mkRstate true (Some ty) (rev_append (utf8_encode_all added) (rs_lit rs)) (rs_litlen rs + blen added)) /\
                  c_rest (s_cur s') = skipn_N (N.to_nat total) (c_dquote :: l') /\
                  map (tv bb) (w_toks (s_buf s')) = rev (map rv [mkRtok ty CH_DEFAULT (cur_byte s + bb) pl]) ++ map (tv bb) (w_toks (s_buf s)) /\
                  map (ev bb) (s_errs s') =
                    rev (map rve (map (fun e => mkRerr e (cur_byte s + bb + blen (firstn (N.to_nat total) (c_dquote :: l')))) ks)) ++ map (ev bb) (s_errs s) /\
                  s_iters s' = s_iters s + N.of_nat kk /\ s_aborted s' = s_aborted s /\
                  (s_iters s + N.of_nat kk <= limit ->
                   forall f last, exists last',
                     run false (main_loop F msep limit (kk + f) last) s = run false (main_loop F msep limit f last') s')).
      { intros added pl ks Y en HrunT MY Hen Hks.
        apply (Hgen ty total added pl ks Y en _ (st_pop (st_upd' Y t0 (w_toks (s_buf s)) CH_DEFAULT ty pl) [MDefault])
                 ltac:(rewrite Hrun2; exact HrunT) MY Hskip ltac:(subst total; lia)
                 ltac:(apply lines_pos_pop, lines_pos_upd'; exact (mq_lines _ _ _ _ _ _ MY)) eq_refl eq_refl eq_refl eq_refl eq_refl eq_refl eq_refl).
        change (s_errs (st_pop (st_upd' Y t0 (w_toks (s_buf s)) CH_DEFAULT ty pl) [MDefault])) with (s_errs Y).
        rewrite (mq_errs _ _ _ _ _ _ MY), map_app, Hen. f_equal.
        destruct ks as [|e1 [|e2 ks']]; [reflexivity|reflexivity|cbn [List.length] in Hks; lia]. }
      revert HT. destruct (tt_eqb ty T_HexStringLiteral) eqn:Ehex.
      + destruct (parse_sas_hex_string (firstn (N.to_nat total) (c_dquote :: l'))) as [v|e] eqn:Ep.
        * cbn [fst snd]. intros (Y & en & HrunT & MY & Hen). rewrite push_lit_spec. rewrite <- Hls.
          pose proof (Hcl2 v (PStr ls (ls + blen v)) [] Y en HrunT MY Hen ltac:(cbn; lia)) as G. rewrite <- Hls in G. exact G.
        * destruct (is_nil (q_ad R)) eqn:En; cbn [fst snd negb]; intros (Y & en & HrunT & MY & Hen).
          -- pose proof (Hcl2 [] PNone [e] Y en HrunT MY Hen ltac:(cbn; lia)) as G.
             cbn [utf8_encode_all flat_map rev_append blen] in G. rewrite N.add_0_r in G. exact G.
          -- rewrite push_lit_spec. rewrite <- Hls.
             pose proof (Hcl2 val (PStr ls (ls + blen val)) [e] Y en HrunT MY Hen ltac:(cbn; lia)) as G. rewrite <- Hls in G. exact G.
      + destruct (is_nil (q_ad R)) eqn:En; cbn [fst snd negb]; intros (Y & en & HrunT & MY & Hen).
        * pose proof (Hcl2 [] PNone [] Y en HrunT MY Hen ltac:(cbn; lia)) as G.
          cbn [utf8_encode_all flat_map rev_append blen] in G. rewrite N.add_0_r in G. exact G.
        * rewrite push_lit_spec. rewrite <- Hls.
          pose proof (Hcl2 val (PStr ls (ls + blen val)) [] Y en HrunT MY Hen ltac:(cbn; lia)) as G. rewrite <- Hls in G. exact G.
    - (* no closing quote *)
      rewrite N.add_0_r.
      assert (Hk1 : 1 <= k).
      { pose proof (skipn_N_len (N.to_nat k) l') as L1. rewrite Hcl in L1. cbn [List.length] in L1. lia. }
      assert (Hskip : [] = skipn_N (N.to_nat (1 + k)) (c_dquote :: l')).
      { replace (N.to_nat (1 + k)) with (S (N.to_nat k)) by lia. cbn [skipn_N]. symmetry. exact Hcl. }
      assert (MR' : MidQ s0 (q_st R) (q_ad R) [] [] []) by (rewrite <- Hcl; exact MR).
      assert (Hsrc' : s_src s0 = q_P R ++ q_pend R ++ []) by (rewrite Hsrc0, <- Hcl; exact Htext).
      destruct (dq_tail_open s0 R [MDefault] t0 (w_toks (s_buf s)) Hlen0 Ecl MR' Hsrc' Ht0 eq_refl Hm0) as (HrunT & MY).
      cbv zeta in HrunT, MY. fold ls in HrunT.
      set (val := q_ad R ++ q_pend R) in *.
      assert (Hop : forall added pl Y,
                run false (dq_tail ls R) (q_st R) =
                  Done tt (st_pop (Core.emit_error (st_upd' Y t0 (w_toks (s_buf s)) CH_DEFAULT T_StringLiteral pl) E_UnterminatedStringLiteral) [MDefault]) ->
                MidQ s0 Y added [] [] [] ->
                exists (kk : nat) s',
                  (1 <= kk)%nat /\ (N.of_nat kk <= 2 * N.min (1 + k) (len (c_dquote :: l'))) /\ (1 <= 1 + k) /\
                  OC text s' (mkRstate true (Some T_StringLiteral) (rev_append (utf8_encode_all added) (rs_lit rs)) (rs_litlen rs + blen added)) /\
                  c_rest (s_cur s') = skipn_N (N.to_nat (1 + k)) (c_dquote :: l') /\
                  map (tv bb) (w_toks (s_buf s')) = rev (map rv [mkRtok T_StringLiteral CH_DEFAULT (cur_byte s + bb) pl]) ++ map (tv bb) (w_toks (s_buf s)) /\
                  map (ev bb) (s_errs s') =
                    rev (map rve [mkRerr E_UnterminatedStringLiteral (cur_byte s + bb + blen (firstn (N.to_nat (1 + k)) (c_dquote :: l')))]) ++ map (ev bb) (s_errs s) /\
                  s_iters s' = s_iters s + N.of_nat kk /\ s_aborted s' = s_aborted s /\
                  (s_iters s + N.of_nat kk <= limit ->
                   forall f last, exists last',
                     run false (main_loop F msep limit (kk + f) last) s = run false (main_loop F msep limit f last') s')).
      { intros added pl Y HrunY MYY.
        apply (Hgen T_StringLiteral (1 + k) added pl [E_UnterminatedStringLiteral] Y [] []
                 (st_pop (Core.emit_error (st_upd' Y t0 (w_toks (s_buf s)) CH_DEFAULT T_StringLiteral pl) E_UnterminatedStringLiteral) [MDefault])
                 ltac:(rewrite Hrun2; exact HrunY) MYY Hskip ltac:(lia)
                 ltac:(apply lines_pos_pop, lines_pos_error, lines_pos_upd'; exact (mq_lines _ _ _ _ _ _ MYY)) eq_refl eq_refl eq_refl eq_refl eq_refl eq_refl eq_refl).
        change (s_errs (st_pop (Core.emit_error (st_upd' Y t0 (w_toks (s_buf s)) CH_DEFAULT T_StringLiteral pl) E_UnterminatedStringLiteral) [MDefault]))
          with (prep_error (st_upd' Y t0 (w_toks (s_buf s)) CH_DEFAULT T_StringLiteral pl) E_UnterminatedStringLiteral :: s_errs Y).
        rewrite (mq_errs _ _ _ _ _ _ MYY). reflexivity. }
      destruct (is_nil (q_ad R)) eqn:En; cbn [negb].
      + pose proof (Hop [] PNone (q_st R) HrunT MY) as G.
        cbn [utf8_encode_all flat_map rev_append blen] in G. rewrite N.add_0_r in G. exact G.
      + rewrite push_lit_spec. rewrite <- Hls.
        pose proof (Hop val (PStr ls (ls + blen val)) _ HrunT MY) as G. rewrite <- Hls in G. exact G.
  Qed.
End DqClass.
