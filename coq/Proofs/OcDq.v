(** * Open code = reference lexer (C11): double-quoted literals (string expressions without macro content) *)
From Coq Require Import NArith ZArith List Bool Lia String.
From RecordUpdate Require Import RecordSet.
From SasLexer Require Import Gen.TokenType Gen.ErrorKind Gen.Channel Gen.Unicode Model.Base Model.Core
     Model.Helpers Model.Numeric Model.Lexer1 Model.Lexer2 Model.Lexer3 Spec.RefLex
     Proofs.Generic Proofs.LexGeneric Proofs.Bom Proofs.SemiProgram Proofs.SemiCompose Proofs.RefLexProofs
     Proofs.HexString Proofs.OcBase Proofs.OcSym Proofs.OcScan Proofs.OcNum Proofs.OcIdent Proofs.OcData Proofs.OcStr Proofs.OcWhole.
Import ListNotations RecordSetNotations.
Open Scope N_scope.

Definition is_amp (c : char) : bool := c =? c_amp.

(** the text scan of a string expression without macro triggers; it stops in front of the closing quote *)
Fixpoint st_dq (m : nat) (X : st) (l ad pend P : list char) (k : N) : qres :=
  match m with
  | O => mkQres false X ad pend P k
  | S m' =>
    match l with
    | [] => mkQres false X ad pend P k
    | x :: r =>
      if x =? c_amp then
        let n := count_while is_amp l in
        st_dq m' (st_adv_by X n) (skipn_N (N.to_nat n) l) ad (pend ++ firstn (N.to_nat n) l) P (k + n)
      else if x =? c_pct then st_dq m' (st_adv X x r) r ad (pend ++ [x]) P (k + 1)
      else if x =? NL then st_dq m' (st_add_line (st_adv X x r)) r ad (pend ++ [x]) P (k + 1)
      else if x =? c_dquote then
        match r with
        | y :: r' =>
          if y =? c_dquote then
            st_dq m' (st_adv (st_addlit (st_adv X x r) (pend ++ [x])) y r') r' (ad ++ pend ++ [x]) [] (P ++ pend ++ [x; y]) (k + 2)
          else mkQres true X ad pend P k
        | [] => mkQres true X ad pend P k
        end
      else st_dq m' (st_adv X x r) r ad (pend ++ [x]) P (k + 1)
    end
  end.

Lemma count_amp_pos r : 1 <= count_while is_amp (c_amp :: r).
Proof. cbn [count_while]. unfold is_amp. rewrite N.eqb_refl. lia. Qed.

Lemma count_while_le (p : char -> bool) l : count_while p l <= len l.
Proof. induction l as [|x l IH]; [cbn; lia|]. cbn [count_while]. rewrite len_cons. destruct (p x); lia. Qed.

Lemma skipn_count_len (p : char -> bool) l : (List.length (skipn_N (N.to_nat (count_while p l)) l) = List.length l - N.to_nat (count_while p l))%nat.
Proof. apply skipn_N_len. Qed.

Lemma dq_k_mono : forall m l X ad pend P k, k <= q_k (st_dq m X l ad pend P k).
Proof.
  induction m as [|m IH]; intros l X ad pend P k; [cbn; lia|]. cbn [st_dq]. destruct l as [|x r]; [cbn; lia|].
  destruct (x =? c_amp); [match goal with |- _ <= q_k (st_dq m ?X' ?l' ?a ?p ?P' ?k') => pose proof (IH l' X' a p P' k') end; lia|].
  destruct (x =? c_pct); [match goal with |- _ <= q_k (st_dq m ?X' ?l' ?a ?p ?P' ?k') => pose proof (IH l' X' a p P' k') end; lia|].
  destruct (x =? NL); [match goal with |- _ <= q_k (st_dq m ?X' ?l' ?a ?p ?P' ?k') => pose proof (IH l' X' a p P' k') end; lia|].
  destruct (x =? c_dquote).
  - destruct r as [|y r']; [cbn; lia|]. destruct (y =? c_dquote); [|cbn; lia].
    match goal with |- _ <= q_k (st_dq m ?X' ?l' ?a ?p ?P' ?k') => pose proof (IH l' X' a p P' k') end. lia.
  - match goal with |- _ <= q_k (st_dq m ?X' ?l' ?a ?p ?P' ?k') => pose proof (IH l' X' a p P' k') end. lia.
Qed.

(** the reference scan over a run of ampersands *)
Lemma scan_amps q : q <> c_amp -> forall a l n val esc, forallb is_amp a = true ->
  scan_quoted q (a ++ l) n val esc = scan_quoted q l (n + len a) (rev a ++ val) esc.
Proof.
  intros Hq. induction a as [|x a IH]; intros l n val esc Ha.
  - cbn [app rev len List.length]. change (N.of_nat 0) with 0. rewrite N.add_0_r. reflexivity.
  - cbn [forallb] in Ha. apply andb_true_iff in Ha. destruct Ha as [Hx Ha]. unfold is_amp in Hx. apply N.eqb_eq in Hx. subst x.
    cbn [app scan_quoted]. destruct (N.eqb_spec c_amp q) as [E|_]; [congruence|].
    rewrite (IH l (n + 1) (c_amp :: val) esc Ha). rewrite len_cons. cbn [rev]. rewrite <- app_assoc. f_equal. lia.
Qed.

Lemma firstn_count_while (p : char -> bool) l : forallb p (firstn (N.to_nat (count_while p l)) l) = true.
Proof.
  induction l as [|x l IH]; [reflexivity|]. cbn [count_while]. destruct (p x) eqn:E; [|reflexivity].
  replace (N.to_nat (1 + count_while p l)) with (S (N.to_nat (count_while p l))) by lia. cbn [firstn forallb]. rewrite E, IH. reflexivity.
Qed.

Lemma firstn_len_count (p : char -> bool) l : len (firstn (N.to_nat (count_while p l)) l) = count_while p l.
Proof.
  induction l as [|x l IH]; [reflexivity|]. cbn [count_while]. destruct (p x); [|reflexivity].
  replace (N.to_nat (1 + count_while p l)) with (S (N.to_nat (count_while p l))) by lia. cbn [firstn]. rewrite len_cons, IH. lia.
Qed.

(** the reference scan agrees with [st_dq] *)
Lemma dq_scan : forall m l X ad pend P k n, (List.length l < m)%nat ->
  scan_quoted c_dquote l n (rev (ad ++ pend)) (negb (is_nil ad)) =
  let R := st_dq m X l ad pend P k in
  (n + (q_k R - k) + (if q_closed R then 1 else 0), q_closed R, q_ad R ++ q_pend R, negb (is_nil (q_ad R))).
Proof.
  induction m as [|m IH]; intros l X ad pend P k n Hl; [lia|].
  destruct l as [|x r].
  { cbn [scan_quoted st_dq q_k q_closed q_ad q_pend]. rewrite rev_involutive. f_equal. f_equal. f_equal. lia. }
  cbn [List.length] in Hl. cbn [st_dq].
  destruct (x =? c_amp) eqn:Ea.
  - apply N.eqb_eq in Ea. subst x. set (nn := count_while is_amp (c_amp :: r)).
    rewrite (firstn_skipn_N (N.to_nat nn) (c_amp :: r)) at 1.
    rewrite (scan_amps c_dquote ltac:(discriminate) _ _ n _ _ (firstn_count_while is_amp (c_amp :: r))).
    unfold nn at 2. rewrite (firstn_len_count is_amp (c_amp :: r)). fold nn.
    replace (rev (firstn (N.to_nat nn) (c_amp :: r)) ++ rev (ad ++ pend)) with (rev (ad ++ (pend ++ firstn (N.to_nat nn) (c_amp :: r))))
      by (rewrite app_assoc, rev_app_distr; reflexivity).
    pose proof (count_amp_pos r) as Hp. fold nn in Hp.
    match goal with |- context [st_dq m ?X' ?l' ?a ?p ?P' ?k'] =>
      rewrite (IH l' X' a p P' k' (n + nn) ltac:(unfold nn; rewrite skipn_N_len; cbn [List.length]; lia));
      pose proof (dq_k_mono m l' X' a p P' k') as Hk end.
    cbv zeta. f_equal. f_equal. f_equal. lia.
  - cbn [scan_quoted].
    assert (Hstep : forall X', (x =? c_dquote) = false ->
              scan_quoted c_dquote r (n + 1) (x :: rev (ad ++ pend)) (negb (is_nil ad)) =
              let R := st_dq m X' r ad (pend ++ [x]) P (k + 1) in
              (n + (q_k R - k) + (if q_closed R then 1 else 0), q_closed R, q_ad R ++ q_pend R, negb (is_nil (q_ad R)))).
    { intros X' _. replace (x :: rev (ad ++ pend)) with (rev (ad ++ (pend ++ [x]))) by (rewrite app_assoc, rev_app_distr; reflexivity).
      rewrite (IH r X' ad (pend ++ [x]) P (k + 1) (n + 1) ltac:(lia)). cbv zeta.
      pose proof (dq_k_mono m r X' ad (pend ++ [x]) P (k + 1)). f_equal. f_equal. f_equal. lia. }
    destruct (x =? c_pct) eqn:Ep.
    { apply N.eqb_eq in Ep. subst x. change (c_pct =? c_dquote) with false. cbv iota. apply Hstep. reflexivity. }
    destruct (x =? NL) eqn:En.
    { apply N.eqb_eq in En. subst x. change (NL =? c_dquote) with false. cbv iota. apply Hstep. reflexivity. }
    destruct (x =? c_dquote) eqn:Eq.
    + destruct r as [|y r'].
      * cbn [q_k q_closed q_ad q_pend]. rewrite rev_involutive. f_equal. f_equal. f_equal. lia.
      * destruct (y =? c_dquote) eqn:Ey.
        -- apply N.eqb_eq in Eq. subst x.
           replace (c_dquote :: rev (ad ++ pend)) with (rev ((ad ++ pend ++ [c_dquote]) ++ [])) by (rewrite app_nil_r, app_assoc, rev_app_distr; reflexivity).
           replace true with (negb (is_nil (ad ++ pend ++ [c_dquote]))) by (destruct ad; [destruct pend|]; reflexivity).
           match goal with |- context [st_dq m ?X' r' ?a ?p ?P' ?k'] =>
             rewrite (IH r' X' a p P' k' (n + 2) ltac:(cbn [List.length] in Hl; lia));
             pose proof (dq_k_mono m r' X' a p P' k') as Hk end.
           cbv zeta. f_equal. f_equal. f_equal. lia.
        -- cbn [q_k q_closed q_ad q_pend]. rewrite rev_involutive. f_equal. f_equal. f_equal. lia.
    + apply Hstep. reflexivity.
Qed.

Lemma adv_by_loop_rem k : forall c, c_rem c = blen (c_rest c) -> c_rem (advance_by_loop k c) = blen (c_rest (advance_by_loop k c)).
Proof.
  induction k as [|k IH]; intros c H; [exact H|]. cbn [advance_by_loop]. destruct (c_rest c) as [|x r] eqn:E; [rewrite E; exact H|].
  apply IH. cbn [c_rem c_rest]. rewrite H. cbn [blen]. lia.
Qed.

Lemma MidQ_adv_by s0 X ad tn en l n : MidQ s0 X ad tn en l -> MidQ s0 (st_adv_by X n) ad tn en (skipn_N (N.to_nat n) l).
Proof.
  intros [C L1 L2 T E R M L]. destruct (st_adv_by_spec X n) as (R1 & F1 & N1).
  unfold st_adv_by, exec in *. cbn [andb] in *. constructor; try assumption.
  - cbn [s_cur set]. rewrite advance_by_loop_rest. rewrite R. reflexivity.
  - cbn [s_cur set]. rewrite adv_by_loop_rem; [|rewrite R; exact M]. rewrite advance_by_loop_rest, R. reflexivity.
Qed.

Lemma macro_free_tail c r : macro_free (c :: r) = true -> macro_free r = true.
Proof. cbn [macro_free]. intros H. apply andb_true_iff in H. exact (proj2 H). Qed.

Lemma macro_free_skip k : forall l, macro_free l = true -> macro_free (skipn_N k l) = true.
Proof. induction k as [|k IH]; intros [|c r] H; cbn [skipn_N]; try exact H. apply IH. exact (macro_free_tail c r H). Qed.

Lemma amp_run_not_macro r : macro_free (c_amp :: r) = true ->
  is_macro_amp (c_amp :: r) = (false, count_while is_amp (c_amp :: r)).
Proof.
  intros H. pose proof (amp_not_macro r H) as Hf. unfold is_macro_amp in *.
  change (fun c => c =? c_amp) with is_amp in *.
  destruct (drop_while is_amp (c_amp :: r)) as [|x q]; [reflexivity|]. cbn [fst] in Hf. rewrite Hf. reflexivity.
Qed.

Lemma pct_not_macro r : macro_free (c_pct :: r) = true ->
  is_macro_percent (match r with c :: _ => c | [] => EOF_CHAR end) false = false.
Proof.
  cbn [macro_free]. replace (c_pct =? c_pct) with true by reflexivity. intros H. apply andb_true_iff in H. destruct H as [H _].
  unfold is_macro_percent. destruct r as [|x r']; [reflexivity|]. apply negb_true_iff in H. rewrite H. reflexivity.
Qed.

(** ** the text loop of the model runs [st_dq] *)
Definition dq_tail (ls : N) (R : qres) : prog unit :=
  pl <- resolve_string_literal_payload ls (ls + blen (q_ad R)) (blen (q_P R)) None false ;;
  if q_closed R then lex_double_quoted_literal pl else handle_unterminated_str_expr pl.

Lemma dq_run s0 : s_srclen s0 = blen (s_src s0) ->
  forall m l X ad pend P k f lit_end le tn,
  (List.length l < m)%nat -> (List.length l < f)%nat -> macro_free l = true ->
  MidQ s0 X ad tn [] l -> s_src s0 = P ++ pend ++ l ->
  lit_end = w_litlen (s_buf s0) + blen ad -> le = blen P -> last_is_start X = true ->
  let R := st_dq m X l ad pend P k in
  run false (str_expr_text_loop f (w_litlen (s_buf s0)) lit_end le) X = run false (dq_tail (w_litlen (s_buf s0)) R) (q_st R) /\
  MidQ s0 (q_st R) (q_ad R) tn [] (skipn_N (N.to_nat (q_k R - k)) l) /\
  s_src s0 = q_P R ++ q_pend R ++ skipn_N (N.to_nat (q_k R - k)) l /\
  (if q_closed R then exists rest'', skipn_N (N.to_nat (q_k R - k)) l = c_dquote :: rest'' else skipn_N (N.to_nat (q_k R - k)) l = []) /\
  last_is_start (q_st R) = true.
Proof.
  intros Hlen. induction m as [|m IH]; intros l X ad pend P k f lit_end le tn Hm Hf Hmf HM Hsrc Hle Hl Hlis; [lia|].
  destruct f as [|f]; [lia|].
  cbv zeta. cbn [st_dq str_expr_text_loop]. unfold get. cbn [bindP do run]. rewrite ex_get. cbn [run]. rewrite peek_scrub. unfold peek.
  rewrite (mq_rest _ _ _ _ _ _ HM).
  destruct l as [|x r].
  { cbn [q_st q_ad q_P q_closed q_k q_pend]. replace (k - k) with 0 by lia. cbn [N.to_nat skipn_N].
    subst. split; [reflexivity|]. split; [exact HM|]. split; [exact Hsrc|]. split; [reflexivity|exact Hlis]. }
  cbn [List.length] in Hm, Hf.
  assert (Hone : forall X1, MidQ s0 X1 ad tn [] r -> last_is_start X1 = true ->
            run false (str_expr_text_loop f (w_litlen (s_buf s0)) lit_end le) X1 =
              run false (dq_tail (w_litlen (s_buf s0)) (st_dq m X1 r ad (pend ++ [x]) P (k + 1))) (q_st (st_dq m X1 r ad (pend ++ [x]) P (k + 1))) /\
            MidQ s0 (q_st (st_dq m X1 r ad (pend ++ [x]) P (k + 1))) (q_ad (st_dq m X1 r ad (pend ++ [x]) P (k + 1))) tn []
                 (skipn_N (N.to_nat (q_k (st_dq m X1 r ad (pend ++ [x]) P (k + 1)) - k)) (x :: r)) /\
            s_src s0 = q_P (st_dq m X1 r ad (pend ++ [x]) P (k + 1)) ++ q_pend (st_dq m X1 r ad (pend ++ [x]) P (k + 1)) ++
                       skipn_N (N.to_nat (q_k (st_dq m X1 r ad (pend ++ [x]) P (k + 1)) - k)) (x :: r) /\
            (if q_closed (st_dq m X1 r ad (pend ++ [x]) P (k + 1))
             then exists rest'', skipn_N (N.to_nat (q_k (st_dq m X1 r ad (pend ++ [x]) P (k + 1)) - k)) (x :: r) = c_dquote :: rest''
             else skipn_N (N.to_nat (q_k (st_dq m X1 r ad (pend ++ [x]) P (k + 1)) - k)) (x :: r) = []) /\
            last_is_start (q_st (st_dq m X1 r ad (pend ++ [x]) P (k + 1))) = true).
  { intros X1 HM1 Hlis1.
    assert (Hsrc' : s_src s0 = P ++ (pend ++ [x]) ++ r) by (rewrite Hsrc, <- app_assoc; reflexivity).
    destruct (IH r X1 ad (pend ++ [x]) P (k + 1) f lit_end le tn ltac:(lia) ltac:(lia) (macro_free_tail x r Hmf) HM1 Hsrc' Hle Hl Hlis1)
      as (R1 & R2 & R3 & R4 & R5).
    pose proof (dq_k_mono m r X1 ad (pend ++ [x]) P (k + 1)) as Hk.
    set (R := st_dq m X1 r ad (pend ++ [x]) P (k + 1)) in *.
    replace (N.to_nat (q_k R - k)) with (S (N.to_nat (q_k R - (k + 1)))) by lia. cbn [skipn_N].
    split; [exact R1|]. split; [exact R2|]. split; [exact R3|]. split; [exact R4|exact R5]. }
  destruct (x =? c_amp) eqn:Ea.
  - (* a run of ampersands that is not a macro variable reference *)
    apply N.eqb_eq in Ea. subst x.
    change (rest (scrub X)) with (c_rest (s_cur X)). rewrite (mq_rest _ _ _ _ _ _ HM).
    rewrite (amp_run_not_macro r Hmf). cbv iota beta. unfold advance_by. cbn [bindP do run]. rewrite ex_advance_by. cbn [run].
    set (nn := count_while is_amp (c_amp :: r)) in *.
    pose proof (count_amp_pos r) as Hp. fold nn in Hp.
    pose proof (MidQ_adv_by _ _ _ _ _ _ nn HM) as HM1.
    assert (Hsrc' : s_src s0 = P ++ (pend ++ firstn (N.to_nat nn) (c_amp :: r)) ++ skipn_N (N.to_nat nn) (c_amp :: r)).
    { rewrite Hsrc. rewrite <- app_assoc. f_equal. f_equal. apply firstn_skipn_N. }
    assert (Hlis1 : last_is_start (st_adv_by X nn) = true).
    { unfold last_is_start, last_tok_type, last_tok in *. rewrite (mq_toks _ _ _ _ _ _ HM1). rewrite <- (mq_toks _ _ _ _ _ _ HM). exact Hlis. }
    destruct (IH (skipn_N (N.to_nat nn) (c_amp :: r)) (st_adv_by X nn) ad (pend ++ firstn (N.to_nat nn) (c_amp :: r)) P (k + nn) f lit_end le tn
                 ltac:(rewrite skipn_N_len; cbn [List.length]; lia) ltac:(rewrite skipn_N_len; cbn [List.length]; lia)
                 (macro_free_skip _ _ Hmf) HM1 Hsrc' Hle Hl Hlis1) as (R1 & R2 & R3 & R4 & R5).
    pose proof (dq_k_mono m (skipn_N (N.to_nat nn) (c_amp :: r)) (st_adv_by X nn) ad (pend ++ firstn (N.to_nat nn) (c_amp :: r)) P (k + nn)) as Hk.
    set (R := st_dq m (st_adv_by X nn) (skipn_N (N.to_nat nn) (c_amp :: r)) ad (pend ++ firstn (N.to_nat nn) (c_amp :: r)) P (k + nn)) in *.
    assert (Hsk : skipn_N (N.to_nat (q_k R - k)) (c_amp :: r) = skipn_N (N.to_nat (q_k R - (k + nn))) (skipn_N (N.to_nat nn) (c_amp :: r))).
    { rewrite skipn_N_add. f_equal. lia. }
    rewrite Hsk. split; [exact R1|]. split; [exact R2|]. split; [exact R3|]. split; [exact R4|exact R5].
  - destruct (x =? c_pct) eqn:Ep.
    + (* a percent sign that is not a macro trigger *)
      apply N.eqb_eq in Ep. subst x.
      replace (is_macro_percent (peek_next (scrub X)) false) with false.
      2:{ unfold peek_next. change (c_rest (s_cur (scrub X))) with (c_rest (s_cur X)). rewrite (mq_rest _ _ _ _ _ _ HM).
          symmetry. exact (pct_not_macro r Hmf). }
      unfold advance_, ret. cbn [bindP do run]. rewrite (ex_advance X c_pct r (mq_rest _ _ _ _ _ _ HM)). cbn [run bindP do].
      apply Hone; [apply MidQ_adv; exact HM|exact Hlis].
    + destruct (x =? NL) eqn:En.
      * unfold advance_, add_line, ret. cbn [bindP do run]. rewrite (ex_advance X x r (mq_rest _ _ _ _ _ _ HM)). cbn [run bindP do]. rewrite ex_add_line. cbn [run].
        apply Hone; [apply MidQ_add_line; apply MidQ_adv; exact HM|exact Hlis].
      * destruct (x =? c_dquote) eqn:Eq.
        -- apply N.eqb_eq in Eq. subst x. unfold peek_next. change (c_rest (s_cur (scrub X))) with (c_rest (s_cur X)). rewrite (mq_rest _ _ _ _ _ _ HM).
           destruct r as [|y r'].
           ++ change (EOF_CHAR =? c_dquote) with false. cbv iota.
              change (last_is_start (scrub X)) with (last_is_start X). rewrite Hlis.
              cbn [q_st q_ad q_P q_closed q_k q_pend]. replace (k - k) with 0 by lia. cbn [N.to_nat skipn_N].
              subst. split; [reflexivity|]. split; [exact HM|]. split; [exact Hsrc|]. split; [exists []; reflexivity|exact Hlis].
           ++ destruct (y =? c_dquote) eqn:Ey.
              ** (* a doubled quote *)
                 apply N.eqb_eq in Ey. subst y.
                 unfold advance_, ret. cbn [bindP do run]. rewrite (ex_advance X c_dquote (c_dquote :: r') (mq_rest _ _ _ _ _ _ HM)). cbn [run bindP do].
                 pose proof (MidQ_adv _ _ _ _ _ _ _ HM) as HM1. set (X1 := st_adv X c_dquote (c_dquote :: r')) in *.
                 destruct (cfgq_src s0 X1 (mq_cfg _ _ _ _ _ _ HM1)) as [Hs1 _].
                 assert (Hcb1 : cur_byte X1 = blen P + blen (pend ++ [c_dquote])).
                 { rewrite (MidQ_cur_byte _ _ _ _ _ _ HM1). rewrite Hlen, Hsrc. rewrite !blen_app. cbn [blen]. lia. }
                 assert (Hslice : src_slice X1 le (cur_byte X1) = Some (pend ++ [c_dquote])).
                 { rewrite Hcb1, Hl. apply (src_slice_spec X1 P (pend ++ [c_dquote]) (c_dquote :: r')). rewrite Hs1, Hsrc. rewrite <- app_assoc. reflexivity. }
                 rewrite (ex_addlit_src_cur X1 le (pend ++ [c_dquote]) Hslice). cbn [run].
                 pose proof (MidQ_addlit _ _ _ _ _ _ (pend ++ [c_dquote]) HM1) as HM2. set (X2 := st_addlit X1 (pend ++ [c_dquote])) in *.
                 rewrite (ex_advance X2 c_dquote r' (mq_rest _ _ _ _ _ _ HM2)). cbn [run bindP do]. rewrite ex_get. cbn [run].
                 pose proof (MidQ_adv _ _ _ _ _ _ _ HM2) as HM3. set (X3 := st_adv X2 c_dquote r') in *.
                 assert (Hsrc3 : s_src s0 = (P ++ pend ++ [c_dquote; c_dquote]) ++ [] ++ r') by (rewrite Hsrc, <- !app_assoc; reflexivity).
                 assert (Hlis3 : last_is_start X3 = true).
                 { unfold last_is_start, last_tok_type, last_tok in *. rewrite (mq_toks _ _ _ _ _ _ HM3). rewrite <- (mq_toks _ _ _ _ _ _ HM). exact Hlis. }
                 destruct (IH r' X3 (ad ++ pend ++ [c_dquote]) [] (P ++ pend ++ [c_dquote; c_dquote]) (k + 2) f
                              (w_litlen (s_buf X1) + blen (pend ++ [c_dquote])) (cur_byte (scrub X3)) tn
                              ltac:(cbn [List.length] in Hm; lia) ltac:(cbn [List.length] in Hf; lia)
                              (macro_free_tail _ _ (macro_free_tail _ _ Hmf)) HM3 Hsrc3) as (R1 & R2 & R3 & R4 & R5).
                 --- rewrite (mq_litlen _ _ _ _ _ _ HM1). rewrite !blen_app. lia.
                 --- change (cur_byte (scrub X3)) with (cur_byte X3). rewrite (MidQ_cur_byte _ _ _ _ _ _ HM3). rewrite Hlen, Hsrc3. rewrite !blen_app. cbn [blen]. lia.
                 --- exact Hlis3.
                 --- replace (N.min (w_litlen (s_buf s0)) (w_litlen (s_buf X1))) with (w_litlen (s_buf s0))
                       by (rewrite (mq_litlen _ _ _ _ _ _ HM1); lia).
                     pose proof (dq_k_mono m r' X3 (ad ++ pend ++ [c_dquote]) [] (P ++ pend ++ [c_dquote; c_dquote]) (k + 2)) as Hk.
                     set (R := st_dq m X3 r' (ad ++ pend ++ [c_dquote]) [] (P ++ pend ++ [c_dquote; c_dquote]) (k + 2)) in *.
                     replace (N.to_nat (q_k R - k)) with (S (S (N.to_nat (q_k R - (k + 2))))) by lia. cbn [skipn_N].
                     split; [exact R1|]. split; [exact R2|]. split; [exact R3|]. split; [exact R4|exact R5].
              ** (* the closing quote *)
                 change (last_is_start (scrub X)) with (last_is_start X). rewrite Hlis.
                 cbn [q_st q_ad q_P q_closed q_k q_pend]. replace (k - k) with 0 by lia. cbn [N.to_nat skipn_N].
                 subst. split; [reflexivity|]. split; [exact HM|]. split; [exact Hsrc|]. split; [exists (y :: r'); reflexivity|exact Hlis].
        -- unfold advance_, ret. cbn [bindP do run]. rewrite (ex_advance X x r (mq_rest _ _ _ _ _ _ HM)). cbn [run bindP do].
           apply Hone; [apply MidQ_adv; exact HM|exact Hlis].
Qed.


(** ** the second iteration: [dispatch_mode_str_expr] on the first character after the opening quote *)
Lemma run_str_text F X :
  run false (lex_str_expr_text F) X =
  run false (str_expr_text_loop F (w_litlen (s_buf X)) (w_litlen (s_buf X)) (s_ct_byte X)) X.
Proof. unfold lex_str_expr_text, get. cbn [bindP do run]. rewrite ex_get. reflexivity. Qed.

Lemma dq_entry F msep SB ms c' r' P :
  s_modes SB = MStringExpr true :: ms -> lines_pos SB ->
  c_rest (s_cur SB) = c' :: r' -> c_rem (s_cur SB) = blen (c' :: r') ->
  macro_free (c' :: r') = true -> last_is_start SB = true -> (List.length (c' :: r') < F)%nat ->
  s_srclen SB = blen (s_src SB) -> s_src SB = P ++ c' :: r' ->
  let s0 := st_start SB in
  let l := c' :: r' in
  let R := st_dq (S (List.length l)) s0 l [] [] P 0 in
  run false (lex_token F msep c') SB = run false (dq_tail (w_litlen (s_buf s0)) R) (q_st R) /\
  MidQ s0 (q_st R) (q_ad R) [] [] (skipn_N (N.to_nat (q_k R)) l) /\
  s_src s0 = q_P R ++ q_pend R ++ skipn_N (N.to_nat (q_k R)) l /\
  (if q_closed R then exists rest'', skipn_N (N.to_nat (q_k R)) l = c_dquote :: rest'' else skipn_N (N.to_nat (q_k R)) l = []) /\
  last_is_start (q_st R) = true.
Proof.
  intros Hm Hl Hr Hrem Hmf Hlis Hf Hlen Hsrc s0 l R.
  assert (M0 : MidQ s0 s0 [] [] [] l).
  { constructor; try reflexivity.
    - cbn [blen]. rewrite N.add_0_r. reflexivity.
    - exact Hr.
    - exact Hrem.
    - exact Hl. }
  assert (Hlen0 : s_srclen s0 = blen (s_src s0)) by exact Hlen.
  assert (Hsrc0 : s_src s0 = P ++ [] ++ l) by exact Hsrc.
  assert (Hct : s_ct_byte s0 = blen P).
  { change (s_ct_byte s0) with (cur_byte SB). unfold cur_byte. rewrite Hrem, Hlen, Hsrc, blen_app. fold l. lia. }
  assert (Hlis0 : last_is_start s0 = true) by exact Hlis.
  (* the text loop from the start of the token *)
  pose proof (dq_run s0 Hlen0 (S (List.length l)) l s0 [] [] P 0 F (w_litlen (s_buf s0)) (s_ct_byte s0) []
                ltac:(lia) Hf Hmf M0 Hsrc0 ltac:(cbn [blen]; lia) Hct Hlis0) as Htext.
  cbv zeta in Htext. fold R in Htext. rewrite N.sub_0_r in Htext.
  assert (Hstart : run false (lex_token F msep c') SB =
            run false (if c' =? c_dquote then
                         if peek_next (scrub s0) =? c_dquote then lex_str_expr_text F
                         else if last_is_start (scrub s0) then lex_double_quoted_literal PNone
                         else advance_ ;; t <- expr_end_type ;; emit t ;; Lexer1.pop_mode
                       else if c' =? c_amp then b <- lex_macro_var_expr F ;; when (negb b) (lex_str_expr_text F)
                       else if c' =? c_pct then
                         if is_valid_unicode_sas_name_start (peek_next (scrub s0)) then lex_macro_identifier msep false
                         else advance_ ;; lex_str_expr_text F
                       else lex_str_expr_text F) s0).
  { unfold lex_token. cbn [bindP do run]. rewrite (ex_mode _ (MStringExpr true) ms Hm). cbn [run].
    unfold dispatch_mode_str_expr, assert_dbg, start_token, get. cbn [bindP do run].
    rewrite ex_assert. cbn [run]. rewrite (ex_start_token _ Hl). cbn [run]. rewrite ex_get. cbn [run]. reflexivity. }
  rewrite Hstart. clear Hstart.
  destruct (c' =? c_dquote) eqn:Eq.
  - apply N.eqb_eq in Eq. subst c'. unfold peek_next. change (c_rest (s_cur (scrub s0))) with (c_rest (s_cur SB)). rewrite Hr.
    destruct r' as [|y r''].
    + (* the empty literal at the end of the text *)
      change (EOF_CHAR =? c_dquote) with false. cbv iota. change (last_is_start (scrub s0)) with (last_is_start SB). rewrite Hlis.
      subst R l. cbn [st_dq List.length]. change (c_dquote =? c_amp) with false. change (c_dquote =? c_pct) with false.
      change (c_dquote =? NL) with false. change (c_dquote =? c_dquote) with true. cbv iota.
      cbn [q_st q_ad q_P q_closed q_k q_pend N.to_nat skipn_N].
      split; [|split; [exact M0|split; [exact Hsrc0|split; [exists []; reflexivity|exact Hlis0]]]].
      unfold dq_tail, resolve_string_literal_payload. cbn [q_ad q_closed blen]. rewrite N.add_0_r, N.eqb_refl. reflexivity.
    + destruct (y =? c_dquote) eqn:Ey.
      * rewrite run_str_text. exact Htext.
      * change (last_is_start (scrub s0)) with (last_is_start SB). rewrite Hlis.
        subst R l. cbn [st_dq List.length]. change (c_dquote =? c_amp) with false. change (c_dquote =? c_pct) with false.
        change (c_dquote =? NL) with false. change (c_dquote =? c_dquote) with true. cbv iota. rewrite Ey.
        cbn [q_st q_ad q_P q_closed q_k q_pend N.to_nat skipn_N].
        split; [|split; [exact M0|split; [exact Hsrc0|split; [exists (y :: r''); reflexivity|exact Hlis0]]]].
        unfold dq_tail, resolve_string_literal_payload. cbn [q_ad q_closed blen]. rewrite N.add_0_r, N.eqb_refl. reflexivity.
  - destruct (c' =? c_amp) eqn:Ea.
    + apply N.eqb_eq in Ea. subst c'.
      unfold lex_macro_var_expr, assert_dbg, get. cbn [bindP do run]. rewrite ex_assert. cbn [run]. rewrite ex_get. cbn [run].
      change (rest (scrub s0)) with (c_rest (s_cur SB)). rewrite Hr. rewrite (amp_run_not_macro r' Hmf). cbn [negb]. unfold ret, when. cbn [bindP run negb].
      rewrite run_str_text. exact Htext.
    + destruct (c' =? c_pct) eqn:Ep.
      * apply N.eqb_eq in Ep. subst c'.
        assert (Hnn : is_valid_unicode_sas_name_start (peek_next (scrub s0)) = false).
        { unfold peek_next. change (c_rest (s_cur (scrub s0))) with (c_rest (s_cur SB)). rewrite Hr.
          destruct r' as [|x r'']; [reflexivity|]. cbn [macro_free] in Hmf. replace (c_pct =? c_pct) with true in Hmf by reflexivity.
          apply andb_true_iff in Hmf. destruct Hmf as [Hmf _]. apply negb_true_iff, orb_false_iff in Hmf. exact (proj2 Hmf). }
        rewrite Hnn. unfold advance_, ret. cbn [bindP do run]. rewrite (ex_advance s0 c_pct r' Hr). cbn [run bindP do].
        rewrite run_str_text.
        pose proof (MidQ_adv _ _ _ _ _ _ _ M0) as M1.
        assert (Hsrc1 : s_src s0 = P ++ ([] ++ [c_pct]) ++ r') by exact Hsrc.
        pose proof (dq_run s0 Hlen0 (S (List.length r')) r' (st_adv s0 c_pct r') [] ([] ++ [c_pct]) P (0 + 1) F (w_litlen (s_buf s0)) (s_ct_byte s0) []
                      ltac:(lia) ltac:(cbn [List.length] in Hf; lia) (macro_free_tail _ _ Hmf) M1 Hsrc1 ltac:(cbn [blen]; lia) Hct Hlis0) as Ht1.
        cbv zeta in Ht1.
        assert (ER : R = st_dq (S (List.length r')) (st_adv s0 c_pct r') r' [] ([] ++ [c_pct]) P (0 + 1)).
        { subst R l. cbn [List.length]. remember (S (List.length r')) as mm. cbn [st_dq].
          change (c_pct =? c_amp) with false. change (c_pct =? c_pct) with true. reflexivity. }
        rewrite <- ER in Ht1.
        pose proof (dq_k_mono (S (List.length r')) r' (st_adv s0 c_pct r') [] ([] ++ [c_pct]) P (0 + 1)) as Hk. rewrite <- ER in Hk.
        replace (N.to_nat (q_k R)) with (S (N.to_nat (q_k R - (0 + 1)))) by lia. subst l. cbn [skipn_N].
        change (w_litlen (s_buf (st_adv s0 c_pct r'))) with (w_litlen (s_buf s0)).
        change (s_ct_byte (st_adv s0 c_pct r')) with (s_ct_byte s0). exact Ht1.
      * rewrite run_str_text. exact Htext.
Qed.
