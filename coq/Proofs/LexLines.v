(** * The line table of the buffer returned by [lex] *)
From Coq Require Import NArith ZArith List Bool Lia.
From SasLexer Require Import Gen.TokenType Gen.ErrorKind Gen.Channel Model.Base Model.Core Model.Buffer
     Model.Lexer3 Proofs.BufferProofs Proofs.Generic Proofs.LexGeneric Proofs.Lines.
Import ListNotations.
Open Scope N_scope.

(** the first line starts right after a leading BOM *)
Definition first_line (src : list char) : line_info :=
  match src with
  | c :: r => if c =? BOM then mkLine (utf8_len c) 1 else mkLine 0 0
  | [] => mkLine 0 0
  end.

Lemma init_LInv src : LInv (first_line src) src (init src).
Proof.
  intros _. unfold init, first_line.
  destruct src as [|c r].
  - cbn. split; [reflexivity|]. split; [|exact I].
    intros pre E. cbn in *. destruct pre; [reflexivity|discriminate].
  - destruct (c =? BOM) eqn:Eb; cbn -[blen table].
    + split; [reflexivity|]. split; [|exact I].
      intros pre E. cbn -[blen table] in *.
      assert (pre = [c]) by (eapply app_inv_tail; rewrite <- E; reflexivity). subst pre.
      unfold table. cbn [starts_from]. apply N.eqb_eq in Eb. subst c.
      replace (BOM =? NL) with false by reflexivity. cbn [blen]. f_equal. f_equal. lia.
    + split; [reflexivity|]. split; [|exact I].
      intros pre E. cbn -[blen table] in *.
      assert (pre = []) by (eapply app_inv_tail; rewrite <- E; reflexivity). subst pre.
      unfold table. cbn [starts_from]. f_equal. f_equal. lia.
Qed.

Lemma lex_state_LInv cfg src :
  lr_outcome (lex cfg src) = None -> LInv (first_line src) src (lr_state (lex cfg src)).
Proof.
  unfold lex.
  set (ml := main_loop _ _ _).
  pose proof (run_LInv (first_line src) src (dbg cfg) ml (init src) (init_InvPos src) (init_LInv src)) as H1.
  pose proof (run_InvPos (dbg cfg) src ml (init src) (init_InvPos src)) as I1.
  destruct (run (dbg cfg) ml (init src)) as [det s1|site s1]; [|cbn; discriminate].
  cbn [res_inv] in I1. destruct det; [intros _; exact H1|].
  pose proof (run_LInv (first_line src) src (dbg cfg) (finalize_lexing (S (S (N.to_nat (s_nmodes s1))))) s1 I1 H1) as H2.
  destruct (run (dbg cfg) (finalize_lexing _) s1); [intros _; exact H2|cbn; discriminate].
Qed.

Fixpoint count_nl (p : list char) : N :=
  match p with [] => 0 | x :: r => (if x =? NL then 1 else 0) + count_nl r end.

Lemma starts_from_length p : forall b c, len (starts_from b c p) = count_nl p.
Proof.
  induction p as [|x p IH]; intros b c; cbn [starts_from count_nl]; [reflexivity|].
  destruct (x =? NL); [rewrite len_cons, IH; lia|rewrite IH; lia].
Qed.

(** If the run returns with the line monitor on, no pending line feed, and the whole input
    consumed, the line table of the returned buffer is: the first line start, then the
    position right after every line feed of the source, in order. *)
Theorem lex_line_table cfg src :
  let r := lex cfg src in
  lr_outcome r = None ->
  g_lines_ok (s_ghost (lr_state r)) = true ->
  g_line_debt (s_ghost (lr_state r)) = false ->
  c_rest (s_cur (lr_state r)) = [] ->
  b_lines (lr_buffer r) = first_line src :: starts_from 0 0 src.
Proof.
  intros r Ho Ok Debt Rest. subst r.
  destruct (lex_buffer_errors cfg src) as [-> _].
  destruct (lex_state_LInv cfg src Ho Ok) as (L1 & L2 & _).
  specialize (L2 src). rewrite Rest, app_nil_r in L2. specialize (L2 eq_refl). rewrite Debt in L2.
  unfold into_detached. cbn [b_lines].
  destruct (w_lines (s_buf (lr_state (lex cfg src)))) as [|l ls] eqn:E.
  - cbn in L2. discriminate.
  - exact L2.
Qed.

Corollary lex_line_count cfg src :
  let r := lex cfg src in
  lr_outcome r = None ->
  g_lines_ok (s_ghost (lr_state r)) = true ->
  g_line_debt (s_ghost (lr_state r)) = false ->
  c_rest (s_cur (lr_state r)) = [] ->
  len (b_lines (lr_buffer r)) = 1 + count_nl src.
Proof.
  intros r Ho Ok Debt Rest. subst r. rewrite (lex_line_table cfg src Ho Ok Debt Rest).
  rewrite len_cons, starts_from_length. lia.
Qed.
