(** * The line table of the buffer returned by [lex] *)
From Coq Require Import NArith ZArith List Bool Lia.
From SasLexer Require Import Gen.TokenType Gen.ErrorKind Gen.Channel Model.Base Model.Core Model.Buffer
     Model.Lexer3 Proofs.BufferProofs Proofs.Generic Proofs.LexGeneric Proofs.Lines.
Import ListNotations.
Open Scope N_scope.

Definition line0 : line_info := mkLine 0 0.

(** the first line starts right after a leading BOM *)
Definition first_line (src : list char) : line_info :=
  match src with
  | c :: r => if c =? BOM then mkLine (utf8_len c) 1 else mkLine 0 0
  | [] => mkLine 0 0
  end.

Lemma init_LInv text : LInv line0 text (init text).
Proof.
  intros _. unfold init. cbn -[blen table]. split; [reflexivity|]. split; [|exact I].
  intros pre E. cbn -[blen table] in *.
  assert (pre = []) by (eapply app_inv_tail; rewrite <- E; reflexivity). subst pre. reflexivity.
Qed.

Lemma lex_text_state_LInv cfg bb bc text :
  lr_outcome (lex_text cfg bb bc text) = None -> LInv line0 text (lr_state (lex_text cfg bb bc text)).
Proof.
  unfold lex_text.
  match goal with |- context [run (dbg cfg) ?p (init text)] => set (ml := p) end.
  pose proof (run_LInv line0 text (dbg cfg) ml (init text) (init_InvPos text) (init_LInv text)) as H1.
  pose proof (run_InvPos (dbg cfg) text ml (init text) (init_InvPos text)) as I1.
  destruct (run (dbg cfg) ml (init text)) as [det s1|site s1]; [|cbn; discriminate].
  cbn [res_inv] in I1. destruct det; [intros _; exact H1|].
  pose proof (run_LInv line0 text (dbg cfg) (finalize_lexing (S (S (N.to_nat (s_nmodes s1))))) s1 I1 H1) as H2.
  destruct (run (dbg cfg) (finalize_lexing _) s1); [intros _; exact H2|cbn; discriminate].
Qed.

Fixpoint count_nl (p : list char) : N :=
  match p with [] => 0 | x :: r => (if x =? NL then 1 else 0) + count_nl r end.

Lemma starts_from_length p : forall b c, len (starts_from b c p) = count_nl p.
Proof.
  induction p as [|x p IH]; intros b c; cbn [starts_from count_nl]; [reflexivity|].
  destruct (x =? NL); [rewrite len_cons, IH; lia|rewrite IH; lia].
Qed.

Lemma starts_from_shift bb bc p : forall b c,
  map (shift_line bb bc) (starts_from b c p) = starts_from (b + bb) (c + bc) p.
Proof.
  induction p as [|x p IH]; intros b c; cbn [starts_from map]; [reflexivity|].
  destruct (x =? NL); cbn [map]; rewrite IH; unfold shift_line; cbn [l_byte l_start].
  - f_equal; [f_equal; lia|f_equal; lia].
  - f_equal; lia.
Qed.

(** the text of a source and its line starts in absolute terms *)
Lemma split_bom_table src bb bc text :
  split_bom src = ((bb, bc), text) ->
  first_line src = mkLine bb bc /\ starts_from 0 0 src = starts_from bb bc text /\ count_nl src = count_nl text.
Proof.
  unfold split_bom, first_line. destruct src as [|c r].
  - intros H; inversion H; subst. repeat split.
  - destruct (c =? BOM) eqn:Eb; intros H; inversion H; subst.
    + apply N.eqb_eq in Eb. subst c. cbn [starts_from count_nl]. replace (BOM =? NL) with false by reflexivity.
      repeat split.
    + repeat split.
Qed.

(** If the run returns with the line monitor on, no pending line feed, and the whole input
    consumed, the line table of the returned buffer is: the first line start (after a BOM),
    then the position right after every line feed of the source, in order. *)
Theorem lex_line_table cfg src :
  let r := lex cfg src in
  lr_outcome r = None ->
  g_lines_ok (s_ghost (lr_state r)) = true ->
  g_line_debt (s_ghost (lr_state r)) = false ->
  c_rest (s_cur (lr_state r)) = [] ->
  b_lines (lr_buffer r) = first_line src :: starts_from 0 0 src.
Proof.
  cbv zeta. unfold lex. destruct (split_bom src) as [[bb bc] text] eqn:Es.
  destruct (split_bom_table _ _ _ _ Es) as (-> & -> & _).
  intros Ho Ok Debt Rest.
  destruct (lex_text_buffer_errors cfg bb bc text) as [-> _].
  destruct (lex_text_state_LInv cfg bb bc text Ho Ok) as (L1 & L2 & _).
  specialize (L2 text). rewrite Rest, app_nil_r in L2. specialize (L2 eq_refl). rewrite Debt in L2.
  unfold into_detached. cbn [b_lines].
  destruct (w_lines (s_buf (lr_state (lex_text cfg bb bc text)))) as [|l ls] eqn:E.
  - cbn in L2. discriminate.
  - rewrite L2. unfold table. cbn [map]. rewrite starts_from_shift. reflexivity.
Qed.

Corollary lex_line_count cfg src :
  let r := lex cfg src in
  lr_outcome r = None ->
  g_lines_ok (s_ghost (lr_state r)) = true ->
  g_line_debt (s_ghost (lr_state r)) = false ->
  c_rest (s_cur (lr_state r)) = [] ->
  len (b_lines (lr_buffer r)) = 1 + count_nl src.
Proof.
  intros r Ho Ok Debt Rest. subst r. rewrite (lex_line_table cfg src Ho Ok Debt Rest).
  rewrite len_cons, starts_from_length. lia.
Qed.
