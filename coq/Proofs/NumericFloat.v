(** * Decimal float readings (C08): [dec_to_b64] and [try_parse_float] return the IEEE-754
    binary64 nearest (ties to even) to the decimal value written in the source. *)
From Coq Require Import NArith ZArith List Bool Lia Reals Lra.
From Flocq Require Import Core.
From SasLexer Require Import Gen.TokenType Gen.ErrorKind Gen.Channel Model.Base Model.Helpers Model.Numeric
     Proofs.NumericInt Proofs.RoundProofs.
Import ListNotations.
Local Open Scope R_scope.

Definition radix10 : radix := Build_radix 10 eq_refl.

(** the real number [m * 10^e] *)
Definition dec_real (m : N) (e : Z) : R := IZR (Z.of_N m) * bpow radix10 e.

(** what "correctly rounded" means for a bit pattern *)
Definition is_b64_of (bits : N) (x : R) : Prop :=
  (b64_round x < bpow radix2 1024 -> (bits < INF_BITS)%N /\ b64_value bits = b64_round x) /\
  (bpow radix2 1024 <= b64_round x -> bits = INF_BITS).

Lemma pow10_R p : IZR (Z.of_N (pow10 (N.pos p))) = bpow radix10 (Z.pos p).
Proof. unfold pow10. rewrite N2Z.inj_pow. rewrite <- (IZR_Zpower radix10) by lia. reflexivity. Qed.

Lemma pow10_pos k : (0 < pow10 k)%N.
Proof. unfold pow10. apply N.neq_0_lt_0. apply N.pow_nonzero. discriminate. Qed.

Lemma b64_round_small x : 0 < x < bpow radix2 (-1075) -> b64_round x = 0.
Proof.
  intros [H0 H1]. unfold b64_round, round, F2R, scaled_mantissa. cbn [Fnum Fexp].
  assert (Hc : cexp radix2 b64_fmt x = (-1074)%Z).
  { apply cexp_subnormal; [exact H0|].
    apply Rlt_trans with (bpow radix2 (-1075) * bpow radix2 1074).
    - apply Rmult_lt_compat_r; [apply bpow_gt_0|exact H1].
    - rewrite <- bpow_plus. apply bpow_lt. lia. }
  rewrite Hc.
  assert (Hz : ZnearestE (x * bpow radix2 (- -1074)) = 0%Z).
  { apply Znearest_imp. rewrite Rminus_0_r. rewrite Rabs_pos_eq.
    - apply Rlt_le_trans with (bpow radix2 (-1075) * bpow radix2 1074).
      + apply Rmult_lt_compat_r; [apply bpow_gt_0|exact H1].
      + rewrite <- bpow_plus. change (bpow radix2 (-1075 + 1074)) with (/ 2). lra.
    - apply Rmult_le_pos; [lra|apply bpow_ge_0]. }
  rewrite Hz. ring.
Qed.

Lemma b64_round_huge x : bpow radix2 1024 <= x -> bpow radix2 1024 <= b64_round x.
Proof.
  intros H. apply round_ge_generic; [apply FLT_exp_valid; reflexivity|apply valid_rnd_N| |exact H].
  apply generic_format_bpow. unfold b64_fmt, FLT_exp. lia.
Qed.

Lemma big_pow_facts :
  bpow radix2 1024 <= bpow radix10 400 /\ bpow radix10 (-401) < bpow radix2 (-1075).
Proof.
  split.
  - rewrite <- (IZR_Zpower radix2) by lia. rewrite <- (IZR_Zpower radix10) by lia.
    apply IZR_le. vm_compute. discriminate.
  - change (-401)%Z with (- (401))%Z. change (-1075)%Z with (- (1075))%Z. rewrite !bpow_opp.
    apply Rinv_lt_contravar.
    + apply Rmult_lt_0_compat; apply bpow_gt_0.
    + rewrite <- (IZR_Zpower radix2) by lia. rewrite <- (IZR_Zpower radix10) by lia.
      apply IZR_lt. vm_compute. reflexivity.
Qed.

Theorem dec_to_b64_correct m nd e10 :
  (m = 0%N \/ (1 <= nd /\ 10 ^ (nd - 1) <= m < 10 ^ nd)%N) ->
  is_b64_of (dec_to_b64 m nd e10) (dec_real m e10).
Proof.
  intros Hm. unfold dec_to_b64.
  destruct (N.eqb_spec m 0) as [E0|E0].
  { subst m. unfold dec_real, is_b64_of. cbn [Z.of_N]. rewrite Rmult_0_l.
    unfold b64_round. rewrite round_0 by apply valid_rnd_N. split.
    - intros _. split; [reflexivity|]. unfold b64_value. cbn. ring.
    - intros H. exfalso. pose proof (bpow_gt_0 radix2 1024). lra. }
  destruct Hm as [Hm|(Hnd & Hlo & Hhi)]; [contradiction|].
  assert (Hmr_lo : bpow radix10 (Z.of_N nd - 1) <= IZR (Z.of_N m)).
  { replace (Z.of_N nd - 1)%Z with (Z.of_N (nd - 1)) by lia.
    rewrite <- (IZR_Zpower radix10) by lia. apply IZR_le.
    change (Zpower radix10 (Z.of_N (nd - 1))) with (10 ^ Z.of_N (nd - 1))%Z.
    change 10%Z with (Z.of_N 10). rewrite <- N2Z.inj_pow. lia. }
  assert (Hmr_hi : IZR (Z.of_N m) < bpow radix10 (Z.of_N nd)).
  { rewrite <- (IZR_Zpower radix10) by lia. apply IZR_lt.
    change (Zpower radix10 (Z.of_N nd)) with (10 ^ Z.of_N nd)%Z.
    change 10%Z with (Z.of_N 10). rewrite <- N2Z.inj_pow. lia. }
  destruct big_pow_facts as [BIG SMALL].
  destruct (Z.ltb_spec 400 (e10 + Z.of_N nd)) as [L1|L1].
  { (* certainly infinite *)
    assert (Hx : bpow radix2 1024 <= dec_real m e10).
    { unfold dec_real. apply Rle_trans with (bpow radix10 400); [exact BIG|].
      apply Rle_trans with (bpow radix10 (Z.of_N nd - 1) * bpow radix10 e10).
      - rewrite <- bpow_plus. apply bpow_le. lia.
      - apply Rmult_le_compat_r; [apply bpow_ge_0|exact Hmr_lo]. }
    pose proof (b64_round_huge _ Hx) as Hr. split; [intros C; lra|reflexivity]. }
  destruct (Z.ltb_spec (e10 + Z.of_N nd) (-400)) as [L2|L2].
  { (* certainly zero *)
    assert (Hpos : 0 < dec_real m e10).
    { unfold dec_real. apply Rmult_lt_0_compat; [apply IZR_lt; lia|apply bpow_gt_0]. }
    assert (Hx : dec_real m e10 < bpow radix2 (-1075)).
    { unfold dec_real. apply Rlt_trans with (bpow radix10 (-401)); [|exact SMALL].
      apply Rlt_le_trans with (bpow radix10 (Z.of_N nd) * bpow radix10 e10).
      - apply Rmult_lt_compat_r; [apply bpow_gt_0|exact Hmr_hi].
      - rewrite <- bpow_plus. apply bpow_le. lia. }
    rewrite (b64_round_small _ (conj Hpos Hx)) || (unfold is_b64_of; rewrite (b64_round_small _ (conj Hpos Hx))).
    split.
    - intros _. split; [reflexivity|]. unfold b64_value. cbn. ring.
    - intros H. exfalso. pose proof (bpow_gt_0 radix2 1024). lra. }
  (* the general case: an exact rational handed to [round_b64] *)
  destruct e10 as [|p|p].
  - replace (dec_real m 0) with (QR m 1).
    + apply (round_b64_correct m 1). reflexivity.
    + unfold dec_real, QR. cbn [bpow Z.of_N]. field.
  - replace (dec_real m (Z.pos p)) with (QR (m * pow10 (N.pos p)) 1).
    + apply (round_b64_correct (m * pow10 (N.pos p)) 1). reflexivity.
    + unfold dec_real, QR. rewrite N2Z.inj_mul, mult_IZR, pow10_R. cbn [Z.of_N]. field.
  - replace (dec_real m (Z.neg p)) with (QR m (pow10 (N.pos p))).
    + apply (round_b64_correct m (pow10 (N.pos p))). apply pow10_pos.
    + unfold dec_real, QR. rewrite pow10_R. change (Z.neg p) with (- Z.pos p)%Z. rewrite bpow_opp. reflexivity.
Qed.

(** ** The float reading of a decimal literal text *)
Lemma tw_app (p : char -> bool) a r :
  forallb p a = true -> match r with c :: _ => p c = false | [] => True end ->
  take_while p (a ++ r) = a /\ drop_while p (a ++ r) = r.
Proof.
  intros Ha Hr. induction a as [|x a IH]; cbn [app take_while drop_while].
  - destruct r as [|c r]; [split; reflexivity|]. cbn [take_while drop_while]. rewrite Hr. split; reflexivity.
  - cbn [forallb] in Ha. apply andb_true_iff in Ha. destruct Ha as [Hx Ha]. rewrite Hx.
    destruct (IH Ha) as [I1 I2]. rewrite I1, I2. split; reflexivity.
Qed.

Lemma sig_digits l : forallb is_ascii_digit l = true ->
  let m := pos_value 10 digit_val l in
  let nd := len (drop_while (fun c => (c =? 48)%N) l) in
  m = 0%N \/ (1 <= nd /\ 10 ^ (nd - 1) <= m < 10 ^ nd)%N.
Proof.
  induction l as [|c r IH]; intros H; [left; reflexivity|].
  cbn [forallb] in H. apply andb_true_iff in H. destruct H as [Hc Hr].
  cbv zeta. cbn [drop_while pos_value].
  destruct (digit_val_spec c Hc) as [Hd Hcv].
  destruct (N.eqb_spec c 48%N) as [E|E].
  - assert (digit_val c = 0%N) by lia. rewrite H. rewrite N.mul_0_l, N.add_0_l. apply IH. exact Hr.
  - right. rewrite len_cons. replace (len r + 1 - 1)%N with (len r) by lia.
    assert (Hb : (pos_value 10 digit_val r < 10 ^ len r)%N).
    { apply pos_value_bound; [lia|]. intros x Hx. apply digit_val_spec.
      rewrite forallb_forall in Hr. apply Hr. exact Hx. }
    assert (1 <= digit_val c)%N by lia.
    rewrite N.pow_add_r, N.pow_1_r. split; [lia|]. split; nia.
Qed.

Definition sign_text (s : option bool) : list char :=
  match s with None => [] | Some false => [c_plus] | Some true => [c_minus] end.
Definition sign_Z (s : option bool) : Z := match s with Some true => (-1)%Z | _ => 1%Z end.

(** a literal spelled [ip][.fp][(e|E)[+|-]eds] followed by [rest] *)
Definition float_text (ip : list char) (dot : bool) (fp : list char)
           (ex : option (char * option bool * list char)) (rest : list char) : list char :=
  ip ++ (if dot then c_dot :: fp else []) ++
  (match ex with Some (mk, sg, eds) => mk :: sign_text sg ++ eds | None => [] end) ++ rest.

Definition not_digit_head (r : list char) : Prop :=
  match r with c :: _ => is_ascii_digit c = false | [] => True end.
Definition not_exp_head (r : list char) : Prop :=
  match r with c :: _ => (c =? c_e)%N = false /\ (c =? c_E)%N = false | [] => True end.
Definition not_dot_head (r : list char) : Prop :=
  match r with c :: _ => (c =? c_dot)%N = false | [] => True end.

Definition float_text_ok ip dot fp (ex : option (char * option bool * list char)) rest : Prop :=
  forallb is_ascii_digit ip = true /\ forallb is_ascii_digit fp = true /\
  (dot = false -> fp = []) /\ (ip ++ fp <> []) /\
  match ex with
  | Some (mk, sg, eds) =>
    (mk = c_e \/ mk = c_E) /\ forallb is_ascii_digit eds = true /\ eds <> [] /\
    (len (drop_while (fun c => (c =? 48)%N) eds) <= 6)%N /\ not_digit_head rest
  | None => not_digit_head rest /\ not_exp_head rest /\ (dot = false -> not_dot_head rest)
  end.

Definition float_text_exp (ex : option (char * option bool * list char)) : Z :=
  match ex with Some (_, sg, eds) => (sign_Z sg * Z.of_N (pos_value 10 digit_val eds))%Z | None => 0%Z end.

Definition float_text_len (ip : list char) (dot : bool) (fp : list char) (ex : option (char * option bool * list char)) : N :=
  (len ip + (if dot then 1 + len fp else 0) +
   match ex with Some (_, sg, eds) => 1 + len (sign_text sg) + len eds | None => 0 end)%N.

Lemma pos_value_drop_zeros l :
  pos_value 10 digit_val (drop_while (fun c => (c =? 48)%N) l) = pos_value 10 digit_val l.
Proof.
  induction l as [|c r IH]; [reflexivity|]. cbn [drop_while pos_value].
  destruct (N.eqb_spec c 48%N) as [E|E]; [|reflexivity].
  rewrite IH. subst c. change (digit_val 48%N) with 0%N. lia.
Qed.

Lemma exp_val_spec eds : (len (drop_while (fun c => (c =? 48)%N) eds) <= 6)%N ->
  exp_val eds = Z.of_N (pos_value 10 digit_val eds).
Proof.
  intros H. unfold exp_val. cbv zeta. destruct (N.ltb_spec 6 (len (drop_while (fun c => (c =? 48)%N) eds))); [lia|].
  rewrite digits_val_is_positional, pos_value_drop_zeros. reflexivity.
Qed.

Lemma digit_not c : is_ascii_digit c = true ->
  (c =? c_minus)%N = false /\ (c =? c_plus)%N = false /\ (c =? c_dot)%N = false /\ (c =? c_e)%N = false /\ (c =? c_E)%N = false.
Proof.
  intros H. destruct (digit_val_spec c H) as [H1 H2]. unfold c_minus, c_plus, c_dot, c_e, c_E.
  repeat split; apply N.eqb_neq; lia.
Qed.

(** the tail after the mantissa *)
Definition ex_text (ex : option (char * option bool * list char)) (rest : list char) : list char :=
  match ex with Some (mk, sg, eds) => mk :: sign_text sg ++ eds | None => [] end ++ rest.

Lemma ex_text_head ex rest ip dot fp : float_text_ok ip dot fp ex rest -> not_digit_head (ex_text ex rest).
Proof.
  intros (_ & _ & _ & _ & H). unfold ex_text. destruct ex as [[[mk sg] eds]|].
  - destruct H as ([->| ->] & _). all: cbn [app not_digit_head]; reflexivity.
  - cbn [app]. exact (proj1 H).
Qed.

Lemma mantissa_scan ip dot fp ex rest : float_text_ok ip dot fp ex rest ->
  let l := float_text ip dot fp ex rest in
  take_while is_ascii_digit l = ip /\
  (match drop_while is_ascii_digit l with
   | c :: r => if (c =? c_dot)%N then (true, take_while is_ascii_digit r, drop_while is_ascii_digit r)
               else (false, [], drop_while is_ascii_digit l)
   | [] => (false, [], drop_while is_ascii_digit l)
   end) = (dot, fp, ex_text ex rest).
Proof.
  intros Hok. pose proof (ex_text_head _ _ _ _ _ Hok) as Hh.
  destruct Hok as (Hip & Hfp & Hdf & Hne & Hex). cbv zeta. unfold float_text.
  fold (ex_text ex rest).
  destruct dot.
  - destruct (tw_app is_ascii_digit ip ((c_dot :: fp) ++ ex_text ex rest) Hip ltac:(reflexivity)) as [T1 T2].
    rewrite T1, T2. split; [reflexivity|].
    cbn [app]. replace (c_dot =? c_dot)%N with true by reflexivity.
    destruct (tw_app is_ascii_digit fp (ex_text ex rest) Hfp Hh) as [U1 U2]. rewrite U1, U2. reflexivity.
  - rewrite (Hdf eq_refl). cbn [app].
    destruct (tw_app is_ascii_digit ip (ex_text ex rest) Hip Hh) as [T1 T2]. rewrite T1, T2. split; [reflexivity|].
    unfold ex_text in *. destruct ex as [[[mk sg] eds]|].
    + destruct Hex as ([->| ->] & _); cbn [app]; reflexivity.
    + cbn [app] in *. destruct Hex as (_ & _ & Hd). specialize (Hd eq_refl).
      destruct rest as [|c r]; [reflexivity|]. cbn [not_dot_head] in Hd. rewrite Hd. reflexivity.
Qed.

Lemma float_text_head ip dot fp ex rest : float_text_ok ip dot fp ex rest ->
  match float_text ip dot fp ex rest with c :: _ => (c =? c_minus)%N = false | [] => False end.
Proof.
  intros (Hip & Hfp & Hdf & Hne & Hex). unfold float_text.
  destruct ip as [|d ip'].
  - destruct dot; [reflexivity|]. rewrite (Hdf eq_refl) in Hne. contradiction.
  - cbn [app]. cbn [forallb] in Hip. apply andb_true_iff in Hip. apply (digit_not d (proj1 Hip)).
Qed.

(** the exponent part *)
Lemma exponent_scan mk sg eds rest :
  (mk = c_e \/ mk = c_E) -> forallb is_ascii_digit eds = true -> eds <> [] -> not_digit_head rest ->
  ((mk =? c_e)%N || (mk =? c_E)%N = true) /\
  (match sign_text sg ++ eds ++ rest with
   | x :: q => if (x =? c_plus)%N then (1%Z, 1%N, q) else if (x =? c_minus)%N then ((-1)%Z, 1%N, q) else (1%Z, 0%N, sign_text sg ++ eds ++ rest)
   | [] => (1%Z, 0%N, sign_text sg ++ eds ++ rest)
   end) = (sign_Z sg, len (sign_text sg), eds ++ rest) /\
  take_while is_ascii_digit (eds ++ rest) = eds.
Proof.
  intros Hmk He Hne Hr. split; [destruct Hmk as [->| ->]; reflexivity|]. split.
  - destruct sg as [[|]|]; cbn [sign_text app sign_Z].
    + reflexivity.
    + reflexivity.
    + destruct eds as [|d eds']; [contradiction|]. cbn [app forallb] in *.
      apply andb_true_iff in He. destruct (digit_not d (proj1 He)) as (A & B & _). rewrite B, A. reflexivity.
  - apply (tw_app is_ascii_digit eds rest He Hr).
Qed.

Lemma neg_scan (l : list char) :
  match l with c :: _ => (c =? c_minus)%N = false | [] => False end ->
  (match l with c :: r => if (c =? c_minus)%N then (true, r) else (false, l) | [] => (false, l) end) = (false, l).
Proof. destruct l as [|c r]; [contradiction|]. intros H. rewrite H. reflexivity. Qed.

Theorem try_parse_float_correct ip dot fp ex rest : float_text_ok ip dot fp ex rest ->
  exists bits,
    try_parse_float (float_text ip dot fp ex rest) =
      Some (mkNum (match ex with Some _ => T_FloatExponentLiteral | None => T_FloatLiteral end)
                  (PFloat bits) (float_text_len ip dot fp ex) None) /\
    is_b64_of bits (dec_real (pos_value 10 digit_val (ip ++ fp)) (float_text_exp ex - Z.of_N (len fp))).
Proof.
  intros Hok.
  pose proof (float_text_head _ _ _ _ _ Hok) as Hhead.
  destruct (mantissa_scan _ _ _ _ _ Hok) as [M1 M2]. cbv zeta in M1, M2.
  pose proof Hok as (Hip & Hfp & Hdf & Hne & Hex).
  exists (dec_to_b64 (pos_value 10 digit_val (ip ++ fp)) (len (drop_while (fun c => (c =? 48)%N) (ip ++ fp)))
                     (float_text_exp ex - Z.of_N (len fp))).
  split.
  2: { apply dec_to_b64_correct. apply sig_digits. rewrite forallb_app, Hip, Hfp. reflexivity. }
  unfold try_parse_float. rewrite (neg_scan _ Hhead).
  cbv zeta. rewrite M1. rewrite M2.
  assert (Hnn : match ip, fp with [], [] => False | _, _ => True end).
  { destruct ip; [destruct fp; [apply Hne; reflexivity|exact I]|exact I]. }
  rewrite !digits_val_is_positional.
  assert (Hmant : ((if false then 1 else 0) + len ip + (if dot then 1 + len fp else 0) = len ip + (if dot then 1 + len fp else 0))%N) by (cbn; lia).
  unfold ex_text, float_text_len, float_text_exp.
  destruct ex as [[[mk sg] eds]|].
  - destruct Hex as (Hmk & He & Hene & Hsig & Hrest).
    destruct (exponent_scan mk sg eds rest Hmk He Hene Hrest) as (X1 & X2 & X3).
    cbn [app]. rewrite <- app_assoc. rewrite X1. rewrite X2. rewrite X3.
    rewrite (exp_val_spec eds Hsig).
    destruct eds as [|e0 eds']; [contradiction|].
    destruct ip as [|i0 ip']; [destruct fp as [|f0 fp']; [contradiction|]|];
      cbv iota; f_equal; f_equal; try (f_equal; lia); try (cbn [N.add]; lia).
  - cbn [app]. destruct Hex as (Hr1 & Hr2 & _).
    destruct rest as [|c r].
    + destruct ip as [|i0 ip']; [destruct fp as [|f0 fp']; [contradiction|]|];
        cbv iota; f_equal; f_equal; try (f_equal; lia); try (cbn [N.add]; lia).
    + cbn [not_exp_head] in Hr2. destruct Hr2 as [A B]. rewrite A, B. cbn [orb].
      destruct ip as [|i0 ip']; [destruct fp as [|f0 fp']; [contradiction|]|];
        cbv iota; f_equal; f_equal; try (f_equal; lia); try (cbn [N.add]; lia).
Qed.
