(** * C05: the bulk resolved view equals the per-token accessors on every well-formed buffer. *)
From Coq Require Import NArith List Bool Lia.
From SasLexer Require Import Gen.TokenType Gen.ErrorKind Gen.Channel Model.Base Model.Buffer.
Import ListNotations.
Open Scope N_scope.

(** ** [nthN] facts *)
Lemma nthN_nil {A} (n : N) : @nthN A [] n = None.
Proof. reflexivity. Qed.

Lemma nthN_cons_succ {A} (x : A) l n : nthN (x :: l) (n + 1) = nthN l n.
Proof.
  cbn [nthN]. destruct (N.eqb_spec (n + 1) 0) as [E|_]; [lia|].
  replace (N.pred (n + 1)) with n by lia. reflexivity.
Qed.

Lemma len_cons {A} (x : A) l : len (x :: l) = len l + 1.
Proof. unfold len. cbn [List.length]. lia. Qed.

Lemma len_app {A} (l1 l2 : list A) : len (l1 ++ l2) = len l1 + len l2.
Proof. unfold len. rewrite app_length. lia. Qed.

Lemma len_nil {A} : len (@nil A) = 0.
Proof. reflexivity. Qed.

Lemma nthN_app_len {A} (pre : list A) x rest : nthN (pre ++ x :: rest) (len pre) = Some x.
Proof.
  induction pre as [|p pre IH]; cbn [app].
  - reflexivity.
  - rewrite len_cons, nthN_cons_succ. exact IH.
Qed.

Lemma nthN_app_len_plus {A} (pre : list A) rest n :
  nthN (pre ++ rest) (len pre + n) = nthN rest n.
Proof.
  induction pre as [|p pre IH]; cbn [app].
  - rewrite len_nil. f_equal.
  - rewrite len_cons. replace (len pre + 1 + n) with ((len pre + n) + 1) by lia.
    rewrite nthN_cons_succ. exact IH.
Qed.

Lemma nthN_lt {A} (l : list A) n x : nthN l n = Some x -> n < len l.
Proof.
  revert n; induction l as [|y l IH]; intros n H; [discriminate|].
  cbn [nthN] in H. rewrite len_cons.
  destruct (N.eqb_spec n 0) as [E|Hn]; [lia|].
  apply IH in H. lia.
Qed.

Lemma nthN_some {A} (l : list A) n : n < len l -> exists x, nthN l n = Some x.
Proof.
  revert n; induction l as [|y l IH]; intros n H.
  - rewrite len_nil in H. lia.
  - rewrite len_cons in H. cbn [nthN].
    destruct (N.eqb_spec n 0) as [E|Hn]; [eauto|].
    apply IH. lia.
Qed.

(** ** Well-formed buffers *)
Record WFbuf (b : tbuf) : Prop := {
  wf_nonempty : b_toks b <> [];
  wf_tok_line : forall i t, nthN (b_toks b) i = Some t ->
      exists li, nthN (b_lines b) (t_line t) = Some li /\
                 l_byte li <= t_byte t /\ l_start li <= t_start t;
  wf_sorted : forall i t u, nthN (b_toks b) i = Some t -> nthN (b_toks b) (i + 1) = Some u ->
      t_byte t <= t_byte u;
  wf_lines_sorted : forall i j a c, i <= j ->
      nthN (b_lines b) i = Some a -> nthN (b_lines b) j = Some c ->
      l_byte a <= l_byte c /\ l_start a <= l_start c
}.

Section C05.
  Variable d : bool.
  Variable b : tbuf.
  Hypothesis WF : WFbuf b.

  Lemma sub32_ok x y : y <= x -> sub32 d x y = AOk (x - y).
  Proof. intros H. unfold sub32. destruct (N.leb_spec y x); [reflexivity|lia]. Qed.

  Lemma osub_ok x y : y <= x -> osub d x y = Some (x - y).
  Proof. intros H. unfold osub. rewrite sub32_ok by exact H. reflexivity. Qed.

  Lemma idx_assert_ok {A} i (k : ares A) : i < n_toks b -> idx_assert d b i k = k.
  Proof.
    intros H. unfold idx_assert. destruct (N.ltb_spec i (n_toks b)); [|lia].
    rewrite andb_false_r. reflexivity.
  Qed.

  (** the row the bulk view computes for a non-last token *)
  Lemma row_mid pre cur nt rest :
    b_toks b = pre ++ cur :: nt :: rest ->
    exists nli eidx cli eli,
      nthN (b_lines b) (t_line nt) = Some nli /\
      osub d (t_line nt)
           (if (t_byte nt =? l_byte nli) && (t_byte cur <? t_byte nt) then 1 else 0) = Some eidx /\
      nthN (b_lines b) (t_line cur) = Some cli /\
      nthN (b_lines b) eidx = Some eli /\
      l_start cli <= t_start cur /\ l_start eli <= t_start nt /\
      row_of_accessors d b (len pre) =
        AOk (mkRow (t_chan cur) (t_type cur) (len pre) (t_start cur) (t_start nt)
                   (t_line cur + 1) (t_start cur - l_start cli) (eidx + 1)
                   (t_start nt - l_start eli) (t_payload cur)).
  Proof.
    intros E.
    assert (Hcur : nthN (b_toks b) (len pre) = Some cur) by (rewrite E; apply nthN_app_len).
    assert (Hnt : nthN (b_toks b) (len pre + 1) = Some nt).
    { rewrite E. rewrite nthN_app_len_plus. rewrite nthN_cons_succ with (n := 0). reflexivity. }
    assert (Hn : n_toks b = len pre + 2 + len rest).
    { unfold n_toks. rewrite E, len_app, !len_cons. lia. }
    destruct (wf_tok_line b WF _ _ Hcur) as (cli & Hcli & Hcb & Hcs).
    destruct (wf_tok_line b WF _ _ Hnt) as (nli & Hnli & Hnb & Hns).
    pose proof (wf_sorted b WF _ _ _ Hcur Hnt) as Hsort.
    set (c := (t_byte nt =? l_byte nli) && (t_byte cur <? t_byte nt)).
    (* if the condition holds the next token is not on line 0 *)
    assert (Hline : c = true -> 1 <= t_line nt).
    { unfold c. intros Hc. apply andb_true_iff in Hc. destruct Hc as [Hb Hlt].
      apply N.eqb_eq in Hb. apply N.ltb_lt in Hlt.
      destruct (N.eq_dec (t_line nt) 0) as [Z|NZ]; [|lia].
      exfalso. rewrite Z in Hnli.
      destruct (wf_lines_sorted b WF 0 (t_line cur) nli cli ltac:(lia) Hnli Hcli) as [Hle _]. lia. }
    set (k := if c then 1 else 0).
    assert (Hk : k <= t_line nt) by (unfold k; destruct c; [apply Hline; reflexivity | lia]).
    set (eidx := t_line nt - k).
    assert (Heidx_lt : eidx < len (b_lines b)).
    { apply nthN_lt in Hnli. unfold eidx. lia. }
    destruct (nthN_some _ _ Heidx_lt) as (eli & Heli).
    destruct (wf_lines_sorted b WF eidx (t_line nt) eli nli ltac:(unfold eidx; lia) Heli Hnli) as [_ Hes0].
    assert (Hes : l_start eli <= t_start nt) by lia.
    exists nli, eidx, cli, eli.
    repeat split; try assumption; try lia.
    - apply osub_ok. exact Hk.
    - (* the accessors *)
      assert (Hi : len pre < n_toks b) by lia.
      assert (Hel : t_line nt + (if (l_byte nli <? t_byte nt) || (t_byte cur =? t_byte nt) then 1 else 0)
                    = eidx + 1).
      { clear - Hnb Hsort Hline. subst eidx k.
        assert (Hc : c = (t_byte nt =? l_byte nli) && (t_byte cur <? t_byte nt)) by reflexivity.
        destruct c.
        - specialize (Hline eq_refl). symmetry in Hc. apply andb_true_iff in Hc. destruct Hc as [Hb Hlt].
          apply N.eqb_eq in Hb. apply N.ltb_lt in Hlt.
          destruct (N.ltb_spec (l_byte nli) (t_byte nt)); [lia|].
          destruct (N.eqb_spec (t_byte cur) (t_byte nt)); [lia|]. cbn [orb]. lia.
        - symmetry in Hc. apply andb_false_iff in Hc.
          destruct (N.ltb_spec (l_byte nli) (t_byte nt)); [cbn [orb]; lia|].
          destruct (N.eqb_spec (t_byte cur) (t_byte nt)); [cbn [orb]; lia|].
          exfalso. destruct Hc as [Hc|Hc]; [apply N.eqb_neq in Hc | apply N.ltb_ge in Hc]; lia. }
      assert (Hend : get_token_end d b (len pre) = AOk (t_start nt)).
      { unfold get_token_end. rewrite idx_assert_ok by exact Hi.
        destruct (N.ltb_spec (len pre + 1) (n_toks b)) as [_|]; [|lia].
        unfold get_tok. rewrite Hnt. reflexivity. }
      assert (Hendline : get_token_end_line d b (len pre) = AOk (eidx + 1)).
      { unfold get_token_end_line, get_token_start_byte_offset, get_token_end_byte_offset.
        rewrite !idx_assert_ok by exact Hi.
        destruct (N.eqb_spec (n_toks b) 0) as [|_]; [lia|].
        destruct (N.eqb_spec (len pre) (n_toks b - 1)) as [|_]; [lia|].
        rewrite Hnt, Hnli.
        destruct (N.ltb_spec (len pre + 1) (n_toks b)) as [_|]; [|lia].
        unfold get_tok. rewrite Hcur, Hnt. cbn [ares_eqb]. rewrite Hel. reflexivity. }
      unfold row_of_accessors.
      unfold get_token_end_column. rewrite Hend, Hendline.
      unfold get_token_channel, get_token_type, get_token_start,
             get_token_start_line, get_token_start_column, get_token_payload.
      rewrite !idx_assert_ok by exact Hi.
      unfold get_tok. rewrite Hcur. cbn [abind].
      rewrite Hcli. rewrite (sub32_ok _ _ Hcs). cbn [abind].
      rewrite (sub32_ok (eidx + 1) 1) by lia. cbn [abind].
      replace (eidx + 1 - 1) with eidx by lia.
      rewrite Heli. rewrite (sub32_ok _ _ Hes). cbn [abind].
      reflexivity.
  Qed.

  Lemma row_last pre cur :
    b_toks b = pre ++ [cur] ->
    exists cli,
      nthN (b_lines b) (t_line cur) = Some cli /\ l_start cli <= t_start cur /\
      row_of_accessors d b (len pre) =
        AOk (mkRow (t_chan cur) (t_type cur) (len pre) (t_start cur) (t_start cur)
                   (t_line cur + 1) (t_start cur - l_start cli) (t_line cur + 1)
                   (t_start cur - l_start cli) (t_payload cur)).
  Proof.
    intros E.
    assert (Hcur : nthN (b_toks b) (len pre) = Some cur) by (rewrite E; apply nthN_app_len).
    assert (Hn : n_toks b = len pre + 1).
    { unfold n_toks. rewrite E, len_app, len_cons, len_nil. lia. }
    destruct (wf_tok_line b WF _ _ Hcur) as (cli & Hcli & Hcb & Hcs).
    exists cli. repeat split; try assumption.
    assert (Hi : len pre < n_toks b) by lia.
    assert (Hend : get_token_end d b (len pre) = AOk (t_start cur)).
    { unfold get_token_end. rewrite idx_assert_ok by exact Hi.
      destruct (N.ltb_spec (len pre + 1) (n_toks b)) as [|_]; [lia|].
      unfold get_tok. rewrite Hcur. reflexivity. }
    assert (Hsl : get_token_start_line d b (len pre) = AOk (t_line cur + 1)).
    { unfold get_token_start_line. rewrite idx_assert_ok by exact Hi.
      unfold get_tok. rewrite Hcur. reflexivity. }
    assert (Hendline : get_token_end_line d b (len pre) = AOk (t_line cur + 1)).
    { unfold get_token_end_line. rewrite idx_assert_ok by exact Hi.
      destruct (N.eqb_spec (n_toks b) 0) as [|_]; [lia|].
      destruct (N.eqb_spec (len pre) (n_toks b - 1)) as [_|]; [|lia]. exact Hsl. }
    unfold row_of_accessors.
    unfold get_token_end_column. rewrite Hend, Hendline, Hsl.
    unfold get_token_channel, get_token_type, get_token_start,
           get_token_start_column, get_token_payload.
    rewrite !idx_assert_ok by exact Hi.
    unfold get_tok. rewrite Hcur. cbn [abind].
    rewrite Hcli. rewrite (sub32_ok _ _ Hcs). cbn [abind].
    rewrite (sub32_ok (t_line cur + 1) 1) by lia. cbn [abind].
    replace (t_line cur + 1 - 1) with (t_line cur) by lia.
    rewrite Hcli. rewrite (sub32_ok _ _ Hcs). cbn [abind]. reflexivity.
  Qed.

  Lemma bulk_loop_spec rest : forall pre cur,
    b_toks b = pre ++ cur :: rest ->
    exists rows,
      bulk_loop d b (len pre) cur rest = Some rows /\
      List.length rows = S (List.length rest) /\
      forall k r, nth_error rows k = Some r ->
                  row_of_accessors d b (len pre + N.of_nat k) = AOk r.
  Proof.
    induction rest as [|nt rest IH]; intros pre cur E.
    - destruct (row_last pre cur E) as (cli & Hcli & Hcs & Hrow).
      cbn [bulk_loop]. unfold index_line. rewrite Hcli. rewrite (osub_ok _ _ Hcs).
      eexists. split; [reflexivity|]. split; [reflexivity|].
      intros k r Hk. destruct k as [|k]; cbn in Hk.
      + inversion Hk; subst. replace (len pre + N.of_nat 0) with (len pre) by lia. exact Hrow.
      + destruct k; discriminate.
    - destruct (row_mid pre cur nt rest E) as (nli & eidx & cli & eli & Hnli & Hsub & Hcli & Heli & Hcs & Hes & Hrow).
      assert (E' : b_toks b = (pre ++ [cur]) ++ nt :: rest) by (rewrite <- app_assoc; exact E).
      destruct (IH (pre ++ [cur]) nt E') as (rows & Hrows & Hlen & Hall).
      cbn [bulk_loop]. unfold index_line. rewrite Hnli, Hsub, Hcli, Heli.
      rewrite (osub_ok _ _ Hcs), (osub_ok _ _ Hes).
      assert (Hl : len (pre ++ [cur]) = len pre + 1) by (rewrite len_app, len_cons, len_nil; lia).
      rewrite Hl in Hrows. rewrite Hrows.
      eexists. split; [reflexivity|]. split; [cbn [List.length]; rewrite Hlen; reflexivity|].
      intros k r Hk. destruct k as [|k]; cbn [nth_error] in Hk.
      + inversion Hk; subst. replace (len pre + N.of_nat 0) with (len pre) by lia. exact Hrow.
      + specialize (Hall k r Hk). rewrite Hl in Hall.
        replace (len pre + N.of_nat (S k)) with (len pre + 1 + N.of_nat k) by lia. exact Hall.
  Qed.

  (** The bulk view does not panic, has one row per token, and row [k] is exactly what the
      ten accessors return for token [k] (none of which fails). *)
  Theorem views_agree :
    exists rows,
      into_resolved_token_vec d b = Some rows /\
      len rows = n_toks b /\
      forall k r, nth_error rows k = Some r -> row_of_accessors d b (N.of_nat k) = AOk r.
  Proof.
    unfold into_resolved_token_vec.
    destruct (b_toks b) as [|t0 rest] eqn:E; [exfalso; apply (wf_nonempty b WF); exact E|].
    destruct (bulk_loop_spec rest [] t0 E) as (rows & Hrows & Hlen & Hall).
    rewrite len_nil in Hrows. exists rows. split; [exact Hrows|]. split.
    - unfold n_toks, len. rewrite E, Hlen. reflexivity.
    - intros k r Hk. specialize (Hall k r Hk). rewrite len_nil in Hall.
      replace (0 + N.of_nat k) with (N.of_nat k) in Hall by lia. exact Hall.
  Qed.
End C05.
