(** * Macro call argument values (C13): the delimiter decision is the parenthesis counter.
    One step of the scanning loop of [lex_macro_string_in_macro_call_arg_value]: with
    [eff] = nesting level on entry + parentheses seen in this text section,
    - '(' and (when [eff <> 0]) ')' only move the counter and stay inside the text;
    - ',' is text when [eff <> 0] and ends the argument (COMMA token follows) when [eff = 0]
      in a comma-terminated argument;
    - ')' ends the argument only when [eff = 0].
    (Both profiles; the statements are equalities of runs from the same state.) *)
From Coq Require Import NArith ZArith List Bool Lia.
From RecordUpdate Require Import RecordSet.
From SasLexer Require Import Gen.TokenType Gen.ErrorKind Gen.Channel Model.Base Model.Core
     Model.Helpers Model.Numeric Model.Lexer1 Model.Lexer2 Model.Lexer3 Proofs.Generic Proofs.Bom.
Import ListNotations RecordSetNotations.
Open Scope N_scope.

Lemma peek_scrub s : peek (scrub s) = peek s.
Proof. reflexivity. Qed.
Lemma peek_next_scrub s : peek_next (scrub s) = peek_next s.
Proof. reflexivity. Qed.

Section Step.
  Variable d : bool.
  Variable F : nat.
  Variable m : bool.
  Variables flags pnl : N.
  Variable local : Z.
  Variable f : nat.
  Variable s : st.

  Let eff := wadd_signed32 pnl local.

  Ltac step c Hc :=
    cbn [value_string_loop]; rewrite run_bindP; unfold get, do; cbn [run exec];
    rewrite peek_scrub, Hc; fold eff.

  Lemma value_step_lparen :
    peek s = Some c_lparen ->
    run d (value_string_loop (S f) flags pnl local) s =
    run d (bindP advance_ (fun _ => value_string_loop f flags pnl (local + 1)%Z)) s.
  Proof. intros Hc. step c_lparen Hc. reflexivity. Qed.

  Lemma value_step_rparen_nested :
    peek s = Some c_rparen -> (eff =? 0) = false ->
    run d (value_string_loop (S f) flags pnl local) s =
    run d (bindP advance_ (fun _ => value_string_loop f flags pnl (local - 1)%Z)) s.
  Proof. intros Hc He. step c_rparen Hc. cbn. rewrite He. reflexivity. Qed.

  Lemma value_step_rparen_end :
    peek s = Some c_rparen -> (eff =? 0) = true ->
    run d (value_string_loop (S f) flags pnl local) s =
    run d (bindP (emit T_MacroString) (fun _ => pop_mode)) s.
  Proof. intros Hc He. step c_rparen Hc. cbn. rewrite He. reflexivity. Qed.

  Lemma value_step_comma_nested :
    peek s = Some c_comma -> (eff =? 0) = false ->
    run d (value_string_loop (S f) flags pnl local) s =
    run d (bindP advance_ (fun _ => value_string_loop f flags pnl local)) s.
  Proof. intros Hc He. step c_comma Hc. cbn. rewrite He. reflexivity. Qed.

  Lemma value_step_comma_end :
    peek s = Some c_comma -> (eff =? 0) = true -> af_term_comma flags = true ->
    run d (value_string_loop (S f) flags pnl local) s =
    run d (bindP (emit T_MacroString) (fun _ => bindP pop_mode (fun _ => lex_comma_and_next_arg flags))) s.
  Proof. intros Hc He Ht. step c_comma Hc. cbn. rewrite He, Ht. reflexivity. Qed.
End Step.
