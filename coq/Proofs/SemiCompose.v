(** * C15 on the production [';'*]: exact results of empty-statement programs and their composition.
    [lex (semis n)] is computed in closed form for every n (release profile); every such
    program with n >= 1 is a closed prefix, and the result for [semis n ++ semis k] is the glue
    of the two results. *)
From Coq Require Import NArith ZArith List Bool Lia.
From RecordUpdate Require Import RecordSet.
From SasLexer Require Import Gen.TokenType Gen.ErrorKind Gen.Channel Model.Base Model.Core
     Model.Helpers Model.Numeric Model.Lexer1 Model.Lexer2 Model.Lexer3 Spec.Glue
     Proofs.Generic Proofs.Bom Proofs.SemiProgram.
Import ListNotations RecordSetNotations.
Open Scope N_scope.

(** the part of the state that the final buffer is made of, beyond [observe] *)
Record obs2 : Set := mkObs2 { o2_srclen : N; o2_src : list char; o2_lines : list line_info; o2_lit : list N; o2_errs : list err_info }.
Definition observe2 (s : st) : obs2 := mkObs2 (s_srclen s) (s_src s) (w_lines (s_buf s)) (w_lit (s_buf s)) (s_errs s).

Lemma default_semi_step2 F msep s ms r p b ps :
  s_modes s = MDefault :: ms ->
  c_rest (s_cur s) = c_semi :: r ->
  w_nlines (s_buf s) = Npos p ->
  s_pstat s = b :: ps ->
  exists s',
    run false (lex_token F msep c_semi) s = Done tt s' /\
    observe s' =
    mkObs r (c_off (s_cur s) + 1) (c_rem (s_cur s) - 1)
          (mkTok CH_DEFAULT T_SEMI (cur_byte s) (cur_char s) (Npos p - 1) PNone :: w_toks (s_buf s))
          (w_ntoks (s_buf s) + 1) (s_errs s) (s_modes s) (cp_is_some s) (s_mnl s) (false :: ps)
          (Npos p) (s_iters s) (s_aborted s) (s_loop_detected s) /\
    observe2 s' = observe2 s.
Proof.
  intros Hm Hr Hn Hp.
  destruct s as [src srclen cur buf ctb cts ctl modes nmodes errs nerrs cp mnl pstat mark perr iters ab ld gh].
  destruct cur as [rest_ rem off prev]. destruct buf as [lines nlines toks ntoks lit litlen].
  cbn in Hm, Hr, Hn, Hp. subst modes rest_ nlines pstat.
  eexists. split; [unfold lex_token; lazy; reflexivity|]. split; lazy; reflexivity.
Qed.

(** the SEMI tokens of k statements starting at (byte, char) offset (b, c) on line l, newest first *)
Fixpoint semi_toks_rev (k : nat) (b c l : N) (acc : list tok) : list tok :=
  match k with
  | O => acc
  | S k' => semi_toks_rev k' (b + 1) (c + 1) l (mkTok CH_DEFAULT T_SEMI b c l PNone :: acc)
  end.

Lemma loop_semis_exact F msep limit : forall k f last s p b,
  (k < f)%nat ->
  c_rest (s_cur s) = semis k -> c_rem (s_cur s) = N.of_nat k -> N.of_nat k <= s_srclen s ->
  s_modes s = [MDefault] -> s_pstat s = [b] -> w_nlines (s_buf s) = Npos p ->
  s_iters s + N.of_nat k <= limit ->
  exists s',
    run false (main_loop F msep limit f last) s = Done false s' /\
    c_rest (s_cur s') = [] /\ s_modes s' = [MDefault] /\
    cp_is_some s' = cp_is_some s /\ s_mnl s' = s_mnl s /\ s_aborted s' = s_aborted s /\
    (s_pstat s' = [b] /\ k = O \/ s_pstat s' = [false]) /\ w_nlines (s_buf s') = Npos p /\
    w_toks (s_buf s') = semi_toks_rev k (cur_byte s) (cur_char s) (Npos p - 1) (w_toks (s_buf s)) /\
    observe2 s' = observe2 s.
Proof.
  induction k as [|k IH]; intros f last s p b Hf Hr Hrem Hlen Hm Hp Hn Hl.
  - destruct f as [|f]; [lia|]. exists s. split.
    + apply main_loop_end. unfold peek. rewrite Hr. reflexivity.
    + repeat split; auto.
  - destruct f as [|f]; [lia|].
    cbn [semis repeat] in Hr. fold (semis k) in Hr.
    set (s0 := s <| s_iters := s_iters s + 1 |>).
    destruct (default_semi_step2 F msep s0 [] (semis k) p b [] Hm Hr Hn Hp) as (s1 & Hrun & Hobs & Hobs2).
    pose proof (f_equal o_rest Hobs) as H1. pose proof (f_equal o_off Hobs) as H2. pose proof (f_equal o_rem Hobs) as H3.
    pose proof (f_equal o_toks Hobs) as H4. pose proof (f_equal o_modes Hobs) as H7. pose proof (f_equal o_cp Hobs) as H8.
    pose proof (f_equal o_mnl Hobs) as H9. pose proof (f_equal o_pstat Hobs) as H10. pose proof (f_equal o_nlines Hobs) as H11.
    pose proof (f_equal o_iters Hobs) as H12. pose proof (f_equal o_aborted Hobs) as H13.
    pose proof (f_equal o2_srclen Hobs2) as G1.
    cbn [observe observe2 o_rest o_off o_rem o_toks o_modes o_cp o_mnl o_pstat o_nlines o_iters o_aborted o2_srclen] in H1, H2, H3, H4, H7, H8, H9, H10, H11, H12, H13, G1.
    assert (Hlim : (limit <? s_iters s + 1) = false) by (apply N.ltb_ge; lia).
    rewrite (main_loop_step F msep limit f last s c_semi s1 ltac:(unfold peek; rewrite Hr; reflexivity) Hlim Hrun).
    subst s0. cbn in H2, H3, H4, H7, H8, H9, H12, H13, G1.
    assert (Hrem1 : c_rem (s_cur s1) = N.of_nat k) by (rewrite H3, Hrem; lia).
    destruct (IH f (c_rem (s_cur s1), s_modes s1) s1 p false ltac:(lia) H1 Hrem1 ltac:(rewrite G1; lia)
                 ltac:(rewrite H7; exact Hm) H10 H11 ltac:(rewrite H12; cbn; lia))
      as (s' & Hrun' & Q1 & Q2 & Q4 & Q5 & Q6 & Q8 & Q9 & Q10 & Q11).
    exists s'. split; [exact Hrun'|].
    split; [exact Q1|]. split; [exact Q2|].
    split; [etransitivity; [exact Q4|exact H8]|]. split; [etransitivity; [exact Q5|exact H9]|]. split; [etransitivity; [exact Q6|exact H13]|].
    split; [right; destruct Q8 as [[Q8 _]|Q8]; exact Q8|]. split; [exact Q9|]. split.
    + rewrite Q10, H4. cbn [semi_toks_rev].
      unfold cur_byte, cur_char. rewrite G1, H3, H2. cbn [s_srclen s_cur].
      replace (s_srclen s - (c_rem (s_cur s) - 1)) with (s_srclen s - c_rem (s_cur s) + 1) by lia.
      reflexivity.
    + etransitivity; [exact Q11|exact Hobs2].
Qed.

Lemma finalize_default_exact f s p :
  s_modes s = [MDefault] -> w_nlines (s_buf s) = Npos p ->
  exists s',
    run false (finalize_lexing (S (S f))) s = Done tt s' /\
    w_toks (s_buf s') = mkTok CH_DEFAULT T_EOF (cur_byte s) (cur_char s) (Npos p - 1) PNone :: w_toks (s_buf s) /\
    observe2 s' = observe2 s /\ s_aborted s' = s_aborted s.
Proof.
  intros Hm Hn.
  destruct s as [src srclen cur buf ctb cts ctl modes nmodes errs nerrs cp mnl pstat mark perr iters ab ld gh].
  destruct cur as [rest_ rem off prev]. destruct buf as [lines nlines toks ntoks lit litlen].
  cbn in Hm, Hn. subst modes nlines.
  eexists. split; [lazy; reflexivity|]. split; [lazy; reflexivity|]. split; lazy; reflexivity.
Qed.

(** SEMI tokens in source order *)
Fixpoint semi_toks (k : nat) (b : N) : list tok :=
  match k with
  | O => []
  | S k' => mkTok CH_DEFAULT T_SEMI b b 0 PNone :: semi_toks k' (b + 1)
  end.

Lemma semi_toks_rev_spec k : forall b acc, rev (semi_toks_rev k b b 0 acc) = rev acc ++ semi_toks k b.
Proof.
  induction k as [|k IH]; intros b acc; cbn [semi_toks_rev semi_toks]; [rewrite app_nil_r; reflexivity|].
  rewrite IH. cbn [rev]. rewrite <- app_assoc. reflexivity.
Qed.

Definition semis_result (n : nat) : result :=
  mkResult (mkTbuf [mkLine 0 0]
                   (semi_toks n 0 ++ [mkTok CH_DEFAULT T_EOF (N.of_nat n) (N.of_nat n) 0 PNone]) [])
           [].

(** the run on n empty statements, in closed form *)
Theorem semis_lex_exact m n :
  let r := lex (mkCfg false m) (semis n) in
  lr_outcome r = None /\ s_aborted (lr_state r) = false /\ result_of r = semis_result n /\
  s_modes (lr_end r) = [MDefault] /\ s_mnl (lr_end r) = 0 /\ cp_is_some (lr_end r) = false /\
  (s_pstat (lr_end r) = [false]).
Proof.
  cbv zeta. unfold lex. rewrite split_bom_semis. unfold lex_text. cbn [dbg msep].
  rewrite length_semis, blen_semis.
  assert (HL := loop_semis_exact (S n) m (8 * (N.of_nat n + 0) + 64) n (8 * (4 * n) + 64 + 2 + 24)%nat
                           (N.of_nat n + 0, [MDefault]) (init (semis n)) xH false).
  assert (P1 : (n < 8 * (4 * n) + 64 + 2 + 24)%nat) by lia.
  assert (Prem : c_rem (s_cur (init (semis n))) = N.of_nat n) by (cbn [init s_cur c_rem]; apply blen_semis).
  assert (Plen : N.of_nat n <= s_srclen (init (semis n))) by (cbn [init s_srclen]; rewrite blen_semis; lia).
  assert (P6 : s_iters (init (semis n)) + N.of_nat n <= 8 * (N.of_nat n + 0) + 64) by (cbn [init s_iters]; lia).
  specialize (HL P1 eq_refl Prem Plen eq_refl eq_refl eq_refl P6).
  destruct HL as (s1 & Hrun & Q1 & Q2 & Q4 & Q5 & Q6 & Q8 & Q9 & Q10 & Q11).
  rewrite Hrun.
  destruct (finalize_default_exact (N.to_nat (s_nmodes s1)) s1 xH Q2 Q9) as (s2 & Hfin & E1 & E2 & E3).
  rewrite Hfin. cbn [lr_outcome lr_state lr_end].
  pose proof (f_equal o2_srclen Q11) as S1. pose proof (f_equal o2_src Q11) as S2.
  pose proof (f_equal o2_lines Q11) as S3. pose proof (f_equal o2_lit Q11) as S4. pose proof (f_equal o2_errs Q11) as S5.
  pose proof (f_equal o2_srclen E2) as T1. pose proof (f_equal o2_src E2) as T2.
  pose proof (f_equal o2_lines E2) as T3. pose proof (f_equal o2_lit E2) as T4. pose proof (f_equal o2_errs E2) as T5.
  cbn [observe2 o2_srclen o2_src o2_lines o2_lit o2_errs init s_srclen s_src s_buf w_lines w_lit s_errs] in S1, S2, S3, S4, S5, T1, T2, T3, T4, T5.
  split; [reflexivity|]. split; [rewrite E3, Q6; reflexivity|]. split.
  - unfold result_of, semis_result. cbn [lr_buffer lr_errors]. f_equal.
    + unfold into_detached. rewrite T3, S3, T4, S4, E1.
      cbn [t_type]. replace (tt_eqb T_EOF T_EOF) with true by reflexivity.
      cbn [rev app map shift_line l_byte l_start]. f_equal.
      rewrite Q10. cbn [rev]. 
      assert (Hcb : cur_byte (init (semis n)) = 0) by (unfold cur_byte; cbn [init s_srclen s_cur c_rem]; lia).
      assert (Hcc : cur_char (init (semis n)) = 0) by reflexivity.
      rewrite Hcb, Hcc. change (N.pos 1 - 1) with 0.
      rewrite semi_toks_rev_spec. cbn [init s_buf w_toks rev app].
      rewrite map_app. cbn [map shift_tok t_chan t_type t_byte t_start t_line t_payload].
      assert (Hid : forall k b, map (shift_tok 0 0) (semi_toks k b) = semi_toks k b).
      { induction k as [|k IHk]; intros b; [reflexivity|]. cbn [semi_toks map shift_tok t_chan t_type t_byte t_start t_line t_payload].
        rewrite IHk. unfold shift_tok; cbn [t_chan t_type t_byte t_start t_line t_payload]. rewrite ?N.add_0_r. reflexivity. }
      rewrite Hid. f_equal. f_equal.
      unfold cur_byte, cur_char. rewrite S1. cbn [init s_srclen].
      pose proof (run_InvPos false (semis n) (main_loop (S n) m (8 * (N.of_nat n + 0) + 64) (8 * (4 * n) + 64 + 2 + 24)%nat (N.of_nat n + 0, [MDefault]))
                             (init (semis n)) (init_InvPos (semis n))) as I1.
      rewrite Hrun in I1. cbn in I1.
      destruct (ip_cur _ _ I1) as (pre & Epre & Eoff & Erem).
      rewrite Q1 in Epre, Erem. rewrite app_nil_r in Epre. subst pre.
      rewrite Erem, Eoff. cbn [blen]. rewrite blen_semis.
      unfold len. rewrite length_semis. unfold shift_tok; cbn [t_chan t_type t_byte t_start t_line t_payload]. f_equal; lia.
    + rewrite T5, S5. reflexivity.
  - split; [exact Q2|]. split; [rewrite Q5; reflexivity|]. split; [rewrite Q4; reflexivity|].
    destruct Q8 as [[Q8 _]|Q8]; exact Q8.
Qed.

(** ** Composition *)
Lemma list_eqb_refl {A} (f : A -> A -> bool) : (forall a, f a a = true) -> forall l, list_eqb f l l = true.
Proof. intros H. induction l as [|a l IH]; [reflexivity|]. cbn [list_eqb]. rewrite H, IH. reflexivity. Qed.

Lemma payload_eqb_refl p : payload_eqb p p = true.
Proof. destruct p; cbn [payload_eqb]; rewrite ?N.eqb_refl; reflexivity. Qed.

Lemma tok_eqb_refl t : tok_eqb t t = true.
Proof.
  unfold tok_eqb, ch_eqb, tt_eqb. rewrite !N.eqb_refl, payload_eqb_refl. reflexivity.
Qed.

Lemma err_eqb_refl e : err_eqb e e = true.
Proof.
  unfold err_eqb, ek_eqb, optN_eqb. rewrite !N.eqb_refl. destruct (e_last e); [rewrite N.eqb_refl|]; reflexivity.
Qed.

Lemma result_eqb_refl r : result_eqb r r = true.
Proof.
  unfold result_eqb. rewrite !list_eqb_refl; try reflexivity.
  - exact err_eqb_refl.
  - exact N.eqb_refl.
  - exact tok_eqb_refl.
  - intros l. unfold line_eqb. rewrite !N.eqb_refl. reflexivity.
Qed.

Lemma semi_toks_app n : forall k b, semi_toks (n + k) b = semi_toks n b ++ semi_toks k (b + N.of_nat n).
Proof.
  induction n as [|n IH]; intros k b.
  - cbn [Nat.add semi_toks app]. rewrite N.add_0_r. reflexivity.
  - cbn [Nat.add semi_toks app]. rewrite IH. do 3 f_equal. lia.
Qed.

Lemma semis_app n k : semis n ++ semis k = semis (n + k).
Proof. unfold semis. symmetry. apply repeat_app. Qed.

Lemma last2_snoc2 {A} (l : list A) a b : last2 (l ++ [a; b]) = Some (a, b).
Proof.
  induction l as [|x l IH]; [reflexivity|]. cbn [app].
  destruct (l ++ [a; b]) as [|y [|z w]] eqn:E.
  - destruct l; discriminate.
  - destruct l as [|? [|? ?]]; discriminate.
  - cbn [last2] in *. destruct w; [|exact IH].
    (* l ++ [a;b] = [y;z]: then x :: [y;z] has last2 = last2 [y;z] *)
    exact IH.
Qed.

Lemma glue_semis n k :
  glue (semis n) (semis_result n) (semis_result k) = semis_result (n + k).
Proof.
  unfold glue, semis_result. cbn [r_buf r_errs b_lines b_toks b_lit tl map app rev l_start].
  rewrite blen_semis. unfold len at 1. rewrite length_semis.
  f_equal. f_equal.
  rewrite removelast_last. rewrite map_app. cbn [map].
  assert (Hn : len (semi_toks n 0 ++ [mkTok CH_DEFAULT T_EOF (N.of_nat n) (N.of_nat n) 0 PNone]) - 1 = N.of_nat n).
  { unfold len. rewrite app_length. cbn [List.length].
    assert (L : forall j b, List.length (semi_toks j b) = j) by (induction j; intros; cbn [semi_toks List.length]; [reflexivity|rewrite IHj; reflexivity]).
    rewrite L. lia. }
  assert (Hm : forall j b, map (glue_tok (N.of_nat n) (N.of_nat n) (len [mkLine 0 0] - 1) (len (@nil N))) (semi_toks j b)
                         = semi_toks j (b + N.of_nat n)).
  { induction j as [|j IHj]; intros b; [reflexivity|].
    cbn [semi_toks map]. rewrite IHj.
    replace (b + 1 + N.of_nat n) with (b + N.of_nat n + 1) by lia. reflexivity. }
  rewrite Hm. rewrite semi_toks_app. rewrite <- app_assoc. f_equal. f_equal. f_equal.
  unfold glue_tok. cbn [t_chan t_type t_byte t_start t_line t_payload shift_payload].
  change (len [mkLine 0 0] - 1) with 0.
  replace (N.of_nat k + N.of_nat n) with (N.of_nat (n + k)) by lia. reflexivity.
Qed.

Lemma closed_semis m n : (1 <= n)%nat -> closed (semis n) (lex (mkCfg false m) (semis n)) = true.
Proof.
  intros Hn. destruct (semis_lex_exact m n) as (O & Ab & R & M & Mn & Cp & Ps). cbv zeta in *.
  unfold closed. rewrite O, Ab. unfold initial_config. rewrite M, Mn, Ps, Cp.
  assert (Rb : lr_buffer (lex (mkCfg false m) (semis n)) = r_buf (semis_result n)) by (rewrite <- R; reflexivity).
  assert (Re : lr_errors (lex (mkCfg false m) (semis n)) = []) by (change [] with (r_errs (semis_result n)); rewrite <- R; reflexivity).
  rewrite Rb, Re. cbn [existsb negb andb N.eqb semis_result r_buf b_toks].
  destruct n as [|n]; [lia|].
  replace (S n) with (n + 1)%nat by lia. rewrite semi_toks_app. cbn [semi_toks]. rewrite <- app_assoc. cbn [app].
  rewrite last2_snoc2. cbn [t_start t_type].
  replace (tt_eqb T_SEMI T_SEMI) with true by reflexivity.
  unfold len. rewrite length_semis.
  rewrite N.eqb_refl. cbn [andb].
  destruct (N.eqb_spec (N.of_nat (n + 1)) (0 + N.of_nat n)); [lia|reflexivity].
Qed.

(** C15 on the production: every non-empty run of empty statements is a closed prefix, and for any
    number of further empty statements the result composes *)
Theorem semis_compose m n k : (1 <= n)%nat ->
  compose_check (mkCfg false m) (semis n) (semis k) = Some true.
Proof.
  intros Hn. unfold compose_check. rewrite (closed_semis m n Hn). cbn [negb].
  destruct k as [|k]; [reflexivity|].
  cbn [semis repeat]. change (c_semi =? 65279) with false. cbv iota.
  change (c_semi :: repeat c_semi k) with (semis (S k)). rewrite semis_app.
  destruct (semis_lex_exact m (S k)) as (O1 & A1 & R1 & _).
  destruct (semis_lex_exact m (n + S k)) as (O2 & A2 & R2 & _).
  destruct (semis_lex_exact m n) as (_ & _ & R0 & _). cbv zeta in *.
  rewrite O1, O2, A1, A2. cbn [orb]. rewrite R0, R1, R2, glue_semis. rewrite result_eqb_refl. reflexivity.
Qed.
