(** * Open code = reference lexer (C11), part 1: primitives, relation, simple tokens.
    Simulation, one lexeme class at a time: from any state in the open-code configuration that
    is related to a reference state, the main loop's iteration(s) on the next lexeme produce the
    tokens, errors, literal bytes and carried bits that [Spec.RefLex.lexeme] prescribes.
    Release profile. *)
From Coq Require Import NArith ZArith List Bool Lia.
From RecordUpdate Require Import RecordSet.
From SasLexer Require Import Gen.TokenType Gen.ErrorKind Gen.Channel Gen.Unicode Model.Base Model.Core
     Model.Helpers Model.Numeric Model.Lexer1 Model.Lexer2 Model.Lexer3 Spec.RefLex
     Proofs.Generic Proofs.LexGeneric Proofs.Bom Proofs.SemiProgram Proofs.SemiCompose Proofs.RefLexProofs.
Import ListNotations RecordSetNotations.
Open Scope N_scope.

(** ** What is compared *)
Definition tv (bb : N) (t : tok) := (t_type t, t_chan t, t_byte t + bb, t_payload t).
Definition rv (t : rtok) := (rt_type t, rt_chan t, rt_byte t, rt_payload t).
Definition ev (bb : N) (e : err_info) := (e_kind e, e_byte e + bb).
Definition rve (e : rerr) := (re_kind e, re_byte e).

(** everything a scanning loop leaves alone: all but the cursor, the line table and the ghosts *)
Definition frame (s : st) :=
  (s_src s, s_srclen s, w_toks (s_buf s), w_ntoks (s_buf s), w_lit (s_buf s), w_litlen (s_buf s),
   (s_ct_byte s, s_ct_start s, s_ct_line s), s_modes s, s_nmodes s, s_errs s, s_nerrs s,
   (s_cp s, s_mnl s, s_pstat s, s_mark s, s_perr s), (s_iters s, s_aborted s, s_loop_detected s)).

(** the line table is non-empty and the line protocol is intact: no violation so far and no line
    feed waiting for its [add_line] *)
Definition lines_good (s : st) : Prop := g_lines_ok (s_ghost s) = true /\ g_line_debt (s_ghost s) = false.
Definition lines_pos (s : st) : Prop := (exists p, w_nlines (s_buf s) = Npos p) /\ lines_good s.

(** [lines_pos] reads the line count and the two monitor flags only *)
Lemma lines_pos_same a b :
  w_nlines (s_buf a) = w_nlines (s_buf b) -> s_ghost a = s_ghost b -> lines_pos b -> lines_pos a.
Proof. unfold lines_pos, lines_good. intros -> ->. exact (fun H => H). Qed.

Record FrameEq (a b : st) : Prop := {
  fe_src : s_src a = s_src b; fe_srclen : s_srclen a = s_srclen b;
  fe_toks : w_toks (s_buf a) = w_toks (s_buf b); fe_ntoks : w_ntoks (s_buf a) = w_ntoks (s_buf b);
  fe_lit : w_lit (s_buf a) = w_lit (s_buf b); fe_litlen : w_litlen (s_buf a) = w_litlen (s_buf b);
  fe_ctb : s_ct_byte a = s_ct_byte b; fe_cts : s_ct_start a = s_ct_start b; fe_ctl : s_ct_line a = s_ct_line b;
  fe_modes : s_modes a = s_modes b; fe_nmodes : s_nmodes a = s_nmodes b;
  fe_errs : s_errs a = s_errs b; fe_nerrs : s_nerrs a = s_nerrs b;
  fe_cp : s_cp a = s_cp b; fe_mnl : s_mnl a = s_mnl b; fe_pstat : s_pstat a = s_pstat b;
  fe_mark : s_mark a = s_mark b; fe_perr : s_perr a = s_perr b;
  fe_iters : s_iters a = s_iters b; fe_ab : s_aborted a = s_aborted b; fe_ld : s_loop_detected a = s_loop_detected b
}.

Lemma frame_eq a b : frame a = frame b -> FrameEq a b.
Proof. unfold frame. intros H. inversion H. constructor; assumption. Qed.

(** ** The primitives in the release profile, as equations *)
Definition adv_ghost (g : ghost) (x : char) : ghost :=
  let g' := if g_line_debt g then g <| g_lines_ok := false |> else g in
  if x =? NL then g' <| g_line_debt := true |> else g'.

Definition st_adv (s : st) (x : char) (r : list char) : st :=
  s <| s_cur := mkCursor r (c_rem (s_cur s) - utf8_len x) (c_off (s_cur s) + 1) x |>
    <| s_ghost := adv_ghost (s_ghost s) x |>.

Lemma ex_advance s x r : c_rest (s_cur s) = x :: r -> exec false OAdvance s = Done (Some x) (st_adv s x r).
Proof. intros H. unfold exec. rewrite H. reflexivity. Qed.

Lemma ex_advance_nil s : c_rest (s_cur s) = [] -> exec false OAdvance s = Done None s.
Proof. intros H. unfold exec. rewrite H. reflexivity. Qed.

Definition st_add_line (s : st) : st :=
  let s0 := clear_debt s in
  let b := s_buf s0 in
  s0 <| s_buf := b <| w_lines := mkLine (cur_byte s) (cur_char s) :: w_lines b |> <| w_nlines := w_nlines b + 1 |> |>.

Lemma ex_add_line s : exec false OAddLine s = Done tt (st_add_line s).
Proof. reflexivity. Qed.

Lemma ex_get s : exec false OGet s = Done (scrub s) s.
Proof. reflexivity. Qed.

Lemma peek_scrub s : peek (scrub s) = peek s. Proof. reflexivity. Qed.
Lemma peek_is_scrub s p : peek_is (scrub s) p = peek_is s p. Proof. reflexivity. Qed.

Lemma lines_pos_adv s x r : (x =? NL) = false -> lines_pos s -> lines_pos (st_adv s x r).
Proof.
  intros Hx [Hp [Ho Hd]]. split; [exact Hp|]. unfold lines_good, st_adv, adv_ghost. cbn [s_ghost set].
  rewrite Hd, Hx. split; assumption.
Qed.

(** a line feed followed at once by its [add_line] *)
Lemma lines_pos_nl s x r : (x =? NL) = true -> lines_pos s -> lines_pos (st_add_line (st_adv s x r)).
Proof.
  intros Hx [[p H] [Ho Hd]]. split.
  - unfold st_add_line. cbn. rewrite H. exists (p + 1)%positive. reflexivity.
  - unfold lines_good, st_add_line, clear_debt, st_adv, adv_ghost. cbn [s_ghost set]. rewrite Hd, Hx. cbn. rewrite Ho. split; reflexivity.
Qed.

(** ** Scanning loops *)
Section Loops.
  Variable F : nat.
  Variable msep : bool.

  (** one character of a whitespace run: advance, register a line feed *)
  Definition ws1 (s : st) (x : char) (r : list char) : st :=
    if x =? NL then st_add_line (st_adv s x r) else st_adv s x r.

  Lemma ws1_rest s x r : c_rest (s_cur (ws1 s x r)) = r.
  Proof. unfold ws1. destruct (x =? NL); reflexivity. Qed.
  Lemma ws1_frame s x r : frame (ws1 s x r) = frame s.
  Proof. unfold ws1. destruct (x =? NL); reflexivity. Qed.
  Lemma ws1_lines s x r : lines_pos s -> lines_pos (ws1 s x r).
  Proof. intros H. unfold ws1. destruct (x =? NL) eqn:Ex; [apply lines_pos_nl|apply lines_pos_adv]; assumption. Qed.

  Lemma ws_loop_unfold f s x r : c_rest (s_cur s) = x :: r ->
    run false (lex_ws_loop (S f)) s =
    if peek_is (ws1 s x r) is_whitespace then run false (lex_ws_loop f) (ws1 s x r) else Done tt (ws1 s x r).
  Proof.
    intros H. cbn [lex_ws_loop]. unfold advance, when, add_line, get, ret. cbn [bindP do]. cbn [run].
    rewrite (ex_advance s x r H). unfold ws1.
    destruct (x =? NL); repeat (cbn [run bindP do]; rewrite ?ex_add_line, ?ex_get); rewrite peek_is_scrub;
      match goal with |- context [peek_is ?s0 is_whitespace] => destruct (peek_is s0 is_whitespace) end; reflexivity.
  Qed.

  (** [lex_ws_loop]: consumes the first character and the whitespace after it *)
  Lemma ws_loop_spec : forall r x f s,
    (List.length r < f)%nat -> c_rest (s_cur s) = x :: r -> lines_pos s ->
    exists s', run false (lex_ws_loop f) s = Done tt s' /\
      c_rest (s_cur s') = drop_while is_whitespace r /\ frame s' = frame s /\ lines_pos s'.
  Proof.
    induction r as [|y r IH]; intros x f s Hf Hr Hl; (destruct f as [|f]; [cbn in Hf; lia|]);
      rewrite (ws_loop_unfold f s x _ Hr); unfold peek_is, peek; rewrite ws1_rest.
    - exists (ws1 s x []). split; [reflexivity|]. split; [apply ws1_rest|]. split; [apply ws1_frame|apply ws1_lines; exact Hl].
    - cbn [drop_while]. destruct (is_whitespace y) eqn:Ey.
      + destruct (IH y f (ws1 s x (y :: r)) ltac:(cbn in Hf; lia) (ws1_rest _ _ _) (ws1_lines _ _ _ Hl)) as (s' & Hrun & Hrest & Hfr & Hl').
        exists s'. split; [exact Hrun|]. split; [exact Hrest|]. split; [rewrite Hfr; apply ws1_frame|exact Hl'].
      + exists (ws1 s x (y :: r)). split; [reflexivity|]. split; [apply ws1_rest|]. split; [apply ws1_frame|apply ws1_lines; exact Hl].
  Qed.
End Loops.

(** ** More primitives *)
Definition st_start (s : st) : st :=
  (note_observe_lines s) <| s_ct_byte := cur_byte s |> <| s_ct_start := cur_char s |>
                         <| s_ct_line := w_nlines (s_buf s) - 1 |>.

Lemma ex_start_token s : lines_pos s -> exec false OStartToken s = Done tt (st_start s).
Proof.
  intros [[p H] _]. unfold exec, last_line_or_add, last_line. cbn [s_buf note_observe_lines].
  replace (w_nlines (s_buf (note_observe_lines s))) with (w_nlines (s_buf s)) by reflexivity.
  rewrite H. change (N.pos p =? 0) with false. cbv iota. unfold st_start. rewrite H. reflexivity.
Qed.

Lemma lines_pos_start s : lines_pos s -> lines_pos (st_start s).
Proof.
  intros [Hp [Ho Hd]]. split; [exact Hp|]. unfold lines_good, st_start, note_observe_lines. cbn [s_ghost set].
  rewrite Ho, Hd. split; [reflexivity|exact Hd].
Qed.

Lemma lines_pos_adv_start s x r : (x =? NL) = false -> lines_pos s -> lines_pos (st_adv (st_start s) x r).
Proof. intros Hx H. apply lines_pos_adv; [exact Hx|]. apply lines_pos_start. exact H. Qed.

Definition st_emit (s : st) (ch : TokenChannel) (ty : TokenType) (pl : payload) : st :=
  let b := s_buf s in
  s <| s_buf := b <| w_toks := mkTok ch ty (s_ct_byte s) (s_ct_start s) (s_ct_line s) pl :: w_toks b |>
                  <| w_ntoks := w_ntoks b + 1 |> |>.

Lemma lines_pos_emit s ch ty pl : lines_pos s -> lines_pos (st_emit s ch ty pl).
Proof. exact (fun H => H). Qed.

Lemma ex_emit s ch ty pl : exec false (OEmitToken ch ty pl) s = Done tt (st_emit s ch ty pl).
Proof. reflexivity. Qed.

Lemma ex_assert s f site : exec false (OAssertDbg f site) s = Done tt s.
Proof. reflexivity. Qed.

Lemma ex_mode s m ms : s_modes s = m :: ms -> exec false OMode s = Done m s.
Proof. intros H. unfold exec. rewrite H. reflexivity. Qed.

Lemma ex_set_pending s v b ps : s_pstat s = b :: ps -> exec false (OSetPending v) s = Done tt (s <| s_pstat := v :: ps |>).
Proof. intros H. unfold exec. rewrite H. reflexivity. Qed.

Lemma lines_pos_error s k : lines_pos s -> lines_pos (Core.emit_error s k).
Proof.
  intros [Hp [Ho Hd]]. split; [exact Hp|]. unfold lines_good, Core.emit_error, push_error, note_observe_lines. cbn [s_ghost set].
  rewrite Ho, Hd. split; [reflexivity|exact Hd].
Qed.

Lemma lines_pos_push_mode s m : lines_pos s -> lines_pos (Core.push_mode s m).
Proof. intros [Hp [Ho Hd]]. split; [exact Hp|]. split; [exact Ho|exact Hd]. Qed.

Lemma ex_emit_error s k : exec false (OEmitError k) s = Done tt (Core.emit_error s k).
Proof. reflexivity. Qed.

(** the common prefix of [lex_token] in open-code mode: mode lookup, debug assertion, token start *)
Ltac open_default Hm Hl :=
  unfold lex_token; cbn [bindP do run]; rewrite (ex_mode _ MDefault [] Hm); cbn [run];
  unfold dispatch_mode_default, assert_dbg, start_token, get; cbn [bindP do run];
  rewrite ex_assert; cbn [run]; rewrite (ex_start_token _ Hl); cbn [run]; rewrite ex_get; cbn [run].

(** evaluate the closed tests of an if-chain *)

(* only tests without variables are evaluated: vm_compute on an open comparison against a table explodes *)
Ltac no_vars t := match t with context [?x] => is_var x; fail 1 | _ => idtac end.
Ltac eval_bool b :=
  no_vars b;
  let v := eval vm_compute in b in
  match v with
  | true => progress change b with true
  | false => progress change b with false
  end.
Ltac close_tests :=
  repeat first
    [ match goal with |- context [if ?b then _ else _] => eval_bool b; cbv iota end
    | match goal with |- context [?a =? ?b] => eval_bool (a =? b) end
    | match goal with |- context [is_ascii_digit ?a] => eval_bool (is_ascii_digit a) end
    | match goal with |- context [is_whitespace ?a] => eval_bool (is_whitespace a) end
    | match goal with |- context [is_valid_unicode_sas_name_start ?a] => eval_bool (is_valid_unicode_sas_name_start a) end
    | progress cbn [andb orb negb]
    | progress cbv iota ].


(** side conditions "this character is not a line feed", from what the context knows about it *)
Ltac nl_absurd :=
  match goal with
  | H : In _ _ |- _ => vm_compute in H; intuition discriminate
  | H : _ = true |- _ => vm_compute in H; discriminate H
  | H : _ = false |- _ => vm_compute in H; discriminate H
  end.
Ltac nnl :=
  first [ reflexivity | assumption
        | match goal with
          | E : (?c =? ?k) = true |- (?c =? NL) = false => is_var c; apply N.eqb_eq in E; subst c; nnl
          | |- (?c =? NL) = false =>
            let E := fresh "ENL" in
            destruct (N.eqb_spec c NL) as [E|E]; [exfalso; subst c; nl_absurd|reflexivity]
          end ].

(** ** The open-code configuration, related to a reference state *)
Record OC (text : list char) (s : st) (rs : rstate) : Prop := {
  oc_inv : InvPos text s;
  oc_modes : s_modes s = [MDefault];
  oc_cp : s_cp s = None;
  oc_mnl : s_mnl s = 0;
  oc_pstat : s_pstat s = [rs_pending rs];
  oc_prev : last_default_type s = rs_prev rs;
  oc_lit : w_lit (s_buf s) = rs_lit rs;
  oc_litlen : w_litlen (s_buf s) = rs_litlen rs;
  oc_lines : lines_pos s
}.

(** the effect of one lexeme on a related pair *)
Record StepOK (text : list char) (bb : N) (s : st) (ts : list rtok) (es : list rerr) (n : N) (rs' : rstate) (s' : st) : Prop := {
  so_oc : OC text s' rs';
  so_rest : c_rest (s_cur s') = skipn_N (N.to_nat n) (c_rest (s_cur s));
  so_toks : map (tv bb) (w_toks (s_buf s')) = rev (map rv ts) ++ map (tv bb) (w_toks (s_buf s));
  so_errs : map (ev bb) (s_errs s') = rev (map rve es) ++ map (ev bb) (s_errs s);
  so_ctr : (s_iters s', s_aborted s', s_loop_detected s') = (s_iters s, s_aborted s, s_loop_detected s)
}.

Lemma skipn_count_while (p : char -> bool) l : skipn_N (N.to_nat (count_while p l)) l = drop_while p l.
Proof.
  induction l as [|c r IH]; [reflexivity|]. cbn [count_while drop_while].
  destruct (p c); [|reflexivity].
  replace (N.to_nat (1 + count_while p r)) with (S (N.to_nat (count_while p r))) by lia. cbn [skipn_N]. exact IH.
Qed.

(** the cursor of a state satisfying the position invariant *)
Lemma cur_byte_rest text s : InvPos text s -> cur_byte s + blen (c_rest (s_cur s)) = blen text.
Proof.
  intros I. destruct (ip_cur _ _ I) as (pre & E & _ & R). unfold cur_byte. rewrite (ip_srclen _ _ I), R.
  pose proof (f_equal blen E) as HB. rewrite blen_app in HB. lia.
Qed.

Section Classes.
  Variable text : list char.
  Variable bb : N.
  Variable F : nat.
  Variable msep : bool.

  Lemma OC_start s rs : OC text s rs -> OC text (st_start s) rs.
  Proof.
    intros [I M C N P V L1 L2 L]. constructor; try assumption; [|apply lines_pos_start; exact L].
    pose proof (run_InvPos false text (do OStartToken) s I) as H.
    cbn [run do] in H. rewrite (ex_start_token s L) in H. exact H.
  Qed.

  (** whitespace *)
  Lemma class_ws s rs c r :
    OC text s rs -> c_rest (s_cur s) = c :: r -> is_whitespace c = true -> (List.length (c :: r) < F)%nat ->
    let '(ts, es, n, rs') := lexeme (c :: r) (cur_byte s + bb) rs in
    exists s', run false (lex_token F msep c) s = Done tt s' /\ StepOK text bb s ts es n rs' s'.
  Proof.
    intros HOC Hr Hc Hf. unfold lexeme. rewrite Hc.
    pose proof (OC_start s rs HOC) as HOC1.
    open_default (oc_modes _ _ _ HOC) (oc_lines _ _ _ HOC). rewrite Hc.
    unfold lex_ws, assert_dbg, emit_token. cbn [bindP do run]. rewrite ex_assert. cbn [run].
    rewrite run_bindP.
    destruct (ws_loop_spec r c F (st_start s) ltac:(cbn in Hf; lia) Hr (oc_lines _ _ _ HOC1)) as (s1 & Hrun & Hrest & Hfr & Hl1).
    rewrite Hrun. cbn [run do]. rewrite ex_emit. cbn [run].
    eexists. split; [reflexivity|].
    pose proof (frame_eq _ _ Hfr) as Fe.
    assert (Hinv : InvPos text (st_emit s1 CH_HIDDEN T_WS PNone)).
    { pose proof (run_InvPos false text (lex_ws_loop F ;; emit_token CH_HIDDEN T_WS PNone) (st_start s) (oc_inv _ _ _ HOC1)) as H.
      rewrite run_bindP, Hrun in H. unfold emit_token in H. cbn [run do] in H. rewrite ex_emit in H. exact H. }
    constructor.
    - constructor.
      + exact Hinv.
      + cbn. rewrite (fe_modes _ _ Fe). exact (oc_modes _ _ _ HOC).
      + cbn. rewrite (fe_cp _ _ Fe). exact (oc_cp _ _ _ HOC).
      + cbn. rewrite (fe_mnl _ _ Fe). exact (oc_mnl _ _ _ HOC).
      + cbn. rewrite (fe_pstat _ _ Fe). exact (oc_pstat _ _ _ HOC).
      + unfold last_default_type, last_default_tok. cbn. rewrite (fe_toks _ _ Fe). exact (oc_prev _ _ _ HOC).
      + cbn. rewrite (fe_lit _ _ Fe). exact (oc_lit _ _ _ HOC).
      + cbn. rewrite (fe_litlen _ _ Fe). exact (oc_litlen _ _ _ HOC).
      + exact Hl1.
    - change (c_rest (s_cur (st_emit s1 CH_HIDDEN T_WS PNone))) with (c_rest (s_cur s1)).
      rewrite Hrest, Hr. rewrite skipn_count_while. cbn [drop_while]. rewrite Hc. reflexivity.
    - cbn. rewrite (fe_toks _ _ Fe), (fe_ctb _ _ Fe). reflexivity.
    - cbn. rewrite (fe_errs _ _ Fe). reflexivity.
    - cbn. rewrite (fe_iters _ _ Fe), (fe_ab _ _ Fe), (fe_ld _ _ Fe). reflexivity.
  Qed.


End Classes.

(** ** One- and two-character tokens *)
Section Simple.
  Variable text : list char.
  Variable bb : N.

  Definition st_pend (s : st) (v : bool) : st := s <| s_pstat := [v] |>.

  Lemma lines_pos_pend s v : lines_pos s -> lines_pos (st_pend s v).
  Proof. exact (fun H => H). Qed.

  Lemma run_simple1 s rs c r ch ty v :
    OC text s rs -> c_rest (s_cur s) = c :: r ->
    run false (start_token ;; advance_ ;; emit_token ch ty PNone ;; set_pending_stat v) s =
    Done tt (st_pend (st_emit (st_adv (st_start s) c r) ch ty PNone) v).
  Proof.
    intros HOC Hr. unfold start_token, advance_, emit_token, set_pending_stat, ret. cbn [bindP do run].
    rewrite (ex_start_token s (oc_lines _ _ _ HOC)). cbn [run].
    rewrite (ex_advance (st_start s) c r Hr). cbn [run]. rewrite ex_emit. cbn [run].
    rewrite (ex_set_pending _ v (rs_pending rs) []); [reflexivity|]. exact (oc_pstat _ _ _ HOC).
  Qed.

  Lemma run_simple2 s rs c c2 r ch ty v :
    OC text s rs -> c_rest (s_cur s) = c :: c2 :: r ->
    run false (start_token ;; advance_ ;; advance_ ;; emit_token ch ty PNone ;; set_pending_stat v) s =
    Done tt (st_pend (st_emit (st_adv (st_adv (st_start s) c (c2 :: r)) c2 r) ch ty PNone) v).
  Proof.
    intros HOC Hr. unfold start_token, advance_, emit_token, set_pending_stat, ret. cbn [bindP do run].
    rewrite (ex_start_token s (oc_lines _ _ _ HOC)). cbn [run].
    rewrite (ex_advance (st_start s) c (c2 :: r) Hr). cbn [run].
    rewrite (ex_advance (st_adv (st_start s) c (c2 :: r)) c2 r eq_refl). cbn [run]. rewrite ex_emit. cbn [run].
    rewrite (ex_set_pending _ v (rs_pending rs) []); [reflexivity|]. exact (oc_pstat _ _ _ HOC).
  Qed.

  (** the reference state after a token on channel [ch] *)
  Definition rs_after (rs : rstate) (ch : TokenChannel) (ty : TokenType) (v : bool) : rstate :=
    mkRstate v (if ch_eqb ch CH_DEFAULT then Some ty else rs_prev rs) (rs_lit rs) (rs_litlen rs).

  Lemma last_default_emit s ch ty pl :
    last_default_type (st_emit s ch ty pl) = if ch_eqb ch CH_DEFAULT then Some ty else last_default_type s.
  Proof.
    unfold last_default_type, last_default_tok, st_emit. cbn [s_buf w_toks set]. cbn [find].
    unfold is_default at 1. cbn [t_chan]. destruct (ch_eqb ch CH_DEFAULT); reflexivity.
  Qed.

  Lemma last_default_pend s v : last_default_type (st_pend s v) = last_default_type s.
  Proof. reflexivity. Qed.

  Lemma step_simple1 s rs c r ch ty v :
    (c =? NL) = false ->
    OC text s rs -> c_rest (s_cur s) = c :: r ->
    StepOK text bb s [mkRtok ty ch (cur_byte s + bb) PNone] [] 1 (rs_after rs ch ty v)
           (st_pend (st_emit (st_adv (st_start s) c r) ch ty PNone) v).
  Proof.
    intros Hnl HOC Hr.
    assert (Hinv : InvPos text (st_pend (st_emit (st_adv (st_start s) c r) ch ty PNone) v)).
    { pose proof (run_InvPos false text (start_token ;; advance_ ;; emit_token ch ty PNone ;; set_pending_stat v) s (oc_inv _ _ _ HOC)) as H.
      rewrite (run_simple1 s rs c r ch ty v HOC Hr) in H. exact H. }
    constructor.
    - constructor; try exact Hinv.
      + exact (oc_modes _ _ _ HOC).
      + exact (oc_cp _ _ _ HOC).
      + exact (oc_mnl _ _ _ HOC).
      + reflexivity.
      + rewrite last_default_pend, last_default_emit. cbn [rs_after rs_prev].
        destruct (ch_eqb ch CH_DEFAULT); [reflexivity|]. exact (oc_prev _ _ _ HOC).
      + exact (oc_lit _ _ _ HOC).
      + exact (oc_litlen _ _ _ HOC).
      + apply lines_pos_pend, lines_pos_emit.
        apply lines_pos_adv; [exact Hnl|]. apply lines_pos_start. exact (oc_lines _ _ _ HOC).
    - rewrite Hr. reflexivity.
    - reflexivity.
    - reflexivity.
    - reflexivity.
  Qed.

  Lemma step_simple2 s rs c c2 r ch ty v :
    (c =? NL) = false -> (c2 =? NL) = false ->
    OC text s rs -> c_rest (s_cur s) = c :: c2 :: r ->
    StepOK text bb s [mkRtok ty ch (cur_byte s + bb) PNone] [] 2 (rs_after rs ch ty v)
           (st_pend (st_emit (st_adv (st_adv (st_start s) c (c2 :: r)) c2 r) ch ty PNone) v).
  Proof.
    intros Hnl Hnl2 HOC Hr.
    assert (Hinv : InvPos text (st_pend (st_emit (st_adv (st_adv (st_start s) c (c2 :: r)) c2 r) ch ty PNone) v)).
    { pose proof (run_InvPos false text (start_token ;; advance_ ;; advance_ ;; emit_token ch ty PNone ;; set_pending_stat v) s (oc_inv _ _ _ HOC)) as H.
      rewrite (run_simple2 s rs c c2 r ch ty v HOC Hr) in H. exact H. }
    constructor.
    - constructor; try exact Hinv.
      + exact (oc_modes _ _ _ HOC).
      + exact (oc_cp _ _ _ HOC).
      + exact (oc_mnl _ _ _ HOC).
      + reflexivity.
      + rewrite last_default_pend, last_default_emit. cbn [rs_after rs_prev].
        destruct (ch_eqb ch CH_DEFAULT); [reflexivity|]. exact (oc_prev _ _ _ HOC).
      + exact (oc_lit _ _ _ HOC).
      + exact (oc_litlen _ _ _ HOC).
      + apply lines_pos_pend, lines_pos_emit.
        apply lines_pos_adv; [exact Hnl2|]. apply lines_pos_adv; [exact Hnl|]. apply lines_pos_start. exact (oc_lines _ _ _ HOC).
    - rewrite Hr. reflexivity.
    - reflexivity.
    - reflexivity.
    - reflexivity.
  Qed.
End Simple.

