(** * Channel discipline and grouping of the reference reading (macro-free open code):
    comment types are exactly the comment channel, whitespace is hidden, the hidden channel holds only
    whitespace and catch-all characters, no string-expression or label token occurs, and a datalines start
    is immediately followed by its data token and its terminator *)
From Coq Require Import NArith ZArith List Bool Lia.
From SasLexer Require Import Gen.TokenType Gen.ErrorKind Gen.Channel Gen.Unicode Model.Base Model.Helpers Model.Numeric Spec.RefLex
     Proofs.RefLexTiling.
Import ListNotations.
Open Scope N_scope.

Definition is_comment_type (t : TokenType) : bool :=
  tt_eqb t T_CStyleComment || tt_eqb t T_PredictedCommentStat || tt_eqb t T_MacroComment.

Definition chan_ok (t : rtok) : Prop :=
  (rt_chan t = CH_COMMENT <-> is_comment_type (rt_type t) = true) /\
  (rt_type t = T_WS -> rt_chan t = CH_HIDDEN) /\
  (rt_chan t = CH_HIDDEN -> rt_type t = T_WS \/ rt_type t = T_CatchAll).

Definition no_expr_type (t : TokenType) : Prop :=
  t <> T_StringExprStart /\ t <> T_StringExprEnd /\ t <> T_StringExprText /\ t <> T_MacroLabel /\
  t <> T_DatalinesStart /\ t <> T_DatalinesData /\ t <> T_MacroSep.

(** a lexeme is either one token that is not part of any group, or the datalines triple *)
Definition lexeme_shape (ts : list rtok) : Prop :=
  (exists t, ts = [t] /\ chan_ok t /\ no_expr_type (rt_type t)) \/
  (exists p1 p2 p3, ts = [mkRtok T_DatalinesStart CH_DEFAULT p1 PNone; mkRtok T_DatalinesData CH_DEFAULT p2 PNone; mkRtok T_SEMI CH_DEFAULT p3 PNone]).

Lemma default_ok ty pos pl : is_comment_type ty = false -> ty <> T_WS ->
  chan_ok (mkRtok ty CH_DEFAULT pos pl).
Proof.
  intros H1 H2. unfold chan_ok. cbn [rt_chan rt_type]. split; [split; [discriminate|rewrite H1; discriminate]|].
  split; [intros E; contradiction|discriminate].
Qed.

Lemma num_ty_plain t : num_ty t -> is_comment_type t = false /\ t <> T_WS /\ no_expr_type t.
Proof. intros [->|[->| ->]]; repeat split; try reflexivity; discriminate. Qed.

Lemma keyword_plain u kw : parse_keyword u = Some kw -> is_comment_type kw = false /\ kw <> T_WS /\ no_expr_type kw.
Proof.
  unfold parse_keyword.
  pose (bad := fun t => is_comment_type t || tt_eqb t T_WS || tt_eqb t T_StringExprStart || tt_eqb t T_StringExprEnd || tt_eqb t T_StringExprText
                         || tt_eqb t T_MacroLabel || tt_eqb t T_DatalinesStart || tt_eqb t T_DatalinesData || tt_eqb t T_MacroSep).
  assert (Hall : forallb (fun p => negb (bad (snd p))) KEYWORDS_C = true) by (vm_compute; reflexivity).
  assert (Hbad : forall t, bad t = false -> is_comment_type t = false /\ t <> T_WS /\ no_expr_type t).
  { intros t Hb. destruct t; vm_compute in Hb; try discriminate Hb; (split; [reflexivity|]); (split; [discriminate|]);
      unfold no_expr_type; repeat split; discriminate. }
  revert Hall. generalize KEYWORDS_C. induction l as [|[k v] q IHq]; cbn [forallb lookup]; [discriminate|].
  intros Ha. apply andb_true_iff in Ha. destruct Ha as [Ha1 Ha2]. cbn [snd] in Ha1.
  destruct (chars_eqb u k); [intros E; inversion E; subst; apply Hbad; apply negb_true_iff; exact Ha1|apply IHq; exact Ha2].
Qed.

Lemma suffix_plain l : let t := fst (suffix_of l) in is_comment_type t = false /\ t <> T_WS /\ no_expr_type t.
Proof.
  unfold suffix_of.
  repeat match goal with
         | |- context [if ?b then _ else _] => destruct b
         | |- context [match ?x with _ => _ end] => destruct x
         end; cbn [fst]; repeat split; try reflexivity; discriminate.
Qed.

Lemma sym1_plain c ty : sym1 c = Some ty -> is_comment_type ty = false /\ ty <> T_WS /\ no_expr_type ty.
Proof.
  unfold sym1. intros H.
  repeat match type of H with (if ?b then _ else _) = _ => destruct b end; inversion H; repeat split; try reflexivity; discriminate.
Qed.

Lemma lexeme_shape_ok l pos st : l <> [] -> lexeme_shape (toks_of (lexeme l pos st)).
Proof.
  intros Hne. unfold lexeme. destruct l as [|c r]; [contradiction|]. cbv zeta.
  assert (Plain : forall ty pl es n st', is_comment_type ty = false /\ ty <> T_WS /\ no_expr_type ty ->
            lexeme_shape (toks_of ([mkRtok ty CH_DEFAULT pos pl], es, n, st'))).
  { intros ty pl es n st' (H1 & H2 & H3). left. eexists. split; [reflexivity|]. split; [apply default_ok; assumption|exact H3]. }
  assert (PlainC : forall ty pl es n st', is_comment_type ty = false -> ty <> T_WS -> no_expr_type ty ->
            lexeme_shape (toks_of ([mkRtok ty CH_DEFAULT pos pl], es, n, st'))) by (intros; apply Plain; auto).
  assert (NX : forall t, (t = T_WS \/ t = T_CStyleComment \/ t = T_PredictedCommentStat \/ t = T_CatchAll) -> no_expr_type t)
    by (intros t [->|[->|[->| ->]]]; repeat split; discriminate).
  destruct (is_whitespace c).
  { left. eexists. split; [reflexivity|]. split; [|apply NX; auto]. unfold chan_ok; cbn [rt_chan rt_type].
    split; [split; discriminate|]. split; [reflexivity|auto]. }
  destruct ((c =? c_squote) || (c =? c_dquote)).
  { destruct (scan_quoted c r 1 [] false) as [[[n closed] val] esc].
    destruct (negb closed).
    - destruct (if esc then push_lit st val else (st, PNone)). apply PlainC; [reflexivity|discriminate|repeat split; discriminate].
    - pose proof (suffix_plain (skipn_N (N.to_nat n) (c :: r))) as Hty. cbv zeta in Hty.
      destruct (suffix_of _) as [ty extra]. cbn [fst] in Hty.
      destruct (tt_eqb ty T_HexStringLiteral).
      + destruct (parse_sas_hex_string _) as [v|e].
        * destruct (push_lit st v). apply Plain. exact Hty.
        * destruct (if esc then push_lit st val else (st, PNone)). apply Plain. exact Hty.
      + destruct (if esc then push_lit st val else (st, PNone)). apply Plain. exact Hty. }
  destruct (c =? c_semi); [apply PlainC; [reflexivity|discriminate|repeat split; discriminate]|].
  destruct (c =? c_slash).
  { destruct (_ =? c_star); [|apply PlainC; [reflexivity|discriminate|repeat split; discriminate]].
    destruct (find_comment_end _ _); left; eexists; (split; [reflexivity|]); (split; [|apply NX; auto]);
      unfold chan_ok; cbn [rt_chan rt_type]; (split; [split; reflexivity|]); (split; [discriminate|discriminate]). }
  destruct (c =? c_amp); [apply PlainC; [reflexivity|discriminate|repeat split; discriminate]|].
  destruct (c =? c_pct); [apply PlainC; [reflexivity|discriminate|repeat split; discriminate]|].
  destruct (is_ascii_digit c || _).
  { pose proof (numeric_ty (c :: r)) as Hnt. destruct (numeric_literal (c :: r)) as [[[ty pl] n] errs]. cbn [fst] in Hnt.
    apply Plain. apply num_ty_plain. exact Hnt. }
  destruct (is_valid_unicode_sas_name_start c).
  { destruct (negb _ || _); [apply PlainC; [reflexivity|discriminate|repeat split; discriminate]|].
    destruct (parse_keyword _) as [kw|] eqn:Ekw; [apply Plain; exact (keyword_plain _ _ Ekw)|].
    destruct (assoc_chars _ _) as [four|]; [|apply PlainC; [reflexivity|discriminate|repeat split; discriminate]].
    match goal with |- context [match ?x with Some _ => _ | None => _ end] => destruct x as [k|] end;
      [|apply PlainC; [reflexivity|discriminate|repeat split; discriminate]].
    destruct (datalines_data _ _ _) as [dn found]. right. unfold toks_of. cbn [fst]. eexists _, _, _. reflexivity. }
  repeat match goal with
         | |- context [if ?b then _ else _] => destruct b
         | |- context [match charformat_len ?x with _ => _ end] => destruct (charformat_len x)
         | |- context [match sym1 ?x with _ => _ end] => destruct (sym1 x) eqn:?
         end.
  all: try (apply PlainC; [reflexivity|discriminate|repeat split; discriminate]).
  all: try (apply Plain; eapply sym1_plain; eassumption).
  all: try (left; eexists; (split; [reflexivity|]); (split; [|apply NX; auto]); unfold chan_ok; cbn [rt_chan rt_type];
            (split; [split; discriminate|]); (split; [discriminate|auto])).
  all: left; eexists; (split; [reflexivity|]); (split; [|apply NX; auto]); unfold chan_ok; cbn [rt_chan rt_type];
       (split; [split; reflexivity|]); (split; [discriminate|discriminate]).
Qed.

(** ** the whole reading *)
Definition grouped_type (t : TokenType) : bool :=
  tt_eqb t T_DatalinesData || tt_eqb t T_StringExprStart || tt_eqb t T_StringExprEnd || tt_eqb t T_StringExprText || tt_eqb t T_MacroLabel.

(** no string-expression or label tokens; a datalines start is followed at once by its data and its terminator *)
Fixpoint grp_okb (l : list TokenType) : bool :=
  match l with
  | [] => true
  | t :: r =>
    if tt_eqb t T_DatalinesStart then
      match r with
      | d :: s :: r' => tt_eqb d T_DatalinesData && tt_eqb s T_SEMI && grp_okb r'
      | _ => false
      end
    else if grouped_type t then false else grp_okb r
  end.

Lemma tt_eqb_neq a b : a <> b -> tt_eqb a b = false.
Proof. intros H. destruct (tt_eqb a b) eqn:E; [apply tt_eqb_eq in E; contradiction|reflexivity]. Qed.

Lemma grp_single t r : no_expr_type t -> grp_okb (t :: r) = grp_okb r.
Proof.
  intros (H1 & H2 & H3 & H4 & H5 & H6 & _). cbn [grp_okb]. rewrite (tt_eqb_neq _ _ H5). unfold grouped_type.
  rewrite (tt_eqb_neq _ _ H6), (tt_eqb_neq _ _ H1), (tt_eqb_neq _ _ H2), (tt_eqb_neq _ _ H3), (tt_eqb_neq _ _ H4). reflexivity.
Qed.

Definition eof_or_ok (t : rtok) : Prop := chan_ok t.

Lemma triple_chan_ok p1 p2 p3 :
  Forall chan_ok [mkRtok T_DatalinesStart CH_DEFAULT p1 PNone; mkRtok T_DatalinesData CH_DEFAULT p2 PNone; mkRtok T_SEMI CH_DEFAULT p3 PNone].
Proof. repeat constructor; try discriminate; cbn [rt_chan rt_type] in *; try discriminate; intros; discriminate. Qed.

Lemma reflex_loop_shape : forall fuel l pos st toks errs,
  let '(T, _, _) := reflex_loop fuel l pos st toks errs in
  exists S, T = rev toks ++ S /\ grp_okb (map rt_type S) = true /\ Forall chan_ok S /\ Forall (fun t => rt_type t <> T_MacroSep) S.
Proof.
  induction fuel as [|f IH]; intros l pos st toks errs; cbn [reflex_loop].
  - cbv beta iota zeta. exists []. split; [rewrite app_nil_r; reflexivity|]. split; [reflexivity|]. split; constructor.
  - destruct l as [|c r].
    + cbv beta iota zeta. exists [mkRtok T_EOF CH_DEFAULT pos PNone]. split; [reflexivity|]. split; [reflexivity|].
      split; [constructor; [|constructor]; apply default_ok; [reflexivity|discriminate]|]. repeat constructor. discriminate.
    + pose proof (lexeme_shape_ok (c :: r) pos st ltac:(discriminate)) as Hs.
      destruct (lexeme (c :: r) pos st) as [[[ts es] n] st'] eqn:El. unfold toks_of in Hs. cbn [fst snd] in Hs.
      specialize (IH (skipn_N (N.to_nat n) (c :: r)) (pos + blen (firstn (N.to_nat n) (c :: r))) st' (rev_append ts toks) (rev_append es errs)).
      assert (Hrev : rev (rev_append ts toks) = rev toks ++ ts) by (rewrite rev_append_rev, rev_app_distr, rev_involutive; reflexivity).
      rewrite Hrev in IH.
      destruct (reflex_loop f _ _ _ _ _) as [[T E] st2]. destruct IH as (S & ET & HG & HC & HM).
      exists (ts ++ S). split; [rewrite ET, <- app_assoc; reflexivity|].
      destruct Hs as [(t & -> & Hc & Hn)|(p1 & p2 & p3 & ->)].
      * split; [cbn [app map]; rewrite (grp_single _ _ Hn); exact HG|]. split; [constructor; [exact Hc|exact HC]|].
        constructor; [exact (proj2 (proj2 (proj2 (proj2 (proj2 (proj2 Hn))))))|exact HM].
      * split; [cbn [app map rt_type grp_okb]; rewrite HG; reflexivity|]. split; [apply Forall_app; split; [apply triple_chan_ok|exact HC]|].
        cbn [app]. repeat constructor; try discriminate. exact HM.
Qed.

Theorem reflex_shape (src : list char) :
  let '(T, _, _) := reflex src in grp_okb (map rt_type T) = true /\ Forall chan_ok T /\ Forall (fun t => rt_type t <> T_MacroSep) T.
Proof.
  unfold reflex.
  destruct (match src with c :: r => if c =? 65279 then (utf8_len c, r) else (0, src) | [] => (0, src) end) as [bb text].
  pose proof (reflex_loop_shape (S (List.length text)) text bb (mkRstate false None [] 0) [] []) as H.
  destruct (reflex_loop _ _ _ _ _ _) as [[toks errs] st]. destruct H as (S & -> & H1 & H2 & H3). cbn [rev app]. split; [assumption|split; assumption].
Qed.
