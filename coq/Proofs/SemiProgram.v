(** * A first production of the construct grammar (C12): programs made of empty statements.
    [Program ::= ';'*].  For every length the run emits one SEMI token per character, no
    error, and ends in the initial open-code configuration.  This is the segment-lemma pattern
    of DESIGN.md section 7 (C12-C14) on its smallest instance: a step lemma for the production that
    holds from *any* state in open-code mode, then induction on the number of repetitions. *)
From Coq Require Import NArith ZArith List Bool Lia.
From RecordUpdate Require Import RecordSet.
From SasLexer Require Import Gen.TokenType Gen.ErrorKind Gen.Channel Model.Base Model.Core
     Model.Helpers Model.Numeric Model.Lexer1 Model.Lexer2 Model.Lexer3 Proofs.Generic Proofs.Bom.
Import ListNotations RecordSetNotations.
Open Scope N_scope.

(** what a statement-level step may change: the observable part of the state *)
Record obs : Set := mkObs {
  o_rest : list char; o_off : N; o_rem : N;
  o_toks : list tok; o_ntoks : N; o_errs : list err_info; o_modes : list mode;
  o_cp : bool; o_mnl : N; o_pstat : list bool; o_nlines : N; o_iters : N; o_aborted : bool; o_loop : bool
}.

Definition observe (s : st) : obs :=
  mkObs (c_rest (s_cur s)) (c_off (s_cur s)) (c_rem (s_cur s))
        (w_toks (s_buf s)) (w_ntoks (s_buf s)) (s_errs s) (s_modes s)
        (cp_is_some s) (s_mnl s) (s_pstat s) (w_nlines (s_buf s)) (s_iters s) (s_aborted s) (s_loop_detected s).

(** one iteration of [lex_token] on ';' in open-code mode, release profile, from any state *)
Lemma default_semi_step F msep s ms r p b ps :
  s_modes s = MDefault :: ms ->
  c_rest (s_cur s) = c_semi :: r ->
  w_nlines (s_buf s) = Npos p ->
  s_pstat s = b :: ps ->
  exists s',
    run false (lex_token F msep c_semi) s = Done tt s' /\
    observe s' =
    mkObs r (c_off (s_cur s) + 1) (c_rem (s_cur s) - 1)
          (mkTok CH_DEFAULT T_SEMI (cur_byte s) (cur_char s) (Npos p - 1) PNone :: w_toks (s_buf s))
          (w_ntoks (s_buf s) + 1) (s_errs s) (s_modes s) (cp_is_some s) (s_mnl s) (false :: ps)
          (Npos p) (s_iters s) (s_aborted s) (s_loop_detected s).
Proof.
  intros Hm Hr Hn Hp.
  destruct s as [src srclen cur buf ctb cts ctl modes nmodes errs nerrs cp mnl pstat mark perr iters ab ld gh].
  destruct cur as [rest_ rem off prev]. destruct buf as [lines nlines toks ntoks lit litlen].
  cbn in Hm, Hr, Hn, Hp. subst modes rest_ nlines pstat.
  eexists. split.
  - unfold lex_token. lazy. reflexivity.
  - lazy. reflexivity.
Qed.

(** ** The main loop, one iteration at a time (release profile) *)
Section MainLoopSteps.
  Variable F : nat.
  Variable msep : bool.
  Variable limit : N.

  Lemma main_loop_end f last s :
    peek s = None -> run false (main_loop F msep limit (S f) last) s = Done false s.
  Proof.
    intros Hp. cbn [main_loop]. rewrite run_bindP. unfold get, do. cbn [run exec].
    change (peek (scrub s)) with (peek s). rewrite Hp. reflexivity.
  Qed.

  Lemma main_loop_step f last s c s1 :
    peek s = Some c ->
    (limit <? s_iters s + 1) = false ->
    run false (lex_token F msep c) (s <| s_iters := s_iters s + 1 |>) = Done tt s1 ->
    run false (main_loop F msep limit (S f) last) s =
    run false (main_loop F msep limit f (c_rem (s_cur s1), s_modes s1)) s1.
  Proof.
    intros Hp Hl Hs. cbn [main_loop]. rewrite run_bindP. unfold get, do. cbn [run exec].
    change (peek (scrub s)) with (peek s). rewrite Hp.
    rewrite run_bindP. cbn [run exec]. rewrite Hl. cbn [run].
    rewrite run_bindP. rewrite Hs.
    rewrite run_bindP. cbn [run exec andb]. reflexivity.
  Qed.
End MainLoopSteps.

(** ** Empty statements *)
Definition semis (n : nat) : list char := repeat c_semi n.

Definition quiet (o : obs) : Prop :=
  o_errs o = [] /\ o_modes o = [MDefault] /\ o_cp o = false /\ o_mnl o = 0 /\ o_aborted o = false /\ o_loop o = false.

Lemma loop_semis F msep limit : forall k f last s p b,
  (k < f)%nat ->
  c_rest (s_cur s) = semis k ->
  s_modes s = [MDefault] -> s_pstat s = [b] -> w_nlines (s_buf s) = Npos p ->
  s_iters s + N.of_nat k <= limit ->
  exists s',
    run false (main_loop F msep limit f last) s = Done false s' /\
    c_rest (s_cur s') = [] /\ s_modes s' = [MDefault] /\ s_errs s' = s_errs s /\
    cp_is_some s' = cp_is_some s /\ s_mnl s' = s_mnl s /\ s_aborted s' = s_aborted s /\
    s_loop_detected s' = s_loop_detected s /\
    (s_pstat s' = [b] \/ s_pstat s' = [false]) /\ w_nlines (s_buf s') = Npos p /\
    map t_type (w_toks (s_buf s')) = repeat T_SEMI k ++ map t_type (w_toks (s_buf s)) /\
    s_iters s' = s_iters s + N.of_nat k.
Proof.
  induction k as [|k IH]; intros f last s p b Hf Hr Hm Hp Hn Hl.
  - destruct f as [|f]; [lia|]. exists s. split.
    + apply main_loop_end. unfold peek. rewrite Hr. reflexivity.
    + repeat split; auto. cbn. lia.
  - destruct f as [|f]; [lia|].
    cbn [semis repeat] in Hr. fold (semis k) in Hr.
    set (s0 := s <| s_iters := s_iters s + 1 |>).
    destruct (default_semi_step F msep s0 [] (semis k) p b [] Hm Hr Hn Hp) as (s1 & Hrun & Hobs).
    assert (Hobs' := Hobs). unfold observe in Hobs'. inversion Hobs' as [[H1 H2 H3 H4 H5 H6 H7 H8 H9 H10 H11 H12 H13 H14]]. clear Hobs'.
    assert (Hlim : (limit <? s_iters s + 1) = false) by (apply N.ltb_ge; lia).
    rewrite (main_loop_step F msep limit f last s c_semi s1 ltac:(unfold peek; rewrite Hr; reflexivity) Hlim Hrun).
    destruct (IH f (c_rem (s_cur s1), s_modes s1) s1 p false ltac:(lia) H1 ltac:(rewrite H7; exact Hm) H10 H11
                 ltac:(rewrite H12; cbn; lia)) as (s' & Hrun' & Q1 & Q2 & Q3 & Q4 & Q5 & Q6 & Q7 & Q8 & Q9 & Q10 & Q11).
    subst s0. cbn in H4, H5, H6, H8, H9, H12, H13, H14.
    exists s'. split; [exact Hrun'|].
    split; [exact Q1|]. split; [exact Q2|].
    split; [first [exact Q3 | transitivity (s_errs s1); [exact Q3|exact H6]]|].
    split; [first [exact Q4 | transitivity (cp_is_some s1); [exact Q4|exact H8]]|].
    split; [first [exact Q5 | transitivity (s_mnl s1); [exact Q5|exact H9]]|].
    split; [first [exact Q6 | transitivity (s_aborted s1); [exact Q6|exact H13]]|].
    split; [first [exact Q7 | transitivity (s_loop_detected s1); [exact Q7|exact H14]]|].
    split; [right; destruct Q8 as [Q8|Q8]; first [exact Q8 | rewrite Q8; symmetry; exact H10]|].
    split; [first [exact Q9 | rewrite Q9; symmetry; exact H11]|]. split.
    + rewrite Q10, H4. cbn [map t_type].
      assert (Hrep : forall j, repeat T_SEMI j ++ [T_SEMI] = T_SEMI :: repeat T_SEMI j) by (induction j; cbn; congruence).
      cbn [repeat]. rewrite <- Hrep. rewrite <- app_assoc. reflexivity.
    + rewrite Q11, H12. lia.
Qed.

(** finalization from the open-code configuration: only the EOF token is added *)
Lemma finalize_default f s p :
  s_modes s = [MDefault] -> w_nlines (s_buf s) = Npos p ->
  exists s',
    run false (finalize_lexing (S (S f))) s = Done tt s' /\
    s_errs s' = s_errs s /\
    map t_type (w_toks (s_buf s')) = T_EOF :: map t_type (w_toks (s_buf s)).
Proof.
  intros Hm Hn.
  destruct s as [src srclen cur buf ctb cts ctl modes nmodes errs nerrs cp mnl pstat mark perr iters ab ld gh].
  destruct buf as [lines nlines toks ntoks lit litlen].
  cbn in Hm, Hn. subst modes nlines.
  eexists. split; [lazy; reflexivity|]. split; lazy; reflexivity.
Qed.

Lemma split_bom_semis n : split_bom (semis n) = ((0, 0), semis n).
Proof. destruct n; reflexivity. Qed.

Lemma blen_semis n : blen (semis n) = N.of_nat n.
Proof. induction n as [|n IH]; [reflexivity|]. cbn [semis repeat blen]. fold (semis n). rewrite IH. change (utf8_len c_semi) with 1. lia. Qed.

Lemma length_semis n : List.length (semis n) = n.
Proof. apply repeat_length. Qed.

(** [Program ::= ';'*]: no diagnostics, one SEMI per statement, initial configuration at the end *)
Theorem semis_program m n :
  let r := lex (mkCfg false m) (semis n) in
  lr_outcome r = None /\ lr_errors r = [] /\
  map t_type (b_toks (lr_buffer r)) = repeat T_SEMI n ++ [T_EOF] /\
  s_modes (lr_end r) = [MDefault] /\ s_mnl (lr_end r) = 0 /\ cp_is_some (lr_end r) = false /\
  s_pstat (lr_end r) = [false] /\ s_aborted (lr_end r) = false.
Proof.
  cbv zeta. unfold lex. rewrite split_bom_semis. unfold lex_text. cbn [dbg msep].
  rewrite length_semis, blen_semis.
  assert (HL := loop_semis (S n) m (8 * (N.of_nat n + 0) + 64) n (8 * (4 * n) + 64 + 2 + 24)%nat
                           (N.of_nat n + 0, [MDefault]) (init (semis n)) xH false).
  assert (P1 : (n < 8 * (4 * n) + 64 + 2 + 24)%nat) by lia.
  assert (P6 : s_iters (init (semis n)) + N.of_nat n <= 8 * (N.of_nat n + 0) + 64) by (cbn [init s_iters]; lia).
  specialize (HL P1 eq_refl eq_refl eq_refl eq_refl P6).
  destruct HL as (s1 & Hrun & Q1 & Q2 & Q3 & Q4 & Q5 & Q6 & Q7 & Q8 & Q9 & Q10 & Q11).
  rewrite Hrun.
  destruct (finalize_default (N.to_nat (s_nmodes s1)) s1 xH Q2 Q9) as (s2 & Hfin & E1 & E2).
  rewrite Hfin. cbn [lr_outcome lr_errors lr_buffer lr_end].
  split; [reflexivity|]. split; [rewrite E1, Q3; reflexivity|]. split.
  - rewrite LexGeneric.into_detached_toks. rewrite map_map. cbn [shift_tok t_type].
    unfold LexGeneric.detached_toks.
    destruct (w_toks (s_buf s2)) as [|t0 r0] eqn:EL; [cbn in E2; discriminate|].
    cbn [map] in E2. inversion E2 as [[Ht Hr0]]. rewrite Ht.
    replace (tt_eqb T_EOF T_EOF) with true by reflexivity.
    change (fun x : tok => t_type x) with t_type. rewrite map_rev. cbn [map]. rewrite Ht, Hr0, Q10.
    cbn [init s_buf w_toks map]. rewrite app_nil_r. cbn [rev].
    assert (Hr : forall j, rev (repeat T_SEMI j) = repeat T_SEMI j).
    { induction j as [|j IHj]; [reflexivity|]. cbn [repeat rev]. rewrite IHj. clear. induction j; cbn; congruence. }
    rewrite Hr. reflexivity.
  - split; [exact Q2|]. split; [rewrite Q5; reflexivity|]. split; [rewrite Q4; reflexivity|].
    split; [destruct Q8 as [Q8|Q8]; exact Q8|]. rewrite Q6. reflexivity.
Qed.
