(** * Open code = reference lexer (C11): symbol classes *)
From Coq Require Import NArith ZArith List Bool Lia.
From RecordUpdate Require Import RecordSet.
From SasLexer Require Import Gen.TokenType Gen.ErrorKind Gen.Channel Gen.Unicode Model.Base Model.Core
     Model.Helpers Model.Numeric Model.Lexer1 Model.Lexer2 Model.Lexer3 Spec.RefLex
     Proofs.Generic Proofs.LexGeneric Proofs.Bom Proofs.SemiProgram Proofs.SemiCompose Proofs.RefLexProofs Proofs.OcBase.
Import ListNotations RecordSetNotations.
Open Scope N_scope.

Section Classes2.
  Variable text : list char.
  Variable bb : N.
  Variable F : nat.
  Variable msep : bool.

  Definition lt_class (l : list char) (c : char) : Prop :=
    forall s rs, macro_free l = true -> OC text s rs -> c_rest (s_cur s) = l -> (List.length l < F)%nat ->
    let '(ts, es, n, rs') := lexeme l (cur_byte s + bb) rs in
    (1 <= n) /\ (n <= len l) /\
    exists s', run false (lex_token F msep c) s = Done tt s' /\ StepOK text bb s ts es n rs' s'.

  Lemma len_ge1 {A} (c : A) r : 1 <= len (c :: r).
  Proof. unfold len. cbn [List.length]. lia. Qed.
  Lemma len_ge2 {A} (c c2 : A) r : 2 <= len (c :: c2 :: r).
  Proof. unfold len. cbn [List.length]. lia. Qed.

  (** single-character symbols *)
  Definition SYM1 : list char := [40; 41; 123; 125; 91; 93; 43; 45; 44; 58; 64; 35; 63].

  Lemma lexeme_sym1 c r pos rs : In c SYM1 ->
    exists ty, sym1 c = Some ty /\
      lexeme (c :: r) pos rs = ([mkRtok ty CH_DEFAULT pos PNone], [], 1, rs_after rs CH_DEFAULT ty true).
  Proof.
    intros Hin. unfold SYM1 in Hin. cbn [In] in Hin.
    repeat (destruct Hin as [<-|Hin]; [eexists; split; [reflexivity|]; unfold lexeme; close_tests; reflexivity|]).
    contradiction.
  Qed.

  Lemma class_sym1 c r : In c SYM1 -> lt_class (c :: r) c.
  Proof.
    intros Hin s rs _ HOC Hr Hf.
    destruct (lexeme_sym1 c r (cur_byte s + bb) rs Hin) as (ty & Hty & ->).
    split; [lia|]. split; [apply len_ge1|].
    exists (st_pend (st_emit (st_adv (st_start s) c r) CH_DEFAULT ty PNone) true). split.
    - open_default (oc_modes _ _ _ HOC) (oc_lines _ _ _ HOC).
      unfold SYM1 in Hin. cbn [In] in Hin.
      repeat (destruct Hin as [<-|Hin]; [
        close_tests; unfold lex_symbols; close_tests; unfold one, advance_, emit, get, when, set_pending_stat, ret; cbn [bindP do run];
        rewrite (ex_advance (st_start s) _ r Hr); cbn [run]; rewrite ex_emit; cbn [run]; rewrite ex_get; cbn [run];
        cbn [last_tok_type last_tok scrub st_emit s_buf w_toks set hd_error option_map t_type];
        cbv in Hty; inversion Hty; subst ty; close_tests; cbn [bindP do run];
        rewrite (ex_set_pending _ true (rs_pending rs) []); [reflexivity|exact (oc_pstat _ _ _ HOC)] |]).
      contradiction.
    - exact (step_simple1 text bb s rs c r CH_DEFAULT ty true ltac:(nnl) HOC Hr).
  Qed.

  (** the tail of [dispatch_mode_default] after [lex_symbols]: the statement is pending unless the token is a predicted comment *)
  Lemma run_symbols_tail X ch ty pl b :
    s_pstat X = [b] -> tt_eqb ty T_PredictedCommentStat = false ->
    run false (s' <- get ;;
               when (match last_tok_type s' with Some t => negb (tt_eqb t T_PredictedCommentStat) | None => false end)
                    (set_pending_stat true)) (st_emit X ch ty pl) =
    Done tt (st_pend (st_emit X ch ty pl) true).
  Proof.
    intros Hp Hty. unfold get, when, set_pending_stat. cbn [bindP do run]. rewrite ex_get. cbn [run].
    change (last_tok_type (scrub (st_emit X ch ty pl))) with (Some ty). cbv iota. rewrite Hty. cbn [negb].
    cbn [bindP do run]. rewrite (ex_set_pending _ true b []); [reflexivity|exact Hp].
  Qed.

  Lemma run_one s c r ty : c_rest (s_cur s) = c :: r ->
    run false (one ty) s = Done tt (st_emit (st_adv s c r) CH_DEFAULT ty PNone).
  Proof.
    intros Hr. unfold one, advance_, emit, ret. cbn [bindP do run]. rewrite (ex_advance s c r Hr). cbn [run].
    rewrite ex_emit. reflexivity.
  Qed.

  Lemma run_one_or_two s c r second t2 t1 : c_rest (s_cur s) = c :: r ->
    run false (one_or_two second t2 t1) s =
    match r with
    | c2 :: r' => if c2 =? second then Done tt (st_emit (st_adv (st_adv s c r) c2 r') CH_DEFAULT t2 PNone)
                  else Done tt (st_emit (st_adv s c r) CH_DEFAULT t1 PNone)
    | [] => Done tt (st_emit (st_adv s c r) CH_DEFAULT t1 PNone)
    end.
  Proof.
    intros Hr. unfold one_or_two, advance_, emit, get, ret. cbn [bindP do run]. rewrite (ex_advance s c r Hr). cbn [run].
    rewrite ex_get. cbn [run]. rewrite peek_is_scrub. unfold peek_is, peek.
    change (c_rest (s_cur (st_adv s c r))) with r.
    destruct r as [|c2 r']; [cbn [bindP do run]; rewrite ex_emit; reflexivity|].
    destruct (c2 =? second); cbn [bindP do run].
    - rewrite (ex_advance (st_adv s c (c2 :: r')) c2 r' eq_refl). cbn [run]. rewrite ex_emit. reflexivity.
    - rewrite ex_emit. reflexivity.
  Qed.

  (** ';' *)
  Lemma class_semi r : lt_class (c_semi :: r) c_semi.
  Proof.
    intros s rs _ HOC Hr Hf.
    assert (E : lexeme (c_semi :: r) (cur_byte s + bb) rs =
                ([mkRtok T_SEMI CH_DEFAULT (cur_byte s + bb) PNone], [], 1, rs_after rs CH_DEFAULT T_SEMI false))
      by (unfold lexeme; close_tests; reflexivity).
    rewrite E. split; [lia|]. split; [apply len_ge1|].
    exists (st_pend (st_emit (st_adv (st_start s) c_semi r) CH_DEFAULT T_SEMI PNone) false). split.
    - open_default (oc_modes _ _ _ HOC) (oc_lines _ _ _ HOC). close_tests.
      unfold advance_, emit, set_pending_stat, ret. cbn [bindP do run].
      rewrite (ex_advance (st_start s) c_semi r Hr). cbn [run]. rewrite ex_emit. cbn [run].
      rewrite (ex_set_pending _ false (rs_pending rs) []); [reflexivity|exact (oc_pstat _ _ _ HOC)].
    - exact (step_simple1 text bb s rs c_semi r CH_DEFAULT T_SEMI false ltac:(nnl) HOC Hr).
  Qed.

  (** '%' that is not a macro trigger *)
  Lemma class_percent r : lt_class (c_pct :: r) c_pct.
  Proof.
    intros s rs Hmf HOC Hr Hf.
    assert (E : lexeme (c_pct :: r) (cur_byte s + bb) rs =
                ([mkRtok T_PERCENT CH_DEFAULT (cur_byte s + bb) PNone], [], 1, rs_after rs CH_DEFAULT T_PERCENT true))
      by (unfold lexeme; close_tests; reflexivity).
    rewrite E. split; [lia|]. split; [apply len_ge1|].
    exists (st_pend (st_emit (st_adv (st_start s) c_pct r) CH_DEFAULT T_PERCENT PNone) true). split.
    - open_default (oc_modes _ _ _ HOC) (oc_lines _ _ _ HOC). close_tests.
      assert (Hnx : (peek_next (scrub (st_start s)) =? c_star) = false /\
                    is_valid_unicode_sas_name_start (peek_next (scrub (st_start s))) = false).
      { unfold peek_next. change (c_rest (s_cur (scrub (st_start s)))) with (c_rest (s_cur s)). rewrite Hr.
        cbn [macro_free] in Hmf. replace (c_pct =? c_pct) with true in Hmf by reflexivity.
        destruct r as [|x r']; [split; reflexivity|].
        apply andb_true_iff in Hmf. destruct Hmf as [Hmf _]. apply negb_true_iff in Hmf.
        apply orb_false_iff in Hmf. exact Hmf. }
      destruct Hnx as [N1 N2]. rewrite N1, N2.
      unfold advance_, emit, set_pending_stat, ret. cbn [bindP do run].
      rewrite (ex_advance (st_start s) c_pct r Hr). cbn [run]. rewrite ex_emit. cbn [run].
      rewrite (ex_set_pending _ true (rs_pending rs) []); [reflexivity|exact (oc_pstat _ _ _ HOC)].
    - exact (step_simple1 text bb s rs c_pct r CH_DEFAULT T_PERCENT true ltac:(nnl) HOC Hr).
  Qed.

  (** '/' that does not open a comment *)
  Lemma class_fslash r : match r with x :: _ => (x =? c_star) = false | [] => True end -> lt_class (c_slash :: r) c_slash.
  Proof.
    intros Hx s rs _ HOC Hr Hf.
    assert (E : lexeme (c_slash :: r) (cur_byte s + bb) rs =
                ([mkRtok T_FSLASH CH_DEFAULT (cur_byte s + bb) PNone], [], 1, rs_after rs CH_DEFAULT T_FSLASH true)).
    { unfold lexeme. close_tests. destruct r as [|x r']; [close_tests; reflexivity|]. rewrite Hx. reflexivity. }
    rewrite E. split; [lia|]. split; [apply len_ge1|].
    exists (st_pend (st_emit (st_adv (st_start s) c_slash r) CH_DEFAULT T_FSLASH PNone) true). split.
    - open_default (oc_modes _ _ _ HOC) (oc_lines _ _ _ HOC). close_tests.
      assert (Hnx : (peek_next (scrub (st_start s)) =? c_star) = false).
      { unfold peek_next. change (c_rest (s_cur (scrub (st_start s)))) with (c_rest (s_cur s)). rewrite Hr.
        destruct r as [|x r']; [reflexivity|exact Hx]. }
      rewrite Hnx.
      unfold advance_, emit, set_pending_stat, ret. cbn [bindP do run].
      rewrite (ex_advance (st_start s) c_slash r Hr). cbn [run]. rewrite ex_emit. cbn [run].
      rewrite (ex_set_pending _ true (rs_pending rs) []); [reflexivity|exact (oc_pstat _ _ _ HOC)].
    - exact (step_simple1 text bb s rs c_slash r CH_DEFAULT T_FSLASH true ltac:(nnl) HOC Hr).
  Qed.

  (** symbols of one or two characters *)
  Definition TWO_TABLE : list (char * char * TokenType * TokenType) :=
    [(33, 33, T_EXCL2, T_EXCL); (166, 166, T_BPIPE2, T_BPIPE); (124, 124, T_PIPE2, T_PIPE);
     (172, 61, T_NE, T_NOT); (94, 61, T_NE, T_NOT); (126, 61, T_NE, T_NOT); (8728, 61, T_NE, T_NOT);
     (61, 42, T_SoundsLike, T_ASSIGN)].

  Lemma lexeme_two c second t2 t1 r pos rs : In (c, second, t2, t1) TWO_TABLE ->
    lexeme (c :: r) pos rs =
    match r with
    | c2 :: _ => if c2 =? second then ([mkRtok t2 CH_DEFAULT pos PNone], [], 2, rs_after rs CH_DEFAULT t2 true)
                 else ([mkRtok t1 CH_DEFAULT pos PNone], [], 1, rs_after rs CH_DEFAULT t1 true)
    | [] => ([mkRtok t1 CH_DEFAULT pos PNone], [], 1, rs_after rs CH_DEFAULT t1 true)
    end.
  Proof.
    intros Hin. unfold TWO_TABLE in Hin. cbn [In] in Hin.
    repeat (destruct Hin as [Hin|Hin]; [inversion Hin; subst; clear Hin; unfold lexeme; close_tests;
      (destruct r as [|c2 r']; [close_tests; reflexivity|]);
      repeat match goal with |- context [c2 =? ?k] => no_vars k; let v := eval vm_compute in k in progress change k with v end;
      match goal with |- context [c2 =? ?k] => destruct (c2 =? k) end; reflexivity|]).
    contradiction.
  Qed.

  Lemma class_two c second t2 t1 r : In (c, second, t2, t1) TWO_TABLE -> lt_class (c :: r) c.
  Proof.
    intros Hin s rs _ HOC Hr Hf.
    rewrite (lexeme_two c second t2 t1 r (cur_byte s + bb) rs Hin).
    assert (Hrun : run false (lex_token F msep c) s =
                   match run false (one_or_two second t2 t1) (st_start s) with
                   | Done _ X => run false (s' <- get ;;
                        when (match last_tok_type s' with Some t => negb (tt_eqb t T_PredictedCommentStat) | None => false end)
                             (set_pending_stat true)) X
                   | Panic site X => Panic site X
                   end).
    { open_default (oc_modes _ _ _ HOC) (oc_lines _ _ _ HOC).
      unfold TWO_TABLE in Hin. cbn [In] in Hin.
      repeat (destruct Hin as [Hin|Hin]; [inversion Hin; subst; clear Hin; close_tests; unfold lex_symbols; close_tests;
                                          rewrite run_bindP; reflexivity|]).
      contradiction. }
    rewrite Hrun. rewrite (run_one_or_two (st_start s) c r second t2 t1 Hr).
    assert (Ht2 : tt_eqb t2 T_PredictedCommentStat = false /\ tt_eqb t1 T_PredictedCommentStat = false).
    { unfold TWO_TABLE in Hin. cbn [In] in Hin.
      repeat (destruct Hin as [Hin|Hin]; [inversion Hin; subst; split; reflexivity|]). contradiction. }
    destruct Ht2 as [Ht2 Ht1].
    destruct r as [|c2 r'].
    - split; [lia|]. split; [apply len_ge1|]. eexists. split.
      + apply (run_symbols_tail _ CH_DEFAULT t1 PNone (rs_pending rs)); [exact (oc_pstat _ _ _ HOC)|exact Ht1].
      + exact (step_simple1 text bb s rs c [] CH_DEFAULT t1 true ltac:(nnl) HOC Hr).
    - destruct (c2 =? second) eqn:E2.
      + split; [lia|]. split; [apply len_ge2|]. eexists. split.
        * apply (run_symbols_tail _ CH_DEFAULT t2 PNone (rs_pending rs)); [exact (oc_pstat _ _ _ HOC)|exact Ht2].
        * exact (step_simple2 text bb s rs c c2 r' CH_DEFAULT t2 true ltac:(nnl) ltac:(nnl) HOC Hr).
      + split; [lia|]. split; [apply len_ge1|]. eexists. split.
        * apply (run_symbols_tail _ CH_DEFAULT t1 PNone (rs_pending rs)); [exact (oc_pstat _ _ _ HOC)|exact Ht1].
        * exact (step_simple1 text bb s rs c (c2 :: r') CH_DEFAULT t1 true ltac:(nnl) HOC Hr).
  Qed.

  (** '<' and '>' *)
  Definition three_way (a : char) (ta : TokenType) (b : char) (tb t1 : TokenType) : prog unit :=
    advance_ ;; s <- get ;;
    if peek_is s (fun x => x =? a) then advance_ ;; emit ta
    else if peek_is s (fun x => x =? b) then advance_ ;; emit tb
    else emit t1.

  Lemma run_three_way s c r a ta b tb t1 : c_rest (s_cur s) = c :: r ->
    run false (three_way a ta b tb t1) s =
    match r with
    | c2 :: r' => if c2 =? a then Done tt (st_emit (st_adv (st_adv s c r) c2 r') CH_DEFAULT ta PNone)
                  else if c2 =? b then Done tt (st_emit (st_adv (st_adv s c r) c2 r') CH_DEFAULT tb PNone)
                  else Done tt (st_emit (st_adv s c r) CH_DEFAULT t1 PNone)
    | [] => Done tt (st_emit (st_adv s c r) CH_DEFAULT t1 PNone)
    end.
  Proof.
    intros Hr. unfold three_way, advance_, emit, get, ret. cbn [bindP do run]. rewrite (ex_advance s c r Hr). cbn [run].
    rewrite ex_get. cbn [run]. rewrite !peek_is_scrub. unfold peek_is, peek.
    change (c_rest (s_cur (st_adv s c r))) with r.
    destruct r as [|c2 r']; [cbn [bindP do run]; rewrite ex_emit; reflexivity|].
    destruct (c2 =? a); cbn [bindP do run].
    - rewrite (ex_advance (st_adv s c (c2 :: r')) c2 r' eq_refl). cbn [run]. rewrite ex_emit. reflexivity.
    - destruct (c2 =? b); cbn [bindP do run].
      + rewrite (ex_advance (st_adv s c (c2 :: r')) c2 r' eq_refl). cbn [run]. rewrite ex_emit. reflexivity.
      + rewrite ex_emit. reflexivity.
  Qed.

  Definition THREE_TABLE : list (char * char * TokenType * char * TokenType * TokenType) :=
    [(60, 61, T_LE, 62, T_LTGT, T_LT); (62, 61, T_GE, 60, T_GTLT, T_GT)].

  Lemma lexeme_three c a ta b tb t1 r pos rs : In (c, a, ta, b, tb, t1) THREE_TABLE ->
    lexeme (c :: r) pos rs =
    match r with
    | c2 :: _ => if c2 =? a then ([mkRtok ta CH_DEFAULT pos PNone], [], 2, rs_after rs CH_DEFAULT ta true)
                 else if c2 =? b then ([mkRtok tb CH_DEFAULT pos PNone], [], 2, rs_after rs CH_DEFAULT tb true)
                 else ([mkRtok t1 CH_DEFAULT pos PNone], [], 1, rs_after rs CH_DEFAULT t1 true)
    | [] => ([mkRtok t1 CH_DEFAULT pos PNone], [], 1, rs_after rs CH_DEFAULT t1 true)
    end.
  Proof.
    intros Hin. unfold THREE_TABLE in Hin. cbn [In] in Hin.
    repeat (destruct Hin as [Hin|Hin]; [inversion Hin; subst; clear Hin; unfold lexeme; close_tests;
      (destruct r as [|c2 r']; [close_tests; reflexivity|]);
      repeat match goal with |- context [c2 =? ?k] => no_vars k; let v := eval vm_compute in k in progress change k with v end;
      destruct (c2 =? 61); [reflexivity|]; match goal with |- context [c2 =? ?k] => destruct (c2 =? k) end; reflexivity|]).
    contradiction.
  Qed.

  Lemma class_three c a ta b tb t1 r : In (c, a, ta, b, tb, t1) THREE_TABLE -> lt_class (c :: r) c.
  Proof.
    intros Hin s rs _ HOC Hr Hf.
    rewrite (lexeme_three c a ta b tb t1 r (cur_byte s + bb) rs Hin).
    assert (Hrun : run false (lex_token F msep c) s =
                   match run false (three_way a ta b tb t1) (st_start s) with
                   | Done _ X => run false (s' <- get ;;
                        when (match last_tok_type s' with Some t => negb (tt_eqb t T_PredictedCommentStat) | None => false end)
                             (set_pending_stat true)) X
                   | Panic site X => Panic site X
                   end).
    { open_default (oc_modes _ _ _ HOC) (oc_lines _ _ _ HOC).
      unfold THREE_TABLE in Hin. cbn [In] in Hin.
      repeat (destruct Hin as [Hin|Hin]; [inversion Hin; subst; clear Hin; close_tests; unfold lex_symbols; close_tests;
                                          rewrite run_bindP; reflexivity|]).
      contradiction. }
    rewrite Hrun. rewrite (run_three_way (st_start s) c r a ta b tb t1 Hr).
    assert (Ht : tt_eqb ta T_PredictedCommentStat = false /\ tt_eqb tb T_PredictedCommentStat = false /\ tt_eqb t1 T_PredictedCommentStat = false).
    { unfold THREE_TABLE in Hin. cbn [In] in Hin.
      repeat (destruct Hin as [Hin|Hin]; [inversion Hin; subst; repeat split; reflexivity|]). contradiction. }
    destruct Ht as (Hta & Htb & Ht1).
    destruct r as [|c2 r'].
    - split; [lia|]. split; [apply len_ge1|]. eexists. split.
      + apply (run_symbols_tail _ CH_DEFAULT t1 PNone (rs_pending rs)); [exact (oc_pstat _ _ _ HOC)|exact Ht1].
      + exact (step_simple1 text bb s rs c [] CH_DEFAULT t1 true ltac:(nnl) HOC Hr).
    - destruct (c2 =? a) eqn:Ea; [|destruct (c2 =? b) eqn:Eb].
      + split; [lia|]. split; [apply len_ge2|]. eexists. split.
        * apply (run_symbols_tail _ CH_DEFAULT ta PNone (rs_pending rs)); [exact (oc_pstat _ _ _ HOC)|exact Hta].
        * exact (step_simple2 text bb s rs c c2 r' CH_DEFAULT ta true ltac:(nnl) ltac:(nnl) HOC Hr).
      + split; [lia|]. split; [apply len_ge2|]. eexists. split.
        * apply (run_symbols_tail _ CH_DEFAULT tb PNone (rs_pending rs)); [exact (oc_pstat _ _ _ HOC)|exact Htb].
        * exact (step_simple2 text bb s rs c c2 r' CH_DEFAULT tb true ltac:(nnl) ltac:(nnl) HOC Hr).
      + split; [lia|]. split; [apply len_ge1|]. eexists. split.
        * apply (run_symbols_tail _ CH_DEFAULT t1 PNone (rs_pending rs)); [exact (oc_pstat _ _ _ HOC)|exact Ht1].
        * exact (step_simple1 text bb s rs c (c2 :: r') CH_DEFAULT t1 true ltac:(nnl) HOC Hr).
  Qed.

  (** '.' that does not start a number *)
  Lemma class_dot r : match r with x :: _ => is_ascii_digit x = false | [] => True end -> lt_class (c_dot :: r) c_dot.
  Proof.
    intros Hx s rs _ HOC Hr Hf.
    assert (E : lexeme (c_dot :: r) (cur_byte s + bb) rs =
                ([mkRtok T_DOT CH_DEFAULT (cur_byte s + bb) PNone], [], 1, rs_after rs CH_DEFAULT T_DOT true)).
    { unfold lexeme. close_tests. destruct r as [|x r']; [close_tests; reflexivity|]. rewrite Hx. close_tests. reflexivity. }
    rewrite E. split; [lia|]. split; [apply len_ge1|].
    exists (st_pend (st_emit (st_adv (st_start s) c_dot r) CH_DEFAULT T_DOT PNone) true). split.
    - open_default (oc_modes _ _ _ HOC) (oc_lines _ _ _ HOC). close_tests. unfold lex_symbols. close_tests.
      unfold get. cbn [bindP do run]. rewrite ex_get. cbn [run].
      assert (Hnx : is_ascii_digit (peek_next (scrub (st_start s))) = false).
      { unfold peek_next. change (c_rest (s_cur (scrub (st_start s)))) with (c_rest (s_cur s)). rewrite Hr.
        destruct r as [|x r']; [reflexivity|exact Hx]. }
      rewrite Hnx. rewrite run_bindP. rewrite (run_one (st_start s) c_dot r T_DOT Hr).
      apply (run_symbols_tail _ CH_DEFAULT T_DOT PNone (rs_pending rs)); [exact (oc_pstat _ _ _ HOC)|reflexivity].
    - exact (step_simple1 text bb s rs c_dot r CH_DEFAULT T_DOT true ltac:(nnl) HOC Hr).
  Qed.

  (** any other character: a CatchAll token on the hidden channel *)
  Definition OTHER_SYMS : list char :=
    [39; 34; 59; 47; 38; 37; 42; 33; 166; 124; 172; 94; 126; 8728; 60; 62; 61; 46; 36] ++ SYM1.

  Definition catch_all (c : char) : bool :=
    negb (is_whitespace c) && negb (is_ascii_digit c) && negb (is_valid_unicode_sas_name_start c) &&
    forallb (fun k => negb (c =? k)) OTHER_SYMS.

  Lemma catch_all_neq c k : catch_all c = true -> In k OTHER_SYMS -> (c =? k) = false.
  Proof.
    unfold catch_all. intros H Hin. apply andb_true_iff in H. destruct H as [_ H].
    rewrite forallb_forall in H. apply negb_true_iff. apply H. exact Hin.
  Qed.

  Ltac use_neq Hc :=
    repeat match goal with
           | |- context [?c =? ?k] =>
             let E := fresh "E" in
             assert (E : (c =? k) = false) by (apply (catch_all_neq c k Hc); vm_compute; tauto);
             rewrite E; clear E
           end.

  Lemma catch_all_facts c : catch_all c = true ->
    is_whitespace c = false /\ is_ascii_digit c = false /\ is_valid_unicode_sas_name_start c = false.
  Proof.
    unfold catch_all. intros H. apply andb_true_iff in H. destruct H as [H _].
    apply andb_true_iff in H. destruct H as [H Hns]. apply andb_true_iff in H. destruct H as [Hws Hdg].
    apply negb_true_iff in Hws. apply negb_true_iff in Hdg. apply negb_true_iff in Hns. auto.
  Qed.

  Lemma lexeme_catch_all c r pos rs : catch_all c = true ->
    lexeme (c :: r) pos rs = ([mkRtok T_CatchAll CH_HIDDEN pos PNone], [], 1, rs_after rs CH_HIDDEN T_CatchAll true).
  Proof.
    intros Hc. destruct (catch_all_facts c Hc) as (Hws & Hdg & Hns).
    unfold lexeme. rewrite Hws. use_neq Hc. rewrite Hdg, Hns. cbn [orb andb]. unfold sym1. use_neq Hc. reflexivity.
  Qed.

  Lemma lex_symbols_catch_all c : catch_all c = true ->
    lex_symbols F c = (advance_ ;; emit_token CH_HIDDEN T_CatchAll PNone).
  Proof. intros Hc. unfold lex_symbols. use_neq Hc. reflexivity. Qed.

  Lemma default_to_symbols c s : catch_all c = true -> s_modes s = [MDefault] -> lines_pos s ->
    run false (lex_token F msep c) s =
    run false (lex_symbols F c ;; s' <- get ;;
               when (match last_tok_type s' with Some t => negb (tt_eqb t T_PredictedCommentStat) | None => false end)
                    (set_pending_stat true)) (st_start s).
  Proof.
    intros Hc Hm Hl. destruct (catch_all_facts c Hc) as (Hws & Hdg & Hns).
    open_default Hm Hl. rewrite Hws. use_neq Hc. rewrite Hdg, Hns. reflexivity.
  Qed.

  Lemma class_catch_all c r : catch_all c = true -> lt_class (c :: r) c.
  Proof.
    intros Hc s rs _ HOC Hr Hf.
    rewrite (lexeme_catch_all c r (cur_byte s + bb) rs Hc). split; [lia|]. split; [apply len_ge1|].
    exists (st_pend (st_emit (st_adv (st_start s) c r) CH_HIDDEN T_CatchAll PNone) true). split.
    - rewrite (default_to_symbols c s Hc (oc_modes _ _ _ HOC) (oc_lines _ _ _ HOC)).
      rewrite (lex_symbols_catch_all c Hc).
      rewrite run_bindP. unfold advance_, emit_token, ret. cbn [bindP do run].
      rewrite (ex_advance (st_start s) c r Hr). cbn [run]. rewrite ex_emit.
      apply (run_symbols_tail _ CH_HIDDEN T_CatchAll PNone (rs_pending rs)); [exact (oc_pstat _ _ _ HOC)|reflexivity].
    - exact (step_simple1 text bb s rs c r CH_HIDDEN T_CatchAll true ltac:(nnl) HOC Hr).
  Qed.

End Classes2.
