(** * Sortedness and the EOF token of the detached buffer of [lex] *)
From Coq Require Import NArith ZArith List Bool Lia.
From SasLexer Require Import Gen.TokenType Gen.ErrorKind Gen.Channel Model.Base Model.Core
     Model.Lexer3 Proofs.Generic Proofs.LexGeneric Proofs.DbgErase Proofs.Sorted.
Import ListNotations.
Open Scope N_scope.

(** ascending byte offsets, in source order *)
Definition asc (l : list tok) : Prop :=
  forall i t u, nth_error l i = Some t -> nth_error l (S i) = Some u -> t_byte t <= t_byte u.

Lemma desc_asc_rev l : desc l -> asc (rev l).
Proof.
  induction l as [|a l IH]; intros D i t u Ht Hu.
  - destruct i; discriminate.
  - cbn [rev] in *.
    assert (Dl : desc l) by (eapply desc_tail; exact D).
    destruct (Nat.lt_ge_cases (S i) (List.length (rev l))) as [Hlt|Hge].
    + rewrite nth_error_app1 in Ht by lia. rewrite nth_error_app1 in Hu by lia. eapply IH; eassumption.
    + destruct (Nat.eq_dec (S i) (List.length (rev l))) as [E|NE].
      * rewrite nth_error_app1 in Ht by lia. rewrite nth_error_app2 in Hu by lia.
        rewrite E, Nat.sub_diag in Hu. cbn in Hu. inversion Hu; subst u.
        (* t is the last element of rev l = head of l *)
        destruct l as [|b l']; [cbn in E; discriminate|].
        cbn in D. destruct D as [D1 _].
        assert (t = b).
        { cbn [rev] in Ht. rewrite rev_length in E. cbn [List.length] in E.
          rewrite nth_error_app2 in Ht by (rewrite rev_length; lia).
          rewrite rev_length in Ht. replace (i - List.length l')%nat with 0%nat in Ht by lia.
          cbn in Ht. congruence. }
        subst. exact D1.
      * assert (List.length (rev l) <= i)%nat by lia.
        rewrite nth_error_app2 in Hu by lia.
        destruct (S i - List.length (rev l))%nat as [|k] eqn:Ek; [lia|]. cbn in Hu. destruct k; discriminate.
Qed.

Lemma lex_text_state_sorted m bb bc text :
  lr_outcome (lex_text (mkCfg true m) bb bc text) = None -> sorted_st (lr_state (lex_text (mkCfg true m) bb bc text)).
Proof.
  unfold lex_text. cbn [dbg msep].
  match goal with |- context [run true ?p (init text)] => set (ml := p) end.
  assert (S0 : sorted_st (init text)) by exact I.
  pose proof (run_sorted ml (init text) S0) as R1.
  destruct (run true ml (init text)) as [det s1|site s1]; [|cbn; discriminate].
  cbn [res_sorted] in R1. destruct det; [intros _; exact R1|].
  pose proof (run_sorted (finalize_lexing (S (S (N.to_nat (s_nmodes s1))))) s1 R1) as R2.
  destruct (run true (finalize_lexing _) s1); [intros _; exact R2|cbn; discriminate].
Qed.

Lemma detached_toks_asc text s :
  InvPos text s -> sorted_st s -> asc (detached_toks s).
Proof.
  intros I D. unfold detached_toks.
  destruct (match w_toks (s_buf s) with t :: _ => tt_eqb (t_type t) T_EOF | [] => false end).
  - apply desc_asc_rev. exact D.
  - apply desc_asc_rev. unfold sorted_st in D.
    destruct (w_toks (s_buf s)) as [|a l] eqn:E; [exact Logic.I|].
    cbn [desc]. split; [|exact D]. cbn [t_byte].
    pose proof (ip_toks _ _ I) as Ht. rewrite E in Ht. inversion Ht; subst.
    match goal with H : tok_pos _ a |- _ => destruct (IsPos_le _ _ _ H) as [Hb _] end.
    rewrite (ip_srclen _ _ I). exact Hb.
Qed.

Lemma asc_map_shift bb bc l : asc l -> asc (map (shift_tok bb bc) l).
Proof.
  intros H i t u Ht Hu. rewrite nth_error_map in Ht, Hu.
  destruct (nth_error l i) as [t0|] eqn:E1; [|discriminate].
  destruct (nth_error l (S i)) as [u0|] eqn:E2; [|discriminate].
  cbn in Ht, Hu. inversion Ht; inversion Hu; subst. cbn [shift_tok t_byte].
  pose proof (H i t0 u0 E1 E2). lia.
Qed.

Theorem lex_sorted_debug m src :
  lr_outcome (lex (mkCfg true m) src) = None -> asc (b_toks (lr_buffer (lex (mkCfg true m) src))).
Proof.
  unfold lex. destruct (split_bom src) as [[bb bc] text]. intros H.
  destruct (lex_text_buffer_errors (mkCfg true m) bb bc text) as [-> _].
  rewrite into_detached_toks. apply asc_map_shift.
  apply (detached_toks_asc text); [apply lex_text_state_InvPos|apply lex_text_state_sorted; exact H].
Qed.

Lemma into_detached_last_eof bb bc s d0 :
  t_type (last (b_toks (into_detached bb bc s)) d0) = T_EOF.
Proof.
  rewrite into_detached_toks. unfold detached_toks.
  destruct (w_toks (s_buf s)) as [|a l] eqn:E; cbn -[len].
  - reflexivity.
  - destruct (tt_eqb (t_type a) T_EOF) eqn:Ea.
    + cbn [rev]. rewrite map_app. cbn [map]. rewrite last_last. apply tt_eqb_eq. exact Ea.
    + cbn [rev]. rewrite map_app. cbn [map]. rewrite last_last. reflexivity.
Qed.
