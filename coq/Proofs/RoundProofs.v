(** * [round_b64] is IEEE-754 binary64 round-to-nearest-even (C08), stated against Flocq's
    generic rounding operator: [round radix2 (FLT_exp (-1074) 53) ZnearestE]. *)
From Coq Require Import NArith ZArith List Bool Lia Reals Lra Psatz.
From Flocq Require Import Core.
From SasLexer Require Import Gen.TokenType Gen.ErrorKind Gen.Channel Model.Base Model.Helpers Model.Numeric.
Import ListNotations.

Local Open Scope R_scope.

Definition b64_fmt := FLT_exp (-1074) 53.
Definition b64_round (x : R) : R := round radix2 b64_fmt ZnearestE x.

Definition QR (num den : N) : R := IZR (Z.of_N num) / IZR (Z.of_N den).

(** ** A. [div_rne] is Flocq's nearest-even integer rounding of the quotient *)
Lemma div_rne_Znearest a b : (0 < b)%N ->
  Z.of_N (div_rne a b) = ZnearestE (QR a b).
Proof.
  intros Hb. unfold QR.
  set (A := Z.of_N a). set (B := Z.of_N b).
  assert (HB : (0 < B)%Z) by (subst B; lia).
  assert (HA : (0 <= A)%Z) by (subst A; lia).
  assert (Hfl : Zfloor (IZR A / IZR B) = (A / B)%Z) by (apply Zfloor_div; lia).
  pose proof (Z.div_mod A B ltac:(lia)) as Hdm.
  pose proof (Z.mod_pos_bound A B HB) as Hmod.
  set (q := (A / B)%Z) in *. set (r := (A mod B)%Z) in *.
  assert (HBr : 0 < IZR B) by (apply IZR_lt; lia).
  assert (Hx : IZR A / IZR B - IZR q = IZR r / IZR B).
  { rewrite Hdm. rewrite plus_IZR, mult_IZR. field. lra. }
  (* the model's quotient and remainder *)
  assert (Hq : Z.of_N (a / b) = q) by (subst q A B; rewrite N2Z.inj_div; reflexivity).
  assert (Hr : Z.of_N (a mod b) = r) by (subst r A B; rewrite N2Z.inj_mod; reflexivity).
  unfold div_rne, Znearest. rewrite Hfl, Hx.
  destruct (N.ltb_spec (2 * (a mod b)) b) as [L1|L1].
  - (* below the middle *)
    assert (H2 : (2 * r < B)%Z) by (subst B; rewrite <- Hr; lia).
    rewrite Rcompare_Lt; [exact Hq|].
    apply Rmult_lt_reg_r with (IZR B); [exact HBr|].
    unfold Rdiv. rewrite Rmult_assoc, Rinv_l, Rmult_1_r by lra.
    apply Rmult_lt_reg_l with 2; [lra|]. replace (2 * (/ 2 * IZR B)) with (IZR B) by field.
    rewrite <- mult_IZR. apply IZR_lt. exact H2.
  - assert (Hnz : IZR (Zfloor (IZR A / IZR B)) <> IZR A / IZR B).
    { rewrite Hfl. intros E. fold q in E. rewrite <- E in Hx.
      replace (IZR q - IZR q) with 0 in Hx by ring.
      assert (r = 0%Z).
      { apply eq_IZR. apply Rmult_eq_reg_r with (/ IZR B); [|apply Rinv_neq_0_compat; lra].
        unfold Rdiv in Hx. rewrite <- Hx. ring. }
      subst B. rewrite <- Hr in *. lia. }
    pose proof (Zceil_floor_neq _ Hnz) as Hceil. rewrite Hfl in Hceil. fold q in Hceil.
    destruct (N.ltb_spec b (2 * (a mod b))) as [L2|L2].
    + assert (H2 : (B < 2 * r)%Z) by (subst B; rewrite <- Hr; lia).
      rewrite Rcompare_Gt.
      * rewrite Hceil. rewrite N2Z.inj_add. rewrite Hq. reflexivity.
      * apply Rmult_lt_reg_r with (IZR B); [exact HBr|].
        unfold Rdiv. rewrite Rmult_assoc, Rinv_l, Rmult_1_r by lra.
        apply Rmult_lt_reg_l with 2; [lra|]. replace (2 * (/ 2 * IZR B)) with (IZR B) by field.
        rewrite <- mult_IZR. apply IZR_lt. exact H2.
    + assert (H2 : (B = 2 * r)%Z) by (subst B; rewrite <- Hr; lia).
      rewrite Rcompare_Eq.
      * assert (He : N.even (a / b) = Z.even q).
        { rewrite <- Hq. destruct (a / b)%N as [|[p|p|]]; reflexivity. }
        rewrite He. destruct (Z.even q); cbn [negb].
        -- exact Hq.
        -- rewrite Hceil, N2Z.inj_add, Hq. reflexivity.
      * rewrite H2. rewrite mult_IZR. field.
        intros E. assert (IZR r = 0) by lra. apply eq_IZR in H. lia.
Qed.

(** ** B. scaling by a power of two *)
Lemma pow2_Z k : Z.of_N (pow2 k) = (2 ^ Z.of_N k)%Z.
Proof. unfold pow2. rewrite N.shiftl_1_l. rewrite N2Z.inj_pow. reflexivity. Qed.

Lemma pow2_R k : IZR (Z.of_N (pow2 k)) = bpow radix2 (Z.of_N k).
Proof. rewrite pow2_Z. rewrite <- IZR_Zpower by lia. reflexivity. Qed.

Lemma pow2_pos k : (0 < pow2 k)%N.
Proof. unfold pow2. rewrite N.shiftl_1_l. apply N.neq_0_lt_0. apply N.pow_nonzero. discriminate. Qed.

Lemma QR_scale num den s : (0 < den)%N ->
  QR num den * bpow radix2 (- s) =
  match s with
  | Z0 => QR num den
  | Zpos p => QR num (den * pow2 (Npos p))
  | Zneg p => QR (num * pow2 (Npos p)) den
  end.
Proof.
  intros Hd. assert (Hdr : 0 < IZR (Z.of_N den)) by (apply IZR_lt; lia).
  destruct s as [|p|p].
  - cbn [Z.opp bpow]. ring.
  - unfold QR. rewrite N2Z.inj_mul, mult_IZR, pow2_R.
    change (- Z.pos p)%Z with (- Z.of_N (N.pos p))%Z. rewrite bpow_opp.
    field. split; [apply Rgt_not_eq, bpow_gt_0|lra].
  - unfold QR. rewrite N2Z.inj_mul, mult_IZR, pow2_R.
    change (- Z.neg p)%Z with (Z.of_N (N.pos p)). field. lra.
Qed.

Lemma round_at_spec num den s : (0 < den)%N ->
  Z.of_N (round_at num den s) = ZnearestE (QR num den * bpow radix2 (- s)).
Proof.
  intros Hd. rewrite (QR_scale num den s Hd). unfold round_at.
  destruct s as [|p|p]; apply div_rne_Znearest; try exact Hd.
  apply N.mul_pos_pos; [exact Hd|apply pow2_pos].
Qed.

Lemma QR_floor a b : (0 < b)%N -> Zfloor (QR a b) = Z.of_N (a / b).
Proof. intros Hb. unfold QR. rewrite Zfloor_div by lia. rewrite N2Z.inj_div. reflexivity. Qed.

Lemma floor_at_spec num den s : (0 < den)%N ->
  Z.of_N (floor_at num den s) = Zfloor (QR num den * bpow radix2 (- s)).
Proof.
  intros Hd. rewrite (QR_scale num den s Hd). unfold floor_at.
  destruct s as [|p|p]; symmetry; apply QR_floor; try exact Hd.
  apply N.mul_pos_pos; [exact Hd|apply pow2_pos].
Qed.

(** ** C. the exponent chosen by [round_b64] is the canonical exponent *)
Lemma cexp_normal x s : (-1074 <= s)%Z ->
  bpow radix2 52 <= x * bpow radix2 (- s) < bpow radix2 53 ->
  cexp radix2 b64_fmt x = s.
Proof.
  intros Hs [H1 H2]. unfold cexp, b64_fmt, FLT_exp.
  assert (Hm : (mag radix2 x : Z) = (53 + s)%Z).
  { apply mag_unique_pos. split.
    - replace (53 + s - 1)%Z with (52 + s)%Z by lia. rewrite bpow_plus.
      apply Rmult_le_reg_r with (bpow radix2 (- s)); [apply bpow_gt_0|].
      rewrite Rmult_assoc, <- bpow_plus. replace (s + - s)%Z with 0%Z by lia. change (bpow radix2 0) with 1. lra.
    - rewrite bpow_plus.
      apply Rmult_lt_reg_r with (bpow radix2 (- s)); [apply bpow_gt_0|].
      rewrite Rmult_assoc, <- bpow_plus. replace (s + - s)%Z with 0%Z by lia. change (bpow radix2 0) with 1. lra. }
  rewrite Hm. lia.
Qed.

Lemma cexp_subnormal x : 0 < x ->
  x * bpow radix2 1074 < bpow radix2 52 ->
  cexp radix2 b64_fmt x = (-1074)%Z.
Proof.
  intros Hx H. unfold cexp, b64_fmt, FLT_exp.
  assert (Hm : (mag radix2 x <= -1022)%Z).
  { apply mag_le_bpow; [lra|]. rewrite Rabs_pos_eq by lra.
    apply Rmult_lt_reg_r with (bpow radix2 1074); [apply bpow_gt_0|].
    rewrite <- bpow_plus. exact H. }
  lia.
Qed.

Lemma log2_bounds n : (0 < n)%N ->
  bpow radix2 (Z.of_N (N.log2 n)) <= IZR (Z.of_N n) < bpow radix2 (Z.of_N (N.log2 n) + 1).
Proof.
  intros Hn. destruct (N.log2_spec n Hn) as [L U]. split.
  - rewrite <- IZR_Zpower by lia. apply IZR_le.
    assert (H : (Z.of_N (2 ^ N.log2 n) <= Z.of_N n)%Z) by lia. rewrite N2Z.inj_pow in H. exact H.
  - replace (Z.of_N (N.log2 n) + 1)%Z with (Z.of_N (N.succ (N.log2 n))) by lia.
    rewrite <- IZR_Zpower by lia. apply IZR_lt.
    assert (H : (Z.of_N n < Z.of_N (2 ^ N.succ (N.log2 n)))%Z) by lia. rewrite N2Z.inj_pow in H. exact H.
Qed.

Lemma QR_bounds num den : (0 < num)%N -> (0 < den)%N ->
  let k0 := (Z.of_N (N.log2 num) - Z.of_N (N.log2 den))%Z in
  bpow radix2 (k0 - 1) < QR num den < bpow radix2 (k0 + 1).
Proof.
  intros Hn Hd k0. destruct (log2_bounds num Hn) as [N1 N2]. destruct (log2_bounds den Hd) as [D1 D2].
  set (ln := Z.of_N (N.log2 num)) in *. set (ld := Z.of_N (N.log2 den)) in *.
  assert (Hdp : 0 < IZR (Z.of_N den)) by (apply IZR_lt; lia).
  unfold QR. split.
  - apply Rmult_lt_reg_r with (IZR (Z.of_N den)); [exact Hdp|].
    unfold Rdiv. rewrite Rmult_assoc, Rinv_l, Rmult_1_r by lra.
    apply Rlt_le_trans with (bpow radix2 (k0 - 1) * bpow radix2 (ld + 1)).
    + apply Rmult_lt_compat_l; [apply bpow_gt_0|exact D2].
    + rewrite <- bpow_plus. replace (k0 - 1 + (ld + 1))%Z with ln by (subst k0; lia). exact N1.
  - apply Rmult_lt_reg_r with (IZR (Z.of_N den)); [exact Hdp|].
    unfold Rdiv. rewrite Rmult_assoc, Rinv_l, Rmult_1_r by lra.
    apply Rlt_le_trans with (bpow radix2 (ln + 1)); [exact N2|].
    replace (ln + 1)%Z with (k0 + 1 + ld)%Z by (subst k0; lia). rewrite bpow_plus.
    apply Rmult_le_compat_l; [apply bpow_ge_0|exact D1].
Qed.

(** the exponent after the normalisation step of [round_b64] *)
Definition sel_exp (num den : N) : Z :=
  let k0 := (Z.of_N (N.log2 num) - Z.of_N (N.log2 den))%Z in
  let s0 := Z.max (k0 - 52) (-1074)%Z in
  let q0 := floor_at num den s0 in
  if (TWO53 <=? q0)%N then (s0 + 1)%Z
  else if (q0 <? TWO52)%N && (-1074 <? s0)%Z then (s0 - 1)%Z
  else s0.

Lemma TWO52_R : IZR (Z.of_N TWO52) = bpow radix2 52.
Proof. change (Z.of_N TWO52) with (Zpower radix2 52). apply IZR_Zpower. lia. Qed.
Lemma TWO53_R : IZR (Z.of_N TWO53) = bpow radix2 53.
Proof. change (Z.of_N TWO53) with (Zpower radix2 53). apply IZR_Zpower. lia. Qed.

Lemma sel_exp_correct num den : (0 < num)%N -> (0 < den)%N ->
  cexp radix2 b64_fmt (QR num den) = sel_exp num den /\ (-1074 <= sel_exp num den)%Z.
Proof.
  intros Hn Hd. pose proof (QR_bounds num den Hn Hd) as HB. cbv zeta in HB.
  unfold sel_exp.
  set (k0 := (Z.of_N (N.log2 num) - Z.of_N (N.log2 den))%Z) in *.
  set (s0 := Z.max (k0 - 52) (-1074)%Z).
  set (x := QR num den) in *.
  assert (Hx : 0 < x) by (eapply Rlt_trans; [apply (bpow_gt_0 radix2 (k0 - 1))|apply HB]).
  pose proof (floor_at_spec num den s0 Hd) as Hq0. fold x in Hq0.
  set (y0 := x * bpow radix2 (- s0)) in *.
  assert (Hy_hi : y0 < bpow radix2 53).
  { unfold y0. apply Rlt_le_trans with (bpow radix2 (k0 + 1) * bpow radix2 (- s0)).
    - apply Rmult_lt_compat_r; [apply bpow_gt_0|apply HB].
    - rewrite <- bpow_plus. apply bpow_le. subst s0. lia. }
  assert (Hfl : IZR (Zfloor y0) <= y0 < IZR (Zfloor y0) + 1).
  { split; [apply Zfloor_lb|apply Zfloor_ub]. }
  destruct (N.leb_spec TWO53 (floor_at num den s0)) as [L|L].
  { exfalso. assert (bpow radix2 53 <= IZR (Zfloor y0)).
    { rewrite <- Hq0, <- TWO53_R. apply IZR_le. lia. }
    lra. }
  destruct (N.ltb_spec (floor_at num den s0) TWO52) as [L2|L2]; cbn [andb].
  - assert (Hy_lo2 : y0 < bpow radix2 52).
    { assert (IZR (Zfloor y0) + 1 <= bpow radix2 52).
      { rewrite <- Hq0, <- TWO52_R, <- plus_IZR. apply IZR_le. lia. }
      lra. }
    destruct (Z.ltb_spec (-1074) s0) as [L3|L3].
    + (* one binade lower *)
      assert (Es0 : s0 = (k0 - 52)%Z) by (subst s0; lia).
      split; [|lia]. apply cexp_normal; [lia|].
      replace (- (s0 - 1))%Z with (- s0 + 1)%Z by lia. rewrite bpow_plus, <- Rmult_assoc. fold y0.
      change (bpow radix2 1) with 2.
      assert (bpow radix2 51 < y0).
      { unfold y0. apply Rle_lt_trans with (bpow radix2 (k0 - 1) * bpow radix2 (- s0)).
        - rewrite <- bpow_plus. apply bpow_le. lia.
        - apply Rmult_lt_compat_r; [apply bpow_gt_0|apply HB]. }
      assert (E52 : bpow radix2 52 = 2 * bpow radix2 51) by (change 52%Z with (1 + 51)%Z; rewrite bpow_plus; reflexivity).
      assert (E53 : bpow radix2 53 = 2 * bpow radix2 52) by (change 53%Z with (1 + 52)%Z; rewrite bpow_plus; reflexivity).
      lra.
    + assert (Es0 : s0 = (-1074)%Z) by (subst s0; lia).
      split; [|lia]. rewrite Es0. apply cexp_subnormal; [exact Hx|].
      unfold y0 in Hy_lo2. rewrite Es0 in Hy_lo2. exact Hy_lo2.
  - split; [|subst s0; lia]. apply cexp_normal; [subst s0; lia|]. fold y0. split; [|exact Hy_hi].
    apply Rle_trans with (IZR (Zfloor y0)); [|apply Hfl].
    rewrite <- Hq0, <- TWO52_R. apply IZR_le. lia.
Qed.

(** ** D. encoding *)
Definition b64_value (bits : N) : R :=
  let e := (bits / TWO52)%N in
  let m := (bits mod TWO52)%N in
  if (e =? 0)%N then IZR (Z.of_N m) * bpow radix2 (-1074)
  else IZR (Z.of_N (TWO52 + m)) * bpow radix2 (Z.of_N e - 1075).

Lemma scaled_bounds x s : 0 < x -> cexp radix2 b64_fmt x = s ->
  x * bpow radix2 (- s) < bpow radix2 53 /\
  (x * bpow radix2 (- s) < bpow radix2 52 -> s = (-1074)%Z).
Proof.
  intros Hx Hc. unfold cexp, b64_fmt, FLT_exp in Hc.
  pose proof (bpow_mag_gt radix2 x) as Hgt. rewrite Rabs_pos_eq in Hgt by lra.
  pose proof (bpow_mag_le radix2 x ltac:(lra)) as Hle. rewrite Rabs_pos_eq in Hle by lra.
  set (m := (mag radix2 x : Z)) in *.
  split.
  - apply Rlt_le_trans with (bpow radix2 m * bpow radix2 (- s)).
    + apply Rmult_lt_compat_r; [apply bpow_gt_0|exact Hgt].
    + rewrite <- bpow_plus. apply bpow_le. lia.
  - intros Hlow. destruct (Z.eq_dec s (-1074)) as [E|E]; [exact E|exfalso].
    assert (Em : (m - 53 = s)%Z) by lia.
    assert (bpow radix2 52 <= x * bpow radix2 (- s)).
    { apply Rle_trans with (bpow radix2 (m - 1) * bpow radix2 (- s)).
      - rewrite <- bpow_plus. apply bpow_le. lia.
      - apply Rmult_le_compat_r; [apply bpow_ge_0|exact Hle]. }
    lra.
Qed.

Lemma ZnearestE_ge n y : IZR n <= y -> (n <= ZnearestE y)%Z.
Proof. intros H. rewrite <- (Zrnd_IZR (Znearest (fun x => negb (Z.even x))) n). apply Zrnd_le; [apply valid_rnd_N|exact H]. Qed.

Lemma ZnearestE_le n y : y <= IZR n -> (ZnearestE y <= n)%Z.
Proof. intros H. rewrite <- (Zrnd_IZR (Znearest (fun x => negb (Z.even x))) n). apply Zrnd_le; [apply valid_rnd_N|exact H]. Qed.

Lemma round_b64_unfold num den : num <> 0%N ->
  round_b64 num den =
  let s1 := sel_exp num den in
  let q := round_at num den s1 in
  let '(q, s) := if (TWO53 <=? q)%N then (TWO52, (s1 + 1)%Z) else (q, s1) in
  if (q <? TWO52)%N then q
  else let e := (s + 52 + 1023)%Z in
       if (2047 <=? e)%Z then INF_BITS else (Z.to_N e * TWO52 + (q - TWO52))%N.
Proof. intros H. unfold round_b64, sel_exp. apply N.eqb_neq in H. rewrite H. reflexivity. Qed.

Theorem round_b64_correct num den : (0 < den)%N ->
  let x := QR num den in
  (b64_round x < bpow radix2 1024 ->
     (round_b64 num den < INF_BITS)%N /\ b64_value (round_b64 num den) = b64_round x) /\
  (bpow radix2 1024 <= b64_round x -> round_b64 num den = INF_BITS).
Proof.
  intros Hd x.
  destruct (N.eq_dec num 0) as [E0|E0].
  { subst num. assert (Hx0 : x = 0) by (unfold x, QR; cbn; unfold Rdiv; ring).
    unfold b64_round. rewrite Hx0, round_0 by apply valid_rnd_N.
    change (round_b64 0 den) with 0%N. split.
    - intros _. split; [reflexivity|]. unfold b64_value. cbn. ring.
    - intros H. exfalso. pose proof (bpow_gt_0 radix2 1024). lra. }
  assert (Hn : (0 < num)%N) by lia.
  destruct (sel_exp_correct num den Hn Hd) as [Hc Hs]. fold x in Hc.
  assert (Hx : 0 < x).
  { unfold x, QR. apply Rdiv_lt_0_compat; apply IZR_lt; lia. }
  set (s1 := sel_exp num den) in *.
  pose proof (round_at_spec num den s1 Hd) as Hq. fold x in Hq.
  destruct (scaled_bounds x s1 Hx Hc) as [Yhi Ylo].
  set (y := x * bpow radix2 (- s1)) in *.
  assert (Hr : b64_round x = IZR (Z.of_N (round_at num den s1)) * bpow radix2 s1).
  { unfold b64_round, round, F2R, scaled_mantissa. cbn [Fnum Fexp]. rewrite Hc. fold y. rewrite Hq. reflexivity. }
  set (q := round_at num den s1) in *.
  assert (Hq_hi : (q <= TWO53)%N).
  { assert (Z.of_N q <= Z.of_N TWO53)%Z; [|lia]. rewrite Hq. apply ZnearestE_le. rewrite TWO53_R. lra. }
  rewrite (round_b64_unfold num den E0). cbv zeta. fold s1. fold q.
  (* normalise a carry out of the significand *)
  assert (Hnorm : exists q' s', (if (TWO53 <=? q)%N then (TWO52, (s1 + 1)%Z) else (q, s1)) = (q', s') /\
            (q' < TWO53)%N /\ (-1074 <= s')%Z /\ b64_round x = IZR (Z.of_N q') * bpow radix2 s' /\
            ((q' < TWO52)%N -> s' = (-1074)%Z)).
  { destruct (N.leb_spec TWO53 q) as [L|L].
    - exists TWO52, (s1 + 1)%Z. split; [reflexivity|]. split; [reflexivity|]. split; [lia|]. split.
      + rewrite Hr. assert (q = TWO53) by lia. subst q. rewrite H. rewrite TWO53_R, TWO52_R, <- !bpow_plus. f_equal. lia.
      + intros C. exfalso. revert C. apply N.lt_irrefl.
    - exists q, s1. split; [reflexivity|]. split; [exact L|]. split; [exact Hs|]. split; [exact Hr|].
      intros C. apply Ylo. destruct (Rlt_or_le y (bpow radix2 52)) as [G|G]; [exact G|exfalso].
      assert (Z.of_N TWO52 <= Z.of_N q)%Z; [|lia]. rewrite Hq. apply ZnearestE_ge. rewrite TWO52_R. exact G. }
  destruct Hnorm as (q' & s' & -> & Q1 & Q2 & Q3 & Q4).
  destruct (N.ltb_spec q' TWO52) as [L|L].
  - (* subnormal *)
    specialize (Q4 L). subst s'.
    assert (Hsmall : b64_round x < bpow radix2 1024).
    { rewrite Q3. apply Rlt_trans with (bpow radix2 52 * bpow radix2 (-1074)).
      - apply Rmult_lt_compat_r; [apply bpow_gt_0|]. rewrite <- TWO52_R. apply IZR_lt. lia.
      - rewrite <- bpow_plus. apply bpow_lt. lia. }
    split; [|intros C; lra]. intros _. split.
    + eapply N.lt_trans; [exact L|reflexivity].
    + unfold b64_value. rewrite (N.div_small q' TWO52 L), (N.mod_small q' TWO52 L). cbn [N.eqb]. symmetry. exact Q3.
  - set (e := (s' + 52 + 1023)%Z).
    destruct (Z.leb_spec 2047 e) as [Le|Le].
    + split; [|reflexivity]. intros C. exfalso.
      assert (bpow radix2 1024 <= b64_round x); [|lra].
      rewrite Q3. apply Rle_trans with (bpow radix2 52 * bpow radix2 s').
      * rewrite <- bpow_plus. apply bpow_le. subst e. lia.
      * apply Rmult_le_compat_r; [apply bpow_ge_0|]. rewrite <- TWO52_R. apply IZR_le. lia.
    + assert (He1 : (1 <= e)%Z) by (subst e; lia).
      set (m := (q' - TWO52)%N). assert (Hm : (m < TWO52)%N) by (subst m; unfold TWO52, TWO53 in *; lia).
      assert (Hbits_div : ((Z.to_N e * TWO52 + m) / TWO52 = Z.to_N e)%N).
      { rewrite N.div_add_l by discriminate. rewrite (N.div_small m TWO52 Hm). lia. }
      assert (Hbits_mod : ((Z.to_N e * TWO52 + m) mod TWO52 = m)%N).
      { rewrite N.add_comm, N.mod_add by discriminate. apply N.mod_small. exact Hm. }
      assert (Hfin : b64_round x < bpow radix2 1024).
      { rewrite Q3. apply Rlt_le_trans with (bpow radix2 53 * bpow radix2 s').
        - apply Rmult_lt_compat_r; [apply bpow_gt_0|]. rewrite <- TWO53_R. apply IZR_lt. lia.
        - rewrite <- bpow_plus. apply bpow_le. subst e. lia. }
      split; [|intros C; lra]. intros _. split.
      * unfold INF_BITS. unfold TWO52 in *. lia.
      * unfold b64_value. rewrite Hbits_div, Hbits_mod.
        destruct (N.eqb_spec (Z.to_N e) 0) as [Z0|_]; [lia|].
        rewrite Q3. replace (TWO52 + m)%N with q' by (subst m; lia).
        f_equal. f_equal. rewrite Z2N.id by lia. subst e. lia.
Qed.

(** ** E. [b64_value] is Flocq's reading of the IEEE-754 binary64 bit pattern *)
From Flocq Require Import IEEE754.Binary IEEE754.Bits.

Lemma b64_value_flocq bits : (bits < INF_BITS)%N ->
  B2R 53 1024 (b64_of_bits (Z.of_N bits)) = b64_value bits.
Proof.
  intros Hb. unfold b64_of_bits, binary_float_of_bits. rewrite B2R_FF2B.
  unfold binary_float_of_bits_aux, split_bits.
  set (x := Z.of_N bits).
  assert (Hx : (0 <= x < 2047 * 2 ^ 52)%Z) by (subst x; unfold INF_BITS in Hb; lia).
  assert (Hs : Zle_bool (Zpower 2 52 * Zpower 2 11) x = false).
  { apply Z.leb_gt. change (Zpower 2 52 * Zpower 2 11)%Z with (2048 * 2 ^ 52)%Z. lia. }
  rewrite Hs.
  assert (He : ((x / Zpower 2 52) mod Zpower 2 11 = x / 2 ^ 52)%Z).
  { apply Z.mod_small. split; [apply Z.div_pos; lia|]. change (Zpower 2 11) with 2048%Z.
    apply Z.div_lt_upper_bound; lia. }
  rewrite He.
  assert (Ediv : (x / 2 ^ 52)%Z = Z.of_N (bits / TWO52)) by (subst x; rewrite N2Z.inj_div; reflexivity).
  assert (Emod : (x mod Zpower 2 52)%Z = Z.of_N (bits mod TWO52)) by (subst x; rewrite N2Z.inj_mod; reflexivity).
  rewrite Emod, Ediv. unfold b64_value.
  set (e := (bits / TWO52)%N). set (m := (bits mod TWO52)%N).
  assert (He2 : (e < 2047)%N).
  { subst e. apply N.div_lt_upper_bound; [discriminate|]. unfold INF_BITS, TWO52 in *. lia. }
  assert (Hm : (m < TWO52)%N) by (subst m; apply N.mod_lt; discriminate).
  destruct (N.eqb_spec e 0) as [E0|E0].
  - rewrite E0. cbn [Z.of_N Zeq_bool Z.compare].
    destruct m as [|p]; cbn [Z.of_N].
    + cbn [FF2R]. ring.
    + cbn [FF2R cond_Zopp]. unfold F2R. cbn [Fnum Fexp]. reflexivity.
  - assert (Z1 : Zeq_bool (Z.of_N e) 0 = false).
    { destruct e; [contradiction|reflexivity]. }
    rewrite Z1.
    assert (Z2 : Zeq_bool (Z.of_N e) (Zpower 2 11 - 1) = false).
    { change (Zpower 2 11 - 1)%Z with 2047%Z.
      destruct (Zeq_bool (Z.of_N e) 2047) eqn:Q; [|reflexivity]. apply Zeq_bool_eq in Q. lia. }
    rewrite Z2.
    replace (Z.of_N m + Zpower 2 52)%Z with (Z.of_N (TWO52 + m)) by (rewrite N2Z.inj_add; change (Z.of_N TWO52) with (Zpower 2 52); lia).
    destruct (TWO52 + m)%N as [|p] eqn:Ep; [unfold TWO52 in Ep; lia|].
    cbn [Z.of_N FF2R cond_Zopp]. unfold F2R. cbn [Fnum Fexp]. f_equal. f_equal.
    change (SpecFloat.emin (52 + 1) (2 ^ (11 - 1))) with (-1074)%Z. lia.
Qed.
