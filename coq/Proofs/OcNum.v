(** * Open code = reference lexer (C11): numeric literals *)
From Coq Require Import NArith ZArith List Bool Lia String.
From RecordUpdate Require Import RecordSet.
From SasLexer Require Import Gen.TokenType Gen.ErrorKind Gen.Channel Gen.Unicode Model.Base Model.Core
     Model.Helpers Model.Numeric Model.Lexer1 Model.Lexer2 Model.Lexer3 Spec.RefLex
     Proofs.Generic Proofs.LexGeneric Proofs.Bom Proofs.SemiProgram Proofs.SemiCompose Proofs.RefLexProofs
     Proofs.OcBase Proofs.OcSym Proofs.OcScan.
Import ListNotations RecordSetNotations.
Open Scope N_scope.

(** errors reported one after the other at the current position *)
Fixpoint emit_errs (s : st) (ks : list ErrorKind) : st :=
  match ks with [] => s | k :: r => emit_errs (Core.emit_error s k) r end.

Fixpoint prog_errs (ks : list ErrorKind) : prog unit :=
  match ks with [] => ret tt | k :: r => emit_error k ;; prog_errs r end.

Lemma run_prog_errs ks : forall s, run false (prog_errs ks) s = Done tt (emit_errs s ks).
Proof.
  induction ks as [|k r IH]; intros s; [reflexivity|]. cbn [prog_errs emit_errs]. unfold emit_error.
  cbn [bindP do run]. rewrite ex_emit_error. cbn [run]. apply IH.
Qed.

(** everything but the error list (and the ghosts) *)
Definition noerr_view (s : st) :=
  (s_src s, s_srclen s, s_cur s, s_buf s, (s_ct_byte s, s_ct_start s, s_ct_line s), s_modes s, s_nmodes s,
   (s_cp s, s_mnl s, s_pstat s, s_mark s, s_perr s), (s_iters s, s_aborted s, s_loop_detected s)).

Lemma lines_pos_emit_errs ks : forall s, lines_pos s -> lines_pos (emit_errs s ks).
Proof. induction ks as [|k r IH]; intros s H; [exact H|]. cbn [emit_errs]. apply IH, lines_pos_error. exact H. Qed.

Lemma emit_errs_view ks : forall s, noerr_view (emit_errs s ks) = noerr_view s.
Proof. induction ks as [|k r IH]; intros s; [reflexivity|]. cbn [emit_errs]. rewrite IH. reflexivity. Qed.

Lemma emit_errs_errs bb ks : forall s,
  map (ev bb) (s_errs (emit_errs s ks)) = rev (map (fun k => (k, cur_byte s + bb)) ks) ++ map (ev bb) (s_errs s).
Proof.
  induction ks as [|k r IH]; intros s; [reflexivity|]. cbn [emit_errs map rev]. rewrite IH.
  change (cur_byte (Core.emit_error s k)) with (cur_byte s). rewrite <- app_assoc. reflexivity.
Qed.

Record NoErrEq (a b : st) : Prop := {
  ne_src : s_src a = s_src b; ne_srclen : s_srclen a = s_srclen b; ne_cur : s_cur a = s_cur b; ne_buf : s_buf a = s_buf b;
  ne_ctb : s_ct_byte a = s_ct_byte b;
  ne_modes : s_modes a = s_modes b; ne_cp : s_cp a = s_cp b; ne_mnl : s_mnl a = s_mnl b; ne_pstat : s_pstat a = s_pstat b;
  ne_iters : s_iters a = s_iters b; ne_ab : s_aborted a = s_aborted b; ne_ld : s_loop_detected a = s_loop_detected b
}.

Lemma noerr_eq a b : noerr_view a = noerr_view b -> NoErrEq a b.
Proof. unfold noerr_view. intros H. inversion H. constructor; assumption. Qed.


(** ** The choice between the decimal and the hexadecimal reading *)
Definition is_xc (c : char) : bool := (c =? ch "x"%string) || (c =? ch "X"%string).

Definition num_choice (l : list char) (seen_dot : bool) : numres * bool :=
  let hexr := if seen_dot then None else try_parse_hex_integer l in
  let decr := try_parse_decimal l (negb seen_dot) true in
  match decr, hexr with
  | Some dr, Some hr =>
    if n_len hr <? n_len dr then (dr, false)
    else if n_len dr <? n_len hr then (hr, true)
    else match nthN l (n_len hr) with
         | Some c => if is_xc c then (hr, true) else (dr, false)
         | None => (dr, false)
         end
  | Some dr, None => (dr, false)
  | None, Some hr => (hr, true)
  | None, None =>
    (mkNum T_FloatLiteral (PFloat 0) (len (take_while is_ascii_digit l)) (Some E_InvalidNumericLiteral), false)
  end.

Lemma nthN_skipn {A} (l : list A) : forall n,
  nthN l n = match skipn_N (N.to_nat n) l with c :: _ => Some c | [] => None end.
Proof.
  induction l as [|x l IH]; intros n.
  - destruct (N.to_nat n); reflexivity.
  - cbn [nthN]. destruct (N.eqb_spec n 0) as [->|Hn]; [reflexivity|].
    replace (N.to_nat n) with (S (N.to_nat (N.pred n))) by lia. cbn [skipn_N]. apply IH.
Qed.

Definition opt_err (o : option ErrorKind) : list ErrorKind := match o with Some e => [e] | None => [] end.

(** the reference reading in terms of the same choice *)
Lemma numeric_literal_choice l :
  let sd := match l with c :: _ => c =? c_dot | [] => false end in
  numeric_literal l =
  let '(res, cx) := num_choice l sd in
  let has_x := cx && match skipn_N (N.to_nat (n_len res)) l with c :: _ => is_xc c | [] => false end in
  (n_type res, n_payload res, n_len res + (if has_x then 1 else 0),
   opt_err (n_err res) ++ (if cx && negb has_x then [E_UnterminatedHexNumericLiteral] else [])).
Proof.
  assert (Main : forall sd : bool,
    (let hexr := if sd then None else try_parse_hex_integer l in
     let decr := try_parse_decimal l (negb sd) true in
     let pick_hex (h : numres) :=
         let after := skipn_N (N.to_nat (n_len h)) l in
         let has_x := match after with c :: _ => is_x c | [] => false end in
         (n_type h, n_payload h, n_len h + (if has_x then 1 else 0),
          (match n_err h with Some e => [e] | None => [] end) ++ (if has_x then [] else [E_UnterminatedHexNumericLiteral])) in
     let pick_dec (r : numres) := (n_type r, n_payload r, n_len r, match n_err r with Some e => [e] | None => [] end) in
     match decr, hexr with
     | Some dr, Some hr =>
       if n_len hr <? n_len dr then pick_dec dr
       else if n_len dr <? n_len hr then pick_hex hr
       else match skipn_N (N.to_nat (n_len hr)) l with
            | c :: _ => if is_x c then pick_hex hr else pick_dec dr
            | [] => pick_dec dr
            end
     | Some dr, None => pick_dec dr
     | None, Some hr => pick_hex hr
     | None, None => (T_FloatLiteral, PFloat 0, len (take_while is_ascii_digit l), [E_InvalidNumericLiteral])
     end) =
    let '(res, cx) := num_choice l sd in
    let has_x := cx && match skipn_N (N.to_nat (n_len res)) l with c :: _ => is_xc c | [] => false end in
    (n_type res, n_payload res, n_len res + (if has_x then 1 else 0),
     opt_err (n_err res) ++ (if cx && negb has_x then [E_UnterminatedHexNumericLiteral] else []))).
  { intros sd. cbv zeta. unfold num_choice. cbv zeta.
    destruct (try_parse_decimal l (negb sd) true) as [dr|]; destruct (if sd then None else try_parse_hex_integer l) as [hr|].
    - destruct (n_len hr <? n_len dr).
      + cbn [andb]. rewrite N.add_0_r, app_nil_r. unfold opt_err. reflexivity.
      + destruct (n_len dr <? n_len hr).
        * cbn [andb]. unfold is_x, is_xc, opt_err.
          destruct (skipn_N (N.to_nat (n_len hr)) l) as [|c q]; [reflexivity|]. destruct ((c =? ch "x"%string) || (c =? ch "X"%string)); reflexivity.
        * rewrite nthN_skipn. change (@skipn_N char) with (@skipn_N N). unfold is_x, is_xc, opt_err.
          destruct (skipn_N (N.to_nat (n_len hr)) l) as [|c q] eqn:E.
          -- rewrite ?E. cbv iota beta. cbn [andb]. cbv iota. rewrite N.add_0_r, app_nil_r. reflexivity.
          -- rewrite ?E. cbv iota beta. destruct ((c =? ch "x"%string) || (c =? ch "X"%string)) eqn:Ex.
             ++ cbn [andb]. rewrite E. rewrite Ex. reflexivity.
             ++ cbn [andb]. cbv iota. rewrite N.add_0_r, app_nil_r. reflexivity.
    - cbn [andb]. rewrite N.add_0_r, app_nil_r. unfold opt_err. reflexivity.
    - cbn [andb]. unfold is_x, is_xc, opt_err.
      destruct (skipn_N (N.to_nat (n_len hr)) l) as [|c q]; [reflexivity|]. destruct ((c =? ch "x"%string) || (c =? ch "X"%string)); reflexivity.
    - cbn [andb n_len n_type n_payload n_err opt_err]. rewrite N.add_0_r. reflexivity. }
  cbv zeta. unfold numeric_literal. apply Main.
Qed.


(** ** no candidate reading consumes a line feed *)
Definition safeN (l : list char) : N := count_while (fun x => negb (x =? NL)) l.

Lemma safe_ok : forall (l : list char) n, n <= safeN l -> no_nl (firstn (N.to_nat n) l) = true.
Proof.
  induction l as [|a l IH]; intros n H; [destruct (N.to_nat n); reflexivity|].
  unfold safeN in H. cbn [count_while] in H. fold (safeN l) in H.
  destruct (negb (a =? NL)) eqn:E.
  - destruct (N.to_nat n) as [|k] eqn:En; [reflexivity|]. cbn [firstn]. unfold no_nl. cbn [forallb]. rewrite E. cbn [andb].
    replace k with (N.to_nat (n - 1)) by lia. apply IH. lia.
  - assert (n = 0) by lia. subst n. reflexivity.
Qed.

Lemma safe_cons (x : char) (q : list char) : (x =? NL) = false -> safeN (x :: q) = 1 + safeN q.
Proof. intros H. unfold safeN. cbn [count_while]. rewrite H. reflexivity. Qed.

Lemma safe_while (p : char -> bool) : (forall x, p x = true -> (x =? NL) = false) ->
  forall l, len (take_while p l) + safeN (drop_while p l) <= safeN l.
Proof.
  intros Hp. induction l as [|a l IH]; cbn [take_while drop_while]; [unfold len; cbn [List.length]; lia|].
  destruct (p a) eqn:E.
  - rewrite (safe_cons a l (Hp a E)). unfold len in *. cbn [List.length]. lia.
  - unfold len. cbn [List.length]. lia.
Qed.

Lemma hexdigit_not_nl x : is_ascii_hexdigit x = true -> (x =? NL) = false.
Proof. intros H. destruct (N.eqb_spec x NL) as [->|]; [vm_compute in H; discriminate H|reflexivity]. Qed.

Lemma eE_not_nl x : (x =? c_e) || (x =? c_E) = true -> (x =? NL) = false.
Proof. intros H. destruct (N.eqb_spec x NL) as [->|]; [vm_compute in H; discriminate H|reflexivity]. Qed.

Lemma eq_not_nl (x k : char) : (x =? k) = true -> (k =? NL) = false -> (x =? NL) = false.
Proof. intros H. apply N.eqb_eq in H. subst x. exact (fun H => H). Qed.

Lemma some_len' a (r : numres) : Some a = Some r -> n_len r = n_len a.
Proof. intros H. injection H as <-. reflexivity. Qed.

Lemma integer_safe l r : try_parse_integer l = Some r -> n_len r <= safeN l.
Proof.
  unfold try_parse_integer. pose proof (safe_while is_ascii_digit digit_not_nl l) as S1.
  destruct (take_while is_ascii_digit l) as [|d ds]; [discriminate|].
  destruct (U64_MAX <? _); [discriminate|]. intros H. rewrite (some_len' _ _ H). cbn [n_len]. lia.
Qed.

Lemma hex_safe l r : try_parse_hex_integer l = Some r -> n_len r <= safeN l.
Proof.
  unfold try_parse_hex_integer. pose proof (safe_while is_ascii_hexdigit hexdigit_not_nl l) as S1.
  destruct (take_while is_ascii_hexdigit l) as [|d ds]; [discriminate|].
  destruct (_ <=? U64_MAX).
  - intros H. rewrite (some_len' _ _ H). cbn [n_len]. lia.
  - destruct (drop_while is_ascii_hexdigit l) as [|c q].
    + intros H. rewrite (some_len' _ _ H). cbn [n_len]. lia.
    + destruct (c =? c_dot) eqn:Ec.
      * pose proof (safe_while is_ascii_hexdigit hexdigit_not_nl q) as S2.
        rewrite (safe_cons c q (eq_not_nl c c_dot Ec eq_refl)) in S1.
        intros H. rewrite (some_len' _ _ H). cbn [n_len]. lia.
      * intros H. rewrite (some_len' _ _ H). cbn [n_len]. lia.
Qed.

Ltac float_leaf :=
  let H := fresh "H" in
  intros H; rewrite (some_len' _ _ H); cbn [n_len]; unfold len in *; cbn [List.length] in *; lia.

(* the exponent part: marker, optional sign, digits *)
Lemma float_safe l0 res : try_parse_float l0 = Some res -> n_len res <= safeN l0.
Proof.
  pose proof (safe_while is_ascii_digit digit_not_nl) as SW.
  unfold try_parse_float.
  assert (N0 : exists neg l, (match l0 with c :: r => if c =? c_minus then (true, r) else (false, l0) | [] => (false, l0) end) = (neg, l)
                             /\ (if neg then 1 else 0) + safeN l <= safeN l0).
  { destruct l0 as [|c r]; [exists false, []; split; [reflexivity|lia]|]. destruct (c =? c_minus) eqn:E.
    - exists true, r. split; [reflexivity|]. rewrite (safe_cons c r (eq_not_nl c c_minus E eq_refl)). lia.
    - exists false, (c :: r). split; [reflexivity|lia]. }
  destruct N0 as (neg & l & -> & Hneg).
  pose proof (SW l) as S1.
  destruct (drop_while is_ascii_digit l) as [|c q] eqn:E1.
  - destruct (take_while is_ascii_digit l) as [|d ds]; [discriminate|]. float_leaf.
  - destruct (c =? c_dot) eqn:Ec.
    + rewrite (safe_cons c q (eq_not_nl c c_dot Ec eq_refl)) in S1.
      pose proof (SW q) as S2.
      destruct (drop_while is_ascii_digit q) as [|e q2] eqn:E2.
      * destruct (take_while is_ascii_digit l) as [|d ds]; destruct (take_while is_ascii_digit q) as [|d' ds']; try discriminate; float_leaf.
      * destruct ((e =? c_e) || (e =? c_E)) eqn:Ee.
        -- rewrite (safe_cons e q2 (eE_not_nl e Ee)) in S2.
           destruct q2 as [|x q3].
           ++ destruct (take_while is_ascii_digit l) as [|d ds]; destruct (take_while is_ascii_digit q) as [|d' ds']; try discriminate; float_leaf.
           ++ pose proof (SW q3) as S3. pose proof (SW (x :: q3)) as S3'.
              destruct (x =? c_plus) eqn:Ep; [rewrite (safe_cons x q3 (eq_not_nl x c_plus Ep eq_refl)) in S2
                |destruct (x =? c_minus) eqn:Em; [rewrite (safe_cons x q3 (eq_not_nl x c_minus Em eq_refl)) in S2|]];
              match goal with |- context [take_while is_ascii_digit ?z] =>
                 match z with l => fail 1 | q => fail 1 | _ => destruct (take_while is_ascii_digit z) end end;
              destruct (take_while is_ascii_digit l) as [|d ds]; destruct (take_while is_ascii_digit q) as [|d' ds']; try discriminate; float_leaf.
        -- destruct (take_while is_ascii_digit l) as [|d ds]; destruct (take_while is_ascii_digit q) as [|d' ds']; try discriminate; float_leaf.
    + destruct ((c =? c_e) || (c =? c_E)) eqn:Ee.
      * rewrite (safe_cons c q (eE_not_nl c Ee)) in S1.
        destruct q as [|x q3].
        -- destruct (take_while is_ascii_digit l) as [|d ds]; try discriminate; float_leaf.
        -- pose proof (SW q3) as S3. pose proof (SW (x :: q3)) as S3'.
           destruct (x =? c_plus) eqn:Ep; [rewrite (safe_cons x q3 (eq_not_nl x c_plus Ep eq_refl)) in S1
             |destruct (x =? c_minus) eqn:Em; [rewrite (safe_cons x q3 (eq_not_nl x c_minus Em eq_refl)) in S1|]];
           match goal with |- context [take_while is_ascii_digit ?z] =>
              match z with l => fail 1 | _ => destruct (take_while is_ascii_digit z) end end;
           destruct (take_while is_ascii_digit l) as [|d ds]; try discriminate; float_leaf.
      * destruct (take_while is_ascii_digit l) as [|d ds]; try discriminate; float_leaf.
Qed.

Lemma decimal_safe l ti tf r : try_parse_decimal l ti tf = Some r -> n_len r <= safeN l.
Proof.
  unfold try_parse_decimal.
  destruct ti; destruct tf;
    repeat match goal with
           | |- context [try_parse_integer l] => pose proof (integer_safe l) as HI; destruct (try_parse_integer l)
           | |- context [try_parse_float l] => pose proof (float_safe l) as HF; destruct (try_parse_float l)
           end;
    try match goal with |- context [if ?b then _ else _] => destruct b end;
    intros H; try discriminate; injection H as <-; auto.
Qed.

Lemma num_choice_safe l sd : n_len (fst (num_choice l sd)) <= safeN l.
Proof.
  unfold num_choice.
  pose proof (decimal_safe l (negb sd) true) as HD.
  assert (HH : forall hr, (if sd then None else try_parse_hex_integer l) = Some hr -> n_len hr <= safeN l).
  { destruct sd; [discriminate|]. apply hex_safe. }
  destruct (try_parse_decimal l (negb sd) true) as [dr|]; destruct (if sd then None else try_parse_hex_integer l) as [hr|].
  - specialize (HD dr eq_refl). specialize (HH hr eq_refl).
    destruct (n_len hr <? n_len dr); [exact HD|]. destruct (n_len dr <? n_len hr); [exact HH|].
    destruct (nthN l (n_len hr)) as [c|]; [destruct (is_xc c)|]; assumption.
  - exact (HD dr eq_refl).
  - exact (HH hr eq_refl).
  - cbn [fst n_len]. pose proof (safe_while is_ascii_digit digit_not_nl l). lia.
Qed.

(** ** every candidate reading consumes at least one character *)
Lemma len_pos_cons {A} (x : A) l : 1 <= len (x :: l).
Proof. unfold len. cbn [List.length]. lia. Qed.

Lemma some_len a (r : numres) : Some a = Some r -> n_len r = n_len a.
Proof. intros H. injection H as <-. reflexivity. Qed.

Lemma integer_len_pos l r : try_parse_integer l = Some r -> 1 <= n_len r.
Proof.
  unfold try_parse_integer. destruct (take_while is_ascii_digit l) as [|d ds]; [discriminate|].
  destruct (U64_MAX <? _); [discriminate|]. intros H. rewrite (some_len _ _ H). cbn [n_len]. apply len_pos_cons.
Qed.

Lemma hex_len_pos l r : try_parse_hex_integer l = Some r -> 1 <= n_len r.
Proof.
  unfold try_parse_hex_integer. destruct (take_while is_ascii_hexdigit l) as [|d ds]; [discriminate|].
  destruct (_ <=? U64_MAX).
  - intros H. rewrite (some_len _ _ H). cbn [n_len]. apply len_pos_cons.
  - pose proof (len_pos_cons d ds) as Hp.
    destruct (drop_while is_ascii_hexdigit l) as [|c q]; [|destruct (c =? c_dot)]; intros H; rewrite (some_len _ _ H); cbn [n_len]; lia.
Qed.

Lemma float_len_pos_digit d r : is_ascii_digit d = true ->
  exists res, try_parse_float (d :: r) = Some res /\ 1 <= n_len res.
Proof.
  intros Hd. unfold try_parse_float.
  assert (Hm : (d =? c_minus) = false).
  { unfold is_ascii_digit in Hd. apply andb_true_iff in Hd. destruct Hd as [H1 H2]. apply N.leb_le in H1. apply N.leb_le in H2.
    apply N.eqb_neq. unfold c_minus. lia. }
  rewrite Hm. cbn [take_while drop_while]. rewrite Hd.
  set (ip' := take_while is_ascii_digit r).
  pose proof (len_pos_cons d ip') as Hip.
  destruct (drop_while is_ascii_digit r) as [|c q].
  - eexists. split; [reflexivity|]. cbn [n_len]. lia.
  - destruct (c =? c_dot).
    + destruct (drop_while is_ascii_digit q) as [|e q2].
      * eexists. split; [reflexivity|]. cbn [n_len]. lia.
      * destruct ((e =? c_e) || (e =? c_E)).
        -- destruct q2 as [|x q3]; [eexists; split; [reflexivity|]; cbn [n_len]; lia|].
           destruct (x =? c_plus); [|destruct (x =? c_minus)];
             match goal with |- context [take_while is_ascii_digit ?z] => destruct (take_while is_ascii_digit z) end;
             eexists; (split; [reflexivity|]); cbn [n_len]; lia.
        -- eexists. split; [reflexivity|]. cbn [n_len]. lia.
    + destruct ((c =? c_e) || (c =? c_E)).
      * destruct q as [|x q3]; [eexists; split; [reflexivity|]; cbn [n_len]; lia|].
        destruct (x =? c_plus); [|destruct (x =? c_minus)];
          match goal with |- context [take_while is_ascii_digit ?z] => destruct (take_while is_ascii_digit z) end;
          eexists; (split; [reflexivity|]); cbn [n_len]; lia.
      * eexists. split; [reflexivity|]. cbn [n_len]. lia.
Qed.


Lemma float_len_pos_dot d r : is_ascii_digit d = true ->
  exists res, try_parse_float (c_dot :: d :: r) = Some res /\ 1 <= n_len res /\
    (n_type res = T_FloatLiteral \/ n_type res = T_FloatExponentLiteral).
Proof.
  intros Hd. unfold try_parse_float.
  replace (c_dot =? c_minus) with false by reflexivity.
  cbn [take_while drop_while]. replace (is_ascii_digit c_dot) with false by reflexivity.
  replace (c_dot =? c_dot) with true by reflexivity. cbn [take_while drop_while]. rewrite Hd.
  set (fp' := take_while is_ascii_digit r).
  pose proof (len_pos_cons d fp') as Hfp.
  destruct (drop_while is_ascii_digit r) as [|e q2].
  - eexists. split; [reflexivity|]. cbn [n_len n_type]. split; [lia|auto].
  - destruct ((e =? c_e) || (e =? c_E)).
    + destruct q2 as [|x q3]; [eexists; split; [reflexivity|]; cbn [n_len n_type]; split; [lia|auto]|].
      destruct (x =? c_plus); [|destruct (x =? c_minus)];
        match goal with |- context [take_while is_ascii_digit ?z] => destruct (take_while is_ascii_digit z) end;
        eexists; (split; [reflexivity|]); cbn [n_len n_type]; (split; [lia|auto]).
    + eexists. split; [reflexivity|]. cbn [n_len n_type]. split; [lia|auto].
Qed.

Lemma decimal_len_pos l ti : (exists res, try_parse_float l = Some res /\ 1 <= n_len res) ->
  exists dr, try_parse_decimal l ti true = Some dr /\ 1 <= n_len dr.
Proof.
  intros (f & Hf & Hfl). unfold try_parse_decimal. rewrite Hf.
  destruct (if ti then try_parse_integer l else None) as [i|] eqn:Ei.
  - destruct ti; [|discriminate]. pose proof (integer_len_pos l i Ei) as Hi.
    destruct (n_len f <=? n_len i); eexists; split; try reflexivity; assumption.
  - eexists. split; [reflexivity|exact Hfl].
Qed.

Lemma num_choice_len_pos l sd :
  (exists res, try_parse_float l = Some res /\ 1 <= n_len res) ->
  1 <= n_len (fst (num_choice l sd)).
Proof.
  intros Hf. destruct (decimal_len_pos l (negb sd) Hf) as (dr & Hd & Hdl).
  unfold num_choice. cbv zeta. rewrite Hd.
  destruct (if sd then None else try_parse_hex_integer l) as [hr|] eqn:Eh; [|exact Hdl].
  assert (Hhl : 1 <= n_len hr) by (destruct sd; [discriminate|]; exact (hex_len_pos l hr Eh)).
  destruct (n_len hr <? n_len dr); [exact Hdl|]. destruct (n_len dr <? n_len hr); [exact Hhl|].
  destruct (nthN l (n_len hr)) as [c|]; [|exact Hdl]. destruct (is_xc c); assumption.
Qed.

Lemma skipn_N_succ {A} k : forall (l : list A) x q, skipn_N k l = x :: q -> skipn_N (S k) l = q.
Proof.
  induction k as [|k IH]; intros l x q Es.
  - cbn [skipn_N] in *. subst l. reflexivity.
  - destruct l as [|y l']; [discriminate|]. cbn [skipn_N] in *. apply (IH l' x q Es).
Qed.

Lemma frame_adv s x r : frame (st_adv s x r) = frame s.
Proof. reflexivity. Qed.

Section Num.
  Variable text : list char.
  Variable bb : N.
  Variable F : nat.
  Variable msep : bool.
  Local Notation lt_class := (OcSym.lt_class text bb F msep).

  (** a default-channel token found by scanning, followed by errors at its end *)
  Lemma step_scan_errs {A} (p : prog A) a s rs s1 n ty pl ks v :
    OC text s rs -> frame s1 = frame (st_start s) -> lines_pos s1 ->
    c_rest (s_cur s1) = skipn_N (N.to_nat n) (c_rest (s_cur s)) ->
    run false p s = Done a (st_pend (emit_errs (st_emit s1 CH_DEFAULT ty pl) ks) v) ->
    StepOK text bb s [mkRtok ty CH_DEFAULT (cur_byte s + bb) pl] (map (fun k => mkRerr k (cur_byte s1 + bb)) ks) n
           (rs_after rs CH_DEFAULT ty v) (st_pend (emit_errs (st_emit s1 CH_DEFAULT ty pl) ks) v).
  Proof.
    intros HOC Hfr Hl Hrest Hrun. pose proof (frame_eq _ _ Hfr) as Fe.
    pose proof (InvPos_run text p s a _ (oc_inv _ _ _ HOC) Hrun) as Hinv.
    pose proof (noerr_eq _ _ (emit_errs_view ks (st_emit s1 CH_DEFAULT ty pl))) as Ne.
    constructor.
    - constructor.
      + exact Hinv.
      + change (s_modes (emit_errs (st_emit s1 CH_DEFAULT ty pl) ks) = [MDefault]). rewrite (ne_modes _ _ Ne).
        change (s_modes s1 = [MDefault]). rewrite (fe_modes _ _ Fe). exact (oc_modes _ _ _ HOC).
      + change (s_cp (emit_errs (st_emit s1 CH_DEFAULT ty pl) ks) = None). rewrite (ne_cp _ _ Ne).
        change (s_cp s1 = None). rewrite (fe_cp _ _ Fe). exact (oc_cp _ _ _ HOC).
      + change (s_mnl (emit_errs (st_emit s1 CH_DEFAULT ty pl) ks) = 0). rewrite (ne_mnl _ _ Ne).
        change (s_mnl s1 = 0). rewrite (fe_mnl _ _ Fe). exact (oc_mnl _ _ _ HOC).
      + reflexivity.
      + rewrite last_default_pend. unfold last_default_type, last_default_tok. rewrite (ne_buf _ _ Ne). reflexivity.
      + change (w_lit (s_buf (emit_errs (st_emit s1 CH_DEFAULT ty pl) ks)) = rs_lit rs). rewrite (ne_buf _ _ Ne).
        change (w_lit (s_buf s1) = rs_lit rs). rewrite (fe_lit _ _ Fe). exact (oc_lit _ _ _ HOC).
      + change (w_litlen (s_buf (emit_errs (st_emit s1 CH_DEFAULT ty pl) ks)) = rs_litlen rs). rewrite (ne_buf _ _ Ne).
        change (w_litlen (s_buf s1) = rs_litlen rs). rewrite (fe_litlen _ _ Fe). exact (oc_litlen _ _ _ HOC).
      + apply lines_pos_pend, lines_pos_emit_errs, lines_pos_emit. exact Hl.
    - change (c_rest (s_cur (emit_errs (st_emit s1 CH_DEFAULT ty pl) ks)) = skipn_N (N.to_nat n) (c_rest (s_cur s))).
      rewrite (ne_cur _ _ Ne). exact Hrest.
    - change (map (tv bb) (w_toks (s_buf (emit_errs (st_emit s1 CH_DEFAULT ty pl) ks))) =
              rev (map rv [mkRtok ty CH_DEFAULT (cur_byte s + bb) pl]) ++ map (tv bb) (w_toks (s_buf s))).
      rewrite (ne_buf _ _ Ne).
      change (map (tv bb) (mkTok CH_DEFAULT ty (s_ct_byte s1) (s_ct_start s1) (s_ct_line s1) pl :: w_toks (s_buf s1)) =
              rev (map rv [mkRtok ty CH_DEFAULT (cur_byte s + bb) pl]) ++ map (tv bb) (w_toks (s_buf s))).
      rewrite (fe_toks _ _ Fe), (fe_ctb _ _ Fe). reflexivity.
    - change (map (ev bb) (s_errs (emit_errs (st_emit s1 CH_DEFAULT ty pl) ks)) =
              rev (map rve (map (fun k => mkRerr k (cur_byte s1 + bb)) ks)) ++ map (ev bb) (s_errs s)).
      rewrite emit_errs_errs. change (s_errs (st_emit s1 CH_DEFAULT ty pl)) with (s_errs s1). rewrite (fe_errs _ _ Fe).
      change (cur_byte (st_emit s1 CH_DEFAULT ty pl)) with (cur_byte s1). rewrite map_map. reflexivity.
    - change ((s_iters (emit_errs (st_emit s1 CH_DEFAULT ty pl) ks), s_aborted (emit_errs (st_emit s1 CH_DEFAULT ty pl) ks),
               s_loop_detected (emit_errs (st_emit s1 CH_DEFAULT ty pl) ks)) = (s_iters s, s_aborted s, s_loop_detected s)).
      rewrite (ne_iters _ _ Ne), (ne_ab _ _ Ne), (ne_ld _ _ Ne).
      change ((s_iters s1, s_aborted s1, s_loop_detected s1) = (s_iters s, s_aborted s, s_loop_detected s)).
      rewrite (fe_iters _ _ Fe), (fe_ab _ _ Fe), (fe_ld _ _ Fe). reflexivity.
  Qed.

  (** the handler, in closed form *)
  Definition num_final (s : st) (l : list char) (sd : bool) : st :=
    let '(res, cx) := num_choice l sd in
    let s1 := st_adv_by s (n_len res) in
    let hasx := cx && match c_rest (s_cur s1) with x :: _ => is_xc x | [] => false end in
    let s2 := if hasx then match c_rest (s_cur s1) with x :: q => st_adv s1 x q | [] => s1 end else s1 in
    emit_errs (st_emit s2 CH_DEFAULT (n_type res) (n_payload res))
              (opt_err (n_err res) ++ (if cx && negb hasx then [E_UnterminatedHexNumericLiteral] else [])).

  Lemma run_numeric s sd l : c_rest (s_cur s) = l -> 1 <= n_len (fst (num_choice l sd)) ->
    run false (lex_numeric_literal sd) s = Done tt (num_final s l sd).
  Proof.
    intros Hr Hpos. unfold lex_numeric_literal, assert_dbg, get. cbn [bindP do run]. rewrite ex_assert. cbn [run].
    rewrite ex_get. cbn [run]. change (rest (scrub s)) with (c_rest (s_cur s)). rewrite Hr.
    change (match try_parse_decimal l (negb sd) true with
            | Some dr =>
              match (if sd then None else try_parse_hex_integer l) with
              | Some hr =>
                if n_len hr <? n_len dr then (dr, false)
                else if n_len dr <? n_len hr then (hr, true)
                else match nthN l (n_len hr) with
                     | Some c => if (c =? ch "x"%string) || (c =? ch "X"%string) then (hr, true) else (dr, false)
                     | None => (dr, false)
                     end
              | None => (dr, false)
              end
            | None =>
              match (if sd then None else try_parse_hex_integer l) with
              | Some hr => (hr, true)
              | None => (mkNum T_FloatLiteral (PFloat 0) (len (take_while is_ascii_digit l)) (Some E_InvalidNumericLiteral), false)
              end
            end) with (num_choice l sd).
    unfold num_final. destruct (num_choice l sd) as [res cx]. cbn [fst] in Hpos.
    destruct (N.eqb_spec (n_len res) 0) as [E0|_]; [lia|].
    unfold ret, advance_by, advance_, emit_token, when, emit_error. cbn [bindP do run]. rewrite ex_advance_by. cbn [run].
    set (s1 := st_adv_by s (n_len res)).
    assert (Herrs : forall X (t : prog unit) ks, (forall Y, run false t Y = Done tt (emit_errs Y ks)) ->
                      run false (match n_err res with Some e => do (OEmitError e) | None => Ret tt end ;; t) X =
                      Done tt (emit_errs X (opt_err (n_err res) ++ ks))).
    { intros X t ks Ht. destruct (n_err res) as [e|]; cbn [bindP do run opt_err app emit_errs].
      - rewrite ex_emit_error. cbn [run]. apply Ht.
      - apply Ht. }
    assert (T1 : forall Y, run false (do (OEmitError E_UnterminatedHexNumericLiteral)) Y = Done tt (emit_errs Y [E_UnterminatedHexNumericLiteral])).
    { intros Y. cbn [do run]. rewrite ex_emit_error. reflexivity. }
    assert (T0 : forall Y, run false (Ret tt) Y = Done tt (emit_errs Y [])) by reflexivity.
    destruct cx; cbn [andb bindP do run].
    - rewrite ex_get. cbn [run]. rewrite peek_is_scrub. unfold peek_is, peek.
      destruct (c_rest (s_cur s1)) as [|x q] eqn:Er.
      + cbn [bindP do run negb]. rewrite ex_emit. cbn [run]. apply (Herrs _ _ _ T1).
      + change ((x =? ch "x"%string) || (x =? ch "X"%string)) with (is_xc x). destruct (is_xc x); cbn [bindP do run negb].
        * rewrite (ex_advance s1 x q Er). repeat (cbn [bindP do run]; rewrite ?ex_emit). apply (Herrs _ _ _ T0).
        * rewrite ex_emit. cbn [run]. apply (Herrs _ _ _ T1).
    - rewrite ex_emit. cbn [run]. apply (Herrs _ _ _ T0).
  Qed.

  Lemma blen_firstn_skipn (l : list char) k : blen l = blen (firstn k l) + blen (skipn_N k l).
  Proof. revert k. induction l as [|x l IH]; intros [|k]; cbn [firstn skipn_N blen]; try lia. rewrite (IH k). lia. Qed.

  Lemma cur_byte_after s s' k : InvPos text s -> InvPos text s' ->
    c_rest (s_cur s') = skipn_N k (c_rest (s_cur s)) ->
    cur_byte s' = cur_byte s + blen (firstn k (c_rest (s_cur s))).
  Proof.
    intros I I' Hr. pose proof (cur_byte_rest text s I) as B1. pose proof (cur_byte_rest text s' I') as B2.
    rewrite Hr in B2. pose proof (blen_firstn_skipn (c_rest (s_cur s)) k). lia.
  Qed.

  Lemma digit_cases c : is_ascii_digit c = true -> In c [48; 49; 50; 51; 52; 53; 54; 55; 56; 57].
  Proof.
    unfold is_ascii_digit. intros H. apply andb_true_iff in H. destruct H as [H1 H2].
    apply N.leb_le in H1. apply N.leb_le in H2.
    assert (Hc : c = 48 \/ c = 49 \/ c = 50 \/ c = 51 \/ c = 52 \/ c = 53 \/ c = 54 \/ c = 55 \/ c = 56 \/ c = 57) by lia.
    cbn [In]. intuition.
  Qed.

  (** the reference lexeme for a text starting a number *)
  Lemma lexeme_digit c r pos rs : is_ascii_digit c = true ->
    lexeme (c :: r) pos rs =
    let '(ty, pl, n, errs) := numeric_literal (c :: r) in
    ([mkRtok ty CH_DEFAULT pos pl], map (fun e => mkRerr e (pos + blen (firstn (N.to_nat n) (c :: r)))) errs, n,
     rs_after rs CH_DEFAULT ty true).
  Proof.
    intros Hd. pose proof (digit_cases c Hd) as Hin. cbn [In] in Hin.
    repeat (destruct Hin as [<-|Hin]; [unfold lexeme; close_tests; destruct (numeric_literal _) as [[[ty pl] n] errs]; reflexivity|]).
    contradiction.
  Qed.

  Lemma default_to_numeric c s : is_ascii_digit c = true -> s_modes s = [MDefault] -> lines_pos s ->
    run false (lex_token F msep c) s = run false (lex_numeric_literal false ;; set_pending_stat true) (st_start s).
  Proof.
    intros Hd Hm Hl. pose proof (digit_cases c Hd) as Hin. cbn [In] in Hin.
    open_default Hm Hl.
    repeat (destruct Hin as [<-|Hin]; [close_tests; reflexivity|]). contradiction.
  Qed.

  (** the common part: from the state after [start_token] (and possibly other no-op steps) *)
  Lemma num_step {A} (p : prog A) a s rs c0 r0 sd :
    let l := c0 :: r0 in
    OC text s rs -> c_rest (s_cur s) = l ->
    1 <= n_len (fst (num_choice l sd)) ->
    sd = (c0 =? c_dot) ->
    run false p s = Done a (st_pend (num_final (st_start s) l sd) true) ->
    let '(ty, pl, n, errs) := numeric_literal l in
    1 <= n /\
    StepOK text bb s [mkRtok ty CH_DEFAULT (cur_byte s + bb) pl]
           (map (fun e => mkRerr e (cur_byte s + bb + blen (firstn (N.to_nat n) l))) errs) n
           (rs_after rs CH_DEFAULT ty true) (st_pend (num_final (st_start s) l sd) true).
  Proof.
    intros l HOC Hr Hpos Hsd Hrun. subst l.
    pose proof (numeric_literal_choice (c0 :: r0)) as Hnl. cbv zeta in Hnl. cbv iota in Hnl. rewrite <- Hsd in Hnl.
    rewrite Hnl. clear Hnl. set (l := c0 :: r0) in *.
    unfold num_final in *. pose proof (num_choice_safe l sd) as Hsafe. destruct (num_choice l sd) as [res cx]. cbn [fst] in Hpos, Hsafe.
    destruct (st_adv_by_spec (st_start s) (n_len res)) as (R1 & F1 & L1).
    set (s1 := st_adv_by (st_start s) (n_len res)) in *.
    change (c_rest (s_cur (st_start s))) with (c_rest (s_cur s)) in R1. rewrite Hr in R1.
    rewrite R1 in *.
    set (hasx := cx && match skipn_N (N.to_nat (n_len res)) l with x :: _ => is_xc x | [] => false end) in *.
    set (s2 := if hasx then match skipn_N (N.to_nat (n_len res)) l with x :: q => st_adv s1 x q | [] => s1 end else s1) in *.
    set (ks := opt_err (n_err res) ++ (if cx && negb hasx then [E_UnterminatedHexNumericLiteral] else [])) in *.
    set (n := n_len res + (if hasx then 1 else 0)).
    assert (H2 : frame s2 = frame (st_start s) /\ lines_pos s2 /\ c_rest (s_cur s2) = skipn_N (N.to_nat n) l).
    { assert (Hl1 : lines_pos s1).
      { unfold s1. apply lines_pos_adv_by; [apply lines_pos_start; exact (oc_lines _ _ _ HOC)|].
        change (c_rest (s_cur (st_start s))) with (c_rest (s_cur s)). rewrite Hr. apply safe_ok.
        exact Hsafe. }
      subst s2 n. destruct hasx eqn:Eh.
      - destruct (skipn_N (N.to_nat (n_len res)) l) as [|x q] eqn:Es.
        + subst hasx. rewrite andb_false_r in Eh. discriminate.
        + assert (Hx : (x =? NL) = false).
          { pose proof Eh as Eh'. unfold hasx in Eh'. apply andb_true_iff in Eh'. destruct Eh' as [_ Ex].
            destruct (N.eqb_spec x NL) as [->|]; [vm_compute in Ex; discriminate Ex|reflexivity]. }
          split; [rewrite (frame_adv s1 x q); exact F1|]. split; [apply lines_pos_adv; [exact Hx|exact Hl1]|].
          replace (c_rest (s_cur (st_adv s1 x q))) with q by reflexivity.
          replace (N.to_nat (n_len res + 1)) with (S (N.to_nat (n_len res))) by lia.
          symmetry. apply (skipn_N_succ _ _ x q Es).
      - split; [exact F1|]. split; [exact Hl1|]. rewrite N.add_0_r. exact R1. }
    destruct H2 as (F2 & L2 & R2).
    cbv beta iota. fold n. fold ks.
    split; [subst n; destruct hasx; lia|].
    assert (Hstep := step_scan_errs p a s rs s2 n (n_type res) (n_payload res) ks true HOC F2 L2
                       ltac:(rewrite R2, Hr; reflexivity) Hrun).
    assert (Hpos2 : cur_byte s2 + bb = cur_byte s + bb + blen (firstn (N.to_nat n) l)).
    { pose proof (so_oc _ _ _ _ _ _ _ _ Hstep) as HOC'.
      pose proof (noerr_eq _ _ (emit_errs_view ks (st_emit s2 CH_DEFAULT (n_type res) (n_payload res)))) as Ne.
      set (fin := st_pend (emit_errs (st_emit s2 CH_DEFAULT (n_type res) (n_payload res)) ks) true) in *.
      assert (Hcur : s_cur fin = s_cur s2).
      { change (s_cur (emit_errs (st_emit s2 CH_DEFAULT (n_type res) (n_payload res)) ks) = s_cur s2). rewrite (ne_cur _ _ Ne). reflexivity. }
      assert (Hlen : s_srclen fin = s_srclen s2).
      { change (s_srclen (emit_errs (st_emit s2 CH_DEFAULT (n_type res) (n_payload res)) ks) = s_srclen s2). rewrite (ne_srclen _ _ Ne). reflexivity. }
      assert (Hcb : cur_byte fin = cur_byte s2) by (unfold cur_byte; rewrite Hcur, Hlen; reflexivity).
      assert (Hrf : c_rest (s_cur fin) = skipn_N (N.to_nat n) (c_rest (s_cur s))) by (rewrite Hcur, Hr; exact R2).
      pose proof (cur_byte_after s fin (N.to_nat n) (oc_inv _ _ _ HOC) (oc_inv _ _ _ HOC') Hrf) as Hc.
      rewrite Hr in Hc. lia. }
    rewrite Hpos2 in Hstep. exact Hstep.
  Qed.

  Lemma num_final_pstat X l sd : s_pstat (num_final X l sd) = s_pstat X.
  Proof.
    unfold num_final. destruct (num_choice l sd) as [res cx].
    match goal with |- s_pstat (emit_errs ?Y ?ks) = _ =>
      pose proof (noerr_eq _ _ (emit_errs_view ks Y)) as Ne; rewrite (ne_pstat _ _ Ne) end.
    match goal with |- s_pstat (st_emit ?Y _ _ _) = _ => change (s_pstat Y = s_pstat X) end.
    destruct (st_adv_by_spec X (n_len res)) as (_ & F1 & _). pose proof (frame_eq _ _ F1) as Fe.
    match goal with |- s_pstat (if ?b then _ else _) = _ => destruct b end.
    - destruct (c_rest (s_cur (st_adv_by X (n_len res)))) as [|x q].
      + exact (fe_pstat _ _ Fe).
      + change (s_pstat (st_adv_by X (n_len res)) = s_pstat X). exact (fe_pstat _ _ Fe).
    - exact (fe_pstat _ _ Fe).
  Qed.

  Definition lt_class' (l : list char) (c : char) : Prop :=
    forall s rs, macro_free l = true -> OC text s rs -> c_rest (s_cur s) = l -> (List.length l < F)%nat ->
    let '(ts, es, n, rs') := lexeme l (cur_byte s + bb) rs in
    (1 <= n) /\ exists s', run false (lex_token F msep c) s = Done tt s' /\ StepOK text bb s ts es n rs' s'.

  Lemma class_digit c r : is_ascii_digit c = true -> lt_class' (c :: r) c.
  Proof.
    intros Hd s rs _ HOC Hr Hf.
    rewrite (lexeme_digit c r (cur_byte s + bb) rs Hd).
    assert (Hsd : false = (c =? c_dot)).
    { unfold is_ascii_digit in Hd. apply andb_true_iff in Hd. destruct Hd as [H1 H2]. apply N.leb_le in H1. apply N.leb_le in H2.
      symmetry. apply N.eqb_neq. unfold c_dot. lia. }
    pose proof (num_choice_len_pos (c :: r) false (float_len_pos_digit c r Hd)) as Hpos.
    assert (Hrun : run false (lex_token F msep c) s = Done tt (st_pend (num_final (st_start s) (c :: r) false) true)).
    { rewrite (default_to_numeric c s Hd (oc_modes _ _ _ HOC) (oc_lines _ _ _ HOC)).
      rewrite run_bindP. rewrite (run_numeric (st_start s) false (c :: r) Hr Hpos).
      unfold set_pending_stat. cbn [do run].
      assert (Hp : s_pstat (num_final (st_start s) (c :: r) false) = [rs_pending rs]) by (rewrite num_final_pstat; exact (oc_pstat _ _ _ HOC)).
      rewrite (ex_set_pending _ true (rs_pending rs) [] Hp). reflexivity. }
    pose proof (num_step (lex_token F msep c) tt s rs c r false HOC Hr Hpos Hsd Hrun) as Hstep. cbv zeta in Hstep.
    destruct (numeric_literal (c :: r)) as [[[ty pl] n] errs].
    destruct Hstep as [Hn Hst]. split; [exact Hn|]. eexists. split; [exact Hrun|exact Hst].
  Qed.

  (** '.' followed by a digit *)
  Lemma lexeme_dot_digit d r pos rs : is_ascii_digit d = true ->
    lexeme (c_dot :: d :: r) pos rs =
    let '(ty, pl, n, errs) := numeric_literal (c_dot :: d :: r) in
    ([mkRtok ty CH_DEFAULT pos pl], map (fun e => mkRerr e (pos + blen (firstn (N.to_nat n) (c_dot :: d :: r)))) errs, n,
     rs_after rs CH_DEFAULT ty true).
  Proof.
    intros Hd. unfold lexeme. close_tests. rewrite Hd. cbn [orb andb].
    destruct (numeric_literal _) as [[[ty pl] n] errs]. reflexivity.
  Qed.

  Lemma class_dot_digit d r : is_ascii_digit d = true -> lt_class' (c_dot :: d :: r) c_dot.
  Proof.
    intros Hd s rs _ HOC Hr Hf.
    rewrite (lexeme_dot_digit d r (cur_byte s + bb) rs Hd).
    destruct (float_len_pos_dot d r Hd) as (fres & Hfres & Hflen & Hfty).
    pose proof (num_choice_len_pos (c_dot :: d :: r) true (ex_intro _ fres (conj Hfres Hflen))) as Hpos.
    assert (Hrun : run false (lex_token F msep c_dot) s = Done tt (st_pend (num_final (st_start s) (c_dot :: d :: r) true) true)).
    { open_default (oc_modes _ _ _ HOC) (oc_lines _ _ _ HOC). close_tests. unfold lex_symbols. close_tests.
      unfold get. cbn [bindP do run]. rewrite ex_get. cbn [run].
      replace (is_ascii_digit (peek_next (scrub (st_start s)))) with true
        by (unfold peek_next; change (c_rest (s_cur (scrub (st_start s)))) with (c_rest (s_cur s)); rewrite Hr; symmetry; exact Hd).
      rewrite run_bindP. rewrite (run_numeric (st_start s) true (c_dot :: d :: r) Hr Hpos).
      unfold when, set_pending_stat. cbn [bindP do run]. rewrite ex_get. cbn [run].
      (* the last token is the numeric token: never a predicted comment *)
      assert (Hlt : match last_tok_type (scrub (num_final (st_start s) (c_dot :: d :: r) true)) with
                    | Some t => negb (tt_eqb t T_PredictedCommentStat) | None => false end = true).
      { unfold num_final. destruct (num_choice (c_dot :: d :: r) true) as [res cx] eqn:Ec.
        match goal with |- context [emit_errs ?Y ?ks] =>
          pose proof (noerr_eq _ _ (emit_errs_view ks Y)) as Ne end.
        unfold last_tok_type, last_tok. change (s_buf (scrub ?Z)) with (s_buf Z). rewrite (ne_buf _ _ Ne).
        cbn [st_emit s_buf w_toks set hd_error option_map t_type].
        (* the type of a numeric reading is one of three *)
        assert (Ht : n_type res = T_FloatLiteral \/ n_type res = T_FloatExponentLiteral).
        { unfold num_choice in Ec. cbv zeta in Ec. cbn [negb] in Ec. unfold try_parse_decimal in Ec. rewrite Hfres in Ec.
          inversion Ec; subst. exact Hfty. }
        destruct Ht as [->| ->]; reflexivity. }
      rewrite Hlt. cbn [bindP do run].
      rewrite (ex_set_pending _ true (rs_pending rs) []); [reflexivity|].
      rewrite num_final_pstat. exact (oc_pstat _ _ _ HOC). }
    assert (Hsd : true = (c_dot =? c_dot)) by reflexivity.
    pose proof (num_step (lex_token F msep c_dot) tt s rs c_dot (d :: r) true HOC Hr Hpos Hsd Hrun) as Hstep. cbv zeta in Hstep.
    destruct (numeric_literal (c_dot :: d :: r)) as [[[ty pl] n] errs].
    destruct Hstep as [Hn Hst]. split; [exact Hn|]. eexists. split; [exact Hrun|exact Hst].
  Qed.
End Num.
