(** * Lines and columns of errors (C04), generically.
    [EInv]: as long as the line-protocol monitor [g_lines_ok] is on, every reported error (and a
    prepared one) carries the 1-based line of its position - one plus the number of line feeds
    before it - and as column the number of characters between the last line feed before it (or
    the start of the text) and its position.  Preserved by every primitive, hence by every program
    over the primitives.  Offsets are those of the text after a byte-order mark, which is how the
    mark stays out of the first line's columns. *)
From Coq Require Import NArith ZArith List Bool Lia.
From RecordUpdate Require Import RecordSet.
From SasLexer Require Import Gen.TokenType Gen.ErrorKind Gen.Channel Model.Base Model.Core Model.Buffer
     Model.Lexer3 Proofs.BufferProofs Proofs.Generic Proofs.LexGeneric Proofs.Lines Proofs.LexLines Proofs.TokLines.
Import ListNotations RecordSetNotations.
Open Scope N_scope.

(** characters since the last line feed of [p] ([acc] of them seen so far) *)
Fixpoint col_of (p : list char) (acc : N) : N :=
  match p with
  | [] => acc
  | x :: r => if x =? NL then col_of r 0 else col_of r (acc + 1)
  end.

Lemma col_of_snoc x : forall p acc, col_of (p ++ [x]) acc = if x =? NL then 0 else col_of p acc + 1.
Proof.
  induction p as [|y p IH]; intros acc; cbn [app col_of]; [destruct (x =? NL); reflexivity|].
  destruct (y =? NL); apply IH.
Qed.

Lemma last_snoc {A} (l : list A) x d : last (l ++ [x]) d = x.
Proof. induction l as [|y l IH]; [reflexivity|]. cbn [app last]. destruct (l ++ [x]) eqn:E; [destruct l; discriminate|]. exact IH. Qed.

(** the start of the last line of the table, in characters *)
Lemma last_table_start : forall p,
  l_start (last (table line0 p) line0) + col_of p 0 = len p.
Proof.
  induction p as [|x p IH] using rev_ind; [reflexivity|].
  rewrite table_snoc, col_of_snoc, len_snoc. destruct (x =? NL).
  - rewrite last_snoc. cbn [l_start]. lia.
  - rewrite app_nil_r. lia.
Qed.

Lemma hd_rev_last {A} (l : list A) d : hd d l = last (rev l) d.
Proof. destruct l as [|x l]; [reflexivity|]. cbn [rev hd]. rewrite last_snoc. reflexivity. Qed.

Section ErrLines.
  Variable src : list char.

  Definition ErrAt (e : err_info) : Prop :=
    forall pre rest, src = pre ++ rest -> blen pre = e_byte e ->
      e_line e = 1 + count_nl pre /\ e_col e = col_of pre 0.

  Definition EInv (s : st) : Prop :=
    g_lines_ok (s_ghost s) = true ->
    Forall ErrAt (s_errs s) /\ match s_perr s with Some e => ErrAt e | None => True end.

  Definition res_e {A} (r : res A) : Prop :=
    match r with Done _ s => EInv s | Panic _ _ => True end.

  Definition ecore_eq (s s' : st) : Prop :=
    s_errs s' = s_errs s /\ s_perr s' = s_perr s /\
    (g_lines_ok (s_ghost s') = true -> g_lines_ok (s_ghost s) = true).

  Lemma E_core s s' : ecore_eq s s' -> EInv s -> EInv s'.
  Proof. intros (E1 & E2 & E3) T OK. specialize (T (E3 OK)). rewrite E1, E2. exact T. Qed.

  Ltac ecore := repeat split; try reflexivity; auto.

  Lemma E_note s : EInv s -> EInv (note_observe_lines s).
  Proof. apply E_core. ecore. intros H. apply (note_ok s H). Qed.

  (** an error prepared where the table is up to date *)
  Lemma prep_error_at s k :
    InvPos src s -> LInv line0 src s ->
    g_lines_ok (s_ghost s) = true -> g_line_debt (s_ghost s) = false -> ErrAt (prep_error s k).
  Proof.
    intros I L OK D. destruct (L OK) as (L1 & L2 & _).
    destruct (ip_cur _ _ I) as (pre0 & E0 & _).
    pose proof (L2 pre0 E0) as T. rewrite D in T.
    destruct (cur_facts src s pre0 I E0) as [Hb Hc].
    intros pre rest E B. unfold prep_error in *. cbn [e_byte e_line e_col] in *.
    assert (pre = pre0) by (apply (blen_prefix_unique pre pre0 rest (c_rest (s_cur s))); [rewrite <- E, <- E0; reflexivity|lia]).
    subst pre. split.
    - rewrite L1.
      assert (Hl : len (w_lines (s_buf s)) = len (rev (w_lines (s_buf s)))) by (unfold len; rewrite rev_length; reflexivity).
      rewrite Hl, T. unfold table. rewrite len_cons, starts_from_length. lia.
    - pose proof (last_table_start pre0) as LT. rewrite <- T in LT. rewrite <- (hd_rev_last (w_lines (s_buf s)) line0) in LT.
      assert (Hh : match w_lines (s_buf s) with li :: _ => l_start li | [] => 0 end = l_start (hd line0 (w_lines (s_buf s)))).
      { destruct (w_lines (s_buf s)); reflexivity. }
      rewrite Hh, Hc. lia.
  Qed.

  Lemma E_emit_error s k : InvPos src s -> LInv line0 src s -> EInv s -> EInv (emit_error s k).
  Proof.
    intros I L T OK. unfold emit_error, push_error in *. cbn in OK. apply andb_true_iff in OK. destruct OK as [OK D].
    apply negb_true_iff in D. destruct (T OK) as (T1 & T2). cbn. split; [|exact T2].
    constructor; [exact (prep_error_at s k I L OK D)|exact T1].
  Qed.

  Lemma E_push_mode s m : EInv s -> EInv (push_mode s m).
  Proof. apply E_core. ecore. Qed.

  Lemma add_token_e d s t : EInv s -> res_e (buf_add_token d s t).
  Proof.
    intros T. unfold buf_add_token.
    repeat (match goal with |- res_e (if ?c then _ else _) => destruct c end; cbn [res_e]; try exact Logic.I).
    revert T. apply E_core. ecore.
  Qed.

  Lemma last_line_e d s : InvPos src s -> LInv line0 src s -> EInv s ->
    match last_line_or_add d (note_observe_lines s) with Done _ s' => EInv s' | Panic _ _ => True end.
  Proof.
    intros I L T. unfold last_line_or_add, last_line.
    destruct (w_nlines (s_buf (note_observe_lines s)) =? 0).
    - unfold buf_add_line. destruct (d && _); [exact Logic.I|].
      eapply E_core; [|apply E_note; exact T]. ecore.
    - apply E_note. exact T.
  Qed.

  Theorem exec_EInv d {A} (o : op A) s :
    InvPos src s -> LInv line0 src s -> EInv s -> res_e (exec d o s).
  Proof.
    intros I L T. destruct o; cbn [exec].
    - (* OGet *) exact T.
    - (* OAdvance *)
      destruct (c_rest (s_cur s)) as [|x r] eqn:Er; [exact T|]. cbn [res_e].
      revert T. apply E_core. ecore. cbn. intros OK.
      destruct (g_line_debt (s_ghost s)); destruct (x =? NL); cbn in OK; auto; discriminate.
    - (* OAdvanceBy *)
      destruct (d && _); [exact Logic.I|]. cbn [res_e].
      revert T. apply E_core. ecore. cbn. intros OK.
      destruct (g_line_debt (s_ghost s) && (0 <? n) || has_nl_before_last (c_rest (s_cur s)) (N.to_nat n));
        destruct (nth_is_nl _ _); cbn in OK; auto; discriminate.
    - (* OAddLine *)
      unfold buf_add_line. destruct (d && _); [exact Logic.I|]. cbn [res_e].
      revert T. apply E_core. ecore. cbn. intros OK. apply andb_true_iff in OK. exact (proj1 OK).
    - (* OStartToken *)
      pose proof (last_line_e d s I L T) as H.
      destruct (last_line_or_add d (note_observe_lines s)) as [l s'|]; [|exact Logic.I].
      cbn [res_e]. revert H. apply E_core. ecore.
    - (* OMarkIfNone *)
      destruct (s_mark s); [exact T|].
      pose proof (last_line_e d s I L T) as H.
      destruct (last_line_or_add d (note_observe_lines s)) as [l s'|]; [|exact Logic.I].
      cbn [res_e]. revert H. apply E_core. ecore.
    - (* OClearMark *) cbn [res_e]. revert T. apply E_core. ecore.
    - (* OEmitToken *) apply add_token_e; exact T.
    - (* OEmitTokenAtMark *) destruct (s_mark s) as [[[? ?] ?]|]; [apply add_token_e; exact T|exact T].
    - (* OUpdateLastToken *)
      destruct (w_toks (s_buf s)); [apply add_token_e, E_emit_error; assumption|].
      cbn [res_e]. revert T. apply E_core. ecore.
    - (* ORetypeLastDefaultToLabel *)
      match goal with |- res_e (match ?g with _ => _ end) => destruct g end; [|exact T].
      cbn [res_e]. revert T. apply E_core. ecore.
    - (* OInsertSepBeforeLastDefault *)
      match goal with |- res_e (match ?g with _ => _ end) => destruct g as [[[above lt] below]|] end; [|exact T].
      destruct (needs _ _); [|exact T].
      repeat (match goal with |- res_e (if ?c then _ else _) => destruct c end; cbn [res_e]; try exact Logic.I).
      revert T. apply E_core. ecore.
    - (* OAddStringLiteral *) unfold add_string_literal. cbn [res_e]. revert T. apply E_core. ecore.
    - (* OAddStringLiteralFromSrc *)
      unfold add_string_literal.
      match goal with |- res_e (if ?c then _ else _) => destruct c; [exact Logic.I|] end.
      match goal with |- context [src_slice ?x ?y ?z] => destruct (src_slice x y z) end; cbn [res_e].
      + revert T. apply E_core. ecore.
      + eapply E_core; [|apply (E_emit_error _ E_InternalErrorOutOfBounds I L T)]. ecore.
    - (* OSrcSlice *) destruct (src_slice s a b); [exact T|apply E_emit_error; assumption].
    - (* OPushMode *) apply E_push_mode; exact T.
    - (* OPopMode *)
      unfold pop_mode. destruct (s_modes s); cbn [res_e].
      + apply E_push_mode, E_emit_error; assumption.
      + revert T. apply E_core. ecore.
    - (* OMode *) destruct (s_modes s); [apply E_push_mode, E_emit_error; assumption|exact T].
    - (* OEvalPnl *)
      destruct (s_modes s) as [|[] r]; try exact T. destruct increment; [revert T; apply E_core; ecore|].
      destruct (d && _); [exact Logic.I|revert T; apply E_core; ecore].
    - (* OValuePnlAdd *) destruct (s_modes s) as [|[] r]; try exact T; try exact Logic.I.
    - (* OStrPnlAdd *) destruct (s_modes s) as [|[] r]; try exact T; try exact Logic.I.
    - (* OInsertModes *) destruct (_ <? _); [exact Logic.I|revert T; apply E_core; ecore].
    - (* OSetNameFound *)
      destruct (_ <? _); [|apply E_emit_error; assumption].
      destruct (update_nth _ _ _); [revert T; apply E_core; ecore|apply E_emit_error; assumption].
    - (* OPushPending *) revert T; apply E_core; ecore.
    - (* OPopPending *) destruct (s_pstat s) as [|? [|? ?]]; exact T.
    - (* OSetPending *)
      destruct (s_pstat s); cbn [res_e].
      + eapply E_core; [|apply (E_emit_error _ E_InternalErrorEmptyPendingStatStack I L T)]. ecore.
      + revert T; apply E_core; ecore.
    - (* OPending *)
      destruct (s_pstat s); [|exact T]. cbn [res_e].
      eapply E_core; [|apply (E_emit_error _ E_InternalErrorEmptyPendingStatStack I L T)]. ecore.
    - (* OCheckpoint *)
      destruct (d && _); [exact Logic.I|]. cbn [res_e].
      eapply E_core; [|apply E_note; exact T]. ecore.
    - (* OClearCheckpoint *) cbn [res_e]. revert T. apply E_core. ecore.
    - (* ORollback *)
      destruct (s_cp s) as [k|] eqn:Ek; [|apply E_emit_error; assumption]. cbn [res_e].
      revert T. apply E_core. ecore.
    - (* OEmitError *) apply E_emit_error; assumption.
    - (* OPrepError *)
      cbn [res_e]. intros OK. cbn in OK. apply andb_true_iff in OK. destruct OK as [OK D]. apply negb_true_iff in D.
      destruct (T OK) as (T1 & _). cbn. split; [exact T1|]. exact (prep_error_at s k I L OK D).
    - (* OEmitPreparedError *)
      destruct (s_perr s) as [e|] eqn:Ep; [|exact T]. cbn [res_e].
      intros OK. cbn in OK. destruct (T OK) as (T1 & T2). rewrite Ep in T2. cbn. split; [constructor; assumption|exact Logic.I].
    - (* OSetMnl *) revert T; apply E_core; ecore.
    - (* OAssertDbg *) destruct (d && _); [exact Logic.I|exact T].
    - (* OUnreachable *) exact Logic.I.
    - (* OTick *) destruct (_ <? _); cbn [res_e]; revert T; apply E_core; ecore.
    - (* OLoopDetect *)
      destruct (d && _); cbn [res_e].
      + eapply E_core; [|apply (E_emit_error _ E_InternalErrorInfiniteLoop I L T)]. ecore.
      + revert T; apply E_core; ecore.
    - (* OFinalEOF *)
      pose proof (last_line_e d s I L T) as H.
      destruct (last_line_or_add d (note_observe_lines s)) as [l s'|]; [|exact Logic.I].
      apply add_token_e. exact H.
  Qed.

  Theorem run_EInv d {A} (p : prog A) : forall s,
    InvPos src s -> LInv line0 src s -> EInv s ->
    match run d p s with Done _ s' => EInv s' | Panic _ _ => True end.
  Proof.
    induction p as [a|B o k IH]; intros s I L T; cbn [run]; [exact T|].
    pose proof (exec_EInv d o s I L T) as H. pose proof (exec_InvPos d src o s I) as HI.
    pose proof (exec_LInv line0 src d o s I L) as HL.
    destruct (exec d o s); [apply IH; assumption|exact Logic.I].
  Qed.
End ErrLines.

(** ** The errors returned by [lex] *)
Lemma init_EInv text : EInv text (init text).
Proof. intros _. unfold init. cbn. split; [constructor|exact I]. Qed.

Lemma lex_text_state_EInv cfg bb bc text :
  lr_outcome (lex_text cfg bb bc text) = None -> EInv text (lr_state (lex_text cfg bb bc text)).
Proof.
  unfold lex_text.
  match goal with |- context [run (dbg cfg) ?p (init text)] => set (ml := p) end.
  pose proof (run_EInv text (dbg cfg) ml (init text) (init_InvPos text) (init_LInv text) (init_EInv text)) as H1.
  pose proof (run_LInv line0 text (dbg cfg) ml (init text) (init_InvPos text) (init_LInv text)) as L1.
  pose proof (run_InvPos (dbg cfg) text ml (init text) (init_InvPos text)) as I1.
  destruct (run (dbg cfg) ml (init text)) as [det s1|site s1]; [|cbn; discriminate].
  cbn [res_inv] in I1. destruct det; [intros _; exact H1|].
  pose proof (run_EInv text (dbg cfg) (finalize_lexing (S (S (N.to_nat (s_nmodes s1))))) s1 I1 L1 H1) as H2.
  destruct (run (dbg cfg) (finalize_lexing _) s1); [intros _; exact H2|cbn; discriminate].
Qed.

(** If the run returns with the line monitor on, every reported error carries the line (1-based) and
    the column of its position in the text after the byte-order mark: for every input, both profiles. *)
Theorem lex_error_positions cfg src :
  let r := lex cfg src in
  let '((bb, _), text) := split_bom src in
  lr_outcome r = None ->
  g_lines_ok (s_ghost (lr_state r)) = true ->
  forall e, In e (lr_errors r) ->
  forall pre rest, text = pre ++ rest -> blen pre + bb = e_byte e ->
    e_line e = 1 + count_nl pre /\ e_col e = col_of pre 0.
Proof.
  cbv zeta. unfold lex. destruct (split_bom src) as [[bb bc] text] eqn:Es.
  intros Ho Ok e Hin pre rest E B.
  destruct (lex_text_buffer_errors cfg bb bc text) as [_ He]. rewrite He in Hin.
  pose proof (lex_text_state_EInv cfg bb bc text Ho Ok) as (T1 & _).
  apply in_map_iff in Hin. destruct Hin as (e0 & <- & Hin0). apply in_rev in Hin0.
  rewrite Forall_forall in T1. specialize (T1 e0 Hin0). unfold ErrAt in T1.
  cbn [shift_err e_line e_col e_byte] in *. apply (T1 pre rest E). lia.
Qed.
