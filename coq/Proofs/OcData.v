(** * Open code = reference lexer (C11): the datalines block *)
From Coq Require Import NArith ZArith List Bool Lia.
From RecordUpdate Require Import RecordSet.
From SasLexer Require Import Gen.TokenType Gen.ErrorKind Gen.Channel Gen.Unicode Model.Base Model.Core
     Model.Helpers Model.Numeric Model.Lexer1 Model.Lexer2 Model.Lexer3 Spec.RefLex
     Proofs.Generic Proofs.LexGeneric Proofs.Bom Proofs.SemiProgram Proofs.SemiCompose Proofs.RefLexProofs
     Proofs.OcBase Proofs.OcSym Proofs.OcScan Proofs.OcNum Proofs.OcIdent.
Import ListNotations RecordSetNotations.
Open Scope N_scope.

(** what none of the steps of a datalines block touches *)
Definition cfg_view (s : st) :=
  (s_src s, s_srclen s, w_lit (s_buf s), w_litlen (s_buf s), s_modes s, s_nmodes s,
   (s_cp s, s_mnl s, s_pstat s, s_mark s, s_perr s), (s_iters s, s_aborted s, s_loop_detected s)).

(** a state in the middle of a lexeme, relative to the state [s0] the lexeme started from *)
Record Mid (s0 X : st) (tn : list tok) (en : list err_info) (rr : list char) : Prop := {
  md_cfg : cfg_view X = cfg_view s0;
  md_toks : w_toks (s_buf X) = tn ++ w_toks (s_buf s0);
  md_errs : s_errs X = en ++ s_errs s0;
  md_rest : c_rest (s_cur X) = rr;
  md_rem : c_rem (s_cur X) = blen rr;
  md_lines : lines_pos X
}.

Lemma Mid_adv s0 X tn en x r : (x =? NL) = false -> Mid s0 X tn en (x :: r) -> Mid s0 (st_adv X x r) tn en r.
Proof.
  intros Hx [C T E R M L]. constructor; try assumption; try reflexivity.
  - change (c_rem (s_cur X) - utf8_len x = blen r). rewrite M. cbn [blen]. lia.
  - apply lines_pos_adv; assumption.
Qed.

(** a line feed and its [add_line] *)
Lemma Mid_nl s0 X tn en x r : (x =? NL) = true -> Mid s0 X tn en (x :: r) -> Mid s0 (st_add_line (st_adv X x r)) tn en r.
Proof.
  intros Hx [C T E R M L]. constructor; try assumption; try reflexivity.
  - change (c_rem (s_cur X) - utf8_len x = blen r). rewrite M. cbn [blen]. lia.
  - apply lines_pos_nl; assumption.
Qed.

Lemma Mid_ws1 s0 X tn en x r : Mid s0 X tn en (x :: r) -> Mid s0 (ws1 X x r) tn en r.
Proof. intros H. unfold ws1. destruct (x =? NL) eqn:Ex; [apply Mid_nl|apply Mid_adv]; assumption. Qed.

Lemma Mid_emit s0 X tn en rr ch ty pl : Mid s0 X tn en rr ->
  Mid s0 (st_emit X ch ty pl) (mkTok ch ty (s_ct_byte X) (s_ct_start X) (s_ct_line X) pl :: tn) en rr.
Proof. intros [C T E R M L]. constructor; try assumption. cbn [st_emit s_buf w_toks set]. rewrite T. reflexivity. Qed.

Lemma Mid_start s0 X tn en rr : Mid s0 X tn en rr -> Mid s0 (st_start X) tn en rr.
Proof. intros [C T E R M L]. constructor; [exact C|exact T|exact E|exact R|exact M|apply lines_pos_start; exact L]. Qed.

Lemma Mid_error s0 X tn en rr k : Mid s0 X tn en rr -> Mid s0 (Core.emit_error X k) tn (prep_error X k :: en) rr.
Proof. intros [C T E R M L]. constructor; try assumption; [cbn; rewrite E; reflexivity|apply lines_pos_error; exact L]. Qed.

Lemma Mid_cur_byte s0 X tn en rr : Mid s0 X tn en rr -> cur_byte X = s_srclen s0 - blen rr.
Proof.
  intros [C T E R M L]. unfold cur_byte. rewrite M.
  assert (Hs : s_srclen X = s_srclen s0) by exact (f_equal (fun t => snd (fst (fst (fst (fst (fst (fst t))))))) C). lia.
Qed.

(** ** the three loops of [lex_datalines] *)
Fixpoint st_head (s : st) (l : list char) : st :=
  match l with
  | [] => s
  | x :: r => if is_whitespace x then st_head (ws1 s x r) r else ws1 s x r
  end.

Lemma nl_is_ws : is_whitespace NL = true. Proof. reflexivity. Qed.

Lemma head_loop_run : forall l f s, (List.length l < f)%nat -> c_rest (s_cur s) = l ->
  run false (datalines_head_loop f) s = Done tt (st_head s l).
Proof.
  induction l as [|x r IH]; intros f s Hf Hr; (destruct f as [|f]; [cbn in Hf; lia|]);
    cbn [datalines_head_loop]; unfold advance, add_line, ret; cbn [bindP do run].
  - rewrite (ex_advance_nil s Hr). reflexivity.
  - rewrite (ex_advance s x r Hr). cbn [run st_head]. unfold ws1.
    destruct (x =? NL) eqn:En.
    + apply N.eqb_eq in En. subst x. rewrite nl_is_ws. cbn [bindP do run]. rewrite ex_add_line. cbn [run].
      apply IH; [cbn in Hf; lia|reflexivity].
    + destruct (is_whitespace x); [apply IH; [cbn in Hf; lia|reflexivity]|reflexivity].
Qed.

Lemma ws_then_semi_acc l : forall n, ws_then_semi l n = option_map (fun k => n + k) (ws_then_semi l 0).
Proof.
  induction l as [|c r IH]; intros n; [reflexivity|]. cbn [ws_then_semi].
  destruct (c =? c_semi); [cbn; f_equal; lia|]. destruct (is_whitespace c); [|reflexivity].
  rewrite (IH (n + 1)), (IH (0 + 1)). destruct (ws_then_semi r 0); cbn [option_map]; [f_equal; lia|reflexivity].
Qed.

Lemma semi_not_ws : is_whitespace c_semi = false. Proof. reflexivity. Qed.

Lemma head_loop_mid s0 : forall l X tn en k, ws_then_semi l 0 = Some k -> Mid s0 X tn en l ->
  Mid s0 (st_head X l) tn en (skipn_N (N.to_nat k) l) /\ 1 <= k.
Proof.
  induction l as [|x r IH]; intros X tn en k Hk HM; [discriminate|].
  cbn [ws_then_semi] in Hk. cbn [st_head].
  destruct (x =? c_semi) eqn:Es.
  - apply N.eqb_eq in Es. subst x. rewrite semi_not_ws. apply (f_equal (fun o => match o with Some v => v | None => 0 end)) in Hk. cbv beta iota in Hk. subst k. change (N.to_nat (0 + 1)) with 1%nat. cbn [skipn_N].
    split; [apply Mid_ws1; exact HM|lia].
  - destruct (is_whitespace x); [|discriminate].
    rewrite ws_then_semi_acc in Hk. destruct (ws_then_semi r 0) as [k'|] eqn:Ek; [|discriminate].
    cbn [option_map] in Hk. apply (f_equal (fun o => match o with Some v => v | None => 0 end)) in Hk. cbv beta iota in Hk. subst k.
    destruct (IH (ws1 X x r) tn en k' eq_refl (Mid_ws1 _ _ _ _ _ _ HM)) as [HM' Hk'].
    replace (N.to_nat (0 + 1 + k')) with (S (N.to_nat k')) by lia. cbn [skipn_N]. split; [exact HM'|lia].
Qed.

Fixpoint st_body (s : st) (l : list char) (el : N) : st :=
  match l with
  | [] => if c_rem (s_cur s) <? el then Core.emit_error s E_UnterminatedDatalines else s
  | x :: r =>
    if x =? NL then st_body (st_add_line (st_adv s x r)) r el
    else if x =? c_semi then
      if c_rem (s_cur s) <? el then Core.emit_error s E_UnterminatedDatalines
      else if starts_with_semis (N.to_nat el) l then s
      else st_body (st_adv s x r) r el
    else st_body (st_adv s x r) r el
  end.

Lemma body_loop_run el : forall l f s, (List.length l < f)%nat -> c_rest (s_cur s) = l ->
  run false (datalines_body_loop f el) s = Done tt (st_body s l el).
Proof.
  induction l as [|x r IH]; intros f s Hf Hr; (destruct f as [|f]; [cbn in Hf; lia|]);
    cbn [datalines_body_loop]; unfold get, advance_, add_line, emit_error, ret; cbn [bindP do run]; rewrite ex_get; cbn [run];
    rewrite peek_scrub; unfold peek; rewrite Hr; cbn [st_body]; change (c_rem (s_cur (scrub s))) with (c_rem (s_cur s)).
  - destruct (c_rem (s_cur s) <? el); [cbn [do run]; rewrite ex_emit_error; reflexivity|reflexivity].
  - destruct (x =? NL).
    + cbn [bindP do run]. rewrite (ex_advance s x r Hr). cbn [run]. rewrite ex_add_line. cbn [run].
      apply IH; [cbn in Hf; lia|reflexivity].
    + destruct (x =? c_semi).
      * destruct (c_rem (s_cur s) <? el); [cbn [do run]; rewrite ex_emit_error; reflexivity|].
        change (rest (scrub s)) with (c_rest (s_cur s)). rewrite Hr.
        destruct (starts_with_semis (N.to_nat el) (x :: r)); [reflexivity|].
        cbn [bindP do run]. rewrite (ex_advance s x r Hr). cbn [run]. apply IH; [cbn in Hf; lia|reflexivity].
      * cbn [bindP do run]. rewrite (ex_advance s x r Hr). cbn [run]. apply IH; [cbn in Hf; lia|reflexivity].
Qed.

Lemma starts_semis_same k : forall l, starts_with_semis k l = starts_semis k l.
Proof. induction k as [|k IH]; intros l; [reflexivity|]. cbn [starts_with_semis starts_semis]. destruct l; [reflexivity|]. rewrite IH. reflexivity. Qed.

Lemma datalines_data_acc tlen l : forall n, datalines_data l n tlen = (n + fst (datalines_data l 0 tlen), snd (datalines_data l 0 tlen)).
Proof.
  induction l as [|c r IH]; intros n; cbn [datalines_data]; [cbn; f_equal; lia|].
  destruct (c =? c_semi).
  - destruct (blen (c :: r) <? N.of_nat tlen); [cbn; f_equal; lia|].
    destruct (starts_semis tlen (c :: r)); [cbn; f_equal; lia|].
    rewrite (IH (n + 1)), (IH (0 + 1)). cbn [fst snd]. f_equal. lia.
  - rewrite (IH (n + 1)), (IH (0 + 1)). cbn [fst snd]. f_equal. lia.
Qed.

Lemma body_loop_mid bb s0 el : 1 <= el -> forall l X tn en, Mid s0 X tn en l ->
  let '(dn, found) := datalines_data l 0 (N.to_nat el) in
  exists en', Mid s0 (st_body X l el) tn en' (skipn_N (N.to_nat dn) l) /\
    map (ev bb) en' = (if found then [] else [(E_UnterminatedDatalines, s_srclen s0 - blen (skipn_N (N.to_nat dn) l) + bb)]) ++ map (ev bb) en.
Proof.
  intros Hel. induction l as [|x r IH]; intros X tn en HM.
  - cbn [datalines_data st_body N.to_nat skipn_N]. rewrite (md_rem _ _ _ _ _ HM). cbn [blen].
    destruct (N.ltb_spec 0 el); [|lia].
    exists (prep_error X E_UnterminatedDatalines :: en). split; [apply Mid_error; exact HM|].
    cbn [map app]. f_equal. unfold ev, prep_error. cbn [e_kind e_byte]. rewrite (Mid_cur_byte _ _ _ _ _ HM). reflexivity.
  - cbn [datalines_data st_body]. rewrite (md_rem _ _ _ _ _ HM). rewrite N2Nat.id.
    assert (Hnl : (x =? NL) = true -> (x =? c_semi) = false) by (intros E; apply N.eqb_eq in E; subst x; reflexivity).
    destruct (x =? NL) eqn:En.
    + rewrite (Hnl eq_refl). rewrite datalines_data_acc.
      specialize (IH (st_add_line (st_adv X x r)) tn en (Mid_nl _ _ _ _ _ _ En HM)).
      destruct (datalines_data r 0 (N.to_nat el)) as [dn found]. cbn [fst snd].
      replace (N.to_nat (0 + 1 + dn)) with (S (N.to_nat dn)) by lia. cbn [skipn_N]. exact IH.
    + destruct (x =? c_semi).
      * destruct (blen (x :: r) <? el).
        -- cbn [N.to_nat skipn_N]. exists (prep_error X E_UnterminatedDatalines :: en). split; [apply Mid_error; exact HM|].
           cbn [map app]. f_equal. unfold ev, prep_error. cbn [e_kind e_byte]. rewrite (Mid_cur_byte _ _ _ _ _ HM). reflexivity.
        -- change (starts_with_semis (N.to_nat el) (x :: r)) with (starts_semis (N.to_nat el) (x :: r)).
           destruct (starts_semis (N.to_nat el) (x :: r)).
           ++ cbn [N.to_nat skipn_N]. exists en. split; [exact HM|reflexivity].
           ++ rewrite datalines_data_acc.
              specialize (IH (st_adv X x r) tn en (Mid_adv _ _ _ _ _ _ En HM)).
              destruct (datalines_data r 0 (N.to_nat el)) as [dn found]. cbn [fst snd].
              replace (N.to_nat (0 + 1 + dn)) with (S (N.to_nat dn)) by lia. cbn [skipn_N]. exact IH.
      * rewrite datalines_data_acc.
        specialize (IH (st_adv X x r) tn en (Mid_adv _ _ _ _ _ _ En HM)).
        destruct (datalines_data r 0 (N.to_nat el)) as [dn found]. cbn [fst snd].
        replace (N.to_nat (0 + 1 + dn)) with (S (N.to_nat dn)) by lia. cbn [skipn_N]. exact IH.
Qed.

Fixpoint st_semis (s : st) (l : list char) (k : nat) : st :=
  match k, l with
  | S k', x :: r => if x =? c_semi then st_semis (st_adv s x r) r k' else s
  | _, _ => s
  end.

Lemma semis_run : forall k l s, c_rest (s_cur s) = l -> run false (eat_semis k) s = Done tt (st_semis s l k).
Proof.
  induction k as [|k IH]; intros l s Hr; [destruct l; reflexivity|].
  cbn [eat_semis]. unfold get, advance_, ret. cbn [bindP do run]. rewrite ex_get. cbn [run]. rewrite peek_is_scrub.
  unfold peek_is, peek. rewrite Hr. destruct l as [|x r]; [reflexivity|]. cbn [st_semis].
  destruct (x =? c_semi); [|reflexivity]. cbn [bindP do run]. rewrite (ex_advance s x r Hr). cbn [run]. apply IH. reflexivity.
Qed.

Lemma semis_mid s0 : forall k l X tn en, Mid s0 X tn en l ->
  Mid s0 (st_semis X l k) tn en (skipn_N (N.to_nat (count_semis_upto k l)) l).
Proof.
  induction k as [|k IH]; intros l X tn en HM; [destruct l; exact HM|].
  destruct l as [|x r]; [exact HM|]. cbn [st_semis count_semis_upto].
  destruct (x =? c_semi) eqn:Ex; [|exact HM].
  replace (N.to_nat (1 + count_semis_upto k r)) with (S (N.to_nat (count_semis_upto k r))) by lia. cbn [skipn_N].
  apply IH. apply Mid_adv; [exact (eq_not_nl x c_semi Ex eq_refl)|exact HM].
Qed.

(** the token-start fields are set by [start_token] only *)
Lemma ctb_ws1 X x r : s_ct_byte (ws1 X x r) = s_ct_byte X.
Proof. unfold ws1. destruct (x =? NL); reflexivity. Qed.
Lemma ctb_head : forall l X, s_ct_byte (st_head X l) = s_ct_byte X.
Proof. induction l as [|x r IH]; intros X; [reflexivity|]. cbn [st_head]. destruct (is_whitespace x); [rewrite IH|]; apply ctb_ws1. Qed.
Lemma ctb_body el : forall l X, s_ct_byte (st_body X l el) = s_ct_byte X.
Proof.
  induction l as [|x r IH]; intros X; cbn [st_body].
  - destruct (c_rem (s_cur X) <? el); reflexivity.
  - destruct (x =? NL); [rewrite IH; reflexivity|]. destruct (x =? c_semi); [|rewrite IH; reflexivity].
    destruct (c_rem (s_cur X) <? el); [reflexivity|]. destruct (starts_with_semis (N.to_nat el) (x :: r)); [reflexivity|rewrite IH; reflexivity].
Qed.
Lemma ctb_semis : forall k l X, s_ct_byte (st_semis X l k) = s_ct_byte X.
Proof. induction k as [|k IH]; intros l X; [destruct l; reflexivity|]. destruct l as [|x r]; [reflexivity|]. cbn [st_semis]. destruct (x =? c_semi); [rewrite IH|]; reflexivity. Qed.
Lemma ctb_eat p : forall l X, s_ct_byte (st_eat p X l) = s_ct_byte X.
Proof. induction l as [|x r IH]; intros X; [reflexivity|]. cbn [st_eat]. destruct (p x); [rewrite IH|]; reflexivity. Qed.

Lemma Mid_eat s0 p : (forall x, p x = true -> (x =? NL) = false) ->
  forall l X tn en, Mid s0 X tn en l -> Mid s0 (st_eat p X l) tn en (drop_while p l).
Proof.
  intros Hp. induction l as [|x r IH]; intros X tn en HM; [exact HM|]. cbn [st_eat drop_while].
  destruct (p x) eqn:Epx; [|exact HM]. apply IH. apply Mid_adv; [exact (Hp x Epx)|exact HM].
Qed.

Lemma skipn_N_add {A} a : forall b (l : list A), skipn_N a (skipn_N b l) = skipn_N (b + a) l.
Proof. intros b. induction b as [|b IH]; intros l; [reflexivity|]. destruct l as [|x l]; [destruct a; reflexivity|]. cbn [skipn_N Nat.add]. apply IH. Qed.

Lemma Mid_init text s rs : OC text s rs -> Mid (st_start s) (st_start s) [] [] (c_rest (s_cur s)).
Proof.
  intros HOC. constructor; try reflexivity.
  - destruct (ip_cur _ _ (oc_inv _ _ _ HOC)) as (pre & _ & _ & R). exact R.
  - apply lines_pos_start. exact (oc_lines _ _ _ HOC).
Qed.

Lemma datalines_data_found tlen : forall l dn, datalines_data l 0 tlen = (dn, true) ->
  starts_semis tlen (skipn_N (N.to_nat dn) l) = true.
Proof.
  induction l as [|c r IH]; intros dn H; cbn [datalines_data] in H; [discriminate|].
  destruct (c =? c_semi).
  - destruct (blen (c :: r) <? N.of_nat tlen); [discriminate|].
    destruct (starts_semis tlen (c :: r)) eqn:Es.
    + inversion H; subst dn. exact Es.
    + rewrite datalines_data_acc in H. destruct (datalines_data r 0 tlen) as [d f] eqn:Ed. cbn [fst snd] in H.
      assert (f = true) by congruence. subst f.
      assert (dn = 0 + 1 + d) by congruence. subst dn.
      replace (N.to_nat (0 + 1 + d)) with (S (N.to_nat d)) by lia. cbn [skipn_N]. apply IH. reflexivity.
  - rewrite datalines_data_acc in H. destruct (datalines_data r 0 tlen) as [d f] eqn:Ed. cbn [fst snd] in H.
    assert (f = true) by congruence. subst f.
    assert (dn = 0 + 1 + d) by congruence. subst dn.
    replace (N.to_nat (0 + 1 + d)) with (S (N.to_nat d)) by lia. cbn [skipn_N]. apply IH. reflexivity.
Qed.

Lemma count_semis_full k : forall l, starts_semis k l = true -> count_semis_upto k l = N.of_nat k.
Proof.
  induction k as [|k IH]; intros l H; [destruct l; reflexivity|]. destruct l as [|c r]; [discriminate|].
  cbn [starts_semis] in H. apply andb_true_iff in H. destruct H as [H1 H2].
  cbn [count_semis_upto]. rewrite H1. rewrite (IH r H2). lia.
Qed.

Lemma skipn_N_len {A} k : forall (l : list A), List.length (skipn_N k l) = (List.length l - k)%nat.
Proof. induction k as [|k IH]; intros [|c r]; cbn [skipn_N List.length]; try lia. rewrite IH. lia. Qed.

Section Block.
  Variable text : list char.
  Variable bb : N.
  Variable F : nat.
  Variable msep : bool.

  (** [lex_datalines] when it applies *)
  Lemma run_datalines X (four : bool) l1 k :
    c_rest (s_cur X) = l1 -> (List.length l1 < F)%nat -> lines_pos X ->
    match last_default_type X with Some t => tt_eqb t T_SEMI | None => true end = true ->
    ws_then_semi l1 0 = Some k ->
    let el : N := if four then 4 else 1 in
    let X2 := st_head X l1 in
    let X3 := st_emit X2 CH_DEFAULT T_DatalinesStart PNone in
    let X4 := st_start X3 in
    let X5 := st_body X4 (c_rest (s_cur X4)) el in
    let X6 := st_emit X5 CH_DEFAULT T_DatalinesData PNone in
    let X7 := st_start X6 in
    let X8 := st_semis X7 (c_rest (s_cur X7)) (N.to_nat el) in
    let X9 := st_emit X8 CH_DEFAULT T_SEMI PNone in
    lines_pos X3 -> lines_pos X6 ->
    (List.length (c_rest (s_cur X4)) < F)%nat ->
    run false (lex_datalines F four) X = Done true X9.
  Proof.
    intros Hr Hf Hl Hprev Hk el X2 X3 X4 X5 X6 X7 X8 X9 Hl3 Hl6 Hf4.
    unfold lex_datalines, get. cbn [bindP do run]. rewrite ex_get. cbn [run].
    change (last_default_type (scrub X)) with (last_default_type X). rewrite Hprev. cbn [negb].
    change (rest (scrub X)) with (c_rest (s_cur X)). rewrite Hr.
    rewrite (datalines_la_ws_then_semi l1 0), Hk. cbn [negb].
    rewrite run_bindP. rewrite (head_loop_run l1 F X Hf Hr). fold X2.
    unfold emit, start_token, ret. cbn [bindP do run]. rewrite ex_emit. cbn [run]. fold X3.
    rewrite (ex_start_token X3 Hl3). cbn [run]. fold X4.
    rewrite run_bindP. change (if four then 4 else 1) with el.
    rewrite (body_loop_run el (c_rest (s_cur X4)) F X4 Hf4 eq_refl). fold X5.
    cbn [bindP do run]. rewrite ex_emit. cbn [run]. fold X6. rewrite (ex_start_token X6 Hl6). cbn [run]. fold X7.
    rewrite run_bindP. rewrite (semis_run (N.to_nat el) (c_rest (s_cur X7)) X7 eq_refl). fold X8.
    cbn [bindP do run]. rewrite ex_emit. reflexivity.
  Qed.

  Lemma cfg_fields a b : cfg_view a = cfg_view b ->
    s_srclen a = s_srclen b /\ w_lit (s_buf a) = w_lit (s_buf b) /\ w_litlen (s_buf a) = w_litlen (s_buf b) /\
    s_modes a = s_modes b /\ s_cp a = s_cp b /\ s_mnl a = s_mnl b /\ s_pstat a = s_pstat b /\
    (s_iters a, s_aborted a, s_loop_detected a) = (s_iters b, s_aborted b, s_loop_detected b).
  Proof.
    unfold cfg_view. intros H.
    pose proof (f_equal (fun t => snd (fst (fst (fst (fst (fst (fst t))))))) H) as H1.
    pose proof (f_equal (fun t => snd (fst (fst (fst (fst (fst t)))))) H) as H2.
    pose proof (f_equal (fun t => snd (fst (fst (fst (fst t))))) H) as H3.
    pose proof (f_equal (fun t => snd (fst (fst (fst t)))) H) as H4.
    pose proof (f_equal (fun t => snd (fst t)) H) as H5.
    pose proof (f_equal (fun t => snd t) H) as H6.
    cbn [fst snd] in *.
    pose proof (f_equal (fun t => fst (fst (fst (fst t)))) H5) as H5a.
    pose proof (f_equal (fun t => snd (fst (fst (fst t)))) H5) as H5b.
    pose proof (f_equal (fun t => snd (fst (fst t))) H5) as H5c.
    cbn [fst snd] in *. repeat split; assumption.
  Qed.

  Theorem datalines_block_proved : datalines_block_ok text bb F msep.
  Proof.
    intros s rs c r four k HOC Hr Hns Hf. cbv zeta. intros Hasc Hkw Hassoc Hprev Hws.
    rewrite (lexeme_ident c r (cur_byte s + bb) rs Hns). cbv zeta.
    rewrite Hasc, Hkw, Hassoc, Hprev, Hws.
    set (l := c :: r) in *. set (ident := take_while ident_char l) in *. set (n := len ident) in *.
    set (tlen := if four then 4%nat else 1%nat).
    set (el := (if four then 4 else 1) : N).
    assert (Htl : N.to_nat el = tlen) by (subst el tlen; destruct four; reflexivity).
    assert (Hel : 1 <= el) by (subst el; destruct four; lia).
    set (l1 := drop_while ident_char l).
    assert (Hl1 : skipn_N (N.to_nat n) l = l1) by (subst n ident l1; apply skipn_take_while).
    rewrite Hl1 in Hws.
    set (X0 := st_start s). set (X1 := st_eat ident_char X0 l).
    pose proof (Mid_init text s rs HOC) as M0. rewrite Hr in M0. fold X0 l in M0.
    pose proof (Mid_eat X0 ident_char (ident_char_not_nl) l X0 [] [] M0) as M1. fold X1 l1 in M1.
    destruct (head_loop_mid X0 l1 X1 [] [] k Hws M1) as [M2 Hk1].
    set (X2 := st_head X1 l1) in *. set (l2 := skipn_N (N.to_nat k) l1) in *.
    pose proof (Mid_emit X0 X2 [] [] l2 CH_DEFAULT T_DatalinesStart PNone M2) as M3.
    set (X3 := st_emit X2 CH_DEFAULT T_DatalinesStart PNone) in *.
    pose proof (Mid_start X0 X3 _ _ _ M3) as M4. set (X4 := st_start X3) in *.
    assert (Hr4 : c_rest (s_cur X4) = l2) by exact (md_rest _ _ _ _ _ M4).
    pose proof (body_loop_mid bb X0 el Hel l2 X4 _ _ M4) as HB. rewrite Htl in HB.
    assert (Hl2 : skipn_N (N.to_nat (n + k)) l = l2).
    { subst l2. rewrite <- Hl1. rewrite skipn_N_add. f_equal. lia. }
    rewrite Hl2.
    destruct (datalines_data l2 0 tlen) as [dn found] eqn:Edd.
    destruct HB as (en' & M5 & Hev).
    set (X5 := st_body X4 l2 el) in *. set (l3 := skipn_N (N.to_nat dn) l2) in *.
    pose proof (Mid_emit X0 X5 _ _ _ CH_DEFAULT T_DatalinesData PNone M5) as M6.
    set (X6 := st_emit X5 CH_DEFAULT T_DatalinesData PNone) in *.
    pose proof (Mid_start X0 X6 _ _ _ M6) as M7. set (X7 := st_start X6) in *.
    assert (Hr7 : c_rest (s_cur X7) = l3) by exact (md_rest _ _ _ _ _ M7).
    pose proof (semis_mid X0 tlen l3 X7 _ _ M7) as M8.
    set (X8 := st_semis X7 l3 tlen) in *. set (term := count_semis_upto tlen l3) in *.
    pose proof (Mid_emit X0 X8 _ _ _ CH_DEFAULT T_SEMI PNone M8) as M9.
    set (X9 := st_emit X8 CH_DEFAULT T_SEMI PNone) in *.
    (* the run *)
    pose proof (OC_start text s rs HOC) as HOC0.
    assert (Hprev1 : match last_default_type X1 with Some t => tt_eqb t T_SEMI | None => true end = true).
    { unfold last_default_type, last_default_tok. rewrite (md_toks _ _ _ _ _ M1). cbn [app].
      change (w_toks (s_buf X0)) with (w_toks (s_buf s)).
      pose proof (oc_prev _ _ _ HOC) as Hp. unfold last_default_type, last_default_tok in Hp. rewrite Hp.
      destruct (rs_prev rs); exact Hprev. }
    assert (Hf1 : (List.length l1 < F)%nat).
    { assert (List.length l1 <= List.length l)%nat; [|lia]. subst l1. clear. induction l as [|x l IH]; [apply le_n|].
      cbn [drop_while]. destruct (ident_char x); [cbn [List.length]; lia|apply le_n]. }
    assert (Hf4 : (List.length (c_rest (s_cur X4)) < F)%nat).
    { rewrite Hr4. subst l2. rewrite skipn_N_len. lia. }
    assert (Hdl : run false (lex_datalines F four) X1 = Done true X9).
    { pose proof (run_datalines X1 four l1 k (md_rest _ _ _ _ _ M1) Hf1 (md_lines _ _ _ _ _ M1) Hprev1 Hws) as Hrd.
      cbv zeta in Hrd. fold X2 X3 X4 in Hrd. rewrite Hr4 in Hrd. fold el in Hrd. fold X5 X6 X7 in Hrd. rewrite Hr7 in Hrd.
      rewrite Htl in Hrd. fold X8 X9 in Hrd.
      apply Hrd; [exact (md_lines _ _ _ _ _ M3)|exact (md_lines _ _ _ _ _ M6)|rewrite <- Hr4; exact Hf4]. }
    destruct (cfg_fields _ _ (md_cfg _ _ _ _ _ M9)) as (C1 & C2 & C3 & C4 & C5 & C6 & C7 & C8).
    assert (Hrun : run false (lex_token F msep c) s = Done tt (st_pend X9 false)).
    { rewrite (default_to_ident F msep c s Hns (oc_modes _ _ _ HOC) (oc_lines _ _ _ HOC)).
      fold X0. rewrite run_bindP. rewrite (run_ident_prefix text F X0 l (oc_inv _ _ _ HOC0) Hr eq_refl Hf). fold X1 ident.
      unfold ident_branch. rewrite Hasc, Hkw. cbv zeta.
      rewrite datalines_words in Hassoc.
      assert (Hbr : run false (if existsb (chars_eqb (upper ident)) DATALINES_KW
                               then b <- lex_datalines F false;; when (negb b) (emit T_Identifier)
                               else if existsb (chars_eqb (upper ident)) DATALINES4_KW
                                    then b <- lex_datalines F true;; when (negb b) (emit T_Identifier)
                                    else emit T_Identifier) X1 = Done tt X9).
      { destruct (existsb (chars_eqb (upper ident)) DATALINES_KW).
        - inversion Hassoc; subst four. rewrite run_bindP, Hdl. reflexivity.
        - destruct (existsb (chars_eqb (upper ident)) DATALINES4_KW); [|discriminate].
          inversion Hassoc; subst four. rewrite run_bindP, Hdl. reflexivity. }
      rewrite Hbr. unfold get, set_pending_stat. cbn [bindP do run]. rewrite ex_get. cbn [run].
      change (last_tok_type (scrub X9)) with (Some T_SEMI). cbv iota zeta. change (tt_eqb T_SEMI T_SEMI) with true. cbn [negb].
      rewrite (ex_set_pending X9 false (rs_pending rs) []); [reflexivity|].
      rewrite C7. exact (oc_pstat _ _ _ HOC). }
    (* positions *)
    assert (Hsl : s_srclen X0 = s_srclen s) by reflexivity.
    pose proof (cur_byte_rest text s (oc_inv _ _ _ HOC)) as B0. rewrite Hr in B0. fold l in B0.
    assert (Hsrc : s_srclen s = blen text) by exact (ip_srclen _ _ (oc_inv _ _ _ HOC)).
    assert (Hcb : cur_byte s = s_srclen s - blen l) by lia.
    pose proof (blen_firstn_skipn l (N.to_nat (n + k))) as S1. rewrite Hl2 in S1.
    pose proof (blen_firstn_skipn l2 (N.to_nat dn)) as S2. fold l3 in S2.
    assert (Hdpos : s_ct_byte X5 + bb = cur_byte s + bb + blen (firstn (N.to_nat (n + k)) l)).
    { subst X5. rewrite ctb_body. change (s_ct_byte X4) with (cur_byte X3). change (cur_byte X3) with (cur_byte X2).
      rewrite (Mid_cur_byte _ _ _ _ _ M2). rewrite Hsl. lia. }
    assert (Hepos : s_ct_byte X8 + bb = cur_byte s + bb + blen (firstn (N.to_nat (n + k)) l) + blen (firstn (N.to_nat dn) l2)).
    { subst X8. rewrite ctb_semis. change (s_ct_byte X7) with (cur_byte X6). change (cur_byte X6) with (cur_byte X5).
      rewrite (Mid_cur_byte _ _ _ _ _ M5). rewrite Hsl. lia. }
    assert (Hspos : s_ct_byte X2 = cur_byte s).
    { subst X2. rewrite ctb_head. subst X1. rewrite ctb_eat. reflexivity. }
    split; [lia|].
    exists (st_pend X9 false). split; [exact Hrun|].
    constructor.
    - constructor.
      + exact (InvPos_run text _ s tt _ (oc_inv _ _ _ HOC) Hrun).
      + change (s_modes X9 = [MDefault]). rewrite C4. exact (oc_modes _ _ _ HOC).
      + change (s_cp X9 = None). rewrite C5. exact (oc_cp _ _ _ HOC).
      + change (s_mnl X9 = 0). rewrite C6. exact (oc_mnl _ _ _ HOC).
      + reflexivity.
      + reflexivity.
      + change (w_lit (s_buf X9) = rs_lit rs). rewrite C2. exact (oc_lit _ _ _ HOC).
      + change (w_litlen (s_buf X9) = rs_litlen rs). rewrite C3. exact (oc_litlen _ _ _ HOC).
      + exact (md_lines _ _ _ _ _ M9).
    - change (c_rest (s_cur X9) = skipn_N (N.to_nat (n + k + dn + (if found then N.of_nat tlen else count_semis_upto tlen (skipn_N (N.to_nat dn) l2)))) (c_rest (s_cur s))).
      rewrite (md_rest _ _ _ _ _ M9), Hr. fold l. fold l3. fold term.
      assert (Hterm : (if found then N.of_nat tlen else term) = term).
      { destruct found eqn:Efound; [|reflexivity]. subst term. symmetry. apply count_semis_full. apply (datalines_data_found tlen l2 dn Edd). }
      rewrite Hterm. subst l3. rewrite skipn_N_add. rewrite <- Hl2. rewrite skipn_N_add. f_equal. lia.
    - change (map (tv bb) (w_toks (s_buf X9)) =
              rev (map rv [mkRtok T_DatalinesStart CH_DEFAULT (cur_byte s + bb) PNone;
                           mkRtok T_DatalinesData CH_DEFAULT (cur_byte s + bb + blen (firstn (N.to_nat (n + k)) l)) PNone;
                           mkRtok T_SEMI CH_DEFAULT (cur_byte s + bb + blen (firstn (N.to_nat (n + k)) l) + blen (firstn (N.to_nat dn) l2)) PNone])
              ++ map (tv bb) (w_toks (s_buf s))).
      rewrite (md_toks _ _ _ _ _ M9). rewrite map_app. change (w_toks (s_buf X0)) with (w_toks (s_buf s)). f_equal.
      cbn [map rev app]. unfold tv, rv. cbn [t_type t_chan t_byte t_payload rt_type rt_chan rt_byte rt_payload].
      rewrite Hepos, Hdpos, Hspos. reflexivity.
    - change (map (ev bb) (s_errs X9) =
              rev (map rve (if found then [] else [mkRerr E_UnterminatedDatalines
                     (cur_byte s + bb + blen (firstn (N.to_nat (n + k)) l) + blen (firstn (N.to_nat dn) l2))])) ++ map (ev bb) (s_errs s)).
      rewrite (md_errs _ _ _ _ _ M9). rewrite map_app. change (s_errs X0) with (s_errs s). f_equal.
      rewrite Hev. cbn [map app]. rewrite app_nil_r. fold l3. destruct found; [reflexivity|].
      cbn [map rev app]. unfold rve. cbn [re_kind re_byte]. f_equal. apply f_equal. rewrite Hsl. lia.
    - change ((s_iters X9, s_aborted X9, s_loop_detected X9) = (s_iters s, s_aborted s, s_loop_detected s)). exact C8.
  Qed.
End Block.
