(** * Generic invariants: facts that hold for *every* program over the primitives.

    [InvPos]: every position the lexer ever stores - the cursor, the current token start,
    every token, line, error, the checkpoint, the mark - is the (byte, char) position of a
    prefix of the source.  It is preserved by every primitive ([exec_InvPos]), hence by every
    handler and by the whole lexer ([run_InvPos], [lex_InvPos]) for every input, with no
    per-handler proof.  C03 and the boundary/anchoring parts of C02 and C09 follow. *)
From Coq Require Import NArith ZArith List Bool Lia.
From RecordUpdate Require Import RecordSet.
From SasLexer Require Import Gen.TokenType Gen.ErrorKind Gen.Channel Model.Base Model.Core.
Import ListNotations RecordSetNotations.
Open Scope N_scope.

(** ** Text positions *)
Definition IsPos (src : list char) (b c : N) : Prop :=
  exists p q, src = p ++ q /\ blen p = b /\ len p = c.

Lemma utf8_len_pos c : 1 <= utf8_len c.
Proof. unfold utf8_len. repeat destruct (_ <? _); lia. Qed.

Lemma blen_app p q : blen (p ++ q) = blen p + blen q.
Proof. induction p as [|c p IH]; cbn [app blen]; [reflexivity|]. rewrite IH. lia. Qed.

Lemma len_app' {A} (p q : list A) : len (p ++ q) = len p + len q.
Proof. unfold len. rewrite app_length. lia. Qed.

Lemma len_snoc {A} (p : list A) x : len (p ++ [x]) = len p + 1.
Proof. rewrite len_app'. reflexivity. Qed.

Lemma blen_snoc p x : blen (p ++ [x]) = blen p + utf8_len x.
Proof. rewrite blen_app. cbn [blen]. lia. Qed.

(** a byte offset determines the prefix: the character offset of a position is unique *)
Lemma prefix_unique (p1 : list char) : forall q1 p2 q2,
  p1 ++ q1 = p2 ++ q2 -> blen p1 = blen p2 -> p1 = p2.
Proof.
  induction p1 as [|c p1 IH]; intros q1 p2 q2 E B.
  - destruct p2 as [|d p2]; [reflexivity|]. cbn [blen] in B. pose proof (utf8_len_pos d). lia.
  - destruct p2 as [|d p2].
    + cbn [blen] in B. pose proof (utf8_len_pos c). lia.
    + cbn [app] in E. inversion E; subst d. f_equal. cbn [blen] in B.
      eapply IH; [eassumption|lia].
Qed.

Lemma IsPos_unique src b c c' : IsPos src b c -> IsPos src b c' -> c = c'.
Proof.
  intros (p & q & E & B & C) (p' & q' & E' & B' & C').
  assert (p = p') by (eapply prefix_unique; [rewrite <- E, <- E'; reflexivity | lia]).
  subst. reflexivity.
Qed.

Lemma IsPos_start src : IsPos src 0 0.
Proof. exists [], src. repeat split. Qed.

Lemma IsPos_end src : IsPos src (blen src) (len src).
Proof. exists src, []. rewrite app_nil_r. repeat split. Qed.

Lemma IsPos_le src b c : IsPos src b c -> b <= blen src /\ c <= len src.
Proof. intros (p & q & -> & <- & <-). rewrite blen_app, len_app'. lia. Qed.

(** ** The invariant *)
Definition CursorOK (src : list char) (cu : cursor) : Prop :=
  exists pre, src = pre ++ c_rest cu /\ c_off cu = len pre /\ c_rem cu = blen (c_rest cu).

Definition tok_pos src (t : tok) := IsPos src (t_byte t) (t_start t).
Definition line_pos src (l : line_info) := IsPos src (l_byte l) (l_start l).
Definition err_pos src (e : err_info) := IsPos src (e_byte e) (e_char e).

Record InvPos (src : list char) (s : st) : Prop := {
  ip_src : s_src s = src;
  ip_srclen : s_srclen s = blen src;
  ip_cur : CursorOK src (s_cur s);
  ip_ct : IsPos src (s_ct_byte s) (s_ct_start s);
  ip_toks : Forall (tok_pos src) (w_toks (s_buf s));
  ip_lines : Forall (line_pos src) (w_lines (s_buf s));
  ip_errs : Forall (err_pos src) (s_errs s);
  ip_cp : match s_cp s with
          | Some k => CursorOK src (k_cursor k) /\ IsPos src (k_ct_byte k) (k_ct_start k)
          | None => True
          end;
  ip_mark : match s_mark s with Some (b, c, _) => IsPos src b c | None => True end;
  ip_perr : match s_perr s with Some e => err_pos src e | None => True end
}.

Lemma CursorOK_pos src cu srclen :
  srclen = blen src -> CursorOK src cu -> IsPos src (srclen - c_rem cu) (c_off cu).
Proof.
  intros -> (pre & E & O & R). exists pre, (c_rest cu). split; [exact E|].
  split; [|symmetry; exact O]. rewrite R. rewrite E at 1. rewrite blen_app. lia.
Qed.

Lemma cur_pos src s : InvPos src s -> IsPos src (cur_byte s) (cur_char s).
Proof.
  intros I. unfold cur_byte, cur_char. apply CursorOK_pos; [apply (ip_srclen _ _ I) | apply (ip_cur _ _ I)].
Qed.

Lemma CursorOK_advance src x r rem off prev prev' :
  CursorOK src (mkCursor (x :: r) rem off prev) ->
  CursorOK src (mkCursor r (rem - utf8_len x) (off + 1) prev').
Proof.
  intros (pre & E & O & R). cbn in *. exists (pre ++ [x]). cbn.
  split; [rewrite <- app_assoc; exact E|]. split; [rewrite len_snoc; lia|]. subst rem. lia.
Qed.

Lemma CursorOK_advance_by src n : forall cu, CursorOK src cu -> CursorOK src (advance_by_loop n cu).
Proof.
  induction n as [|n IH]; intros cu H; cbn [advance_by_loop]; [exact H|].
  destruct cu as [rest_ rem off prev]. cbn [c_rest]. destruct rest_ as [|x r]; [exact H|].
  apply IH. cbn [c_rem c_off]. eapply CursorOK_advance. exact H.
Qed.

Lemma Forall_drop {A} (P : A -> Prop) n : forall l, Forall P l -> Forall P (drop n l).
Proof.
  induction n as [|n IH]; intros l H; [exact H|]. destruct l as [|x l]; [constructor|].
  cbn [drop]. apply IH. inversion H; assumption.
Qed.

Lemma Forall_truncate {A} (P : A -> Prop) l a b : Forall P l -> Forall P (truncate_rev l a b).
Proof. intros H. unfold truncate_rev. destruct (_ <? _); [apply Forall_drop|]; exact H. Qed.

(** ** State updates that do not touch what [InvPos] speaks about *)
Definition core_eq (s s' : st) : Prop :=
  s_src s' = s_src s /\ s_srclen s' = s_srclen s /\ s_cur s' = s_cur s /\
  s_ct_byte s' = s_ct_byte s /\ s_ct_start s' = s_ct_start s /\
  w_toks (s_buf s') = w_toks (s_buf s) /\ w_lines (s_buf s') = w_lines (s_buf s) /\
  s_errs s' = s_errs s /\ s_cp s' = s_cp s /\ s_mark s' = s_mark s /\ s_perr s' = s_perr s.

Lemma InvPos_core src s s' : core_eq s s' -> InvPos src s -> InvPos src s'.
Proof.
  intros (E1 & E2 & E3 & E4 & E5 & E6 & E7 & E8 & E9 & E10 & E11) I.
  destruct I. constructor; rewrite ?E1, ?E2, ?E3, ?E4, ?E5, ?E6, ?E7, ?E8, ?E9, ?E10, ?E11; assumption.
Qed.

Ltac core_tac := repeat split; reflexivity.

Lemma InvPos_note src s : InvPos src s -> InvPos src (note_observe_lines s).
Proof. apply InvPos_core. unfold note_observe_lines. core_tac. Qed.

Lemma InvPos_push_error src s e : InvPos src s -> err_pos src e -> InvPos src (push_error s e).
Proof.
  intros I He. destruct I. unfold push_error. constructor; cbn; try assumption.
  constructor; assumption.
Qed.

Lemma prep_error_pos src s k : InvPos src s -> err_pos src (prep_error s k).
Proof. intros I. unfold err_pos, prep_error. cbn [e_byte e_char]. apply cur_pos. exact I. Qed.

Lemma InvPos_emit_error src s k : InvPos src s -> InvPos src (emit_error s k).
Proof. intros I. unfold emit_error. apply InvPos_push_error; [apply InvPos_note; exact I | apply prep_error_pos; exact I]. Qed.

Lemma InvPos_push_mode src s m : InvPos src s -> InvPos src (push_mode s m).
Proof. apply InvPos_core. unfold push_mode. core_tac. Qed.

Lemma InvPos_pop_mode src s : InvPos src s -> InvPos src (pop_mode s).
Proof.
  intros I. unfold pop_mode. destruct (s_modes s).
  - apply InvPos_push_mode, InvPos_emit_error, I.
  - revert I. apply InvPos_core. core_tac.
Qed.

Lemma InvPos_clear_debt src s : InvPos src s -> InvPos src (clear_debt s).
Proof. apply InvPos_core. unfold clear_debt. core_tac. Qed.

(** results: the invariant holds of the state carried by [Done] and by [Panic] *)
Definition res_inv {A} (src : list char) (r : res A) : Prop :=
  match r with Done _ s => InvPos src s | Panic _ s => InvPos src s end.

Lemma add_line_inv d src s b c :
  InvPos src s -> IsPos src b c -> res_inv src (buf_add_line d s b c).
Proof.
  intros I P. unfold buf_add_line. destruct (d && _); cbn [res_inv]; [exact I|].
  destruct I. constructor; cbn; try assumption. constructor; assumption.
Qed.

Lemma last_line_or_add_inv d src s : InvPos src s -> res_inv src (last_line_or_add d s).
Proof.
  intros I. unfold last_line_or_add. destruct (last_line s); [exact I|].
  apply add_line_inv; [exact I | apply cur_pos; exact I].
Qed.

Lemma add_token_inv d src s t : InvPos src s -> tok_pos src t -> res_inv src (buf_add_token d s t).
Proof.
  intros I P. unfold buf_add_token.
  repeat (match goal with |- res_inv _ (if ?c then _ else _) => destruct c end; cbn [res_inv]; try exact I).
  destruct I. constructor; cbn; try assumption. constructor; assumption.
Qed.

Lemma add_string_literal_inv src s text : InvPos src s -> InvPos src (snd (add_string_literal s text)).
Proof. apply InvPos_core. unfold add_string_literal. cbn. core_tac. Qed.

Lemma InvPos_set_ct src s b c l :
  InvPos src s -> IsPos src b c -> InvPos src (s <| s_ct_byte := b |> <| s_ct_start := c |> <| s_ct_line := l |>).
Proof. intros I P. destruct I. constructor; cbn; assumption. Qed.

Lemma InvPos_set_mark src s b c l :
  InvPos src s -> IsPos src b c -> InvPos src (s <| s_mark := Some (b, c, l) |>).
Proof. intros I P. destruct I. constructor; cbn; assumption. Qed.

Theorem exec_InvPos d src {A} (o : op A) s : InvPos src s -> res_inv src (exec d o s).
Proof.
  intros I. destruct o; cbn [exec].
  - (* OGet *) exact I.
  - (* OAdvance *)
    destruct (c_rest (s_cur s)) as [|x r] eqn:Er; [exact I|]. cbn [res_inv].
    pose proof (ip_cur _ _ I) as Hc. destruct (s_cur s) as [rest_ rem off prev] eqn:Ec. cbn in Er. subst rest_.
    destruct I. constructor; cbn; try assumption. eapply CursorOK_advance. exact Hc.
  - (* OAdvanceBy *)
    destruct (d && _); [exact I|]. cbn [res_inv].
    pose proof (CursorOK_advance_by src (N.to_nat n) _ (ip_cur _ _ I)) as Hc.
    destruct I. constructor; cbn; assumption.
  - (* OAddLine *)
    pose proof (add_line_inv d src (clear_debt s) (cur_byte s) (cur_char s) (InvPos_clear_debt _ _ I) (cur_pos _ _ I)) as H.
    destruct (buf_add_line d (clear_debt s) (cur_byte s) (cur_char s)); exact H.
  - (* OStartToken *)
    pose proof (last_line_or_add_inv d src _ (InvPos_note _ _ I)) as H.
    destruct (last_line_or_add d (note_observe_lines s)) as [l s'|site s']; [|exact H].
    cbn [res_inv] in *. apply InvPos_set_ct; [exact H|].
    replace (cur_byte (note_observe_lines s)) with (cur_byte s) by reflexivity.
    replace (cur_char (note_observe_lines s)) with (cur_char s) by reflexivity.
    apply cur_pos; exact I.
  - (* OMarkIfNone *)
    destruct (s_mark s); [exact I|].
    pose proof (last_line_or_add_inv d src _ (InvPos_note _ _ I)) as H.
    destruct (last_line_or_add d (note_observe_lines s)) as [l s'|site s']; [|exact H].
    cbn [res_inv] in *. apply InvPos_set_mark; [exact H|].
    replace (cur_byte (note_observe_lines s)) with (cur_byte s) by reflexivity.
    replace (cur_char (note_observe_lines s)) with (cur_char s) by reflexivity.
    apply cur_pos; exact I.
  - (* OClearMark *) cbn [res_inv]. destruct I. constructor; cbn; try assumption. exact Logic.I.
  - (* OEmitToken *) apply add_token_inv; [exact I|]. unfold tok_pos; cbn. apply (ip_ct _ _ I).
  - (* OEmitTokenAtMark *)
    pose proof (ip_mark _ _ I) as Hm. destruct (s_mark s) as [[[b c] l]|]; [|exact I].
    apply add_token_inv; [exact I|]. unfold tok_pos; cbn. exact Hm.
  - (* OUpdateLastToken *)
    destruct (w_toks (s_buf s)) as [|t r] eqn:Et.
    + apply add_token_inv; [apply InvPos_emit_error; exact I|]. unfold tok_pos; cbn. apply (ip_ct _ _ I).
    + cbn [res_inv]. pose proof (ip_toks _ _ I) as Ht. rewrite Et in Ht. inversion Ht; subst.
      destruct I. constructor; cbn; try assumption. constructor; assumption.
  - (* ORetypeLastDefaultToLabel *)
    match goal with |- res_inv _ (match ?g (w_toks (s_buf s)) with _ => _ end) => set (go := g) end.
    assert (Hgo : forall l l', Forall (tok_pos src) l -> go l = Some l' -> Forall (tok_pos src) l').
    { induction l as [|t r IH]; intros l' Hl Hg; cbn in Hg; [discriminate|].
      inversion Hl; subst. destruct (is_default t).
      - destruct (tt_eqb (t_type t) T_MacroIdentifier); [|discriminate]. inversion Hg; subst.
        constructor; assumption.
      - destruct (go r) as [r'|] eqn:Er; [|discriminate]. cbn in Hg. inversion Hg; subst.
        constructor; [assumption|]. eapply IH; [assumption|reflexivity]. }
    destruct (go (w_toks (s_buf s))) as [l|] eqn:Eg; [|exact I]. cbn [res_inv].
    pose proof (Hgo _ _ (ip_toks _ _ I) Eg) as Hl.
    destruct I. constructor; cbn; assumption.
  - (* OInsertSepBeforeLastDefault *)
    match goal with |- res_inv _ (match ?g (w_toks (s_buf s)) [] with _ => _ end) => set (split := g) end.
    assert (Hsp : forall l acc above lt below, Forall (tok_pos src) l -> Forall (tok_pos src) acc ->
                    split l acc = Some (above, lt, below) ->
                    Forall (tok_pos src) above /\ tok_pos src lt /\ Forall (tok_pos src) below).
    { induction l as [|t r IH]; intros acc above lt below Hl Ha Hs; cbn in Hs; [discriminate|].
      inversion Hl; subst. destruct (is_default t).
      - inversion Hs; subst. split; [apply Forall_rev; assumption|]. split; assumption.
      - eapply IH; [assumption| |exact Hs]. constructor; assumption. }
    destruct (split (w_toks (s_buf s)) []) as [[[above lt] below]|] eqn:Es; [|exact I].
    destruct (Hsp _ _ _ _ _ (ip_toks _ _ I) (Forall_nil _) Es) as (Ha & Hlt & Hb).
    destruct (needs _ _); [|exact I].
    repeat (match goal with |- res_inv _ (if ?c then _ else _) => destruct c end; cbn [res_inv]; try exact I).
    destruct I. constructor; cbn; try assumption.
    apply Forall_app. split; [assumption|]. constructor; [assumption|]. constructor; [exact Hlt|assumption].
  - (* OAddStringLiteral *)
    pose proof (add_string_literal_inv src s text I) as H.
    destruct (add_string_literal s text) as [r s']. exact H.
  - (* OAddStringLiteralFromSrc *)
    destruct (d && _); [exact I|].
    destruct (src_slice s a _) as [text|].
    + pose proof (add_string_literal_inv src s text I) as H.
      destruct (add_string_literal s text) as [r s']. exact H.
    + pose proof (add_string_literal_inv src _ [] (InvPos_emit_error _ _ E_InternalErrorOutOfBounds I)) as H.
      destruct (add_string_literal (emit_error s E_InternalErrorOutOfBounds) []) as [r s']. exact H.
  - (* OSrcSlice *)
    destruct (src_slice s a b); [exact I|]. apply InvPos_emit_error; exact I.
  - (* OPushMode *) apply InvPos_push_mode; exact I.
  - (* OPopMode *) apply InvPos_pop_mode; exact I.
  - (* OMode *)
    destruct (s_modes s); [|exact I]. apply InvPos_push_mode, InvPos_emit_error, I.
  - (* OEvalPnl *)
    destruct (s_modes s) as [|[] r]; try exact I.
    destruct increment; [revert I; apply InvPos_core; core_tac|].
    destruct (d && _); [exact I|]. revert I; apply InvPos_core; core_tac.
  - (* OValuePnlAdd *)
    destruct (s_modes s) as [|[] r]; try exact I. revert I; apply InvPos_core; core_tac.
  - (* OStrPnlAdd *)
    destruct (s_modes s) as [|[] r]; try exact I. revert I; apply InvPos_core; core_tac.
  - (* OInsertModes *)
    destruct (_ <? _); [exact I|]. revert I; apply InvPos_core; core_tac.
  - (* OSetNameFound *)
    destruct (_ <? _); [|apply InvPos_emit_error; exact I].
    destruct (update_nth _ _ _); [|apply InvPos_emit_error; exact I].
    revert I; apply InvPos_core; core_tac.
  - (* OPushPending *) revert I; apply InvPos_core; core_tac.
  - (* OPopPending *)
    destruct (s_pstat s) as [|? [|? ?]]; try exact I. revert I; apply InvPos_core; core_tac.
  - (* OSetPending *)
    destruct (s_pstat s).
    + cbn [res_inv]. eapply InvPos_core; [|apply InvPos_emit_error; exact I]. core_tac.
    + revert I; apply InvPos_core; core_tac.
  - (* OPending *)
    destruct (s_pstat s); [|exact I].
    cbn [res_inv]. eapply InvPos_core; [|apply InvPos_emit_error; exact I]. core_tac.
  - (* OCheckpoint *)
    destruct (d && _); [exact I|]. cbn [res_inv].
    pose proof (InvPos_note _ _ I) as I'. destruct I'. constructor; cbn; try assumption.
    split; assumption.
  - (* OClearCheckpoint *) cbn [res_inv]. destruct I. constructor; cbn; try assumption. exact Logic.I.
  - (* ORollback *)
    pose proof (ip_cp _ _ I) as Hk.
    destruct (s_cp s) as [k|]; [|apply InvPos_emit_error; exact I].
    destruct Hk as [Hkc Hkt]. cbn [res_inv].
    destruct I. constructor; cbn; try assumption; try exact Logic.I; apply Forall_truncate; assumption.
  - (* OEmitError *) apply InvPos_emit_error, I.
  - (* OPrepError *)
    cbn [res_inv]. pose proof (InvPos_note _ _ I) as I'. pose proof (prep_error_pos _ _ k I) as Hp.
    destruct I'. constructor; cbn; assumption.
  - (* OEmitPreparedError *)
    pose proof (ip_perr _ _ I) as Hp. destruct (s_perr s) as [e|]; [|exact I]. cbn [res_inv].
    pose proof (InvPos_push_error _ _ e I Hp) as I'.
    destruct I'. constructor; cbn; try assumption. exact Logic.I.
  - (* OSetMnl *) revert I; apply InvPos_core; core_tac.
  - (* OAssertDbg *) destruct (d && _); exact I.
  - (* OUnreachable *) exact I.
  - (* OTick *) destruct (_ <? _); cbn [res_inv]; revert I; apply InvPos_core; core_tac.
  - (* OLoopDetect *)
    destruct (d && _); cbn [res_inv].
    + eapply InvPos_core; [|apply InvPos_emit_error; exact I]. core_tac.
    + revert I; apply InvPos_core; core_tac.
  - (* OFinalEOF *)
    pose proof (last_line_or_add_inv d src _ (InvPos_note _ _ I)) as H.
    destruct (last_line_or_add d (note_observe_lines s)) as [l s'|site s']; [|exact H].
    cbn [res_inv] in H. apply add_token_inv; [exact H|]. unfold tok_pos; cbn.
    replace (cur_byte (note_observe_lines s)) with (cur_byte s) by reflexivity.
    replace (cur_char (note_observe_lines s)) with (cur_char s) by reflexivity.
    apply cur_pos; exact I.
Qed.

(** every program preserves the invariant *)
Theorem run_InvPos d src {A} (p : prog A) : forall s, InvPos src s -> res_inv src (run d p s).
Proof.
  induction p as [a|B o k IH]; intros s I; cbn [run]; [exact I|].
  pose proof (exec_InvPos d src o s I) as H.
  destruct (exec d o s) as [b s'|site s']; [apply IH; exact H|exact H].
Qed.

Lemma init_InvPos text : InvPos text (init text).
Proof.
  unfold init. constructor; cbn -[blen]; try exact Logic.I; try reflexivity; try apply IsPos_start; try (constructor; fail).
  - exists []. repeat split.
  - constructor; [apply IsPos_start|constructor].
Qed.
