(** * Open code = reference lexer (C11): identifiers, keywords, datalines *)
From Coq Require Import NArith ZArith List Bool Lia String.
From RecordUpdate Require Import RecordSet.
From SasLexer Require Import Gen.TokenType Gen.ErrorKind Gen.Channel Gen.Unicode Model.Base Model.Core
     Model.Helpers Model.Numeric Model.Lexer1 Model.Lexer2 Model.Lexer3 Spec.RefLex
     Proofs.Generic Proofs.LexGeneric Proofs.Bom Proofs.SemiProgram Proofs.SemiCompose Proofs.RefLexProofs
     Proofs.Tables Proofs.CaseInv Proofs.OcBase Proofs.OcSym Proofs.OcScan Proofs.OcNum.
Import ListNotations RecordSetNotations.
Open Scope N_scope.

(** ** Range tables: membership, sortedness, inclusion *)
Lemma in_ranges_sound R c : in_ranges R c = true -> exists a b, In (a, b) R /\ a <= c <= b.
Proof.
  induction R as [|[a b] R IH]; cbn [in_ranges]; [discriminate|].
  destruct (N.ltb_spec c a); [discriminate|]. destruct (N.leb_spec c b).
  - intros _. exists a, b. split; [left; reflexivity|lia].
  - intros H1. destruct (IH H1) as (a' & b' & Hin & Hc). exists a', b'. split; [right; exact Hin|exact Hc].
Qed.

Fixpoint ranges_sorted (R : list (N * N)) : bool :=
  match R with
  | (a, b) :: (((a', _) :: _) as r) => (a <=? b) && (b <? a') && ranges_sorted r
  | [(a, b)] => a <=? b
  | [] => true
  end.

Lemma sorted_tail a0 b0 R : ranges_sorted ((a0, b0) :: R) = true ->
  a0 <= b0 /\ ranges_sorted R = true /\ match R with (a1, _) :: _ => b0 < a1 | [] => True end.
Proof.
  destruct R as [|[a1 b1] R']; cbn [ranges_sorted]; intros H.
  - apply N.leb_le in H. auto.
  - apply andb_true_iff in H. destruct H as [H Hs]. apply andb_true_iff in H. destruct H as [H1 H2].
    apply N.leb_le in H1. apply N.ltb_lt in H2. auto.
Qed.

Lemma sorted_lower R : ranges_sorted R = true -> forall a b, In (a, b) R ->
  match R with (a0, _) :: _ => a0 <= a | [] => True end /\ a <= b.
Proof.
  induction R as [|[a0 b0] R IH]; intros Hs a b Hin; [contradiction|].
  destruct (sorted_tail a0 b0 R Hs) as (H0 & Hs' & Hnext).
  destruct Hin as [E|Hin].
  - inversion E; subst. split; lia.
  - destruct (IH Hs' a b Hin) as [Hlo Hab]. split; [|exact Hab].
    destruct R as [|[a1 b1] R']; [contradiction|]. lia.
Qed.

Lemma in_ranges_complete R : ranges_sorted R = true ->
  forall a b c, In (a, b) R -> a <= c <= b -> in_ranges R c = true.
Proof.
  induction R as [|[a0 b0] R IH]; intros Hs a b c Hin Hc; [contradiction|].
  destruct (sorted_tail a0 b0 R Hs) as (H0 & Hs' & Hnext).
  cbn [in_ranges]. destruct Hin as [E|Hin].
  - inversion E; subst. destruct (N.ltb_spec c a); [lia|]. destruct (N.leb_spec c b); [reflexivity|lia].
  - destruct (sorted_lower R Hs' a b Hin) as [Hlo _].
    destruct R as [|[a1 b1] R']; [contradiction|].
    destruct (N.ltb_spec c a0); [lia|]. destruct (N.leb_spec c b0); [lia|].
    apply (IH Hs' a b c Hin Hc).
Qed.

Definition ranges_subset (R1 R2 : list (N * N)) : bool :=
  forallb (fun p => existsb (fun q => (fst q <=? fst p) && (snd p <=? snd q)) R2) R1.

Lemma ranges_subset_spec R1 R2 : ranges_sorted R2 = true -> ranges_subset R1 R2 = true ->
  forall c, in_ranges R1 c = true -> in_ranges R2 c = true.
Proof.
  intros Hs Hsub c H1. destruct (in_ranges_sound R1 c H1) as (a & b & Hin & Hc).
  unfold ranges_subset in Hsub. rewrite forallb_forall in Hsub. specialize (Hsub (a, b) Hin).
  apply existsb_exists in Hsub. destruct Hsub as ([a' b'] & Hin' & Hq). cbn [fst snd] in Hq.
  apply andb_true_iff in Hq. destruct Hq as [Q1 Q2]. apply N.leb_le in Q1. apply N.leb_le in Q2.
  apply (in_ranges_complete R2 Hs a' b' c Hin'). lia.
Qed.

Lemma xid_start_continue c : is_xid_start c = true -> is_xid_continue c = true.
Proof.
  apply ranges_subset_spec; vm_compute; reflexivity.
Qed.

(** a name start is an identifier character *)
Lemma name_start_ident_char c : is_valid_unicode_sas_name_start c = true -> ident_char c = true.
Proof.
  unfold is_valid_unicode_sas_name_start, ident_char. intros H.
  destruct (is_ascii c) eqn:Ea.
  - unfold is_ascii in Ea. apply N.ltb_lt in Ea.
    pose proof (ascii_table_lookup _ ascii_classes c Ea) as T. cbn beta in T.
    apply andb_true_iff in T. destruct T as [T _]. apply andb_true_iff in T. destruct T as [_ Ts]. apply eqb_prop in Ts.
    apply orb_true_iff in H. destruct H as [H|H].
    + rewrite Ts in H. unfold is_valid_sas_name_continue. apply orb_true_iff in H. destruct H as [H|H]; rewrite H; rewrite ?orb_true_r; reflexivity.
    + apply N.eqb_eq in H. subst c. reflexivity.
  - apply orb_true_iff in H. destruct H as [H|H]; [apply xid_start_continue; exact H|].
    apply N.eqb_eq in H. subst c. discriminate.
Qed.

(** ** [source.get(a..b)] on character boundaries returns the characters in between *)
Lemma slice_from_take : forall m post pos a b acc f,
  acc <> [] -> a < pos -> b = pos + blen m -> (List.length m < f)%nat ->
  slice_from (m ++ post) pos a b acc f = Some (rev acc ++ m).
Proof.
  induction m as [|c m IH]; intros post pos a b acc f Hacc Ha Hb Hf; (destruct f as [|f]; [cbn in Hf; lia|]).
  - cbn [blen] in Hb. rewrite N.add_0_r in Hb. subst b. cbn [app].
    unfold slice_from. destruct post; destruct (N.ltb_spec pos pos); try lia; rewrite N.eqb_refl;
      (destruct (N.leb_spec a pos); [rewrite app_nil_r; reflexivity|lia]).
  - cbn [app slice_from]. cbn [blen] in Hb. pose proof (utf8_len_pos c) as Hc.
    destruct (N.ltb_spec b pos); [lia|]. destruct (N.eqb_spec pos b); [lia|].
    destruct (N.ltb_spec pos a); [lia|]. destruct (N.eqb_spec pos a); [lia|].
    destruct acc as [|x acc']; [contradiction|].
    rewrite (IH post (pos + utf8_len c) a b (c :: x :: acc') f); [|discriminate|lia|lia|cbn in Hf; lia].
    cbn [rev]. rewrite <- !app_assoc. reflexivity.
Qed.

Lemma slice_from_at : forall m post a b f,
  b = a + blen m -> (List.length m < f)%nat ->
  slice_from (m ++ post) a a b [] f = Some m.
Proof.
  intros [|c m] post a b f Hb Hf; (destruct f as [|f]; [cbn in Hf; lia|]).
  - cbn [blen] in Hb. rewrite N.add_0_r in Hb. subst b. cbn [app]. unfold slice_from.
    destruct post; destruct (N.ltb_spec a a); try lia; rewrite N.eqb_refl; rewrite N.leb_refl; reflexivity.
  - cbn [app slice_from]. cbn [blen] in Hb. pose proof (utf8_len_pos c) as Hc.
    destruct (N.ltb_spec b a); [lia|]. destruct (N.eqb_spec a b); [lia|].
    destruct (N.ltb_spec a a); [lia|]. rewrite N.eqb_refl.
    rewrite (slice_from_take m post (a + utf8_len c) a b [c] f); [reflexivity|discriminate|lia|lia|cbn in Hf; lia].
Qed.

Lemma slice_from_pre : forall pre l pos a b f,
  a = pos + blen pre -> a <= b ->
  slice_from (pre ++ l) pos a b [] (List.length pre + f) = slice_from l a a b [] f.
Proof.
  induction pre as [|c pre IH]; intros l pos a b f Ha Hab.
  - cbn [blen] in Ha. rewrite N.add_0_r in Ha. subst a. reflexivity.
  - cbn [app List.length Nat.add slice_from]. cbn [blen] in Ha. pose proof (utf8_len_pos c) as Hc.
    destruct (N.ltb_spec b pos); [lia|]. destruct (N.eqb_spec pos b); [lia|].
    destruct (N.ltb_spec pos a); [|lia]. apply IH; lia.
Qed.

Lemma src_slice_spec s pre mid post :
  s_src s = pre ++ mid ++ post ->
  src_slice s (blen pre) (blen pre + blen mid) = Some mid.
Proof.
  intros Hs. unfold src_slice. rewrite Hs.
  assert (Hlen : S (List.length (pre ++ mid ++ post)) = (List.length pre + S (List.length (mid ++ post)))%nat).
  { rewrite !app_length. lia. }
  destruct (N.ltb_spec (blen pre + blen mid) (blen pre)); [lia|].
  destruct (N.eqb_spec (blen pre) (blen pre + blen mid)) as [E|E].
  - rewrite Hlen. rewrite (slice_from_pre pre (mid ++ post) 0 (blen pre) (blen pre)); [|lia|lia].
    assert (Hm : mid = []).
    { destruct mid as [|c m]; [reflexivity|]. cbn [blen] in E. pose proof (utf8_len_pos c). lia. }
    subst mid. apply (slice_from_at [] post (blen pre) (blen pre)); [cbn; lia|cbn; lia].
  - rewrite Hlen. rewrite (slice_from_pre pre (mid ++ post) 0 (blen pre) (blen pre + blen mid)); [|lia|lia].
    apply slice_from_at; [reflexivity|rewrite app_length; lia].
Qed.

(** ** A name start is none of the characters tested before it *)
Definition ranges_disjoint (R1 R2 : list (N * N)) : bool :=
  forallb (fun p => forallb (fun q => (snd p <? fst q) || (snd q <? fst p)) R2) R1.

Lemma ranges_disjoint_spec R1 R2 : ranges_disjoint R1 R2 = true ->
  forall c, in_ranges R1 c = true -> in_ranges R2 c = false.
Proof.
  intros Hd c H1. destruct (in_ranges R2 c) eqn:H2; [exfalso|reflexivity].
  destruct (in_ranges_sound R1 c H1) as (a & b & Hin & Hc). destruct (in_ranges_sound R2 c H2) as (a' & b' & Hin' & Hc').
  unfold ranges_disjoint in Hd. rewrite forallb_forall in Hd. specialize (Hd (a, b) Hin).
  rewrite forallb_forall in Hd. specialize (Hd (a', b') Hin'). cbn [fst snd] in Hd.
  apply orb_true_iff in Hd. destruct Hd as [Hd|Hd]; apply N.ltb_lt in Hd; lia.
Qed.

Lemma ns_not_const c k : is_valid_unicode_sas_name_start c = true -> is_valid_unicode_sas_name_start k = false -> (c =? k) = false.
Proof. intros Hc Hk. destruct (N.eqb_spec c k) as [->|]; [congruence|reflexivity]. Qed.

Lemma ns_facts c : is_valid_unicode_sas_name_start c = true ->
  is_whitespace c = false /\ is_ascii_digit c = false.
Proof.
  intros H. unfold is_valid_unicode_sas_name_start in H. apply orb_true_iff in H. destruct H as [H|H].
  - split.
    + apply (ranges_disjoint_spec XID_START_RANGES WS_RANGES); [vm_compute; reflexivity|exact H].
    + destruct (is_ascii_digit c) eqn:Ed; [exfalso|reflexivity].
      pose proof (OcNum.digit_cases c Ed) as Hin. cbn [In] in Hin.
      repeat (destruct Hin as [<-|Hin]; [vm_compute in H; discriminate|]). contradiction.
  - apply N.eqb_eq in H. subst c. split; reflexivity.
Qed.

(** ** Identifiers and keywords *)
Lemma datalines_la_ws_then_semi l : forall n, datalines_la l = match ws_then_semi l n with Some _ => true | None => false end.
Proof.
  induction l as [|c r IH]; intros n; [reflexivity|]. cbn [datalines_la ws_then_semi].
  destruct (c =? c_semi); [reflexivity|]. destruct (is_whitespace c); [apply IH|reflexivity].
Qed.

Lemma datalines_words u :
  assoc_chars u DATALINES_WORDS =
  if existsb (chars_eqb u) DATALINES_KW then Some false
  else if existsb (chars_eqb u) DATALINES4_KW then Some true else None.
Proof.
  unfold DATALINES_WORDS, DATALINES_KW, DATALINES4_KW. cbn [map fst snd assoc_chars existsb].
  repeat match goal with |- context [chars_eqb u ?w] => destruct (chars_eqb u w) end; reflexivity.
Qed.

Section Ident.
  Variable text : list char.
  Variable bb : N.
  Variable F : nat.
  Variable msep : bool.
  Local Notation lt_class' := (OcNum.lt_class' text bb F msep).

  Lemma lexeme_ident c r pos rs : is_valid_unicode_sas_name_start c = true ->
    lexeme (c :: r) pos rs =
    let l := c :: r in
    let tok ty chn pl := mkRtok ty chn pos pl in
    let adv (n : N) : N := pos + blen (firstn (N.to_nat n) l) in
    let ident := take_while ident_char l in
    let n := len ident in
    let plain := ([tok T_Identifier CH_DEFAULT PNone], [], n, rs_after rs CH_DEFAULT T_Identifier true) in
    if negb (forallb is_ascii ident) || (MAX_KEYWORDS_LEN <? blen ident) then plain
    else
      match parse_keyword (upper ident) with
      | Some kw => ([tok kw CH_DEFAULT PNone], [], n, rs_after rs CH_DEFAULT kw true)
      | None =>
        match assoc_chars (upper ident) DATALINES_WORDS with
        | Some four =>
          let prev_ok := match rs_prev rs with None => true | Some p => tt_eqb p T_SEMI end in
          match (if prev_ok then ws_then_semi (skipn_N (N.to_nat n) l) 0 else None) with
          | Some k =>
            let start_n := n + k in
            let after := skipn_N (N.to_nat start_n) l in
            let tlen := if four then 4%nat else 1%nat in
            let '(dn, found) := datalines_data after 0 tlen in
            let dpos := adv start_n in
            let after_data := skipn_N (N.to_nat dn) after in
            let epos := dpos + blen (firstn (N.to_nat dn) after) in
            let term_n := if found then N.of_nat tlen else count_semis_upto tlen after_data in
            ([tok T_DatalinesStart CH_DEFAULT PNone; mkRtok T_DatalinesData CH_DEFAULT dpos PNone; mkRtok T_SEMI CH_DEFAULT epos PNone],
             (if found then [] else [mkRerr E_UnterminatedDatalines epos]),
             start_n + dn + term_n, rs_after rs CH_DEFAULT T_SEMI false)
          | None => plain
          end
        | None => plain
        end
      end.
  Proof.
    intros Hns. destruct (ns_facts c Hns) as [Hws Hdg].
    unfold lexeme. rewrite Hws.
    rewrite (ns_not_const c c_squote Hns eq_refl), (ns_not_const c c_dquote Hns eq_refl),
            (ns_not_const c c_semi Hns eq_refl), (ns_not_const c c_slash Hns eq_refl),
            (ns_not_const c c_amp Hns eq_refl), (ns_not_const c c_pct Hns eq_refl), (ns_not_const c c_dot Hns eq_refl).
    rewrite Hdg, Hns. cbn [orb andb]. reflexivity.
  Qed.

  Lemma default_to_ident c s : is_valid_unicode_sas_name_start c = true -> s_modes s = [MDefault] -> lines_pos s ->
    run false (lex_token F msep c) s =
    run false (lex_identifier F ;; s' <- get ;;
               let complete := match last_tok_type s' with Some t => tt_eqb t T_SEMI | None => false end in
               set_pending_stat (negb complete)) (st_start s).
  Proof.
    intros Hns Hm Hl. destruct (ns_facts c Hns) as [Hws Hdg].
    open_default Hm Hl. rewrite Hws.
    rewrite (ns_not_const c c_squote Hns eq_refl), (ns_not_const c c_dquote Hns eq_refl),
            (ns_not_const c c_semi Hns eq_refl), (ns_not_const c c_slash Hns eq_refl),
            (ns_not_const c c_amp Hns eq_refl), (ns_not_const c c_pct Hns eq_refl).
    rewrite Hdg, Hns. reflexivity.
  Qed.

  (** the identifier text read back from the source is the run of identifier characters *)
  Definition ident_branch (text_ : list char) : prog unit :=
    if negb (forallb is_ascii text_) || (MAX_KEYWORDS_LEN <? blen text_) then emit T_Identifier
    else
      let ident := upper text_ in
      match parse_keyword ident with
      | Some t => emit t
      | None =>
        if existsb (chars_eqb ident) DATALINES_KW then
          b <- lex_datalines F false ;; when (negb b) (emit T_Identifier)
        else if existsb (chars_eqb ident) DATALINES4_KW then
          b <- lex_datalines F true ;; when (negb b) (emit T_Identifier)
        else emit T_Identifier
      end.

  Lemma take_drop_while' (p : char -> bool) l : l = take_while p l ++ drop_while p l.
  Proof. induction l as [|a r IH]; [reflexivity|]. cbn [take_while drop_while]. destruct (p a); [cbn [app]; f_equal; exact IH|reflexivity]. Qed.

  Lemma run_ident_prefix X0 l : InvPos text X0 -> c_rest (s_cur X0) = l -> s_ct_byte X0 = cur_byte X0 ->
    (List.length l < F)%nat ->
    run false (lex_identifier F) X0 = run false (ident_branch (take_while ident_char l)) (st_eat ident_char X0 l).
  Proof.
    intros I0 Hr Hct Hf. unfold lex_identifier, assert_dbg, eat_while, get. cbn [bindP do run]. rewrite ex_assert. cbn [run].
    rewrite run_bindP. rewrite (eat_while_spec ident_char l F X0 Hf Hr).
    cbn [bindP do run]. rewrite ex_get. cbn [run].
    set (X1 := st_eat ident_char X0 l).
    destruct (st_eat_spec ident_char l X0 Hr) as (R1 & F1 & L1). fold X1 in R1, F1, L1.
    pose proof (frame_eq _ _ F1) as Fe.
    assert (I1 : InvPos text X1).
    { apply (InvPos_run text (eat_while_loop ident_char F) X0 tt X1 I0). apply (eat_while_spec ident_char l F X0 Hf Hr). }
    destruct (ip_cur _ _ I0) as (pre & Epre & _ & _).
    assert (Hb0 : cur_byte X0 = blen pre).
    { pose proof (cur_byte_rest text X0 I0) as B. rewrite Hr in B. pose proof (f_equal blen Epre) as E. rewrite blen_app, Hr in E. lia. }
    assert (Hb1 : cur_byte X1 = blen pre + blen (take_while ident_char l)).
    { pose proof (cur_byte_rest text X1 I1) as B. rewrite R1 in B. pose proof (f_equal blen Epre) as E. rewrite blen_app, Hr in E.
      pose proof (f_equal blen (take_drop_while' ident_char l)) as E2. rewrite blen_app in E2. lia. }
    assert (Hsl : src_slice X1 (s_ct_byte (scrub X1)) (cur_byte (scrub X1)) = Some (take_while ident_char l)).
    { change (s_ct_byte (scrub X1)) with (s_ct_byte X1). change (cur_byte (scrub X1)) with (cur_byte X1).
      rewrite (fe_ctb _ _ Fe), Hct, Hb0, Hb1.
      apply (src_slice_spec X1 pre (take_while ident_char l) (drop_while ident_char l)).
      rewrite (ip_src _ _ I1). rewrite Epre, Hr. f_equal. apply take_drop_while'. }
    unfold exec at 1. rewrite Hsl. cbn [run]. reflexivity.
  Qed.

  Lemma lookup_in m k t : lookup m k = Some t -> In t (map snd m).
  Proof.
    induction m as [|[k' t'] m IH]; cbn [lookup map snd]; [discriminate|].
    destruct (chars_eqb k k'); [intros H; inversion H; left; reflexivity|intros H; right; apply IH; exact H].
  Qed.

  Lemma keyword_not_semi u kw : parse_keyword u = Some kw -> tt_eqb kw T_SEMI = false.
  Proof.
    intros H. apply lookup_in in H.
    assert (Hall : forallb (fun t => negb (tt_eqb t T_SEMI)) (map snd KEYWORDS_C) = true) by (vm_compute; reflexivity).
    rewrite forallb_forall in Hall. apply negb_true_iff. apply Hall. exact H.
  Qed.

  Lemma skipn_take_while (p : char -> bool) l : skipn_N (N.to_nat (len (take_while p l))) l = drop_while p l.
  Proof.
    induction l as [|x l IH]; [reflexivity|]. cbn [take_while drop_while]. destruct (p x); [|reflexivity].
    unfold len in *. cbn [List.length]. rewrite Nat2N.id in *. cbn [skipn_N]. exact IH.
  Qed.

  Lemma take_while_len_pos (p : char -> bool) c r : p c = true -> 1 <= len (take_while p (c :: r)).
  Proof. intros H. cbn [take_while]. rewrite H. unfold len. cbn [List.length]. lia. Qed.

  (** outcomes with one token *)
  Lemma ident_single s rs c r ty :
    OC text s rs -> c_rest (s_cur s) = c :: r -> is_valid_unicode_sas_name_start c = true ->
    (List.length (c :: r) < F)%nat -> tt_eqb ty T_SEMI = false ->
    run false (ident_branch (take_while ident_char (c :: r))) (st_eat ident_char (st_start s) (c :: r)) =
      Done tt (st_emit (st_eat ident_char (st_start s) (c :: r)) CH_DEFAULT ty PNone) ->
    exists s', run false (lex_token F msep c) s = Done tt s' /\
      StepOK text bb s [mkRtok ty CH_DEFAULT (cur_byte s + bb) PNone] [] (len (take_while ident_char (c :: r)))
             (rs_after rs CH_DEFAULT ty true) s'.
  Proof.
    intros HOC Hr Hns Hf Hty Hbr.
    set (l := c :: r) in *. set (X1 := st_eat ident_char (st_start s) l) in *.
    destruct (st_eat_spec ident_char l (st_start s) Hr) as (R1 & F1 & L1). fold X1 in R1, F1, L1.
    pose proof (frame_eq _ _ F1) as Fe.
    pose proof (OC_start text s rs HOC) as HOC0.
    assert (Hrun : run false (lex_token F msep c) s = Done tt (st_pend (st_emit X1 CH_DEFAULT ty PNone) true)).
    { rewrite (default_to_ident c s Hns (oc_modes _ _ _ HOC) (oc_lines _ _ _ HOC)).
      rewrite run_bindP. rewrite (run_ident_prefix (st_start s) l (oc_inv _ _ _ HOC0) Hr eq_refl Hf). fold X1. rewrite Hbr.
      unfold get, set_pending_stat. cbn [bindP do run]. rewrite ex_get. cbn [run].
      change (last_tok_type (scrub (st_emit X1 CH_DEFAULT ty PNone))) with (Some ty). cbv iota zeta. rewrite Hty. cbn [negb].
      rewrite (ex_set_pending _ true (rs_pending rs) []); [reflexivity|].
      change (s_pstat X1 = [rs_pending rs]). rewrite (fe_pstat _ _ Fe). exact (oc_pstat _ _ _ HOC). }
    eexists. split; [exact Hrun|].
    refine (step_scan text bb _ tt s rs X1 _ CH_DEFAULT ty PNone true HOC F1 _ _ Hrun).
    - apply L1; [exact ident_char_not_nl|]. apply lines_pos_start. exact (oc_lines _ _ _ HOC).
    - rewrite R1, Hr. symmetry. apply skipn_take_while.
  Qed.

  (** [lex_datalines] declines: not at statement start, or no ';' after optional whitespace *)
  Lemma run_datalines_decline X is4 :
    (match last_default_type X with Some t => tt_eqb t T_SEMI | None => true end = false \/
     datalines_la (c_rest (s_cur X)) = false) ->
    run false (lex_datalines F is4) X = Done false X.
  Proof.
    intros H. unfold lex_datalines, get. cbn [bindP do run]. rewrite ex_get. cbn [run].
    change (last_default_type (scrub X)) with (last_default_type X). change (rest (scrub X)) with (c_rest (s_cur X)).
    destruct H as [H|H].
    - rewrite H. reflexivity.
    - destruct (match last_default_type X with Some t => tt_eqb t T_SEMI | None => true end); [|reflexivity].
      cbn [negb]. rewrite H. reflexivity.
  Qed.

  (** the datalines block itself: stated here, proved in OcData.v *)
  Definition datalines_block_ok : Prop :=
    forall s rs c r four k,
      OC text s rs -> c_rest (s_cur s) = c :: r -> is_valid_unicode_sas_name_start c = true ->
      (List.length (c :: r) < F)%nat ->
      let l := c :: r in
      let ident := take_while ident_char l in
      (negb (forallb is_ascii ident) || (MAX_KEYWORDS_LEN <? blen ident)) = false ->
      parse_keyword (upper ident) = None ->
      assoc_chars (upper ident) DATALINES_WORDS = Some four ->
      match rs_prev rs with None => true | Some p => tt_eqb p T_SEMI end = true ->
      ws_then_semi (skipn_N (N.to_nat (len ident)) l) 0 = Some k ->
      let '(ts, es, n, rs') := lexeme l (cur_byte s + bb) rs in
      1 <= n /\ exists s', run false (lex_token F msep c) s = Done tt s' /\ StepOK text bb s ts es n rs' s'.

  Lemma class_ident c r : datalines_block_ok -> is_valid_unicode_sas_name_start c = true -> lt_class' (c :: r) c.
  Proof.
    intros Hblock Hns s rs _ HOC Hr Hf.
    pose proof (take_while_len_pos ident_char c r (name_start_ident_char c Hns)) as Hn1.
    pose proof (Hblock s rs c r) as Hb. cbv zeta in Hb.
    rewrite (lexeme_ident c r (cur_byte s + bb) rs Hns) in Hb. rewrite (lexeme_ident c r (cur_byte s + bb) rs Hns).
    cbv zeta in Hb. cbv zeta.
    set (l := c :: r) in *. set (ident := take_while ident_char l) in *.
    set (X1 := st_eat ident_char (st_start s) l).
    destruct (st_eat_spec ident_char l (st_start s) Hr) as (R1 & F1 & L1). fold X1 in R1, F1, L1.
    pose proof (frame_eq _ _ F1) as Fe.
    assert (Hprev : last_default_type X1 = rs_prev rs).
    { unfold last_default_type, last_default_tok. rewrite (fe_toks _ _ Fe). exact (oc_prev _ _ _ HOC). }
    assert (Hsingle : forall ty, tt_eqb ty T_SEMI = false ->
              run false (ident_branch ident) X1 = Done tt (st_emit X1 CH_DEFAULT ty PNone) ->
              1 <= len ident /\ exists s', run false (lex_token F msep c) s = Done tt s' /\
                StepOK text bb s [mkRtok ty CH_DEFAULT (cur_byte s + bb) PNone] [] (len ident) (rs_after rs CH_DEFAULT ty true) s').
    { intros ty Hty Hbr. split; [exact Hn1|]. exact (ident_single s rs c r ty HOC Hr Hns Hf Hty Hbr). }
    assert (Hemit : forall ty, run false (emit ty) X1 = Done tt (st_emit X1 CH_DEFAULT ty PNone)).
    { intros ty. unfold emit. cbn [do run]. rewrite ex_emit. reflexivity. }
    unfold ident_branch in Hsingle.
    destruct (negb (forallb is_ascii ident) || (MAX_KEYWORDS_LEN <? blen ident)) eqn:Ea.
    { apply (Hsingle T_Identifier eq_refl). apply Hemit. }
    destruct (parse_keyword (upper ident)) as [kw|] eqn:Ek.
    { apply (Hsingle kw (keyword_not_semi _ _ Ek)). apply Hemit. }
    rewrite datalines_words in *.
    destruct (existsb (chars_eqb (upper ident)) DATALINES_KW) eqn:E1; [|destruct (existsb (chars_eqb (upper ident)) DATALINES4_KW) eqn:E4].
    - destruct (match rs_prev rs with None => true | Some p => tt_eqb p T_SEMI end) eqn:Ep.
      + destruct (ws_then_semi (skipn_N (N.to_nat (len ident)) l) 0) as [k|] eqn:Ew.
        * exact (Hb false k HOC Hr Hns Hf eq_refl eq_refl eq_refl eq_refl eq_refl).
        * apply (Hsingle T_Identifier eq_refl). rewrite run_bindP.
          rewrite (run_datalines_decline X1 false); [cbn [negb when]; apply Hemit|].
          right. rewrite R1. rewrite <- (skipn_take_while ident_char l). fold ident.
          rewrite (datalines_la_ws_then_semi _ 0), Ew. reflexivity.
      + apply (Hsingle T_Identifier eq_refl). rewrite run_bindP.
        rewrite (run_datalines_decline X1 false); [cbn [negb when]; apply Hemit|].
        left. rewrite Hprev. destruct (rs_prev rs); exact Ep.
    - destruct (match rs_prev rs with None => true | Some p => tt_eqb p T_SEMI end) eqn:Ep.
      + destruct (ws_then_semi (skipn_N (N.to_nat (len ident)) l) 0) as [k|] eqn:Ew.
        * exact (Hb true k HOC Hr Hns Hf eq_refl eq_refl eq_refl eq_refl eq_refl).
        * apply (Hsingle T_Identifier eq_refl). rewrite run_bindP.
          rewrite (run_datalines_decline X1 true); [cbn [negb when]; apply Hemit|].
          right. rewrite R1. rewrite <- (skipn_take_while ident_char l). fold ident.
          rewrite (datalines_la_ws_then_semi _ 0), Ew. reflexivity.
      + apply (Hsingle T_Identifier eq_refl). rewrite run_bindP.
        rewrite (run_datalines_decline X1 true); [cbn [negb when]; apply Hemit|].
        left. rewrite Hprev. destruct (rs_prev rs); exact Ep.
    - apply (Hsingle T_Identifier eq_refl). apply Hemit.
  Qed.
End Ident.
