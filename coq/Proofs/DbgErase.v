(** * Debug assertions and the debug-only loop detector are pure observers (C19).
    For every program over the primitives: if the run with debug assertions on ([d = true])
    completes without a panic and without the loop detector firing, the run with them off
    performs exactly the same state transitions and returns the same value. *)
From Coq Require Import NArith ZArith List Bool Lia.
From RecordUpdate Require Import RecordSet.
From SasLexer Require Import Gen.TokenType Gen.ErrorKind Gen.Channel Model.Base Model.Core.
Import ListNotations RecordSetNotations.
Open Scope N_scope.

Lemma add_line_rel s b c r s' :
  buf_add_line true s b c = Done r s' -> buf_add_line false s b c = Done r s'.
Proof. unfold buf_add_line. cbn [andb]. destruct (negb _); [discriminate|auto]. Qed.

Lemma last_line_or_add_rel s r s' :
  last_line_or_add true s = Done r s' -> last_line_or_add false s = Done r s'.
Proof. unfold last_line_or_add. destruct (last_line s); [auto|apply add_line_rel]. Qed.

Lemma add_token_rel s t r s' :
  buf_add_token true s t = Done r s' -> buf_add_token false s t = Done r s'.
Proof.
  unfold buf_add_token. cbn [andb].
  repeat match goal with |- (if ?c then _ else _) = _ -> _ => destruct c; [discriminate|] end.
  auto.
Qed.

(** the loop detector fired iff the flag changed *)
Definition not_fired {A} (o : op A) (b : A) : Prop :=
  match o in op T return T -> Prop with
  | OLoopDetect _ => fun b => fst b = false
  | _ => fun _ => True
  end b.

Theorem exec_dbg_rel {A} (o : op A) s b s' :
  exec true o s = Done b s' -> not_fired o b -> exec false o s = Done b s'.
Proof.
  destruct o; cbn [exec not_fired andb]; intros H NF; try exact H.
  - (* OAdvanceBy *) destruct (n =? 0); [discriminate|exact H].
  - (* OAddLine *)
    destruct (buf_add_line true _ _ _) as [r s1|] eqn:E; [|discriminate].
    rewrite (add_line_rel _ _ _ _ _ E). exact H.
  - (* OStartToken *)
    destruct (last_line_or_add true _) as [r s1|] eqn:E; [|discriminate].
    rewrite (last_line_or_add_rel _ _ _ E). exact H.
  - (* OMarkIfNone *)
    destruct (s_mark s); [exact H|].
    destruct (last_line_or_add true _) as [r s1|] eqn:E; [|discriminate].
    rewrite (last_line_or_add_rel _ _ _ E). exact H.
  - (* OEmitToken *) apply add_token_rel; exact H.
  - (* OEmitTokenAtMark *) destruct (s_mark s) as [[[? ?] ?]|]; [apply add_token_rel; exact H|exact H].
  - (* OUpdateLastToken *) destruct (w_toks (s_buf s)); [apply add_token_rel; exact H|exact H].
  - (* OInsertSepBeforeLastDefault *)
    match goal with H : match ?x with _ => _ end = _ |- _ => destruct x as [[[above lt] below]|]; [|exact H] end.
    destruct (needs _ _); [|exact H].
    repeat match goal with H : (if ?c then _ else _) = _ |- _ => destruct c; [discriminate|] end.
    exact H.
  - (* OAddStringLiteralFromSrc *)
    match goal with H : (if ?c then _ else _) = _ |- _ => destruct c; [discriminate|] end. exact H.
  - (* OEvalPnl *)
    destruct (s_modes s) as [|[] r]; try exact H. destruct increment; [exact H|].
    destruct (pnl =? 0); [discriminate|exact H].
  - (* OCheckpoint *) destruct (cp_is_some s); [discriminate|exact H].
  - (* OAssertDbg *) destruct (negb (f s)); [discriminate|exact H].
  - (* OLoopDetect *)
    destruct (_ && _) eqn:E; [inversion H; subst; cbn in NF; discriminate|]. exact H.
  - (* OFinalEOF *)
    destruct (last_line_or_add true _) as [r s1|] eqn:E; [|discriminate].
    rewrite (last_line_or_add_rel _ _ _ E). apply add_token_rel. exact H.
Qed.

(** no operation clears the loop-detector flag, and [OLoopDetect] returns [true] only
    together with setting it *)
Ltac crush_flag H :=
  repeat match type of H with
         | Done _ _ = Done _ _ => inversion H; subst; clear H
         | Panic _ _ = Done _ _ => discriminate H
         | (if ?c then _ else _) = Done _ _ => destruct c
         | match (if ?c then _ else _) with _ => _ end = Done _ _ => destruct c
         | match (match ?c with _ => _ end) with _ => _ end = Done _ _ => destruct c
         | match ?x with _ => _ end = Done _ _ => destruct x
         | (let (_, _) := ?x in _) = Done _ _ => destruct x
         | _ => progress cbv zeta in H
         | _ => progress cbn [fst snd] in H
         end.

Lemma flag_emit_error s k : s_loop_detected (emit_error s k) = s_loop_detected s.
Proof. reflexivity. Qed.
Lemma flag_push_mode s m : s_loop_detected (push_mode s m) = s_loop_detected s.
Proof. reflexivity. Qed.
Lemma flag_pop_mode s : s_loop_detected (pop_mode s) = s_loop_detected s.
Proof. unfold pop_mode. destruct (s_modes s); [rewrite flag_push_mode; apply flag_emit_error|reflexivity]. Qed.
Lemma flag_note s : s_loop_detected (note_observe_lines s) = s_loop_detected s.
Proof. reflexivity. Qed.
Lemma flag_add_line d s b c r s' : buf_add_line d s b c = Done r s' -> s_loop_detected s' = s_loop_detected s.
Proof. unfold buf_add_line. intros H. crush_flag H; reflexivity. Qed.
Lemma flag_last_line d s r s' : last_line_or_add d s = Done r s' -> s_loop_detected s' = s_loop_detected s.
Proof. unfold last_line_or_add. destruct (last_line s); intros H; [inversion H; reflexivity|eapply flag_add_line; eassumption]. Qed.
Lemma flag_add_token d s t r s' : buf_add_token d s t = Done r s' -> s_loop_detected s' = s_loop_detected s.
Proof. unfold buf_add_token. intros H. crush_flag H; reflexivity. Qed.

Theorem exec_flag d {A} (o : op A) s b s' :
  exec d o s = Done b s' ->
  s_loop_detected s' = false -> s_loop_detected s = false /\ not_fired o b.
Proof.
  intros H F.
  destruct o; cbn [exec not_fired] in *;
    try (unfold add_string_literal, pop_mode, push_mode, emit_error, push_error in H;
         crush_flag H; cbn in *; auto; try discriminate;
         repeat match goal with
                | F : context [if ?c then _ else _] |- _ => destruct c; cbn in F
                end; solve [auto]).
  all: repeat match goal with
              | H : match ?x with _ => _ end = Done _ _ |- _ => destruct x eqn:?; try discriminate
              | H : Done _ _ = Done _ _ |- _ => inversion H; subst; clear H
              end;
       repeat match goal with
              | E : buf_add_line _ _ _ _ = Done _ _ |- _ => apply flag_add_line in E
              | E : last_line_or_add _ _ = Done _ _ |- _ => apply flag_last_line in E
              | E : buf_add_token _ _ _ = Done _ _ |- _ => apply flag_add_token in E
              end;
       cbn in *; rewrite ?flag_note, ?flag_emit_error, ?flag_pop_mode in *; cbn in *; auto;
       try (split; [congruence|exact I]).
Qed.

(** the run-level statement is phrased with an explicit "never fired" predicate instead *)
Fixpoint never_fired {A} (p : prog A) (s : st) : Prop :=
  match p with
  | Ret _ => True
  | Bind o k =>
    match exec true o s with
    | Done b s' => not_fired o b /\ never_fired (k b) s'
    | Panic _ _ => True
    end
  end.

Lemma run_never_fired {A} (p : prog A) : forall s a s',
  run true p s = Done a s' -> s_loop_detected s' = false -> s_loop_detected s = false /\ never_fired p s.
Proof.
  induction p as [x|B o k IH]; intros s a s' H F; cbn [run never_fired] in *.
  - inversion H; subst. auto.
  - destruct (exec true o s) as [b s1|site s1] eqn:E; [|discriminate].
    destruct (IH b s1 a s' H F) as [F1 NF].
    destruct (exec_flag true o s b s1 E F1) as [F0 N0]. auto.
Qed.

Theorem run_dbg_rel {A} (p : prog A) : forall s a s',
  run true p s = Done a s' -> never_fired p s -> run false p s = Done a s'.
Proof.
  induction p as [x|B o k IH]; intros s a s' H NF; cbn [run] in *; [exact H|].
  cbn [never_fired] in NF.
  destruct (exec true o s) as [b s1|site s1] eqn:E; [|discriminate].
  destruct NF as [NF1 NF2].
  rewrite (exec_dbg_rel o s b s1 E NF1). apply IH; assumption.
Qed.

(** If the debug run completes (no panic) and the loop detector did not fire, the release
    run is the same run. *)
Theorem run_dbg_release {A} (p : prog A) s a s' :
  run true p s = Done a s' -> s_loop_detected s' = false -> run false p s = Done a s'.
Proof.
  intros H F. apply run_dbg_rel; [exact H|]. apply (run_never_fired p s a s' H F).
Qed.
