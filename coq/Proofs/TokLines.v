(** * Start lines of tokens (C04), generically.
    [TLInv]: as long as the line-protocol monitor [g_lines_ok] is on, the line index stored in
    every token of the work buffer - and in the current-token fields, a pending mark and a live
    checkpoint, from which later tokens take theirs - is the number of line feeds in the text
    before the token's start byte.  Preserved by every primitive, hence by every program over
    the primitives (every handler, every input, both profiles).  Uses the line-table invariant
    [LInv] at the two places where a line index is read off the table ([start_token],
    [mark_token_start], the final EOF). *)
From Coq Require Import NArith ZArith List Bool Lia.
From RecordUpdate Require Import RecordSet.
From SasLexer Require Import Gen.TokenType Gen.ErrorKind Gen.Channel Model.Base Model.Core Model.Buffer
     Model.Lexer3 Proofs.BufferProofs Proofs.Generic Proofs.LexGeneric Proofs.Lines Proofs.LexLines.
Import ListNotations RecordSetNotations.
Open Scope N_scope.

Lemma blen_prefix_unique : forall (p1 p2 r1 r2 : list char),
  p1 ++ r1 = p2 ++ r2 -> blen p1 = blen p2 -> p1 = p2.
Proof.
  induction p1 as [|x p1 IH]; intros [|y p2] r1 r2 E B; cbn [blen app] in *.
  - reflexivity.
  - pose proof (utf8_len_pos y). lia.
  - pose proof (utf8_len_pos x). lia.
  - injection E as -> E. f_equal. apply (IH p2 r1 r2 E). lia.
Qed.

Lemma drop_Forall {A} (P : A -> Prop) : forall n (l : list A), Forall P l -> Forall P (drop n l).
Proof.
  induction n as [|n IH]; intros l H; [exact H|]. destruct l as [|x l]; [constructor|].
  cbn [drop]. apply IH. inversion H; assumption.
Qed.

Lemma truncate_Forall {A} (P : A -> Prop) (l : list A) a b : Forall P l -> Forall P (truncate_rev l a b).
Proof. intros H. unfold truncate_rev. destruct (b <? a); [apply drop_Forall|]; exact H. Qed.

Section TokLines.
  Variable first : line_info.
  Variable src : list char.

  (** [l] line feeds precede byte [b] of the text *)
  Definition LineAt (b l : N) : Prop :=
    forall pre rest, src = pre ++ rest -> blen pre = b -> l = count_nl pre.

  Definition tok_ok (t : tok) : Prop := LineAt (t_byte t) (t_line t).

  Definition TLInv (s : st) : Prop :=
    g_lines_ok (s_ghost s) = true ->
    Forall tok_ok (w_toks (s_buf s)) /\
    LineAt (s_ct_byte s) (s_ct_line s) /\
    match s_mark s with Some (b, _, l) => LineAt b l | None => True end /\
    match s_cp s with Some k => LineAt (k_ct_byte k) (k_ct_line k) | None => True end.

  Definition res_tl {A} (r : res A) : Prop :=
    match r with Done _ s => TLInv s | Panic _ _ => True end.

  (** updates that keep tokens, current-token fields, mark and checkpoint, and do not turn the monitor on *)
  Definition tcore_eq (s s' : st) : Prop :=
    w_toks (s_buf s') = w_toks (s_buf s) /\ s_ct_byte s' = s_ct_byte s /\ s_ct_line s' = s_ct_line s /\
    s_mark s' = s_mark s /\ s_cp s' = s_cp s /\
    (g_lines_ok (s_ghost s') = true -> g_lines_ok (s_ghost s) = true).

  Lemma TL_core s s' : tcore_eq s s' -> TLInv s -> TLInv s'.
  Proof.
    intros (E1 & E2 & E3 & E4 & E5 & E6) T OK. specialize (T (E6 OK)). rewrite E1, E2, E3, E4, E5. exact T.
  Qed.

  Ltac tcore := repeat split; try reflexivity; auto.

  Lemma TL_note s : TLInv s -> TLInv (note_observe_lines s).
  Proof. apply TL_core. tcore. intros H. apply (note_ok s H). Qed.

  Lemma TL_emit_error s k : TLInv s -> TLInv (emit_error s k).
  Proof. intros T. unfold emit_error, push_error. eapply TL_core; [|apply TL_note; exact T]. tcore. Qed.

  Lemma TL_push_mode s m : TLInv s -> TLInv (push_mode s m).
  Proof. apply TL_core. tcore. Qed.

  Lemma TL_pop_mode s : TLInv s -> TLInv (pop_mode s).
  Proof.
    intros T. unfold pop_mode. destruct (s_modes s).
    - apply TL_push_mode, TL_emit_error, T.
    - revert T. apply TL_core. tcore.
  Qed.

  (** the line index the table gives for the cursor position *)
  Lemma line_now s :
    InvPos src s -> LInv first src s ->
    g_lines_ok (s_ghost s) = true -> g_line_debt (s_ghost s) = false ->
    w_nlines (s_buf s) <> 0 /\ LineAt (cur_byte s) (w_nlines (s_buf s) - 1).
  Proof.
    intros I L OK D. split; [exact (lines_len first src s OK L I)|].
    destruct (L OK) as (L1 & L2 & _).
    destruct (ip_cur _ _ I) as (pre0 & E0 & _).
    pose proof (L2 pre0 E0) as T. rewrite D in T.
    destruct (cur_facts src s pre0 I E0) as [Hb _].
    intros pre rest E B.
    assert (pre = pre0) by (apply (blen_prefix_unique pre pre0 rest (c_rest (s_cur s))); [rewrite <- E, <- E0; reflexivity|lia]).
    subst pre. rewrite L1.
    assert (Hl : len (w_lines (s_buf s)) = len (rev (w_lines (s_buf s)))) by (unfold len; rewrite rev_length; reflexivity).
    rewrite Hl, T. unfold table. rewrite len_cons, starts_from_length. lia.
  Qed.

  (** a token whose position is known to be right *)
  Lemma add_token_tl d s t : tok_ok t -> TLInv s -> res_tl (buf_add_token d s t).
  Proof.
    intros Ht T. unfold buf_add_token.
    repeat (match goal with |- res_tl (if ?c then _ else _) => destruct c end; cbn [res_tl]; try exact Logic.I).
    intros OK. destruct (T OK) as (T1 & T2 & T3 & T4). cbn. repeat split; try assumption. constructor; assumption.
  Qed.

  (** [last_line_or_add] after [note_observe_lines]: the state is unchanged up to the monitor and the result is the line of the cursor *)
  Lemma last_line_tl d s :
    InvPos src s -> LInv first src s -> TLInv s ->
    match last_line_or_add d (note_observe_lines s) with
    | Done l s' => TLInv s' /\ tcore_eq s s' /\ (g_lines_ok (s_ghost s') = true -> LineAt (cur_byte s) l)
    | Panic _ _ => True
    end.
  Proof.
    intros I L T. unfold last_line_or_add, last_line.
    destruct (w_nlines (s_buf (note_observe_lines s)) =? 0) eqn:Z.
    - unfold buf_add_line. destruct (d && _); [exact Logic.I|].
      assert (Hbad : g_lines_ok (s_ghost (note_observe_lines s)) = true -> False).
      { intros OK. destruct (note_ok s OK) as [OK0 _]. apply N.eqb_eq in Z. exact (lines_len first src s OK0 L I Z). }
      split; [intros OK; exfalso; exact (Hbad OK)|]. split; [|intros OK; exfalso; exact (Hbad OK)].
      repeat split; try reflexivity. intros OK. exfalso. exact (Hbad OK).
    - split; [apply TL_note; exact T|]. split; [tcore; intros H; apply (note_ok s H)|].
      intros OK. destruct (note_ok s OK) as [OK0 D0].
      exact (proj2 (line_now s I L OK0 D0)).
  Qed.

  Theorem exec_TLInv d {A} (o : op A) s :
    InvPos src s -> LInv first src s -> TLInv s -> res_tl (exec d o s).
  Proof.
    intros I L T. destruct o; cbn [exec].
    - (* OGet *) exact T.
    - (* OAdvance *)
      destruct (c_rest (s_cur s)) as [|x r] eqn:Er; [exact T|]. cbn [res_tl].
      revert T. apply TL_core. tcore. cbn. intros OK.
      destruct (g_line_debt (s_ghost s)); destruct (x =? NL); cbn in OK; auto; discriminate.
    - (* OAdvanceBy *)
      destruct (d && _); [exact Logic.I|]. cbn [res_tl].
      revert T. apply TL_core. tcore. cbn. intros OK.
      destruct (g_line_debt (s_ghost s) && (0 <? n) || has_nl_before_last (c_rest (s_cur s)) (N.to_nat n));
        destruct (nth_is_nl _ _); cbn in OK; auto; discriminate.
    - (* OAddLine *)
      unfold buf_add_line. destruct (d && _); [exact Logic.I|]. cbn [res_tl].
      revert T. apply TL_core. tcore. cbn. intros OK. apply andb_true_iff in OK. exact (proj1 OK).
    - (* OStartToken *)
      pose proof (last_line_tl d s I L T) as H.
      destruct (last_line_or_add d (note_observe_lines s)) as [l s'|]; [|exact Logic.I].
      destruct H as (T' & (E1 & E2 & E3 & E4 & E5 & E6) & Hl). cbn [res_tl].
      intros OK. cbn in OK. destruct (T' OK) as (T1 & _ & T3 & T4). cbn.
      split; [exact T1|]. split; [exact (Hl OK)|]. split; assumption.
    - (* OMarkIfNone *)
      destruct (s_mark s) eqn:Em; [exact T|].
      pose proof (last_line_tl d s I L T) as H.
      destruct (last_line_or_add d (note_observe_lines s)) as [l s'|]; [|exact Logic.I].
      destruct H as (T' & _ & Hl). cbn [res_tl].
      intros OK. cbn in OK. destruct (T' OK) as (T1 & T2 & _ & T4). cbn.
      split; [exact T1|]. split; [exact T2|]. split; [exact (Hl OK)|exact T4].
    - (* OClearMark *)
      cbn [res_tl]. intros OK. destruct (T OK) as (T1 & T2 & _ & T4). cbn. repeat split; assumption.
    - (* OEmitToken *)
      destruct (g_lines_ok (s_ghost s)) eqn:OK0.
      + apply add_token_tl; [|exact T]. exact (proj1 (proj2 (T OK0))).
      + unfold buf_add_token.
        repeat (match goal with |- res_tl (if ?c then _ else _) => destruct c end; cbn [res_tl]; try exact Logic.I).
        intros OK. cbn in OK. congruence.
    - (* OEmitTokenAtMark *)
      destruct (s_mark s) as [[[b c] l]|] eqn:Em; [|exact T].
      destruct (g_lines_ok (s_ghost s)) eqn:OK0.
      + apply add_token_tl; [|exact T]. pose proof (proj1 (proj2 (proj2 (T OK0)))) as M. rewrite Em in M. exact M.
      + unfold buf_add_token.
        repeat (match goal with |- res_tl (if ?c then _ else _) => destruct c end; cbn [res_tl]; try exact Logic.I).
        intros OK. cbn in OK. congruence.
    - (* OUpdateLastToken *)
      destruct (w_toks (s_buf s)) as [|t r] eqn:Et.
      + destruct (g_lines_ok (s_ghost s)) eqn:OK0.
        * apply add_token_tl; [|apply TL_emit_error; exact T]. exact (proj1 (proj2 (T OK0))).
        * unfold buf_add_token.
          repeat (match goal with |- res_tl (if ?c then _ else _) => destruct c end; cbn [res_tl]; try exact Logic.I).
          intros OK. cbn in OK. apply andb_true_iff in OK. destruct OK as [OK _]. congruence.
      + cbn [res_tl]. intros OK. cbn in OK. destruct (T OK) as (T1 & T2 & T3 & T4). rewrite Et in T1. cbn.
        split; [|repeat split; assumption]. inversion T1; subst. constructor; assumption.
    - (* ORetypeLastDefaultToLabel *)
      match goal with |- res_tl (match ?g with _ => _ end) => destruct g as [l|] eqn:Eg end; [|exact T].
      cbn [res_tl]. intros OK. cbn in OK. destruct (T OK) as (T1 & T2 & T3 & T4). cbn.
      split; [|repeat split; assumption].
      revert l Eg. induction T1 as [|t r Ht Hr IH]; intros l Eg; [discriminate|].
      destruct (is_default t).
      * destruct (tt_eqb (t_type t) T_MacroIdentifier); [|discriminate]. injection Eg as <-. constructor; assumption.
      * match type of Eg with option_map _ ?g = _ => destruct g as [l'|] eqn:Eg' end; [|discriminate].
        injection Eg as <-. constructor; [exact Ht|]. apply IH. reflexivity.
    - (* OInsertSepBeforeLastDefault *)
      match goal with |- res_tl (match ?g with _ => _ end) => destruct g as [[[above lt] below]|] eqn:Eg end; [|exact T].
      destruct (needs _ _); [|exact T].
      repeat (match goal with |- res_tl (if ?c then _ else _) => destruct c end; cbn [res_tl]; try exact Logic.I).
      intros OK. cbn in OK. destruct (T OK) as (T1 & T2 & T3 & T4). cbn.
      split; [|repeat split; assumption].
      assert (G : forall l acc, Forall tok_ok l -> Forall tok_ok acc ->
                  (fix split (l acc : list tok) : option (list tok * tok * list tok) :=
                     match l with
                     | [] => None
                     | t :: r => if is_default t then Some (rev acc, t, r) else split r (t :: acc)
                     end) l acc = Some (above, lt, below) ->
                  Forall tok_ok above /\ tok_ok lt /\ Forall tok_ok below).
      { induction l as [|t r IH]; intros acc Hl Ha E; [discriminate|]. inversion Hl; subst.
        destruct (is_default t).
        - injection E as <- <- <-. split; [apply Forall_rev; exact Ha|]. split; assumption.
        - apply (IH (t :: acc)); [assumption|constructor; assumption|exact E]. }
      destruct (G _ _ T1 (Forall_nil _) Eg) as (Ga & Gl & Gb).
      apply Forall_app. split; [exact Ga|]. constructor; [exact Gl|]. constructor; [exact Gl|exact Gb].
    - (* OAddStringLiteral *) unfold add_string_literal. cbn [res_tl]. revert T. apply TL_core. tcore.
    - (* OAddStringLiteralFromSrc *)
      unfold add_string_literal.
      match goal with |- res_tl (if ?c then _ else _) => destruct c; [exact Logic.I|] end.
      match goal with |- context [src_slice ?x ?y ?z] => destruct (src_slice x y z) end; cbn [res_tl].
      + revert T. apply TL_core. tcore.
      + eapply TL_core; [|apply (TL_emit_error _ E_InternalErrorOutOfBounds T)]. tcore.
    - (* OSrcSlice *) destruct (src_slice s a b); [exact T|apply TL_emit_error; exact T].
    - (* OPushMode *) apply TL_push_mode; exact T.
    - (* OPopMode *) apply TL_pop_mode; exact T.
    - (* OMode *) destruct (s_modes s); [apply TL_push_mode, TL_emit_error, T|exact T].
    - (* OEvalPnl *)
      destruct (s_modes s) as [|[] r]; try exact T. destruct increment; [revert T; apply TL_core; tcore|].
      destruct (d && _); [exact Logic.I|revert T; apply TL_core; tcore].
    - (* OValuePnlAdd *) destruct (s_modes s) as [|[] r]; try exact T; try exact Logic.I.
    - (* OStrPnlAdd *) destruct (s_modes s) as [|[] r]; try exact T; try exact Logic.I.
    - (* OInsertModes *) destruct (_ <? _); [exact Logic.I|revert T; apply TL_core; tcore].
    - (* OSetNameFound *)
      destruct (_ <? _); [|apply TL_emit_error; exact T].
      destruct (update_nth _ _ _); [revert T; apply TL_core; tcore|apply TL_emit_error; exact T].
    - (* OPushPending *) revert T; apply TL_core; tcore.
    - (* OPopPending *) destruct (s_pstat s) as [|? [|? ?]]; exact T.
    - (* OSetPending *)
      destruct (s_pstat s); cbn [res_tl].
      + eapply TL_core; [|apply (TL_emit_error _ E_InternalErrorEmptyPendingStatStack T)]. tcore.
      + revert T; apply TL_core; tcore.
    - (* OPending *)
      destruct (s_pstat s); [|exact T]. cbn [res_tl].
      eapply TL_core; [|apply (TL_emit_error _ E_InternalErrorEmptyPendingStatStack T)]. tcore.
    - (* OCheckpoint *)
      destruct (d && _); [exact Logic.I|]. cbn [res_tl].
      intros OK. cbn in OK. destruct (note_ok s OK) as [OK0 D0].
      destruct (T OK0) as (T1 & T2 & T3 & T4). cbn. repeat split; assumption.
    - (* OClearCheckpoint *)
      cbn [res_tl]. intros OK. destruct (T OK) as (T1 & T2 & T3 & T4). cbn. repeat split; assumption.
    - (* ORollback *)
      destruct (s_cp s) as [k|] eqn:Ek; [|apply TL_emit_error; exact T]. cbn [res_tl].
      intros OK. cbn in OK. destruct (T OK) as (T1 & T2 & T3 & T4). rewrite Ek in T4. cbn.
      split; [apply truncate_Forall; exact T1|]. split; [exact T4|]. split; [exact T3|exact Logic.I].
    - (* OEmitError *) apply TL_emit_error; exact T.
    - (* OPrepError *)
      cbn [res_tl]. eapply TL_core; [|apply TL_note; exact T]. tcore.
    - (* OEmitPreparedError *)
      destruct (s_perr s); [|exact T]. cbn [res_tl]. revert T. apply TL_core. tcore.
    - (* OSetMnl *) revert T; apply TL_core; tcore.
    - (* OAssertDbg *) destruct (d && _); [exact Logic.I|exact T].
    - (* OUnreachable *) exact Logic.I.
    - (* OTick *) destruct (_ <? _); cbn [res_tl]; revert T; apply TL_core; tcore.
    - (* OLoopDetect *)
      destruct (d && _); cbn [res_tl].
      + eapply TL_core; [|apply (TL_emit_error _ E_InternalErrorInfiniteLoop T)]. tcore.
      + revert T; apply TL_core; tcore.
    - (* OFinalEOF *)
      pose proof (last_line_tl d s I L T) as H.
      destruct (last_line_or_add d (note_observe_lines s)) as [l s'|]; [|exact Logic.I].
      destruct H as (T' & _ & Hl).
      destruct (g_lines_ok (s_ghost s')) eqn:OK'.
      + apply add_token_tl; [exact (Hl eq_refl)|exact T'].
      + unfold buf_add_token.
        repeat (match goal with |- res_tl (if ?c then _ else _) => destruct c end; cbn [res_tl]; try exact Logic.I).
        intros OK. cbn in OK. congruence.
  Qed.

  Theorem run_TLInv d {A} (p : prog A) : forall s,
    InvPos src s -> LInv first src s -> TLInv s ->
    match run d p s with Done _ s' => TLInv s' | Panic _ _ => True end.
  Proof.
    induction p as [a|B o k IH]; intros s I L T; cbn [run]; [exact T|].
    pose proof (exec_TLInv d o s I L T) as H. pose proof (exec_InvPos d src o s I) as HI.
    pose proof (exec_LInv first src d o s I L) as HL.
    destruct (exec d o s); [apply IH; assumption|exact Logic.I].
  Qed.
End TokLines.

(** ** The tokens of the buffer returned by [lex] *)
Lemma init_TLInv text : TLInv text (init text).
Proof.
  intros _. unfold init. cbn -[blen]. split; [constructor|]. split; [|split; exact I].
  intros pre rest E B. destruct pre as [|x pre]; [reflexivity|]. cbn [blen] in B. pose proof (utf8_len_pos x). lia.
Qed.

Lemma lex_text_state_TLInv cfg bb bc text :
  lr_outcome (lex_text cfg bb bc text) = None -> TLInv text (lr_state (lex_text cfg bb bc text)).
Proof.
  unfold lex_text.
  match goal with |- context [run (dbg cfg) ?p (init text)] => set (ml := p) end.
  pose proof (run_TLInv line0 text (dbg cfg) ml (init text) (init_InvPos text) (init_LInv text) (init_TLInv text)) as H1.
  pose proof (run_LInv line0 text (dbg cfg) ml (init text) (init_InvPos text) (init_LInv text)) as L1.
  pose proof (run_InvPos (dbg cfg) text ml (init text) (init_InvPos text)) as I1.
  destruct (run (dbg cfg) ml (init text)) as [det s1|site s1]; [|cbn; discriminate].
  cbn [res_inv] in I1. destruct det; [intros _; exact H1|].
  pose proof (run_TLInv line0 text (dbg cfg) (finalize_lexing (S (S (N.to_nat (s_nmodes s1))))) s1 I1 L1 H1) as H2.
  destruct (run (dbg cfg) (finalize_lexing _) s1); [intros _; exact H2|cbn; discriminate].
Qed.

(** If the run returns with the line monitor on and the EOF token in place, the line index of
    every token of the returned buffer is the number of line feeds of the source before the
    token's start byte (so its 1-based line is one plus that number), for every input, both
    profiles. *)
Theorem lex_token_lines cfg src :
  let r := lex cfg src in
  lr_outcome r = None ->
  g_lines_ok (s_ghost (lr_state r)) = true ->
  match w_toks (s_buf (lr_state r)) with t :: _ => tt_eqb (t_type t) T_EOF | [] => false end = true ->
  forall t, In t (b_toks (lr_buffer r)) ->
  forall pre rest, src = pre ++ rest -> blen pre = t_byte t -> t_line t = count_nl pre.
Proof.
  cbv zeta. unfold lex. destruct (split_bom src) as [[bb bc] text] eqn:Es.
  intros Ho Ok Heof t Hin pre rest E B.
  destruct (lex_text_buffer_errors cfg bb bc text) as [Hb _]. rewrite Hb in Hin.
  pose proof (lex_text_state_TLInv cfg bb bc text Ho Ok) as (T1 & _).
  unfold into_detached in Hin. cbn [b_toks] in Hin. rewrite Heof in Hin.
  apply in_map_iff in Hin. destruct Hin as (t0 & <- & Hin0). apply in_rev in Hin0.
  rewrite Forall_forall in T1. specialize (T1 t0 Hin0). unfold tok_ok, LineAt in T1.
  cbn [shift_tok t_line t_byte] in *.
  unfold split_bom in Es. destruct src as [|c r].
  - inversion Es; subst. destruct pre; [|discriminate]. destruct rest; [|discriminate].
    apply (T1 [] []); [reflexivity|]. cbn [blen] in *. lia.
  - destruct (c =? BOM) eqn:Eb; inversion Es; subst.
    + destruct pre as [|x pre]; [cbn [blen] in B; pose proof (utf8_len_pos c); lia|].
      cbn [app] in E. injection E as <- E. cbn [blen] in B.
      cbn [count_nl]. apply N.eqb_eq in Eb. subst c. replace (BOM =? NL) with false by reflexivity.
      rewrite N.add_0_l. apply (T1 pre rest E). lia.
    + apply (T1 pre rest E). lia.
Qed.
