(** * The reference lexer reports only user-level error kinds (never one of the internal 9xxx class) *)
From Coq Require Import NArith ZArith List Bool Lia.
From SasLexer Require Import Gen.TokenType Gen.ErrorKind Gen.Channel Gen.Unicode Model.Base Model.Helpers Model.Numeric Spec.RefLex.
Import ListNotations.
Open Scope N_scope.

Definition USER_ERRS : list ErrorKind :=
  [E_InvalidNumericLiteral; E_UnterminatedHexNumericLiteral; E_UnterminatedStringLiteral; E_UnterminatedComment;
   E_UnterminatedDatalines; E_InvalidHexStringConstant].
Definition user_kind (e : ErrorKind) : Prop := In e USER_ERRS.

Lemma user_not_internal e : user_kind e -> ek_is_internal e = false.
Proof. unfold user_kind, USER_ERRS. cbn [In]. intros H. repeat (destruct H as [<-|H]; [reflexivity|]). contradiction. Qed.

Ltac uk := unfold user_kind, USER_ERRS; cbn [In]; tauto.

Lemma hex_string_err t e : parse_sas_hex_string t = inr e -> e = E_InvalidHexStringConstant.
Proof.
  unfold parse_sas_hex_string. intros H.
  repeat match type of H with
         | (if ?b then _ else _) = _ => destruct b
         | match ?x with _ => _ end = _ => destruct x
         | inr _ = inr _ => inversion H; reflexivity
         | inl _ = inr _ => discriminate H
         | _ => progress cbv zeta in H
         end.
Qed.

Definition opt_user (o : option ErrorKind) : Prop := o = None \/ o = Some E_InvalidNumericLiteral.

Lemma int_err l r : try_parse_integer l = Some r -> opt_user (n_err r).
Proof.
  unfold try_parse_integer. destruct (take_while is_ascii_digit l); [discriminate|].
  destruct (_ <? _); [discriminate|]. intros H. inversion H. left. reflexivity.
Qed.

Lemma float_err l r : try_parse_float l = Some r -> opt_user (n_err r).
Proof.
  unfold try_parse_float. intros H.
  repeat match type of H with
         | (let '(_, _) := ?x in _) = _ => destruct x
         | (if ?b then _ else _) = _ => destruct b
         | match ?x with _ => _ end = _ => destruct x
         | Some _ = Some _ => inversion H; subst; clear H
         | None = Some _ => discriminate H
         | _ => progress cbv zeta in H
         end; unfold opt_user; cbn [n_err]; auto.
Qed.

Lemma dec_err l a b r : try_parse_decimal l a b = Some r -> opt_user (n_err r).
Proof.
  unfold try_parse_decimal. intros H.
  destruct (if a then try_parse_integer l else None) as [i|] eqn:Ei; destruct (if b then try_parse_float l else None) as [f|] eqn:Ef.
  - destruct a; [|discriminate]. destruct b; [|discriminate]. destruct (_ <=? _); inversion H; subst; [eapply int_err|eapply float_err]; eassumption.
  - destruct a; [|discriminate]. inversion H; subst. eapply int_err; eassumption.
  - destruct b; [|discriminate]. inversion H; subst. eapply float_err; eassumption.
  - discriminate.
Qed.

Lemma hexint_err l r : try_parse_hex_integer l = Some r -> opt_user (n_err r).
Proof.
  unfold try_parse_hex_integer. destruct (take_while is_ascii_hexdigit l); [discriminate|].
  destruct (_ <=? _); intros H.
  - inversion H. left. reflexivity.
  - cbv zeta in H.
    match type of H with context [let '(_, _) := ?x in _] => destruct x end.
    inversion H. right. reflexivity.
Qed.

Lemma opt_user_list o : opt_user o -> Forall user_kind (match o with Some e => [e] | None => [] end).
Proof. intros [->| ->]; [constructor|]. constructor; [uk|constructor]. Qed.

Lemma numeric_errs l : Forall user_kind (snd (numeric_literal l)).
Proof.
  unfold numeric_literal. cbv zeta.
  set (hexr := if match l with c :: _ => c =? c_dot | [] => false end then None else try_parse_hex_integer l).
  set (decr := try_parse_decimal l _ true).
  assert (Hh : forall h, hexr = Some h -> opt_user (n_err h)).
  { intros h E. subst hexr. destruct (match l with c :: _ => c =? c_dot | [] => false end); [discriminate|]. eapply hexint_err; eassumption. }
  assert (Hd : forall d, decr = Some d -> opt_user (n_err d)) by (intros d E; eapply dec_err; exact E).
  assert (PH : forall h, opt_user (n_err h) -> forall (b : bool),
             Forall user_kind (match n_err h with Some e => [e] | None => [] end ++ (if b then [] else [E_UnterminatedHexNumericLiteral]))).
  { intros h Ho b. apply Forall_app. split; [apply opt_user_list; exact Ho|]. destruct b; [constructor|]. constructor; [uk|constructor]. }
  destruct decr as [dr|] eqn:Ed; destruct hexr as [hr|] eqn:Eh; cbn [snd].
  - pose proof (Hd dr eq_refl) as Od. pose proof (Hh hr eq_refl) as Oh.
    destruct Od as [Od|Od], Oh as [Oh|Oh]; rewrite ?Od, ?Oh;
      repeat match goal with
             | |- context [if ?b then _ else _] => destruct b
             | |- context [match ?x with _ => _ end] => destruct x
             end; cbn [snd app]; repeat (constructor; try uk).
  - apply opt_user_list. apply Hd. reflexivity.
  - apply PH. apply Hh. reflexivity.
  - constructor; [uk|constructor].
Qed.

Definition errs_of (x : list rtok * list rerr * N * rstate) : list rerr := snd (fst (fst x)).
Definition user_err (e : rerr) : Prop := user_kind (re_kind e).

Lemma lexeme_errs l pos st : Forall user_err (errs_of (lexeme l pos st)).
Proof.
  unfold lexeme. destruct l as [|c r]; [constructor|]. cbv zeta.
  destruct (is_whitespace c); [constructor|].
  destruct ((c =? c_squote) || (c =? c_dquote)).
  { destruct (scan_quoted c r 1 [] false) as [[[n closed] val] esc].
    destruct (negb closed).
    - destruct (if esc then push_lit st val else (st, PNone)). unfold errs_of. cbn [fst snd]. constructor; [unfold user_err; cbn [re_kind]; uk|constructor].
    - destruct (suffix_of _) as [ty extra].
      destruct (tt_eqb ty T_HexStringLiteral).
      + destruct (parse_sas_hex_string _) as [v|e] eqn:Ep.
        * destruct (push_lit st v). constructor.
        * destruct (if esc then push_lit st val else (st, PNone)). unfold errs_of. cbn [fst snd].
          rewrite (hex_string_err _ _ Ep). constructor; [unfold user_err; cbn [re_kind]; uk|constructor].
      + destruct (if esc then push_lit st val else (st, PNone)). constructor. }
  destruct (c =? c_semi); [constructor|].
  destruct (c =? c_slash).
  { destruct (_ =? c_star); [|constructor]. destruct (find_comment_end _ _); [constructor|].
    unfold errs_of. cbn [fst snd]. constructor; [unfold user_err; cbn [re_kind]; uk|constructor]. }
  destruct (c =? c_amp); [constructor|].
  destruct (c =? c_pct); [constructor|].
  destruct (is_ascii_digit c || _).
  { pose proof (numeric_errs (c :: r)) as Hn. destruct (numeric_literal (c :: r)) as [[[ty pl] n] errs]. cbn [snd] in Hn.
    unfold errs_of. cbn [fst snd]. induction Hn as [|e es He _ IH]; [constructor|]. cbn [map]. constructor; [exact He|exact IH]. }
  destruct (is_valid_unicode_sas_name_start c).
  { destruct (negb _ || _); [constructor|].
    destruct (parse_keyword _); [constructor|].
    destruct (assoc_chars _ _) as [four|]; [|constructor].
    match goal with |- context [match ?x with Some _ => _ | None => _ end] => destruct x end; [|constructor].
    destruct (datalines_data _ _ _) as [dn found].
    unfold errs_of. cbn [fst snd]. destruct found; [constructor|]. constructor; [unfold user_err; cbn [re_kind]; uk|constructor]. }
  repeat match goal with
         | |- context [if ?b then _ else _] => destruct b
         | |- context [match ?x with _ => _ end] => destruct x
         end; constructor.
Qed.

Lemma reflex_loop_errs : forall fuel l pos st toks errs,
  Forall user_err errs -> Forall user_err (snd (fst (reflex_loop fuel l pos st toks errs))).
Proof.
  induction fuel as [|f IH]; intros l pos st toks errs H; cbn [reflex_loop].
  - cbn [fst snd]. apply Forall_rev. exact H.
  - destruct l as [|c r]; [cbn [fst snd]; apply Forall_rev; exact H|].
    pose proof (lexeme_errs (c :: r) pos st) as He.
    destruct (lexeme (c :: r) pos st) as [[[ts es] n] st']. unfold errs_of in He. cbn [fst snd] in He.
    apply IH. rewrite rev_append_rev. apply Forall_app. split; [apply Forall_rev; exact He|exact H].
Qed.

Theorem reflex_errs_user src : Forall user_err (snd (fst (reflex src))).
Proof.
  unfold reflex.
  match goal with |- context [let '(bb, text) := ?x in _] => destruct x as [bb text] end.
  pose proof (reflex_loop_errs (S (List.length text)) text bb (mkRstate false None [] 0) [] [] (Forall_nil _)) as H.
  destruct (reflex_loop _ _ _ _ _ _) as [[toks errs] st]. exact H.
Qed.

(** ** the output is linear in the text: at most three tokens and two errors per lexeme *)
Definition toks_of (x : list rtok * list rerr * N * rstate) : list rtok := fst (fst (fst x)).
Definition len_of (x : list rtok * list rerr * N * rstate) : N := snd (fst x).

Lemma numeric_errs_count l : (List.length (snd (numeric_literal l)) <= 2)%nat.
Proof.
  unfold numeric_literal. cbv zeta.
  repeat match goal with
         | |- context [if ?b then _ else _] => destruct b
         | |- context [match ?x with _ => _ end] => destruct x
         end; cbn [snd app List.length]; lia.
Qed.

Lemma lexeme_counts l pos st :
  (List.length (toks_of (lexeme l pos st)) <= 3)%nat /\ (List.length (errs_of (lexeme l pos st)) <= 2)%nat.
Proof.
  unfold lexeme. destruct l as [|c r]; [cbn; lia|]. cbv zeta.
  destruct (is_whitespace c); [cbn; lia|].
  destruct ((c =? c_squote) || (c =? c_dquote)).
  { destruct (scan_quoted c r 1 [] false) as [[[n closed] val] esc].
    destruct (negb closed).
    - destruct (if esc then push_lit st val else (st, PNone)). cbn. lia.
    - destruct (suffix_of _) as [ty extra].
      destruct (tt_eqb ty T_HexStringLiteral).
      + destruct (parse_sas_hex_string _) as [v|e].
        * destruct (push_lit st v). cbn. lia.
        * destruct (if esc then push_lit st val else (st, PNone)). cbn. lia.
      + destruct (if esc then push_lit st val else (st, PNone)). cbn. lia. }
  destruct (c =? c_semi); [cbn; lia|].
  destruct (c =? c_slash).
  { destruct (_ =? c_star); [|cbn; lia]. destruct (find_comment_end _ _); cbn; lia. }
  destruct (c =? c_amp); [cbn; lia|].
  destruct (c =? c_pct); [cbn; lia|].
  destruct (is_ascii_digit c || _).
  { pose proof (numeric_errs_count (c :: r)) as Hn. destruct (numeric_literal (c :: r)) as [[[ty pl] n] errs]. cbn [snd] in Hn.
    unfold toks_of, errs_of. cbn [fst snd List.length]. rewrite map_length. lia. }
  destruct (is_valid_unicode_sas_name_start c).
  { destruct (negb _ || _); [cbn; lia|].
    destruct (parse_keyword _); [cbn; lia|].
    destruct (assoc_chars _ _) as [four|]; [|cbn; lia].
    match goal with |- context [match ?x with Some _ => _ | None => _ end] => destruct x end; [|cbn; lia].
    destruct (datalines_data _ _ _) as [dn found].
    unfold toks_of, errs_of. cbn [fst snd List.length]. destruct found; cbn [List.length]; lia. }
  repeat match goal with
         | |- context [if ?b then _ else _] => destruct b
         | |- context [match ?x with _ => _ end] => destruct x
         end; cbn; lia.
Qed.

Lemma reflex_loop_counts : forall fuel l pos st toks errs,
  let '(T, E, _) := reflex_loop fuel l pos st toks errs in
  (List.length T <= List.length toks + 3 * fuel + 1)%nat /\ (List.length E <= List.length errs + 2 * fuel)%nat.
Proof.
  induction fuel as [|f IH]; intros l pos st toks errs; cbn [reflex_loop].
  - rewrite !rev_length. lia.
  - destruct l as [|c r]; [rewrite !rev_length; cbn [List.length]; lia|].
    pose proof (lexeme_counts (c :: r) pos st) as [Ht He].
    destruct (lexeme (c :: r) pos st) as [[[ts es] n] st']. unfold toks_of, errs_of in Ht, He. cbn [fst snd] in Ht, He.
    specialize (IH (skipn_N (N.to_nat n) (c :: r)) (pos + blen (firstn (N.to_nat n) (c :: r))) st' (rev_append ts toks) (rev_append es errs)).
    destruct (reflex_loop f _ _ _ _ _) as [[T E] st2]. rewrite !rev_append_rev, !app_length, !rev_length in IH. lia.
Qed.

Theorem reflex_counts src :
  let '(T, E, _) := reflex src in
  (List.length T <= 3 * List.length src + 4)%nat /\ (List.length E <= 2 * List.length src + 2)%nat.
Proof.
  unfold reflex.
  assert (Hlen : forall (x : N * list char), x = match src with c :: r => if c =? 65279 then (utf8_len c, r) else (0, src) | [] => (0, src) end ->
            (List.length (snd x) <= List.length src)%nat).
  { intros x ->. destruct src as [|c r]; [cbn; lia|]. destruct (c =? 65279); cbn [snd List.length]; lia. }
  specialize (Hlen _ eq_refl).
  destruct (match src with c :: r => if c =? 65279 then (utf8_len c, r) else (0, src) | [] => (0, src) end) as [bb text].
  cbn [snd] in Hlen.
  pose proof (reflex_loop_counts (S (List.length text)) text bb (mkRstate false None [] 0) [] []) as H.
  destruct (reflex_loop _ _ _ _ _ _) as [[toks errs] st]. cbn [List.length] in H. lia.
Qed.
