(** * ASCII case independence of the classification helpers (C16).
    [case_variant l l']: same length, position-wise equal up to the case of ASCII letters. *)
From Coq Require Import NArith List Bool String Lia.
From SasLexer Require Import Gen.TokenType Gen.ErrorKind Gen.Channel Gen.Unicode Model.Base Model.Core
     Model.Helpers Model.Numeric Proofs.Tables.
Import ListNotations.
Open Scope N_scope.

Definition is_letter (c : char) : bool := is_ascii_lower c || is_ascii_upper c.

Definition case_eq (c c' : char) : Prop :=
  c = c' \/ (is_letter c = true /\ is_letter c' = true /\ to_ascii_uppercase c = to_ascii_uppercase c').

Definition case_variant (l l' : list char) : Prop := Forall2 case_eq l l'.

Ltac letter_bounds :=
  unfold is_letter, is_ascii_lower, is_ascii_upper in *;
  repeat match goal with
         | H : (_ || _) = true |- _ => apply orb_true_iff in H; destruct H
         | H : (_ && _) = true |- _ => apply andb_true_iff in H; destruct H
         | H : (_ <=? _) = true |- _ => apply N.leb_le in H
         end.

Lemma case_eq_upper c c' : case_eq c c' -> to_ascii_uppercase c = to_ascii_uppercase c'.
Proof. intros [->|(_ & _ & H)]; auto. Qed.

Lemma upper_variant l l' : case_variant l l' -> upper l = upper l'.
Proof. induction 1 as [|c c' l l' Hc _ IH]; [reflexivity|]. unfold upper in *. cbn [map]. rewrite (case_eq_upper _ _ Hc), IH. reflexivity. Qed.

Lemma variant_length l l' : case_variant l l' -> List.length l = List.length l'.
Proof. induction 1; cbn; congruence. Qed.

(** a predicate that is constant on ASCII letters is case independent *)
Lemma letters_small c : is_letter c = true -> c < 128.
Proof. intros H. letter_bounds; lia. Qed.

Lemma ascii_table_lookup (P : char -> bool) :
  forallb P (map N.of_nat (seq 0 128)) = true -> forall c, c < 128 -> P c = true.
Proof.
  intros H c Hc. apply (proj1 (forallb_forall _ _) H).
  apply in_map_iff. exists (N.to_nat c). split; [lia|]. apply in_seq. lia.
Qed.

Lemma letter_facts c : is_letter c = true ->
  is_xid_continue c = true /\ is_xid_start c = true /\ is_whitespace c = false /\ is_ascii c = true /\
  is_ascii_digit c = false.
Proof.
  intros L. pose proof (letters_small c L) as Hs.
  pose proof (ascii_table_lookup _ ascii_classes c Hs) as T. cbn beta in T.
  apply andb_true_iff in T. destruct T as [T Tw]. apply andb_true_iff in T. destruct T as [Tc Ts].
  apply eqb_prop in Tc. apply eqb_prop in Ts. apply eqb_prop in Tw.
  assert (Hl : is_ascii_lower c || is_ascii_upper c = true) by exact L.
  repeat split.
  - rewrite Tc. unfold is_valid_sas_name_continue. rewrite <- !orb_assoc.
    unfold is_letter in L. destruct (is_ascii_lower c); [reflexivity|]. cbn in L. rewrite L. reflexivity.
  - rewrite Ts. exact Hl.
  - rewrite Tw. assert (65 <= c) by (clear - L; letter_bounds; lia).
    destruct (N.leb_spec c 13); [lia|]. rewrite andb_false_r. cbn [orb]. apply N.eqb_neq. lia.
  - unfold is_ascii. apply N.ltb_lt. exact Hs.
  - unfold is_ascii_digit. assert (65 <= c) by (clear - L; letter_bounds; lia).
    destruct (N.leb_spec c 57); [lia|]. apply andb_false_r.
Qed.

Lemma case_eq_pred (P : char -> bool) c c' :
  (forall x y, is_letter x = true -> is_letter y = true -> P x = P y) -> case_eq c c' -> P c = P c'.
Proof. intros H [->|(L1 & L2 & _)]; auto. Qed.

Lemma ident_char_case c c' : case_eq c c' -> ident_char c = ident_char c'.
Proof.
  apply case_eq_pred. intros x y Lx Ly. unfold ident_char.
  destruct (letter_facts x Lx) as (_ & _ & _ & Ax & _). destruct (letter_facts y Ly) as (_ & _ & _ & Ay & _).
  rewrite Ax, Ay. unfold is_valid_sas_name_continue. unfold is_letter in *.
  destruct (is_ascii_lower x), (is_ascii_lower y); cbn in *; try rewrite Lx; try rewrite Ly; reflexivity.
Qed.

Lemma is_ascii_case c c' : case_eq c c' -> is_ascii c = is_ascii c'.
Proof.
  apply case_eq_pred. intros x y Lx Ly.
  destruct (letter_facts x Lx) as (_ & _ & _ & Ax & _). destruct (letter_facts y Ly) as (_ & _ & _ & Ay & _). congruence.
Qed.

Lemma utf8_len_case c c' : case_eq c c' -> utf8_len c = utf8_len c'.
Proof.
  intros [->|(L1 & L2 & _)]; [reflexivity|]. pose proof (letters_small _ L1). pose proof (letters_small _ L2).
  unfold utf8_len. destruct (N.ltb_spec c 128); [|lia]. destruct (N.ltb_spec c' 128); [reflexivity|lia].
Qed.

Lemma take_while_variant (P : char -> bool) l l' :
  (forall c c', case_eq c c' -> P c = P c') ->
  case_variant l l' -> case_variant (take_while P l) (take_while P l').
Proof.
  intros HP. induction 1 as [|c c' l l' Hc _ IH]; cbn; [constructor|].
  rewrite (HP _ _ Hc). destruct (P c'); [constructor; assumption|constructor].
Qed.

Lemma blen_variant l l' : case_variant l l' -> blen l = blen l'.
Proof. induction 1 as [|c c' l l' Hc _ IH]; cbn; [reflexivity|]. rewrite (utf8_len_case _ _ Hc), IH. reflexivity. Qed.

Lemma forallb_variant (P : char -> bool) l l' :
  (forall c c', case_eq c c' -> P c = P c') -> case_variant l l' -> forallb P l = forallb P l'.
Proof. intros HP. induction 1 as [|c c' l l' Hc _ IH]; cbn; [reflexivity|]. rewrite (HP _ _ Hc), IH. reflexivity. Qed.

Lemma len_variant l l' : case_variant l l' -> len l = len l'.
Proof. intros H. unfold len. rewrite (variant_length _ _ H). reflexivity. Qed.

(** the keyword scanner classifies case variants identically *)
Theorem lex_macro_call_stat_or_label_case l l' :
  case_variant l l' -> lex_macro_call_stat_or_label l = lex_macro_call_stat_or_label l'.
Proof.
  intros H. unfold lex_macro_call_stat_or_label.
  pose proof (take_while_variant ident_char l l' ident_char_case H) as Hi.
  rewrite (len_variant _ _ Hi), (forallb_variant is_ascii _ _ is_ascii_case Hi), (blen_variant _ _ Hi), (upper_variant _ _ Hi).
  reflexivity.
Qed.

Theorem is_macro_stat_case l l' : case_variant l l' -> is_macro_stat l = is_macro_stat l'.
Proof.
  intros H. unfold is_macro_stat. destruct H as [|c c' l l' _ H]; [reflexivity|].
  pose proof (take_while_variant ident_char l l' ident_char_case H) as Hi.
  rewrite (forallb_variant is_ascii _ _ is_ascii_case Hi), (blen_variant _ _ Hi), (upper_variant _ _ Hi). reflexivity.
Qed.

(** keyword lookup through upper-casing *)
Theorem parse_keyword_case l l' : case_variant l l' ->
  parse_keyword (upper l) = parse_keyword (upper l') /\ parse_macro_keyword (upper l) = parse_macro_keyword (upper l').
Proof. intros H. rewrite (upper_variant _ _ H). split; reflexivity. Qed.

(** mnemonic operators *)
Lemma lc_case c c' : case_eq c c' -> lc c = lc c'.
Proof.
  intros [->|(L1 & L2 & U)]; [reflexivity|]. unfold lc, to_ascii_uppercase in *.
  unfold is_letter, is_ascii_lower, is_ascii_upper in *.
  repeat match goal with |- context [?a <=? ?b] => destruct (N.leb_spec a b) end;
  repeat match goal with H : context [?a <=? ?b] |- _ => destruct (N.leb_spec a b) end; cbn in *; try lia; try discriminate.
Qed.

Lemma xidc_case c c' : case_eq c c' -> is_xid_continue c = is_xid_continue c'.
Proof.
  apply case_eq_pred. intros x y Lx Ly.
  destruct (letter_facts x Lx) as (Ax & _). destruct (letter_facts y Ly) as (Ay & _). congruence.
Qed.

Lemma letter_case c c' : case_eq c c' -> is_letter c = is_letter c'.
Proof. intros [->|(L1 & L2 & _)]; congruence. Qed.

Theorem is_macro_eval_mnemonic_case l l' :
  case_variant l l' -> is_macro_eval_mnemonic l = is_macro_eval_mnemonic l'.
Proof.
  intros H. unfold is_macro_eval_mnemonic.
  destruct H as [|s s' r r' Hs H]; [reflexivity|].
  destruct H as [|n n' r r' Hn H]; [reflexivity|].
  assert (Hc2 : case_eq (match r with x :: _ => x | [] => c_space end) (match r' with x :: _ => x | [] => c_space end)).
  { destruct H; [left; reflexivity|assumption]. }
  assert (Hc3 : case_eq (match r with _ :: y :: _ => y | _ => c_space end) (match r' with _ :: y :: _ => y | _ => c_space end)).
  { destruct H as [|? ? ? ? _ H]; [left; reflexivity|]. destruct H; [left; reflexivity|assumption]. }
  rewrite (lc_case _ _ Hs), (lc_case _ _ Hn), (xidc_case _ _ Hc2), (lc_case _ _ Hc2), (xidc_case _ _ Hc3).
  change (is_ascii_lower s || is_ascii_upper s) with (is_letter s).
  change (is_ascii_lower n || is_ascii_upper n) with (is_letter n).
  change (is_ascii_lower s' || is_ascii_upper s') with (is_letter s').
  change (is_ascii_lower n' || is_ascii_upper n') with (is_letter n').
  rewrite (letter_case _ _ Hs), (letter_case _ _ Hn).
  change (is_ascii_lower (match r with x :: _ => x | [] => c_space end) || is_ascii_upper (match r with x :: _ => x | [] => c_space end))
    with (is_letter (match r with x :: _ => x | [] => c_space end)).
  change (is_ascii_lower (match r' with x :: _ => x | [] => c_space end) || is_ascii_upper (match r' with x :: _ => x | [] => c_space end))
    with (is_letter (match r' with x :: _ => x | [] => c_space end)).
  rewrite (letter_case _ _ Hc2). reflexivity.
Qed.
