(** * Open code = reference lexer (C11): all lexeme classes together, and the theorem for texts *)
From Coq Require Import NArith ZArith List Bool Lia.
From RecordUpdate Require Import RecordSet.
From SasLexer Require Import Gen.TokenType Gen.ErrorKind Gen.Channel Gen.Unicode Model.Base Model.Core
     Model.Helpers Model.Numeric Model.Lexer1 Model.Lexer2 Model.Lexer3 Spec.RefLex
     Proofs.Generic Proofs.LexGeneric Proofs.Bom Proofs.SemiProgram Proofs.SemiCompose Proofs.RefLexProofs
     Proofs.OcBase Proofs.OcSym Proofs.OcScan Proofs.OcNum Proofs.OcIdent Proofs.OcData Proofs.OcStr Proofs.OcWhole Proofs.OcDq.
Import ListNotations RecordSetNotations.
Open Scope N_scope.

(** texts covered: macro-free (no macro trigger anywhere, quoted text included) *)
Definition okP (l : list char) : bool := macro_free l.

Lemma okP_tail c r : okP (c :: r) = true -> okP r = true.
Proof. exact (macro_free_tail c r). Qed.

Section All.
  Variable text : list char.
  Variable bb : N.
  Variable F : nat.
  Variable msep : bool.
  Variable limit : N.
  Let block_ok : datalines_block_ok text bb F msep := datalines_block_proved text bb F msep.

  Local Notation lexeme_sim := (OcWhole.lexeme_sim text bb F msep limit).

  Lemma of_lt_class c r : macro_free (c :: r) = true -> OcSym.lt_class text bb F msep (c :: r) c -> lexeme_sim (c :: r).
  Proof.
    intros Hmf H. apply (single_iteration text bb F msep limit (c :: r) c r eq_refl).
    intros s rs HOC Hr Hf. specialize (H s rs Hmf HOC Hr Hf).
    destruct (lexeme (c :: r) (cur_byte s + bb) rs) as [[[ts es] n] rs']. destruct H as (H1 & _ & H3). split; assumption.
  Qed.

  Lemma of_lt_class' c r : macro_free (c :: r) = true -> OcNum.lt_class' text bb F msep (c :: r) c -> lexeme_sim (c :: r).
  Proof.
    intros Hmf H. apply (single_iteration text bb F msep limit (c :: r) c r eq_refl).
    intros s rs HOC Hr Hf. exact (H s rs Hmf HOC Hr Hf).
  Qed.

  Lemma of_class_ws c r : is_whitespace c = true -> lexeme_sim (c :: r).
  Proof.
    intros Hc. apply (single_iteration text bb F msep limit (c :: r) c r eq_refl).
    intros s rs HOC Hr Hf. pose proof (class_ws text bb F msep s rs c r HOC Hr Hc Hf) as H.
    assert (E : lexeme (c :: r) (cur_byte s + bb) rs =
                ([mkRtok T_WS CH_HIDDEN (cur_byte s + bb) PNone], [], count_while is_whitespace (c :: r), rs))
      by (unfold lexeme; rewrite Hc; reflexivity).
    rewrite E in *. split; [cbn [count_while]; rewrite Hc; lia|exact H].
  Qed.

  Lemma catch_all_false c : catch_all c = false ->
    is_whitespace c = true \/ is_ascii_digit c = true \/ is_valid_unicode_sas_name_start c = true \/ In c OTHER_SYMS.
  Proof.
    unfold catch_all. intros H.
    destruct (is_whitespace c); [left; reflexivity|]. destruct (is_ascii_digit c); [right; left; reflexivity|].
    destruct (is_valid_unicode_sas_name_start c); [right; right; left; reflexivity|]. cbn [negb andb] in H.
    right. right. right.
    assert (G : forall L, forallb (fun k => negb (c =? k)) L = false -> In c L).
    { induction L as [|k L IH]; cbn [forallb]; [discriminate|]. destruct (N.eqb_spec c k) as [->|]; [intros _; left; reflexivity|].
      cbn [negb andb]. intros HL. right. apply IH. exact HL. }
    apply G. exact H.
  Qed.

  Theorem all_classes : forall l, l <> [] -> okP l = true -> l <> [c_dquote] -> lexeme_sim l.
  Proof.
    intros [|c r] Hne Hok Hndq; [contradiction|]. unfold okP in Hok. rename Hok into Hmf.
    destruct (catch_all c) eqn:Eca.
    { apply (of_lt_class c r Hmf). apply class_catch_all. exact Eca. }
    destruct (catch_all_false c Eca) as [Hws|[Hdg|[Hns|Hin]]].
    - apply of_class_ws. exact Hws.
    - apply (of_lt_class' c r Hmf). apply class_digit. exact Hdg.
    - apply (of_lt_class' c r Hmf). apply class_ident; [exact block_ok|exact Hns].
    - unfold OTHER_SYMS in Hin. apply in_app_or in Hin. destruct Hin as [Hin|Hin].
      + cbn [In] in Hin.
        destruct Hin as [<-|Hin].
        { apply (single_iteration text bb F msep limit (c_squote :: r) c_squote r eq_refl).
          intros s rs HOC Hr Hf. exact (class_squote text bb F msep r s rs HOC Hr Hf). }
        destruct Hin as [<-|Hin].
        { destruct r as [|c' r']; [contradiction Hndq; reflexivity|].
          apply class_dquote. exact (macro_free_tail _ _ Hmf). }
        destruct Hin as [<-|Hin]; [apply (of_lt_class _ r Hmf); apply class_semi|].
        destruct Hin as [<-|Hin].
        { destruct r as [|x r']; [apply (of_lt_class _ [] Hmf); apply class_fslash; exact I|].
          destruct (x =? c_star) eqn:Ex.
          - apply N.eqb_eq in Ex. subst x. apply (of_lt_class _ _ Hmf). apply class_comment.
          - apply (of_lt_class _ _ Hmf). apply class_fslash. exact Ex. }
        destruct Hin as [<-|Hin]; [apply (of_lt_class _ r Hmf); apply class_amp|].
        destruct Hin as [<-|Hin]; [apply (of_lt_class _ r Hmf); apply class_percent|].
        destruct Hin as [<-|Hin]; [apply (of_lt_class _ r Hmf); apply class_star|].
        destruct Hin as [<-|Hin]; [apply (of_lt_class _ r Hmf); apply (class_two text bb F msep 33 33 T_EXCL2 T_EXCL); cbn; tauto|].
        destruct Hin as [<-|Hin]; [apply (of_lt_class _ r Hmf); apply (class_two text bb F msep 166 166 T_BPIPE2 T_BPIPE); cbn; tauto|].
        destruct Hin as [<-|Hin]; [apply (of_lt_class _ r Hmf); apply (class_two text bb F msep 124 124 T_PIPE2 T_PIPE); cbn; tauto|].
        destruct Hin as [<-|Hin]; [apply (of_lt_class _ r Hmf); apply (class_two text bb F msep 172 61 T_NE T_NOT); cbn; tauto|].
        destruct Hin as [<-|Hin]; [apply (of_lt_class _ r Hmf); apply (class_two text bb F msep 94 61 T_NE T_NOT); cbn; tauto|].
        destruct Hin as [<-|Hin]; [apply (of_lt_class _ r Hmf); apply (class_two text bb F msep 126 61 T_NE T_NOT); cbn; tauto|].
        destruct Hin as [<-|Hin]; [apply (of_lt_class _ r Hmf); apply (class_two text bb F msep 8728 61 T_NE T_NOT); cbn; tauto|].
        destruct Hin as [<-|Hin]; [apply (of_lt_class _ r Hmf); apply (class_three text bb F msep 60 61 T_LE 62 T_LTGT T_LT); cbn; tauto|].
        destruct Hin as [<-|Hin]; [apply (of_lt_class _ r Hmf); apply (class_three text bb F msep 62 61 T_GE 60 T_GTLT T_GT); cbn; tauto|].
        destruct Hin as [<-|Hin]; [apply (of_lt_class _ r Hmf); apply (class_two text bb F msep 61 42 T_SoundsLike T_ASSIGN); cbn; tauto|].
        destruct Hin as [<-|Hin].
        { destruct r as [|x r']; [apply (of_lt_class _ [] Hmf); apply class_dot; exact I|].
          destruct (is_ascii_digit x) eqn:Ex.
          - apply (of_lt_class' _ _ Hmf). apply class_dot_digit. exact Ex.
          - apply (of_lt_class _ _ Hmf). apply class_dot. exact Ex. }
        destruct Hin as [<-|Hin]; [apply (of_lt_class _ r Hmf); apply class_dollar|].
        contradiction.
      + apply (of_lt_class c r Hmf). apply class_sym1. exact Hin.
  Qed.
End All.

(** the text after an optional byte-order mark *)
Definition body_of (src : list char) : list char := snd (split_bom src).

(** ** The lexer model is the reference lexer (release profile) on every macro-free text *)
Theorem lex_is_reflex_macro_free msep src :
  okP (body_of src) = true ->
  let r := lex (mkCfg false msep) src in
  let '(T, E, lit) := reflex src in
  lr_outcome r = None /\ s_aborted (lr_state r) = false /\
  map tv0 (b_toks (lr_buffer r)) = map rv T /\ map ev0 (lr_errors r) = map rve E /\
  b_lit (lr_buffer r) = lit /\
  s_aborted (lr_end r) = false /\ s_loop_detected (lr_end r) = false /\
  s_iters (lr_end r) <= 2 * len (body_of src) /\
  s_cp (lr_end r) = None /\ s_mnl (lr_end r) = 0 /\
  (s_modes (lr_end r) = [MDefault] \/ s_modes (lr_end r) = [MStringExpr true; MDefault]).
Proof.
  assert (W : forall (r : lex_result) (T : list rtok) (E : list rerr) (rs : rstate) (n : N),
            lr_outcome r = None /\ s_aborted (lr_state r) = false /\
            map tv0 (b_toks (lr_buffer r)) = map rv T /\ map ev0 (lr_errors r) = map rve E /\
            b_lit (lr_buffer r) = rev (rs_lit rs) /\
            s_aborted (lr_end r) = false /\ s_loop_detected (lr_end r) = false /\
            s_iters (lr_end r) <= n /\ EndCfg (lr_end r) rs ->
            lr_outcome r = None /\ s_aborted (lr_state r) = false /\
            map tv0 (b_toks (lr_buffer r)) = map rv T /\ map ev0 (lr_errors r) = map rve E /\
            b_lit (lr_buffer r) = rev (rs_lit rs) /\
            s_aborted (lr_end r) = false /\ s_loop_detected (lr_end r) = false /\
            s_iters (lr_end r) <= n /\
            s_cp (lr_end r) = None /\ s_mnl (lr_end r) = 0 /\
            (s_modes (lr_end r) = [MDefault] \/ s_modes (lr_end r) = [MStringExpr true; MDefault])).
  { intros r T E rs n (H1 & H2 & H3 & H4 & H5 & H6 & H7 & H8 & (C1 & C2 & C3)).
    repeat (split; [assumption|]). destruct C3 as [[C3 _]|C3]; [left|right]; exact C3. }
  intros Hok. cbv zeta. unfold lex, reflex, body_of in *. unfold split_bom in *.
  destruct src as [|c r].
  - cbn [snd] in *.
    pose proof (lex_text_is_reflex [] 0 0 msep okP okP_tail
                  (all_classes [] 0 (S (List.length (@nil char))) msep _) Hok) as H.
    cbv zeta in H. change (rs0) with (mkRstate false None [] 0) in H.
    destruct (reflex_loop (S (List.length (@nil char))) [] 0 (mkRstate false None [] 0) [] []) as [[T E] rs]. exact (W _ _ _ _ _ H).
  - change BOM with 65279 in *. destruct (c =? 65279) eqn:Eb.
    + cbn [snd] in *.
      pose proof (lex_text_is_reflex r (utf8_len c) 1 msep okP okP_tail
                    (all_classes r (utf8_len c) (S (List.length r)) msep _) Hok) as H.
      cbv zeta in H. change (rs0) with (mkRstate false None [] 0) in H.
      destruct (reflex_loop (S (List.length r)) r (utf8_len c) (mkRstate false None [] 0) [] []) as [[T E] rs]. exact (W _ _ _ _ _ H).
    + cbn [snd] in *.
      pose proof (lex_text_is_reflex (c :: r) 0 0 msep okP okP_tail
                    (all_classes (c :: r) 0 (S (List.length (c :: r))) msep _) Hok) as H.
      cbv zeta in H. change (rs0) with (mkRstate false None [] 0) in H.
      destruct (reflex_loop (S (List.length (c :: r))) (c :: r) 0 (mkRstate false None [] 0) [] []) as [[T E] rs]. exact (W _ _ _ _ _ H).
Qed.

(** ** ... and keeps the line protocol: the monitor of C04 is on when the run ends, at the end of the text,
    with the EOF token in place *)
Theorem lex_lines_macro_free msep src :
  okP (body_of src) = true ->
  let r := lex (mkCfg false msep) src in
  lr_outcome r = None /\
  g_lines_ok (s_ghost (lr_state r)) = true /\ g_line_debt (s_ghost (lr_state r)) = false /\
  c_rest (s_cur (lr_state r)) = [] /\
  match w_toks (s_buf (lr_state r)) with t :: _ => tt_eqb (t_type t) T_EOF | [] => false end = true.
Proof.
  assert (W : forall (r : lex_result),
            lr_outcome r = None /\ lines_pos (lr_state r) /\ c_rest (s_cur (lr_state r)) = [] /\
            (exists te tr, w_toks (s_buf (lr_state r)) = te :: tr /\ t_type te = T_EOF) ->
            lr_outcome r = None /\ g_lines_ok (s_ghost (lr_state r)) = true /\ g_line_debt (s_ghost (lr_state r)) = false /\
            c_rest (s_cur (lr_state r)) = [] /\
            match w_toks (s_buf (lr_state r)) with t :: _ => tt_eqb (t_type t) T_EOF | [] => false end = true).
  { intros r (H1 & [_ [H2 H3]] & H4 & (te & tr & H5 & H6)). repeat (split; [assumption|]). rewrite H5, H6. reflexivity. }
  intros Hok. cbv zeta. unfold lex, body_of in *. unfold split_bom in *.
  destruct src as [|c r].
  - cbn [snd] in *. apply W.
    exact (lex_text_lines [] 0 0 msep okP okP_tail (all_classes [] 0 (S (List.length (@nil char))) msep _) Hok).
  - change BOM with 65279 in *. destruct (c =? 65279) eqn:Eb.
    + cbn [snd] in *. apply W.
      exact (lex_text_lines r (utf8_len c) 1 msep okP okP_tail (all_classes r (utf8_len c) (S (List.length r)) msep _) Hok).
    + cbn [snd] in *. apply W.
      exact (lex_text_lines (c :: r) 0 0 msep okP okP_tail (all_classes (c :: r) 0 (S (List.length (c :: r))) msep _) Hok).
Qed.
