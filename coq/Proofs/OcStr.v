(** * Open code = reference lexer (C11): quoted literals *)
From Coq Require Import NArith ZArith List Bool Lia String.
From RecordUpdate Require Import RecordSet.
From SasLexer Require Import Gen.TokenType Gen.ErrorKind Gen.Channel Gen.Unicode Model.Base Model.Core
     Model.Helpers Model.Numeric Model.Lexer1 Model.Lexer2 Model.Lexer3 Spec.RefLex
     Proofs.Generic Proofs.LexGeneric Proofs.Bom Proofs.SemiProgram Proofs.SemiCompose Proofs.RefLexProofs
     Proofs.HexString Proofs.OcBase Proofs.OcSym Proofs.OcScan Proofs.OcNum Proofs.OcIdent Proofs.OcData.
Import ListNotations RecordSetNotations.
Open Scope N_scope.

(** ** the literal buffer *)
Lemma utf8_push_spec cs : forall acc, utf8_push acc cs = rev_append (utf8_encode_all cs) acc.
Proof.
  unfold utf8_push, utf8_encode_all. induction cs as [|c cs IH]; intros acc; [reflexivity|].
  cbn [fold_left flat_map]. rewrite IH. rewrite !rev_append_rev. rewrite rev_app_distr, <- app_assoc. reflexivity.
Qed.

Lemma utf8_push_app a b : forall acc, utf8_push acc (a ++ b) = utf8_push (utf8_push acc a) b.
Proof. intros acc. unfold utf8_push. apply fold_left_app. Qed.

Lemma utf8_encode_len c : len (utf8_encode c) = utf8_len c.
Proof. unfold utf8_encode, utf8_len. destruct (c <? 128); [reflexivity|]. destruct (c <? 2048); [reflexivity|]. destruct (c <? 65536); reflexivity. Qed.

Lemma utf8_encode_all_len cs : len (utf8_encode_all cs) = blen cs.
Proof.
  induction cs as [|c cs IH]; [reflexivity|]. unfold utf8_encode_all in *. cbn [flat_map blen].
  unfold len in *. rewrite app_length, Nat2N.inj_add. rewrite IH. pose proof (utf8_encode_len c) as H. unfold len in H. rewrite H. reflexivity.
Qed.

(** what the scanning of a quoted literal leaves alone: as [cfg_view] but without the literal buffer *)
Definition cfgq_view (s : st) :=
  (s_src s, s_srclen s, s_modes s, s_nmodes s, (s_cp s, s_mnl s, s_pstat s, s_mark s, s_perr s),
   (s_iters s, s_aborted s, s_loop_detected s), (s_ct_byte s, s_ct_start s, s_ct_line s)).

Record MidQ (s0 X : st) (added : list char) (tn : list tok) (en : list err_info) (rr : list char) : Prop := {
  mq_cfg : cfgq_view X = cfgq_view s0;
  mq_lit : w_lit (s_buf X) = utf8_push (w_lit (s_buf s0)) added;
  mq_litlen : w_litlen (s_buf X) = w_litlen (s_buf s0) + blen added;
  mq_toks : w_toks (s_buf X) = tn ++ w_toks (s_buf s0);
  mq_errs : s_errs X = en ++ s_errs s0;
  mq_rest : c_rest (s_cur X) = rr;
  mq_rem : c_rem (s_cur X) = blen rr;
  mq_lines : lines_pos X
}.

Lemma MidQ_adv s0 X ad tn en x r : (x =? NL) = false -> MidQ s0 X ad tn en (x :: r) -> MidQ s0 (st_adv X x r) ad tn en r.
Proof.
  intros Hx [C L1 L2 T E R M L]. constructor; try assumption; try reflexivity.
  - change (c_rem (s_cur X) - utf8_len x = blen r). rewrite M. cbn [blen]. lia.
  - apply lines_pos_adv; assumption.
Qed.

Lemma MidQ_nl s0 X ad tn en x r : (x =? NL) = true -> MidQ s0 X ad tn en (x :: r) -> MidQ s0 (st_add_line (st_adv X x r)) ad tn en r.
Proof.
  intros Hx [C L1 L2 T E R M L]. constructor; try assumption; try reflexivity.
  - change (c_rem (s_cur X) - utf8_len x = blen r). rewrite M. cbn [blen]. lia.
  - apply lines_pos_nl; assumption.
Qed.

Lemma MidQ_ws1 s0 X ad tn en x r : MidQ s0 X ad tn en (x :: r) -> MidQ s0 (ws1 X x r) ad tn en r.
Proof. intros H. unfold ws1. destruct (x =? NL) eqn:Ex; [apply MidQ_nl|apply MidQ_adv]; assumption. Qed.

Lemma MidQ_cur_byte s0 X ad tn en rr : MidQ s0 X ad tn en rr -> cur_byte X = s_srclen s0 - blen rr.
Proof.
  intros [C L1 L2 T E R M L]. unfold cur_byte. rewrite M.
  assert (Hs : s_srclen X = s_srclen s0) by exact (f_equal (fun t => snd (fst (fst (fst (fst (fst t)))))) C). lia.
Qed.

(** adding a slice of the source to the literal buffer *)
Definition st_addlit (X : st) (textc : list char) : st := snd (add_string_literal X textc).

Lemma MidQ_addlit s0 X ad tn en rr textc : MidQ s0 X ad tn en rr -> MidQ s0 (st_addlit X textc) (ad ++ textc) tn en rr.
Proof.
  intros [C L1 L2 T E R M L]. unfold st_addlit, add_string_literal. cbn [snd]. constructor; try assumption.
  - cbn [s_buf w_lit set]. rewrite L1. symmetry. apply utf8_push_app.
  - cbn [s_buf w_litlen set]. rewrite L2, blen_app. lia.
Qed.

Lemma ex_addlit_src X a b textc : src_slice X a b = Some textc ->
  exec false (OAddStringLiteralFromSrc a (Some b)) X = Done (w_litlen (s_buf X), w_litlen (s_buf X) + blen textc) (st_addlit X textc).
Proof. intros H. unfold exec. cbn [andb]. rewrite H. reflexivity. Qed.

Lemma ex_addlit_src_cur X a textc : src_slice X a (cur_byte X) = Some textc ->
  exec false (OAddStringLiteralFromSrc a None) X = Done (w_litlen (s_buf X), w_litlen (s_buf X) + blen textc) (st_addlit X textc).
Proof. intros H. unfold exec. cbn [andb]. rewrite H. reflexivity. Qed.

(** ** the scan of a quoted literal (after the opening quote) *)
Record qres : Type := mkQres { q_closed : bool; q_st : st; q_ad : list char; q_pend : list char; q_P : list char; q_k : N }.

Fixpoint st_sq (q : char) (X : st) (l ad pend P : list char) (k : N) : qres :=
  match l with
  | [] => mkQres false X ad pend P k
  | x :: r =>
    if x =? q then
      match r with
      | y :: r' =>
        if y =? q then
          st_sq q (st_adv (st_addlit (st_adv X x r) (pend ++ [x])) y r') r' (ad ++ pend ++ [x]) [] (P ++ pend ++ [x; y]) (k + 2)
        else mkQres true (st_adv X x r) ad pend P (k + 1)
      | [] => mkQres true (st_adv X x r) ad pend P (k + 1)
      end
    else st_sq q (ws1 X x r) r ad (pend ++ [x]) P (k + 1)
  end.

Definition is_nil {A} (l : list A) : bool := match l with [] => true | _ => false end.

Lemma sq_k_mono q : forall m l X ad pend P k, (List.length l <= m)%nat -> k <= q_k (st_sq q X l ad pend P k).
Proof.
  induction m as [|m IH]; intros l X ad pend P k Hl.
  - destruct l; [cbn; lia|cbn in Hl; lia].
  - destruct l as [|x r]; [cbn; lia|]. cbn [st_sq]. cbn [List.length] in Hl.
    destruct (x =? q).
    + destruct r as [|y r']; [cbn; lia|]. destruct (y =? q); [|cbn; lia].
      match goal with |- _ <= q_k (st_sq q ?X' r' ?a ?p ?P' ?k') => pose proof (IH r' X' a p P' k' ltac:(cbn [List.length] in Hl; lia)) end. lia.
    + match goal with |- _ <= q_k (st_sq q ?X' r ?a ?p ?P' ?k') => pose proof (IH r X' a p P' k' ltac:(lia)) end. lia.
Qed.

(** the reference scan computes the same thing *)
Lemma sq_scan q : forall m l X ad pend P k n, (List.length l <= m)%nat ->
  scan_quoted q l n (rev (ad ++ pend)) (negb (is_nil ad)) =
  let R := st_sq q X l ad pend P k in
  (n + (q_k R - k), q_closed R, q_ad R ++ q_pend R, negb (is_nil (q_ad R))).
Proof.
  induction m as [|m IH]; intros l X ad pend P k n Hl.
  - destruct l; [|cbn in Hl; lia]. cbn [scan_quoted st_sq q_k q_closed q_ad q_pend]. rewrite rev_involutive. f_equal. f_equal. f_equal. lia.
  - destruct l as [|x r].
    { cbn [scan_quoted st_sq q_k q_closed q_ad q_pend]. rewrite rev_involutive. f_equal. f_equal. f_equal. lia. }
    cbn [List.length] in Hl. cbn [scan_quoted st_sq]. destruct (x =? q) eqn:Ex.
    + destruct r as [|y r'].
      * cbn [q_k q_closed q_ad q_pend]. rewrite rev_involutive. f_equal. f_equal. f_equal. lia.
      * destruct (y =? q) eqn:Ey.
        -- apply N.eqb_eq in Ex. subst x.
           replace (q :: rev (ad ++ pend)) with (rev ((ad ++ pend ++ [q]) ++ [])) by (rewrite app_nil_r, app_assoc, rev_app_distr; reflexivity).
           replace true with (negb (is_nil (ad ++ pend ++ [q]))) by (destruct ad; [destruct pend|]; reflexivity).
           match goal with |- context [st_sq q ?X' r' ?a ?p ?P' ?k'] =>
             rewrite (IH r' X' a p P' k' (n + 2) ltac:(cbn [List.length] in Hl; lia));
             pose proof (sq_k_mono q (List.length r') r' X' a p P' k' (le_n _)) as Hk end.
           cbv zeta. f_equal. f_equal. f_equal. lia.
        -- cbn [q_k q_closed q_ad q_pend]. rewrite rev_involutive. f_equal. f_equal. f_equal. lia.
    + replace (x :: rev (ad ++ pend)) with (rev (ad ++ (pend ++ [x]))) by (rewrite app_assoc, rev_app_distr; reflexivity).
      rewrite (IH r (ws1 X x r) ad (pend ++ [x]) P (k + 1) (n + 1) ltac:(lia)). cbv zeta.
      pose proof (sq_k_mono q (List.length r) r (ws1 X x r) ad (pend ++ [x]) P (k + 1) (le_n _)) as Hk.
      f_equal. f_equal. f_equal. lia.
Qed.

Lemma cfgq_src s0 X : cfgq_view X = cfgq_view s0 -> s_src X = s_src s0 /\ s_srclen X = s_srclen s0.
Proof.
  intros C. split.
  - exact (f_equal (fun t => fst (fst (fst (fst (fst (fst t)))))) C).
  - exact (f_equal (fun t => snd (fst (fst (fst (fst (fst t)))))) C).
Qed.

(** the single-quote loop of the model runs [st_sq] *)
Lemma sq_run s0 : s_srclen s0 = blen (s_src s0) ->
  forall m l X ad pend P k f lit_end le,
  (List.length l <= m)%nat -> (List.length l < f)%nat ->
  MidQ s0 X ad [] [] l -> s_src s0 = P ++ pend ++ l ->
  lit_end = w_litlen (s_buf s0) + blen ad -> le = blen P ->
  let R := st_sq c_squote X l ad pend P k in
  run false (squote_loop f (w_litlen (s_buf s0)) lit_end le) X =
    Done (q_closed R, w_litlen (s_buf s0), w_litlen (s_buf s0) + blen (q_ad R), blen (q_P R)) (q_st R) /\
  MidQ s0 (q_st R) (q_ad R) [] [] (skipn_N (N.to_nat (q_k R - k)) l) /\
  s_src s0 = q_P R ++ q_pend R ++ (if q_closed R then [c_squote] else []) ++ skipn_N (N.to_nat (q_k R - k)) l /\
  (q_closed R = false -> skipn_N (N.to_nat (q_k R - k)) l = []).
Proof.
  intros Hlen. induction m as [|m IH]; intros l X ad pend P k f lit_end le Hm Hf HM Hsrc Hle Hl.
  - destruct l; [|cbn in Hm; lia]. destruct f as [|f]; [cbn in Hf; lia|]. cbv zeta. cbn [st_sq q_closed q_st q_ad q_P q_k q_pend].
    cbn [squote_loop]. unfold advance, ret. cbn [bindP do run]. rewrite (ex_advance_nil X (mq_rest _ _ _ _ _ _ HM)).
    replace (k - k) with 0 by lia. cbn [N.to_nat skipn_N run]. subst. split; [reflexivity|]. split; [exact HM|]. split; [exact Hsrc|reflexivity].
  - destruct l as [|x r].
    { destruct f as [|f]; [cbn in Hf; lia|]. cbv zeta. cbn [st_sq q_closed q_st q_ad q_P q_k q_pend].
      cbn [squote_loop]. unfold advance, ret. cbn [bindP do run]. rewrite (ex_advance_nil X (mq_rest _ _ _ _ _ _ HM)).
      replace (k - k) with 0 by lia. cbn [N.to_nat skipn_N run]. subst. split; [reflexivity|]. split; [exact HM|]. split; [exact Hsrc|reflexivity]. }
    destruct f as [|f]; [cbn in Hf; lia|]. cbn [List.length] in Hm, Hf.
    cbv zeta. cbn [st_sq squote_loop]. unfold advance, advance_, get, when, add_line, ret. cbn [bindP do run].
    rewrite (ex_advance X x r (mq_rest _ _ _ _ _ _ HM)). cbn [run].
    destruct (x =? c_squote) eqn:Ex.
    + pose proof (MidQ_adv _ _ _ _ _ _ _ (eq_not_nl x c_squote Ex eq_refl) HM) as HM1.
      cbn [bindP do run]. rewrite ex_get. cbn [run]. rewrite peek_is_scrub. unfold peek_is, peek.
      change (c_rest (s_cur (st_adv X x r))) with r.
      destruct r as [|y r'].
      * cbn [q_closed q_st q_ad q_P q_k q_pend run]. replace (k + 1 - k) with 1 by lia. cbn [N.to_nat Pos.to_nat Pos.iter_op skipn_N].
        subst. split; [reflexivity|]. split; [exact HM1|]. apply N.eqb_eq in Ex. subst x. split; [exact Hsrc|discriminate].
      * destruct (y =? c_squote) eqn:Ey.
        -- (* an escaped quote *)
           apply N.eqb_eq in Ex. subst x.
           set (X1 := st_adv X c_squote (y :: r')) in *.
           destruct (cfgq_src s0 X1 (mq_cfg _ _ _ _ _ _ HM1)) as [Hs1 Hsl1].
           assert (Hcb1 : cur_byte X1 = blen P + blen (pend ++ [c_squote])).
           { rewrite (MidQ_cur_byte _ _ _ _ _ _ HM1). rewrite Hlen, Hsrc. rewrite !blen_app. cbn [blen]. lia. }
           assert (Hslice : src_slice X1 le (cur_byte X1) = Some (pend ++ [c_squote])).
           { rewrite Hcb1, Hl. apply (src_slice_spec X1 P (pend ++ [c_squote]) (y :: r')). rewrite Hs1, Hsrc. rewrite <- app_assoc. reflexivity. }
           cbn [bindP do run]. rewrite (ex_addlit_src_cur X1 le (pend ++ [c_squote]) Hslice). cbn [run].
           pose proof (MidQ_addlit _ _ _ _ _ _ (pend ++ [c_squote]) HM1) as HM2.
           set (X2 := st_addlit X1 (pend ++ [c_squote])) in *.
           rewrite (ex_advance X2 y r' (mq_rest _ _ _ _ _ _ HM2)). cbn [run]. rewrite ex_get. cbn [run].
           pose proof (MidQ_adv _ _ _ _ _ _ _ (eq_not_nl y c_squote Ey eq_refl) HM2) as HM3. set (X3 := st_adv X2 y r') in *.
           apply N.eqb_eq in Ey. subst y.
           assert (Hsrc3 : s_src s0 = (P ++ pend ++ [c_squote; c_squote]) ++ [] ++ r').
           { rewrite Hsrc. rewrite <- !app_assoc. reflexivity. }
           destruct (IH r' X3 (ad ++ pend ++ [c_squote]) [] (P ++ pend ++ [c_squote; c_squote]) (k + 2) f
                        (w_litlen (s_buf X1) + blen (pend ++ [c_squote])) (cur_byte (scrub X3))
                        ltac:(cbn [List.length] in Hm; lia) ltac:(cbn [List.length] in Hf; lia)) as (R1 & R2 & R3 & R4).
           ++ exact HM3.
           ++ exact Hsrc3.
           ++ rewrite (mq_litlen _ _ _ _ _ _ HM1). rewrite !blen_app. lia.
           ++ change (cur_byte (scrub X3)) with (cur_byte X3). rewrite (MidQ_cur_byte _ _ _ _ _ _ HM3). rewrite Hlen, Hsrc3. rewrite !blen_app. cbn [blen]. lia.
           ++ replace (N.min (w_litlen (s_buf s0)) (w_litlen (s_buf X1))) with (w_litlen (s_buf s0))
                by (rewrite (mq_litlen _ _ _ _ _ _ HM1); lia).
              pose proof (sq_k_mono c_squote (List.length r') r' X3 (ad ++ pend ++ [c_squote]) [] (P ++ pend ++ [c_squote; c_squote]) (k + 2) (le_n _)) as Hk.
              set (R := st_sq c_squote X3 r' (ad ++ pend ++ [c_squote]) [] (P ++ pend ++ [c_squote; c_squote]) (k + 2)) in *.
              replace (N.to_nat (q_k R - k)) with (S (S (N.to_nat (q_k R - (k + 2))))) by lia. cbn [skipn_N].
              split; [exact R1|]. split; [exact R2|]. split; [exact R3|exact R4].
        -- cbn [q_closed q_st q_ad q_P q_k q_pend run]. replace (k + 1 - k) with 1 by lia. cbn [N.to_nat Pos.to_nat Pos.iter_op skipn_N].
           subst. split; [reflexivity|]. split; [exact HM1|]. apply N.eqb_eq in Ex. subst x. split; [exact Hsrc|discriminate].
    + (* an ordinary character *)
      assert (Hsrc' : s_src s0 = P ++ (pend ++ [x]) ++ r) by (rewrite Hsrc, <- app_assoc; reflexivity).
      pose proof (MidQ_ws1 _ _ _ _ _ _ _ HM) as HMw.
      destruct (IH r (ws1 X x r) ad (pend ++ [x]) P (k + 1) f lit_end le ltac:(lia) ltac:(lia) HMw Hsrc' Hle Hl) as (R1 & R2 & R3 & R4).
      pose proof (sq_k_mono c_squote (List.length r) r (ws1 X x r) ad (pend ++ [x]) P (k + 1) (le_n _)) as Hk.
      set (R := st_sq c_squote (ws1 X x r) r ad (pend ++ [x]) P (k + 1)) in *.
      replace (N.to_nat (q_k R - k)) with (S (N.to_nat (q_k R - (k + 1)))) by lia. cbn [skipn_N].
      split.
      * unfold ws1 in R1 |- *. destruct (x =? NL); cbn [bindP do run]; rewrite ?ex_add_line; cbn [run]; exact R1.
      * split; [exact R2|]. split; [exact R3|exact R4].
Qed.

Lemma sq_P q : forall m l X ad pend P k, (List.length l <= m)%nat ->
  exists W, q_P (st_sq q X l ad pend P k) = P ++ W /\ (q_ad (st_sq q X l ad pend P k) = ad \/ In q W).
Proof.
  induction m as [|m IH]; intros l X ad pend P k Hl.
  - destruct l; [|cbn in Hl; lia]. exists []. cbn. rewrite app_nil_r. auto.
  - destruct l as [|x r]; [exists []; cbn; rewrite app_nil_r; auto|]. cbn [List.length] in Hl. cbn [st_sq].
    destruct (x =? q) eqn:Ex.
    + destruct r as [|y r']; [exists []; cbn; rewrite app_nil_r; auto|].
      destruct (y =? q) eqn:Ey; [|exists []; cbn; rewrite app_nil_r; auto].
      match goal with |- context [st_sq q ?X' r' ?a ?p ?P' ?k'] => destruct (IH r' X' a p P' k' ltac:(cbn [List.length] in Hl; lia)) as (W & HW & _) end.
      exists ((pend ++ [x; y]) ++ W). split; [rewrite HW, <- app_assoc; reflexivity|].
      right. apply N.eqb_eq in Ex. subst x. apply in_or_app. left. apply in_or_app. right. left. reflexivity.
    + apply (IH r (ws1 X x r) ad (pend ++ [x]) P (k + 1)). lia.
Qed.

(** ** the literal suffix *)
Definition is_cc (a b : char) (c : char) : bool := (c =? a) || (c =? b).

Definition suffix_model (l : list char) : TokenType * N :=
  match l with
  | c :: r =>
    if is_cc 98 66 c then (T_BitTestingLiteral, 1)
    else if is_cc 100 68 c then
      (if is_cc 116 84 (match r with t :: _ => t | [] => EOF_CHAR end) then (T_DateTimeLiteral, 2) else (T_DateLiteral, 1))
    else if is_cc 110 78 c then (T_NameLiteral, 1)
    else if is_cc 116 84 c then (T_TimeLiteral, 1)
    else if is_cc 120 88 c then (T_HexStringLiteral, 1)
    else (T_StringLiteral, 0)
  | [] => (T_StringLiteral, 0)
  end.

Lemma lower_is_cc a A c : A + 32 = a -> 65 <= A <= 90 ->
  ((is_ascii_lower c || is_ascii_upper c) && (lc c =? a)) = is_cc a A c.
Proof.
  intros Ha HA. unfold is_cc, lc, is_ascii_lower, is_ascii_upper.
  destruct (N.leb_spec 97 c), (N.leb_spec c 122), (N.leb_spec 65 c), (N.leb_spec c 90); cbn [andb orb];
    destruct (N.eqb_spec c a), (N.eqb_spec c A); try destruct (N.eqb_spec (c + 32) a); try reflexivity; try lia.
Qed.

Lemma suffix_same l : suffix_of l = suffix_model l.
Proof.
  destruct l as [|c r]; [reflexivity|]. unfold suffix_of, suffix_model, lower_is.
  pose proof (lower_is_cc 98 66 c eq_refl ltac:(lia)) as Hb. pose proof (lower_is_cc 100 68 c eq_refl ltac:(lia)) as Hd.
  pose proof (lower_is_cc 110 78 c eq_refl ltac:(lia)) as Hn. pose proof (lower_is_cc 116 84 c eq_refl ltac:(lia)) as Ht.
  pose proof (lower_is_cc 120 88 c eq_refl ltac:(lia)) as Hx.
  change (ch "b") with 98. change (ch "d") with 100. change (ch "n") with 110. change (ch "t") with 116. change (ch "x") with 120.
  destruct (is_ascii_lower c || is_ascii_upper c) eqn:El; cbn [negb andb] in *.
  - rewrite Hb, Hd, Hn, Ht, Hx.
    destruct (is_cc 98 66 c); [reflexivity|]. destruct (is_cc 100 68 c).
    + destruct r as [|t r']; [reflexivity|]. rewrite (lower_is_cc 116 84 t eq_refl ltac:(lia)). reflexivity.
    + reflexivity.
  - rewrite <- Hb, <- Hd, <- Hn, <- Ht, <- Hx. reflexivity.
Qed.

(** the state after the suffix characters *)
Definition st_suffix (X : st) (l : list char) : st :=
  match snd (suffix_model l), l with
  | 1, c :: r => st_adv X c r
  | 2, c :: t :: r => st_adv (st_adv X c (t :: r)) t r
  | _, _ => X
  end.

Lemma run_ending X l : c_rest (s_cur X) = l ->
  run false resolve_string_literal_ending X = Done (fst (suffix_model l)) (st_suffix X l).
Proof.
  intros Hr. unfold resolve_string_literal_ending, assert_dbg, get, advance_, ret. cbn [bindP do run]. rewrite ex_assert. cbn [run].
  rewrite ex_get. cbn [run]. rewrite peek_scrub. unfold peek. rewrite Hr.
  destruct l as [|c r]; [reflexivity|]. unfold st_suffix, suffix_model.
  change (is_c "b" "B" c) with (is_cc 98 66 c). change (is_c "d" "D" c) with (is_cc 100 68 c).
  change (is_c "n" "N" c) with (is_cc 110 78 c). change (is_c "t" "T" c) with (is_cc 116 84 c). change (is_c "x" "X" c) with (is_cc 120 88 c).
  destruct (is_cc 98 66 c); [cbn [bindP do run fst snd]; rewrite (ex_advance X c r Hr); reflexivity|].
  destruct (is_cc 100 68 c).
  { unfold peek_next. change (c_rest (s_cur (scrub X))) with (c_rest (s_cur X)). rewrite Hr.
    destruct r as [|t r'].
    - change (is_c "t" "T" EOF_CHAR) with false. change (is_cc 116 84 EOF_CHAR) with false. cbn [bindP do run fst snd].
      rewrite (ex_advance X c [] Hr). reflexivity.
    - change (is_c "t" "T" t) with (is_cc 116 84 t). destruct (is_cc 116 84 t); cbn [bindP do run fst snd].
      + rewrite (ex_advance X c (t :: r') Hr). cbn [run]. rewrite (ex_advance (st_adv X c (t :: r')) t r' eq_refl). reflexivity.
      + rewrite (ex_advance X c (t :: r') Hr). reflexivity. }
  destruct (is_cc 110 78 c); [cbn [bindP do run fst snd]; rewrite (ex_advance X c r Hr); reflexivity|].
  destruct (is_cc 116 84 c); [cbn [bindP do run fst snd]; rewrite (ex_advance X c r Hr); reflexivity|].
  destruct (is_cc 120 88 c); [cbn [bindP do run fst snd]; rewrite (ex_advance X c r Hr); reflexivity|].
  reflexivity.
Qed.

Lemma is_cc_not_nl a b c : is_cc a b c = true -> (a =? NL) = false -> (b =? NL) = false -> (c =? NL) = false.
Proof.
  unfold is_cc. intros H Ha Hb. apply orb_true_iff in H. destruct H as [H|H]; apply N.eqb_eq in H; subst c; assumption.
Qed.

Ltac cc_adv := apply MidQ_adv; [eapply is_cc_not_nl; [eassumption|reflexivity|reflexivity]|].

Lemma MidQ_suffix s0 X ad tn en l : MidQ s0 X ad tn en l ->
  MidQ s0 (st_suffix X l) ad tn en (skipn_N (N.to_nat (snd (suffix_model l))) l).
Proof.
  intros HM. unfold st_suffix, suffix_model. destruct l as [|c r]; [exact HM|].
  destruct (is_cc 98 66 c) eqn:E1; [cc_adv; exact HM|].
  destruct (is_cc 100 68 c) eqn:E2.
  { destruct r as [|t r'].
    - change (is_cc 116 84 EOF_CHAR) with false. cbv iota. cc_adv. exact HM.
    - destruct (is_cc 116 84 t) eqn:E3; cbn [snd N.to_nat Pos.to_nat Pos.iter_op skipn_N].
      + cc_adv. cc_adv. exact HM.
      + cc_adv. exact HM. }
  destruct (is_cc 110 78 c) eqn:E4; [cc_adv; exact HM|].
  destruct (is_cc 116 84 c) eqn:E5; [cc_adv; exact HM|].
  destruct (is_cc 120 88 c) eqn:E6; [cc_adv; exact HM|].
  exact HM.
Qed.

Lemma cfgq_fields a b : cfgq_view a = cfgq_view b ->
  s_modes a = s_modes b /\ s_cp a = s_cp b /\ s_mnl a = s_mnl b /\ s_pstat a = s_pstat b /\
  (s_iters a, s_aborted a, s_loop_detected a) = (s_iters b, s_aborted b, s_loop_detected b) /\ s_ct_byte a = s_ct_byte b.
Proof.
  unfold cfgq_view. intros H.
  pose proof (f_equal (fun t => snd (fst (fst (fst (fst t))))) H) as H1.
  pose proof (f_equal (fun t => snd (fst (fst t))) H) as H2.
  pose proof (f_equal (fun t => snd (fst t)) H) as H3.
  pose proof (f_equal (fun t => fst (fst (snd t))) H) as H4.
  cbn [fst snd] in *.
  pose proof (f_equal (fun t => fst (fst (fst (fst t)))) H2) as H2a.
  pose proof (f_equal (fun t => snd (fst (fst (fst t)))) H2) as H2b.
  pose proof (f_equal (fun t => snd (fst (fst t))) H2) as H2c.
  cbn [fst snd] in *. repeat split; assumption.
Qed.

Section Str.
  Variable text : list char.
  Variable bb : N.
  Variable F : nat.
  Variable msep : bool.

  Lemma MidQ_init s rs : OC text s rs -> MidQ (st_start s) (st_start s) [] [] [] (c_rest (s_cur s)).
  Proof.
    intros HOC. constructor; try reflexivity.
    - cbn [blen]. rewrite N.add_0_r. reflexivity.
    - destruct (ip_cur _ _ (oc_inv _ _ _ HOC)) as (pre & _ & _ & R). exact R.
    - apply lines_pos_start. exact (oc_lines _ _ _ HOC).
  Qed.

  (** a default-channel token whose scan may have appended to the literal buffer, then errors *)
  Lemma step_from_midq {A} (p : prog A) a s rs Xs added n ty pl ks v :
    OC text s rs ->
    MidQ (st_start s) Xs added [] [] (skipn_N (N.to_nat n) (c_rest (s_cur s))) ->
    run false p s = Done a (st_pend (emit_errs (st_emit Xs CH_DEFAULT ty pl) ks) v) ->
    StepOK text bb s [mkRtok ty CH_DEFAULT (cur_byte s + bb) pl] (map (fun k => mkRerr k (cur_byte Xs + bb)) ks) n
           (mkRstate v (Some ty) (rev_append (utf8_encode_all added) (rs_lit rs)) (rs_litlen rs + blen added))
           (st_pend (emit_errs (st_emit Xs CH_DEFAULT ty pl) ks) v).
  Proof.
    intros HOC HM Hrun.
    pose proof (InvPos_run text p s a _ (oc_inv _ _ _ HOC) Hrun) as Hinv.
    pose proof (noerr_eq _ _ (emit_errs_view ks (st_emit Xs CH_DEFAULT ty pl))) as Ne.
    destruct (cfgq_fields _ _ (mq_cfg _ _ _ _ _ _ HM)) as (C1 & C2 & C3 & C4 & C5 & C6).
    set (E := emit_errs (st_emit Xs CH_DEFAULT ty pl) ks) in *.
    constructor.
    - constructor.
      + exact Hinv.
      + change (s_modes E = [MDefault]). rewrite (ne_modes _ _ Ne). change (s_modes Xs = [MDefault]). rewrite C1. exact (oc_modes _ _ _ HOC).
      + change (s_cp E = None). rewrite (ne_cp _ _ Ne). change (s_cp Xs = None). rewrite C2. exact (oc_cp _ _ _ HOC).
      + change (s_mnl E = 0). rewrite (ne_mnl _ _ Ne). change (s_mnl Xs = 0). rewrite C3. exact (oc_mnl _ _ _ HOC).
      + reflexivity.
      + rewrite last_default_pend. unfold last_default_type, last_default_tok. rewrite (ne_buf _ _ Ne). reflexivity.
      + change (w_lit (s_buf E) = rev_append (utf8_encode_all added) (rs_lit rs)). rewrite (ne_buf _ _ Ne).
        change (w_lit (s_buf Xs) = rev_append (utf8_encode_all added) (rs_lit rs)).
        rewrite (mq_lit _ _ _ _ _ _ HM). change (w_lit (s_buf (st_start s))) with (w_lit (s_buf s)).
        rewrite (oc_lit _ _ _ HOC). apply utf8_push_spec.
      + change (w_litlen (s_buf E) = rs_litlen rs + blen added). rewrite (ne_buf _ _ Ne).
        change (w_litlen (s_buf Xs) = rs_litlen rs + blen added).
        rewrite (mq_litlen _ _ _ _ _ _ HM). change (w_litlen (s_buf (st_start s))) with (w_litlen (s_buf s)).
        rewrite (oc_litlen _ _ _ HOC). reflexivity.
      + apply lines_pos_pend. unfold E. apply lines_pos_emit_errs, lines_pos_emit. exact (mq_lines _ _ _ _ _ _ HM).
    - change (c_rest (s_cur E) = skipn_N (N.to_nat n) (c_rest (s_cur s))). rewrite (ne_cur _ _ Ne). exact (mq_rest _ _ _ _ _ _ HM).
    - change (map (tv bb) (w_toks (s_buf E)) = rev (map rv [mkRtok ty CH_DEFAULT (cur_byte s + bb) pl]) ++ map (tv bb) (w_toks (s_buf s))).
      rewrite (ne_buf _ _ Ne).
      change (map (tv bb) (mkTok CH_DEFAULT ty (s_ct_byte Xs) (s_ct_start Xs) (s_ct_line Xs) pl :: w_toks (s_buf Xs)) =
              rev (map rv [mkRtok ty CH_DEFAULT (cur_byte s + bb) pl]) ++ map (tv bb) (w_toks (s_buf s))).
      rewrite (mq_toks _ _ _ _ _ _ HM), C6. reflexivity.
    - change (map (ev bb) (s_errs E) = rev (map rve (map (fun k => mkRerr k (cur_byte Xs + bb)) ks)) ++ map (ev bb) (s_errs s)).
      unfold E. rewrite emit_errs_errs. change (s_errs (st_emit Xs CH_DEFAULT ty pl)) with (s_errs Xs).
      rewrite (mq_errs _ _ _ _ _ _ HM). change (cur_byte (st_emit Xs CH_DEFAULT ty pl)) with (cur_byte Xs). rewrite map_map. reflexivity.
    - change ((s_iters E, s_aborted E, s_loop_detected E) = (s_iters s, s_aborted s, s_loop_detected s)).
      rewrite (ne_iters _ _ Ne), (ne_ab _ _ Ne), (ne_ld _ _ Ne).
      change ((s_iters Xs, s_aborted Xs, s_loop_detected Xs) = (s_iters s, s_aborted s, s_loop_detected s)). exact C5.
  Qed.

  Lemma blen_zero_nil (l : list char) : blen l = 0 -> l = [].
  Proof. destruct l as [|c r]; [reflexivity|]. cbn [blen]. pose proof (utf8_len_pos c). lia. Qed.

  (** [resolve_string_literal_payload] (no extra escapes flag): nothing when no escape was seen,
      otherwise the pending section is appended and the payload spans everything appended *)
  Lemma run_resolve_payload s0 X ad tn en rr P pend post te :
    s_srclen s0 = blen (s_src s0) ->
    MidQ s0 X ad tn en rr -> s_src s0 = P ++ pend ++ post ->
    match te with Some b => b = blen P + blen pend | None => cur_byte X = blen P + blen pend end ->
    run false (resolve_string_literal_payload (w_litlen (s_buf s0)) (w_litlen (s_buf s0) + blen ad) (blen P) te false) X =
    if is_nil ad then Done PNone X
    else Done (PStr (w_litlen (s_buf s0)) (w_litlen (s_buf s0) + blen (ad ++ pend))) (st_addlit X pend).
  Proof.
    intros Hlen HM Hsrc Hte. unfold resolve_string_literal_payload, ret.
    destruct ad as [|a0 ad'].
    - cbn [blen is_nil]. rewrite N.add_0_r, N.eqb_refl. reflexivity.
    - cbn [is_nil]. destruct (N.eqb_spec (w_litlen (s_buf s0)) (w_litlen (s_buf s0) + blen (a0 :: ad'))) as [E|_].
      { cbn [blen] in E. pose proof (utf8_len_pos a0). lia. }
      cbn [andb negb bindP do run].
      destruct (cfgq_src s0 X (mq_cfg _ _ _ _ _ _ HM)) as [Hs Hsl].
      assert (Hslice : forall b, b = blen P + blen pend -> src_slice X (blen P) b = Some pend).
      { intros b ->. apply (src_slice_spec X P pend post). rewrite Hs. exact Hsrc. }
      destruct te as [b|].
      + rewrite (ex_addlit_src X (blen P) b pend (Hslice b Hte)). cbn [run].
        rewrite (mq_litlen _ _ _ _ _ _ HM). rewrite blen_app. f_equal. f_equal. lia.
      + rewrite (ex_addlit_src_cur X (blen P) pend (Hslice _ Hte)). cbn [run].
        rewrite (mq_litlen _ _ _ _ _ _ HM). rewrite blen_app. f_equal. f_equal. lia.
  Qed.

  (** ** single-quoted literals *)
  Lemma lexeme_squote r pos rs :
    lexeme (c_squote :: r) pos rs =
    let l := c_squote :: r in
    let adv (n : N) : N := pos + blen (firstn (N.to_nat n) l) in
    let set p ty (s : rstate) := mkRstate p (Some ty) (rs_lit s) (rs_litlen s) in
    let '(n, closed, val, esc) := scan_quoted c_squote r 1 [] false in
    if negb closed then
      let '(st', pl) := if esc then push_lit rs val else (rs, PNone) in
      ([mkRtok T_StringLiteral CH_DEFAULT pos pl], [mkRerr E_UnterminatedStringLiteral (adv n)], n, set true T_StringLiteral st')
    else
      let after := skipn_N (N.to_nat n) l in
      let '(ty, extra) := suffix_of after in
      let total := n + extra in
      let hexv := if tt_eqb ty T_HexStringLiteral
                  then match parse_sas_hex_string (firstn (N.to_nat total) l) with inl v => Some (inl v) | inr e => Some (inr e) end
                  else None in
      let '(st', pl, errs) :=
          match hexv with
          | Some (inl v) => let '(s', p) := push_lit rs v in (s', p, [])
          | Some (inr e) => let '(s', p) := if esc then push_lit rs val else (rs, PNone) in (s', p, [mkRerr e (adv total)])
          | None => let '(s', p) := if esc then push_lit rs val else (rs, PNone) in (s', p, [])
          end in
      ([mkRtok ty CH_DEFAULT pos pl], errs, total, set true ty st').
  Proof. unfold lexeme. close_tests. reflexivity. Qed.

  Lemma default_to_squote s : s_modes s = [MDefault] -> lines_pos s ->
    run false (lex_token F msep c_squote) s = run false (lex_single_quoted_str F ;; set_pending_stat true) (st_start s).
  Proof. intros Hm Hl. open_default Hm Hl. close_tests. reflexivity. Qed.

  (** the common setup: the state after the opening quote and the scan *)
  Lemma squote_setup s rs r : OC text s rs -> c_rest (s_cur s) = c_squote :: r -> (List.length (c_squote :: r) < F)%nat ->
    let s0 := st_start s in
    let Xa := st_adv s0 c_squote r in
    exists pre, text = pre ++ c_squote :: r /\ s_src s0 = text /\ s_srclen s0 = blen (s_src s0) /\ cur_byte s = blen pre /\
      MidQ s0 Xa [] [] [] r /\
      let R := st_sq c_squote Xa r [] [] (pre ++ [c_squote]) 0 in
      run false (squote_loop F (w_litlen (s_buf s0)) (w_litlen (s_buf s0)) (cur_byte Xa)) Xa =
        Done (q_closed R, w_litlen (s_buf s0), w_litlen (s_buf s0) + blen (q_ad R), blen (q_P R)) (q_st R) /\
      MidQ s0 (q_st R) (q_ad R) [] [] (skipn_N (N.to_nat (q_k R)) r) /\
      text = q_P R ++ q_pend R ++ (if q_closed R then [c_squote] else []) ++ skipn_N (N.to_nat (q_k R)) r /\
      (q_closed R = false -> skipn_N (N.to_nat (q_k R)) r = []) /\
      scan_quoted c_squote r 1 [] false = (1 + q_k R, q_closed R, q_ad R ++ q_pend R, negb (is_nil (q_ad R))).
  Proof.
    intros HOC Hr Hf s0 Xa.
    pose proof (OC_start text s rs HOC) as HOC0. fold s0 in HOC0.
    destruct (ip_cur _ _ (oc_inv _ _ _ HOC)) as (pre & Epre & _ & _). rewrite Hr in Epre.
    assert (Hsrc0 : s_src s0 = text) by exact (ip_src _ _ (oc_inv _ _ _ HOC)).
    assert (Hlen0 : s_srclen s0 = blen (s_src s0)) by (rewrite Hsrc0; exact (ip_srclen _ _ (oc_inv _ _ _ HOC))).
    assert (Hcb : cur_byte s = blen pre).
    { pose proof (cur_byte_rest text s (oc_inv _ _ _ HOC)) as B. rewrite Hr in B. pose proof (f_equal blen Epre) as E. rewrite blen_app in E. lia. }
    pose proof (MidQ_init s rs HOC) as M0. rewrite Hr in M0. fold s0 in M0.
    pose proof (MidQ_adv _ _ _ _ _ _ _ (eq_refl : (c_squote =? NL) = false) M0) as Ma. fold Xa in Ma.
    exists pre. split; [exact Epre|]. split; [exact Hsrc0|]. split; [exact Hlen0|]. split; [exact Hcb|]. split; [exact Ma|].
    assert (Hsrc : s_src s0 = (pre ++ [c_squote]) ++ [] ++ r) by (rewrite Hsrc0, Epre, <- app_assoc; reflexivity).
    assert (Hcba : cur_byte Xa = blen (pre ++ [c_squote])).
    { rewrite (MidQ_cur_byte _ _ _ _ _ _ Ma). rewrite Hlen0, Hsrc. rewrite !blen_app. cbn [blen]. lia. }
    destruct (sq_run s0 Hlen0 (List.length r) r Xa [] [] (pre ++ [c_squote]) 0 F (w_litlen (s_buf s0)) (cur_byte Xa)
                     (le_n _) ltac:(cbn [List.length] in Hf; lia) Ma Hsrc ltac:(cbn [blen]; lia) Hcba) as (R1 & R2 & R3 & R4).
    cbv zeta in *. rewrite N.sub_0_r in *. rewrite Hsrc0 in R3.
    split; [exact R1|]. split; [exact R2|]. split; [exact R3|]. split; [exact R4|].
    pose proof (sq_scan c_squote (List.length r) r Xa [] [] (pre ++ [c_squote]) 0 1 (le_n _)) as Hs.
    cbn [app rev is_nil negb] in Hs. cbv zeta in Hs. rewrite N.sub_0_r in Hs. exact Hs.
  Qed.

  Lemma push_lit_spec rs val :
    push_lit rs val =
    (mkRstate (rs_pending rs) (rs_prev rs) (rev_append (utf8_encode_all val) (rs_lit rs)) (rs_litlen rs + blen val),
     PStr (rs_litlen rs) (rs_litlen rs + blen val)).
  Proof. unfold push_lit. rewrite utf8_encode_all_len. reflexivity. Qed.

  Lemma firstn_all_blen (l : list char) k : skipn_N k l = [] -> blen (firstn k l) = blen l.
  Proof. intros H. pose proof (blen_firstn_skipn l k) as E. rewrite H in E. cbn [blen] in E. lia. Qed.

  Definition lt_class'' (l : list char) (c : char) : Prop :=
    forall s rs, OC text s rs -> c_rest (s_cur s) = l -> (List.length l < F)%nat ->
    let '(ts, es, n, rs') := lexeme l (cur_byte s + bb) rs in
    (1 <= n) /\ exists s', run false (lex_token F msep c) s = Done tt s' /\ StepOK text bb s ts es n rs' s'.



  Lemma firstn_skipn_N {A} k : forall (l : list A), l = firstn k l ++ skipn_N k l.
  Proof. induction k as [|k IH]; intros [|x l]; cbn [firstn skipn_N app]; try reflexivity. f_equal. apply IH. Qed.

  Lemma ex_src_slice X a b textc : src_slice X a b = Some textc -> exec false (OSrcSlice a b) X = Done textc X.
  Proof. intros H. unfold exec. rewrite H. reflexivity. Qed.

  Lemma ex_addlit X v : exec false (OAddStringLiteral v) X = Done (w_litlen (s_buf X), w_litlen (s_buf X) + blen v) (st_addlit X v).
  Proof. reflexivity. Qed.

  (** a hex literal that decodes has no doubled quote inside *)
  Lemma hex_ok_no_quote body x v : is_cc 120 88 x = true ->
    parse_sas_hex_string (c_squote :: body ++ [c_squote; x]) = inl v -> ~ In c_squote body.
  Proof.
    intros Hx H Hin.
    assert (Ax : is_ascii x = true).
    { unfold is_cc in Hx. apply orb_true_iff in Hx. destruct Hx as [E|E]; apply N.eqb_eq in E; subst x; reflexivity. }
    pose proof (HexString.parse_sas_hex_string_spec c_squote body c_squote x eq_refl eq_refl Ax) as Hs. cbv zeta in Hs. pose proof (eq_trans (eq_sym Hs) H) as H2. clear H Hs. rename H2 into H.
    destruct (forallb is_ascii_hexdigit (filter (fun c => negb (c =? c_comma)) body)) eqn:Ef; [|discriminate].
    rewrite forallb_forall in Ef. specialize (Ef c_squote). 
    assert (Hf : In c_squote (filter (fun c => negb (c =? c_comma)) body)) by (apply filter_In; split; [exact Hin|reflexivity]).
    specialize (Ef Hf). discriminate.
  Qed.

  Lemma class_squote r : lt_class'' (c_squote :: r) c_squote.
  Proof.
    intros s rs HOC Hr Hf.
    destruct (squote_setup s rs r HOC Hr Hf) as (pre & Epre & Hsrc0 & Hlen0 & Hcb & Ma & Hloop & MR & Htext & Hunc & Hscan).
    cbv zeta in *.
    set (s0 := st_start s) in *. set (Xa := st_adv s0 c_squote r) in *.
    set (R := st_sq c_squote Xa r [] [] (pre ++ [c_squote]) 0) in *.
    set (ls := w_litlen (s_buf s0)) in *.
    assert (Hls : ls = rs_litlen rs) by exact (oc_litlen _ _ _ HOC).
    rewrite (lexeme_squote r (cur_byte s + bb) rs). cbv zeta. rewrite Hscan.
    (* the run up to the end of the scan *)
    assert (Hhead : forall (k : bool * N * N * N -> prog unit),
               run false (lex_token F msep c_squote) s =
               run false (x <- k (q_closed R, ls, ls + blen (q_ad R), blen (q_P R)) ;; set_pending_stat true) (q_st R) ->
               True) by auto. clear Hhead.
    assert (Hrun0 : run false (lex_token F msep c_squote) s =
              run false ((if negb (q_closed R) then
                            pl <- resolve_string_literal_payload ls (ls + blen (q_ad R)) (blen (q_P R)) None false ;;
                            emit_token CH_DEFAULT T_StringLiteral pl ;; emit_error E_UnterminatedStringLiteral
                          else
                            s1 <- get ;;
                            let text_end := Some (cur_byte s1 - 1) in
                            ty <- resolve_string_literal_ending ;;
                            '(pl, err) <-
                              (if tt_eqb ty T_HexStringLiteral then
                                 s2 <- get ;;
                                 textc <- do (OSrcSlice (s_ct_byte s2) (cur_byte s2)) ;;
                                 match parse_sas_hex_string textc with
                                 | inl v => '(a, b) <- do (OAddStringLiteral v) ;; ret (Some (PStr a b), None)
                                 | inr e => ret (None, Some e)
                                 end
                               else ret (None, None)) ;;
                            pl' <- match pl with
                                   | Some p => ret p
                                   | None => resolve_string_literal_payload ls (ls + blen (q_ad R)) (blen (q_P R)) text_end false
                                   end ;;
                            emit_token CH_DEFAULT ty pl' ;;
                            match err with Some e => emit_error e | None => ret tt end) ;; set_pending_stat true) (q_st R)).
    { rewrite (default_to_squote s (oc_modes _ _ _ HOC) (oc_lines _ _ _ HOC)). fold s0.
      rewrite run_bindP. unfold lex_single_quoted_str, assert_dbg, advance_, get. cbn [bindP do run]. rewrite ex_assert. cbn [run].
      rewrite (ex_advance s0 c_squote r Hr). unfold ret. cbn [run bindP do]. fold Xa. rewrite ex_get. cbn [run].
      change (w_litlen (s_buf (scrub Xa))) with ls. change (cur_byte (scrub Xa)) with (cur_byte Xa).
      rewrite run_bindP. rewrite Hloop. rewrite run_bindP. reflexivity. }
    destruct (q_closed R) eqn:Ecl; cbn [negb] in *.
    - (* closed: suffix, optional hex decoding, payload *)
      set (k := q_k R) in *. set (rest' := skipn_N (N.to_nat k) r) in *.
      assert (Hafter : skipn_N (N.to_nat (1 + k)) (c_squote :: r) = rest').
      { replace (N.to_nat (1 + k)) with (S (N.to_nat k)) by lia. reflexivity. }
      rewrite Hafter. rewrite suffix_same.
      destruct (suffix_model rest') as [ty extra] eqn:Esuf.
      pose proof (MidQ_suffix _ _ _ _ _ _ MR) as ME. rewrite Esuf in ME. cbn [snd] in ME.
      pose proof (run_ending (q_st R) rest' (mq_rest _ _ _ _ _ _ MR)) as Hend. rewrite Esuf in Hend. cbn [fst] in Hend.
      set (Xe := st_suffix (q_st R) rest') in *.
      set (total := 1 + k + extra).
      assert (Hskip : skipn_N (N.to_nat total) (c_squote :: r) = skipn_N (N.to_nat extra) rest').
      { subst total rest'. replace (N.to_nat (1 + k + extra)) with (S (N.to_nat k + N.to_nat extra)) by lia. cbn [skipn_N].
        rewrite skipn_N_add. reflexivity. }
      assert (Hcbq : cur_byte (q_st R) = blen (q_P R) + blen (q_pend R) + 1).
      { rewrite (MidQ_cur_byte _ _ _ _ _ _ MR). rewrite Hlen0, Hsrc0. rewrite Htext at 1. rewrite !blen_app. cbn [blen]. change (utf8_len c_squote) with 1. fold rest'. lia. }
      assert (Hpos : cur_byte Xe + bb = cur_byte s + bb + blen (firstn (N.to_nat total) (c_squote :: r))).
      { rewrite (MidQ_cur_byte _ _ _ _ _ _ ME). rewrite <- Hskip.
        pose proof (blen_firstn_skipn (c_squote :: r) (N.to_nat total)) as B1.
        pose proof (cur_byte_rest text s (oc_inv _ _ _ HOC)) as B2. rewrite Hr in B2.
        rewrite Hlen0, Hsrc0. lia. }
      destruct (cfgq_fields _ _ (mq_cfg _ _ _ _ _ _ ME)) as (_ & _ & _ & C4 & _ & C6).
      assert (Hps : forall Y ks pl, s_pstat Y = [rs_pending rs] ->
                 run false (set_pending_stat true) (emit_errs (st_emit Y CH_DEFAULT ty pl) ks) =
                 Done tt (st_pend (emit_errs (st_emit Y CH_DEFAULT ty pl) ks) true)).
      { intros Y ks pl HY. unfold set_pending_stat. cbn [do run].
        pose proof (noerr_eq _ _ (emit_errs_view ks (st_emit Y CH_DEFAULT ty pl))) as Ne.
        rewrite (ex_set_pending _ true (rs_pending rs) []); [reflexivity|]. rewrite (ne_pstat _ _ Ne). exact HY. }
      assert (HpsE : s_pstat Xe = [rs_pending rs]) by (rewrite C4; exact (oc_pstat _ _ _ HOC)).
      (* the payload computed from the scan, used by every branch except a decoded hex literal *)
      pose proof (run_resolve_payload s0 Xe (q_ad R) [] [] _ (q_P R) (q_pend R) ([c_squote] ++ rest') (Some (cur_byte (q_st R) - 1)) Hlen0 ME
                    ltac:(rewrite Hsrc0; exact Htext) ltac:(rewrite Hcbq; lia)) as Hres. fold ls in Hres.
      set (val := q_ad R ++ q_pend R) in *.
      (* the reference reading's payload for the same cases *)
      assert (Hplain : forall ks,
                 run false (lex_token F msep c_squote) s =
                   (if is_nil (q_ad R)
                    then Done tt (st_pend (emit_errs (st_emit Xe CH_DEFAULT ty PNone) ks) true)
                    else Done tt (st_pend (emit_errs (st_emit (st_addlit Xe (q_pend R)) CH_DEFAULT ty (PStr ls (ls + blen val))) ks) true)) ->
                 let '(st', pl) := if negb (is_nil (q_ad R)) then push_lit rs val else (rs, PNone) in
                 1 <= total /\ exists s', run false (lex_token F msep c_squote) s = Done tt s' /\
                   StepOK text bb s [mkRtok ty CH_DEFAULT (cur_byte s + bb) pl]
                     (map (fun e => mkRerr e (cur_byte s + bb + blen (firstn (N.to_nat total) (c_squote :: r)))) ks) total
                     (mkRstate true (Some ty) (rs_lit st') (rs_litlen st')) s').
      { intros ks Hrun. destruct (is_nil (q_ad R)) eqn:En; cbn [negb].
        - split; [subst total; lia|]. eexists. split; [exact Hrun|].
          pose proof (step_from_midq (lex_token F msep c_squote) tt s rs Xe [] total ty PNone ks true HOC
                        ltac:(rewrite Hr, Hskip; destruct (q_ad R); [exact ME|discriminate]) Hrun) as Hst.
          cbn [utf8_encode_all flat_map rev_append blen] in Hst. rewrite N.add_0_r in Hst. rewrite Hpos in Hst.
          destruct rs as [pe pv li ll]. exact Hst.
        - split; [subst total; lia|]. eexists. split; [exact Hrun|].
          pose proof (MidQ_addlit _ _ _ _ _ _ (q_pend R) ME) as ME2. fold val in ME2.
          pose proof (step_from_midq (lex_token F msep c_squote) tt s rs (st_addlit Xe (q_pend R)) val total ty
                        (PStr ls (ls + blen val)) ks true HOC ltac:(rewrite Hr, Hskip; exact ME2) Hrun) as Hst.
          change (cur_byte (st_addlit Xe (q_pend R))) with (cur_byte Xe) in Hst. rewrite Hpos in Hst.
          rewrite ?utf8_encode_all_len. cbn [rs_lit rs_litlen]. rewrite <- Hls. rewrite <- Hls in Hst. exact Hst. }
      (* the run, from the end of the scan to the choice of the payload *)
      set (BIG := '(pl, err) <-
                    (if tt_eqb ty T_HexStringLiteral then
                       s2 <- get ;;
                       textc <- do (OSrcSlice (s_ct_byte s2) (cur_byte s2)) ;;
                       match parse_sas_hex_string textc with
                       | inl v => '(a, b) <- do (OAddStringLiteral v) ;; ret (Some (PStr a b), None)
                       | inr e => ret (None, Some e)
                       end
                     else ret (None, None)) ;;
                  pl' <- match pl with
                         | Some p => ret p
                         | None => resolve_string_literal_payload ls (ls + blen (q_ad R)) (blen (q_P R)) (Some (cur_byte (q_st R) - 1)) false
                         end ;;
                  emit_token CH_DEFAULT ty pl' ;;
                  match err with Some e => emit_error e | None => ret tt end).
      assert (Hrun1 : run false (lex_token F msep c_squote) s =
                match run false BIG Xe with
                | Done _ s' => run false (set_pending_stat true) s'
                | Panic site s' => Panic site s'
                end).
      { rewrite Hrun0. rewrite run_bindP. unfold get at 1. rewrite run_bindP. cbn [do run]. rewrite ex_get. cbn [run].
        change (cur_byte (scrub (q_st R))) with (cur_byte (q_st R)).
        rewrite run_bindP. rewrite Hend. reflexivity. }
      assert (Hnohex : forall (t : prog unit) ks, (forall Y, run false t Y = Done tt (emit_errs Y ks)) ->
                run false (pl' <- resolve_string_literal_payload ls (ls + blen (q_ad R)) (blen (q_P R)) (Some (cur_byte (q_st R) - 1)) false ;;
                           emit_token CH_DEFAULT ty pl' ;; t) Xe =
                (if is_nil (q_ad R)
                 then Done tt (emit_errs (st_emit Xe CH_DEFAULT ty PNone) ks)
                 else Done tt (emit_errs (st_emit (st_addlit Xe (q_pend R)) CH_DEFAULT ty (PStr ls (ls + blen val))) ks))).
      { intros t ks Ht. rewrite run_bindP, Hres. unfold emit_token.
        destruct (is_nil (q_ad R)); cbn [bindP do run]; rewrite ex_emit; cbn [run]; apply Ht. }
      assert (Hfin : forall ks,
                run false BIG Xe =
                (if is_nil (q_ad R)
                 then Done tt (emit_errs (st_emit Xe CH_DEFAULT ty PNone) ks)
                 else Done tt (emit_errs (st_emit (st_addlit Xe (q_pend R)) CH_DEFAULT ty (PStr ls (ls + blen val))) ks)) ->
                run false (lex_token F msep c_squote) s =
                (if is_nil (q_ad R)
                 then Done tt (st_pend (emit_errs (st_emit Xe CH_DEFAULT ty PNone) ks) true)
                 else Done tt (st_pend (emit_errs (st_emit (st_addlit Xe (q_pend R)) CH_DEFAULT ty (PStr ls (ls + blen val))) ks) true))).
      { intros ks Hb. rewrite Hrun1, Hb. destruct (is_nil (q_ad R)); apply Hps; exact HpsE. }
      assert (T1 : forall e Y, run false (emit_error e) Y = Done tt (emit_errs Y [e])).
      { intros e Y. unfold emit_error. cbn [do run]. rewrite ex_emit_error. reflexivity. }
      assert (T0 : forall Y, run false (ret tt) Y = Done tt (emit_errs Y [])) by reflexivity.
      destruct (tt_eqb ty T_HexStringLiteral) eqn:Ehex.
      + (* x suffix: the token text is decoded *)
        assert (Hsl : src_slice Xe (s_ct_byte (scrub Xe)) (cur_byte (scrub Xe)) = Some (firstn (N.to_nat total) (c_squote :: r))).
        { change (s_ct_byte (scrub Xe)) with (s_ct_byte Xe). change (cur_byte (scrub Xe)) with (cur_byte Xe).
          rewrite C6. change (s_ct_byte s0) with (cur_byte s). rewrite Hcb.
          assert (Hce : cur_byte Xe = blen pre + blen (firstn (N.to_nat total) (c_squote :: r))) by lia.
          rewrite Hce. apply (src_slice_spec Xe pre _ (skipn_N (N.to_nat total) (c_squote :: r))).
          destruct (cfgq_src s0 Xe (mq_cfg _ _ _ _ _ _ ME)) as [Hs _]. rewrite Hs, Hsrc0, Epre. f_equal. apply firstn_skipn_N. }
        assert (Hbig : run false BIG Xe =
                  match parse_sas_hex_string (firstn (N.to_nat total) (c_squote :: r)) with
                  | inl v => Done tt (emit_errs (st_emit (st_addlit Xe v) CH_DEFAULT ty (PStr (w_litlen (s_buf Xe)) (w_litlen (s_buf Xe) + blen v))) [])
                  | inr e => run false (pl' <- resolve_string_literal_payload ls (ls + blen (q_ad R)) (blen (q_P R)) (Some (cur_byte (q_st R) - 1)) false ;;
                                        emit_token CH_DEFAULT ty pl' ;; emit_error e) Xe
                  end).
        { unfold BIG. rewrite run_bindP. unfold get at 1. rewrite run_bindP. cbn [do run]. rewrite ex_get. cbn [run].
          rewrite run_bindP. cbn [do run]. rewrite (ex_src_slice Xe _ _ _ Hsl). cbn [run].
          destruct (parse_sas_hex_string (firstn (N.to_nat total) (c_squote :: r))) as [v|e].
          - cbn [bindP do run]. rewrite ex_addlit. unfold ret, emit_token. cbn [run bindP do]. rewrite ex_emit. reflexivity.
          - reflexivity. }
        destruct (parse_sas_hex_string (firstn (N.to_nat total) (c_squote :: r))) as [v|e] eqn:Ep.
        * (* decoded: there was no doubled quote *)
          assert (Hnoesc : q_ad R = []).
          { destruct (sq_P c_squote (List.length r) r Xa [] [] (pre ++ [c_squote]) 0 (le_n _)) as (W & HW & HWq). fold R in HW, HWq.
            destruct HWq as [E|Hq]; [exact E|exfalso].
            assert (Hx : exists x rest'', rest' = x :: rest'' /\ is_cc 120 88 x = true /\ extra = 1).
            { unfold suffix_model in Esuf. destruct rest' as [|x rest'']; [inversion Esuf; subst; discriminate|].
              exists x, rest''. split; [reflexivity|].
              destruct (is_cc 98 66 x); [inversion Esuf; subst; discriminate|].
              destruct (is_cc 100 68 x); [destruct (is_cc 116 84 _); inversion Esuf; subst; discriminate|].
              destruct (is_cc 110 78 x); [inversion Esuf; subst; discriminate|].
              destruct (is_cc 116 84 x); [inversion Esuf; subst; discriminate|].
              destruct (is_cc 120 88 x); [inversion Esuf; subst; auto|inversion Esuf; subst; discriminate]. }
            destruct Hx as (x & rest'' & Er' & Hxx & Eex).
            assert (Hr_dec : r = (W ++ q_pend R ++ [c_squote]) ++ rest').
            { rewrite HW in Htext. rewrite Epre in Htext. rewrite <- !app_assoc in Htext. apply app_inv_head in Htext.
              cbn [app] in Htext. inversion Htext as [Ht]. rewrite <- !app_assoc. cbn [app]. reflexivity. }
            assert (Hk : N.to_nat k = List.length (W ++ q_pend R ++ [c_squote])).
            { assert (Hl1 : List.length rest' = (List.length r - N.to_nat k)%nat) by (unfold rest'; apply skipn_N_len).
              assert (Hl2 : List.length r = (List.length (W ++ q_pend R ++ [c_squote]) + List.length rest')%nat)
                by (rewrite Hr_dec at 1; apply app_length).
              assert (Hl3 : (1 <= List.length rest')%nat) by (rewrite Er'; cbn [List.length]; lia).
              lia. }
            assert (Htok : firstn (N.to_nat total) (c_squote :: r) = c_squote :: (W ++ q_pend R) ++ [c_squote; x]).
            { subst total. rewrite Eex. replace (N.to_nat (1 + k + 1)) with (S (N.to_nat k + 1)) by lia. cbn [firstn]. f_equal.
              rewrite Hr_dec, Er'. rewrite Hk. rewrite firstn_app. rewrite firstn_all2 by lia.
              replace (List.length (W ++ q_pend R ++ [c_squote]) + 1 - List.length (W ++ q_pend R ++ [c_squote]))%nat with 1%nat by lia.
              cbn [firstn]. rewrite <- !app_assoc. reflexivity. }
            rewrite Htok in Ep. apply (hex_ok_no_quote _ x v Hxx Ep). apply in_or_app. left. exact Hq. }
          assert (Hlite : w_litlen (s_buf Xe) = ls).
          { rewrite (mq_litlen _ _ _ _ _ _ ME). rewrite Hnoesc. cbn [blen]. lia. }
          rewrite Hlite in Hbig.
          assert (Hrun : run false (lex_token F msep c_squote) s =
                    Done tt (st_pend (emit_errs (st_emit (st_addlit Xe v) CH_DEFAULT ty (PStr ls (ls + blen v))) []) true)).
          { rewrite Hrun1, Hbig. apply (Hps (st_addlit Xe v) [] (PStr ls (ls + blen v))). exact HpsE. }
          split; [subst total; lia|]. eexists. split; [exact Hrun|].
          pose proof (MidQ_addlit _ _ _ _ _ _ v ME) as ME2. rewrite Hnoesc in ME2. cbn [app] in ME2.
          pose proof (step_from_midq (lex_token F msep c_squote) tt s rs (st_addlit Xe v) v total ty
                        (PStr ls (ls + blen v)) [] true HOC ltac:(rewrite Hr, Hskip; exact ME2) Hrun) as Hst.
          cbn [map] in Hst. rewrite ?utf8_encode_all_len. cbn [rs_lit rs_litlen]. rewrite <- Hls. rewrite <- Hls in Hst. exact Hst.
        * (* not hexadecimal: the scanned payload and the decoder's error *)
          assert (Hbe : run false BIG Xe =
                    (if is_nil (q_ad R)
                     then Done tt (emit_errs (st_emit Xe CH_DEFAULT ty PNone) [e])
                     else Done tt (emit_errs (st_emit (st_addlit Xe (q_pend R)) CH_DEFAULT ty (PStr ls (ls + blen val))) [e])))
            by (rewrite Hbig; apply (Hnohex (emit_error e) [e] (T1 e))).
          assert (HP := Hplain [e] (Hfin [e] Hbe)).
          destruct (is_nil (q_ad R)); cbn [negb] in HP |- *; rewrite ?push_lit_spec in HP |- *; exact HP.
      + (* any other suffix *)
        assert (Hb0 : run false BIG Xe =
                  (if is_nil (q_ad R)
                   then Done tt (emit_errs (st_emit Xe CH_DEFAULT ty PNone) [])
                   else Done tt (emit_errs (st_emit (st_addlit Xe (q_pend R)) CH_DEFAULT ty (PStr ls (ls + blen val))) []))).
        { unfold BIG. rewrite run_bindP. unfold ret at 1. cbn [run]. apply (Hnohex (ret tt) [] T0). }
        assert (HP := Hplain [] (Hfin [] Hb0)).
        destruct (is_nil (q_ad R)); cbn [negb] in HP |- *; rewrite ?push_lit_spec in HP |- *; exact HP.
    - (* no closing quote *)
      specialize (Hunc eq_refl).
      rewrite Hunc in MR, Htext. cbn [app] in Htext. rewrite app_nil_r in Htext.
      assert (Hte : cur_byte (q_st R) = blen (q_P R) + blen (q_pend R)).
      { rewrite (MidQ_cur_byte _ _ _ _ _ _ MR). cbn [blen]. rewrite Hlen0, Hsrc0, Htext, blen_app. lia. }
      pose proof (run_resolve_payload s0 (q_st R) (q_ad R) [] [] [] (q_P R) (q_pend R) [] None Hlen0 MR
                    ltac:(rewrite Hsrc0, app_nil_r; exact Htext) Hte) as Hres. fold ls in Hres.
      set (val := q_ad R ++ q_pend R) in *.
      assert (Hskip : skipn_N (N.to_nat (1 + q_k R)) (c_squote :: r) = []).
      { replace (N.to_nat (1 + q_k R)) with (S (N.to_nat (q_k R))) by lia. exact Hunc. }
      assert (Hpos : cur_byte (q_st R) + bb = cur_byte s + bb + blen (firstn (N.to_nat (1 + q_k R)) (c_squote :: r))).
      { rewrite (firstn_all_blen _ _ Hskip). rewrite (MidQ_cur_byte _ _ _ _ _ _ MR). cbn [blen].
        pose proof (cur_byte_rest text s (oc_inv _ _ _ HOC)) as B. rewrite Hr in B.
        rewrite Hlen0, Hsrc0. cbn [blen] in *. lia. }
      destruct (is_nil (q_ad R)) eqn:En; cbn [negb].
      + (* no escape: no payload *)
        assert (Hrun : run false (lex_token F msep c_squote) s =
                  Done tt (st_pend (emit_errs (st_emit (q_st R) CH_DEFAULT T_StringLiteral PNone) [E_UnterminatedStringLiteral]) true)).
        { rewrite Hrun0. rewrite !run_bindP, Hres. unfold emit_token, emit_error, set_pending_stat. cbn [bindP do run].
          rewrite ex_emit. cbn [run]. rewrite ex_emit_error. cbn [run].
          destruct (cfgq_fields _ _ (mq_cfg _ _ _ _ _ _ MR)) as (_ & _ & _ & C4 & _).
          rewrite (ex_set_pending _ true (rs_pending rs) []); [reflexivity|]. change (s_pstat (q_st R) = [rs_pending rs]).
          rewrite C4. exact (oc_pstat _ _ _ HOC). }
        split; [lia|]. eexists. split; [exact Hrun|].
        pose proof (step_from_midq (lex_token F msep c_squote) tt s rs (q_st R) [] (1 + q_k R) T_StringLiteral PNone
                      [E_UnterminatedStringLiteral] true HOC ltac:(rewrite Hr, Hskip; destruct (q_ad R); [exact MR|discriminate]) Hrun) as Hst.
        cbn [map utf8_encode_all flat_map rev_append blen] in Hst. rewrite N.add_0_r in Hst. rewrite Hpos in Hst.
        destruct rs as [pe pv li ll]. exact Hst.
      + (* escapes: the unquoted text is the payload *)
        assert (Hrun : run false (lex_token F msep c_squote) s =
                  Done tt (st_pend (emit_errs (st_emit (st_addlit (q_st R) (q_pend R)) CH_DEFAULT T_StringLiteral (PStr ls (ls + blen val)))
                                              [E_UnterminatedStringLiteral]) true)).
        { rewrite Hrun0. rewrite !run_bindP, Hres. unfold emit_token, emit_error, set_pending_stat. cbn [bindP do run].
          rewrite ex_emit. cbn [run]. rewrite ex_emit_error. cbn [run].
          destruct (cfgq_fields _ _ (mq_cfg _ _ _ _ _ _ MR)) as (_ & _ & _ & C4 & _).
          rewrite (ex_set_pending _ true (rs_pending rs) []); [reflexivity|]. change (s_pstat (q_st R) = [rs_pending rs]).
          rewrite C4. exact (oc_pstat _ _ _ HOC). }
        split; [lia|]. eexists. split; [exact Hrun|].
        pose proof (MidQ_addlit _ _ _ _ _ _ (q_pend R) MR) as MR2. fold val in MR2.
        pose proof (step_from_midq (lex_token F msep c_squote) tt s rs (st_addlit (q_st R) (q_pend R)) val (1 + q_k R) T_StringLiteral
                      (PStr ls (ls + blen val)) [E_UnterminatedStringLiteral] true HOC ltac:(rewrite Hr, Hskip; exact MR2) Hrun) as Hst.
        cbn [map] in Hst. change (cur_byte (st_addlit (q_st R) (q_pend R))) with (cur_byte (q_st R)) in Hst. rewrite Hpos in Hst.
        rewrite utf8_encode_all_len. cbn [rs_lit rs_litlen]. rewrite <- Hls. rewrite <- Hls in Hst. exact Hst.
  Qed.
End Str.
