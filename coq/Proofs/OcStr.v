(** * Open code = reference lexer (C11): quoted literals *)
From Coq Require Import NArith ZArith List Bool Lia String.
From RecordUpdate Require Import RecordSet.
From SasLexer Require Import Gen.TokenType Gen.ErrorKind Gen.Channel Gen.Unicode Model.Base Model.Core
     Model.Helpers Model.Numeric Model.Lexer1 Model.Lexer2 Model.Lexer3 Spec.RefLex
     Proofs.Generic Proofs.LexGeneric Proofs.Bom Proofs.SemiProgram Proofs.SemiCompose Proofs.RefLexProofs
     Proofs.OcBase Proofs.OcSym Proofs.OcScan Proofs.OcNum Proofs.OcIdent Proofs.OcData.
Import ListNotations RecordSetNotations.
Open Scope N_scope.

(** ** the literal buffer *)
Lemma utf8_push_spec cs : forall acc, utf8_push acc cs = rev_append (utf8_encode_all cs) acc.
Proof.
  unfold utf8_push, utf8_encode_all. induction cs as [|c cs IH]; intros acc; [reflexivity|].
  cbn [fold_left flat_map]. rewrite IH. rewrite !rev_append_rev. rewrite rev_app_distr, <- app_assoc. reflexivity.
Qed.

Lemma utf8_push_app a b : forall acc, utf8_push acc (a ++ b) = utf8_push (utf8_push acc a) b.
Proof. intros acc. unfold utf8_push. apply fold_left_app. Qed.

Lemma utf8_encode_len c : len (utf8_encode c) = utf8_len c.
Proof. unfold utf8_encode, utf8_len. destruct (c <? 128); [reflexivity|]. destruct (c <? 2048); [reflexivity|]. destruct (c <? 65536); reflexivity. Qed.

Lemma utf8_encode_all_len cs : len (utf8_encode_all cs) = blen cs.
Proof.
  induction cs as [|c cs IH]; [reflexivity|]. unfold utf8_encode_all in *. cbn [flat_map blen].
  unfold len in *. rewrite app_length, Nat2N.inj_add. rewrite IH. pose proof (utf8_encode_len c) as H. unfold len in H. rewrite H. reflexivity.
Qed.

(** what the scanning of a quoted literal leaves alone: as [cfg_view] but without the literal buffer *)
Definition cfgq_view (s : st) :=
  (s_src s, s_srclen s, s_modes s, s_nmodes s, (s_cp s, s_mnl s, s_pstat s, s_mark s, s_perr s),
   (s_iters s, s_aborted s, s_loop_detected s), (s_ct_byte s, s_ct_start s, s_ct_line s)).

Record MidQ (s0 X : st) (added : list char) (tn : list tok) (en : list err_info) (rr : list char) : Prop := {
  mq_cfg : cfgq_view X = cfgq_view s0;
  mq_lit : w_lit (s_buf X) = utf8_push (w_lit (s_buf s0)) added;
  mq_litlen : w_litlen (s_buf X) = w_litlen (s_buf s0) + blen added;
  mq_toks : w_toks (s_buf X) = tn ++ w_toks (s_buf s0);
  mq_errs : s_errs X = en ++ s_errs s0;
  mq_rest : c_rest (s_cur X) = rr;
  mq_rem : c_rem (s_cur X) = blen rr;
  mq_lines : lines_pos X
}.

Lemma MidQ_adv s0 X ad tn en x r : MidQ s0 X ad tn en (x :: r) -> MidQ s0 (st_adv X x r) ad tn en r.
Proof.
  intros [C L1 L2 T E R M L]. constructor; try assumption; try reflexivity.
  change (c_rem (s_cur X) - utf8_len x = blen r). rewrite M. cbn [blen]. lia.
Qed.

Lemma MidQ_add_line s0 X ad tn en rr : MidQ s0 X ad tn en rr -> MidQ s0 (st_add_line X) ad tn en rr.
Proof. intros [C L1 L2 T E R M L]. constructor; try assumption. apply lines_pos_add_line. exact L. Qed.

Lemma MidQ_ws1 s0 X ad tn en x r : MidQ s0 X ad tn en (x :: r) -> MidQ s0 (ws1 X x r) ad tn en r.
Proof. intros H. unfold ws1. destruct (x =? NL); [apply MidQ_add_line|]; apply MidQ_adv; exact H. Qed.

Lemma MidQ_cur_byte s0 X ad tn en rr : MidQ s0 X ad tn en rr -> cur_byte X = s_srclen s0 - blen rr.
Proof.
  intros [C L1 L2 T E R M L]. unfold cur_byte. rewrite M.
  assert (Hs : s_srclen X = s_srclen s0) by exact (f_equal (fun t => snd (fst (fst (fst (fst (fst t)))))) C). lia.
Qed.

(** adding a slice of the source to the literal buffer *)
Definition st_addlit (X : st) (textc : list char) : st := snd (add_string_literal X textc).

Lemma MidQ_addlit s0 X ad tn en rr textc : MidQ s0 X ad tn en rr -> MidQ s0 (st_addlit X textc) (ad ++ textc) tn en rr.
Proof.
  intros [C L1 L2 T E R M L]. unfold st_addlit, add_string_literal. cbn [snd]. constructor; try assumption.
  - cbn [s_buf w_lit set]. rewrite L1. symmetry. apply utf8_push_app.
  - cbn [s_buf w_litlen set]. rewrite L2, blen_app. lia.
Qed.

Lemma ex_addlit_src X a b textc : src_slice X a b = Some textc ->
  exec false (OAddStringLiteralFromSrc a (Some b)) X = Done (w_litlen (s_buf X), w_litlen (s_buf X) + blen textc) (st_addlit X textc).
Proof. intros H. unfold exec. cbn [andb]. rewrite H. reflexivity. Qed.

Lemma ex_addlit_src_cur X a textc : src_slice X a (cur_byte X) = Some textc ->
  exec false (OAddStringLiteralFromSrc a None) X = Done (w_litlen (s_buf X), w_litlen (s_buf X) + blen textc) (st_addlit X textc).
Proof. intros H. unfold exec. cbn [andb]. rewrite H. reflexivity. Qed.

(** ** the scan of a quoted literal (after the opening quote) *)
Record qres : Type := mkQres { q_closed : bool; q_st : st; q_ad : list char; q_pend : list char; q_P : list char; q_k : N }.

Fixpoint st_sq (q : char) (X : st) (l ad pend P : list char) (k : N) : qres :=
  match l with
  | [] => mkQres false X ad pend P k
  | x :: r =>
    if x =? q then
      match r with
      | y :: r' =>
        if y =? q then
          st_sq q (st_adv (st_addlit (st_adv X x r) (pend ++ [x])) y r') r' (ad ++ pend ++ [x]) [] (P ++ pend ++ [x; y]) (k + 2)
        else mkQres true (st_adv X x r) ad pend P (k + 1)
      | [] => mkQres true (st_adv X x r) ad pend P (k + 1)
      end
    else st_sq q (ws1 X x r) r ad (pend ++ [x]) P (k + 1)
  end.

Definition is_nil {A} (l : list A) : bool := match l with [] => true | _ => false end.

Lemma sq_k_mono q : forall m l X ad pend P k, (List.length l <= m)%nat -> k <= q_k (st_sq q X l ad pend P k).
Proof.
  induction m as [|m IH]; intros l X ad pend P k Hl.
  - destruct l; [cbn; lia|cbn in Hl; lia].
  - destruct l as [|x r]; [cbn; lia|]. cbn [st_sq]. cbn [List.length] in Hl.
    destruct (x =? q).
    + destruct r as [|y r']; [cbn; lia|]. destruct (y =? q); [|cbn; lia].
      match goal with |- _ <= q_k (st_sq q ?X' r' ?a ?p ?P' ?k') => pose proof (IH r' X' a p P' k' ltac:(cbn [List.length] in Hl; lia)) end. lia.
    + match goal with |- _ <= q_k (st_sq q ?X' r ?a ?p ?P' ?k') => pose proof (IH r X' a p P' k' ltac:(lia)) end. lia.
Qed.

(** the reference scan computes the same thing *)
Lemma sq_scan q : forall m l X ad pend P k n, (List.length l <= m)%nat ->
  scan_quoted q l n (rev (ad ++ pend)) (negb (is_nil ad)) =
  let R := st_sq q X l ad pend P k in
  (n + (q_k R - k), q_closed R, q_ad R ++ q_pend R, negb (is_nil (q_ad R))).
Proof.
  induction m as [|m IH]; intros l X ad pend P k n Hl.
  - destruct l; [|cbn in Hl; lia]. cbn [scan_quoted st_sq q_k q_closed q_ad q_pend]. rewrite rev_involutive. f_equal. f_equal. f_equal. lia.
  - destruct l as [|x r].
    { cbn [scan_quoted st_sq q_k q_closed q_ad q_pend]. rewrite rev_involutive. f_equal. f_equal. f_equal. lia. }
    cbn [List.length] in Hl. cbn [scan_quoted st_sq]. destruct (x =? q) eqn:Ex.
    + destruct r as [|y r'].
      * cbn [q_k q_closed q_ad q_pend]. rewrite rev_involutive. f_equal. f_equal. f_equal. lia.
      * destruct (y =? q) eqn:Ey.
        -- apply N.eqb_eq in Ex. subst x.
           replace (q :: rev (ad ++ pend)) with (rev ((ad ++ pend ++ [q]) ++ [])) by (rewrite app_nil_r, app_assoc, rev_app_distr; reflexivity).
           replace true with (negb (is_nil (ad ++ pend ++ [q]))) by (destruct ad; [destruct pend|]; reflexivity).
           match goal with |- context [st_sq q ?X' r' ?a ?p ?P' ?k'] =>
             rewrite (IH r' X' a p P' k' (n + 2) ltac:(cbn [List.length] in Hl; lia));
             pose proof (sq_k_mono q (List.length r') r' X' a p P' k' (le_n _)) as Hk end.
           cbv zeta. f_equal. f_equal. f_equal. lia.
        -- cbn [q_k q_closed q_ad q_pend]. rewrite rev_involutive. f_equal. f_equal. f_equal. lia.
    + replace (x :: rev (ad ++ pend)) with (rev (ad ++ (pend ++ [x]))) by (rewrite app_assoc, rev_app_distr; reflexivity).
      rewrite (IH r (ws1 X x r) ad (pend ++ [x]) P (k + 1) (n + 1) ltac:(lia)). cbv zeta.
      pose proof (sq_k_mono q (List.length r) r (ws1 X x r) ad (pend ++ [x]) P (k + 1) (le_n _)) as Hk.
      f_equal. f_equal. f_equal. lia.
Qed.

Lemma cfgq_src s0 X : cfgq_view X = cfgq_view s0 -> s_src X = s_src s0 /\ s_srclen X = s_srclen s0.
Proof.
  intros C. split.
  - exact (f_equal (fun t => fst (fst (fst (fst (fst (fst t)))))) C).
  - exact (f_equal (fun t => snd (fst (fst (fst (fst (fst t)))))) C).
Qed.

(** the single-quote loop of the model runs [st_sq] *)
Lemma sq_run s0 : s_srclen s0 = blen (s_src s0) ->
  forall m l X ad pend P k f lit_end le,
  (List.length l <= m)%nat -> (List.length l < f)%nat ->
  MidQ s0 X ad [] [] l -> s_src s0 = P ++ pend ++ l ->
  lit_end = w_litlen (s_buf s0) + blen ad -> le = blen P ->
  let R := st_sq c_squote X l ad pend P k in
  run false (squote_loop f (w_litlen (s_buf s0)) lit_end le) X =
    Done (q_closed R, w_litlen (s_buf s0), w_litlen (s_buf s0) + blen (q_ad R), blen (q_P R)) (q_st R) /\
  MidQ s0 (q_st R) (q_ad R) [] [] (skipn_N (N.to_nat (q_k R - k)) l) /\
  s_src s0 = q_P R ++ q_pend R ++ (if q_closed R then [c_squote] else []) ++ skipn_N (N.to_nat (q_k R - k)) l /\
  (q_closed R = false -> skipn_N (N.to_nat (q_k R - k)) l = []).
Proof.
  intros Hlen. induction m as [|m IH]; intros l X ad pend P k f lit_end le Hm Hf HM Hsrc Hle Hl.
  - destruct l; [|cbn in Hm; lia]. destruct f as [|f]; [cbn in Hf; lia|]. cbv zeta. cbn [st_sq q_closed q_st q_ad q_P q_k q_pend].
    cbn [squote_loop]. unfold advance, ret. cbn [bindP do run]. rewrite (ex_advance_nil X (mq_rest _ _ _ _ _ _ HM)).
    replace (k - k) with 0 by lia. cbn [N.to_nat skipn_N run]. subst. split; [reflexivity|]. split; [exact HM|]. split; [exact Hsrc|reflexivity].
  - destruct l as [|x r].
    { destruct f as [|f]; [cbn in Hf; lia|]. cbv zeta. cbn [st_sq q_closed q_st q_ad q_P q_k q_pend].
      cbn [squote_loop]. unfold advance, ret. cbn [bindP do run]. rewrite (ex_advance_nil X (mq_rest _ _ _ _ _ _ HM)).
      replace (k - k) with 0 by lia. cbn [N.to_nat skipn_N run]. subst. split; [reflexivity|]. split; [exact HM|]. split; [exact Hsrc|reflexivity]. }
    destruct f as [|f]; [cbn in Hf; lia|]. cbn [List.length] in Hm, Hf.
    cbv zeta. cbn [st_sq squote_loop]. unfold advance, advance_, get, when, add_line, ret. cbn [bindP do run].
    rewrite (ex_advance X x r (mq_rest _ _ _ _ _ _ HM)). cbn [run].
    pose proof (MidQ_adv _ _ _ _ _ _ _ HM) as HM1.
    destruct (x =? c_squote) eqn:Ex.
    + cbn [bindP do run]. rewrite ex_get. cbn [run]. rewrite peek_is_scrub. unfold peek_is, peek.
      change (c_rest (s_cur (st_adv X x r))) with r.
      destruct r as [|y r'].
      * cbn [q_closed q_st q_ad q_P q_k q_pend run]. replace (k + 1 - k) with 1 by lia. cbn [N.to_nat Pos.to_nat Pos.iter_op skipn_N].
        subst. split; [reflexivity|]. split; [exact HM1|]. apply N.eqb_eq in Ex. subst x. split; [exact Hsrc|discriminate].
      * destruct (y =? c_squote) eqn:Ey.
        -- (* an escaped quote *)
           apply N.eqb_eq in Ex. subst x.
           set (X1 := st_adv X c_squote (y :: r')) in *.
           destruct (cfgq_src s0 X1 (mq_cfg _ _ _ _ _ _ HM1)) as [Hs1 Hsl1].
           assert (Hcb1 : cur_byte X1 = blen P + blen (pend ++ [c_squote])).
           { rewrite (MidQ_cur_byte _ _ _ _ _ _ HM1). rewrite Hlen, Hsrc. rewrite !blen_app. cbn [blen]. lia. }
           assert (Hslice : src_slice X1 le (cur_byte X1) = Some (pend ++ [c_squote])).
           { rewrite Hcb1, Hl. apply (src_slice_spec X1 P (pend ++ [c_squote]) (y :: r')). rewrite Hs1, Hsrc. rewrite <- app_assoc. reflexivity. }
           cbn [bindP do run]. rewrite (ex_addlit_src_cur X1 le (pend ++ [c_squote]) Hslice). cbn [run].
           pose proof (MidQ_addlit _ _ _ _ _ _ (pend ++ [c_squote]) HM1) as HM2.
           set (X2 := st_addlit X1 (pend ++ [c_squote])) in *.
           rewrite (ex_advance X2 y r' (mq_rest _ _ _ _ _ _ HM2)). cbn [run]. rewrite ex_get. cbn [run].
           pose proof (MidQ_adv _ _ _ _ _ _ _ HM2) as HM3. set (X3 := st_adv X2 y r') in *.
           apply N.eqb_eq in Ey. subst y.
           assert (Hsrc3 : s_src s0 = (P ++ pend ++ [c_squote; c_squote]) ++ [] ++ r').
           { rewrite Hsrc. rewrite <- !app_assoc. reflexivity. }
           destruct (IH r' X3 (ad ++ pend ++ [c_squote]) [] (P ++ pend ++ [c_squote; c_squote]) (k + 2) f
                        (w_litlen (s_buf X1) + blen (pend ++ [c_squote])) (cur_byte (scrub X3))
                        ltac:(cbn [List.length] in Hm; lia) ltac:(cbn [List.length] in Hf; lia)) as (R1 & R2 & R3 & R4).
           ++ exact HM3.
           ++ exact Hsrc3.
           ++ rewrite (mq_litlen _ _ _ _ _ _ HM1). rewrite !blen_app. lia.
           ++ change (cur_byte (scrub X3)) with (cur_byte X3). rewrite (MidQ_cur_byte _ _ _ _ _ _ HM3). rewrite Hlen, Hsrc3. rewrite !blen_app. cbn [blen]. lia.
           ++ replace (N.min (w_litlen (s_buf s0)) (w_litlen (s_buf X1))) with (w_litlen (s_buf s0))
                by (rewrite (mq_litlen _ _ _ _ _ _ HM1); lia).
              pose proof (sq_k_mono c_squote (List.length r') r' X3 (ad ++ pend ++ [c_squote]) [] (P ++ pend ++ [c_squote; c_squote]) (k + 2) (le_n _)) as Hk.
              set (R := st_sq c_squote X3 r' (ad ++ pend ++ [c_squote]) [] (P ++ pend ++ [c_squote; c_squote]) (k + 2)) in *.
              replace (N.to_nat (q_k R - k)) with (S (S (N.to_nat (q_k R - (k + 2))))) by lia. cbn [skipn_N].
              split; [exact R1|]. split; [exact R2|]. split; [exact R3|exact R4].
        -- cbn [q_closed q_st q_ad q_P q_k q_pend run]. replace (k + 1 - k) with 1 by lia. cbn [N.to_nat Pos.to_nat Pos.iter_op skipn_N].
           subst. split; [reflexivity|]. split; [exact HM1|]. apply N.eqb_eq in Ex. subst x. split; [exact Hsrc|discriminate].
    + (* an ordinary character *)
      assert (Hsrc' : s_src s0 = P ++ (pend ++ [x]) ++ r) by (rewrite Hsrc, <- app_assoc; reflexivity).
      pose proof (MidQ_ws1 _ _ _ _ _ _ _ HM) as HMw.
      destruct (IH r (ws1 X x r) ad (pend ++ [x]) P (k + 1) f lit_end le ltac:(lia) ltac:(lia) HMw Hsrc' Hle Hl) as (R1 & R2 & R3 & R4).
      pose proof (sq_k_mono c_squote (List.length r) r (ws1 X x r) ad (pend ++ [x]) P (k + 1) (le_n _)) as Hk.
      set (R := st_sq c_squote (ws1 X x r) r ad (pend ++ [x]) P (k + 1)) in *.
      replace (N.to_nat (q_k R - k)) with (S (N.to_nat (q_k R - (k + 1)))) by lia. cbn [skipn_N].
      split.
      * unfold ws1 in R1 |- *. destruct (x =? NL); cbn [bindP do run]; rewrite ?ex_add_line; cbn [run]; exact R1.
      * split; [exact R2|]. split; [exact R3|exact R4].
Qed.

(** ** the literal suffix *)
Definition is_cc (a b : char) (c : char) : bool := (c =? a) || (c =? b).

Definition suffix_model (l : list char) : TokenType * N :=
  match l with
  | c :: r =>
    if is_cc 98 66 c then (T_BitTestingLiteral, 1)
    else if is_cc 100 68 c then
      (if is_cc 116 84 (match r with t :: _ => t | [] => EOF_CHAR end) then (T_DateTimeLiteral, 2) else (T_DateLiteral, 1))
    else if is_cc 110 78 c then (T_NameLiteral, 1)
    else if is_cc 116 84 c then (T_TimeLiteral, 1)
    else if is_cc 120 88 c then (T_HexStringLiteral, 1)
    else (T_StringLiteral, 0)
  | [] => (T_StringLiteral, 0)
  end.

Lemma lower_is_cc a A c : A + 32 = a -> 65 <= A <= 90 ->
  ((is_ascii_lower c || is_ascii_upper c) && (lc c =? a)) = is_cc a A c.
Proof.
  intros Ha HA. unfold is_cc, lc, is_ascii_lower, is_ascii_upper.
  destruct (N.leb_spec 97 c), (N.leb_spec c 122), (N.leb_spec 65 c), (N.leb_spec c 90); cbn [andb orb];
    destruct (N.eqb_spec c a), (N.eqb_spec c A); try destruct (N.eqb_spec (c + 32) a); try reflexivity; try lia.
Qed.

Lemma suffix_same l : suffix_of l = suffix_model l.
Proof.
  destruct l as [|c r]; [reflexivity|]. unfold suffix_of, suffix_model, lower_is.
  pose proof (lower_is_cc 98 66 c eq_refl ltac:(lia)) as Hb. pose proof (lower_is_cc 100 68 c eq_refl ltac:(lia)) as Hd.
  pose proof (lower_is_cc 110 78 c eq_refl ltac:(lia)) as Hn. pose proof (lower_is_cc 116 84 c eq_refl ltac:(lia)) as Ht.
  pose proof (lower_is_cc 120 88 c eq_refl ltac:(lia)) as Hx.
  change (ch "b") with 98. change (ch "d") with 100. change (ch "n") with 110. change (ch "t") with 116. change (ch "x") with 120.
  destruct (is_ascii_lower c || is_ascii_upper c) eqn:El; cbn [negb andb] in *.
  - rewrite Hb, Hd, Hn, Ht, Hx.
    destruct (is_cc 98 66 c); [reflexivity|]. destruct (is_cc 100 68 c).
    + destruct r as [|t r']; [reflexivity|]. rewrite (lower_is_cc 116 84 t eq_refl ltac:(lia)). reflexivity.
    + reflexivity.
  - rewrite <- Hb, <- Hd, <- Hn, <- Ht, <- Hx. reflexivity.
Qed.

(** the state after the suffix characters *)
Definition st_suffix (X : st) (l : list char) : st :=
  match snd (suffix_model l), l with
  | 1, c :: r => st_adv X c r
  | 2, c :: t :: r => st_adv (st_adv X c (t :: r)) t r
  | _, _ => X
  end.

Lemma run_ending X l : c_rest (s_cur X) = l ->
  run false resolve_string_literal_ending X = Done (fst (suffix_model l)) (st_suffix X l).
Proof.
  intros Hr. unfold resolve_string_literal_ending, assert_dbg, get, advance_, ret. cbn [bindP do run]. rewrite ex_assert. cbn [run].
  rewrite ex_get. cbn [run]. rewrite peek_scrub. unfold peek. rewrite Hr.
  destruct l as [|c r]; [reflexivity|]. unfold st_suffix, suffix_model.
  change (is_c "b" "B" c) with (is_cc 98 66 c). change (is_c "d" "D" c) with (is_cc 100 68 c).
  change (is_c "n" "N" c) with (is_cc 110 78 c). change (is_c "t" "T" c) with (is_cc 116 84 c). change (is_c "x" "X" c) with (is_cc 120 88 c).
  destruct (is_cc 98 66 c); [cbn [bindP do run fst snd]; rewrite (ex_advance X c r Hr); reflexivity|].
  destruct (is_cc 100 68 c).
  { unfold peek_next. change (c_rest (s_cur (scrub X))) with (c_rest (s_cur X)). rewrite Hr.
    destruct r as [|t r'].
    - change (is_c "t" "T" EOF_CHAR) with false. change (is_cc 116 84 EOF_CHAR) with false. cbn [bindP do run fst snd].
      rewrite (ex_advance X c [] Hr). reflexivity.
    - change (is_c "t" "T" t) with (is_cc 116 84 t). destruct (is_cc 116 84 t); cbn [bindP do run fst snd].
      + rewrite (ex_advance X c (t :: r') Hr). cbn [run]. rewrite (ex_advance (st_adv X c (t :: r')) t r' eq_refl). reflexivity.
      + rewrite (ex_advance X c (t :: r') Hr). reflexivity. }
  destruct (is_cc 110 78 c); [cbn [bindP do run fst snd]; rewrite (ex_advance X c r Hr); reflexivity|].
  destruct (is_cc 116 84 c); [cbn [bindP do run fst snd]; rewrite (ex_advance X c r Hr); reflexivity|].
  destruct (is_cc 120 88 c); [cbn [bindP do run fst snd]; rewrite (ex_advance X c r Hr); reflexivity|].
  reflexivity.
Qed.

Lemma MidQ_suffix s0 X ad tn en l : MidQ s0 X ad tn en l ->
  MidQ s0 (st_suffix X l) ad tn en (skipn_N (N.to_nat (snd (suffix_model l))) l).
Proof.
  intros HM. unfold st_suffix, suffix_model. destruct l as [|c r]; [exact HM|].
  destruct (is_cc 98 66 c); [apply MidQ_adv; exact HM|].
  destruct (is_cc 100 68 c).
  { destruct r as [|t r'].
    - change (is_cc 116 84 EOF_CHAR) with false. cbv iota. apply MidQ_adv. exact HM.
    - destruct (is_cc 116 84 t); cbn [snd N.to_nat Pos.to_nat Pos.iter_op skipn_N].
      + apply MidQ_adv. apply MidQ_adv. exact HM.
      + apply MidQ_adv. exact HM. }
  destruct (is_cc 110 78 c); [apply MidQ_adv; exact HM|].
  destruct (is_cc 116 84 c); [apply MidQ_adv; exact HM|].
  destruct (is_cc 120 88 c); [apply MidQ_adv; exact HM|].
  exact HM.
Qed.

Lemma cfgq_fields a b : cfgq_view a = cfgq_view b ->
  s_modes a = s_modes b /\ s_cp a = s_cp b /\ s_mnl a = s_mnl b /\ s_pstat a = s_pstat b /\
  (s_iters a, s_aborted a, s_loop_detected a) = (s_iters b, s_aborted b, s_loop_detected b) /\ s_ct_byte a = s_ct_byte b.
Proof.
  unfold cfgq_view. intros H.
  pose proof (f_equal (fun t => snd (fst (fst (fst (fst t))))) H) as H1.
  pose proof (f_equal (fun t => snd (fst (fst t))) H) as H2.
  pose proof (f_equal (fun t => snd (fst t)) H) as H3.
  pose proof (f_equal (fun t => fst (fst (snd t))) H) as H4.
  cbn [fst snd] in *.
  pose proof (f_equal (fun t => fst (fst (fst (fst t)))) H2) as H2a.
  pose proof (f_equal (fun t => snd (fst (fst (fst t)))) H2) as H2b.
  pose proof (f_equal (fun t => snd (fst (fst t))) H2) as H2c.
  cbn [fst snd] in *. repeat split; assumption.
Qed.

Section Str.
  Variable text : list char.
  Variable bb : N.
  Variable F : nat.
  Variable msep : bool.

  Lemma MidQ_init s rs : OC text s rs -> MidQ (st_start s) (st_start s) [] [] [] (c_rest (s_cur s)).
  Proof.
    intros HOC. constructor; try reflexivity.
    - cbn [blen]. rewrite N.add_0_r. reflexivity.
    - destruct (ip_cur _ _ (oc_inv _ _ _ HOC)) as (pre & _ & _ & R). exact R.
    - exact (oc_lines _ _ _ HOC).
  Qed.

  (** a default-channel token whose scan may have appended to the literal buffer, then errors *)
  Lemma step_from_midq {A} (p : prog A) a s rs Xs added n ty pl ks v :
    OC text s rs ->
    MidQ (st_start s) Xs added [] [] (skipn_N (N.to_nat n) (c_rest (s_cur s))) ->
    run false p s = Done a (st_pend (emit_errs (st_emit Xs CH_DEFAULT ty pl) ks) v) ->
    StepOK text bb s [mkRtok ty CH_DEFAULT (cur_byte s + bb) pl] (map (fun k => mkRerr k (cur_byte Xs + bb)) ks) n
           (mkRstate v (Some ty) (rev_append (utf8_encode_all added) (rs_lit rs)) (rs_litlen rs + blen added))
           (st_pend (emit_errs (st_emit Xs CH_DEFAULT ty pl) ks) v).
  Proof.
    intros HOC HM Hrun.
    pose proof (InvPos_run text p s a _ (oc_inv _ _ _ HOC) Hrun) as Hinv.
    pose proof (noerr_eq _ _ (emit_errs_view ks (st_emit Xs CH_DEFAULT ty pl))) as Ne.
    destruct (cfgq_fields _ _ (mq_cfg _ _ _ _ _ _ HM)) as (C1 & C2 & C3 & C4 & C5 & C6).
    set (E := emit_errs (st_emit Xs CH_DEFAULT ty pl) ks) in *.
    constructor.
    - constructor.
      + exact Hinv.
      + change (s_modes E = [MDefault]). rewrite (ne_modes _ _ Ne). change (s_modes Xs = [MDefault]). rewrite C1. exact (oc_modes _ _ _ HOC).
      + change (s_cp E = None). rewrite (ne_cp _ _ Ne). change (s_cp Xs = None). rewrite C2. exact (oc_cp _ _ _ HOC).
      + change (s_mnl E = 0). rewrite (ne_mnl _ _ Ne). change (s_mnl Xs = 0). rewrite C3. exact (oc_mnl _ _ _ HOC).
      + reflexivity.
      + rewrite last_default_pend. unfold last_default_type, last_default_tok. rewrite (ne_buf _ _ Ne). reflexivity.
      + change (w_lit (s_buf E) = rev_append (utf8_encode_all added) (rs_lit rs)). rewrite (ne_buf _ _ Ne).
        change (w_lit (s_buf Xs) = rev_append (utf8_encode_all added) (rs_lit rs)).
        rewrite (mq_lit _ _ _ _ _ _ HM). change (w_lit (s_buf (st_start s))) with (w_lit (s_buf s)).
        rewrite (oc_lit _ _ _ HOC). apply utf8_push_spec.
      + change (w_litlen (s_buf E) = rs_litlen rs + blen added). rewrite (ne_buf _ _ Ne).
        change (w_litlen (s_buf Xs) = rs_litlen rs + blen added).
        rewrite (mq_litlen _ _ _ _ _ _ HM). change (w_litlen (s_buf (st_start s))) with (w_litlen (s_buf s)).
        rewrite (oc_litlen _ _ _ HOC). reflexivity.
      + destruct (mq_lines _ _ _ _ _ _ HM) as [q Hq]. exists q. change (w_nlines (s_buf E) = N.pos q). rewrite (ne_buf _ _ Ne). exact Hq.
    - change (c_rest (s_cur E) = skipn_N (N.to_nat n) (c_rest (s_cur s))). rewrite (ne_cur _ _ Ne). exact (mq_rest _ _ _ _ _ _ HM).
    - change (map (tv bb) (w_toks (s_buf E)) = rev (map rv [mkRtok ty CH_DEFAULT (cur_byte s + bb) pl]) ++ map (tv bb) (w_toks (s_buf s))).
      rewrite (ne_buf _ _ Ne).
      change (map (tv bb) (mkTok CH_DEFAULT ty (s_ct_byte Xs) (s_ct_start Xs) (s_ct_line Xs) pl :: w_toks (s_buf Xs)) =
              rev (map rv [mkRtok ty CH_DEFAULT (cur_byte s + bb) pl]) ++ map (tv bb) (w_toks (s_buf s))).
      rewrite (mq_toks _ _ _ _ _ _ HM), C6. reflexivity.
    - change (map (ev bb) (s_errs E) = rev (map rve (map (fun k => mkRerr k (cur_byte Xs + bb)) ks)) ++ map (ev bb) (s_errs s)).
      unfold E. rewrite emit_errs_errs. change (s_errs (st_emit Xs CH_DEFAULT ty pl)) with (s_errs Xs).
      rewrite (mq_errs _ _ _ _ _ _ HM). change (cur_byte (st_emit Xs CH_DEFAULT ty pl)) with (cur_byte Xs). rewrite map_map. reflexivity.
    - change ((s_iters E, s_aborted E, s_loop_detected E) = (s_iters s, s_aborted s, s_loop_detected s)).
      rewrite (ne_iters _ _ Ne), (ne_ab _ _ Ne), (ne_ld _ _ Ne).
      change ((s_iters Xs, s_aborted Xs, s_loop_detected Xs) = (s_iters s, s_aborted s, s_loop_detected s)). exact C5.
  Qed.
End Str.
