(** * Token start offsets never decrease (debug profile: [add_token] asserts it).
    Generic: holds for every program over the primitives.  With Proofs/DbgErase it carries over
    to the release profile whenever the debug run completes. *)
From Coq Require Import NArith ZArith List Bool Lia.
From RecordUpdate Require Import RecordSet.
From SasLexer Require Import Gen.TokenType Gen.ErrorKind Gen.Channel Model.Base Model.Core Proofs.Generic.
Import ListNotations RecordSetNotations.
Open Scope N_scope.

(** the reversed token vector is descending in byte offset *)
Fixpoint desc (l : list tok) : Prop :=
  match l with
  | a :: ((b :: _) as r) => t_byte b <= t_byte a /\ desc r
  | _ => True
  end.

Lemma desc_tail a l : desc (a :: l) -> desc l.
Proof. destruct l; cbn; [auto|intros [_ H]; exact H]. Qed.

Lemma desc_drop n : forall l, desc l -> desc (drop n l).
Proof.
  induction n as [|n IH]; intros l H; [exact H|]. destruct l as [|a l]; [exact I|].
  cbn [drop]. apply IH. eapply desc_tail; exact H.
Qed.

Lemma desc_truncate l a b : desc l -> desc (truncate_rev l a b).
Proof. intros H. unfold truncate_rev. destruct (_ <? _); [apply desc_drop|]; exact H. Qed.

Lemma desc_retype_head t r ch ty pl :
  desc (t :: r) -> desc (mkTok ch ty (t_byte t) (t_start t) (t_line t) pl :: r).
Proof. destruct r; cbn; auto. Qed.

Definition sorted_st (s : st) : Prop := desc (w_toks (s_buf s)).

Definition res_sorted {A} (r : res A) : Prop :=
  match r with Done _ s => sorted_st s | Panic _ s => sorted_st s end.

Lemma sorted_core s s' : w_toks (s_buf s') = w_toks (s_buf s) -> sorted_st s -> sorted_st s'.
Proof. unfold sorted_st. intros ->. auto. Qed.

Lemma add_token_sorted s t : sorted_st s -> res_sorted (buf_add_token true s t).
Proof.
  intros H. unfold buf_add_token. cbn [andb].
  destruct (negb (t_start t <=? s_srclen s)); [exact H|].
  destruct (w_toks (s_buf s)) as [|lt r] eqn:E.
  - repeat (match goal with |- res_sorted (if ?c then _ else _) => destruct c end; cbn [res_sorted]; try exact H).
    unfold sorted_st. cbn. exact I.
  - destruct (negb (t_byte lt <=? t_byte t)) eqn:Eo; [exact H|].
    repeat (match goal with |- res_sorted (if ?c then _ else _) => destruct c end; cbn [res_sorted]; try exact H).
    unfold sorted_st in *. cbn. rewrite E in H. split; [|exact H].
    apply negb_false_iff in Eo. apply N.leb_le. exact Eo.
Qed.

Lemma add_line_sorted d s b c : sorted_st s -> res_sorted (buf_add_line d s b c).
Proof. intros H. unfold buf_add_line. destruct (d && _); [exact H|]. exact H. Qed.

Lemma last_line_sorted d s : sorted_st s -> res_sorted (last_line_or_add d s).
Proof. intros H. unfold last_line_or_add. destruct (last_line s); [exact H|apply add_line_sorted; exact H]. Qed.

Lemma note_sorted s : sorted_st s -> sorted_st (note_observe_lines s).
Proof. apply sorted_core. reflexivity. Qed.

Lemma emit_error_sorted s k : sorted_st s -> sorted_st (emit_error s k).
Proof. apply sorted_core. reflexivity. Qed.

Lemma desc_app_insert above lt below sep :
  desc (above ++ lt :: below) -> t_byte sep = t_byte lt -> desc (above ++ lt :: sep :: below).
Proof.
  induction above as [|a above IH]; intros H E; cbn [app] in *.
  - destruct below as [|b below]; cbn in *; [split; [lia|exact I]|].
    destruct H as [H1 H2]. split; [lia|]. split; [lia|exact H2].
  - destruct above as [|a' above']; cbn [app] in *.
    + destruct H as [H1 H2]. split; [exact H1|]. apply (IH H2 E).
    + destruct H as [H1 H2]. split; [exact H1|]. apply (IH H2 E).
Qed.

Theorem exec_sorted {A} (o : op A) s : sorted_st s -> res_sorted (exec true o s).
Proof.
  intros H. destruct o; cbn [exec andb].
  - (* OGet *) exact H.
  - (* OAdvance *) destruct (c_rest (s_cur s)); [exact H|]. revert H; apply sorted_core; reflexivity.
  - (* OAdvanceBy *) destruct (n =? 0); [exact H|]. revert H; apply sorted_core; reflexivity.
  - (* OAddLine *)
    pose proof (add_line_sorted true (clear_debt s) (cur_byte s) (cur_char s) H) as R.
    destruct (buf_add_line true _ _ _); exact R.
  - (* OStartToken *)
    pose proof (last_line_sorted true _ (note_sorted _ H)) as R.
    destruct (last_line_or_add true _); [|exact R]. cbn [res_sorted] in *. revert R; apply sorted_core; reflexivity.
  - (* OMarkIfNone *)
    destruct (s_mark s); [exact H|].
    pose proof (last_line_sorted true _ (note_sorted _ H)) as R.
    destruct (last_line_or_add true _); [|exact R]. cbn [res_sorted] in *. revert R; apply sorted_core; reflexivity.
  - (* OClearMark *) revert H; apply sorted_core; reflexivity.
  - (* OEmitToken *) apply add_token_sorted; exact H.
  - (* OEmitTokenAtMark *) destruct (s_mark s) as [[[? ?] ?]|]; [apply add_token_sorted; exact H|exact H].
  - (* OUpdateLastToken *)
    destruct (w_toks (s_buf s)) as [|t r] eqn:E.
    + apply add_token_sorted. apply emit_error_sorted. exact H.
    + cbn [res_sorted]. unfold sorted_st in *. cbn. rewrite E in H. destruct r; cbn in *; auto.
  - (* ORetypeLastDefaultToLabel *)
    match goal with |- res_sorted (match ?g (w_toks (s_buf s)) with _ => _ end) => set (go := g) end.
    assert (Hgo : forall l l', go l = Some l' -> map t_byte l' = map t_byte l).
    { induction l as [|t r IH]; intros l' Hg; cbn in Hg; [discriminate|].
      destruct (is_default t).
      - destruct (tt_eqb _ _); [|discriminate]. inversion Hg; subst. reflexivity.
      - destruct (go r) as [r'|] eqn:Er; [|discriminate]. cbn in Hg. inversion Hg; subst.
        cbn [map]. f_equal. apply IH. reflexivity. }
    assert (Hd : forall l l', map t_byte l' = map t_byte l -> desc l -> desc l').
    { induction l as [|a l IH]; intros l' E D; destruct l' as [|a' l']; try discriminate; [exact I|].
      cbn [map] in E. inversion E as [[Ea El]]. destruct l as [|b l]; destruct l' as [|b' l']; try discriminate; [exact I|].
      cbn [map] in El. inversion El as [[Eb El']]. cbn in D. destruct D as [D1 D2].
      split; [lia|]. apply (IH (b' :: l')); [cbn [map]; f_equal; assumption|exact D2]. }
    destruct (go (w_toks (s_buf s))) as [l|] eqn:Eg; [|exact H].
    cbn [res_sorted]. unfold sorted_st in *. cbn. eapply Hd; [apply Hgo; exact Eg|exact H].
  - (* OInsertSepBeforeLastDefault *)
    match goal with |- res_sorted (match ?g (w_toks (s_buf s)) [] with _ => _ end) => set (split := g) end.
    assert (Hsp : forall l acc above lt below, split l acc = Some (above, lt, below) -> rev acc ++ l = above ++ lt :: below).
    { induction l as [|t r IH]; intros acc above lt below Hs; cbn in Hs; [discriminate|].
      destruct (is_default t).
      - inversion Hs; subst. reflexivity.
      - rewrite <- (IH _ _ _ _ Hs). cbn [rev]. rewrite <- app_assoc. reflexivity. }
    destruct (split (w_toks (s_buf s)) []) as [[[above lt] below]|] eqn:Es; [|exact H].
    pose proof (Hsp _ _ _ _ _ Es) as E. cbn [rev app] in E.
    destruct (needs _ _); [|exact H].
    repeat (match goal with |- res_sorted (if ?c then _ else _) => destruct c end; cbn [res_sorted]; try exact H).
    unfold sorted_st in *. cbn. rewrite E in H. apply desc_app_insert; [exact H|reflexivity].
  - (* OAddStringLiteral *) unfold add_string_literal. cbn [res_sorted]. revert H; apply sorted_core; reflexivity.
  - (* OAddStringLiteralFromSrc *)
    unfold add_string_literal.
    match goal with |- res_sorted (if ?c then _ else _) => destruct c; [exact H|] end.
    match goal with |- context [src_slice ?x ?y ?z] => destruct (src_slice x y z) end;
      cbn [res_sorted]; revert H; apply sorted_core; reflexivity.
  - (* OSrcSlice *) destruct (src_slice s a b); [exact H|apply emit_error_sorted; exact H].
  - (* OPushMode *) revert H; apply sorted_core; reflexivity.
  - (* OPopMode *) cbn. revert H; apply sorted_core. unfold pop_mode. destruct (s_modes s); reflexivity.
  - (* OMode *) destruct (s_modes s); [|exact H]. revert H; apply sorted_core; reflexivity.
  - (* OEvalPnl *)
    destruct (s_modes s) as [|[] r]; try exact H. destruct increment; [revert H; apply sorted_core; reflexivity|].
    destruct (pnl =? 0); [exact H|revert H; apply sorted_core; reflexivity].
  - (* OValuePnlAdd *) destruct (s_modes s) as [|[] r]; try exact H; revert H; apply sorted_core; reflexivity.
  - (* OStrPnlAdd *) destruct (s_modes s) as [|[] r]; try exact H; revert H; apply sorted_core; reflexivity.
  - (* OInsertModes *) destruct (_ <? _); [exact H|revert H; apply sorted_core; reflexivity].
  - (* OSetNameFound *)
    destruct (_ <? _); [|apply emit_error_sorted; exact H].
    destruct (update_nth _ _ _); [revert H; apply sorted_core; reflexivity|apply emit_error_sorted; exact H].
  - (* OPushPending *) revert H; apply sorted_core; reflexivity.
  - (* OPopPending *) destruct (s_pstat s) as [|? [|? ?]]; exact H.
  - (* OSetPending *) destruct (s_pstat s); revert H; apply sorted_core; reflexivity.
  - (* OPending *) destruct (s_pstat s); [|exact H]. revert H; apply sorted_core; reflexivity.
  - (* OCheckpoint *)
    destruct (cp_is_some s); [exact H|]. cbn. eapply sorted_core; [|apply note_sorted; exact H]. reflexivity.
  - (* OClearCheckpoint *) revert H; apply sorted_core; reflexivity.
  - (* ORollback *)
    destruct (s_cp s) as [k|]; [|apply emit_error_sorted; exact H].
    cbn [res_sorted]. unfold sorted_st in *. cbn. apply desc_truncate. exact H.
  - (* OEmitError *) apply emit_error_sorted, H.
  - (* OPrepError *) cbn. eapply sorted_core; [|apply note_sorted; exact H]. reflexivity.
  - (* OEmitPreparedError *) destruct (s_perr s); [|exact H]. revert H; apply sorted_core; reflexivity.
  - (* OSetMnl *) revert H; apply sorted_core; reflexivity.
  - (* OAssertDbg *) destruct (negb (f s)); exact H.
  - (* OUnreachable *) exact H.
  - (* OTick *) destruct (_ <? _); revert H; apply sorted_core; reflexivity.
  - (* OLoopDetect *) destruct (_ && _); revert H; apply sorted_core; reflexivity.
  - (* OFinalEOF *)
    pose proof (last_line_sorted true _ (note_sorted _ H)) as R.
    destruct (last_line_or_add true _); [|exact R]. cbn [res_sorted] in R. apply add_token_sorted. exact R.
Qed.

Theorem run_sorted {A} (p : prog A) : forall s, sorted_st s -> res_sorted (run true p s).
Proof.
  induction p as [a|B o k IH]; intros s H; cbn [run]; [exact H|].
  pose proof (exec_sorted o s H) as R.
  destruct (exec true o s); [apply IH; exact R|exact R].
Qed.
