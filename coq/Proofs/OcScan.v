(** * Open code = reference lexer (C11): scanned tokens: ampersands, '*', comments, character formats *)
From Coq Require Import NArith ZArith List Bool Lia.
From RecordUpdate Require Import RecordSet.
From SasLexer Require Import Gen.TokenType Gen.ErrorKind Gen.Channel Gen.Unicode Model.Base Model.Core
     Model.Helpers Model.Numeric Model.Lexer1 Model.Lexer2 Model.Lexer3 Spec.RefLex
     Proofs.Generic Proofs.LexGeneric Proofs.Bom Proofs.SemiProgram Proofs.SemiCompose Proofs.RefLexProofs Proofs.OcBase Proofs.OcSym.
Import ListNotations RecordSetNotations.
Open Scope N_scope.

Section Scan.
  Variable text : list char.
  Variable bb : N.
  Variable F : nat.
  Variable msep : bool.
  Local Notation lt_class := (OcSym.lt_class text bb F msep).

  (** ** Tokens found by a scanning loop *)
  Lemma InvPos_run {A} (p : prog A) s a s' : InvPos text s -> run false p s = Done a s' -> InvPos text s'.
  Proof. intros I H. pose proof (run_InvPos false text p s I) as R. rewrite H in R. exact R. Qed.

  Lemma step_scan {A} (p : prog A) a s rs s1 n ch ty pl v :
    OC text s rs -> frame s1 = frame (st_start s) -> lines_pos s1 ->
    c_rest (s_cur s1) = skipn_N (N.to_nat n) (c_rest (s_cur s)) ->
    run false p s = Done a (st_pend (st_emit s1 ch ty pl) v) ->
    StepOK text bb s [mkRtok ty ch (cur_byte s + bb) pl] [] n (rs_after rs ch ty v) (st_pend (st_emit s1 ch ty pl) v).
  Proof.
    intros HOC Hfr Hl Hrest Hrun. pose proof (frame_eq _ _ Hfr) as Fe.
    pose proof (InvPos_run p s a _ (oc_inv _ _ _ HOC) Hrun) as Hinv.
    constructor.
    - constructor.
      + exact Hinv.
      + change (s_modes s1 = [MDefault]). rewrite (fe_modes _ _ Fe). exact (oc_modes _ _ _ HOC).
      + change (s_cp s1 = None). rewrite (fe_cp _ _ Fe). exact (oc_cp _ _ _ HOC).
      + change (s_mnl s1 = 0). rewrite (fe_mnl _ _ Fe). exact (oc_mnl _ _ _ HOC).
      + reflexivity.
      + rewrite last_default_pend, last_default_emit. cbn [rs_after rs_prev].
        destruct (ch_eqb ch CH_DEFAULT); [reflexivity|].
        unfold last_default_type, last_default_tok. rewrite (fe_toks _ _ Fe). exact (oc_prev _ _ _ HOC).
      + change (w_lit (s_buf s1) = rs_lit rs). rewrite (fe_lit _ _ Fe). exact (oc_lit _ _ _ HOC).
      + change (w_litlen (s_buf s1) = rs_litlen rs). rewrite (fe_litlen _ _ Fe). exact (oc_litlen _ _ _ HOC).
      + apply lines_pos_pend, lines_pos_emit. exact Hl.
    - exact Hrest.
    - change (map (tv bb) (mkTok ch ty (s_ct_byte s1) (s_ct_start s1) (s_ct_line s1) pl :: w_toks (s_buf s1)) =
              rev (map rv [mkRtok ty ch (cur_byte s + bb) pl]) ++ map (tv bb) (w_toks (s_buf s))).
      rewrite (fe_toks _ _ Fe), (fe_ctb _ _ Fe). reflexivity.
    - change (map (ev bb) (s_errs s1) = map (ev bb) (s_errs s)). rewrite (fe_errs _ _ Fe). reflexivity.
    - change ((s_iters s1, s_aborted s1, s_loop_detected s1) = (s_iters s, s_aborted s, s_loop_detected s)).
      rewrite (fe_iters _ _ Fe), (fe_ab _ _ Fe), (fe_ld _ _ Fe). reflexivity.
  Qed.

  (** [eat_while]: the state after the run of characters satisfying [p] *)
  Fixpoint st_eat (p : char -> bool) (s : st) (l : list char) : st :=
    match l with
    | x :: r => if p x then st_eat p (st_adv s x r) r else s
    | [] => s
    end.

  Lemma st_eat_spec p : forall l s, c_rest (s_cur s) = l ->
    c_rest (s_cur (st_eat p s l)) = drop_while p l /\ frame (st_eat p s l) = frame s /\
    ((forall x, p x = true -> (x =? NL) = false) -> lines_pos s -> lines_pos (st_eat p s l)).
  Proof.
    induction l as [|x r IH]; intros s Hr; cbn [st_eat drop_while]; [auto|].
    destruct (p x) eqn:Epx; [|auto].
    destruct (IH (st_adv s x r) eq_refl) as (A & B & C). split; [exact A|]. split; [rewrite B; reflexivity|].
    intros Hp Hl. apply C; [exact Hp|]. apply lines_pos_adv; [exact (Hp x Epx)|exact Hl].
  Qed.

  Lemma eat_while_spec p : forall l f s, (List.length l < f)%nat -> c_rest (s_cur s) = l ->
    run false (eat_while_loop p f) s = Done tt (st_eat p s l).
  Proof.
    induction l as [|x r IH]; intros f s Hf Hr; (destruct f as [|f]; [cbn in Hf; lia|]);
      cbn [eat_while_loop]; unfold get, advance_, ret; cbn [bindP do run]; rewrite ex_get; cbn [run];
      rewrite peek_is_scrub; unfold peek_is, peek; rewrite Hr; cbn [st_eat].
    - reflexivity.
    - destruct (p x); [|reflexivity]. cbn [bindP do run]. rewrite (ex_advance s x r Hr). cbn [run].
      apply IH; [cbn in Hf; lia|reflexivity].
  Qed.

  (** '&' run that is not a macro variable reference *)
  Lemma amp_not_macro r : macro_free (c_amp :: r) = true -> fst (is_macro_amp (c_amp :: r)) = false.
  Proof.
    intros H. cbn [macro_free] in H. replace (c_amp =? c_pct) with false in H by reflexivity.
    replace (c_amp =? c_amp) with true in H by reflexivity.
    apply andb_true_iff in H. destruct H as [H _].
    unfold is_macro_amp. cbn [drop_while]. replace (c_amp =? c_amp) with true by reflexivity.
    destruct (drop_while (fun x => x =? c_amp) r) as [|x q]; [reflexivity|].
    cbn [fst]. apply negb_true_iff. exact H.
  Qed.

  Lemma class_amp r : lt_class (c_amp :: r) c_amp.
  Proof.
    intros s rs Hmf HOC Hr Hf.
    assert (E : lexeme (c_amp :: r) (cur_byte s + bb) rs =
                ([mkRtok T_AMP CH_DEFAULT (cur_byte s + bb) PNone], [], count_while (fun x => x =? c_amp) (c_amp :: r),
                 rs_after rs CH_DEFAULT T_AMP true))
      by (unfold lexeme; close_tests; reflexivity).
    rewrite E. clear E.
    assert (Hn : 1 <= count_while (fun x => x =? c_amp) (c_amp :: r) <= len (c_amp :: r)).
    { cbn [count_while]. replace (c_amp =? c_amp) with true by reflexivity. split; [lia|].
      unfold len. cbn [List.length]. assert (G : forall l, count_while (fun x => x =? c_amp) l <= N.of_nat (List.length l)).
      { induction l as [|x l IH]; cbn [count_while List.length]; [lia|]. destruct (x =? c_amp); lia. }
      specialize (G r). lia. }
    split; [apply Hn|]. split; [apply Hn|].
    pose proof (st_eat_spec (fun x => x =? c_amp) (c_amp :: r) (st_start s) Hr) as (R1 & F1 & L1).
    exists (st_pend (st_emit (st_eat (fun x => x =? c_amp) (st_start s) (c_amp :: r)) CH_DEFAULT T_AMP PNone) true).
    assert (Hrun : run false (lex_token F msep c_amp) s =
                   Done tt (st_pend (st_emit (st_eat (fun x => x =? c_amp) (st_start s) (c_amp :: r)) CH_DEFAULT T_AMP PNone) true)).
    { open_default (oc_modes _ _ _ HOC) (oc_lines _ _ _ HOC). close_tests.
      unfold lex_macro_var_expr, assert_dbg, get. cbn [bindP do run]. rewrite ex_assert. cbn [run]. rewrite ex_get. cbn [run].
      change (rest (scrub (st_start s))) with (c_rest (s_cur s)). rewrite Hr.
      pose proof (amp_not_macro r Hmf) as Hna. destruct (is_macro_amp (c_amp :: r)) as [im na]. cbn [fst] in Hna. subst im.
      cbn [negb]. unfold ret, when. cbn [bindP run negb]. unfold eat_while, emit, set_pending_stat.
      rewrite run_bindP. rewrite run_bindP.
      rewrite (eat_while_spec (fun x => x =? c_amp) (c_amp :: r) F (st_start s) Hf Hr).
      cbn [do run]. rewrite ex_emit. cbn [run].
      rewrite (ex_set_pending _ true (rs_pending rs) []); [reflexivity|].
      change (s_pstat (st_eat (fun x => x =? c_amp) (st_start s) (c_amp :: r)) = [rs_pending rs]).
      pose proof (frame_eq _ _ F1) as Fe. rewrite (fe_pstat _ _ Fe). exact (oc_pstat _ _ _ HOC). }
    split; [exact Hrun|].
    apply (step_scan (lex_token F msep c_amp) tt s rs _ _ CH_DEFAULT T_AMP PNone true HOC F1).
    - apply L1; [intros x Hx; apply N.eqb_eq in Hx; subst x; reflexivity|]. apply lines_pos_start. exact (oc_lines _ _ _ HOC).
    - rewrite R1, Hr. symmetry. apply skipn_count_while.
    - exact Hrun.
  Qed.

  (** '*': multiplication inside a statement, a comment to the next ';' at statement start *)
  Fixpoint st_pc (s : st) (l : list char) : st :=
    match l with
    | [] => s
    | x :: r => if x =? NL then st_pc (ws1 s x r) r else if x =? c_semi then ws1 s x r else st_pc (ws1 s x r) r
    end.

  Lemma find_semi_acc l : forall n, find_semi l n = n + find_semi l 0.
  Proof.
    induction l as [|x r IH]; intros n; cbn [find_semi]; [lia|].
    destruct (x =? c_semi); [lia|]. rewrite (IH (n + 1)), (IH (0 + 1)). lia.
  Qed.

  Lemma st_pc_spec : forall l s, c_rest (s_cur s) = l -> lines_pos s ->
    c_rest (s_cur (st_pc s l)) = skipn_N (N.to_nat (find_semi l 0)) l /\ frame (st_pc s l) = frame s /\ lines_pos (st_pc s l).
  Proof.
    induction l as [|x r IH]; intros s Hr Hl; cbn [st_pc find_semi]; [cbn; auto|].
    assert (Hnl : (x =? NL) = true -> (x =? c_semi) = false).
    { intros E. apply N.eqb_eq in E. subst x. reflexivity. }
    destruct (x =? NL) eqn:En.
    - rewrite (Hnl eq_refl). rewrite find_semi_acc.
      destruct (IH (ws1 s x r) (ws1_rest _ _ _) (ws1_lines _ _ _ Hl)) as (A & B & C).
      replace (N.to_nat (0 + 1 + find_semi r 0)) with (S (N.to_nat (find_semi r 0))) by lia. cbn [skipn_N].
      split; [exact A|]. split; [rewrite B; apply ws1_frame|exact C].
    - destruct (x =? c_semi).
      + cbn. split; [apply ws1_rest|]. split; [apply ws1_frame|apply ws1_lines; exact Hl].
      + rewrite find_semi_acc.
        destruct (IH (ws1 s x r) (ws1_rest _ _ _) (ws1_lines _ _ _ Hl)) as (A & B & C).
        replace (N.to_nat (0 + 1 + find_semi r 0)) with (S (N.to_nat (find_semi r 0))) by lia. cbn [skipn_N].
        split; [exact A|]. split; [rewrite B; apply ws1_frame|exact C].
  Qed.

  Lemma pc_open_spec : forall l f s, (List.length l < f)%nat -> c_rest (s_cur s) = l ->
    run false (pc_open_loop f) s = Done tt (st_pc s l).
  Proof.
    induction l as [|x r IH]; intros f s Hf Hr; (destruct f as [|f]; [cbn in Hf; lia|]);
      cbn [pc_open_loop]; unfold advance, add_line, ret; cbn [bindP do run].
    - rewrite (ex_advance_nil s Hr). reflexivity.
    - rewrite (ex_advance s x r Hr). cbn [run st_pc]. unfold ws1.
      destruct (x =? NL) eqn:En.
      + cbn [bindP do run]. rewrite ex_add_line. cbn [run]. apply IH; [cbn in Hf; lia|reflexivity].
      + destruct (x =? c_semi); [reflexivity|]. apply IH; [cbn in Hf; lia|reflexivity].
  Qed.

  Lemma ex_pending s b ps : s_pstat s = b :: ps -> exec false OPending s = Done b s.
  Proof. intros H. unfold exec. rewrite H. reflexivity. Qed.

  (** a token on a non-default channel that leaves the carried bits alone *)
  Lemma step_scan_hidden {A} (p : prog A) a s rs s1 n ch ty pl :
    ch_eqb ch CH_DEFAULT = false ->
    OC text s rs -> frame s1 = frame (st_start s) -> lines_pos s1 ->
    c_rest (s_cur s1) = skipn_N (N.to_nat n) (c_rest (s_cur s)) ->
    run false p s = Done a (st_emit s1 ch ty pl) ->
    StepOK text bb s [mkRtok ty ch (cur_byte s + bb) pl] [] n rs (st_emit s1 ch ty pl).
  Proof.
    intros Hch HOC Hfr Hl Hrest Hrun. pose proof (frame_eq _ _ Hfr) as Fe.
    pose proof (InvPos_run p s a _ (oc_inv _ _ _ HOC) Hrun) as Hinv.
    constructor.
    - constructor.
      + exact Hinv.
      + change (s_modes s1 = [MDefault]). rewrite (fe_modes _ _ Fe). exact (oc_modes _ _ _ HOC).
      + change (s_cp s1 = None). rewrite (fe_cp _ _ Fe). exact (oc_cp _ _ _ HOC).
      + change (s_mnl s1 = 0). rewrite (fe_mnl _ _ Fe). exact (oc_mnl _ _ _ HOC).
      + change (s_pstat s1 = [rs_pending rs]). rewrite (fe_pstat _ _ Fe). exact (oc_pstat _ _ _ HOC).
      + rewrite last_default_emit, Hch.
        unfold last_default_type, last_default_tok. rewrite (fe_toks _ _ Fe). exact (oc_prev _ _ _ HOC).
      + change (w_lit (s_buf s1) = rs_lit rs). rewrite (fe_lit _ _ Fe). exact (oc_lit _ _ _ HOC).
      + change (w_litlen (s_buf s1) = rs_litlen rs). rewrite (fe_litlen _ _ Fe). exact (oc_litlen _ _ _ HOC).
      + apply lines_pos_emit. exact Hl.
    - exact Hrest.
    - change (map (tv bb) (mkTok ch ty (s_ct_byte s1) (s_ct_start s1) (s_ct_line s1) pl :: w_toks (s_buf s1)) =
              rev (map rv [mkRtok ty ch (cur_byte s + bb) pl]) ++ map (tv bb) (w_toks (s_buf s))).
      rewrite (fe_toks _ _ Fe), (fe_ctb _ _ Fe). reflexivity.
    - change (map (ev bb) (s_errs s1) = map (ev bb) (s_errs s)). rewrite (fe_errs _ _ Fe). reflexivity.
    - change ((s_iters s1, s_aborted s1, s_loop_detected s1) = (s_iters s, s_aborted s, s_loop_detected s)).
      rewrite (fe_iters _ _ Fe), (fe_ab _ _ Fe), (fe_ld _ _ Fe). reflexivity.
  Qed.

  Lemma default_to_symbols_star s : s_modes s = [MDefault] -> lines_pos s ->
    run false (lex_token F msep c_star) s =
    run false (lex_symbols F c_star ;; s' <- get ;;
               when (match last_tok_type s' with Some t => negb (tt_eqb t T_PredictedCommentStat) | None => false end)
                    (set_pending_stat true)) (st_start s).
  Proof. intros Hm Hl. open_default Hm Hl. close_tests. reflexivity. Qed.

  Lemma lex_symbols_star :
    lex_symbols F c_star =
    (advance_ ;; b <- lex_predicted_comment F ;;
     if b then ret tt
     else s <- get ;; if peek_is s (fun x => x =? c_star) then advance_ ;; emit T_STAR2 else emit T_STAR).
  Proof. unfold lex_symbols. close_tests. reflexivity. Qed.

  Lemma class_star r : lt_class (c_star :: r) c_star.
  Proof.
    intros s rs _ HOC Hr Hf.
    rewrite (default_to_symbols_star s (oc_modes _ _ _ HOC) (oc_lines _ _ _ HOC)), lex_symbols_star.
    set (s1 := st_adv (st_start s) c_star r).
    assert (Hp1 : s_pstat s1 = [rs_pending rs]) by exact (oc_pstat _ _ _ HOC).
    destruct (rs_pending rs) eqn:Hpend.
    - (* inside a statement: an operator *)
      assert (E : lexeme (c_star :: r) (cur_byte s + bb) rs =
                  match r with
                  | c2 :: _ => if c2 =? c_star then ([mkRtok T_STAR2 CH_DEFAULT (cur_byte s + bb) PNone], [], 2, rs_after rs CH_DEFAULT T_STAR2 true)
                               else ([mkRtok T_STAR CH_DEFAULT (cur_byte s + bb) PNone], [], 1, rs_after rs CH_DEFAULT T_STAR true)
                  | [] => ([mkRtok T_STAR CH_DEFAULT (cur_byte s + bb) PNone], [], 1, rs_after rs CH_DEFAULT T_STAR true)
                  end).
      { unfold lexeme. close_tests. rewrite Hpend. destruct r as [|c2 r']; [close_tests; reflexivity|].
        destruct (c2 =? c_star); reflexivity. }
      rewrite E. clear E.
      assert (Hrun : forall X ty, s_pstat X = [true] -> tt_eqb ty T_PredictedCommentStat = false ->
                run false (s' <- get ;;
                   when (match last_tok_type s' with Some t => negb (tt_eqb t T_PredictedCommentStat) | None => false end)
                        (set_pending_stat true)) (st_emit X CH_DEFAULT ty PNone) = Done tt (st_pend (st_emit X CH_DEFAULT ty PNone) true)).
      { intros X ty HX Hty. apply (run_symbols_tail X CH_DEFAULT ty PNone true HX Hty). }
      assert (Hhead : run false (advance_ ;; b <- lex_predicted_comment F ;;
                        if b then ret tt else s0 <- get ;; if peek_is s0 (fun x => x =? c_star) then advance_ ;; emit T_STAR2 else emit T_STAR) (st_start s) =
                      match r with
                      | c2 :: r' => if c2 =? c_star then Done tt (st_emit (st_adv s1 c2 r') CH_DEFAULT T_STAR2 PNone)
                                    else Done tt (st_emit s1 CH_DEFAULT T_STAR PNone)
                      | [] => Done tt (st_emit s1 CH_DEFAULT T_STAR PNone)
                      end).
      { unfold advance_, lex_predicted_comment, get, emit, ret. cbn [bindP do run].
        rewrite (ex_advance (st_start s) c_star r Hr). cbn [run]. fold s1.
        rewrite (ex_pending s1 true [] Hp1). cbn [run bindP do]. rewrite ex_get. cbn [run].
        rewrite peek_is_scrub. unfold peek_is, peek. change (c_rest (s_cur s1)) with r.
        destruct r as [|c2 r']; [cbn [bindP do run]; rewrite ex_emit; reflexivity|].
        destruct (c2 =? c_star); cbn [bindP do run].
        - rewrite (ex_advance s1 c2 r' eq_refl). cbn [run]. rewrite ex_emit. reflexivity.
        - rewrite ex_emit. reflexivity. }
      rewrite run_bindP, Hhead.
      destruct r as [|c2 r'].
      + split; [lia|]. split; [apply len_ge1|]. eexists. split; [apply Hrun; [exact Hp1|reflexivity]|].
        exact (step_simple1 text bb s rs c_star [] CH_DEFAULT T_STAR true ltac:(nnl) HOC Hr).
      + destruct (c2 =? c_star) eqn:Ec2.
        * split; [lia|]. split; [apply len_ge2|]. eexists. split; [apply Hrun; [exact Hp1|reflexivity]|].
          exact (step_simple2 text bb s rs c_star c2 r' CH_DEFAULT T_STAR2 true ltac:(nnl) ltac:(nnl) HOC Hr).
        * split; [lia|]. split; [apply len_ge1|]. eexists. split; [apply Hrun; [exact Hp1|reflexivity]|].
          exact (step_simple1 text bb s rs c_star (c2 :: r') CH_DEFAULT T_STAR true ltac:(nnl) HOC Hr).
    - (* at statement start: a comment through the next ';' *)
      assert (E : lexeme (c_star :: r) (cur_byte s + bb) rs =
                  ([mkRtok T_PredictedCommentStat CH_COMMENT (cur_byte s + bb) PNone], [], find_semi r 1, rs)).
      { unfold lexeme. close_tests. rewrite Hpend. reflexivity. }
      rewrite E. clear E.
      assert (Hn : 1 <= find_semi r 1 <= len (c_star :: r)).
      { rewrite find_semi_acc. split; [lia|]. unfold len. cbn [List.length].
        assert (G : forall l, find_semi l 0 <= N.of_nat (List.length l)).
        { induction l as [|x l IH]; cbn [find_semi List.length]; [lia|]. destruct (x =? c_semi); [lia|].
          rewrite find_semi_acc. lia. }
        specialize (G r). lia. }
      split; [apply Hn|]. split; [apply Hn|].
      assert (Hl1 : lines_pos s1) by (unfold s1; apply lines_pos_adv_start; [reflexivity|exact (oc_lines _ _ _ HOC)]).
      destruct (st_pc_spec r s1 eq_refl Hl1) as (R2 & F2 & L2).
      exists (st_emit (st_pc s1 r) CH_COMMENT T_PredictedCommentStat PNone).
      assert (Hhead : run false (advance_ ;; b <- lex_predicted_comment F ;;
                        if b then ret tt else s0 <- get ;; if peek_is s0 (fun x => x =? c_star) then advance_ ;; emit T_STAR2 else emit T_STAR) (st_start s) =
                      Done tt (st_emit (st_pc s1 r) CH_COMMENT T_PredictedCommentStat PNone)).
      { unfold advance_, lex_predicted_comment, get, emit_token, ret. cbn [bindP do run].
        rewrite (ex_advance (st_start s) c_star r Hr). cbn [run]. fold s1.
        rewrite (ex_pending s1 false [] Hp1). cbn [run bindP do]. rewrite ex_get. cbn [run].
        change (s_mnl (scrub s1)) with (s_mnl s). rewrite (oc_mnl _ _ _ HOC). change (0 =? 0) with true. cbv iota.
        rewrite !run_bindP. rewrite (pc_open_spec r F s1 ltac:(cbn in Hf; lia) eq_refl).
        repeat (cbn [bindP do run]; rewrite ?ex_emit). reflexivity. }
      assert (Htail : run false (s' <- get ;;
                      when (match last_tok_type s' with Some t => negb (tt_eqb t T_PredictedCommentStat) | None => false end)
                           (set_pending_stat true)) (st_emit (st_pc s1 r) CH_COMMENT T_PredictedCommentStat PNone) =
                     Done tt (st_emit (st_pc s1 r) CH_COMMENT T_PredictedCommentStat PNone)).
      { unfold get, when. cbn [bindP do run]. rewrite ex_get. cbn [run].
        change (last_tok_type (scrub (st_emit (st_pc s1 r) CH_COMMENT T_PredictedCommentStat PNone))) with (Some T_PredictedCommentStat).
        cbv iota. change (tt_eqb T_PredictedCommentStat T_PredictedCommentStat) with true. reflexivity. }
      assert (Hrun : run false ((advance_ ;; b <- lex_predicted_comment F ;;
                        if b then ret tt else s0 <- get ;; if peek_is s0 (fun x => x =? c_star) then advance_ ;; emit T_STAR2 else emit T_STAR) ;;
                      s' <- get ;;
                      when (match last_tok_type s' with Some t => negb (tt_eqb t T_PredictedCommentStat) | None => false end)
                           (set_pending_stat true)) (st_start s) =
                     Done tt (st_emit (st_pc s1 r) CH_COMMENT T_PredictedCommentStat PNone)).
      { rewrite run_bindP, Hhead. exact Htail. }
      split; [exact Hrun|].
      assert (Hrun' : run false (start_token ;; (advance_ ;; b <- lex_predicted_comment F ;;
                        if b then ret tt else s0 <- get ;; if peek_is s0 (fun x => x =? c_star) then advance_ ;; emit T_STAR2 else emit T_STAR) ;;
                      s' <- get ;;
                      when (match last_tok_type s' with Some t => negb (tt_eqb t T_PredictedCommentStat) | None => false end)
                           (set_pending_stat true)) s =
                     Done tt (st_emit (st_pc s1 r) CH_COMMENT T_PredictedCommentStat PNone)).
      { unfold start_token at 1. rewrite run_bindP. cbn [do run]. rewrite (ex_start_token s (oc_lines _ _ _ HOC)). exact Hrun. }
      refine (step_scan_hidden _ tt s rs (st_pc s1 r) (find_semi r 1) CH_COMMENT T_PredictedCommentStat PNone eq_refl HOC _ L2 _ Hrun').
      + rewrite F2. reflexivity.
      + rewrite R2, Hr. rewrite (find_semi_acc r 1). replace (N.to_nat (1 + find_semi r 0)) with (S (N.to_nat (find_semi r 0))) by lia. reflexivity.
  Qed.

  (** the same with one error reported after the token *)
  Lemma step_scan_hidden_err {A} (p : prog A) a s rs s1 n ch ty pl k :
    ch_eqb ch CH_DEFAULT = false ->
    OC text s rs -> frame s1 = frame (st_start s) -> lines_pos s1 ->
    c_rest (s_cur s1) = skipn_N (N.to_nat n) (c_rest (s_cur s)) ->
    run false p s = Done a (Core.emit_error (st_emit s1 ch ty pl) k) ->
    StepOK text bb s [mkRtok ty ch (cur_byte s + bb) pl] [mkRerr k (cur_byte s1 + bb)] n rs
           (Core.emit_error (st_emit s1 ch ty pl) k).
  Proof.
    intros Hch HOC Hfr Hl Hrest Hrun. pose proof (frame_eq _ _ Hfr) as Fe.
    pose proof (InvPos_run p s a _ (oc_inv _ _ _ HOC) Hrun) as Hinv.
    constructor.
    - constructor.
      + exact Hinv.
      + change (s_modes s1 = [MDefault]). rewrite (fe_modes _ _ Fe). exact (oc_modes _ _ _ HOC).
      + change (s_cp s1 = None). rewrite (fe_cp _ _ Fe). exact (oc_cp _ _ _ HOC).
      + change (s_mnl s1 = 0). rewrite (fe_mnl _ _ Fe). exact (oc_mnl _ _ _ HOC).
      + change (s_pstat s1 = [rs_pending rs]). rewrite (fe_pstat _ _ Fe). exact (oc_pstat _ _ _ HOC).
      + change (last_default_type (st_emit s1 ch ty pl) = rs_prev rs). rewrite last_default_emit, Hch.
        unfold last_default_type, last_default_tok. rewrite (fe_toks _ _ Fe). exact (oc_prev _ _ _ HOC).
      + change (w_lit (s_buf s1) = rs_lit rs). rewrite (fe_lit _ _ Fe). exact (oc_lit _ _ _ HOC).
      + change (w_litlen (s_buf s1) = rs_litlen rs). rewrite (fe_litlen _ _ Fe). exact (oc_litlen _ _ _ HOC).
      + apply lines_pos_error, lines_pos_emit. exact Hl.
    - exact Hrest.
    - change (map (tv bb) (mkTok ch ty (s_ct_byte s1) (s_ct_start s1) (s_ct_line s1) pl :: w_toks (s_buf s1)) =
              rev (map rv [mkRtok ty ch (cur_byte s + bb) pl]) ++ map (tv bb) (w_toks (s_buf s))).
      rewrite (fe_toks _ _ Fe), (fe_ctb _ _ Fe). reflexivity.
    - change (ev bb (prep_error (st_emit s1 ch ty pl) k) :: map (ev bb) (s_errs s1) =
              rev (map rve [mkRerr k (cur_byte s1 + bb)]) ++ map (ev bb) (s_errs s)).
      rewrite (fe_errs _ _ Fe). reflexivity.
    - change ((s_iters s1, s_aborted s1, s_loop_detected s1) = (s_iters s, s_aborted s, s_loop_detected s)).
      rewrite (fe_iters _ _ Fe), (fe_ab _ _ Fe), (fe_ld _ _ Fe). reflexivity.
  Qed.

  (** C-style comments *)
  Fixpoint st_cs (s : st) (l : list char) : st * bool :=
    match l with
    | [] => (s, false)
    | x :: r =>
      let s1 := st_adv s x r in
      match r with
      | y :: r' =>
        if (x =? c_star) && (y =? c_slash) then (st_adv s1 y r', true)
        else st_cs (if x =? NL then st_add_line s1 else s1) r
      | [] => st_cs (if x =? NL then st_add_line s1 else s1) r
      end
    end.

  Lemma fce_acc l : forall n, find_comment_end l n = option_map (fun k => n + k) (find_comment_end l 0).
  Proof.
    induction l as [|a l IH]; intros n; [reflexivity|]. destruct l as [|b l']; [reflexivity|].
    rewrite !fce_cons. destruct ((a =? c_star) && (b =? c_slash)); [cbn [option_map]; f_equal; lia|].
    rewrite (IH (n + 1)), (IH (0 + 1)). destruct (find_comment_end (b :: l') 0); cbn [option_map]; [f_equal; lia|reflexivity].
  Qed.

  Lemma st_cs_spec : forall l s, c_rest (s_cur s) = l -> lines_pos s ->
    let '(s', closed) := st_cs s l in
    frame s' = frame s /\ lines_pos s' /\
    match find_comment_end l 0 with
    | Some k => closed = true /\ c_rest (s_cur s') = skipn_N (N.to_nat k) l /\ k <= len l
    | None => closed = false /\ c_rest (s_cur s') = []
    end.
  Proof.
    induction l as [|x r IH]; intros s Hr Hl; [cbn; auto|].
    cbn [st_cs].
    assert (Hstep : forall s2, s2 = (if x =? NL then st_add_line (st_adv s x r) else st_adv s x r) ->
              c_rest (s_cur s2) = r /\ frame s2 = frame s /\ lines_pos s2).
    { intros s2 ->. destruct (x =? NL) eqn:Ex; (split; [reflexivity|]); (split; [reflexivity|]);
        [apply lines_pos_nl|apply lines_pos_adv]; assumption. }
    destruct r as [|y r'].
    - destruct (Hstep _ eq_refl) as (A & B & C). cbn [st_cs find_comment_end]. auto.
    - rewrite fce_cons. destruct ((x =? c_star) && (y =? c_slash)) eqn:E.
      + apply andb_true_iff in E. destruct E as [Ex Ey]. apply N.eqb_eq in Ex, Ey. subst x y.
        split; [reflexivity|]. split; [apply lines_pos_adv; [reflexivity|]; apply lines_pos_adv; [reflexivity|exact Hl]|].
        split; [reflexivity|]. split; [reflexivity|].
        unfold len. cbn [List.length]. lia.
      + destruct (Hstep _ eq_refl) as (A & B & C).
        specialize (IH _ A C).
        destruct (st_cs (if x =? NL then st_add_line (st_adv s x (y :: r')) else st_adv s x (y :: r')) (y :: r')) as [s' closed].
        destruct IH as (I1 & I2 & I3). split; [rewrite I1; exact B|]. split; [exact I2|].
        rewrite (fce_acc (y :: r') (0 + 1)).
        destruct (find_comment_end (y :: r') 0) as [k|]; cbn [option_map].
        * destruct I3 as (J1 & J2 & J3). split; [exact J1|]. split.
          -- rewrite J2. replace (N.to_nat (0 + 1 + k)) with (S (N.to_nat k)) by lia. reflexivity.
          -- unfold len in *. cbn [List.length] in *. lia.
        * exact I3.
  Qed.

  Lemma cstyle_loop_spec : forall l f s, (List.length l < f)%nat -> c_rest (s_cur s) = l ->
    run false (cstyle_loop f) s =
    let '(s', closed) := st_cs s l in
    if closed then Done true (st_emit s' CH_COMMENT T_CStyleComment PNone) else Done false s'.
  Proof.
    induction l as [|x r IH]; intros f s Hf Hr; (destruct f as [|f]; [cbn in Hf; lia|]);
      cbn [cstyle_loop]; unfold advance, advance_, get, emit_token, when, add_line, ret; cbn [bindP do run].
    - rewrite (ex_advance_nil s Hr). reflexivity.
    - rewrite (ex_advance s x r Hr). cbn [run]. rewrite ex_get. cbn [run]. rewrite peek_is_scrub.
      unfold peek_is, peek. change (c_rest (s_cur (st_adv s x r))) with r. cbn [st_cs].
      assert (Hf' : (List.length r < f)%nat) by (cbn [List.length] in Hf; lia).
      destruct r as [|y r'].
      + rewrite andb_false_r. destruct (x =? NL); cbn [bindP do run]; rewrite ?ex_add_line; cbn [run];
          match goal with |- context [run false (cstyle_loop f) ?S] => rewrite (IH f S Hf' eq_refl) end; reflexivity.
      + destruct ((x =? c_star) && (y =? c_slash)).
        * cbn [bindP do run]. rewrite (ex_advance (st_adv s x (y :: r')) y r' eq_refl). cbn [run]. rewrite ex_emit. reflexivity.
        * destruct (x =? NL); cbn [bindP do run]; rewrite ?ex_add_line; cbn [run];
            match goal with |- context [run false (cstyle_loop f) ?S] => rewrite (IH f S Hf' eq_refl) end; reflexivity.
  Qed.

  Lemma class_comment r : lt_class (c_slash :: c_star :: r) c_slash.
  Proof.
    intros s rs _ HOC Hr Hf.
    set (s1 := st_adv (st_start s) c_slash (c_star :: r)).
    set (s2 := st_adv s1 c_star r).
    assert (Hl2 : lines_pos s2).
    { unfold s2, s1. apply lines_pos_adv; [reflexivity|]. apply lines_pos_adv_start; [reflexivity|exact (oc_lines _ _ _ HOC)]. }
    pose proof (st_cs_spec r s2 eq_refl Hl2) as Hspec.
    assert (Hrun : run false (lex_token F msep c_slash) s =
                   let '(s', closed) := st_cs s2 r in
                   if closed then Done tt (st_emit s' CH_COMMENT T_CStyleComment PNone)
                   else Done tt (Core.emit_error (st_emit s' CH_COMMENT T_CStyleComment PNone) E_UnterminatedComment)).
    { open_default (oc_modes _ _ _ HOC) (oc_lines _ _ _ HOC). close_tests.
      replace (peek_next (scrub (st_start s)) =? c_star) with true
        by (unfold peek_next; change (c_rest (s_cur (scrub (st_start s)))) with (c_rest (s_cur s)); rewrite Hr; reflexivity).
      unfold lex_cstyle_comment, assert_dbg, advance_, ret. cbn [bindP do run]. rewrite !ex_assert. cbn [run].
      rewrite (ex_advance (st_start s) c_slash (c_star :: r) Hr). cbn [run]. fold s1.
      rewrite (ex_advance s1 c_star r eq_refl). cbn [run]. fold s2. rewrite run_bindP.
      rewrite (cstyle_loop_spec r F s2 ltac:(cbn [List.length] in Hf; lia) eq_refl).
      destruct (st_cs s2 r) as [s' closed]. destruct closed.
      - reflexivity.
      - unfold emit_token, emit_error. cbn [bindP do run]. rewrite ex_emit. cbn [run]. rewrite ex_emit_error. reflexivity. }
    assert (E : lexeme (c_slash :: c_star :: r) (cur_byte s + bb) rs =
                match find_comment_end r 2 with
                | Some n => ([mkRtok T_CStyleComment CH_COMMENT (cur_byte s + bb) PNone], [], n, rs)
                | None => ([mkRtok T_CStyleComment CH_COMMENT (cur_byte s + bb) PNone],
                           [mkRerr E_UnterminatedComment (cur_byte s + bb + blen (c_slash :: c_star :: r))], len (c_slash :: c_star :: r), rs)
                end).
    { unfold lexeme. close_tests. reflexivity. }
    rewrite E. clear E. rewrite (fce_acc r 2).
    destruct (st_cs s2 r) as [s' closed]. destruct Hspec as (Hfr & Hl' & Hcase).
    destruct (find_comment_end r 0) as [k|]; cbn [option_map].
    - destruct Hcase as (-> & Hrest & Hk).
      split; [lia|]. split; [unfold len in *; cbn [List.length]; lia|].
      exists (st_emit s' CH_COMMENT T_CStyleComment PNone). split; [exact Hrun|].
      refine (step_scan_hidden _ tt s rs s' (2 + k) CH_COMMENT T_CStyleComment PNone eq_refl HOC _ Hl' _ Hrun).
      + rewrite Hfr. reflexivity.
      + rewrite Hrest, Hr. replace (N.to_nat (2 + k)) with (S (S (N.to_nat k))) by lia. reflexivity.
    - destruct Hcase as (-> & Hrest).
      split; [unfold len; cbn [List.length]; lia|]. split; [lia|].
      exists (Core.emit_error (st_emit s' CH_COMMENT T_CStyleComment PNone) E_UnterminatedComment). split; [exact Hrun|].
      assert (Hpos : cur_byte s' + bb = cur_byte s + bb + blen (c_slash :: c_star :: r)).
      { pose proof (InvPos_run _ s tt _ (oc_inv _ _ _ HOC) Hrun) as I'.
        pose proof (cur_byte_rest text _ I') as B1. pose proof (cur_byte_rest text s (oc_inv _ _ _ HOC)) as B2.
        change (cur_byte (Core.emit_error (st_emit s' CH_COMMENT T_CStyleComment PNone) E_UnterminatedComment)) with (cur_byte s') in B1.
        change (c_rest (s_cur (Core.emit_error (st_emit s' CH_COMMENT T_CStyleComment PNone) E_UnterminatedComment))) with (c_rest (s_cur s')) in B1.
        rewrite Hrest in B1. rewrite Hr in B2. cbn [blen] in B1. lia. }
      rewrite <- Hpos.
      refine (step_scan_hidden_err _ tt s rs s' (len (c_slash :: c_star :: r)) CH_COMMENT T_CStyleComment PNone E_UnterminatedComment eq_refl HOC _ Hl' _ Hrun).
      + rewrite Hfr. reflexivity.
      + rewrite Hrest, Hr. unfold len. rewrite Nat2N.id. clear. induction (c_slash :: c_star :: r) as [|x l IH]; [reflexivity|exact IH].
  Qed.

  (** '$': a character format or a lone dollar *)
  Definition st_adv_by (s : st) (n : N) : st :=
    match exec false (OAdvanceBy n) s with Done _ s' => s' | Panic _ s' => s' end.

  Lemma ex_advance_by s n : exec false (OAdvanceBy n) s = Done tt (st_adv_by s n).
  Proof. unfold st_adv_by. reflexivity. Qed.

  Lemma advance_by_loop_rest k : forall c, c_rest (advance_by_loop k c) = skipn_N k (c_rest c).
  Proof.
    induction k as [|k IH]; intros c; [reflexivity|]. cbn [advance_by_loop].
    destruct (c_rest c) as [|x r] eqn:E; [rewrite E; reflexivity|]. rewrite IH. reflexivity.
  Qed.

  Lemma st_adv_by_spec s n :
    c_rest (s_cur (st_adv_by s n)) = skipn_N (N.to_nat n) (c_rest (s_cur s)) /\
    frame (st_adv_by s n) = frame s /\ w_nlines (s_buf (st_adv_by s n)) = w_nlines (s_buf s).
  Proof.
    unfold st_adv_by, exec. cbn [andb]. split; [|split; reflexivity].
    cbn [s_cur set]. apply advance_by_loop_rest.
  Qed.

  (** [advance_by] over characters none of which is a line feed keeps the line protocol intact *)
  Definition no_nl (l : list char) : bool := forallb (fun x => negb (x =? NL)) l.

  Lemma adv_by_flags : forall k l, no_nl (firstn k l) = true -> has_nl_before_last l k = false /\ nth_is_nl l k = false.
  Proof.
    induction k as [|k IH]; intros l H; [destruct l; split; reflexivity|].
    destruct l as [|x r]; [destruct k; split; reflexivity|].
    cbn [firstn no_nl forallb] in H. apply andb_true_iff in H. destruct H as [Hx Hr]. apply negb_true_iff in Hx.
    destruct (IH r Hr) as [A B]. destruct k as [|k].
    - cbn [has_nl_before_last nth_is_nl]. rewrite Hx. split; reflexivity.
    - split.
      + cbn [has_nl_before_last]. rewrite Hx. exact A.
      + cbn [nth_is_nl]. exact B.
  Qed.

  Lemma lines_pos_adv_by s n :
    lines_pos s -> no_nl (firstn (N.to_nat n) (c_rest (s_cur s))) = true -> lines_pos (st_adv_by s n).
  Proof.
    intros [Hp [Ho Hd]] H. destruct (adv_by_flags _ _ H) as [A B]. split; [exact Hp|].
    unfold lines_good, st_adv_by, exec. cbn [andb]. cbn [s_ghost set]. rewrite Hd, A, B. cbn [andb orb]. split; assumption.
  Qed.

  Lemma no_nl_while p : (forall x, p x = true -> (x =? NL) = false) ->
    forall l m, no_nl (firstn m (drop_while p l)) = true -> no_nl (firstn (N.to_nat (count_while p l) + m) l) = true.
  Proof.
    intros Hp. induction l as [|x r IH]; intros m H; cbn [count_while drop_while] in *; [exact H|].
    destruct (p x) eqn:Epx; [|exact H].
    replace (N.to_nat (1 + count_while p r) + m)%nat with (S (N.to_nat (count_while p r) + m)) by lia.
    cbn [firstn no_nl forallb]. rewrite (Hp x Epx). cbn [negb andb]. apply IH. exact H.
  Qed.

  Lemma no_nl_one x q m : (x =? NL) = false -> no_nl (firstn m q) = true -> no_nl (firstn (S m) (x :: q)) = true.
  Proof. intros Hx H. cbn [firstn no_nl forallb]. rewrite Hx. exact H. Qed.

  Lemma digit_not_nl x : is_ascii_digit x = true -> (x =? NL) = false.
  Proof. intros H. destruct (N.eqb_spec x NL) as [->|]; [vm_compute in H; discriminate H|reflexivity]. Qed.
  Lemma xid_continue_not_nl x : is_xid_continue x = true -> (x =? NL) = false.
  Proof. intros H. destruct (N.eqb_spec x NL) as [->|]; [vm_compute in H; discriminate H|reflexivity]. Qed.
  Lemma name_start_not_nl x : is_valid_unicode_sas_name_start x = true -> (x =? NL) = false.
  Proof. intros H. destruct (N.eqb_spec x NL) as [->|]; [vm_compute in H; discriminate H|reflexivity]. Qed.

  Lemma ident_char_not_nl x : ident_char x = true -> (x =? NL) = false.
  Proof. intros H. destruct (N.eqb_spec x NL) as [->|]; [vm_compute in H; discriminate H|reflexivity]. Qed.

  Lemma charformat_no_nl r n : charformat_len r = Some n -> no_nl (firstn (N.to_nat n) r) = true.
  Proof.
    unfold charformat_len. destruct r as [|c r].
    - cbn. discriminate.
    - destruct (is_valid_unicode_sas_name_start c) eqn:Ec.
      + destruct (drop_while is_ascii_digit (drop_while is_xid_continue r)) as [|x q] eqn:E; [discriminate|].
        destruct (x =? c_dot) eqn:Ex; [|discriminate]. intros H. apply (f_equal (fun o => match o with Some v => v | None => 0 end)) in H. cbv beta iota in H. subst n.
        replace (N.to_nat (1 + count_while is_xid_continue r + count_while is_ascii_digit (drop_while is_xid_continue r) + 1 +
                           count_while is_ascii_digit q))
          with (S (N.to_nat (count_while is_xid_continue r) +
                   (N.to_nat (count_while is_ascii_digit (drop_while is_xid_continue r)) + S (N.to_nat (count_while is_ascii_digit q) + 0))))
          by lia.
        apply no_nl_one; [exact (name_start_not_nl c Ec)|].
        apply (no_nl_while is_xid_continue xid_continue_not_nl).
        apply (no_nl_while is_ascii_digit digit_not_nl). rewrite E.
        apply no_nl_one; [apply N.eqb_eq in Ex; subst x; reflexivity|].
        apply (no_nl_while is_ascii_digit digit_not_nl). reflexivity.
      + destruct (drop_while is_ascii_digit (c :: r)) as [|x q] eqn:E; [discriminate|].
        destruct (x =? c_dot) eqn:Ex; [|discriminate]. intros H. apply (f_equal (fun o => match o with Some v => v | None => 0 end)) in H. cbv beta iota in H. subst n.
        replace (N.to_nat (0 + count_while is_ascii_digit (c :: r) + 1 + count_while is_ascii_digit q))
          with (N.to_nat (count_while is_ascii_digit (c :: r)) + S (N.to_nat (count_while is_ascii_digit q) + 0))%nat by lia.
        apply (no_nl_while is_ascii_digit digit_not_nl). rewrite E.
        apply no_nl_one; [apply N.eqb_eq in Ex; subst x; reflexivity|].
        apply (no_nl_while is_ascii_digit digit_not_nl). reflexivity.
  Qed.

  Lemma char_format_len_same l : char_format_len l = charformat_len l.
  Proof.
    unfold char_format_len, charformat_len. destruct l as [|c r]; [reflexivity|].
    destruct (is_valid_unicode_sas_name_start c); reflexivity.
  Qed.

  Lemma default_to_symbols_dollar s : s_modes s = [MDefault] -> lines_pos s ->
    run false (lex_token F msep 36) s =
    run false (lex_symbols F 36 ;; s' <- get ;;
               when (match last_tok_type s' with Some t => negb (tt_eqb t T_PredictedCommentStat) | None => false end)
                    (set_pending_stat true)) (st_start s).
  Proof. intros Hm Hl. open_default Hm Hl. close_tests. reflexivity. Qed.

  Lemma lex_symbols_dollar :
    lex_symbols F 36 = (advance_ ;; b <- lex_char_format ;; when (negb b) (emit T_DOLLAR)).
  Proof. unfold lex_symbols. close_tests. reflexivity. Qed.

  Lemma len_cons {A} (a : A) l : len (a :: l) = len l + 1.
  Proof. unfold len. cbn [List.length]. lia. Qed.

  Lemma charformat_len_bound l n : charformat_len l = Some n -> 1 <= n <= len l.
  Proof.
    unfold charformat_len.
    assert (CW : forall p (l0 : list char), count_while p l0 + len (drop_while p l0) = len l0).
    { intros p l0. induction l0 as [|x l0 IH]; [reflexivity|]. cbn [count_while drop_while].
      rewrite (len_cons x l0). destruct (p x); [lia|]. rewrite (len_cons x l0). lia. }
    destruct l as [|c r].
    - cbn. discriminate.
    - destruct (is_valid_unicode_sas_name_start c).
      + pose proof (CW is_xid_continue r) as C1.
        pose proof (CW is_ascii_digit (drop_while is_xid_continue r)) as C2.
        destruct (drop_while is_ascii_digit (drop_while is_xid_continue r)) as [|x q] eqn:E; [discriminate|].
        destruct (x =? c_dot); [|discriminate]. intros H. injection H as Hn. subst n.
        pose proof (CW is_ascii_digit q) as C3. clear CW. rewrite (len_cons x q) in C2. rewrite (len_cons c r).
        match goal with |- 1 <= ?a + ?b + 1 + ?d <= _ => change a with (1 + count_while is_xid_continue r) end. lia.
      + pose proof (CW is_ascii_digit (c :: r)) as C2.
        destruct (drop_while is_ascii_digit (c :: r)) as [|x q] eqn:E; [discriminate|].
        destruct (x =? c_dot); [|discriminate]. intros H. injection H as Hn. subst n.
        pose proof (CW is_ascii_digit q) as C3. clear CW. rewrite (len_cons x q) in C2.
        match goal with |- 1 <= ?a + 1 + ?d <= _ => change a with (count_while is_ascii_digit (c :: r)) end. lia.
  Qed.

  Lemma class_dollar r : lt_class (36 :: r) 36.
  Proof.
    intros s rs _ HOC Hr Hf.
    set (s1 := st_adv (st_start s) 36 r).
    assert (Hp1 : s_pstat s1 = [rs_pending rs]) by exact (oc_pstat _ _ _ HOC).
    assert (E : lexeme (36 :: r) (cur_byte s + bb) rs =
                match charformat_len r with
                | Some n => ([mkRtok T_CharFormat CH_DEFAULT (cur_byte s + bb) PNone], [], 1 + n, rs_after rs CH_DEFAULT T_CharFormat true)
                | None => ([mkRtok T_DOLLAR CH_DEFAULT (cur_byte s + bb) PNone], [], 1, rs_after rs CH_DEFAULT T_DOLLAR true)
                end).
    { unfold lexeme. close_tests. destruct (charformat_len r); reflexivity. }
    rewrite E. clear E.
    rewrite (default_to_symbols_dollar s (oc_modes _ _ _ HOC) (oc_lines _ _ _ HOC)), lex_symbols_dollar.
    assert (Hhead : run false (advance_ ;; b <- lex_char_format ;; when (negb b) (emit T_DOLLAR)) (st_start s) =
                    match charformat_len r with
                    | Some n => Done tt (st_emit (st_adv_by s1 n) CH_DEFAULT T_CharFormat PNone)
                    | None => Done tt (st_emit s1 CH_DEFAULT T_DOLLAR PNone)
                    end).
    { unfold advance_, lex_char_format, assert_dbg, get, advance_by, emit, when, ret. cbn [bindP do run].
      rewrite (ex_advance (st_start s) 36 r Hr). cbn [run]. fold s1. rewrite ex_assert. cbn [run]. rewrite ex_get. cbn [run].
      change (rest (scrub s1)) with r. rewrite char_format_len_same.
      destruct (charformat_len r) as [n|]; cbn [bindP do run negb].
      - rewrite ex_advance_by. cbn [run]. rewrite ex_emit. reflexivity.
      - rewrite ex_emit. reflexivity. }
    rewrite run_bindP, Hhead.
    destruct (charformat_len r) as [n|] eqn:En.
    - destruct (charformat_len_bound r n En) as [N1 N2].
      split; [lia|]. split; [unfold len in *; cbn [List.length]; lia|].
      destruct (st_adv_by_spec s1 n) as (R2 & F2 & L2).
      assert (Hrun : run false (s' <- get ;;
                 when (match last_tok_type s' with Some t => negb (tt_eqb t T_PredictedCommentStat) | None => false end)
                      (set_pending_stat true)) (st_emit (st_adv_by s1 n) CH_DEFAULT T_CharFormat PNone) =
               Done tt (st_pend (st_emit (st_adv_by s1 n) CH_DEFAULT T_CharFormat PNone) true)).
      { apply (run_symbols_tail _ CH_DEFAULT T_CharFormat PNone (rs_pending rs)); [|reflexivity].
        pose proof (frame_eq _ _ F2) as Fe. rewrite (fe_pstat _ _ Fe). exact Hp1. }
      eexists. split; [exact Hrun|].
      assert (Hfull : run false (start_token ;; (advance_ ;; b <- lex_char_format ;; when (negb b) (emit T_DOLLAR)) ;; s' <- get ;;
                 when (match last_tok_type s' with Some t => negb (tt_eqb t T_PredictedCommentStat) | None => false end)
                      (set_pending_stat true)) s =
               Done tt (st_pend (st_emit (st_adv_by s1 n) CH_DEFAULT T_CharFormat PNone) true)).
      { unfold start_token at 1. rewrite run_bindP. cbn [do run]. rewrite (ex_start_token s (oc_lines _ _ _ HOC)).
        rewrite run_bindP, Hhead. exact Hrun. }
      refine (step_scan _ tt s rs (st_adv_by s1 n) (1 + n) CH_DEFAULT T_CharFormat PNone true HOC _ _ _ Hfull).
      + rewrite F2. reflexivity.
      + apply lines_pos_adv_by; [unfold s1; apply lines_pos_adv_start; [reflexivity|exact (oc_lines _ _ _ HOC)]|].
        exact (charformat_no_nl r n En).
      + rewrite R2, Hr. replace (N.to_nat (1 + n)) with (S (N.to_nat n)) by lia. reflexivity.
    - split; [lia|]. split; [apply len_ge1|]. eexists. split.
      + apply (run_symbols_tail _ CH_DEFAULT T_DOLLAR PNone (rs_pending rs)); [exact Hp1|reflexivity].
      + exact (step_simple1 text bb s rs 36 r CH_DEFAULT T_DOLLAR true ltac:(nnl) HOC Hr).
  Qed.
End Scan.
