(** * A part of C01 that holds for every program over the primitives: the pending-statement
    stack is never empty, so the recovery branches that report
    InternalErrorEmptyPendingStatStack (9009) in [pending_stat] / [set_pending_stat] are
    unreachable. *)
From Coq Require Import NArith ZArith List Bool Lia.
From RecordUpdate Require Import RecordSet.
From SasLexer Require Import Gen.TokenType Gen.ErrorKind Gen.Channel Model.Base Model.Core Proofs.Generic.
Import ListNotations RecordSetNotations.
Open Scope N_scope.

Definition pstat_ok (s : st) : Prop := s_pstat s <> [].

Definition res_pstat {A} (r : res A) : Prop :=
  match r with Done _ s => pstat_ok s | Panic _ s => pstat_ok s end.

Lemma add_line_pstat d s b c : res_pstat (buf_add_line d s b c) <-> pstat_ok s.
Proof. unfold buf_add_line. destruct (d && _); cbn; tauto. Qed.

Lemma last_line_pstat d s : res_pstat (last_line_or_add d s) <-> pstat_ok s.
Proof. unfold last_line_or_add. destruct (last_line s); [cbn; tauto|apply add_line_pstat]. Qed.

Lemma add_token_pstat d s t : res_pstat (buf_add_token d s t) <-> pstat_ok s.
Proof.
  unfold buf_add_token.
  repeat match goal with |- res_pstat (if ?c then _ else _) <-> _ => destruct c end; cbn; tauto.
Qed.

Lemma res_pstat_map {A B} (r : res A) (f : A -> st -> res B) :
  res_pstat r -> (forall a s, pstat_ok s -> res_pstat (f a s)) ->
  res_pstat (match r with Done a s => f a s | Panic site s => Panic site s end).
Proof. destruct r; cbn; auto. Qed.

Theorem exec_pstat d {A} (o : op A) s : pstat_ok s -> res_pstat (exec d o s).
Proof.
  intros H. destruct o; cbn [exec].
  - exact H.
  - destruct (c_rest (s_cur s)); exact H.
  - destruct (d && _); exact H.
  - pose proof (proj2 (add_line_pstat d (clear_debt s) (cur_byte s) (cur_char s)) H) as R.
    destruct (buf_add_line d (clear_debt s) (cur_byte s) (cur_char s)); exact R.
  - pose proof (proj2 (last_line_pstat d (note_observe_lines s)) H) as R.
    destruct (last_line_or_add d (note_observe_lines s)); exact R.
  - destruct (s_mark s); [exact H|].
    pose proof (proj2 (last_line_pstat d (note_observe_lines s)) H) as R.
    destruct (last_line_or_add d (note_observe_lines s)); exact R.
  - exact H.
  - apply add_token_pstat. exact H.
  - destruct (s_mark s) as [[[? ?] ?]|]; [apply add_token_pstat|]; exact H.
  - destruct (w_toks (s_buf s)); [apply add_token_pstat|]; exact H.
  - match goal with |- res_pstat (match ?g with _ => _ end) => destruct g end; exact H.
  - match goal with |- res_pstat (match ?g with _ => _ end) => destruct g as [[[? ?] ?]|] end; [|exact H].
    destruct (needs _ _); [|exact H].
    repeat match goal with |- res_pstat (if ?c then _ else _) => destruct c end; exact H.
  - unfold add_string_literal. exact H.
  - unfold add_string_literal.
    match goal with |- res_pstat (if ?c then _ else _) => destruct c; [exact H|] end.
    match goal with |- context [src_slice ?x ?y ?z] => destruct (src_slice x y z) end; exact H.
  - destruct (src_slice s a b); exact H.
  - exact H.
  - unfold pop_mode. destruct (s_modes s); exact H.
  - destruct (s_modes s); exact H.
  - destruct (s_modes s) as [|[] r]; try exact H. destruct increment; [exact H|]. destruct (d && _); exact H.
  - destruct (s_modes s) as [|[] r]; exact H.
  - destruct (s_modes s) as [|[] r]; exact H.
  - destruct (_ <? _); exact H.
  - destruct (_ <? _); [|exact H]. destruct (update_nth _ _ _); exact H.
  - unfold pstat_ok. cbn. discriminate.
  - unfold pstat_ok in *. destruct (s_pstat s) as [|x [|y r]] eqn:E; cbn [res_pstat].
    + unfold pstat_ok. rewrite E. exact H.
    + unfold pstat_ok. rewrite E. exact H.
    + unfold pstat_ok. cbn. discriminate.
  - unfold pstat_ok in *. destruct (s_pstat s); cbn; discriminate.
  - destruct (s_pstat s) eqn:E; unfold res_pstat, pstat_ok; cbn; [discriminate|rewrite E; discriminate].
  - destruct (d && _); exact H.
  - exact H.
  - destruct (s_cp s); exact H.
  - exact H.
  - exact H.
  - destruct (s_perr s); exact H.
  - exact H.
  - destruct (d && _); exact H.
  - exact H.
  - destruct (_ <? _); exact H.
  - destruct (d && _); exact H.
  - pose proof (proj2 (last_line_pstat d (note_observe_lines s)) H) as R.
    destruct (last_line_or_add d (note_observe_lines s)); [|exact R].
    apply add_token_pstat. exact R.
Qed.

Theorem run_pstat d {A} (p : prog A) : forall s, pstat_ok s -> res_pstat (run d p s).
Proof.
  induction p as [a|B o k IH]; intros s H; cbn [run]; [exact H|].
  pose proof (exec_pstat d o s H) as R. destruct (exec d o s); [apply IH; exact R|exact R].
Qed.

(** in a state with a non-empty stack, [pending_stat] and [set_pending_stat] report nothing *)
Lemma pending_no_internal_error d s : pstat_ok s ->
  (exists b, exec d OPending s = Done b s) /\
  (forall v, exists s', exec d (OSetPending v) s = Done tt s' /\ s_errs s' = s_errs s).
Proof.
  unfold pstat_ok. intros H. destruct (s_pstat s) as [|b r] eqn:E; [congruence|]. split.
  - exists b. cbn. rewrite E. reflexivity.
  - intros v. eexists. cbn. rewrite E. split; reflexivity.
Qed.
