(** * A boolean well-formedness checker for buffers, sound for [WFbuf].
    Used (extracted) to test that every buffer the implementation returns satisfies the
    premise of C05, and to classify hand-built buffers. *)
From Coq Require Import NArith List Bool Lia.
From SasLexer Require Import Gen.TokenType Gen.ErrorKind Gen.Channel Model.Base Model.Buffer Proofs.BufferProofs.
Import ListNotations.
Open Scope N_scope.

Fixpoint adjacent {A} (r : A -> A -> bool) (l : list A) : bool :=
  match l with
  | x :: ((y :: _) as t) => r x y && adjacent r t
  | _ => true
  end.

Definition tok_line_ok (b : tbuf) (t : tok) : bool :=
  match nthN (b_lines b) (t_line t) with
  | Some li => (l_byte li <=? t_byte t) && (l_start li <=? t_start t)
  | None => false
  end.

Definition wfbuf_b (b : tbuf) : bool :=
  match b_toks b with [] => false | _ => true end
  && forallb (tok_line_ok b) (b_toks b)
  && adjacent (fun t u => t_byte t <=? t_byte u) (b_toks b)
  && adjacent (fun a c => (l_byte a <=? l_byte c) && (l_start a <=? l_start c)) (b_lines b).

Lemma nthN_In {A} (l : list A) n x : nthN l n = Some x -> In x l.
Proof.
  revert n; induction l as [|y l IH]; intros n H; [discriminate|].
  cbn [nthN] in H. destruct (N.eqb_spec n 0) as [E|E].
  - inversion H; subst. left; reflexivity.
  - right. eapply IH. exact H.
Qed.

Lemma adjacent_nth {A} (r : A -> A -> bool) l :
  adjacent r l = true ->
  forall i x y, nthN l i = Some x -> nthN l (i + 1) = Some y -> r x y = true.
Proof.
  induction l as [|a l IH]; intros Hadj i x y Hx Hy; [discriminate|].
  destruct l as [|c l'].
  - rewrite nthN_cons_succ in Hy. discriminate.
  - cbn [adjacent] in Hadj. apply andb_true_iff in Hadj. destruct Hadj as [Hac Hrest].
    cbn [nthN] in Hx. destruct (N.eqb_spec i 0) as [E|E].
    + subst i. inversion Hx; subst x. cbn in Hy. inversion Hy; subst y. exact Hac.
    + replace i with (N.pred i + 1) in Hy by lia. rewrite nthN_cons_succ in Hy.
      eapply (IH Hrest (N.pred i)); [exact Hx|].
      exact Hy.
Qed.

Lemma adjacent_trans {A} (r : A -> A -> bool) (R : A -> A -> Prop) l :
  (forall x y, r x y = true -> R x y) ->
  (forall x, R x x) -> (forall x y z, R x y -> R y z -> R x z) ->
  adjacent r l = true ->
  forall j i x y, i <= j -> nthN l i = Some x -> nthN l j = Some y -> R x y.
Proof.
  intros Hr Hrefl Htrans Hadj j.
  induction j as [|j IH] using N.peano_ind; intros i x y Hij Hx Hy.
  - assert (i = 0) by lia. subst i. rewrite Hx in Hy. inversion Hy; subst. apply Hrefl.
  - destruct (N.eq_dec i (N.succ j)) as [E|NE].
    + subst i. rewrite Hx in Hy. inversion Hy; subst. apply Hrefl.
    + assert (Hj : j < len l) by (apply nthN_lt in Hy; lia).
      destruct (nthN_some _ _ Hj) as (z & Hz).
      apply Htrans with z.
      * apply (IH i x z); [lia|assumption|assumption].
      * apply Hr. eapply adjacent_nth; [exact Hadj|exact Hz|].
        replace (j + 1) with (N.succ j) by lia. exact Hy.
Qed.

Theorem wfbuf_b_sound b : wfbuf_b b = true -> WFbuf b.
Proof.
  unfold wfbuf_b. intros H.
  apply andb_true_iff in H. destruct H as [H Hlines].
  apply andb_true_iff in H. destruct H as [H Hsorted].
  apply andb_true_iff in H. destruct H as [Hne Hall].
  constructor.
  - intros E. rewrite E in Hne. discriminate.
  - intros i t Ht. apply nthN_In in Ht. rewrite forallb_forall in Hall.
    specialize (Hall t Ht). unfold tok_line_ok in Hall.
    destruct (nthN (b_lines b) (t_line t)) as [li|]; [|discriminate].
    apply andb_true_iff in Hall. destruct Hall as [H1 H2].
    exists li. split; [reflexivity|]. split; [apply N.leb_le; exact H1 | apply N.leb_le; exact H2].
  - intros i t u Ht Hu. apply N.leb_le. eapply (adjacent_nth _ _ Hsorted); eassumption.
  - intros i j a c Hij Ha Hc.
    refine (adjacent_trans _ (fun a c => l_byte a <= l_byte c /\ l_start a <= l_start c) _ _ _ _ Hlines j i a c Hij Ha Hc).
    + intros x y Hxy. apply andb_true_iff in Hxy. destruct Hxy as [H1 H2].
      split; apply N.leb_le; assumption.
    + intros x; split; lia.
    + intros x y z [? ?] [? ?]; split; lia.
Qed.
