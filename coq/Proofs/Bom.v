(** * BOM transparency (C17).
    In the model every offset is relative to the text after the mark, so the run on
    [BOM :: src] is the run on [src] except for two parameters of the main loop: the iteration
    budget (8 * source_len + 64, larger by 24) and the initial remembered length of the
    debug-only loop detector (larger by 3).  If the plain run neither exhausts its budget nor
    trips the detector, those parameters are never decisive and the two runs coincide. *)
From Coq Require Import NArith ZArith List Bool Lia.
From RecordUpdate Require Import RecordSet.
From SasLexer Require Import Gen.TokenType Gen.ErrorKind Gen.Channel Model.Base Model.Core
     Model.Helpers Model.Numeric Model.Lexer1 Model.Lexer2 Model.Lexer3 Proofs.Generic Proofs.LexGeneric Proofs.DbgErase.
Import ListNotations RecordSetNotations.
Open Scope N_scope.

Lemma run_bindP d {A B} (p : prog A) (f : A -> prog B) : forall s,
  run d (bindP p f) s = match run d p s with Done a s' => run d (f a) s' | Panic site s' => Panic site s' end.
Proof.
  induction p as [a|C o k IH]; intros s; cbn [bindP run]; [reflexivity|].
  destruct (exec d o s); [apply IH|reflexivity].
Qed.

Section MainLoop.
  Variable d : bool.
  Variable F : nat.
  Variable m : bool.
  Variable text : list char.

  (** a remembered length above the text length can never match the remaining length *)
  Definition inert (last : N * list mode) : Prop := blen text < fst last.

  Lemma rem_le s : InvPos text s -> c_rem (s_cur s) <= blen text.
  Proof.
    intros I. destruct (ip_cur _ _ I) as (pre & E & _ & R). rewrite R.
    assert (blen text = blen pre + blen (c_rest (s_cur s))) by (rewrite E at 1; apply blen_app). lia.
  Qed.

  Lemma main_loop_params f : forall limit1 limit2 last1 last2 s det s',
    InvPos text s ->
    limit1 <= limit2 ->
    (last1 = last2 \/ inert last2) ->
    run d (main_loop F m limit1 f last1) s = Done det s' ->
    s_aborted s' = false -> s_loop_detected s' = false ->
    run d (main_loop F m limit2 f last2) s = Done det s'.
  Proof.
    induction f as [|f IH]; intros limit1 limit2 last1 last2 s det s' I Hl Hlast H Fa Fl.
    - cbn in H. discriminate.
    - cbn [main_loop] in *. rewrite run_bindP in *. unfold get, do in *. cbn [run exec] in *.
      destruct (peek (scrub s)) as [c|]; [|exact H].
      rewrite run_bindP in *. cbn [run exec] in *.
      destruct (limit1 <? s_iters s + 1) eqn:O1.
      + (* budget exhausted in the first run: it ends aborted *)
        cbn [run] in H. inversion H; subst. cbn in Fa. discriminate.
      + assert (O2 : (limit2 <? s_iters s + 1) = false).
        { apply N.ltb_ge in O1. apply N.ltb_ge. lia. }
        rewrite O2. cbn [run] in *.
        rewrite run_bindP in *.
        set (s1 := s <| s_iters := s_iters s + 1 |>) in *.
        assert (I1 : InvPos text s1) by (revert I; apply InvPos_core; repeat split; reflexivity).
        pose proof (run_InvPos d text (lex_token F m c) s1 I1) as I2.
        destruct (run d (lex_token F m c) s1) as [u s2|site s2]; [|discriminate].
        cbn [res_inv] in I2.
        rewrite run_bindP in *. cbn [run exec] in *.
        set (ns := (c_rem (s_cur s2), s_modes s2)) in *.
        destruct (d && ((fst last1 =? fst ns) && modes_eqb (snd last1) (snd ns))) eqn:Fd1.
        * (* the detector fired in the first run: its flag is set *)
          cbn [run] in H. inversion H; subst. cbn in Fl. discriminate.
        * assert (Fd2 : d && ((fst last2 =? fst ns) && modes_eqb (snd last2) (snd ns)) = false).
          { destruct Hlast as [->|Hin]; [exact Fd1|].
            unfold inert in Hin. pose proof (rem_le s2 I2) as Hr. subst ns. cbn [fst].
            destruct (N.eqb_spec (fst last2) (c_rem (s_cur s2))); [lia|]. cbn. apply andb_false_r. }
          rewrite Fd2. cbn [run] in *.
          eapply IH; [exact I2|exact Hl|left; reflexivity|exact H|exact Fa|exact Fl].
  Qed.
End MainLoop.

Lemma shift_tok_0 t : shift_tok 0 0 t = t.
Proof. destruct t. unfold shift_tok. cbn. rewrite !N.add_0_r. reflexivity. Qed.
Lemma shift_line_0 l : shift_line 0 0 l = l.
Proof. destruct l. unfold shift_line. cbn. rewrite !N.add_0_r. reflexivity. Qed.
Lemma shift_err_0 e : shift_err 0 0 e = e.
Proof. destruct e. unfold shift_err. cbn. rewrite !N.add_0_r. reflexivity. Qed.

Lemma map_id_ext {A} (f : A -> A) l : (forall x, f x = x) -> map f l = l.
Proof. intros H. induction l; cbn; congruence. Qed.

(** the run on the text with a mark in front (extent [bb], [bc]) against the run without *)
Theorem lex_text_bom cfg bb bc text :
  let r0 := lex_text cfg 0 0 text in
  let r := lex_text cfg bb bc text in
  lr_outcome r0 = None ->
  s_aborted (lr_end r0) = false -> s_loop_detected (lr_end r0) = false ->
  lr_outcome r = None /\ lr_state r = lr_state r0 /\ lr_end r = lr_end r0 /\
  b_toks (lr_buffer r) = map (shift_tok bb bc) (b_toks (lr_buffer r0)) /\
  b_lines (lr_buffer r) = map (shift_line bb bc) (b_lines (lr_buffer r0)) /\
  b_lit (lr_buffer r) = b_lit (lr_buffer r0) /\
  lr_errors r = map (shift_err bb bc) (lr_errors r0).
Proof.
  cbv zeta. unfold lex_text.
  set (n := List.length text).
  match goal with |- context [run (dbg cfg) (main_loop ?F0 ?m0 ?l1 ?f0 ?la1) (init text)] =>
    set (ml0 := main_loop F0 m0 l1 f0 la1) end.
  match goal with |- context [run (dbg cfg) (main_loop ?F0 ?m0 (8 * (blen text + bb) + 64) ?f0 ?la2) (init text)] =>
    set (ml := main_loop F0 m0 (8 * (blen text + bb) + 64) f0 la2) end.
  destruct (run (dbg cfg) ml0 (init text)) as [det s1|site s1] eqn:E0; [|cbn; discriminate].
  assert (Hrel : s_aborted s1 = false -> s_loop_detected s1 = false -> run (dbg cfg) ml (init text) = Done det s1).
  { intros Fa Fl. subst ml ml0.
    eapply (main_loop_params (dbg cfg) _ (msep cfg) text); [apply init_InvPos| | |exact E0|exact Fa|exact Fl].
    - lia.
    - destruct (N.eq_dec bb 0) as [->|NZ]; [left; reflexivity|right; unfold inert; cbn [fst]; lia]. }
  destruct det.
  - cbn [lr_outcome lr_end lr_state lr_buffer lr_errors]. intros _ Fa Fl. rewrite (Hrel Fa Fl).
    cbn [lr_outcome lr_end lr_state lr_buffer lr_errors].
    repeat split.
    + rewrite !into_detached_toks. rewrite (map_id_ext (shift_tok 0 0)) by apply shift_tok_0. reflexivity.
    + unfold into_detached. cbn [b_lines]. rewrite (map_id_ext (shift_line 0 0)) by apply shift_line_0. reflexivity.
    + rewrite (map_id_ext (shift_err 0 0)) by apply shift_err_0. reflexivity.
  - destruct (run (dbg cfg) (finalize_lexing _) s1) as [u s2|site s2] eqn:E2; [|cbn; discriminate].
    cbn [lr_outcome lr_end lr_state lr_buffer lr_errors]. intros _ Fa Fl. rewrite (Hrel Fa Fl). rewrite E2.
    cbn [lr_outcome lr_end lr_state lr_buffer lr_errors].
    repeat split.
    + rewrite !into_detached_toks. rewrite (map_id_ext (shift_tok 0 0)) by apply shift_tok_0. reflexivity.
    + unfold into_detached. cbn [b_lines]. rewrite (map_id_ext (shift_line 0 0)) by apply shift_line_0. reflexivity.
    + rewrite (map_id_ext (shift_err 0 0)) by apply shift_err_0. reflexivity.
Qed.
