(** * The reference reading does not depend on ASCII letter case (C16 on macro-free open code):
    upper-casing every ASCII letter of the text leaves token types, channels, offsets, payloads
    (numeric values and literal-buffer ranges), error kinds and offsets unchanged *)
From Coq Require Import NArith ZArith List Bool Lia.
From SasLexer Require Import Gen.TokenType Gen.ErrorKind Gen.Channel Gen.Unicode Model.Base Model.Helpers Model.Numeric Spec.RefLex.
Import ListNotations.
Open Scope N_scope.

Definition up : char -> char := to_ascii_uppercase.
Definition ups (l : list char) : list char := map up l.

Definition LOWERS : list char :=
  [97; 98; 99; 100; 101; 102; 103; 104; 105; 106; 107; 108; 109; 110; 111; 112; 113; 114; 115; 116; 117; 118; 119; 120; 121; 122].

Lemma lower_in c : is_ascii_lower c = true -> In c LOWERS.
Proof.
  unfold is_ascii_lower. intros H. apply andb_true_iff in H. destruct H as [H1 H2].
  apply N.leb_le in H1. apply N.leb_le in H2.
  assert (E : c = N.of_nat (N.to_nat c)) by (rewrite Nnat.N2Nat.id; reflexivity).
  assert (Hb : (97 <= N.to_nat c <= 122)%nat) by lia.
  rewrite E. clear E H1 H2. generalize (N.to_nat c) Hb. clear. intros n Hn.
  do 97 (destruct n as [|n]; [lia|]).
  do 26 (destruct n as [|n]; [cbn; tauto|]). lia.
Qed.

(** a function of a character that agrees on each lower-case letter and its upper-case form is invariant *)
Lemma up_inv_b (f : char -> bool) :
  forallb (fun x => Bool.eqb (f (x - 32)) (f x)) LOWERS = true -> forall c, f (up c) = f c.
Proof.
  intros H c. unfold up, to_ascii_uppercase. destruct (is_ascii_lower c) eqn:E; [|reflexivity].
  rewrite forallb_forall in H. apply eqb_prop. apply H. apply lower_in. exact E.
Qed.

Lemma up_inv_N (f : char -> N) :
  forallb (fun x => N.eqb (f (x - 32)) (f x)) LOWERS = true -> forall c, f (up c) = f c.
Proof.
  intros H c. unfold up, to_ascii_uppercase. destruct (is_ascii_lower c) eqn:E; [|reflexivity].
  rewrite forallb_forall in H. apply N.eqb_eq. apply H. apply lower_in. exact E.
Qed.

Ltac by_letters := intros; first [apply (up_inv_b (fun c => _)) | apply (up_inv_N (fun c => _))]; vm_compute; reflexivity.

Lemma up_ws c : is_whitespace (up c) = is_whitespace c.
Proof. exact (up_inv_b is_whitespace eq_refl c). Qed.
Lemma up_digit c : is_ascii_digit (up c) = is_ascii_digit c.
Proof. exact (up_inv_b is_ascii_digit eq_refl c). Qed.
Lemma up_hexdigit c : is_ascii_hexdigit (up c) = is_ascii_hexdigit c.
Proof. exact (up_inv_b is_ascii_hexdigit eq_refl c). Qed.
Lemma up_hexval c : hexdigit_val (up c) = hexdigit_val c.
Proof. exact (up_inv_N hexdigit_val eq_refl c). Qed.
Lemma up_ascii c : is_ascii (up c) = is_ascii c.
Proof. exact (up_inv_b is_ascii eq_refl c). Qed.
Lemma up_utf8 c : utf8_len (up c) = utf8_len c.
Proof. exact (up_inv_N utf8_len eq_refl c). Qed.
Lemma up_ident c : ident_char (up c) = ident_char c.
Proof. exact (up_inv_b ident_char eq_refl c). Qed.
Lemma up_ns c : is_valid_unicode_sas_name_start (up c) = is_valid_unicode_sas_name_start c.
Proof. exact (up_inv_b is_valid_unicode_sas_name_start eq_refl c). Qed.
Lemma up_xidc c : is_xid_continue (up c) = is_xid_continue c.
Proof. exact (up_inv_b is_xid_continue eq_refl c). Qed.
Lemma up_alpha c : (is_ascii_lower (up c) || is_ascii_upper (up c)) = (is_ascii_lower c || is_ascii_upper c).
Proof. exact (up_inv_b (fun c => is_ascii_lower c || is_ascii_upper c) eq_refl c). Qed.
Lemma up_lc c : lc (up c) = lc c.
Proof. exact (up_inv_N lc eq_refl c). Qed.
Lemma up_up c : up (up c) = up c.
Proof. exact (up_inv_N up eq_refl c). Qed.
Lemma up_isx c : is_x (up c) = is_x c.
Proof. exact (up_inv_b is_x eq_refl c). Qed.
Lemma up_ise c : ((up c =? c_e) || (up c =? c_E)) = ((c =? c_e) || (c =? c_E)).
Proof. exact (up_inv_b (fun c => (c =? c_e) || (c =? c_E)) eq_refl c). Qed.

(** comparison with a character that is not a letter *)
Lemma up_eqb k c : is_ascii_lower k = false -> is_ascii_upper k = false -> (up c =? k) = (c =? k).
Proof.
  intros Hl Hu. unfold up, to_ascii_uppercase. destruct (is_ascii_lower c) eqn:E; [|reflexivity].
  assert (Hl' : ~ (97 <= k <= 122)).
  { intros [X Y]. unfold is_ascii_lower in Hl. rewrite (proj2 (N.leb_le _ _) X), (proj2 (N.leb_le _ _) Y) in Hl. discriminate. }
  assert (Hu' : ~ (65 <= k <= 90)).
  { intros [X Y]. unfold is_ascii_upper in Hu. rewrite (proj2 (N.leb_le _ _) X), (proj2 (N.leb_le _ _) Y) in Hu. discriminate. }
  unfold is_ascii_lower in E.
  apply andb_true_iff in E. destruct E as [E1 E2]. apply N.leb_le in E1. apply N.leb_le in E2.
  destruct (N.eqb_spec (c - 32) k) as [A|A]; destruct (N.eqb_spec c k) as [B|B]; try reflexivity; exfalso; lia.
Qed.

(** ** lists *)
Lemma take_while_ups p (Hp : forall c, p (up c) = p c) l : take_while p (ups l) = ups (take_while p l).
Proof. induction l as [|c r IH]; [reflexivity|]. cbn [ups map take_while]. rewrite Hp. destruct (p c); [cbn [map]; f_equal; exact IH|reflexivity]. Qed.
Lemma drop_while_ups p (Hp : forall c, p (up c) = p c) l : drop_while p (ups l) = ups (drop_while p l).
Proof. induction l as [|c r IH]; [reflexivity|]. cbn [ups map drop_while]. rewrite Hp. destruct (p c); [exact IH|reflexivity]. Qed.
Lemma count_while_ups p (Hp : forall c, p (up c) = p c) l : count_while p (ups l) = count_while p l.
Proof. induction l as [|c r IH]; [reflexivity|]. cbn [ups map count_while]. rewrite Hp. destruct (p c); [fold (ups r); rewrite IH; reflexivity|reflexivity]. Qed.
Lemma forallb_ups (p : char -> bool) (Hp : forall c, p (up c) = p c) l : forallb p (ups l) = forallb p l.
Proof. induction l as [|c r IH]; [reflexivity|]. cbn [ups map forallb]. rewrite Hp. fold (ups r). rewrite IH. reflexivity. Qed.
Lemma blen_ups l : blen (ups l) = blen l.
Proof. induction l as [|c r IH]; [reflexivity|]. cbn [ups map blen]. rewrite up_utf8. fold (ups r). rewrite IH. reflexivity. Qed.
Lemma len_ups l : len (ups l) = len l.
Proof. unfold len, ups. rewrite map_length. reflexivity. Qed.
Lemma length_ups l : List.length (ups l) = List.length l.
Proof. apply map_length. Qed.
Lemma skipn_N_ups k : forall l, skipn_N k (ups l) = ups (skipn_N k l).
Proof. induction k as [|k IH]; intros [|c r]; cbn [ups map skipn_N]; try reflexivity. apply IH. Qed.
Lemma firstn_ups k l : firstn k (ups l) = ups (firstn k l).
Proof. apply firstn_map. Qed.
Lemma skipn_ups k l : skipn k (ups l) = ups (skipn k l).
Proof. apply skipn_map. Qed.
Lemma ups_app a b : ups (a ++ b) = ups a ++ ups b.
Proof. apply map_app. Qed.
Lemma ups_rev a : ups (rev a) = rev (ups a).
Proof. apply map_rev. Qed.
Lemma upper_ups l : upper (ups l) = upper l.
Proof. unfold upper, ups. rewrite map_map. apply map_ext. exact up_up. Qed.

(** digits are not letters: a run of digits is left alone *)
Lemma ups_digits l : forallb is_ascii_digit l = true -> ups l = l.
Proof.
  induction l as [|c r IH]; [reflexivity|]. cbn [forallb ups map]. intros H. apply andb_true_iff in H. destruct H as [H1 H2].
  f_equal; [|exact (IH H2)]. unfold up, to_ascii_uppercase, is_ascii_lower, is_ascii_digit in *.
  apply andb_true_iff in H1. destruct H1 as [A B]. apply N.leb_le in A. apply N.leb_le in B.
  destruct (97 <=? c) eqn:E; [apply N.leb_le in E; lia|reflexivity].
Qed.
Lemma take_while_all p l : forallb p (take_while p l) = true.
Proof. induction l as [|c r IH]; [reflexivity|]. cbn [take_while]. destruct (p c) eqn:E; [cbn [forallb]; rewrite E; exact IH|reflexivity]. Qed.

Lemma digits_val_hex_ups l : digits_val 16 hexdigit_val (ups l) = digits_val 16 hexdigit_val l.
Proof.
  unfold digits_val. generalize 0 at 1 2. induction l as [|c r IH]; intros a; [reflexivity|].
  cbn [ups map fold_left]. rewrite up_hexval. fold (ups r). apply IH.
Qed.

(** ** the auxiliary scans *)
Lemma up_fixed k : is_ascii_lower k = false -> up k = k.
Proof. intros H. unfold up, to_ascii_uppercase. rewrite H. reflexivity. Qed.

Lemma scan_quoted_ups q : is_ascii_lower q = false -> is_ascii_upper q = false ->
  forall m l n val esc, (List.length l <= m)%nat ->
  scan_quoted q (ups l) n (ups val) esc =
  let '(n', cl, v, e) := scan_quoted q l n val esc in (n', cl, ups v, e).
Proof.
  intros Hl Hu. induction m as [|m IH]; intros l n val esc Hm.
  - destruct l; [|cbn in Hm; lia]. cbn [ups map scan_quoted]. rewrite <- ups_rev. reflexivity.
  - destruct l as [|c r]; [cbn [ups map scan_quoted]; rewrite <- ups_rev; reflexivity|].
    cbn [List.length] in Hm. cbn [ups map scan_quoted]. rewrite (up_eqb q c Hl Hu). destruct (c =? q).
    + destruct r as [|c2 r2]; cbn [map]; [rewrite <- ups_rev; reflexivity|].
      rewrite (up_eqb q c2 Hl Hu). destruct (c2 =? q); [|rewrite <- ups_rev; reflexivity].
      pose proof (IH r2 (n + 2) (q :: val) true ltac:(cbn [List.length] in Hm; lia)) as H.
      cbn [ups map] in H. rewrite (up_fixed q Hl) in H. exact H.
    + exact (IH r (n + 1) (c :: val) esc ltac:(lia)).
Qed.

Lemma suffix_of_ups l : suffix_of (ups l) = suffix_of l.
Proof.
  destruct l as [|c r]; [reflexivity|]. cbn [ups map suffix_of]. unfold lower_is. rewrite up_alpha, !up_lc.
  destruct r as [|t r']; [reflexivity|]. cbn [map]. rewrite up_alpha, up_lc. reflexivity.
Qed.

Lemma find_comment_end_ups : forall l n, find_comment_end (ups l) n = find_comment_end l n.
Proof.
  induction l as [|a r IH]; intros n; [reflexivity|]. destruct r as [|b r']; [reflexivity|].
  cbn [ups map find_comment_end]. rewrite (up_eqb c_star a eq_refl eq_refl), (up_eqb c_slash b eq_refl eq_refl).
  destruct ((a =? c_star) && (b =? c_slash)); [reflexivity|]. exact (IH (n + 1)).
Qed.

Lemma find_semi_ups : forall l n, find_semi (ups l) n = find_semi l n.
Proof.
  induction l as [|c r IH]; intros n; [reflexivity|]. cbn [ups map find_semi]. rewrite (up_eqb c_semi c eq_refl eq_refl).
  destruct (c =? c_semi); [reflexivity|apply IH].
Qed.

Lemma starts_semis_ups k : forall l, starts_semis k (ups l) = starts_semis k l.
Proof.
  induction k as [|k IH]; intros l; [reflexivity|]. destruct l as [|c r]; [reflexivity|].
  cbn [ups map starts_semis]. rewrite (up_eqb c_semi c eq_refl eq_refl). fold (ups r). rewrite IH. reflexivity.
Qed.

Lemma count_semis_upto_ups k : forall l, count_semis_upto k (ups l) = count_semis_upto k l.
Proof.
  induction k as [|k IH]; intros l; [destruct l; reflexivity|]. destruct l as [|c r]; [reflexivity|].
  cbn [ups map count_semis_upto]. rewrite (up_eqb c_semi c eq_refl eq_refl). fold (ups r). rewrite IH. reflexivity.
Qed.

Lemma datalines_data_ups tlen : forall l n, datalines_data (ups l) n tlen = datalines_data l n tlen.
Proof.
  induction l as [|c r IH]; intros n; [reflexivity|]. cbn [datalines_data]. change (ups (c :: r)) with (up c :: ups r).
  cbn [datalines_data]. rewrite (up_eqb c_semi c eq_refl eq_refl).
  change (up c :: ups r) with (ups (c :: r)). rewrite blen_ups, starts_semis_ups. rewrite !IH. reflexivity.
Qed.

Lemma ws_then_semi_ups : forall l n, ws_then_semi (ups l) n = ws_then_semi l n.
Proof.
  induction l as [|c r IH]; intros n; [reflexivity|]. cbn [ups map ws_then_semi]. rewrite (up_eqb c_semi c eq_refl eq_refl), up_ws.
  destruct (c =? c_semi); [reflexivity|]. destruct (is_whitespace c); [apply IH|reflexivity].
Qed.

Lemma charformat_len_ups l : charformat_len (ups l) = charformat_len l.
Proof.
  unfold charformat_len. destruct l as [|c r].
  - cbn [ups map]. reflexivity.
  - cbn [ups map]. rewrite up_ns. fold (ups r). rewrite (count_while_ups _ up_xidc), (drop_while_ups _ up_xidc).
    destruct (is_valid_unicode_sas_name_start c).
    + rewrite (count_while_ups _ up_digit), (drop_while_ups _ up_digit).
      destruct (drop_while is_ascii_digit (drop_while is_xid_continue r)) as [|x q]; [reflexivity|].
      cbn [ups map]. rewrite (up_eqb c_dot x eq_refl eq_refl). fold (ups q). rewrite (count_while_ups _ up_digit). reflexivity.
    + change (up c :: ups r) with (ups (c :: r)). rewrite (count_while_ups _ up_digit), (drop_while_ups _ up_digit).
      destruct (drop_while is_ascii_digit (c :: r)) as [|x q]; [reflexivity|].
      cbn [ups map]. rewrite (up_eqb c_dot x eq_refl eq_refl). fold (ups q). rewrite (count_while_ups _ up_digit). reflexivity.
Qed.

(** ** numeric readings *)
Lemma tw_digits_ups l : take_while is_ascii_digit (ups l) = take_while is_ascii_digit l.
Proof. rewrite (take_while_ups _ up_digit). apply ups_digits. apply take_while_all. Qed.

Lemma try_parse_integer_ups l : try_parse_integer (ups l) = try_parse_integer l.
Proof. unfold try_parse_integer. rewrite tw_digits_ups. reflexivity. Qed.

Definition exp_tail (plain : Z -> N -> TokenType -> option numres) (mant_len : N) (r2 : list char) : option numres :=
  match r2 with
  | c :: r =>
    if (c =? c_e) || (c =? c_E) then
      let '(esign, slen, r3) :=
          match r with
          | x :: q => if x =? c_plus then (1%Z, 1, q) else if x =? c_minus then ((-1)%Z, 1, q) else (1%Z, 0, r)
          | [] => (1%Z, 0, r)
          end in
      let eds := take_while is_ascii_digit r3 in
      match eds with
      | [] => Some (mkNum T_FloatLiteral (PFloat 0) (mant_len + 1 + slen) (Some E_InvalidNumericLiteral))
      | _ => plain (esign * exp_val eds)%Z (1 + slen + len eds) T_FloatExponentLiteral
      end
    else plain 0%Z 0 T_FloatLiteral
  | [] => plain 0%Z 0 T_FloatLiteral
  end.

Lemma exp_tail_ups plain m r2 : exp_tail plain m (ups r2) = exp_tail plain m r2.
Proof.
  destruct r2 as [|c r]; [reflexivity|]. cbn [ups map exp_tail]. rewrite up_ise. destruct ((c =? c_e) || (c =? c_E)); [|reflexivity].
  destruct r as [|x q]; cbn [map]; [reflexivity|].
  rewrite (up_eqb c_plus x eq_refl eq_refl), (up_eqb c_minus x eq_refl eq_refl).
  destruct (x =? c_plus); [fold (ups q); rewrite tw_digits_ups; reflexivity|].
  destruct (x =? c_minus); [fold (ups q); rewrite tw_digits_ups; reflexivity|].
  change (up x :: map up q) with (ups (x :: q)). rewrite tw_digits_ups. reflexivity.
Qed.

Definition float_core (neg : bool) (l : list char) : option numres :=
  let ip := take_while is_ascii_digit l in
  let r1 := drop_while is_ascii_digit l in
  let '(has_dot, fp, r2) :=
      match r1 with
      | c :: r => if c =? c_dot then (true, take_while is_ascii_digit r, drop_while is_ascii_digit r) else (false, [], r1)
      | [] => (false, [], r1)
      end in
  match ip, fp with
  | [], [] => None
  | _, _ =>
    let mant_len := (if neg then 1 else 0) + len ip + (if has_dot then 1 + len fp else 0) in
    let m := digits_val 10 digit_val (ip ++ fp) in
    let nd := len (drop_while (fun c => c =? 48) (ip ++ fp)) in
    let sign := if neg then SIGN_BIT else 0 in
    let plain e10 extra_len ty :=
        Some (mkNum ty (PFloat (sign + dec_to_b64 m nd (e10 - Z.of_N (len fp)))) (mant_len + extra_len) None) in
    exp_tail plain mant_len r2
  end.

Lemma try_parse_float_core l0 :
  try_parse_float l0 =
  let '(neg, l) := match l0 with c :: r => if c =? c_minus then (true, r) else (false, l0) | [] => (false, l0) end in float_core neg l.
Proof. reflexivity. Qed.

Lemma float_core_ups neg l : float_core neg (ups l) = float_core neg l.
Proof.
  unfold float_core. rewrite tw_digits_ups, (drop_while_ups _ up_digit).
  destruct (drop_while is_ascii_digit l) as [|c r].
  - cbn [ups map]. destruct (take_while is_ascii_digit l); [reflexivity|]. apply (exp_tail_ups _ _ []).
  - cbn [ups map]. rewrite (up_eqb c_dot c eq_refl eq_refl). destruct (c =? c_dot).
    + fold (ups r). rewrite tw_digits_ups, (drop_while_ups _ up_digit).
      destruct (take_while is_ascii_digit l), (take_while is_ascii_digit r); try reflexivity; apply exp_tail_ups.
    + change (up c :: map up r) with (ups (c :: r)).
      destruct (take_while is_ascii_digit l); [reflexivity|]. apply exp_tail_ups.
Qed.

Lemma try_parse_float_ups l0 : try_parse_float (ups l0) = try_parse_float l0.
Proof.
  rewrite !try_parse_float_core. destruct l0 as [|c r]; [reflexivity|]. cbn [ups map].
  rewrite (up_eqb c_minus c eq_refl eq_refl). destruct (c =? c_minus).
  - fold (ups r). apply float_core_ups.
  - change (up c :: map up r) with (ups (c :: r)). apply float_core_ups.
Qed.

Lemma try_parse_decimal_ups l a b : try_parse_decimal (ups l) a b = try_parse_decimal l a b.
Proof. unfold try_parse_decimal. rewrite try_parse_integer_ups, try_parse_float_ups. reflexivity. Qed.

Lemma tw_hex_ups l : take_while is_ascii_hexdigit (ups l) = ups (take_while is_ascii_hexdigit l).
Proof. apply take_while_ups. exact up_hexdigit. Qed.

Lemma try_parse_hex_integer_ups l : try_parse_hex_integer (ups l) = try_parse_hex_integer l.
Proof.
  unfold try_parse_hex_integer. rewrite tw_hex_ups.
  destruct (take_while is_ascii_hexdigit l) as [|d ds] eqn:Ed; [reflexivity|].
  change (ups (d :: ds)) with (up d :: ups ds). cbv iota. change (up d :: ups ds) with (ups (d :: ds)).
  rewrite digits_val_hex_ups, len_ups.
  destruct (digits_val 16 hexdigit_val (d :: ds) <=? U64_MAX); [reflexivity|].
  cbv zeta. rewrite (drop_while_ups _ up_hexdigit).
  destruct (drop_while is_ascii_hexdigit l) as [|c r].
  - change (ups []) with (@nil char). cbv iota beta. rewrite !app_nil_r, digits_val_hex_ups. reflexivity.
  - change (ups (c :: r)) with (up c :: ups r). cbv iota beta. rewrite (up_eqb c_dot c eq_refl eq_refl). destruct (c =? c_dot).
    + rewrite tw_hex_ups, len_ups. rewrite <- ups_app, digits_val_hex_ups. reflexivity.
    + rewrite !app_nil_r, digits_val_hex_ups. reflexivity.
Qed.

Lemma hd_isx_ups {A} (g : A) (h : bool -> A) x :
  match ups x with c :: _ => h (is_x c) | [] => g end = match x with c :: _ => h (is_x c) | [] => g end.
Proof. destruct x as [|c r]; [reflexivity|]. cbn [ups map]. rewrite up_isx. reflexivity. Qed.

Lemma numeric_literal_ups l : numeric_literal (ups l) = numeric_literal l.
Proof.
  unfold numeric_literal.
  assert (Esd : match ups l with c :: _ => c =? c_dot | [] => false end = match l with c :: _ => c =? c_dot | [] => false end).
  { destruct l as [|c r]; [reflexivity|]. cbn [ups map]. apply (up_eqb c_dot c eq_refl eq_refl). }
  rewrite Esd. cbv zeta. rewrite try_parse_hex_integer_ups, try_parse_decimal_ups, tw_digits_ups.
  destruct (try_parse_decimal l _ true) as [dr|]; destruct (if match l with c :: _ => c =? c_dot | [] => false end then None else try_parse_hex_integer l) as [hr|];
    rewrite ?skipn_N_ups, ?len_ups;
    repeat rewrite (hd_isx_ups _ (fun b => b));
    try reflexivity.
  destruct (n_len hr <? n_len dr); [reflexivity|]. destruct (n_len dr <? n_len hr); [reflexivity|].
  rewrite (hd_isx_ups _ (fun b : bool => if b then _ else _)). reflexivity.
Qed.

Lemma filter_ups (p : char -> bool) (Hp : forall c, p (up c) = p c) l : filter p (ups l) = ups (filter p l).
Proof. induction l as [|c r IH]; [reflexivity|]. cbn [ups map filter]. rewrite Hp. destruct (p c); [cbn [map]; f_equal; exact IH|exact IH]. Qed.

Lemma hex_pairs_ups : forall m l, (List.length l <= m)%nat -> hex_pairs (ups l) = hex_pairs l.
Proof.
  induction m as [|m IH]; intros l Hm; [destruct l; [reflexivity|cbn in Hm; lia]|].
  destruct l as [|a [|b r]]; [reflexivity|reflexivity|]. cbn [ups map hex_pairs]. rewrite !up_hexdigit, !up_hexval.
  fold (ups r). rewrite (IH r ltac:(cbn [List.length] in Hm; lia)). reflexivity.
Qed.

Lemma parse_sas_hex_string_ups t : parse_sas_hex_string (ups t) = parse_sas_hex_string t.
Proof.
  unfold parse_sas_hex_string. destruct t as [|q r]; [reflexivity|]. cbn [ups map]. fold (ups r).
  rewrite length_ups. destruct (Nat.ltb (List.length r) 2); [reflexivity|]. cbv zeta.
  rewrite up_ascii, skipn_ups, (forallb_ups _ up_ascii).
  destruct (negb (is_ascii q) || negb (forallb is_ascii (skipn (List.length r - 2) r))); [reflexivity|].
  rewrite firstn_ups, (filter_ups (fun c => negb (c =? c_comma))).
  - rewrite (hex_pairs_ups _ _ (le_n _)). reflexivity.
  - intros c. rewrite (up_eqb c_comma c eq_refl eq_refl). reflexivity.
Qed.

(** ** one lexeme *)
Definition st_obs (s : rstate) := (rs_pending s, rs_prev s, rs_litlen s).
Definition lx_obs (x : list rtok * list rerr * N * rstate) :=
  let '(ts, es, n, st') := x in (ts, es, n, st_obs st').

Lemma enc_len_ups v : len (utf8_encode_all (ups v)) = len (utf8_encode_all v).
Proof.
  unfold utf8_encode_all, len. induction v as [|c r IH]; [reflexivity|]. cbn [ups map flat_map]. rewrite !app_length.
  fold (ups r).
  assert (E : List.length (utf8_encode (up c)) = List.length (utf8_encode c)).
  { apply Nnat.Nat2N.inj. exact (up_inv_N (fun c => N.of_nat (List.length (utf8_encode c))) eq_refl c). }
  rewrite E. apply Nnat.Nat2N.inj in IH. rewrite IH. reflexivity.
Qed.

Lemma push_lit_obs st1 st2 v : st_obs st1 = st_obs st2 ->
  st_obs (fst (push_lit st1 (ups v))) = st_obs (fst (push_lit st2 v)) /\ snd (push_lit st1 (ups v)) = snd (push_lit st2 v).
Proof.
  unfold st_obs, push_lit. intros H. cbn [fst snd rs_pending rs_prev rs_litlen]. rewrite enc_len_ups.
  injection H as H1 H2 H3. rewrite H1, H2, H3. split; reflexivity.
Qed.

Lemma c2_ups r : match ups r return N with x :: _ => x | [] => 0 end = up (match r return N with x :: _ => x | [] => 0 end).
Proof. destruct r; reflexivity. Qed.

Lemma lexeme_ups l pos st1 st2 : st_obs st1 = st_obs st2 ->
  lx_obs (lexeme (ups l) pos st1) = lx_obs (lexeme l pos st2).
Proof.
  intros Hobs. unfold lexeme. destruct l as [|c r].
  { cbn [ups map lx_obs]. rewrite Hobs. reflexivity. }
  change (ups (c :: r)) with (up c :: ups r). cbv beta iota zeta.
  rewrite (c2_ups r). remember (match r return N with x :: _ => x | [] => 0 end) as c2 eqn:Ec2.
  change (up c :: ups r) with (ups (c :: r)).
  assert (Hp : rs_pending st1 = rs_pending st2) by (injection Hobs; auto).
  assert (Hv : rs_prev st1 = rs_prev st2) by (injection Hobs; auto).
  assert (Hll : rs_litlen st1 = rs_litlen st2) by (injection Hobs; auto).
  assert (Hset : forall p ty, st_obs (mkRstate p (Some ty) (rs_lit st1) (rs_litlen st1)) = st_obs (mkRstate p (Some ty) (rs_lit st2) (rs_litlen st2)))
    by (intros; unfold st_obs; cbn [rs_pending rs_prev rs_litlen]; rewrite Hll; reflexivity).
  rewrite up_ws. destruct (is_whitespace c).
  { cbn [lx_obs]. rewrite (count_while_ups _ up_ws), Hobs. reflexivity. }
  rewrite (up_eqb c_squote c eq_refl eq_refl), (up_eqb c_dquote c eq_refl eq_refl).
  destruct ((c =? c_squote) || (c =? c_dquote)) eqn:Eq.
  { assert (Hq : is_ascii_lower c = false /\ is_ascii_upper c = false /\ up c = c).
    { apply orb_true_iff in Eq. destruct Eq as [E|E]; apply N.eqb_eq in E; subst c; repeat split; reflexivity. }
    destruct Hq as (Ql & Qu & Qf). rewrite Qf.
    pose proof (scan_quoted_ups c Ql Qu (List.length r) r 1 [] false (le_n _)) as Hs. change (ups []) with (@nil char) in Hs.
    rewrite Hs. destruct (scan_quoted c r 1 [] false) as [[[n closed] val] esc].
    rewrite ?firstn_ups, ?blen_ups, ?skipn_N_ups, ?suffix_of_ups.
    destruct (push_lit_obs st1 st2 val Hobs) as [PA PB].
    destruct (negb closed).
    - destruct esc.
      + destruct (push_lit st1 (ups val)) as [s1 p1]; destruct (push_lit st2 val) as [s2 p2]. cbn [fst snd] in PA, PB. subst p2.
        cbn [lx_obs]. unfold st_obs in *. cbn [rs_pending rs_prev rs_litlen] in *. injection PA as _ _ PA3. rewrite PA3. reflexivity.
      + cbn [lx_obs]. rewrite Hset. reflexivity.
    - destruct (suffix_of (skipn_N (N.to_nat n) (c :: r))) as [ty extra].
      rewrite ?firstn_ups, ?blen_ups.
      destruct (tt_eqb ty T_HexStringLiteral).
      + rewrite parse_sas_hex_string_ups. destruct (parse_sas_hex_string (firstn (N.to_nat (n + extra)) (c :: r))) as [v|e].
        * (* the decoded bytes are pushed: same on both sides *)
          assert (PV : st_obs (fst (push_lit st1 v)) = st_obs (fst (push_lit st2 v)) /\ snd (push_lit st1 v) = snd (push_lit st2 v)).
          { unfold st_obs, push_lit. cbn [fst snd rs_pending rs_prev rs_litlen]. rewrite Hp, Hv, Hll. split; reflexivity. }
          destruct PV as [V1 V2]. destruct (push_lit st1 v) as [s1 p1]; destruct (push_lit st2 v) as [s2 p2]. cbn [fst snd] in V1, V2. subst p2.
          cbn [lx_obs]. unfold st_obs in *. cbn [rs_pending rs_prev rs_litlen] in *. injection V1 as _ _ V3. rewrite V3. reflexivity.
        * destruct esc.
          -- destruct (push_lit st1 (ups val)) as [s1 p1]; destruct (push_lit st2 val) as [s2 p2]. cbn [fst snd] in PA, PB. subst p2.
             cbn [lx_obs]. unfold st_obs in *. cbn [rs_pending rs_prev rs_litlen] in *. injection PA as _ _ PA3. rewrite PA3. reflexivity.
          -- cbn [lx_obs]. rewrite Hset. reflexivity.
      + destruct esc.
        * destruct (push_lit st1 (ups val)) as [s1 p1]; destruct (push_lit st2 val) as [s2 p2]. cbn [fst snd] in PA, PB. subst p2.
          cbn [lx_obs]. unfold st_obs in *. cbn [rs_pending rs_prev rs_litlen] in *. injection PA as _ _ PA3. rewrite PA3. reflexivity.
        * cbn [lx_obs]. rewrite Hset. reflexivity. }
  assert (One : forall ty, lx_obs ([mkRtok ty CH_DEFAULT pos PNone], [], 1, mkRstate true (Some ty) (rs_lit st1) (rs_litlen st1)) =
                        lx_obs ([mkRtok ty CH_DEFAULT pos PNone], [], 1, mkRstate true (Some ty) (rs_lit st2) (rs_litlen st2)))
    by (intros; cbn [lx_obs]; rewrite Hset; reflexivity).
  assert (Two : forall ty, lx_obs ([mkRtok ty CH_DEFAULT pos PNone], [], 2, mkRstate true (Some ty) (rs_lit st1) (rs_litlen st1)) =
                        lx_obs ([mkRtok ty CH_DEFAULT pos PNone], [], 2, mkRstate true (Some ty) (rs_lit st2) (rs_litlen st2)))
    by (intros; cbn [lx_obs]; rewrite Hset; reflexivity).
  rewrite (up_eqb c_semi c eq_refl eq_refl). destruct (c =? c_semi); [cbn [lx_obs]; rewrite Hset; reflexivity|].
  rewrite (up_eqb c_slash c eq_refl eq_refl). destruct (c =? c_slash).
  { rewrite (up_eqb c_star c2 eq_refl eq_refl). destruct (c2 =? c_star); [|apply One].
    rewrite skipn_N_ups, find_comment_end_ups, blen_ups, len_ups.
    destruct (find_comment_end (skipn_N 2 (c :: r)) 2); cbn [lx_obs]; rewrite Hobs; reflexivity. }
  rewrite (up_eqb c_amp c eq_refl eq_refl). destruct (c =? c_amp).
  { cbn [lx_obs]. rewrite Hset. rewrite (count_while_ups (fun x => x =? c_amp)); [reflexivity|].
    intros x. apply (up_eqb c_amp x eq_refl eq_refl). }
  rewrite (up_eqb c_pct c eq_refl eq_refl). destruct (c =? c_pct); [apply One|].
  rewrite up_digit, (up_eqb c_dot c eq_refl eq_refl), up_digit.
  destruct (is_ascii_digit c || (c =? c_dot) && is_ascii_digit c2).
  { rewrite numeric_literal_ups. destruct (numeric_literal (c :: r)) as [[[ty pl] n] errs].
    rewrite firstn_ups, blen_ups. cbn [lx_obs]. rewrite Hset. reflexivity. }
  rewrite up_ns. destruct (is_valid_unicode_sas_name_start c).
  { rewrite (take_while_ups _ up_ident), len_ups, (forallb_ups _ up_ascii), blen_ups, upper_ups.
    destruct (negb (forallb is_ascii (take_while ident_char (c :: r))) || (MAX_KEYWORDS_LEN <? blen (take_while ident_char (c :: r))));
      [cbn [lx_obs]; rewrite Hset; reflexivity|].
    destruct (parse_keyword (upper (take_while ident_char (c :: r)))); [cbn [lx_obs]; rewrite Hset; reflexivity|].
    destruct (assoc_chars (upper (take_while ident_char (c :: r))) DATALINES_WORDS) as [four|]; [|cbn [lx_obs]; rewrite Hset; reflexivity].
    rewrite Hv, skipn_N_ups, ws_then_semi_ups.
    destruct (if match rs_prev st2 with Some p => tt_eqb p T_SEMI | None => true end
              then ws_then_semi (skipn_N (N.to_nat (len (take_while ident_char (c :: r)))) (c :: r)) 0 else None) as [k|];
      [|cbn [lx_obs]; rewrite Hset; reflexivity].
    rewrite skipn_N_ups, datalines_data_ups.
    destruct (datalines_data _ 0 (if four then 4%nat else 1%nat)) as [dn found].
    rewrite ?skipn_N_ups, ?firstn_ups, ?blen_ups, ?count_semis_upto_ups.
    cbn [lx_obs]. rewrite (Hset false T_SEMI). reflexivity. }
  rewrite (up_eqb c_star c eq_refl eq_refl). destruct (c =? c_star).
  { rewrite Hp. destruct (rs_pending st2).
    - rewrite (up_eqb c_star c2 eq_refl eq_refl). destruct (c2 =? c_star); [apply Two|apply One].
    - rewrite find_semi_ups. cbn [lx_obs]. rewrite Hobs. reflexivity. }
  repeat match goal with
         | |- context [up ?x =? ?k] => rewrite (up_eqb k x eq_refl eq_refl)
         end.
  rewrite charformat_len_ups.
  assert (Hsym : sym1 (up c) = sym1 c).
  { unfold sym1. repeat match goal with |- context [up ?x =? ?k] => rewrite (up_eqb k x eq_refl eq_refl) end. reflexivity. }
  rewrite Hsym.
  repeat match goal with
         | |- context [if ?b then _ else _] => destruct b
         | |- context [match charformat_len ?x with _ => _ end] => destruct (charformat_len x)
         | |- context [match sym1 ?x with _ => _ end] => destruct (sym1 x)
         end; try apply One; try apply Two; cbn [lx_obs]; rewrite ?Hset; try reflexivity.
  unfold st_obs. cbn [rs_pending rs_prev rs_litlen]. rewrite Hv, Hll. reflexivity.
Qed.

(** ** the whole reading *)
Lemma reflex_loop_ups : forall fuel l pos st1 st2 toks errs, st_obs st1 = st_obs st2 ->
  let '(T1, E1, s1) := reflex_loop fuel (ups l) pos st1 toks errs in
  let '(T2, E2, s2) := reflex_loop fuel l pos st2 toks errs in
  T1 = T2 /\ E1 = E2 /\ st_obs s1 = st_obs s2.
Proof.
  induction fuel as [|f IH]; intros l pos st1 st2 toks errs Hobs; cbn [reflex_loop].
  - auto.
  - destruct l as [|c r]; [cbn [ups map]; auto|].
    change (ups (c :: r)) with (up c :: ups r). cbv iota. change (up c :: ups r) with (ups (c :: r)).
    pose proof (lexeme_ups (c :: r) pos st1 st2 Hobs) as Hl.
    destruct (lexeme (ups (c :: r)) pos st1) as [[[ts1 es1] n1] s1']. destruct (lexeme (c :: r) pos st2) as [[[ts2 es2] n2] s2'].
    cbn [lx_obs] in Hl. injection Hl as Ht He Hn Hs1 Hs2 Hs3. subst ts2 es2 n2.
    rewrite skipn_N_ups, firstn_ups, blen_ups.
    apply IH. unfold st_obs. rewrite Hs1, Hs2, Hs3. reflexivity.
Qed.

Lemma macro_free_ups : forall l, macro_free (ups l) = macro_free l.
Proof.
  induction l as [|c r IH]; [reflexivity|]. cbn [ups map macro_free]. fold (ups r).
  rewrite (up_eqb c_pct c eq_refl eq_refl), (up_eqb c_amp c eq_refl eq_refl), IH.
  rewrite (drop_while_ups (fun x => x =? c_amp)) by (intros x; apply (up_eqb c_amp x eq_refl eq_refl)).
  f_equal. destruct (c =? c_pct).
  - destruct r as [|x q]; [reflexivity|]. cbn [ups map]. rewrite (up_eqb c_star x eq_refl eq_refl), up_ns. reflexivity.
  - destruct (c =? c_amp); [|reflexivity].
    destruct (drop_while (fun x => x =? c_amp) r) as [|x q]; [reflexivity|]. cbn [ups map]. rewrite up_ns. reflexivity.
Qed.

(** the reading of the upper-cased text: same tokens (type, channel, offset, payload), same errors *)
Theorem reflex_ups (src : list char) :
  let '(T1, E1, _) := reflex (ups src) in
  let '(T2, E2, _) := reflex src in T1 = T2 /\ E1 = E2.
Proof.
  unfold reflex.
  assert (Hsplit : (match ups src with c :: r => if c =? 65279 then (utf8_len c, r) else (0, ups src) | [] => (0, ups src) end) =
                   (let '(bb, text) := match src with c :: r => if c =? 65279 then (utf8_len c, r) else (0, src) | [] => (0, src) end in (bb, ups text))).
  { destruct src as [|c r]; [reflexivity|]. cbn [ups map]. rewrite (up_eqb 65279 c eq_refl eq_refl), up_utf8.
    destruct (c =? 65279); reflexivity. }
  rewrite Hsplit.
  destruct (match src with c :: r => if c =? 65279 then (utf8_len c, r) else (0, src) | [] => (0, src) end) as [bb text].
  rewrite length_ups.
  pose proof (reflex_loop_ups (S (List.length text)) text bb (mkRstate false None [] 0) (mkRstate false None [] 0) [] [] eq_refl) as H.
  destruct (reflex_loop (S (List.length text)) (ups text) bb _ [] []) as [[T1 E1] s1].
  destruct (reflex_loop (S (List.length text)) text bb _ [] []) as [[T2 E2] s2].
  destruct H as (H1 & H2 & _). split; assumption.
Qed.

(** two texts that differ only in the case of ASCII letters read alike *)
Corollary reflex_case_insensitive (a b : list char) : ups a = ups b ->
  let '(T1, E1, _) := reflex a in
  let '(T2, E2, _) := reflex b in T1 = T2 /\ E1 = E2.
Proof.
  intros H. pose proof (reflex_ups a) as Ha. pose proof (reflex_ups b) as Hb. rewrite H in Ha.
  destruct (reflex (ups b)) as [[T0 E0] l0]. destruct (reflex a) as [[T1 E1] l1]. destruct (reflex b) as [[T2 E2] l2].
  destruct Ha as [A1 A2]. destruct Hb as [B1 B2]. split; congruence.
Qed.
