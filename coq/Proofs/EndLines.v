(** * End lines and end columns of tokens (C04), as the accessors of the returned buffer report them.
    The end position of a token is the position just past its last character; when that character
    is a line feed, the accessors report the line feed's own line and the column just past it
    (the reading fixed by the crate's tests, DESIGN.md section 7, C04).  An empty token ends where
    it starts. *)
From Coq Require Import NArith ZArith List Bool Lia.
From RecordUpdate Require Import RecordSet.
From SasLexer Require Import Gen.TokenType Gen.ErrorKind Gen.Channel Model.Base Model.Core Model.Buffer
     Model.Lexer3 Proofs.BufferProofs Proofs.Generic Proofs.LexGeneric Proofs.Lines Proofs.LexLines Proofs.TokLines Proofs.ErrLines Proofs.ColLines.
Import ListNotations RecordSetNotations.
Open Scope N_scope.

(** the specification: [pe] = the text before the end of the token *)
Definition end_pos (pe : list char) (nonempty : bool) : N * N :=
  match rev pe with
  | x :: rp => if nonempty && (x =? NL) then (count_nl pe, col_of (rev rp) 0 + 1) else (1 + count_nl pe, col_of pe 0)
  | [] => (1, 0)
  end.

Lemma count_nl_snoc x : forall p, count_nl (p ++ [x]) = count_nl p + (if x =? NL then 1 else 0).
Proof. induction p as [|y p IH]; cbn [app count_nl]; [lia|]. rewrite IH. lia. Qed.

(** the byte at which the last line of the table starts is inside the text read so far *)
Lemma last_table_byte_le : forall p, l_byte (last (table line0 p) line0) <= blen p.
Proof.
  induction p as [|x p IH] using rev_ind; [cbn; lia|].
  rewrite table_snoc, blen_snoc. destruct (x =? NL).
  - rewrite last_snoc. cbn [l_byte]. lia.
  - rewrite app_nil_r. lia.
Qed.

(** the accessors on a buffer in which token [i] is followed by token [i + 1] *)
Section Acc.
  Variable d : bool.
  Variable b : tbuf.
  Variables (i : N) (t nt : tok).
  Hypothesis Hi : nthN (b_toks b) i = Some t.
  Hypothesis Hn : nthN (b_toks b) (i + 1) = Some nt.

  Lemma acc_lt : i + 1 < n_toks b.
  Proof. exact (nthN_lt _ _ _ Hn). Qed.

  Lemma acc_idx {A} (k : ares A) : idx_assert d b i k = k.
  Proof.
    unfold idx_assert. pose proof acc_lt as H.
    replace (i <? n_toks b) with true by (symmetry; apply N.ltb_lt; lia). rewrite andb_false_r. reflexivity.
  Qed.

  Lemma acc_start_byte : get_token_start_byte_offset d b i = AOk (t_byte t).
  Proof. unfold get_token_start_byte_offset. rewrite acc_idx. unfold get_tok. rewrite Hi. reflexivity. Qed.

  Lemma acc_end_byte : get_token_end_byte_offset d b i = AOk (t_byte nt).
  Proof.
    unfold get_token_end_byte_offset. rewrite acc_idx. pose proof acc_lt as H.
    replace (i + 1 <? n_toks b) with true by (symmetry; apply N.ltb_lt; exact H). unfold get_tok. rewrite Hn. reflexivity.
  Qed.

  Lemma acc_end : get_token_end d b i = AOk (t_start nt).
  Proof.
    unfold get_token_end. rewrite acc_idx. pose proof acc_lt as H.
    replace (i + 1 <? n_toks b) with true by (symmetry; apply N.ltb_lt; exact H). unfold get_tok. rewrite Hn. reflexivity.
  Qed.

  Lemma acc_end_line li : nthN (b_lines b) (t_line nt) = Some li ->
    get_token_end_line d b i = AOk (t_line nt + (if (l_byte li <? t_byte nt) || (t_byte t =? t_byte nt) then 1 else 0)).
  Proof.
    intros Hl. unfold get_token_end_line. rewrite acc_idx. pose proof acc_lt as H.
    replace (n_toks b =? 0) with false by (symmetry; apply N.eqb_neq; lia).
    replace (i =? n_toks b - 1) with false by (symmetry; apply N.eqb_neq; lia).
    rewrite Hn, Hl, acc_start_byte, acc_end_byte. reflexivity.
  Qed.
End Acc.

Theorem lex_token_end_position cfg src :
  let r := lex cfg src in
  let '((bb, _), text) := split_bom src in
  lr_outcome r = None ->
  g_lines_ok (s_ghost (lr_state r)) = true ->
  g_line_debt (s_ghost (lr_state r)) = false ->
  c_rest (s_cur (lr_state r)) = [] ->
  match w_toks (s_buf (lr_state r)) with t :: _ => tt_eqb (t_type t) T_EOF | [] => false end = true ->
  forall d i t nt, nthN (b_toks (lr_buffer r)) i = Some t -> nthN (b_toks (lr_buffer r)) (i + 1) = Some nt ->
  t_byte t <= t_byte nt ->
  forall pe re, text = pe ++ re -> blen pe + bb = t_byte nt ->
    let ep := end_pos pe (negb (t_byte t =? t_byte nt)) in
    get_token_end_line d (lr_buffer r) i = AOk (fst ep) /\ get_token_end_column d (lr_buffer r) i = AOk (snd ep).
Proof.
  cbv zeta. unfold lex. destruct (split_bom src) as [[bb bc] text] eqn:Es.
  intros Ho Ok Debt Rest Heof d i t nt Hi Hn Hle pe re E B.
  destruct (lex_text_buffer_errors cfg bb bc text) as [Hb _]. rewrite Hb in *.
  set (s2 := lr_state (lex_text cfg bb bc text)) in *.
  pose proof (lex_text_state_InvPos cfg bb bc text) as I. fold s2 in I.
  destruct (lex_text_state_LInv cfg bb bc text Ho Ok) as (L1 & L2 & _). fold s2 in L1, L2.
  pose proof (lex_text_state_TLInv cfg bb bc text Ho Ok) as (T1 & _). fold s2 in T1.
  specialize (L2 text). rewrite Rest, app_nil_r in L2. specialize (L2 eq_refl). rewrite Debt in L2.
  assert (Htoks : b_toks (into_detached bb bc s2) = map (shift_tok bb bc) (rev (w_toks (s_buf s2)))).
  { unfold into_detached. cbn [b_toks]. rewrite Heof. reflexivity. }
  assert (Hlines : b_lines (into_detached bb bc s2) = map (shift_line bb bc) (table line0 text)).
  { unfold into_detached. cbn [b_lines]. destruct (w_lines (s_buf s2)) as [|l ls] eqn:El; [cbn in L2; discriminate|]. rewrite L2. reflexivity. }
  set (buf := into_detached bb bc s2) in *.
  (* the two tokens *)
  pose proof Hi as Hi'. pose proof Hn as Hn'. rewrite Htoks in Hi', Hn'.
  destruct (nthN_map _ _ _ _ Hi') as (t0 & Hi0 & Et). destruct (nthN_map _ _ _ _ Hn') as (n0 & Hn0 & En).
  pose proof (nthN_In _ _ _ Hi0) as Hin. apply in_rev in Hin.
  pose proof (nthN_In _ _ _ Hn0) as Hnn. apply in_rev in Hnn.
  pose proof (proj1 (Forall_forall _ _) (ip_toks _ _ I) t0 Hin) as (p & q & Ep & Bp & Cp).
  pose proof (proj1 (Forall_forall _ _) (ip_toks _ _ I) n0 Hnn) as (p' & q' & Ep' & Bp' & Cp').
  pose proof (proj1 (Forall_forall _ _) T1 n0 Hnn) as Lt. unfold tok_ok, LineAt in Lt.
  assert (Hbt : t_byte t = blen p + bb) by (rewrite Et; cbn [shift_tok t_byte]; lia).
  assert (Hbn : t_byte nt = blen p' + bb) by (rewrite En; cbn [shift_tok t_byte]; lia).
  assert (pe = p') by (apply (blen_prefix_unique pe p' re q'); [rewrite <- E, <- Ep'; reflexivity|lia]). subst p'.
  specialize (Lt pe q' Ep' Bp').
  assert (Hln : t_line nt = count_nl pe) by (rewrite En; cbn [shift_tok t_line]; exact Lt).
  assert (Hsn : t_start nt = len pe + bc) by (rewrite En; cbn [shift_tok t_start]; lia).
  (* the line entry of the next token *)
  assert (Hli : nthN (b_lines buf) (t_line nt) = Some (shift_line bb bc (last (table line0 pe) line0))).
  { rewrite Hlines, Hln. rewrite Ep' at 1. apply nthN_map_some. apply nth_table. }
  rewrite (acc_end_line d buf i t nt Hi Hn _ Hli).
  unfold get_token_end_column. rewrite (acc_idx d buf i nt Hn), (acc_end d buf i nt Hn).
  rewrite (acc_end_line d buf i t nt Hi Hn _ Hli). cbn [abind shift_line l_byte].
  unfold end_pos.
  destruct pe as [|x0 pe0] using rev_ind.
  - (* the next token starts the text: the token is empty *)
    cbn [blen] in *. assert (Eq : t_byte t = t_byte nt) by lia. rewrite Eq, N.eqb_refl, orb_true_r. cbn [rev negb andb fst snd].
    rewrite Hln. cbn [count_nl]. split; [reflexivity|].
    change (sub32 d (0 + 1) 1) with (@AOk N 0). cbn [abind]. rewrite Hlines.
    change (nthN (map (shift_line bb bc) (table line0 text)) 0) with (Some (shift_line bb bc line0)).
    cbn [shift_line l_start line0]. rewrite Hsn. change (len (@nil char)) with 0.
    unfold sub32. replace (0 + bc <=? 0 + bc) with true by (symmetry; apply N.leb_le; lia). f_equal. lia.
  - clear IHpe0. rename pe0 into pr, x0 into x.
    rewrite rev_app_distr. cbn [rev app]. rewrite rev_involutive.
    rewrite count_nl_snoc, col_of_snoc in *. rewrite table_snoc in Hli |- *.
    pose proof (last_table_byte_le pr) as LB. rewrite blen_snoc in *. rewrite len_snoc in Hsn.
    pose proof (utf8_len_pos x) as Ux.
    destruct (x =? NL) eqn:Ex.
    + (* the text before the end ends in a line feed *)
      rewrite last_snoc. cbn [l_byte l_start].
      replace (blen pr + utf8_len x + bb <? t_byte nt) with false by (symmetry; apply N.ltb_ge; lia).
      cbn [orb]. destruct (t_byte t =? t_byte nt) eqn:Ee; cbn [negb andb fst snd].
      * (* empty token at a line start *)
        rewrite Hln. split; [f_equal; lia|].
        unfold sub32 at 1. replace (1 <=? count_nl pr + 1 + 1) with true by (symmetry; apply N.leb_le; lia). cbn [abind].
        replace (count_nl pr + 1 + 1 - 1) with (count_nl (pr ++ [x])) by (rewrite count_nl_snoc, Ex; lia).
        rewrite Hlines. rewrite Ep' at 1. rewrite (nthN_map_some _ _ _ _ (nth_table (pr ++ [x]) q')).
        rewrite table_snoc, Ex, last_snoc. cbn [shift_line l_start]. rewrite Hsn.
        unfold sub32. replace (len pr + 1 + bc <=? len pr + 1 + bc) with true by (symmetry; apply N.leb_le; lia). f_equal. lia.
      * (* a token whose last character is the line feed *)
        rewrite Hln. split; [f_equal; lia|].
        unfold sub32 at 1. replace (1 <=? count_nl pr + 1 + 0) with true by (symmetry; apply N.leb_le; lia). cbn [abind].
        replace (count_nl pr + 1 + 0 - 1) with (count_nl pr) by lia.
        rewrite Hlines. rewrite Ep' at 1. rewrite <- app_assoc.
        rewrite (nthN_map_some _ _ _ _ (nth_table pr ([x] ++ q'))). cbn [shift_line l_start]. rewrite Hsn.
        pose proof (last_table_start pr) as LT.
        unfold sub32. replace (l_start (last (table line0 pr) line0) + bc <=? len pr + 1 + bc) with true by (symmetry; apply N.leb_le; lia).
        f_equal. lia.
    + (* the end is inside a line *)
      rewrite app_nil_r in *. cbn [shift_line l_byte l_start].
      replace (l_byte (last (table line0 pr) line0) + bb <? t_byte nt) with true by (symmetry; apply N.ltb_lt; lia).
      cbn [orb]. rewrite andb_false_r. cbn [fst snd].
      rewrite Hln. split; [f_equal; lia|].
      unfold sub32 at 1. replace (1 <=? count_nl pr + 0 + 1) with true by (symmetry; apply N.leb_le; lia). cbn [abind].
      replace (count_nl pr + 0 + 1 - 1) with (count_nl (pr ++ [x])) by (rewrite count_nl_snoc, Ex; lia).
      rewrite Hlines. rewrite Ep' at 1. rewrite (nthN_map_some _ _ _ _ (nth_table (pr ++ [x]) q')).
      rewrite table_snoc, Ex, app_nil_r. cbn [shift_line l_start]. rewrite Hsn.
      pose proof (last_table_start pr) as LT.
      unfold sub32. replace (l_start (last (table line0 pr) line0) + bc <=? len pr + 1 + bc) with true by (symmetry; apply N.leb_le; lia).
      f_equal. lia.
Qed.

(** the last token of a buffer (EOF) ends where it starts, whatever the buffer *)
Lemma last_token_end d b i t :
  nthN (b_toks b) i = Some t -> i + 1 = n_toks b ->
  get_token_end_line d b i = get_token_start_line d b i /\
  get_token_end_column d b i = get_token_start_column d b i.
Proof.
  intros Hi Hl.
  assert (Hidx : forall A (k : ares A), idx_assert d b i k = k).
  { intros A k. unfold idx_assert. replace (i <? n_toks b) with true by (symmetry; apply N.ltb_lt; lia). rewrite andb_false_r. reflexivity. }
  assert (Hsl : get_token_start_line d b i = AOk (t_line t + 1)).
  { unfold get_token_start_line. rewrite Hidx. unfold get_tok. rewrite Hi. reflexivity. }
  assert (Hel : get_token_end_line d b i = get_token_start_line d b i).
  { unfold get_token_end_line. rewrite Hidx.
    replace (n_toks b =? 0) with false by (symmetry; apply N.eqb_neq; lia).
    replace (i =? n_toks b - 1) with true by (symmetry; apply N.eqb_eq; lia). reflexivity. }
  split; [exact Hel|].
  unfold get_token_end_column, get_token_start_column. rewrite !Hidx. rewrite Hel, Hsl.
  unfold get_token_end. rewrite Hidx.
  replace (i + 1 <? n_toks b) with false by (symmetry; apply N.ltb_ge; lia).
  unfold get_tok. rewrite Hi. cbn [abind].
  unfold sub32 at 1. replace (1 <=? t_line t + 1) with true by (symmetry; apply N.leb_le; lia). cbn [abind].
  replace (t_line t + 1 - 1) with (t_line t) by lia. reflexivity.
Qed.
