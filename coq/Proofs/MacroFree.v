(** * Consequences of the open-code simulation (C11) for macro-free texts, used by the property files
    C01, C02, C06, C10, C11 (the statements are repeated there verbatim and closed by [exact]) *)
From Coq Require Import NArith ZArith List Bool Lia String Ascii.
From SasLexer Require Import Gen.TokenType Gen.ErrorKind Gen.Channel Model.Base Model.Helpers Model.Numeric Model.Core Model.Buffer
     Model.Lexer3 Spec.RefLex Proofs.Generic Proofs.LexGeneric Proofs.Sorted Proofs.LexSorted Proofs.RefLexProofs Proofs.RefLexErrors Proofs.RefLexTiling Proofs.RefLexShape Proofs.RefLexRanges Proofs.RefLexCase Proofs.Tables Proofs.CaseInv
     Proofs.Lines Proofs.LexLines Proofs.TokLines Proofs.ErrLines Proofs.ColLines Proofs.EndLines Proofs.OcBase Proofs.OcWhole Proofs.OcAll.
Import ListNotations.
Open Scope N_scope.

(** C01: [C01_macro_free_total] *)
Lemma mf_C01_macro_free_total : forall msep src, macro_free (body_of src) = true ->
  let r := lex (mkCfg false msep) src in
  lr_outcome r = None /\ s_aborted (lr_end r) = false /\ s_aborted (lr_state r) = false /\
  Forall (fun e => ek_is_internal (e_kind e) = false) (lr_errors r) /\
  (* linear work and output *)
  s_iters (lr_end r) <= 2 * len src /\
  (List.length (b_toks (lr_buffer r)) <= 3 * List.length src + 4)%nat /\
  (List.length (lr_errors r) <= 2 * List.length src + 2)%nat.
Proof.
  intros msep src H. pose proof (lex_is_reflex_macro_free msep src H) as G. cbv zeta in G |- *.
  pose proof (reflex_errs_user src) as U. pose proof (reflex_counts src) as Cn.
  destruct (reflex src) as [[T E] lit]. cbn [fst snd] in U.
  destruct G as (G1 & G2 & G3 & G4 & _ & G6 & _ & G8). destruct Cn as [Ct Ce].
  split; [exact G1|]. split; [exact G6|]. split; [exact G2|].
  assert (K : map e_kind (lr_errors (lex (mkCfg false msep) src)) = map re_kind E).
  { pose proof (f_equal (map fst) G4) as K. rewrite !map_map in K. exact K. }
  split.
  { revert K. generalize (lr_errors (lex (mkCfg false msep) src)) as L. clear -U.
    induction U as [|e es He _ IH]; intros [|x L] K; cbn [map] in K; try discriminate; constructor.
    - injection K as K1 _. rewrite K1. apply user_not_internal. exact He.
    - injection K as _ K2. apply IH. exact K2. }
  split.
  { assert (Hb : len (body_of src) <= len src).
    { unfold body_of, split_bom, len. destruct src as [|c r]; [cbn; lia|]. destruct (c =? BOM); cbn [snd List.length]; lia. }
    lia. }
  split.
  - pose proof (f_equal (@List.length _) G3) as L. rewrite !map_length in L. lia.
  - pose proof (f_equal (@List.length _) K) as L. rewrite !map_length in L. lia.
Qed.

Lemma last_is_eof : forall (cfg : config) (src : list char) d0,
  t_type (last (b_toks (lr_buffer (lex cfg src))) d0) = T_EOF.
Proof.
  intros cfg src d0. unfold lex. destruct (split_bom src) as [[bb bc] text].
  destruct (lex_text_buffer_errors cfg bb bc text) as [-> _]. apply into_detached_last_eof.
Qed.

(** C02: [C02_macro_free_tiling] *)
Lemma mf_C02_macro_free_tiling : forall (msep : bool) (src : list char),
  macro_free (body_of src) = true ->
  let toks := b_toks (lr_buffer (lex (mkCfg false msep) src)) in
  let '(bb, text) := match src with c :: r => if c =? 65279 then (utf8_len c, r) else (0, src) | [] => (0, src) end in
  chain bb (bb + blen text) (map t_byte toks) /\ match toks with t :: _ => t_byte t = bb | [] => False end.
Proof.
  intros msep src H. pose proof (lex_is_reflex_macro_free msep src H) as G. cbv zeta in G |- *.
  pose proof (reflex_tiling src) as Tl.
  destruct (match src with c :: r => if c =? 65279 then (utf8_len c, r) else (0, src) | [] => (0, src) end) as [bb text].
  destruct (reflex src) as [[T E] lit]. destruct G as (_ & _ & G3 & _). destruct Tl as [T1 T2].
  assert (K : map t_byte (b_toks (lr_buffer (lex (mkCfg false msep) src))) = map rt_byte T).
  { pose proof (f_equal (map (fun x : TokenType * TokenChannel * N * payload => snd (fst x))) G3) as K. rewrite !map_map in K. exact K. }
  split; [rewrite K; exact T1|].
  destruct (b_toks (lr_buffer (lex (mkCfg false msep) src))) as [|t ts]; destruct T as [|u us]; cbn [map] in K; try discriminate; [exact T2|].
  injection K as K1 _. rewrite K1. exact T2.
Qed.

(** C02: [C02_macro_free_single_eof] *)
Lemma mf_C02_macro_free_single_eof : forall (msep : bool) (src : list char),
  macro_free (body_of src) = true ->
  let toks := b_toks (lr_buffer (lex (mkCfg false msep) src)) in
  let '(bb, text) := match src with c :: r => if c =? 65279 then (utf8_len c, r) else (0, src) | [] => (0, src) end in
  exists L e, toks = L ++ [e] /\ t_type e = T_EOF /\ t_byte e = bb + blen text /\
              Forall (fun t => t_type t <> T_EOF) L.
Proof.
  intros msep src H. pose proof (lex_is_reflex_macro_free msep src H) as G. cbv zeta in G |- *.
  pose proof (reflex_single_eof src) as Se.
  pose proof (last_is_eof (mkCfg false msep) src) as Hlast.
  destruct (match src with c :: r => if c =? 65279 then (utf8_len c, r) else (0, src) | [] => (0, src) end) as [bb text].
  destruct (reflex src) as [[T E] lit]. destruct G as (_ & _ & G3 & _). destruct Se as (L' & HL' & Hcase).
  set (toks := b_toks (lr_buffer (lex (mkCfg false msep) src))) in *.
  assert (Hty : forall A B, map tv0 A = map rv B -> Forall not_eof B -> Forall (fun t => t_type t <> T_EOF) A).
  { induction A as [|a A IHA]; intros [|b B] E0 F0; cbn [map] in E0; try discriminate; constructor.
    - injection E0 as E1 _. inversion F0; subst. unfold not_eof in *. unfold tv0, rv in E1.
      assert (t_type a = rt_type b) by congruence. congruence.
    - injection E0 as _ E2. inversion F0; subst. eapply IHA; eassumption. }
  destruct Hcase as [-> | ->].
  - exfalso. pose proof (Hty toks L' G3 HL') as F.
    destruct toks as [|t0 ts]; [specialize (Hlast (mkTok CH_DEFAULT T_WS 0 0 0 PNone)); discriminate Hlast|].
    specialize (Hlast t0).
    assert (Hin : In (last (t0 :: ts) t0) (t0 :: ts)) by (apply (@exists_last _ (t0 :: ts)) in Hlast || idtac; clear; generalize t0 at 1 3; induction ts as [|x ts IH]; intros d; [left; reflexivity|]; cbn [last]; destruct ts; [right; left; reflexivity|]; right; apply (IH x)).
    exact (proj1 (Forall_forall _ _) F _ Hin Hlast).
  - rewrite map_app in G3. apply map_eq_app in G3. destruct G3 as (L & R & Et & EL & ER).
    destruct R as [|e [|e2 R']]; cbn [map] in ER; try discriminate.
    exists L, e. split; [exact Et|]. injection ER as ER.
    unfold tv0, rv in ER. cbn [rt_type rt_chan rt_byte rt_payload] in ER.
    split; [congruence|]. split; [congruence|]. exact (Hty L L' EL HL').
Qed.

(** C06: [C06_macro_free_channels] *)
Lemma mf_C06_macro_free_channels : forall (msep : bool) (src : list char),
  macro_free (body_of src) = true ->
  Forall (fun t =>
            (t_chan t = CH_COMMENT <-> is_comment_type (t_type t) = true) /\
            (t_type t = T_WS -> t_chan t = CH_HIDDEN) /\
            (t_chan t = CH_HIDDEN -> t_type t = T_WS \/ t_type t = T_CatchAll))
         (b_toks (lr_buffer (lex (mkCfg false msep) src))).
Proof.
  intros msep src H. pose proof (lex_is_reflex_macro_free msep src H) as G. cbv zeta in G.
  pose proof (reflex_shape src) as Sh.
  destruct (reflex src) as [[T E] lit]. destruct G as (_ & _ & G3 & _). destruct Sh as (_ & Hc & _).
  revert G3. generalize (b_toks (lr_buffer (lex (mkCfg false msep) src))) as toks. clear -Hc.
  induction Hc as [|u us Hu _ IH]; intros [|t ts] E0; cbn [map] in E0; try discriminate; constructor.
  - injection E0 as Et Ec _ _ _. unfold chan_ok in Hu. rewrite Et, Ec. exact Hu.
  - injection E0 as _ _ _ _ E2. apply IH. exact E2.
Qed.

(** C10: [C10_macro_free_groups] *)
Lemma mf_C10_macro_free_groups : forall (msep : bool) (src : list char),
  macro_free (body_of src) = true ->
  grp_okb (map t_type (b_toks (lr_buffer (lex (mkCfg false msep) src)))) = true.
Proof.
  intros msep src H. pose proof (lex_is_reflex_macro_free msep src H) as G. cbv zeta in G.
  pose proof (reflex_shape src) as Sh.
  destruct (reflex src) as [[T E] lit]. destruct G as (_ & _ & G3 & _). destruct Sh as (Hg & _ & _).
  assert (K : map t_type (b_toks (lr_buffer (lex (mkCfg false msep) src))) = map rt_type T).
  { pose proof (f_equal (map (fun x : TokenType * TokenChannel * N * payload => fst (fst (fst x)))) G3) as K. rewrite !map_map in K. exact K. }
  rewrite K. exact Hg.
Qed.

(** C11: [C11_lexer_is_reference] *)
Lemma mf_C11_lexer_is_reference : forall msep src, macro_free (body_of src) = true ->
  let r := lex (mkCfg false msep) src in
  let '(T, E, lit) := reflex src in
  lr_outcome r = None /\ s_aborted (lr_state r) = false /\
  map tv0 (b_toks (lr_buffer r)) = map rv T /\ map ev0 (lr_errors r) = map rve E /\
  b_lit (lr_buffer r) = lit.
Proof.
  intros msep src H. pose proof (lex_is_reflex_macro_free msep src H) as G. cbv zeta in G |- *.
  destruct (reflex src) as [[T E] lit]. destruct G as (G1 & G2 & G3 & G4 & G5 & _). auto.
Qed.


(** C16: [C16_macro_free_case_insensitive] *)
Lemma case_variant_ups a b : case_variant a b -> ups a = ups b.
Proof.
  induction 1 as [|x y l l' Hxy _ IH]; [reflexivity|]. cbn [ups map]. f_equal; [|exact IH].
  destruct Hxy as [->|(_ & _ & E)]; [reflexivity|exact E].
Qed.

Lemma body_of_ups src : body_of (ups src) = ups (body_of src).
Proof.
  unfold body_of, split_bom. destruct src as [|c r]; [reflexivity|]. cbn [ups map].
  change BOM with 65279. rewrite (up_eqb 65279 c eq_refl eq_refl). destruct (c =? 65279); reflexivity.
Qed.

Lemma mf_C16_macro_free_case_insensitive : forall (msep : bool) (a b : list char),
  case_variant a b -> macro_free (body_of a) = true ->
  let ra := lex (mkCfg false msep) a in
  let rb := lex (mkCfg false msep) b in
  map tv0 (b_toks (lr_buffer ra)) = map tv0 (b_toks (lr_buffer rb)) /\
  map ev0 (lr_errors ra) = map ev0 (lr_errors rb).
Proof.
  intros msep a b Hv Ha. cbv zeta.
  pose proof (case_variant_ups a b Hv) as Hu.
  assert (Hb : macro_free (body_of b) = true).
  { rewrite <- (macro_free_ups (body_of b)), <- body_of_ups, <- Hu, body_of_ups, macro_free_ups. exact Ha. }
  pose proof (lex_is_reflex_macro_free msep a Ha) as Ga. pose proof (lex_is_reflex_macro_free msep b Hb) as Gb. cbv zeta in Ga, Gb.
  pose proof (reflex_case_insensitive a b Hu) as Hr.
  destruct (reflex a) as [[T1 E1] l1]. destruct (reflex b) as [[T2 E2] l2]. destruct Hr as [-> ->].
  destruct Ga as (_ & _ & A3 & A4 & _). destruct Gb as (_ & _ & B3 & B4 & _). split; congruence.
Qed.

Lemma case_eq_lc c : case_eq c (lc c).
Proof.
  unfold lc. destruct (is_ascii_upper c) eqn:E; [|left; reflexivity]. right.
  unfold is_ascii_upper in E. apply andb_true_iff in E. destruct E as [E1 E2]. apply N.leb_le in E1. apply N.leb_le in E2.
  assert (L1 : is_ascii_lower (c + 32) = true).
  { unfold is_ascii_lower. apply andb_true_iff. split; apply N.leb_le; lia. }
  assert (L0 : is_ascii_lower c = false).
  { unfold is_ascii_lower. apply andb_false_iff. left. apply N.leb_gt. lia. }
  split; [|split].
  - unfold is_letter, is_ascii_upper. rewrite (proj2 (N.leb_le 65 c) E1), (proj2 (N.leb_le c 90) E2). apply orb_true_r.
  - unfold is_letter. rewrite L1. reflexivity.
  - unfold to_ascii_uppercase. rewrite L1, L0. lia.
Qed.

Lemma case_variant_lc a : case_variant a (map lc a).
Proof. induction a as [|c r IH]; constructor; [apply case_eq_lc|exact IH]. Qed.

(** C09: [C09_macro_free_error_order] *)
Lemma mf_C09_macro_free_error_order : forall (msep : bool) (src : list char),
  macro_free (body_of src) = true ->
  let errs := lr_errors (lex (mkCfg false msep) src) in
  let '(bb, text) := match src with c :: r => if c =? 65279 then (utf8_len c, r) else (0, src) | [] => (0, src) end in
  chain bb (bb + blen text) (map e_byte errs) /\ Forall (fun e => In (e_kind e) USER_ERRS) errs.
Proof.
  intros msep src H. pose proof (lex_is_reflex_macro_free msep src H) as G. cbv zeta in G |- *.
  pose proof (reflex_errors_ordered src) as Ho. pose proof (reflex_errs_user src) as Hu.
  destruct (match src with c :: r => if c =? 65279 then (utf8_len c, r) else (0, src) | [] => (0, src) end) as [bb text].
  destruct (reflex src) as [[T E] lit]. cbn [fst snd] in Hu. destruct G as (_ & _ & _ & G4 & _).
  assert (Kb : map e_byte (lr_errors (lex (mkCfg false msep) src)) = map re_byte E).
  { pose proof (f_equal (map snd) G4) as K. rewrite !map_map in K. exact K. }
  assert (Kk : map e_kind (lr_errors (lex (mkCfg false msep) src)) = map re_kind E).
  { pose proof (f_equal (map fst) G4) as K. rewrite !map_map in K. exact K. }
  split; [rewrite Kb; exact Ho|].
  revert Kk. generalize (lr_errors (lex (mkCfg false msep) src)) as L. clear -Hu.
  induction Hu as [|e es He _ IH]; intros [|x L] K; cbn [map] in K; try discriminate; constructor.
  - injection K as K1 _. rewrite K1. exact He.
  - injection K as _ K2. apply IH. exact K2.
Qed.

(** C18: [C18_macro_free_no_effect] *)
Lemma mf_C18_macro_free_no_effect : forall (src : list char), macro_free (body_of src) = true ->
  let r0 := lex (mkCfg false false) src in
  let r1 := lex (mkCfg false true) src in
  map tv0 (b_toks (lr_buffer r1)) = map tv0 (b_toks (lr_buffer r0)) /\
  map ev0 (lr_errors r1) = map ev0 (lr_errors r0) /\ b_lit (lr_buffer r1) = b_lit (lr_buffer r0) /\
  Forall (fun t => t_type t <> T_MacroSep) (b_toks (lr_buffer r1)).
Proof.
  intros src H. cbv zeta.
  pose proof (lex_is_reflex_macro_free false src H) as G0. pose proof (lex_is_reflex_macro_free true src H) as G1. cbv zeta in G0, G1.
  pose proof (reflex_shape src) as Sh.
  destruct (reflex src) as [[T E] lit]. destruct G0 as (_ & _ & A3 & A4 & A5 & _). destruct G1 as (_ & _ & B3 & B4 & B5 & _).
  split; [congruence|]. split; [congruence|]. split; [congruence|].
  destruct Sh as (_ & _ & Hn).
  revert B3. generalize (b_toks (lr_buffer (lex (mkCfg false true) src))) as toks. clear -Hn.
  induction Hn as [|u us Hu _ IH]; intros [|t ts] E0; cbn [map] in E0; try discriminate; constructor.
  - injection E0 as Et _ _ _ _. rewrite Et. exact Hu.
  - injection E0 as _ _ _ _ E2. apply IH. exact E2.
Qed.

(** C07: [C07_macro_free_ranges] *)
Definition tranges (ts : list tok) : list (N * N) := flat_map (fun t => prange (t_payload t)) ts.

Lemma mf_C07_macro_free_ranges : forall (msep : bool) (src : list char),
  macro_free (body_of src) = true ->
  let r := lex (mkCfg false msep) src in
  contig 0 (tranges (b_toks (lr_buffer r))) (len (b_lit (lr_buffer r))).
Proof.
  intros msep src H. pose proof (lex_is_reflex_macro_free msep src H) as G. cbv zeta in G |- *.
  pose proof (reflex_ranges src) as Hr.
  destruct (reflex src) as [[T E] lit]. destruct G as (_ & _ & G3 & _ & G5 & _). rewrite G5.
  assert (K : tranges (b_toks (lr_buffer (lex (mkCfg false msep) src))) = ranges T).
  { revert G3. generalize (b_toks (lr_buffer (lex (mkCfg false msep) src))) as toks. clear.
    induction T as [|u us IH]; intros [|t ts] E0; cbn [map] in E0; try discriminate; [reflexivity|].
    injection E0 as _ _ _ Ep E2. unfold tranges, ranges. cbn [flat_map]. rewrite Ep. f_equal. apply IH. exact E2. }
  rewrite K. exact Hr.
Qed.

(** C12: [C12_macro_free_no_residue] *)
Lemma mf_C12_macro_free_no_residue : forall (msep : bool) (src : list char),
  macro_free (body_of src) = true ->
  let e := lr_end (lex (mkCfg false msep) src) in
  s_cp e = None /\ s_mnl e = 0 /\ (s_modes e = [MDefault] \/ s_modes e = [MStringExpr true; MDefault]).
Proof.
  intros msep src H. pose proof (lex_is_reflex_macro_free msep src H) as G. cbv zeta in G |- *.
  destruct (reflex src) as [[T E] lit]. destruct G as (_ & _ & _ & _ & _ & _ & _ & _ & G9 & G10 & G11). auto.
Qed.

(** C04: [C04_macro_free_line_table]: the line-protocol premises of [C04_line_table] hold on every macro-free text *)
Lemma mf_C04_macro_free_line_table : forall (msep : bool) (src : list char),
  macro_free (body_of src) = true ->
  let b := lr_buffer (lex (mkCfg false msep) src) in
  b_lines b = first_line src :: starts_from 0 0 src /\ len (b_lines b) = 1 + count_nl src.
Proof.
  intros msep src H. cbv zeta.
  destruct (lex_lines_macro_free msep src H) as (H1 & H2 & H3 & H4 & _).
  split; [exact (lex_line_table (mkCfg false msep) src H1 H2 H3 H4)|exact (lex_line_count (mkCfg false msep) src H1 H2 H3 H4)].
Qed.

(** C04: [C04_macro_free_token_lines]: the start line of every token on every macro-free text *)
Lemma mf_C04_macro_free_token_lines : forall (msep : bool) (src : list char),
  macro_free (body_of src) = true ->
  forall t, In t (b_toks (lr_buffer (lex (mkCfg false msep) src))) ->
  forall pre rest, src = pre ++ rest -> blen pre = t_byte t -> t_line t = count_nl pre.
Proof.
  intros msep src H.
  destruct (lex_lines_macro_free msep src H) as (H1 & H2 & _ & _ & H5).
  exact (lex_token_lines (mkCfg false msep) src H1 H2 H5).
Qed.

(** C04: [C04_macro_free_error_positions]: line and column of every error on every macro-free text *)
Lemma mf_C04_macro_free_error_positions : forall (msep : bool) (src : list char),
  macro_free (body_of src) = true ->
  let r := lex (mkCfg false msep) src in
  let '((bb, _), text) := split_bom src in
  forall e, In e (lr_errors r) ->
  forall pre rest, text = pre ++ rest -> blen pre + bb = e_byte e ->
    e_line e = 1 + count_nl pre /\ e_col e = col_of pre 0.
Proof.
  intros msep src H. cbv zeta.
  destruct (lex_lines_macro_free msep src H) as (H1 & H2 & _).
  pose proof (lex_error_positions (mkCfg false msep) src) as G. cbv zeta in G.
  destruct (split_bom src) as [[bb bc] text]. exact (G H1 H2).
Qed.

(** C04: [C04_macro_free_token_start_column] *)
Lemma mf_C04_macro_free_token_start_column : forall (msep : bool) (src : list char),
  macro_free (body_of src) = true ->
  let r := lex (mkCfg false msep) src in
  let '((bb, _), text) := split_bom src in
  forall d i t, nthN (b_toks (lr_buffer r)) i = Some t ->
  forall pre rest, text = pre ++ rest -> blen pre + bb = t_byte t ->
    get_token_start_column d (lr_buffer r) i = AOk (col_of pre 0).
Proof.
  intros msep src H. cbv zeta.
  destruct (lex_lines_macro_free msep src H) as (H1 & H2 & H3 & H4 & H5).
  pose proof (lex_token_start_column (mkCfg false msep) src) as G. cbv zeta in G.
  destruct (split_bom src) as [[bb bc] text]. exact (G H1 H2 H3 H4 H5).
Qed.

(** C04: [C04_macro_free_token_end_position] *)
Lemma chain_adjacent : forall (l : list tok) lo hi i a b,
  chain lo hi (map t_byte l) -> nthN l i = Some a -> nthN l (i + 1) = Some b -> t_byte a <= t_byte b.
Proof.
  induction l as [|x l IH]; intros lo hi i a b C Ha Hb; [cbn in Ha; discriminate|].
  cbn [map chain] in C. destruct C as [_ C].
  destruct (N.eqb_spec i 0) as [->|Hi].
  - cbn [nthN] in Ha. cbn in Ha. injection Ha as <-.
    change (0 + 1) with 1 in Hb. cbn [nthN] in Hb. change (1 =? 0) with false in Hb. cbv iota in Hb. change (N.pred 1) with 0 in Hb.
    destruct l as [|y l']; [cbn in Hb; discriminate|]. cbn in Hb. injection Hb as <-. cbn [map chain] in C. exact (proj1 C).
  - replace i with ((i - 1) + 1) in Ha, Hb by lia. rewrite BufferProofs.nthN_cons_succ in Ha, Hb.
    exact (IH _ _ _ _ _ C Ha Hb).
Qed.

Lemma mf_C04_macro_free_token_end_position : forall (msep : bool) (src : list char),
  macro_free (body_of src) = true ->
  let r := lex (mkCfg false msep) src in
  let '((bb, _), text) := split_bom src in
  forall d i t nt, nthN (b_toks (lr_buffer r)) i = Some t -> nthN (b_toks (lr_buffer r)) (i + 1) = Some nt ->
  forall pe re, text = pe ++ re -> blen pe + bb = t_byte nt ->
    let ep := end_pos pe (negb (t_byte t =? t_byte nt)) in
    get_token_end_line d (lr_buffer r) i = AOk (fst ep) /\ get_token_end_column d (lr_buffer r) i = AOk (snd ep).
Proof.
  intros msep src H. cbv zeta.
  destruct (lex_lines_macro_free msep src H) as (H1 & H2 & H3 & H4 & H5).
  pose proof (lex_token_end_position (mkCfg false msep) src) as G. cbv zeta in G.
  pose proof (mf_C02_macro_free_tiling msep src H) as Tl. cbv zeta in Tl.
  unfold split_bom in *.
  destruct src as [|c r0]; [|destruct (c =? BOM) eqn:Eb].
  - intros d i t nt Hi Hn. destruct Tl as [C _]. exact (G H1 H2 H3 H4 H5 d i t nt Hi Hn (chain_adjacent _ _ _ _ _ _ C Hi Hn)).
  - change (c =? 65279) with (c =? BOM) in Tl. rewrite Eb in Tl.
    intros d i t nt Hi Hn. destruct Tl as [C _]. exact (G H1 H2 H3 H4 H5 d i t nt Hi Hn (chain_adjacent _ _ _ _ _ _ C Hi Hn)).
  - change (c =? 65279) with (c =? BOM) in Tl. rewrite Eb in Tl.
    intros d i t nt Hi Hn. destruct Tl as [C _]. exact (G H1 H2 H3 H4 H5 d i t nt Hi Hn (chain_adjacent _ _ _ _ _ _ C Hi Hn)).
Qed.
