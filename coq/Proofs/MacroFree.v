(** * Consequences of the open-code simulation (C11) for macro-free texts, used by the property files
    C01, C02, C06, C10, C11 (the statements are repeated there verbatim and closed by [exact]) *)
From Coq Require Import NArith ZArith List Bool Lia String Ascii.
From SasLexer Require Import Gen.TokenType Gen.ErrorKind Gen.Channel Model.Base Model.Helpers Model.Numeric Model.Core Model.Buffer
     Model.Lexer3 Spec.RefLex Proofs.Generic Proofs.LexGeneric Proofs.Sorted Proofs.LexSorted Proofs.RefLexProofs Proofs.RefLexErrors Proofs.RefLexTiling Proofs.RefLexShape
     Proofs.OcBase Proofs.OcWhole Proofs.OcAll.
Import ListNotations.
Open Scope N_scope.

(** C01: [C01_macro_free_total] *)
Lemma mf_C01_macro_free_total : forall msep src, macro_free (body_of src) = true ->
  let r := lex (mkCfg false msep) src in
  lr_outcome r = None /\ s_aborted (lr_end r) = false /\ s_aborted (lr_state r) = false /\
  Forall (fun e => ek_is_internal (e_kind e) = false) (lr_errors r) /\
  (* linear work and output *)
  s_iters (lr_end r) <= 2 * len src /\
  (List.length (b_toks (lr_buffer r)) <= 3 * List.length src + 4)%nat /\
  (List.length (lr_errors r) <= 2 * List.length src + 2)%nat.
Proof.
  intros msep src H. pose proof (lex_is_reflex_macro_free msep src H) as G. cbv zeta in G |- *.
  pose proof (reflex_errs_user src) as U. pose proof (reflex_counts src) as Cn.
  destruct (reflex src) as [[T E] lit]. cbn [fst snd] in U.
  destruct G as (G1 & G2 & G3 & G4 & _ & G6 & _ & G8). destruct Cn as [Ct Ce].
  split; [exact G1|]. split; [exact G6|]. split; [exact G2|].
  assert (K : map e_kind (lr_errors (lex (mkCfg false msep) src)) = map re_kind E).
  { pose proof (f_equal (map fst) G4) as K. rewrite !map_map in K. exact K. }
  split.
  { revert K. generalize (lr_errors (lex (mkCfg false msep) src)) as L. clear -U.
    induction U as [|e es He _ IH]; intros [|x L] K; cbn [map] in K; try discriminate; constructor.
    - injection K as K1 _. rewrite K1. apply user_not_internal. exact He.
    - injection K as _ K2. apply IH. exact K2. }
  split.
  { assert (Hb : len (body_of src) <= len src).
    { unfold body_of, split_bom, len. destruct src as [|c r]; [cbn; lia|]. destruct (c =? BOM); cbn [snd List.length]; lia. }
    lia. }
  split.
  - pose proof (f_equal (@List.length _) G3) as L. rewrite !map_length in L. lia.
  - pose proof (f_equal (@List.length _) K) as L. rewrite !map_length in L. lia.
Qed.

Lemma last_is_eof : forall (cfg : config) (src : list char) d0,
  t_type (last (b_toks (lr_buffer (lex cfg src))) d0) = T_EOF.
Proof.
  intros cfg src d0. unfold lex. destruct (split_bom src) as [[bb bc] text].
  destruct (lex_text_buffer_errors cfg bb bc text) as [-> _]. apply into_detached_last_eof.
Qed.

(** C02: [C02_macro_free_tiling] *)
Lemma mf_C02_macro_free_tiling : forall (msep : bool) (src : list char),
  macro_free (body_of src) = true ->
  let toks := b_toks (lr_buffer (lex (mkCfg false msep) src)) in
  let '(bb, text) := match src with c :: r => if c =? 65279 then (utf8_len c, r) else (0, src) | [] => (0, src) end in
  chain bb (bb + blen text) (map t_byte toks) /\ match toks with t :: _ => t_byte t = bb | [] => False end.
Proof.
  intros msep src H. pose proof (lex_is_reflex_macro_free msep src H) as G. cbv zeta in G |- *.
  pose proof (reflex_tiling src) as Tl.
  destruct (match src with c :: r => if c =? 65279 then (utf8_len c, r) else (0, src) | [] => (0, src) end) as [bb text].
  destruct (reflex src) as [[T E] lit]. destruct G as (_ & _ & G3 & _). destruct Tl as [T1 T2].
  assert (K : map t_byte (b_toks (lr_buffer (lex (mkCfg false msep) src))) = map rt_byte T).
  { pose proof (f_equal (map (fun x : TokenType * TokenChannel * N * payload => snd (fst x))) G3) as K. rewrite !map_map in K. exact K. }
  split; [rewrite K; exact T1|].
  destruct (b_toks (lr_buffer (lex (mkCfg false msep) src))) as [|t ts]; destruct T as [|u us]; cbn [map] in K; try discriminate; [exact T2|].
  injection K as K1 _. rewrite K1. exact T2.
Qed.

(** C02: [C02_macro_free_single_eof] *)
Lemma mf_C02_macro_free_single_eof : forall (msep : bool) (src : list char),
  macro_free (body_of src) = true ->
  let toks := b_toks (lr_buffer (lex (mkCfg false msep) src)) in
  let '(bb, text) := match src with c :: r => if c =? 65279 then (utf8_len c, r) else (0, src) | [] => (0, src) end in
  exists L e, toks = L ++ [e] /\ t_type e = T_EOF /\ t_byte e = bb + blen text /\
              Forall (fun t => t_type t <> T_EOF) L.
Proof.
  intros msep src H. pose proof (lex_is_reflex_macro_free msep src H) as G. cbv zeta in G |- *.
  pose proof (reflex_single_eof src) as Se.
  pose proof (last_is_eof (mkCfg false msep) src) as Hlast.
  destruct (match src with c :: r => if c =? 65279 then (utf8_len c, r) else (0, src) | [] => (0, src) end) as [bb text].
  destruct (reflex src) as [[T E] lit]. destruct G as (_ & _ & G3 & _). destruct Se as (L' & HL' & Hcase).
  set (toks := b_toks (lr_buffer (lex (mkCfg false msep) src))) in *.
  assert (Hty : forall A B, map tv0 A = map rv B -> Forall not_eof B -> Forall (fun t => t_type t <> T_EOF) A).
  { induction A as [|a A IHA]; intros [|b B] E0 F0; cbn [map] in E0; try discriminate; constructor.
    - injection E0 as E1 _. inversion F0; subst. unfold not_eof in *. unfold tv0, rv in E1.
      assert (t_type a = rt_type b) by congruence. congruence.
    - injection E0 as _ E2. inversion F0; subst. eapply IHA; eassumption. }
  destruct Hcase as [-> | ->].
  - exfalso. pose proof (Hty toks L' G3 HL') as F.
    destruct toks as [|t0 ts]; [specialize (Hlast (mkTok CH_DEFAULT T_WS 0 0 0 PNone)); discriminate Hlast|].
    specialize (Hlast t0).
    assert (Hin : In (last (t0 :: ts) t0) (t0 :: ts)) by (apply (@exists_last _ (t0 :: ts)) in Hlast || idtac; clear; generalize t0 at 1 3; induction ts as [|x ts IH]; intros d; [left; reflexivity|]; cbn [last]; destruct ts; [right; left; reflexivity|]; right; apply (IH x)).
    exact (proj1 (Forall_forall _ _) F _ Hin Hlast).
  - rewrite map_app in G3. apply map_eq_app in G3. destruct G3 as (L & R & Et & EL & ER).
    destruct R as [|e [|e2 R']]; cbn [map] in ER; try discriminate.
    exists L, e. split; [exact Et|]. injection ER as ER.
    unfold tv0, rv in ER. cbn [rt_type rt_chan rt_byte rt_payload] in ER.
    split; [congruence|]. split; [congruence|]. exact (Hty L L' EL HL').
Qed.

(** C06: [C06_macro_free_channels] *)
Lemma mf_C06_macro_free_channels : forall (msep : bool) (src : list char),
  macro_free (body_of src) = true ->
  Forall (fun t =>
            (t_chan t = CH_COMMENT <-> is_comment_type (t_type t) = true) /\
            (t_type t = T_WS -> t_chan t = CH_HIDDEN) /\
            (t_chan t = CH_HIDDEN -> t_type t = T_WS \/ t_type t = T_CatchAll))
         (b_toks (lr_buffer (lex (mkCfg false msep) src))).
Proof.
  intros msep src H. pose proof (lex_is_reflex_macro_free msep src H) as G. cbv zeta in G.
  pose proof (reflex_shape src) as Sh.
  destruct (reflex src) as [[T E] lit]. destruct G as (_ & _ & G3 & _). destruct Sh as [_ Hc].
  revert G3. generalize (b_toks (lr_buffer (lex (mkCfg false msep) src))) as toks. clear -Hc.
  induction Hc as [|u us Hu _ IH]; intros [|t ts] E0; cbn [map] in E0; try discriminate; constructor.
  - injection E0 as Et Ec _ _ _. unfold chan_ok in Hu. rewrite Et, Ec. exact Hu.
  - injection E0 as _ _ _ _ E2. apply IH. exact E2.
Qed.

(** C10: [C10_macro_free_groups] *)
Lemma mf_C10_macro_free_groups : forall (msep : bool) (src : list char),
  macro_free (body_of src) = true ->
  grp_okb (map t_type (b_toks (lr_buffer (lex (mkCfg false msep) src)))) = true.
Proof.
  intros msep src H. pose proof (lex_is_reflex_macro_free msep src H) as G. cbv zeta in G.
  pose proof (reflex_shape src) as Sh.
  destruct (reflex src) as [[T E] lit]. destruct G as (_ & _ & G3 & _). destruct Sh as [Hg _].
  assert (K : map t_type (b_toks (lr_buffer (lex (mkCfg false msep) src))) = map rt_type T).
  { pose proof (f_equal (map (fun x : TokenType * TokenChannel * N * payload => fst (fst (fst x)))) G3) as K. rewrite !map_map in K. exact K. }
  rewrite K. exact Hg.
Qed.

(** C11: [C11_lexer_is_reference] *)
Lemma mf_C11_lexer_is_reference : forall msep src, macro_free (body_of src) = true ->
  let r := lex (mkCfg false msep) src in
  let '(T, E, lit) := reflex src in
  lr_outcome r = None /\ s_aborted (lr_state r) = false /\
  map tv0 (b_toks (lr_buffer r)) = map rv T /\ map ev0 (lr_errors r) = map rve E /\
  b_lit (lr_buffer r) = lit.
Proof.
  intros msep src H. pose proof (lex_is_reflex_macro_free msep src H) as G. cbv zeta in G |- *.
  destruct (reflex src) as [[T E] lit]. destruct G as (G1 & G2 & G3 & G4 & G5 & _). auto.
Qed.

