(** * Open code = reference lexer (C11): assembly *)
From Coq Require Import NArith ZArith List Bool Lia.
From RecordUpdate Require Import RecordSet.
From SasLexer Require Import Gen.TokenType Gen.ErrorKind Gen.Channel Gen.Unicode Model.Base Model.Core
     Model.Helpers Model.Numeric Model.Lexer1 Model.Lexer2 Model.Lexer3 Spec.RefLex
     Proofs.Generic Proofs.LexGeneric Proofs.Bom Proofs.SemiProgram Proofs.SemiCompose Proofs.RefLexProofs Proofs.OcBase.
Import ListNotations RecordSetNotations.
Open Scope N_scope.

(** ** From lexeme classes to the whole text *)
Lemma macro_free_skipn k : forall l, macro_free l = true -> macro_free (skipn_N k l) = true.
Proof.
  induction k as [|k IH]; intros l H; [exact H|]. destruct l as [|c r]; [reflexivity|].
  cbn [skipn_N]. apply IH. cbn [macro_free] in H. apply andb_true_iff in H. exact (proj2 H).
Qed.

Lemma skipn_N_length {A} k : forall (l : list A), List.length (skipn_N k l) = (List.length l - k)%nat.
Proof. induction k as [|k IH]; intros [|c r]; cbn [skipn_N List.length]; try lia. rewrite IH. lia. Qed.

Lemma OC_iters text s rs i : OC text s rs -> OC text (s <| s_iters := i |>) rs.
Proof.
  intros [I M C N P V L1 L2 L]. constructor; try assumption.
  eapply InvPos_core; [|exact I]. repeat split.
Qed.

Section Whole.
  Variable text : list char.
  Variable bb : N.
  Variable F : nat.
  Variable msep : bool.
  Variable limit : N.

  (** what a lexeme class has to provide, at the level of the main loop: [k] iterations *)
  Definition lexeme_sim (l : list char) : Prop :=
    forall s rs, OC text s rs -> c_rest (s_cur s) = l -> (List.length l < F)%nat ->
    let '(ts, es, n, rs') := lexeme l (cur_byte s + bb) rs in
    exists (k : nat) s',
      (1 <= k)%nat /\ (N.of_nat k <= 2 * N.min n (len l)) /\ (1 <= n) /\
      OC text s' rs' /\
      c_rest (s_cur s') = skipn_N (N.to_nat n) l /\
      map (tv bb) (w_toks (s_buf s')) = rev (map rv ts) ++ map (tv bb) (w_toks (s_buf s)) /\
      map (ev bb) (s_errs s') = rev (map rve es) ++ map (ev bb) (s_errs s) /\
      s_iters s' = s_iters s + N.of_nat k /\ s_aborted s' = s_aborted s /\
      (s_iters s + N.of_nat k <= limit ->
       forall f last, exists last',
         run false (main_loop F msep limit (k + f) last) s = run false (main_loop F msep limit f last') s').

  (** a class proved at the level of one [lex_token] call gives the one-iteration form *)
  Lemma single_iteration l c r :
    l = c :: r ->
    (forall s rs, OC text s rs -> c_rest (s_cur s) = l -> (List.length l < F)%nat ->
       let '(ts, es, n, rs') := lexeme l (cur_byte s + bb) rs in
       (1 <= n) /\
       exists s', run false (lex_token F msep c) s = Done tt s' /\ StepOK text bb s ts es n rs' s') ->
    lexeme_sim l.
  Proof.
    intros El H s rs HOC Hr Hf.
    pose proof (OC_iters text s rs (s_iters s + 1) HOC) as HOC1.
    specialize (H (s <| s_iters := s_iters s + 1 |>) rs HOC1 Hr Hf).
    change (cur_byte (s <| s_iters := s_iters s + 1 |>)) with (cur_byte s) in H.
    destruct (lexeme l (cur_byte s + bb) rs) as [[[ts es] n] rs'].
    destruct H as (Hn1 & s' & Hrun & [Ho Hre Ht He Hc]).
    exists 1%nat, s'. split; [lia|]. split; [rewrite El; unfold len; cbn [List.length]; lia|]. split; [exact Hn1|].
    split; [exact Ho|]. split; [rewrite <- Hr; exact Hre|]. split; [exact Ht|]. split; [exact He|].
    pose proof (f_equal (fun t => fst (fst t)) Hc) as Hi. pose proof (f_equal (fun t => snd (fst t)) Hc) as Ha. cbn in Hi, Ha.
    split; [rewrite Hi; reflexivity|]. split; [exact Ha|].
    intros Hlim f last. eexists.
    apply (main_loop_step F msep limit f last s c s').
    - unfold peek. rewrite Hr, El. reflexivity.
    - apply N.ltb_ge. cbn in Hlim. lia.
    - exact Hrun.
  Qed.

  (** the texts considered: a suffix-closed condition (macro-free, and whatever else the proved classes need) *)
  Variable P : list char -> bool.
  Hypothesis P_tail : forall c r, P (c :: r) = true -> P r = true.
  Hypothesis classes : forall l, l <> [] -> P l = true -> lexeme_sim l.

  Lemma P_skipn k : forall l, P l = true -> P (skipn_N k l) = true.
  Proof.
    induction k as [|k IH]; intros l H; [exact H|]. destruct l as [|c r]; [exact H|].
    cbn [skipn_N]. apply IH. exact (P_tail c r H).
  Qed.


  Lemma loop_sim : forall m s rs f fr last acc_t acc_e,
    List.length (c_rest (s_cur s)) = m -> OC text s rs -> P (c_rest (s_cur s)) = true ->
    (m < F)%nat -> s_iters s + 2 * N.of_nat m <= limit -> (2 * m < f)%nat -> (m < fr)%nat ->
    map (tv bb) (w_toks (s_buf s)) = map rv acc_t -> map (ev bb) (s_errs s) = map rve acc_e ->
    exists s_end rs_end T E,
      run false (main_loop F msep limit f last) s = Done false s_end /\
      reflex_loop fr (c_rest (s_cur s)) (cur_byte s + bb) rs acc_t acc_e =
        (rev (mkRtok T_EOF CH_DEFAULT (cur_byte s_end + bb) PNone :: T), rev E, rs_end) /\
      OC text s_end rs_end /\ c_rest (s_cur s_end) = [] /\
      map (tv bb) (w_toks (s_buf s_end)) = map rv T /\ map (ev bb) (s_errs s_end) = map rve E /\
      s_aborted s_end = s_aborted s.
  Proof.
    induction m as [m IH] using lt_wf_ind. intros s rs f fr last acc_t acc_e Hm HOC Hmf HF Hlim Hfuel Hfr Ht He.
    destruct (c_rest (s_cur s)) as [|c r] eqn:Hr.
    - (* end of input *)
      destruct f as [|f]; [lia|]. destruct fr as [|fr]; [lia|].
      exists s, rs, acc_t, acc_e. split; [apply main_loop_end; unfold peek; rewrite Hr; reflexivity|].
      split; [reflexivity|]. split; [exact HOC|]. split; [exact Hr|]. split; [exact Ht|]. split; [exact He|reflexivity].
    - pose proof (classes (c :: r) ltac:(discriminate) Hmf s rs HOC Hr ltac:(cbn [List.length] in *; lia)) as Hc.
      destruct fr as [|fr]; [lia|]. cbn [reflex_loop].
      destruct (lexeme (c :: r) (cur_byte s + bb) rs) as [[[ts es] n] rs'].
      destruct Hc as (k & s' & Hk1 & Hk2 & Hn1 & HOC' & Hrest' & Htoks' & Herrs' & Hit' & Hab' & Hloop).
      assert (Hlen : len (c :: r) = N.of_nat m) by (unfold len; rewrite Hm; reflexivity).
      assert (Hk3 : (k <= 2 * m)%nat) by lia.
      destruct (Hloop ltac:(lia) (f - k)%nat last) as (last' & Hstep).
      replace (k + (f - k))%nat with f in Hstep by lia. rewrite Hstep.
      set (m' := List.length (c_rest (s_cur s'))).
      assert (Hm'eq : m' = (m - N.to_nat n)%nat).
      { subst m'. rewrite Hrest', skipn_N_length. rewrite Hm. reflexivity. }
      assert (Hm' : (m' < m)%nat) by lia.
      assert (Hbyte : cur_byte s' + bb = cur_byte s + bb + blen (firstn (N.to_nat n) (c :: r))).
      { pose proof (cur_byte_rest text s (oc_inv _ _ _ HOC)) as B1.
        pose proof (cur_byte_rest text s' (oc_inv _ _ _ HOC')) as B2.
        rewrite Hr in B1. rewrite Hrest' in B2.
        assert (Hsplit : blen (c :: r) = blen (firstn (N.to_nat n) (c :: r)) + blen (skipn_N (N.to_nat n) (c :: r))).
        { clear. generalize (N.to_nat n) as j. intros j. revert j. generalize (c :: r) as l. clear.
          induction l as [|x l IHl]; intros [|j]; cbn [firstn skipn_N blen]; try lia. rewrite (IHl j). lia. }
        lia. }
      destruct (IH m' Hm' s' rs' (f - k)%nat fr last' (rev_append ts acc_t) (rev_append es acc_e) eq_refl HOC')
        as (s_end & rs_end & T & E & Hrun & Hrf & HOCe & Hreste & Hte & Hee & Habe).
      + rewrite Hrest'. apply P_skipn. exact Hmf.
      + lia.
      + rewrite Hit'. lia.
      + lia.
      + lia.
      + rewrite Htoks', Ht. rewrite rev_append_rev, map_app, map_rev. reflexivity.
      + rewrite Herrs', He. rewrite rev_append_rev, map_app, map_rev. reflexivity.
      + exists s_end, rs_end, T, E. split; [exact Hrun|]. split.
        * rewrite <- Hrf. rewrite Hrest', Hbyte. reflexivity.
        * split; [exact HOCe|]. split; [exact Hreste|]. split; [exact Hte|]. split; [exact Hee|]. rewrite Habe. exact Hab'.
  Qed.

  (** the whole run on the text *)
  Definition tv0 (t : tok) := (t_type t, t_chan t, t_byte t, t_payload t).
  Definition ev0 (e : err_info) := (e_kind e, e_byte e).

  Lemma tv0_shift bc t : tv0 (shift_tok bb bc t) = tv bb t.
  Proof. reflexivity. Qed.
  Lemma ev0_shift bc e : ev0 (shift_err bb bc e) = ev bb e.
  Proof. reflexivity. Qed.

  Definition rs0 : rstate := mkRstate false None [] 0.

  Lemma OC_init : text = text -> OC text (init text) rs0.
  Proof.
    intros _. constructor; try reflexivity.
    - apply init_InvPos.
    - exists xH. reflexivity.
  Qed.
End Whole.

Theorem lex_text_is_reflex text bb bc msep (P : list char -> bool) :
  (forall c r, P (c :: r) = true -> P r = true) ->
  (forall l, l <> [] -> P l = true ->
     lexeme_sim text bb (S (List.length text)) msep (8 * (blen text + bb) + 64) l) ->
  P text = true ->
  let r := lex_text (mkCfg false msep) bb bc text in
  let '(T, E, rs) := reflex_loop (S (List.length text)) text bb rs0 [] [] in
  lr_outcome r = None /\ s_aborted (lr_state r) = false /\
  map tv0 (b_toks (lr_buffer r)) = map rv T /\ map ev0 (lr_errors r) = map rve E /\
  b_lit (lr_buffer r) = rev (rs_lit rs).
Proof.
  intros Ptail classes Hmf. cbv zeta. unfold lex_text. cbn [dbg Base.msep].
  set (n := List.length text).
  destruct (loop_sim text bb (S n) msep (8 * (blen text + bb) + 64) P Ptail classes n (init text) rs0
                     (8 * (4 * n) + 64 + 2 + 24)%nat (S n) (blen text + bb, [MDefault]) [] []
                     eq_refl (OC_init text eq_refl) Hmf ltac:(lia)) as (s1 & rs1 & T & E & Hrun & Hrf & HOC1 & Hrest1 & Ht1 & He1 & Hab1).
  - cbn [init s_iters]. assert (N.of_nat n <= blen text); [|lia].
    subst n. clear. induction text as [|c t IH]; [cbn; lia|]. cbn [List.length blen]. pose proof (utf8_len_pos c). lia.
  - lia.
  - lia.
  - reflexivity.
  - reflexivity.
  - change (cur_byte (init text) + bb) with (blen text - blen text + bb) in Hrf.
    replace (blen text - blen text + bb) with bb in Hrf by lia.
    change (c_rest (s_cur (init text))) with text in Hrf. fold n. rewrite Hrf. rewrite Hrun.
    destruct (oc_lines _ _ _ HOC1) as [p Hp].
    destruct (finalize_default_exact (N.to_nat (s_nmodes s1)) s1 p (oc_modes _ _ _ HOC1) Hp) as (s2 & Hfin & Htok2 & Ho2 & Hab2).
    rewrite Hfin. cbn [lr_outcome lr_state lr_buffer lr_errors].
    pose proof (f_equal o2_lit Ho2) as L2. pose proof (f_equal o2_errs Ho2) as E2.
    cbn [observe2 o2_lit o2_errs] in L2, E2.
    split; [reflexivity|]. split; [rewrite Hab2, Hab1; reflexivity|]. split; [|split].
    + rewrite into_detached_toks, map_map. unfold detached_toks. rewrite Htok2. cbn [t_type].
      replace (tt_eqb T_EOF T_EOF) with true by reflexivity.
      rewrite (map_ext _ (tv bb) (fun t => tv0_shift bb bc t)).
      rewrite !map_rev. cbn [map]. rewrite Ht1. reflexivity.
    + rewrite map_map. rewrite (map_ext _ (ev bb) (fun e => ev0_shift bb bc e)).
      rewrite map_rev, E2, He1, <- map_rev. reflexivity.
    + unfold into_detached. cbn [b_lit]. rewrite L2. rewrite (oc_lit _ _ _ HOC1). reflexivity.
Qed.
