(** * Open code = reference lexer (C11): assembly *)
From Coq Require Import NArith ZArith List Bool Lia.
From RecordUpdate Require Import RecordSet.
From SasLexer Require Import Gen.TokenType Gen.ErrorKind Gen.Channel Gen.Unicode Model.Base Model.Core
     Model.Helpers Model.Numeric Model.Lexer1 Model.Lexer2 Model.Lexer3 Spec.RefLex
     Proofs.Generic Proofs.LexGeneric Proofs.Bom Proofs.SemiProgram Proofs.SemiCompose Proofs.RefLexProofs Proofs.ReleaseFlag Proofs.OcBase.
Import ListNotations RecordSetNotations.
Open Scope N_scope.

(** ** From lexeme classes to the whole text *)
Lemma macro_free_skipn k : forall l, macro_free l = true -> macro_free (skipn_N k l) = true.
Proof.
  induction k as [|k IH]; intros l H; [exact H|]. destruct l as [|c r]; [reflexivity|].
  cbn [skipn_N]. apply IH. cbn [macro_free] in H. apply andb_true_iff in H. exact (proj2 H).
Qed.

Lemma skipn_N_length {A} k : forall (l : list A), List.length (skipn_N k l) = (List.length l - k)%nat.
Proof. induction k as [|k IH]; intros [|c r]; cbn [skipn_N List.length]; try lia. rewrite IH. lia. Qed.

Lemma OC_iters text s rs i : OC text s rs -> OC text (s <| s_iters := i |>) rs.
Proof.
  intros [I M C N P V L1 L2 L]. constructor; try assumption.
  eapply InvPos_core; [|exact I]. repeat split.
Qed.


(** ** More primitives: replacing the last token, the mode stack, the EOF token *)
Definition st_upd (X : st) (ch : TokenChannel) (ty : TokenType) (pl : payload) : st :=
  match w_toks (s_buf X) with
  | t :: r => X <| s_buf := (s_buf X) <| w_toks := mkTok ch ty (t_byte t) (t_start t) (t_line t) pl :: r |> |>
  | [] => X
  end.

Lemma ex_upd X t ts ch ty pl : w_toks (s_buf X) = t :: ts ->
  exec false (OUpdateLastToken ch ty pl) X = Done tt (st_upd X ch ty pl).
Proof. intros H. unfold exec, st_upd. rewrite H. reflexivity. Qed.

Lemma ex_push_mode s m : exec false (OPushMode m) s = Done tt (Core.push_mode s m).
Proof. reflexivity. Qed.

Lemma ex_pop_mode s : exec false OPopMode s = Done tt (Core.pop_mode s).
Proof. reflexivity. Qed.

Definition st_pop (s : st) (ms : list mode) : st := s <| s_modes := ms |> <| s_nmodes := s_nmodes s - 1 |>.

Lemma pop_mode_cons s m ms : s_modes s = m :: ms -> Core.pop_mode s = st_pop s ms.
Proof. intros H. unfold Core.pop_mode. rewrite H. reflexivity. Qed.

Lemma lines_pos_pop s ms : lines_pos s -> lines_pos (st_pop s ms).
Proof. exact (fun H => H). Qed.

Lemma lines_pos_upd X ch ty pl : lines_pos X -> lines_pos (st_upd X ch ty pl).
Proof. intros H. unfold st_upd. destruct (w_toks (s_buf X)); exact H. Qed.

Definition st_eof (s : st) : st :=
  let s' := note_observe_lines s in
  let b := s_buf s' in
  s' <| s_buf := b <| w_toks := mkTok CH_DEFAULT T_EOF (cur_byte s) (cur_char s) (w_nlines (s_buf s) - 1) PNone :: w_toks b |>
                   <| w_ntoks := w_ntoks b + 1 |> |>.

Lemma ex_final_eof s : lines_pos s -> exec false OFinalEOF s = Done tt (st_eof s).
Proof.
  intros [[p H] _]. unfold exec, last_line_or_add, last_line. cbn [s_buf note_observe_lines].
  replace (w_nlines (s_buf (note_observe_lines s))) with (w_nlines (s_buf s)) by reflexivity.
  rewrite H. change (N.pos p =? 0) with false. cbv iota. unfold st_eof. rewrite H. reflexivity.
Qed.

(** the opening quote of a string expression in open code *)
Definition st_dqstart (s : st) (r : list char) : st :=
  st_pend (Core.push_mode (st_emit (st_adv (st_start s) c_dquote r) CH_DEFAULT T_StringExprStart PNone) (MStringExpr true)) true.

Lemma lines_pos_dqstart s r : lines_pos s -> lines_pos (st_dqstart s r).
Proof.
  intros H. unfold st_dqstart. apply lines_pos_pend, lines_pos_push_mode, lines_pos_emit, lines_pos_adv_start; [reflexivity|exact H].
Qed.

Lemma lines_pos_iters s i : lines_pos s -> lines_pos (s <| s_iters := i |>).
Proof. exact (fun H => H). Qed.

Lemma run_dquote_start F msep s r b :
  s_modes s = [MDefault] -> lines_pos s -> c_rest (s_cur s) = c_dquote :: r -> s_pstat s = [b] ->
  run false (lex_token F msep c_dquote) s = Done tt (st_dqstart s r).
Proof.
  intros Hm Hl Hr Hp. open_default Hm Hl. close_tests.
  unfold lex_string_expression_start, assert_dbg, advance_, emit, emit_token, Lexer1.push_mode, set_pending_stat, ret.
  cbn [bindP do run]. rewrite ex_assert. cbn [run]. rewrite (ex_advance (st_start s) c_dquote r Hr). cbn [run bindP do].
  rewrite ex_emit. cbn [run]. rewrite ex_push_mode. cbn [run].
  rewrite (ex_set_pending _ true b []); [reflexivity|]. exact Hp.
Qed.

(** the end of the text right after an opening quote: the literal is completed by [finalize_lexing] *)
Definition st_dqfin (s1 : st) : st :=
  let s3 := st_upd (st_start (st_pop s1 [MDefault])) CH_DEFAULT T_StringLiteral PNone in
  st_eof (st_pop (Core.emit_error s3 E_UnterminatedStringLiteral) []).

Lemma run_dqfin s1 b0 st0 ln0 ts fz :
  s_modes s1 = [MStringExpr true; MDefault] -> lines_pos s1 -> c_rest (s_cur s1) = [] ->
  w_toks (s_buf s1) = mkTok CH_DEFAULT T_StringExprStart b0 st0 ln0 PNone :: ts ->
  run false (finalize_lexing (S (S fz))) s1 = Done tt (st_dqfin s1).
Proof.
  intros Hm Hl Hr Ht. unfold finalize_lexing. rewrite run_bindP. cbn [finalize_loop]. unfold get, Lexer1.pop_mode, start_token.
  cbn [bindP do run]. rewrite ex_get. cbn [run]. change (s_modes (scrub s1)) with (s_modes s1). rewrite Hm.
  cbn [bindP do run]. rewrite ex_pop_mode, (pop_mode_cons s1 _ _ Hm). cbn [run].
  rewrite (ex_start_token (st_pop s1 [MDefault]) Hl). cbn [run].
  unfold handle_unterminated_str_expr, assert_dbg, get, emit_error, Lexer1.pop_mode. cbn [bindP do run]. rewrite ex_assert. cbn [run].
  rewrite ex_get. cbn [run].
  set (s2 := st_start (st_pop s1 [MDefault])).
  assert (Ht2 : w_toks (s_buf s2) = mkTok CH_DEFAULT T_StringExprStart b0 st0 ln0 PNone :: ts) by exact Ht.
  replace (last_is_start (scrub s2)) with true by (unfold last_is_start, last_tok_type, last_tok; change (s_buf (scrub s2)) with (s_buf s2); rewrite Ht2; reflexivity).
  cbn [bindP do run]. rewrite (ex_upd s2 _ _ _ _ _ Ht2). cbn [run]. rewrite ex_emit_error. cbn [run].
  rewrite ex_pop_mode.
  rewrite (pop_mode_cons _ MDefault []) by (unfold st_upd; rewrite Ht2; reflexivity). cbn [run].
  rewrite ex_get. cbn [run].
  match goal with |- context [s_modes (scrub (st_pop ?X []))] => change (s_modes (scrub (st_pop X []))) with (@nil mode) end.
  unfold ret. cbn [run].
  rewrite ex_final_eof; [reflexivity|].
  apply lines_pos_pop, lines_pos_error, lines_pos_upd. unfold s2. apply lines_pos_start, lines_pos_pop. exact Hl.
Qed.

Lemma dqfin_views bb s1 b0 st0 ln0 ts :
  w_toks (s_buf s1) = mkTok CH_DEFAULT T_StringExprStart b0 st0 ln0 PNone :: ts ->
  w_toks (s_buf (st_dqfin s1)) =
    mkTok CH_DEFAULT T_EOF (cur_byte s1) (cur_char s1) (w_nlines (s_buf s1) - 1) PNone ::
    mkTok CH_DEFAULT T_StringLiteral b0 st0 ln0 PNone :: ts /\
  map (ev bb) (s_errs (st_dqfin s1)) = (E_UnterminatedStringLiteral, cur_byte s1 + bb) :: map (ev bb) (s_errs s1) /\
  w_lit (s_buf (st_dqfin s1)) = w_lit (s_buf s1) /\ s_aborted (st_dqfin s1) = s_aborted s1.
Proof.
  intros Ht. unfold st_dqfin. set (s2 := st_start (st_pop s1 [MDefault])).
  assert (Ht2 : w_toks (s_buf s2) = mkTok CH_DEFAULT T_StringExprStart b0 st0 ln0 PNone :: ts) by exact Ht.
  unfold st_upd. rewrite Ht2. repeat split.
Qed.

Lemma lines_pos_eof s : lines_pos s -> lines_pos (st_eof s).
Proof.
  intros [Hp [Ho Hd]]. split; [exact Hp|]. unfold lines_good, st_eof, note_observe_lines. cbn [s_ghost set].
  rewrite Ho, Hd. split; [reflexivity|exact Hd].
Qed.

Lemma lines_pos_dqfin s1 : lines_pos s1 -> lines_pos (st_dqfin s1).
Proof.
  intros H. unfold st_dqfin. apply lines_pos_eof, lines_pos_pop, lines_pos_error, lines_pos_upd, lines_pos_start, lines_pos_pop. exact H.
Qed.

Lemma dqfin_rest s1 : c_rest (s_cur (st_dqfin s1)) = c_rest (s_cur s1).
Proof. unfold st_dqfin, st_upd. destruct (w_toks (s_buf (st_start (st_pop s1 [MDefault])))); reflexivity. Qed.

(** the end of the text in open code: [finalize_lexing] appends the EOF token and leaves the line protocol intact *)
Lemma finalize_default_lines f s :
  s_modes s = [MDefault] -> lines_pos s ->
  exists s', run false (finalize_lexing (S (S f))) s = Done tt s' /\ lines_pos s' /\ c_rest (s_cur s') = c_rest (s_cur s).
Proof.
  intros Hm [[p Hn] [Ho Hd]].
  destruct s as [src srclen cur buf ctb cts ctl modes nmodes errs nerrs cp mnl pstat mark perr iters ab ld gh].
  destruct cur as [rest_ rem off prev]. destruct buf as [lines nlines toks ntoks lit litlen].
  destruct gh as [debt ok g3 g4 g5 g6 g7].
  cbn in Hm, Hn, Ho, Hd. subst modes nlines debt ok.
  eexists. split; [lazy; reflexivity|]. split; [|reflexivity].
  split; [exists p; reflexivity|split; reflexivity].
Qed.

Section Whole.
  Variable text : list char.
  Variable bb : N.
  Variable F : nat.
  Variable msep : bool.
  Variable limit : N.

  (** what a lexeme class has to provide, at the level of the main loop: [k] iterations *)
  Definition lexeme_sim (l : list char) : Prop :=
    forall s rs, OC text s rs -> c_rest (s_cur s) = l -> (List.length l < F)%nat ->
    let '(ts, es, n, rs') := lexeme l (cur_byte s + bb) rs in
    exists (k : nat) s',
      (1 <= k)%nat /\ (N.of_nat k <= 2 * N.min n (len l)) /\ (1 <= n) /\
      OC text s' rs' /\
      c_rest (s_cur s') = skipn_N (N.to_nat n) l /\
      map (tv bb) (w_toks (s_buf s')) = rev (map rv ts) ++ map (tv bb) (w_toks (s_buf s)) /\
      map (ev bb) (s_errs s') = rev (map rve es) ++ map (ev bb) (s_errs s) /\
      s_iters s' = s_iters s + N.of_nat k /\ s_aborted s' = s_aborted s /\
      (s_iters s + N.of_nat k <= limit ->
       forall f last, exists last',
         run false (main_loop F msep limit (k + f) last) s = run false (main_loop F msep limit f last') s').

  (** a class proved at the level of one [lex_token] call gives the one-iteration form *)
  Lemma single_iteration l c r :
    l = c :: r ->
    (forall s rs, OC text s rs -> c_rest (s_cur s) = l -> (List.length l < F)%nat ->
       let '(ts, es, n, rs') := lexeme l (cur_byte s + bb) rs in
       (1 <= n) /\
       exists s', run false (lex_token F msep c) s = Done tt s' /\ StepOK text bb s ts es n rs' s') ->
    lexeme_sim l.
  Proof.
    intros El H s rs HOC Hr Hf.
    pose proof (OC_iters text s rs (s_iters s + 1) HOC) as HOC1.
    specialize (H (s <| s_iters := s_iters s + 1 |>) rs HOC1 Hr Hf).
    change (cur_byte (s <| s_iters := s_iters s + 1 |>)) with (cur_byte s) in H.
    destruct (lexeme l (cur_byte s + bb) rs) as [[[ts es] n] rs'].
    destruct H as (Hn1 & s' & Hrun & [Ho Hre Ht He Hc]).
    exists 1%nat, s'. split; [lia|]. split; [rewrite El; unfold len; cbn [List.length]; lia|]. split; [exact Hn1|].
    split; [exact Ho|]. split; [rewrite <- Hr; exact Hre|]. split; [exact Ht|]. split; [exact He|].
    pose proof (f_equal (fun t => fst (fst t)) Hc) as Hi. pose proof (f_equal (fun t => snd (fst t)) Hc) as Ha. cbn in Hi, Ha.
    split; [rewrite Hi; reflexivity|]. split; [exact Ha|].
    intros Hlim f last. eexists.
    apply (main_loop_step F msep limit f last s c s').
    - unfold peek. rewrite Hr, El. reflexivity.
    - apply N.ltb_ge. cbn in Hlim. lia.
    - exact Hrun.
  Qed.

  (** the text ends right after an opening double quote: one iteration, the rest is done by [finalize_lexing] *)
  Lemma lexeme_dquote_last pos rs :
    lexeme [c_dquote] pos rs =
    ([mkRtok T_StringLiteral CH_DEFAULT pos PNone], [mkRerr E_UnterminatedStringLiteral (pos + 1)], 1,
     mkRstate true (Some T_StringLiteral) (rs_lit rs) (rs_litlen rs)).
  Proof. unfold lexeme. close_tests. reflexivity. Qed.

  Lemma dquote_last s rs f last :
    OC text s rs -> c_rest (s_cur s) = [c_dquote] -> (1 < F)%nat -> s_iters s + 1 <= limit ->
    let s1 := st_dqstart (s <| s_iters := s_iters s + 1 |>) [] in
    run false (main_loop F msep limit (S (S f)) last) s = Done false s1 /\
    (forall fz, run false (finalize_lexing (S (S fz))) s1 = Done tt (st_dqfin s1)) /\
    map (tv bb) (w_toks (s_buf (st_dqfin s1))) =
      (T_EOF, CH_DEFAULT, cur_byte s + 1 + bb, PNone) :: (T_StringLiteral, CH_DEFAULT, cur_byte s + bb, PNone) :: map (tv bb) (w_toks (s_buf s)) /\
    (exists te tr, w_toks (s_buf (st_dqfin s1)) = te :: tr /\ t_type te = T_EOF) /\
    map (ev bb) (s_errs (st_dqfin s1)) = (E_UnterminatedStringLiteral, cur_byte s + 1 + bb) :: map (ev bb) (s_errs s) /\
    w_lit (s_buf (st_dqfin s1)) = w_lit (s_buf s) /\ s_aborted (st_dqfin s1) = s_aborted s.
  Proof.
    intros HOC Hr HF Hlim s1.
    set (si := s <| s_iters := s_iters s + 1 |>) in *.
    assert (Hrun1 : run false (lex_token F msep c_dquote) si = Done tt s1).
    { apply (run_dquote_start F msep si [] (rs_pending rs)).
      - exact (oc_modes _ _ _ HOC).
      - exact (oc_lines _ _ _ HOC).
      - exact Hr.
      - exact (oc_pstat _ _ _ HOC). }
    assert (Hm1 : s_modes s1 = [MStringExpr true; MDefault]).
    { change (s_modes s1) with (MStringExpr true :: s_modes s). rewrite (oc_modes _ _ _ HOC). reflexivity. }
    assert (Hl1 : lines_pos s1) by (unfold s1, si; apply lines_pos_dqstart, lines_pos_iters; exact (oc_lines _ _ _ HOC)).
    assert (Ht1 : w_toks (s_buf s1) = mkTok CH_DEFAULT T_StringExprStart (cur_byte s) (cur_char s) (w_nlines (s_buf s) - 1) PNone :: w_toks (s_buf s))
      by reflexivity.
    assert (Hrem : c_rem (s_cur s) = 1 /\ 1 <= s_srclen s).
    { destruct (ip_cur _ _ (oc_inv _ _ _ HOC)) as (pre & E & _ & R). rewrite Hr in R, E. split; [exact R|].
      rewrite (ip_srclen _ _ (oc_inv _ _ _ HOC)), E, blen_app. cbn [blen]. change (utf8_len c_dquote) with 1. lia. }
    assert (Hcb1 : cur_byte s1 = cur_byte s + 1).
    { change (cur_byte s1) with (s_srclen s - (c_rem (s_cur s) - utf8_len c_dquote)). unfold cur_byte.
      change (utf8_len c_dquote) with 1. lia. }
    split.
    { rewrite (main_loop_step F msep limit (S f) last s c_dquote s1).
      - apply main_loop_end. reflexivity.
      - unfold peek. rewrite Hr. reflexivity.
      - apply N.ltb_ge. lia.
      - exact Hrun1. }
    split; [intros fz; exact (run_dqfin s1 _ _ _ _ fz Hm1 Hl1 eq_refl Ht1)|].
    destruct (dqfin_views bb s1 _ _ _ _ Ht1) as (V1 & V2 & V3 & V4).
    split; [|split; [|split; [|split]]].
    - rewrite V1. cbn [map tv t_type t_chan t_byte t_payload]. rewrite Hcb1. reflexivity.
    - eexists _, _. split; [exact V1|reflexivity].
    - rewrite V2, Hcb1. reflexivity.
    - rewrite V3. reflexivity.
    - rewrite V4. reflexivity.
  Qed.

  (** the texts considered: a suffix-closed condition (macro-free, and whatever else the proved classes need) *)
  Variable P : list char -> bool.
  Hypothesis P_tail : forall c r, P (c :: r) = true -> P r = true.
  Hypothesis classes : forall l, l <> [] -> P l = true -> l <> [c_dquote] -> lexeme_sim l.

  Lemma P_skipn k : forall l, P l = true -> P (skipn_N k l) = true.
  Proof.
    induction k as [|k IH]; intros l H; [exact H|]. destruct l as [|c r]; [exact H|].
    cbn [skipn_N]. apply IH. exact (P_tail c r H).
  Qed.

  (** the configuration in which the main loop stops: open code, or just inside a string expression *)
  Definition EndCfg (s : st) (rs : rstate) : Prop :=
    s_cp s = None /\ s_mnl s = 0 /\
    (s_modes s = [MDefault] /\ s_pstat s = [rs_pending rs] \/ s_modes s = [MStringExpr true; MDefault]).

  Lemma loop_sim : forall m s rs f fr last acc_t acc_e,
    List.length (c_rest (s_cur s)) = m -> OC text s rs -> P (c_rest (s_cur s)) = true ->
    (m < F)%nat -> s_iters s + 2 * N.of_nat m <= limit -> (2 * m < f)%nat -> (m < fr)%nat ->
    map (tv bb) (w_toks (s_buf s)) = map rv acc_t -> map (ev bb) (s_errs s) = map rve acc_e ->
    exists s_end rs_end T E,
      run false (main_loop F msep limit f last) s = Done false s_end /\
      s_aborted s_end = s_aborted s /\ s_iters s_end <= s_iters s + 2 * N.of_nat m /\ EndCfg s_end rs_end /\
      reflex_loop fr (c_rest (s_cur s)) (cur_byte s + bb) rs acc_t acc_e = (rev T, rev E, rs_end) /\
      forall fz, exists s_fin,
        run false (finalize_lexing (S (S fz))) s_end = Done tt s_fin /\
        (exists te tr, w_toks (s_buf s_fin) = te :: tr /\ t_type te = T_EOF) /\
        map (tv bb) (w_toks (s_buf s_fin)) = map rv T /\ map (ev bb) (s_errs s_fin) = map rve E /\
        w_lit (s_buf s_fin) = rs_lit rs_end /\
        s_aborted s_fin = s_aborted s /\
        lines_pos s_fin /\ c_rest (s_cur s_fin) = [].
  Proof.
    induction m as [m IH] using lt_wf_ind. intros s rs f fr last acc_t acc_e Hm HOC Hmf HF Hlim Hfuel Hfr Ht He.
    destruct (c_rest (s_cur s)) as [|c r] eqn:Hr.
    - (* end of input *)
      destruct f as [|f]; [lia|]. destruct fr as [|fr]; [lia|].
      destruct (oc_lines _ _ _ HOC) as [[p Hp] Hgood].
      exists s, rs, (mkRtok T_EOF CH_DEFAULT (cur_byte s + bb) PNone :: acc_t), acc_e.
      split; [apply main_loop_end; unfold peek; rewrite Hr; reflexivity|].
      split; [reflexivity|]. split; [lia|].
      split; [split; [exact (oc_cp _ _ _ HOC)|split; [exact (oc_mnl _ _ _ HOC)|left; split; [exact (oc_modes _ _ _ HOC)|exact (oc_pstat _ _ _ HOC)]]]|].
      split; [reflexivity|]. intros fz.
      destruct (finalize_default_exact fz s p (oc_modes _ _ _ HOC) Hp) as (s2 & Hf0 & Htok2 & Ho2 & Hab2).
      exists s2. split; [exact Hf0|].
      split; [eexists _, _; split; [exact Htok2|reflexivity]|].
      pose proof (f_equal o2_lit Ho2) as L2. pose proof (f_equal o2_errs Ho2) as E2.
      cbn [observe2 o2_lit o2_errs] in L2, E2.
      split; [rewrite Htok2; cbn [map]; rewrite Ht; reflexivity|].
      split; [rewrite E2; exact He|]. split; [rewrite L2; exact (oc_lit _ _ _ HOC)|]. split; [exact Hab2|].
      destruct (finalize_default_lines fz s (oc_modes _ _ _ HOC) (oc_lines _ _ _ HOC)) as (s2' & Hf0' & Hl2 & Hr2).
      rewrite Hf0 in Hf0'. assert (Es : s2 = s2') by (injection Hf0'; exact (fun H => H)). subst s2'.
      split; [exact Hl2|]. rewrite Hr2. exact Hr.
    - destruct (list_eq_dec N.eq_dec (c :: r) [c_dquote]) as [Edq|Ndq].
      + (* an opening quote at the very end *)
        inversion Edq; subst c r. cbn [List.length] in Hm. subst m.
        destruct f as [|[|f]]; try lia. destruct fr as [|[|fr]]; try lia.
        destruct (dquote_last s rs f last HOC Hr ltac:(lia) ltac:(lia)) as (R1 & R2 & R3 & R4 & R5 & R6 & R7).
        cbv zeta in *. set (s1 := st_dqstart (s <| s_iters := s_iters s + 1 |>) []) in *.
        exists s1, (mkRstate true (Some T_StringLiteral) (rs_lit rs) (rs_litlen rs)),
          (mkRtok T_EOF CH_DEFAULT (cur_byte s + bb + 1) PNone :: mkRtok T_StringLiteral CH_DEFAULT (cur_byte s + bb) PNone :: acc_t),
          (mkRerr E_UnterminatedStringLiteral (cur_byte s + bb + 1) :: acc_e).
        split; [exact R1|].
        split; [reflexivity|].
        split; [change (s_iters s1) with (s_iters s + 1); lia|].
        split.
        { split; [exact (oc_cp _ _ _ HOC)|]. split; [exact (oc_mnl _ _ _ HOC)|]. right.
          change (s_modes s1) with (MStringExpr true :: s_modes s). rewrite (oc_modes _ _ _ HOC). reflexivity. }
        split.
        { cbn [reflex_loop]. rewrite lexeme_dquote_last. cbn [N.to_nat]. change (Pos.to_nat 1) with 1%nat. cbn [skipn_N firstn rev_append blen].
          change (utf8_len c_dquote) with 1. rewrite N.add_0_r. reflexivity. }
        intros fz. exists (st_dqfin s1). split; [exact (R2 fz)|].
        split; [exact R4|].
        split; [rewrite R3; cbn [map rv rt_type rt_chan rt_byte rt_payload]; rewrite Ht; replace (cur_byte s + 1 + bb) with (cur_byte s + bb + 1) by lia; reflexivity|].
        split; [rewrite R5; cbn [map rve re_kind re_byte]; rewrite He; replace (cur_byte s + 1 + bb) with (cur_byte s + bb + 1) by lia; reflexivity|].
        split; [rewrite R6; exact (oc_lit _ _ _ HOC)|]. split; [exact R7|].
        split; [apply lines_pos_dqfin; unfold s1; apply lines_pos_dqstart, lines_pos_iters; exact (oc_lines _ _ _ HOC)|].
        rewrite dqfin_rest. reflexivity.
      + pose proof (classes (c :: r) ltac:(discriminate) Hmf Ndq s rs HOC Hr ltac:(cbn [List.length] in *; lia)) as Hc.
        destruct fr as [|fr]; [lia|]. cbn [reflex_loop].
        destruct (lexeme (c :: r) (cur_byte s + bb) rs) as [[[ts es] n] rs'].
        destruct Hc as (k & s' & Hk1 & Hk2 & Hn1 & HOC' & Hrest' & Htoks' & Herrs' & Hit' & Hab' & Hloop).
        assert (Hlen : len (c :: r) = N.of_nat m) by (unfold len; rewrite Hm; reflexivity).
        assert (Hk3 : (k <= 2 * m)%nat) by lia.
        destruct (Hloop ltac:(lia) (f - k)%nat last) as (last' & Hstep).
        replace (k + (f - k))%nat with f in Hstep by lia. rewrite Hstep.
        set (m' := List.length (c_rest (s_cur s'))).
        assert (Hm'eq : m' = (m - N.to_nat n)%nat).
        { subst m'. rewrite Hrest', skipn_N_length. rewrite Hm. reflexivity. }
        assert (Hm' : (m' < m)%nat) by lia.
        assert (Hbyte : cur_byte s' + bb = cur_byte s + bb + blen (firstn (N.to_nat n) (c :: r))).
        { pose proof (cur_byte_rest text s (oc_inv _ _ _ HOC)) as B1.
          pose proof (cur_byte_rest text s' (oc_inv _ _ _ HOC')) as B2.
          rewrite Hr in B1. rewrite Hrest' in B2.
          assert (Hsplit : blen (c :: r) = blen (firstn (N.to_nat n) (c :: r)) + blen (skipn_N (N.to_nat n) (c :: r))).
          { clear. generalize (N.to_nat n) as j. intros j. revert j. generalize (c :: r) as l. clear.
            induction l as [|x l IHl]; intros [|j]; cbn [firstn skipn_N blen]; try lia. rewrite (IHl j). lia. }
          lia. }
        destruct (IH m' Hm' s' rs' (f - k)%nat fr last' (rev_append ts acc_t) (rev_append es acc_e) eq_refl HOC')
          as (s_end & rs_end & T & E & Hrun & Habend & Hitend & Hcfg & Hrf & Hfin).
        * rewrite Hrest'. apply P_skipn. exact Hmf.
        * lia.
        * rewrite Hit'. lia.
        * lia.
        * lia.
        * rewrite Htoks', Ht. rewrite rev_append_rev, map_app, map_rev. reflexivity.
        * rewrite Herrs', He. rewrite rev_append_rev, map_app, map_rev. reflexivity.
        * exists s_end, rs_end, T, E. split; [exact Hrun|]. split; [rewrite Habend; exact Hab'|]. split; [rewrite Hit' in Hitend; lia|]. split; [exact Hcfg|]. split.
          -- rewrite <- Hrf. rewrite Hrest', Hbyte. reflexivity.
          -- intros fz. destruct (Hfin fz) as (s_fin & Hf & Heof & Hte & Hee & Hlit & Habe & Hlf & Hrf').
             exists s_fin. split; [exact Hf|]. split; [exact Heof|]. split; [exact Hte|]. split; [exact Hee|]. split; [exact Hlit|].
             split; [rewrite Habe; exact Hab'|]. split; [exact Hlf|exact Hrf'].
  Qed.

  (** the whole run on the text *)
  Definition tv0 (t : tok) := (t_type t, t_chan t, t_byte t, t_payload t).
  Definition ev0 (e : err_info) := (e_kind e, e_byte e).

  Lemma tv0_shift bc t : tv0 (shift_tok bb bc t) = tv bb t.
  Proof. reflexivity. Qed.
  Lemma ev0_shift bc e : ev0 (shift_err bb bc e) = ev bb e.
  Proof. reflexivity. Qed.

  Definition rs0 : rstate := mkRstate false None [] 0.

  Lemma OC_init : text = text -> OC text (init text) rs0.
  Proof.
    intros _. constructor; try reflexivity.
    - apply init_InvPos.
    - split; [exists xH; reflexivity|split; reflexivity].
  Qed.
End Whole.

Theorem lex_text_is_reflex text bb bc msep (P : list char -> bool) :
  (forall c r, P (c :: r) = true -> P r = true) ->
  (forall l, l <> [] -> P l = true -> l <> [c_dquote] ->
     lexeme_sim text bb (S (List.length text)) msep (8 * (blen text + bb) + 64) l) ->
  P text = true ->
  let r := lex_text (mkCfg false msep) bb bc text in
  let '(T, E, rs) := reflex_loop (S (List.length text)) text bb rs0 [] [] in
  lr_outcome r = None /\ s_aborted (lr_state r) = false /\
  map tv0 (b_toks (lr_buffer r)) = map rv T /\ map ev0 (lr_errors r) = map rve E /\
  b_lit (lr_buffer r) = rev (rs_lit rs) /\
  s_aborted (lr_end r) = false /\ s_loop_detected (lr_end r) = false /\
  s_iters (lr_end r) <= 2 * len text /\ EndCfg (lr_end r) rs.
Proof.
  intros Ptail classes Hmf. cbv zeta. unfold lex_text. cbn [dbg Base.msep].
  set (n := List.length text).
  destruct (loop_sim text bb (S n) msep (8 * (blen text + bb) + 64) P Ptail classes n (init text) rs0
                     (8 * (4 * n) + 64 + 2 + 24)%nat (S n) (blen text + bb, [MDefault]) [] []
                     eq_refl (OC_init text eq_refl) Hmf ltac:(lia))
    as (s1 & rs1 & T & E & Hrun & Hab1 & Hit1 & Hcfg1 & Hrf & Hfin).
  - cbn [init s_iters]. assert (N.of_nat n <= blen text); [|lia].
    subst n. clear. induction text as [|c t IH]; [cbn; lia|]. cbn [List.length blen]. pose proof (utf8_len_pos c). lia.
  - lia.
  - lia.
  - reflexivity.
  - reflexivity.
  - change (cur_byte (init text) + bb) with (blen text - blen text + bb) in Hrf.
    replace (blen text - blen text + bb) with bb in Hrf by lia.
    change (c_rest (s_cur (init text))) with text in Hrf. fold n. rewrite Hrf. rewrite Hrun.
    destruct (Hfin (N.to_nat (s_nmodes s1))) as (s2 & Hf2 & (te & tr & Htok2 & Hte) & Ht2 & He2 & Hl2 & Hab2 & _ & _).
    rewrite Hf2. cbn [lr_outcome lr_state lr_end lr_buffer lr_errors].
    split; [reflexivity|]. split; [rewrite Hab2; reflexivity|]. split; [|split; [|split; [|split; [|split; [|split]]]]].
    + rewrite into_detached_toks, map_map. unfold detached_toks. rewrite Htok2. rewrite Hte.
      replace (tt_eqb T_EOF T_EOF) with true by reflexivity.
      rewrite (map_ext _ (tv bb) (fun t => tv0_shift bb bc t)).
      rewrite <- Htok2. rewrite !map_rev. rewrite Ht2. reflexivity.
    + rewrite map_map. rewrite (map_ext _ (ev bb) (fun e => ev0_shift bb bc e)).
      rewrite map_rev, He2, <- map_rev. reflexivity.
    + unfold into_detached. cbn [b_lit]. rewrite Hl2. reflexivity.
    + rewrite Hab1. reflexivity.
    + rewrite (run_flag_release _ _ _ _ Hrun). reflexivity.
    + exact Hit1.
    + exact Hcfg1.
Qed.

(** the line protocol on the same texts: the run ends at the end of the text with the monitor on *)
Theorem lex_text_lines text bb bc msep (P : list char -> bool) :
  (forall c r, P (c :: r) = true -> P r = true) ->
  (forall l, l <> [] -> P l = true -> l <> [c_dquote] ->
     lexeme_sim text bb (S (List.length text)) msep (8 * (blen text + bb) + 64) l) ->
  P text = true ->
  let r := lex_text (mkCfg false msep) bb bc text in
  lr_outcome r = None /\ lines_pos (lr_state r) /\ c_rest (s_cur (lr_state r)) = [] /\
  (exists te tr, w_toks (s_buf (lr_state r)) = te :: tr /\ t_type te = T_EOF).
Proof.
  intros Ptail classes Hmf. cbv zeta. unfold lex_text. cbn [dbg Base.msep].
  set (n := List.length text).
  destruct (loop_sim text bb (S n) msep (8 * (blen text + bb) + 64) P Ptail classes n (init text) rs0
                     (8 * (4 * n) + 64 + 2 + 24)%nat (S n) (blen text + bb, [MDefault]) [] []
                     eq_refl (OC_init text eq_refl) Hmf ltac:(lia))
    as (s1 & rs1 & T & E & Hrun & Hab1 & Hit1 & Hcfg1 & Hrf & Hfin).
  - cbn [init s_iters]. assert (N.of_nat n <= blen text); [|lia].
    subst n. clear. induction text as [|c t IH]; [cbn; lia|]. cbn [List.length blen]. pose proof (utf8_len_pos c). lia.
  - lia.
  - lia.
  - reflexivity.
  - reflexivity.
  - fold n. rewrite Hrun.
    destruct (Hfin (N.to_nat (s_nmodes s1))) as (s2 & Hf2 & Heof & _ & _ & _ & _ & Hl2 & Hr2).
    rewrite Hf2. cbn [lr_outcome lr_state]. split; [reflexivity|]. split; [exact Hl2|]. split; [exact Hr2|exact Heof].
Qed.
