(** * Reading back what the binding writes (C20): [decode (encode v ++ rest) = Some (v, rest)]
    for every well-formed value, and the positional struct layer on top of it. *)
From Coq Require Import NArith List Bool String Lia.
From SasLexer Require Import Model.Base Spec.Wire.
Import ListNotations.
Open Scope N_scope.

(** ** big-endian integers *)
Lemma be_value_snoc l b : be_value (l ++ [b]) = be_value l * 256 + b.
Proof. unfold be_value. rewrite fold_left_app. reflexivity. Qed.

Lemma be_bytes_length k : forall n, List.length (be_bytes k n) = k.
Proof. induction k as [|k IH]; intros n; cbn [be_bytes]; [reflexivity|]. rewrite app_length, IH. cbn. lia. Qed.

Lemma be_roundtrip k : forall n, n < 256 ^ N.of_nat k -> be_value (be_bytes k n) = n.
Proof.
  induction k as [|k IH]; intros n H.
  - cbn in H. cbn. lia.
  - cbn [be_bytes]. rewrite be_value_snoc. rewrite IH.
    + pose proof (N.div_mod n 256 ltac:(discriminate)). lia.
    + rewrite Nat2N.inj_succ, N.pow_succ_r' in H. apply N.div_lt_upper_bound; [discriminate|]. lia.
Qed.

Lemma be_bytes_small k : forall n, forallb (fun x => x <? 256) (be_bytes k n) = true.
Proof.
  induction k as [|k IH]; intros n; cbn [be_bytes]; [reflexivity|].
  rewrite forallb_app, IH. cbn [forallb]. rewrite andb_true_r. apply N.ltb_lt. apply N.mod_lt. discriminate.
Qed.

Lemma take_n_app {A} (a : list A) r : take_n (List.length a) (a ++ r) = Some (a, r).
Proof. induction a as [|x a IH]; cbn [List.length take_n app]; [reflexivity|]. rewrite IH. reflexivity. Qed.

Lemma read_be_app k n r : n < 256 ^ N.of_nat k -> read_be k (be_bytes k n ++ r) = Some (n, r).
Proof.
  intros H. unfold read_be. rewrite <- (be_bytes_length k n) at 1. rewrite take_n_app.
  rewrite be_roundtrip by exact H. reflexivity.
Qed.

(** ** the reader, one level unfolded *)
Definition items_with (dec : list N -> option (mp * list N)) :=
  fix items (k : nat) (bs : list N) : option (list mp * list N) :=
    match k with
    | O => Some ([], bs)
    | S k' =>
      match dec bs with
      | Some (v, r) => match items k' r with Some (vs, r') => Some (v :: vs, r') | None => None end
      | None => None
      end
    end.

Definition arr_with dec (n : N) (r : list N) :=
  match items_with dec (N.to_nat n) r with Some (vs, r') => Some (MArr vs, r') | None => None end.
Definition bin_of (n : N) (r : list N) :=
  match take_n (N.to_nat n) r with Some (b, r') => Some (MBin b, r') | None => None end.

Definition decode_body (dec : list N -> option (mp * list N)) (bs : list N) : option (mp * list N) :=
  match bs with
  | [] => None
  | t :: r =>
    if t <? 128 then Some (MUInt t, r)
    else if (144 <=? t) && (t <? 160) then arr_with dec (t - 144) r
    else if t =? 192 then Some (MNil, r)
    else if t =? 196 then match read_be 1 r with Some (n, r') => bin_of n r' | None => None end
    else if t =? 197 then match read_be 2 r with Some (n, r') => bin_of n r' | None => None end
    else if t =? 198 then match read_be 4 r with Some (n, r') => bin_of n r' | None => None end
    else if t =? 203 then match read_be 8 r with Some (n, r') => Some (MF64 n, r') | None => None end
    else if t =? 204 then match read_be 1 r with Some (n, r') => Some (MUInt n, r') | None => None end
    else if t =? 205 then match read_be 2 r with Some (n, r') => Some (MUInt n, r') | None => None end
    else if t =? 206 then match read_be 4 r with Some (n, r') => Some (MUInt n, r') | None => None end
    else if t =? 207 then match read_be 8 r with Some (n, r') => Some (MUInt n, r') | None => None end
    else if t =? 220 then match read_be 2 r with Some (n, r') => arr_with dec n r' | None => None end
    else if t =? 221 then match read_be 4 r with Some (n, r') => arr_with dec n r' | None => None end
    else None
  end.

Lemma decode_S f bs : decode (S f) bs = decode_body (decode f) bs.
Proof. reflexivity. Qed.

Lemma encode_arr l : encode (MArr l) = enc_arr_hdr (len l) ++ enc_list l.
Proof.
  reflexivity.
Qed.

Lemma items_roundtrip dec l : forall rest,
  Forall (fun x => forall r, dec (encode x ++ r) = Some (x, r)) l ->
  items_with dec (List.length l) (enc_list l ++ rest) = Some (l, rest).
Proof.
  induction l as [|x l IH]; intros rest H; [reflexivity|].
  inversion H as [|? ? Hx Hl]; subst. cbn [List.length items_with]. unfold enc_list in *. cbn [flat_map].
  rewrite <- app_assoc. rewrite Hx. rewrite (IH rest Hl). reflexivity.
Qed.

(** induction over values, through the nested lists *)
Lemma mp_ind' (P : mp -> Prop) :
  P MNil -> (forall n, P (MUInt n)) -> (forall b, P (MF64 b)) -> (forall b, P (MBin b)) ->
  (forall l, Forall P l -> P (MArr l)) -> forall v, P v.
Proof.
  intros H0 H1 H2 H3 H4. fix IH 1. intros [| n | b | b | l]; [exact H0|apply H1|apply H2|apply H3|].
  apply H4. induction l as [|x l IHl]; constructor; [apply IH|exact IHl].
Qed.

Lemma wf_arr l : wf (MArr l) = (len l <? 4294967296) && forallb wf l.
Proof. reflexivity. Qed.

Lemma depth_arr l : depth (MArr l) = S (fold_right (fun x a => Nat.max (depth x) a) O l).
Proof. reflexivity. Qed.

Lemma len_nat {A} (l : list A) : N.to_nat (len l) = List.length l.
Proof. unfold len. lia. Qed.

Ltac tag_tests :=
  repeat match goal with
         | |- context [?a <? ?b] => destruct (N.ltb_spec a b); try lia
         | |- context [?a <=? ?b] => destruct (N.leb_spec a b); try lia
         | |- context [?a =? ?b] => destruct (N.eqb_spec a b); try lia
         end; cbn [andb].

(** ** round trip *)
Theorem decode_encode : forall v, wf v = true ->
  forall f rest, (depth v <= f)%nat -> decode (S f) (encode v ++ rest) = Some (v, rest).
Proof.
  induction v as [| n | b | b | l IH] using mp_ind'; intros W f rest D; rewrite decode_S.
  - reflexivity.
  - cbn [wf] in W. apply N.ltb_lt in W. cbn [encode]. unfold enc_uint.
    destruct (N.ltb_spec n 128) as [L1|L1].
    { cbn [app decode_body]. apply N.ltb_lt in L1. rewrite L1. reflexivity. }
    destruct (N.ltb_spec n 256) as [L2|L2].
    { change (decode_body (decode f) (([204; n]) ++ rest)) with
        (match read_be 1 (be_bytes 0 0 ++ n :: rest) with Some (m, r') => Some (MUInt m, r') | None => None end).
      cbn [be_bytes app read_be take_n]. unfold be_value. cbn [fold_left]. reflexivity. }
    destruct (N.ltb_spec n 65536) as [L3|L3].
    { change (decode_body (decode f) ((205 :: be_bytes 2 n) ++ rest)) with
        (match read_be 2 (be_bytes 2 n ++ rest) with Some (m, r') => Some (MUInt m, r') | None => None end).
      rewrite read_be_app by (cbn; lia). reflexivity. }
    destruct (N.ltb_spec n 4294967296) as [L4|L4].
    { change (decode_body (decode f) ((206 :: be_bytes 4 n) ++ rest)) with
        (match read_be 4 (be_bytes 4 n ++ rest) with Some (m, r') => Some (MUInt m, r') | None => None end).
      rewrite read_be_app by (cbn; lia). reflexivity. }
    change (decode_body (decode f) ((207 :: be_bytes 8 n) ++ rest)) with
        (match read_be 8 (be_bytes 8 n ++ rest) with Some (m, r') => Some (MUInt m, r') | None => None end).
    rewrite read_be_app by (cbn; lia). reflexivity.
  - cbn [wf] in W. apply N.ltb_lt in W. cbn [encode].
    change (decode_body (decode f) ((203 :: be_bytes 8 b) ++ rest)) with
        (match read_be 8 (be_bytes 8 b ++ rest) with Some (m, r') => Some (MF64 m, r') | None => None end).
    rewrite read_be_app by (cbn; lia). reflexivity.
  - cbn [wf] in W. apply andb_true_iff in W. destruct W as [W _]. apply N.ltb_lt in W. cbn [encode]. unfold enc_bin_hdr.
    assert (Hb : forall r, bin_of (len b) (b ++ r) = Some (MBin b, r)).
    { intros r. unfold bin_of. rewrite len_nat, take_n_app. reflexivity. }
    destruct (N.ltb_spec (len b) 256) as [L1|L1].
    { rewrite <- app_assoc.
      change (decode_body (decode f) ([196; len b] ++ b ++ rest)) with
        (match read_be 1 (be_bytes 0 0 ++ len b :: b ++ rest) with Some (m, r') => bin_of m r' | None => None end).
      cbn [be_bytes app read_be take_n]. unfold be_value. cbn [fold_left]. change (0 * 256 + len b) with (len b). apply Hb. }
    destruct (N.ltb_spec (len b) 65536) as [L2|L2].
    { rewrite <- app_assoc.
      change (decode_body (decode f) ((197 :: be_bytes 2 (len b)) ++ b ++ rest)) with
        (match read_be 2 (be_bytes 2 (len b) ++ b ++ rest) with Some (m, r') => bin_of m r' | None => None end).
      rewrite read_be_app by (cbn; lia). apply Hb. }
    rewrite <- app_assoc.
    change (decode_body (decode f) ((198 :: be_bytes 4 (len b)) ++ b ++ rest)) with
        (match read_be 4 (be_bytes 4 (len b) ++ b ++ rest) with Some (m, r') => bin_of m r' | None => None end).
    rewrite read_be_app by (cbn; lia). apply Hb.
  - rewrite wf_arr in W. apply andb_true_iff in W. destruct W as [W Wl]. apply N.ltb_lt in W.
    rewrite depth_arr in D. destruct f as [|f]; [lia|].
    assert (Hitems : forall r, arr_with (decode (S f)) (len l) (enc_list l ++ r) = Some (MArr l, r)).
    { intros r. unfold arr_with. rewrite len_nat. rewrite items_roundtrip; [reflexivity|].
      rewrite Forall_forall in IH. apply Forall_forall. intros x Hx r0. apply IH; [exact Hx| |].
      - rewrite forallb_forall in Wl. apply Wl. exact Hx.
      - assert (depth x <= fold_right (fun x a => Nat.max (depth x) a) O l)%nat; [|lia].
        clear - Hx. induction l as [|y l IHl]; [contradiction|]. cbn [fold_right].
        destruct Hx as [->|Hx]; [lia|]. specialize (IHl Hx). lia. }
    rewrite encode_arr. unfold enc_arr_hdr.
    destruct (N.ltb_spec (len l) 16) as [L1|L1].
    { rewrite <- app_assoc. cbn [app decode_body].
      destruct (N.ltb_spec (144 + len l) 128); [lia|].
      destruct (N.leb_spec 144 (144 + len l)); [|lia]. destruct (N.ltb_spec (144 + len l) 160); [|lia]. cbn [andb].
      replace (144 + len l - 144) with (len l) by lia. apply Hitems. }
    destruct (N.ltb_spec (len l) 65536) as [L2|L2].
    { rewrite <- app_assoc.
      change (decode_body (decode (S f)) ((220 :: be_bytes 2 (len l)) ++ enc_list l ++ rest)) with
        (match read_be 2 (be_bytes 2 (len l) ++ enc_list l ++ rest) with Some (m, r') => arr_with (decode (S f)) m r' | None => None end).
      rewrite read_be_app by (cbn; lia). apply Hitems. }
    rewrite <- app_assoc.
    change (decode_body (decode (S f)) ((221 :: be_bytes 4 (len l)) ++ enc_list l ++ rest)) with
        (match read_be 4 (be_bytes 4 (len l) ++ enc_list l ++ rest) with Some (m, r') => arr_with (decode (S f)) m r' | None => None end).
    rewrite read_be_app by (cbn; lia). apply Hitems.
Qed.

(** ** the struct layer *)
Definition U64 : N := 18446744073709551616.
Definition payload_ok (p : payload) : bool :=
  match p with PNone => true | PInt v => v <? U64 | PFloat b => b <? U64 | PStr a b => (a <? U64) && (b <? U64) end.
Definition rtoken_ok (t : rtoken) : bool :=
  (rk_channel t <? U64) && (rk_token_type t <? U64) && (rk_token_index t <? U64) && (rk_start t <? U64) &&
  (rk_stop t <? U64) && (rk_line t <? U64) && (rk_column t <? U64) && (rk_end_line t <? U64) &&
  (rk_end_column t <? U64) && payload_ok (rk_payload t).
Definition rerror_ok (e : rerror) : bool :=
  (rr_error_kind e <? U64) && (rr_at_byte_offset e <? U64) && (rr_at_char_offset e <? U64) &&
  (rr_on_line e <? U64) && (rr_at_column e <? U64) &&
  match rr_last_token e with Some i => i <? U64 | None => true end.
Definition result_ok (toks : list rtoken) (errs : list rerror) (lit : list N) : bool :=
  (len toks <? 4294967296) && (len errs <? 4294967296) && (len lit <? 4294967296) &&
  forallb rtoken_ok toks && forallb rerror_ok errs && forallb (fun x => x <? 256) lit.

Lemma wf_payload p : payload_ok p = true -> wf (mp_payload p) = true.
Proof.
  destruct p as [|v|b|a b]; cbn [payload_ok mp_payload wf]; intros H; try exact H; try reflexivity.
  apply andb_true_iff in H. destruct H as [H1 H2]. unfold U64 in *. rewrite H1, H2. reflexivity.
Qed.

Lemma wf_token t : rtoken_ok t = true -> wf (mp_struct (named_token t)) = true.
Proof.
  unfold rtoken_ok. intros H. repeat (apply andb_true_iff in H; destruct H as [H ?]).
  unfold mp_struct, named_token. cbn [map snd]. rewrite wf_arr. cbn [forallb wf].
  unfold U64 in *. repeat match goal with X : (_ <? _) = true |- _ => rewrite X; clear X end.
  rewrite wf_payload by assumption. reflexivity.
Qed.

Lemma wf_error e : rerror_ok e = true -> wf (mp_struct (named_error e)) = true.
Proof.
  unfold rerror_ok. intros H. repeat (apply andb_true_iff in H; destruct H as [H ?]).
  unfold mp_struct, named_error. cbn [map snd]. rewrite wf_arr. cbn [forallb wf].
  unfold U64 in *. repeat match goal with X : (_ <? 18446744073709551616) = true |- _ => rewrite X; clear X end.
  destruct (rr_last_token e); cbn [wf]; [match goal with X : (_ <? _) = true |- _ => rewrite X end|]; reflexivity.
Qed.

Lemma len_map {A B} (f : A -> B) l : len (map f l) = len l.
Proof. unfold len. rewrite map_length. reflexivity. Qed.

Lemma forallb_map {A B} (p : B -> bool) (f : A -> B) l : forallb p (map f l) = forallb (fun x => p (f x)) l.
Proof. induction l as [|x l IH]; [reflexivity|]. cbn [map forallb]. rewrite IH. reflexivity. Qed.

Lemma forallb_impl {A} (p q : A -> bool) l : (forall x, p x = true -> q x = true) -> forallb p l = true -> forallb q l = true.
Proof.
  intros H. induction l as [|x l IH]; [reflexivity|]. cbn [forallb]. intros E. apply andb_true_iff in E.
  destruct E as [E1 E2]. rewrite (H _ E1), (IH E2). reflexivity.
Qed.

Lemma wf_result toks errs lit : result_ok toks errs lit = true -> wf (mp_result toks errs lit) = true.
Proof.
  unfold result_ok. intros H.
  apply andb_true_iff in H. destruct H as [H Hlit]. apply andb_true_iff in H. destruct H as [H Herr].
  apply andb_true_iff in H. destruct H as [H Htok]. apply andb_true_iff in H. destruct H as [H Hl3].
  apply andb_true_iff in H. destruct H as [Hl1 Hl2].
  unfold mp_result. rewrite wf_arr. cbn [forallb]. rewrite !wf_arr, !len_map, !forallb_map.
  cbn [wf]. rewrite Hl1, Hl2, Hl3, Hlit. cbn [andb len List.length N.of_nat N.ltb N.compare].
  rewrite (forallb_impl _ _ toks wf_token Htok). rewrite (forallb_impl _ _ errs wf_error Herr). reflexivity.
Qed.

Lemma depth_payload p : (depth (mp_payload p) <= 1)%nat.
Proof. destruct p; cbn; lia. Qed.

Lemma fold_max_le {A} (f : A -> nat) k l : (forall x, In x l -> f x <= k)%nat ->
  (fold_right (fun x a => Nat.max (f x) a) O l <= k)%nat.
Proof.
  induction l as [|x l IH]; intros H; cbn [fold_right]; [lia|].
  assert (f x <= k)%nat by (apply H; left; reflexivity).
  assert (fold_right (fun x a => Nat.max (f x) a) O l <= k)%nat by (apply IH; intros y Hy; apply H; right; exact Hy). lia.
Qed.

Lemma depth_result toks errs lit : (depth (mp_result toks errs lit) <= 4)%nat.
Proof.
  unfold mp_result. rewrite depth_arr. cbn [fold_right]. rewrite !depth_arr.
  assert (D1 : (fold_right (fun x a => Nat.max (depth x) a) O (map (fun t => mp_struct (named_token t)) toks) <= 2)%nat).
  { apply fold_max_le. intros x Hx. apply in_map_iff in Hx. destruct Hx as (t & <- & _).
    unfold mp_struct, named_token. cbn [map snd]. rewrite depth_arr. cbn [fold_right depth].
    pose proof (depth_payload (rk_payload t)). lia. }
  assert (D2 : (fold_right (fun x a => Nat.max (depth x) a) O (map (fun e => mp_struct (named_error e)) errs) <= 2)%nat).
  { apply fold_max_le. intros x Hx. apply in_map_iff in Hx. destruct Hx as (e & <- & _).
    unfold mp_struct, named_error. cbn [map snd]. rewrite depth_arr. cbn [fold_right].
    destruct (rr_last_token e); cbn [depth]; lia. }
  cbn [depth]. lia.
Qed.

Lemma zip_fields_combine names items : List.length names = List.length items ->
  zip_fields names items = Some (combine names items).
Proof.
  revert items. induction names as [|n ns IH]; intros [|v vs] H; cbn in H; try discriminate; [reflexivity|].
  cbn [zip_fields combine]. rewrite IH by lia. reflexivity.
Qed.

Lemma all_some_map {A B} (f : A -> option B) (g : A -> B) l : (forall x, f x = Some (g x)) ->
  all_some (map f l) = Some (map g l).
Proof. intros H. induction l as [|x l IH]; [reflexivity|]. cbn [map all_some]. rewrite H, IH. reflexivity. Qed.

(** what the Python side holds after decoding what the Rust side wrote: every token is the list
    of its Rust field values under the Python attribute names, position by position *)
Theorem python_view tok_names err_names toks errs lit :
  List.length tok_names = 10%nat -> List.length err_names = 6%nat ->
  result_ok toks errs lit = true ->
  py_decode tok_names err_names 8 (wire_bytes toks errs lit) =
  Some (map (fun t => combine tok_names (map snd (named_token t))) toks,
        map (fun e => combine err_names (map snd (named_error e))) errs, lit).
Proof.
  intros Ht He Hok. unfold py_decode, wire_bytes.
  rewrite <- (app_nil_r (encode (mp_result toks errs lit))).
  rewrite (decode_encode _ (wf_result _ _ _ Hok) 7 [] ltac:(pose proof (depth_result toks errs lit); lia)).
  unfold mp_result. rewrite !map_map.
  rewrite (all_some_map _ (fun t => combine tok_names (map snd (named_token t)))).
  2:{ intros t. unfold py_struct, mp_struct. apply zip_fields_combine. rewrite Ht. reflexivity. }
  rewrite (all_some_map _ (fun e => combine err_names (map snd (named_error e)))).
  2:{ intros e. unfold py_struct, mp_struct. apply zip_fields_combine. rewrite He. reflexivity. }
  reflexivity.
Qed.

(** when the Python names are the Rust names (in order), every attribute holds the field of the same name *)
Corollary python_view_by_name toks errs lit : result_ok toks errs lit = true ->
  forall tok_names err_names,
  (forall t, tok_names = map fst (named_token t)) -> (forall e, err_names = map fst (named_error e)) ->
  py_decode tok_names err_names 8 (wire_bytes toks errs lit) = Some (map named_token toks, map named_error errs, lit).
Proof.
  intros Hok tn en Ht He.
  assert (Lt : List.length tn = 10%nat) by (rewrite (Ht (mkRtoken 0 0 0 0 0 0 0 0 0 PNone)); reflexivity).
  assert (Le : List.length en = 6%nat) by (rewrite (He (mkRerror 0 0 0 0 0 None)); reflexivity).
  rewrite (python_view tn en toks errs lit Lt Le Hok). f_equal. f_equal. f_equal.
  - apply map_ext. intros t. rewrite (Ht t). clear. induction (named_token t) as [|[a b] l IH]; [reflexivity|]. cbn. rewrite IH. reflexivity.
  - apply map_ext. intros e. rewrite (He e). clear. induction (named_error e) as [|[a b] l IH]; [reflexivity|]. cbn. rewrite IH. reflexivity.
Qed.
