(** * The string payloads of the reference reading are consecutive ranges that cover the literal buffer exactly *)
From Coq Require Import NArith ZArith List Bool Lia.
From SasLexer Require Import Gen.TokenType Gen.ErrorKind Gen.Channel Gen.Unicode Model.Base Model.Helpers Model.Numeric Spec.RefLex
     Proofs.RefLexTiling.
Import ListNotations.
Open Scope N_scope.

Definition prange (p : payload) : list (N * N) := match p with PStr a b => [(a, b)] | _ => [] end.
Definition ranges (ts : list rtok) : list (N * N) := flat_map (fun t => prange (rt_payload t)) ts.

(** [contig a rs z]: the ranges are (a,a1) (a1,a2) ... (ak,z), each non-decreasing *)
Fixpoint contig (a : N) (rs : list (N * N)) (z : N) : Prop :=
  match rs with [] => a = z | (x, y) :: r => x = a /\ x <= y /\ contig y r z end.

Lemma contig_app a rs m rs' z : contig a rs m -> contig m rs' z -> contig a (rs ++ rs') z.
Proof.
  revert a. induction rs as [|[x y] r IH]; intros a H1 H2; cbn [app contig] in *; [subst; exact H2|].
  destruct H1 as (E & L & H1). split; [exact E|]. split; [exact L|]. apply IH; assumption.
Qed.

Definition lit_ok (st : rstate) : Prop := rs_litlen st = len (rs_lit st).

Lemma push_lit_ok st v : lit_ok st ->
  lit_ok (fst (push_lit st v)) /\ prange (snd (push_lit st v)) = [(rs_litlen st, rs_litlen (fst (push_lit st v)))] /\
  rs_litlen st <= rs_litlen (fst (push_lit st v)).
Proof.
  unfold lit_ok, push_lit. cbn [fst snd rs_litlen rs_lit prange]. intros H. split; [|split; [reflexivity|lia]].
  rewrite rev_append_rev. unfold len in *. rewrite app_length, rev_length. lia.
Qed.

Definition npl (r : numres) : Prop := prange (n_payload r) = [].

Lemma int_pl l r : try_parse_integer l = Some r -> npl r.
Proof.
  unfold try_parse_integer. destruct (take_while is_ascii_digit l); [discriminate|].
  destruct (_ <? _); [discriminate|]. intros H. inversion H. reflexivity.
Qed.

Lemma float_pl l r : try_parse_float l = Some r -> npl r.
Proof.
  unfold try_parse_float. intros H.
  repeat match type of H with
         | (let '(_, _) := ?x in _) = _ => destruct x
         | (if ?b then _ else _) = _ => destruct b
         | match ?x with _ => _ end = _ => destruct x
         | Some _ = Some _ => inversion H; subst; clear H
         | None = Some _ => discriminate H
         | _ => progress cbv zeta in H
         end; reflexivity.
Qed.

Lemma dec_pl l a b r : try_parse_decimal l a b = Some r -> npl r.
Proof.
  unfold try_parse_decimal. intros H.
  destruct (if a then try_parse_integer l else None) as [i|] eqn:Ei; destruct (if b then try_parse_float l else None) as [f|] eqn:Ef.
  - destruct a; [|discriminate]. destruct b; [|discriminate]. destruct (_ <=? _); inversion H; subst; [eapply int_pl|eapply float_pl]; eassumption.
  - destruct a; [|discriminate]. inversion H; subst. eapply int_pl; eassumption.
  - destruct b; [|discriminate]. inversion H; subst. eapply float_pl; eassumption.
  - discriminate.
Qed.

Lemma hexint_pl l r : try_parse_hex_integer l = Some r -> npl r.
Proof.
  unfold try_parse_hex_integer. destruct (take_while is_ascii_hexdigit l); [discriminate|].
  destruct (_ <=? _); intros H.
  - inversion H. reflexivity.
  - cbv zeta in H.
    match type of H with context [let '(_, _) := ?x in _] => destruct x end.
    inversion H. reflexivity.
Qed.

Lemma numeric_pl l : prange (snd (fst (fst (numeric_literal l)))) = [].
Proof.
  unfold numeric_literal. cbv zeta.
  set (hexr := if match l with c :: _ => c =? c_dot | [] => false end then None else try_parse_hex_integer l).
  set (decr := try_parse_decimal l _ true).
  assert (Hh : forall h, hexr = Some h -> npl h).
  { intros h E. subst hexr. destruct (match l with c :: _ => c =? c_dot | [] => false end); [discriminate|]. eapply hexint_pl; eassumption. }
  assert (Hd : forall d, decr = Some d -> npl d) by (intros d E; eapply dec_pl; exact E).
  destruct decr as [dr|] eqn:Ed; destruct hexr as [hr|] eqn:Eh; cbn [fst snd].
  - pose proof (Hd dr eq_refl) as Od. pose proof (Hh hr eq_refl) as Oh. unfold npl in *.
    repeat match goal with
           | |- context [if ?b then _ else _] => destruct b
           | |- context [match ?x with _ => _ end] => destruct x
           end; cbn [fst snd]; assumption.
  - apply Hd. reflexivity.
  - apply Hh. reflexivity.
  - reflexivity.
Qed.

Lemma fin_same st ty ch pos pl p v : lit_ok st -> prange pl = [] ->
  lit_ok (mkRstate p v (rs_lit st) (rs_litlen st)) /\
  contig (rs_litlen st) (ranges [mkRtok ty ch pos pl]) (rs_litlen (mkRstate p v (rs_lit st) (rs_litlen st))).
Proof. intros Hok Hp. cbn [ranges flat_map rt_payload]. rewrite Hp. cbn [app contig rs_litlen]. split; [exact Hok|reflexivity]. Qed.

Lemma fin_same0 st ty ch pos pl : lit_ok st -> prange pl = [] ->
  lit_ok st /\ contig (rs_litlen st) (ranges [mkRtok ty ch pos pl]) (rs_litlen st).
Proof. intros Hok Hp. cbn [ranges flat_map rt_payload]. rewrite Hp. cbn [app contig]. split; [exact Hok|reflexivity]. Qed.

Lemma fin_push st ty pos v : lit_ok st ->
  let '(s', p) := push_lit st v in
  lit_ok (mkRstate true (Some ty) (rs_lit s') (rs_litlen s')) /\
  contig (rs_litlen st) (ranges [mkRtok ty CH_DEFAULT pos p]) (rs_litlen (mkRstate true (Some ty) (rs_lit s') (rs_litlen s'))).
Proof.
  intros Hok. destruct (push_lit_ok st v Hok) as (P1 & P2 & P3). destruct (push_lit st v) as [s' p]. cbn [fst snd] in *.
  cbn [ranges flat_map rt_payload]. rewrite P2. cbn [app contig rs_litlen]. split; [exact P1|]. split; [reflexivity|split; [exact P3|reflexivity]].
Qed.

Ltac fin Hok :=
  first
    [ match goal with |- context [push_lit ?s ?v] =>
        match goal with |- context [mkRstate true (Some ?ty) _ _] =>
          let Hp := fresh in
          pose proof (fun pos => fin_push s ty pos v Hok) as Hp; destruct (push_lit s v) as [? ?]; cbv beta iota zeta; apply Hp end end
    | cbv beta iota zeta; apply fin_same0; [exact Hok|reflexivity]
    | cbv beta iota zeta; apply fin_same; [exact Hok|reflexivity] ].

(** one lexeme: its string payloads are at most one range, starting at the current length of the buffer *)
Lemma lexeme_ranges l pos st : lit_ok st ->
  let '(ts, _, _, st') := lexeme l pos st in
  lit_ok st' /\ contig (rs_litlen st) (ranges ts) (rs_litlen st').
Proof.
  intros Hok. unfold lexeme. destruct l as [|c r]; [cbn; auto|]. cbv zeta.
  destruct (is_whitespace c); [fin Hok|].
  destruct ((c =? c_squote) || (c =? c_dquote)).
  { destruct (scan_quoted c r 1 [] false) as [[[n closed] val] esc].
    destruct (negb closed).
    - destruct esc; fin Hok.
    - destruct (suffix_of _) as [ty extra].
      destruct (tt_eqb ty T_HexStringLiteral).
      + destruct (parse_sas_hex_string _) as [v|e]; [fin Hok|]. destruct esc; fin Hok.
      + destruct esc; fin Hok. }
  destruct (c =? c_semi); [fin Hok|].
  destruct (c =? c_slash).
  { destruct (_ =? c_star); [|fin Hok]. destruct (find_comment_end _ _); fin Hok. }
  destruct (c =? c_amp); [fin Hok|].
  destruct (c =? c_pct); [fin Hok|].
  destruct (is_ascii_digit c || _).
  { pose proof (numeric_pl (c :: r)) as Hnp.
    destruct (numeric_literal (c :: r)) as [[[ty pl] n] errs]. cbn [fst snd] in Hnp. cbv beta iota zeta. apply fin_same; [exact Hok|exact Hnp]. }
  destruct (is_valid_unicode_sas_name_start c).
  { destruct (negb _ || _); [fin Hok|].
    destruct (parse_keyword _); [fin Hok|].
    destruct (assoc_chars _ _) as [four|]; [|fin Hok].
    match goal with |- context [match ?x with Some _ => _ | None => _ end] => destruct x as [k|] end; [|fin Hok].
    destruct (datalines_data _ _ _) as [dn found]. cbv beta iota zeta. cbn [ranges flat_map rt_payload prange app contig rs_litlen]. split; [exact Hok|reflexivity]. }
  repeat match goal with
         | |- context [if ?b then _ else _] => destruct b
         | |- context [match charformat_len ?x with _ => _ end] => destruct (charformat_len x)
         | |- context [match sym1 ?x with _ => _ end] => destruct (sym1 x)
         end; fin Hok.
Qed.

Lemma ranges_app a b : ranges (a ++ b) = ranges a ++ ranges b.
Proof. unfold ranges. apply flat_map_app. Qed.

Lemma reflex_loop_ranges : forall fuel l pos st toks errs a0,
  lit_ok st -> contig a0 (ranges (rev toks)) (rs_litlen st) ->
  let '(T, _, st') := reflex_loop fuel l pos st toks errs in
  lit_ok st' /\ contig a0 (ranges T) (rs_litlen st').
Proof.
  induction fuel as [|f IH]; intros l pos st toks errs a0 Hok Hc; cbn [reflex_loop].
  - cbv beta iota zeta. auto.
  - destruct l as [|c r].
    + cbv beta iota zeta. split; [exact Hok|]. cbn [rev]. rewrite ranges_app. eapply contig_app; [exact Hc|]. reflexivity.
    + pose proof (lexeme_ranges (c :: r) pos st Hok) as Hl.
      destruct (lexeme (c :: r) pos st) as [[[ts es] n] st']. destruct Hl as [Hok' Hc'].
      apply IH; [exact Hok'|].
      rewrite rev_append_rev, rev_app_distr, rev_involutive, ranges_app. eapply contig_app; eassumption.
Qed.

(** the payload ranges of the whole reading tile the literal buffer *)
Theorem reflex_ranges (src : list char) :
  let '(T, _, lit) := reflex src in contig 0 (ranges T) (len lit).
Proof.
  unfold reflex.
  destruct (match src with c :: r => if c =? 65279 then (utf8_len c, r) else (0, src) | [] => (0, src) end) as [bb text].
  pose proof (reflex_loop_ranges (S (List.length text)) text bb (mkRstate false None [] 0) [] [] 0 eq_refl eq_refl) as H.
  destruct (reflex_loop _ _ _ _ _ _) as [[toks errs] st]. destruct H as [Hok Hc].
  unfold lit_ok in Hok. unfold len in *. rewrite rev_length. rewrite <- Hok. exact Hc.
Qed.
