(** * The reference lexer's tokens tile the text: starts non-decreasing from the start of the text to
    its end, where the single EOF token sits *)
From Coq Require Import NArith ZArith List Bool Lia.
From SasLexer Require Import Gen.TokenType Gen.ErrorKind Gen.Channel Gen.Unicode Model.Base Model.Helpers Model.Numeric Spec.RefLex.
Import ListNotations.
Open Scope N_scope.

Fixpoint chain (lo hi : N) (xs : list N) : Prop :=
  match xs with [] => lo <= hi | x :: r => lo <= x /\ chain x hi r end.

Lemma chain_le lo hi xs : chain lo hi xs -> lo <= hi.
Proof. revert lo. induction xs as [|x r IH]; intros lo; cbn [chain]; [auto|]. intros [H1 H2]. specialize (IH x H2). lia. Qed.

Lemma chain_app lo mid hi xs ys : chain lo mid xs -> chain mid hi ys -> chain lo hi (xs ++ ys).
Proof.
  revert lo. induction xs as [|x r IH]; intros lo H1 H2; cbn [app chain] in *.
  - destruct ys as [|y q]; cbn [chain] in *; [lia|]. destruct H2 as [H2 H3]. split; [lia|exact H3].
  - destruct H1 as [H1 H1']. split; [exact H1|]. apply IH; assumption.
Qed.

Lemma chain_widen lo hi hi' xs : chain lo hi xs -> hi <= hi' -> chain lo hi' xs.
Proof. revert lo. induction xs as [|x r IH]; intros lo; cbn [chain]; [lia|]. intros [H1 H2] H. split; [exact H1|]. apply IH; assumption. Qed.

Lemma blen_firstn_add (l : list char) a b :
  blen (firstn (a + b) l) = blen (firstn a l) + blen (firstn b (skipn_N a l)).
Proof.
  revert l. induction a as [|a IH]; intros l; [reflexivity|]. destruct l as [|x l]; [destruct b; reflexivity|].
  cbn [Nat.add firstn skipn_N blen]. rewrite IH. lia.
Qed.

Lemma blen_split (l : list char) k : blen l = blen (firstn k l) + blen (skipn_N k l).
Proof. revert k. induction l as [|x l IH]; intros [|k]; cbn [firstn skipn_N blen]; try lia. rewrite (IH k). lia. Qed.

Definition toks_of (x : list rtok * list rerr * N * rstate) : list rtok := fst (fst (fst x)).
Definition len_of (x : list rtok * list rerr * N * rstate) : N := snd (fst x).

(** token types of the numeric readings and of the keyword table: never EOF *)
Definition num_ty (t : TokenType) : Prop := t = T_IntegerLiteral \/ t = T_FloatLiteral \/ t = T_FloatExponentLiteral.

Lemma int_ty l r : try_parse_integer l = Some r -> num_ty (n_type r).
Proof.
  unfold try_parse_integer. destruct (take_while is_ascii_digit l); [discriminate|].
  destruct (_ <? _); [discriminate|]. intros H. inversion H. left. reflexivity.
Qed.

Lemma float_ty l r : try_parse_float l = Some r -> num_ty (n_type r).
Proof.
  unfold try_parse_float. intros H.
  repeat match type of H with
         | (let '(_, _) := ?x in _) = _ => destruct x
         | (if ?b then _ else _) = _ => destruct b
         | match ?x with _ => _ end = _ => destruct x
         | Some _ = Some _ => inversion H; subst; clear H
         | None = Some _ => discriminate H
         | _ => progress cbv zeta in H
         end; unfold num_ty; cbn [n_type]; auto.
Qed.

Lemma dec_ty l a b r : try_parse_decimal l a b = Some r -> num_ty (n_type r).
Proof.
  unfold try_parse_decimal. intros H.
  destruct (if a then try_parse_integer l else None) as [i|] eqn:Ei; destruct (if b then try_parse_float l else None) as [f|] eqn:Ef.
  - destruct a; [|discriminate]. destruct b; [|discriminate]. destruct (_ <=? _); inversion H; subst; [eapply int_ty|eapply float_ty]; eassumption.
  - destruct a; [|discriminate]. inversion H; subst. eapply int_ty; eassumption.
  - destruct b; [|discriminate]. inversion H; subst. eapply float_ty; eassumption.
  - discriminate.
Qed.

Lemma hexint_ty l r : try_parse_hex_integer l = Some r -> num_ty (n_type r).
Proof.
  unfold try_parse_hex_integer. destruct (take_while is_ascii_hexdigit l); [discriminate|].
  destruct (_ <=? _); intros H.
  - inversion H. left. reflexivity.
  - cbv zeta in H.
    match type of H with context [let '(_, _) := ?x in _] => destruct x end.
    inversion H. right. left. reflexivity.
Qed.

Lemma numeric_ty l : num_ty (fst (fst (fst (numeric_literal l)))).
Proof.
  unfold numeric_literal. cbv zeta.
  set (hexr := if match l with c :: _ => c =? c_dot | [] => false end then None else try_parse_hex_integer l).
  set (decr := try_parse_decimal l _ true).
  assert (Hh : forall h, hexr = Some h -> num_ty (n_type h)).
  { intros h E. subst hexr. destruct (match l with c :: _ => c =? c_dot | [] => false end); [discriminate|]. eapply hexint_ty; eassumption. }
  assert (Hd : forall d, decr = Some d -> num_ty (n_type d)) by (intros d E; eapply dec_ty; exact E).
  destruct decr as [dr|] eqn:Ed; destruct hexr as [hr|] eqn:Eh; cbn [fst].
  - pose proof (Hd dr eq_refl) as Od. pose proof (Hh hr eq_refl) as Oh.
    repeat match goal with
           | |- context [if ?b then _ else _] => destruct b
           | |- context [match ?x with _ => _ end] => destruct x
           end; cbn [fst]; assumption.
  - apply Hd. reflexivity.
  - apply Hh. reflexivity.
  - right. left. reflexivity.
Qed.

Lemma num_ty_not_eof t : num_ty t -> t <> T_EOF.
Proof. intros [->|[->| ->]]; discriminate. Qed.

Lemma keyword_not_eof u kw : parse_keyword u = Some kw -> kw <> T_EOF.
Proof.
  unfold parse_keyword.
  assert (Hall : forallb (fun p => negb (tt_eqb (snd p) T_EOF)) KEYWORDS_C = true) by (vm_compute; reflexivity).
  revert Hall. generalize KEYWORDS_C. induction l as [|[k v] q IHq]; cbn [forallb lookup]; [discriminate|].
  intros Ha. apply andb_true_iff in Ha. destruct Ha as [Ha1 Ha2]. cbn [snd] in Ha1.
  destruct (chars_eqb u k); [intros E; inversion E; subst; intros ->; discriminate|apply IHq; exact Ha2].
Qed.

Lemma suffix_not_eof l : fst (suffix_of l) <> T_EOF.
Proof.
  unfold suffix_of.
  repeat match goal with
         | |- context [if ?b then _ else _] => destruct b
         | |- context [match ?x with _ => _ end] => destruct x
         end; cbn [fst]; discriminate.
Qed.

Lemma sym1_not_eof c ty : sym1 c = Some ty -> ty <> T_EOF.
Proof.
  unfold sym1. intros H.
  repeat match type of H with (if ?b then _ else _) = _ => destruct b end; inversion H; discriminate.
Qed.

(** one lexeme: its tokens start at the position and lie, in order, within the consumed text *)
Lemma lexeme_chain l pos st :
  l <> [] ->
  chain pos (pos + blen (firstn (N.to_nat (len_of (lexeme l pos st))) l)) (map rt_byte (toks_of (lexeme l pos st))) /\
  match toks_of (lexeme l pos st) with t :: _ => rt_byte t = pos | [] => False end /\
  Forall (fun t => rt_type t <> T_EOF) (toks_of (lexeme l pos st)).
Proof.
  intros Hne. unfold lexeme. destruct l as [|c r]; [contradiction|]. cbv zeta.
  assert (One : forall ty ch pl es n st',
            chain pos (pos + blen (firstn (N.to_nat (len_of ([mkRtok ty ch pos pl], es, n, st'))) (c :: r)))
                  (map rt_byte (toks_of ([mkRtok ty ch pos pl], es, n, st'))) /\
            match toks_of ([mkRtok ty ch pos pl], es, n, st') with t :: _ => rt_byte t = pos | [] => False end).
  { intros. unfold toks_of, len_of. cbn [fst snd map rt_byte chain]. split; [lia|reflexivity]. }
  assert (NE : forall ty ch pl, ty <> T_EOF -> Forall (fun t => rt_type t <> T_EOF) [mkRtok ty ch pos pl])
    by (intros; constructor; [assumption|constructor]).
  destruct (is_whitespace c); [split; [apply One|split; [apply One|apply NE; discriminate]]|].
  destruct ((c =? c_squote) || (c =? c_dquote)).
  { destruct (scan_quoted c r 1 [] false) as [[[n closed] val] esc].
    destruct (negb closed).
    - destruct (if esc then push_lit st val else (st, PNone)). split; [apply One|split; [apply One|apply NE; discriminate]].
    - pose proof (suffix_not_eof (skipn_N (N.to_nat n) (c :: r))) as Hty.
      destruct (suffix_of _) as [ty extra]. cbn [fst] in Hty.
      destruct (tt_eqb ty T_HexStringLiteral).
      + destruct (parse_sas_hex_string _) as [v|e].
        * destruct (push_lit st v). split; [apply One|split; [apply One|apply NE; exact Hty]].
        * destruct (if esc then push_lit st val else (st, PNone)). split; [apply One|split; [apply One|apply NE; exact Hty]].
      + destruct (if esc then push_lit st val else (st, PNone)). split; [apply One|split; [apply One|apply NE; exact Hty]]. }
  destruct (c =? c_semi); [split; [apply One|split; [apply One|apply NE; discriminate]]|].
  destruct (c =? c_slash).
  { destruct (_ =? c_star); [|split; [apply One|split; [apply One|apply NE; discriminate]]].
    destruct (find_comment_end _ _); split; try apply One; split; try apply One; apply NE; discriminate. }
  destruct (c =? c_amp); [split; [apply One|split; [apply One|apply NE; discriminate]]|].
  destruct (c =? c_pct); [split; [apply One|split; [apply One|apply NE; discriminate]]|].
  destruct (is_ascii_digit c || _).
  { pose proof (numeric_ty (c :: r)) as Hnt. destruct (numeric_literal (c :: r)) as [[[ty pl] n] errs]. cbn [fst] in Hnt.
    split; [apply One|split; [apply One|apply NE; apply num_ty_not_eof; exact Hnt]]. }
  destruct (is_valid_unicode_sas_name_start c).
  { destruct (negb _ || _); [split; [apply One|split; [apply One|apply NE; discriminate]]|].
    destruct (parse_keyword _) as [kw|] eqn:Ekw.
    { split; [apply One|split; [apply One|apply NE; exact (keyword_not_eof _ _ Ekw)]]. }
    destruct (assoc_chars _ _) as [four|]; [|split; [apply One|split; [apply One|apply NE; discriminate]]].
    match goal with |- context [match ?x with Some _ => _ | None => _ end] => destruct x as [k|] end;
      [|split; [apply One|split; [apply One|apply NE; discriminate]]].
    destruct (datalines_data _ _ _) as [dn found].
    unfold toks_of, len_of. cbn [fst snd map rt_byte chain].
    set (n := len (take_while ident_char (c :: r))). set (l := c :: r).
    set (tn := if found then N.of_nat (if four then 4%nat else 1%nat) else count_semis_upto (if four then 4%nat else 1%nat) (skipn_N (N.to_nat dn) (skipn_N (N.to_nat (n + k)) l))).
    split; [|split; [reflexivity|repeat constructor; discriminate]].
    replace (N.to_nat (n + k + dn + tn)) with ((N.to_nat (n + k) + N.to_nat dn) + N.to_nat tn)%nat by lia.
    rewrite !blen_firstn_add. lia. }
  repeat match goal with
         | |- context [if ?b then _ else _] => destruct b
         | |- context [match charformat_len ?x with _ => _ end] => destruct (charformat_len x)
         | |- context [match sym1 ?x with _ => _ end] => destruct (sym1 x) eqn:?
         end.
  all: split; [apply One|split; [apply One|]]; try (apply NE; discriminate); apply NE; eapply sym1_not_eof; eassumption.
Qed.

(** the loop: starts form a chain from the first position to the end of the text, and the first new token
    sits at the current position *)
Lemma reflex_loop_chain : forall fuel l pos st toks errs lo,
  chain lo pos (map rt_byte (rev toks)) ->
  let '(T, _, _) := reflex_loop fuel l pos st toks errs in
  chain lo (pos + blen l) (map rt_byte T) /\
  exists T', T = rev toks ++ T' /\ (fuel <> O -> match T' with t :: _ => rt_byte t = pos | [] => False end).
Proof.
  induction fuel as [|f IH]; intros l pos st toks errs lo H; cbn [reflex_loop].
  - cbv beta iota zeta. split; [eapply chain_widen; [exact H|lia]|]. exists []. rewrite app_nil_r. split; [reflexivity|congruence].
  - destruct l as [|c r].
    + cbv beta iota zeta. cbn [rev blen]. rewrite N.add_0_r. split.
      * rewrite map_app. eapply chain_app; [exact H|]. cbn [map rt_byte chain]. lia.
      * exists [mkRtok T_EOF CH_DEFAULT pos PNone]. split; [reflexivity|]. intros _. reflexivity.
    + destruct (lexeme_chain (c :: r) pos st ltac:(discriminate)) as (Hc & Hh & _).
      destruct (lexeme (c :: r) pos st) as [[[ts es] n] st'] eqn:El. unfold toks_of, len_of in Hc, Hh. cbn [fst snd] in Hc, Hh.
      specialize (IH (skipn_N (N.to_nat n) (c :: r)) (pos + blen (firstn (N.to_nat n) (c :: r))) st' (rev_append ts toks) (rev_append es errs) lo).
      assert (Hrev : rev (rev_append ts toks) = rev toks ++ ts) by (rewrite rev_append_rev, rev_app_distr, rev_involutive; reflexivity).
      rewrite Hrev in IH. rewrite map_app in IH.
      specialize (IH (chain_app _ _ _ _ _ H Hc)).
      destruct (reflex_loop f _ _ _ _ _) as [[T E] st2]. destruct IH as (I1 & T'' & I2 & _).
      split.
      * rewrite (blen_split (c :: r) (N.to_nat n)). rewrite N.add_assoc. exact I1.
      * exists (ts ++ T''). split; [rewrite I2, <- app_assoc; reflexivity|]. intros _.
        destruct ts as [|t ts']; [contradiction|]. exact Hh.
Qed.

Theorem reflex_tiling (src : list char) :
  let '(bb, text) := match src with c :: r => if c =? 65279 then (utf8_len c, r) else (0, src) | [] => (0, src) end in
  let '(T, _, _) := reflex src in
  chain bb (bb + blen text) (map rt_byte T) /\ match T with t :: _ => rt_byte t = bb | [] => False end.
Proof.
  unfold reflex.
  destruct (match src with c :: r => if c =? 65279 then (utf8_len c, r) else (0, src) | [] => (0, src) end) as [bb text].
  pose proof (reflex_loop_chain (S (List.length text)) text bb (mkRstate false None [] 0) [] [] bb ltac:(cbn; lia)) as H.
  destruct (reflex_loop _ _ _ _ _ _) as [[toks errs] st]. destruct H as (H1 & T' & H2 & H3).
  split; [exact H1|]. cbn [rev app] in H2. subst toks. apply H3. discriminate.
Qed.

(** the only EOF token of the reference reading is the one it appends at the end of the text *)
Definition not_eof (t : rtok) : Prop := rt_type t <> T_EOF.

Lemma reflex_loop_eof : forall fuel l pos st toks errs,
  let '(T, _, _) := reflex_loop fuel l pos st toks errs in
  exists L, Forall not_eof L /\
    (T = rev toks ++ L \/ T = rev toks ++ L ++ [mkRtok T_EOF CH_DEFAULT (pos + blen l) PNone]).
Proof.
  induction fuel as [|f IH]; intros l pos st toks errs; cbn [reflex_loop].
  - cbv beta iota zeta. exists []. split; [constructor|left; rewrite app_nil_r; reflexivity].
  - destruct l as [|c r].
    + cbv beta iota zeta. exists []. split; [constructor|right]. cbn [rev blen app]. rewrite N.add_0_r. reflexivity.
    + destruct (lexeme_chain (c :: r) pos st ltac:(discriminate)) as (_ & _ & Hne).
      destruct (lexeme (c :: r) pos st) as [[[ts es] n] st'] eqn:El. unfold toks_of in Hne. cbn [fst snd] in Hne.
      specialize (IH (skipn_N (N.to_nat n) (c :: r)) (pos + blen (firstn (N.to_nat n) (c :: r))) st' (rev_append ts toks) (rev_append es errs)).
      assert (Hrev : rev (rev_append ts toks) = rev toks ++ ts) by (rewrite rev_append_rev, rev_app_distr, rev_involutive; reflexivity).
      rewrite Hrev in IH.
      destruct (reflex_loop f _ _ _ _ _) as [[T E] st2]. destruct IH as (L & HL & Hcase).
      exists (ts ++ L). split; [apply Forall_app; split; assumption|].
      rewrite <- N.add_assoc, <- (blen_split (c :: r) (N.to_nat n)) in Hcase.
      destruct Hcase as [-> | ->]; [left|right]; rewrite <- !app_assoc; reflexivity.
Qed.

Theorem reflex_single_eof (src : list char) :
  let '(bb, text) := match src with c :: r => if c =? 65279 then (utf8_len c, r) else (0, src) | [] => (0, src) end in
  let '(T, _, _) := reflex src in
  exists L, Forall not_eof L /\ (T = L \/ T = L ++ [mkRtok T_EOF CH_DEFAULT (bb + blen text) PNone]).
Proof.
  unfold reflex.
  destruct (match src with c :: r => if c =? 65279 then (utf8_len c, r) else (0, src) | [] => (0, src) end) as [bb text].
  pose proof (reflex_loop_eof (S (List.length text)) text bb (mkRstate false None [] 0) [] []) as H.
  destruct (reflex_loop _ _ _ _ _ _) as [[toks errs] st]. exact H.
Qed.

(** ** errors: reported in source order, inside the text *)
Definition errs_of (x : list rtok * list rerr * N * rstate) : list rerr := snd (fst (fst x)).

Lemma firstn_len_all (l : list char) : firstn (N.to_nat (len l)) l = l.
Proof. unfold len. rewrite Nnat.Nat2N.id. apply firstn_all. Qed.

(** every error of a lexeme sits at one offset between the start of the lexeme and its end *)
Lemma lexeme_err_chain l pos st :
  l <> [] ->
  exists e, pos <= e <= pos + blen (firstn (N.to_nat (len_of (lexeme l pos st))) l) /\
            Forall (fun x => re_byte x = e) (errs_of (lexeme l pos st)).
Proof.
  intros Hne. unfold lexeme. destruct l as [|c r]; [contradiction|]. cbv zeta.
  assert (None_ : forall ts n st', exists e, pos <= e <= pos + blen (firstn (N.to_nat (len_of (ts, [], n, st'))) (c :: r)) /\
            Forall (fun x => re_byte x = e) (errs_of (ts, @nil rerr, n, st'))).
  { intros. exists pos. split; [lia|constructor]. }
  destruct (is_whitespace c); [apply None_|].
  destruct ((c =? c_squote) || (c =? c_dquote)).
  { destruct (scan_quoted c r 1 [] false) as [[[n closed] val] esc].
    destruct (negb closed).
    - destruct (if esc then push_lit st val else (st, PNone)). unfold errs_of, len_of. cbn [fst snd].
      eexists. split; [|repeat constructor]. cbn [re_byte]. lia.
    - destruct (suffix_of _) as [ty extra].
      destruct (tt_eqb ty T_HexStringLiteral).
      + destruct (parse_sas_hex_string _) as [v|e].
        * destruct (push_lit st v). apply None_.
        * destruct (if esc then push_lit st val else (st, PNone)). unfold errs_of, len_of. cbn [fst snd].
          eexists. split; [|repeat constructor]. cbn [re_byte]. lia.
      + destruct (if esc then push_lit st val else (st, PNone)). apply None_. }
  destruct (c =? c_semi); [apply None_|].
  destruct (c =? c_slash).
  { destruct (_ =? c_star); [|apply None_]. destruct (find_comment_end _ _); [apply None_|].
    unfold errs_of, len_of. cbn [fst snd]. exists (pos + blen (c :: r)). rewrite firstn_len_all. split; [lia|repeat constructor]. }
  destruct (c =? c_amp); [apply None_|].
  destruct (c =? c_pct); [apply None_|].
  destruct (is_ascii_digit c || _).
  { destruct (numeric_literal (c :: r)) as [[[ty pl] n] errs]. unfold errs_of, len_of. cbn [fst snd].
    exists (pos + blen (firstn (N.to_nat n) (c :: r))). split; [lia|].
    induction errs as [|e es IHe]; cbn [map]; constructor; [reflexivity|exact IHe]. }
  destruct (is_valid_unicode_sas_name_start c).
  { destruct (negb _ || _); [apply None_|].
    destruct (parse_keyword _); [apply None_|].
    destruct (assoc_chars _ _) as [four|]; [|apply None_].
    match goal with |- context [match ?x with Some _ => _ | None => _ end] => destruct x as [k|] end; [|apply None_].
    destruct (datalines_data _ _ _) as [dn found].
    unfold errs_of, len_of. cbn [fst snd].
    set (n := len (take_while ident_char (c :: r))). set (l := c :: r).
    set (tn := if found then N.of_nat (if four then 4%nat else 1%nat) else count_semis_upto (if four then 4%nat else 1%nat) (skipn_N (N.to_nat dn) (skipn_N (N.to_nat (n + k)) l))).
    exists (pos + blen (firstn (N.to_nat (n + k)) l) + blen (firstn (N.to_nat dn) (skipn_N (N.to_nat (n + k)) l))).
    split.
    - replace (N.to_nat (n + k + dn + tn)) with ((N.to_nat (n + k) + N.to_nat dn) + N.to_nat tn)%nat by lia.
      rewrite !blen_firstn_add. lia.
    - destruct found; repeat constructor. }
  repeat match goal with
         | |- context [if ?b then _ else _] => destruct b
         | |- context [match charformat_len ?x with _ => _ end] => destruct (charformat_len x)
         | |- context [match sym1 ?x with _ => _ end] => destruct (sym1 x)
         end; apply None_.
Qed.

Lemma same_offset_chain (es : list rerr) e : forall lo hi, lo <= e <= hi -> Forall (fun x => re_byte x = e) es -> chain lo hi (map re_byte es).
Proof.
  induction es as [|x xs IH]; intros lo hi He Hall; cbn [map chain]; [lia|].
  inversion Hall; subst. split; [lia|]. apply IH; [lia|assumption].
Qed.

Lemma reflex_loop_err_chain : forall fuel l pos st toks errs lo,
  chain lo pos (map re_byte (rev errs)) ->
  let '(_, E, _) := reflex_loop fuel l pos st toks errs in chain lo (pos + blen l) (map re_byte E).
Proof.
  induction fuel as [|f IH]; intros l pos st toks errs lo H; cbn [reflex_loop].
  - cbv beta iota zeta. eapply chain_widen; [exact H|lia].
  - destruct l as [|c r]; [cbv beta iota zeta; eapply chain_widen; [exact H|lia]|].
    destruct (lexeme_err_chain (c :: r) pos st ltac:(discriminate)) as (e & He & Hall).
    destruct (lexeme (c :: r) pos st) as [[[ts es] n] st'] eqn:El. unfold errs_of, len_of in He, Hall. cbn [fst snd] in He, Hall.
    specialize (IH (skipn_N (N.to_nat n) (c :: r)) (pos + blen (firstn (N.to_nat n) (c :: r))) st' (rev_append ts toks) (rev_append es errs) lo).
    assert (Hrev : rev (rev_append es errs) = rev errs ++ es) by (rewrite rev_append_rev, rev_app_distr, rev_involutive; reflexivity).
    rewrite Hrev, map_app in IH.
    assert (Hes : chain pos (pos + blen (firstn (N.to_nat n) (c :: r))) (map re_byte es)) by exact (same_offset_chain es e _ _ He Hall).
    specialize (IH (chain_app _ _ _ _ _ H Hes)).
    destruct (reflex_loop f _ _ _ _ _) as [[T E] st2].
    rewrite (blen_split (c :: r) (N.to_nat n)). rewrite N.add_assoc. exact IH.
Qed.

Theorem reflex_errors_ordered (src : list char) :
  let '(bb, text) := match src with c :: r => if c =? 65279 then (utf8_len c, r) else (0, src) | [] => (0, src) end in
  let '(_, E, _) := reflex src in chain bb (bb + blen text) (map re_byte E).
Proof.
  unfold reflex.
  destruct (match src with c :: r => if c =? 65279 then (utf8_len c, r) else (0, src) | [] => (0, src) end) as [bb text].
  pose proof (reflex_loop_err_chain (S (List.length text)) text bb (mkRstate false None [] 0) [] [] bb ltac:(cbn; lia)) as H.
  destruct (reflex_loop _ _ _ _ _ _) as [[toks errs] st]. exact H.
Qed.
