(** * The generic invariants applied to the whole lexer [lex] *)
From Coq Require Import NArith ZArith List Bool Lia.
From SasLexer Require Import Gen.TokenType Gen.ErrorKind Gen.Channel Model.Base Model.Core
     Model.Helpers Model.Numeric Model.Lexer1 Model.Lexer2 Model.Lexer3 Proofs.Generic.
Import ListNotations.
Open Scope N_scope.

Lemma lex_state_InvPos cfg src : InvPos src (lr_state (lex cfg src)).
Proof.
  unfold lex.
  pose proof (run_InvPos (dbg cfg) src
               (main_loop (S (List.length src)) (msep cfg) (8 * (4 * List.length src) + 64 + 2)%nat)
               (init src) (init_InvPos src)) as H1.
  destruct (run (dbg cfg) _ (init src)) as [det s1|site s1]; cbn [res_inv] in H1; [|exact H1].
  destruct det; [exact H1|].
  pose proof (run_InvPos (dbg cfg) src (finalize_lexing (S (S (N.to_nat (s_nmodes s1))))) s1 H1) as H2.
  destruct (run (dbg cfg) (finalize_lexing _) s1) as [u s2|site s2]; exact H2.
Qed.

Lemma lex_buffer_errors cfg src :
  lr_buffer (lex cfg src) = into_detached (lr_state (lex cfg src)) /\
  lr_errors (lex cfg src) = rev (s_errs (lr_state (lex cfg src))).
Proof.
  unfold lex.
  destruct (run (dbg cfg) _ (init src)) as [det s1|site s1]; [|split; reflexivity].
  destruct det; [split; reflexivity|].
  destruct (run (dbg cfg) (finalize_lexing _) s1); split; reflexivity.
Qed.

Lemma into_detached_toks_pos src s :
  InvPos src s -> Forall (tok_pos src) (b_toks (into_detached s)).
Proof.
  intros I. unfold into_detached. cbn [b_toks].
  pose proof (ip_toks _ _ I) as Ht.
  destruct (match w_toks (s_buf s) with t :: _ => tt_eqb (t_type t) T_EOF | [] => false end).
  - apply Forall_rev. exact Ht.
  - apply Forall_rev. constructor; [|exact Ht].
    unfold tok_pos. cbn [t_byte t_start]. rewrite (ip_srclen _ _ I), (ip_src _ _ I). apply IsPos_end.
Qed.

Theorem lex_positions cfg src :
  Forall (tok_pos src) (b_toks (lr_buffer (lex cfg src))) /\
  Forall (err_pos src) (lr_errors (lex cfg src)).
Proof.
  destruct (lex_buffer_errors cfg src) as [-> ->].
  pose proof (lex_state_InvPos cfg src) as I. split.
  - apply into_detached_toks_pos. exact I.
  - apply Forall_rev. apply (ip_errs _ _ I).
Qed.
