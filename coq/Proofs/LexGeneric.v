(** * The generic invariants applied to the whole lexer [lex] *)
From Coq Require Import NArith ZArith List Bool Lia.
From SasLexer Require Import Gen.TokenType Gen.ErrorKind Gen.Channel Model.Base Model.Core
     Model.Helpers Model.Numeric Model.Lexer1 Model.Lexer2 Model.Lexer3 Proofs.Generic.
Import ListNotations.
Open Scope N_scope.

(** the mark's extent and the text after it *)
Lemma split_bom_spec src bb bc text :
  split_bom src = ((bb, bc), text) -> exists pre, src = pre ++ text /\ blen pre = bb /\ len pre = bc.
Proof.
  unfold split_bom. destruct src as [|c r].
  - intros H; inversion H; subst. exists []. repeat split.
  - destruct (c =? BOM); intros H; inversion H; subst.
    + exists [c]. repeat split. cbn [blen]. lia.
    + exists []. repeat split.
Qed.

Lemma IsPos_shift src pre text b c :
  src = pre ++ text -> IsPos text b c -> IsPos src (b + blen pre) (c + len pre).
Proof.
  intros -> (p & q & -> & <- & <-). exists (pre ++ p), q.
  rewrite app_assoc, blen_app, len_app'. repeat split; lia.
Qed.

Section Text.
  Variable cfg : config.
  Variables bb bc : N.
  Variable text : list char.

  Lemma lex_text_state_InvPos : InvPos text (lr_state (lex_text cfg bb bc text)).
  Proof.
    unfold lex_text.
    match goal with |- context [run (dbg cfg) ?ml (init text)] => set (mlp := ml) end.
    pose proof (run_InvPos (dbg cfg) text mlp (init text) (init_InvPos text)) as H1.
    destruct (run (dbg cfg) mlp (init text)) as [det s1|site s1]; cbn [res_inv] in H1; [|exact H1].
    destruct det; [exact H1|].
    pose proof (run_InvPos (dbg cfg) text (finalize_lexing (S (S (N.to_nat (s_nmodes s1))))) s1 H1) as H2.
    destruct (run (dbg cfg) (finalize_lexing _) s1) as [u s2|site s2]; exact H2.
  Qed.

  Lemma lex_text_buffer_errors :
    lr_buffer (lex_text cfg bb bc text) = into_detached bb bc (lr_state (lex_text cfg bb bc text)) /\
    lr_errors (lex_text cfg bb bc text) = map (shift_err bb bc) (rev (s_errs (lr_state (lex_text cfg bb bc text)))).
  Proof.
    unfold lex_text.
    destruct (run (dbg cfg) _ (init text)) as [det s1|site s1]; [|split; reflexivity].
    destruct det; [split; reflexivity|].
    destruct (run (dbg cfg) (finalize_lexing _) s1); split; reflexivity.
  Qed.
End Text.

(** the unshifted tokens of the detached buffer *)
Definition detached_toks (s : st) : list tok :=
  let b := s_buf s in
  let lines := match w_lines b with [] => [mkLine 0 0] | l => rev l end in
  if match w_toks b with t :: _ => tt_eqb (t_type t) T_EOF | [] => false end then rev (w_toks b)
  else rev (mkTok CH_DEFAULT T_EOF (s_srclen s) (len (s_src s)) (len lines - 1) PNone :: w_toks b).

Lemma into_detached_toks bb bc s : b_toks (into_detached bb bc s) = map (shift_tok bb bc) (detached_toks s).
Proof. unfold into_detached, detached_toks. cbn [b_toks]. destruct (match w_toks (s_buf s) with _ => _ end); reflexivity. Qed.

Lemma detached_toks_pos text s : InvPos text s -> Forall (tok_pos text) (detached_toks s).
Proof.
  intros I. unfold detached_toks.
  pose proof (ip_toks _ _ I) as Ht.
  destruct (match w_toks (s_buf s) with t :: _ => tt_eqb (t_type t) T_EOF | [] => false end).
  - apply Forall_rev. exact Ht.
  - apply Forall_rev. constructor; [|exact Ht].
    unfold tok_pos. cbn [t_byte t_start]. rewrite (ip_srclen _ _ I), (ip_src _ _ I). apply IsPos_end.
Qed.

Theorem lex_positions cfg src :
  Forall (tok_pos src) (b_toks (lr_buffer (lex cfg src))) /\
  Forall (err_pos src) (lr_errors (lex cfg src)).
Proof.
  unfold lex. destruct (split_bom src) as [[bb bc] text] eqn:Es.
  destruct (split_bom_spec _ _ _ _ Es) as (pre & E & Hb & Hc).
  destruct (lex_text_buffer_errors cfg bb bc text) as [-> ->].
  pose proof (lex_text_state_InvPos cfg bb bc text) as I. split.
  - rewrite into_detached_toks. apply Forall_map.
    eapply Forall_impl; [|apply detached_toks_pos; exact I].
    intros t P. unfold tok_pos, shift_tok. cbn [t_byte t_start]. subst bb bc. apply (IsPos_shift src pre text); assumption.
  - apply Forall_map. apply Forall_rev.
    eapply Forall_impl; [|apply (ip_errs _ _ I)].
    intros e P. unfold err_pos, shift_err. cbn [e_byte e_char]. subst bb bc. apply (IsPos_shift src pre text); assumption.
Qed.
