(** * The reference lexer for macro-free open code (DESIGN.md section 6.2, property C11).
    A direct longest-match reading of the open-code grammar, written as a pure function over
    the character list with two bits of state ([pending]: a statement has started; [prev]: type
    of the last default-channel token).  It does not use the lexer model's state, modes or
    handlers; it shares with it only the Unicode predicates, the keyword table and the
    numeric-literal readings of Model/Numeric.v (which section 6.2 refers to). *)
From Coq Require Import NArith List Bool String.
From SasLexer Require Import Gen.TokenType Gen.ErrorKind Gen.Channel Model.Base Model.Helpers Model.Numeric.
Import ListNotations.
Open Scope N_scope.

Record rtok : Set := mkRtok { rt_type : TokenType; rt_chan : TokenChannel; rt_byte : N; rt_payload : payload }.
Record rerr : Set := mkRerr { re_kind : ErrorKind; re_byte : N }.

Record rstate : Set := mkRstate {
  rs_pending : bool;
  rs_prev : option TokenType;
  rs_lit : list N;      (* literal buffer, reversed bytes *)
  rs_litlen : N
}.

(** a macro trigger: '%' followed by a name start or '*', or '&'+ followed by a name start *)
Fixpoint macro_free (l : list char) : bool :=
  match l with
  | [] => true
  | c :: r =>
    (if c =? c_pct then
       match r with x :: _ => negb ((x =? c_star) || is_valid_unicode_sas_name_start x) | [] => true end
     else if c =? c_amp then
       match drop_while (fun x => x =? c_amp) r with
       | x :: _ => negb (is_valid_unicode_sas_name_start x)
       | [] => true
       end
     else true) && macro_free r
  end.

(** quoted body after the opening quote: (consumed chars incl. closing quote, closed?, value, escapes?) *)
Fixpoint scan_quoted (q : char) (l : list char) (n : N) (val : list char) (esc : bool)
  : N * bool * list char * bool :=
  match l with
  | [] => (n, false, rev val, esc)
  | c :: r =>
    if c =? q then
      match r with
      | c2 :: r2 => if c2 =? q then scan_quoted q r2 (n + 2) (q :: val) true else (n + 1, true, rev val, esc)
      | [] => (n + 1, true, rev val, esc)
      end
    else scan_quoted q r (n + 1) (c :: val) esc
  end.

Definition lower_is (a : string) (c : char) : bool := lc c =? ch a.

(** literal suffix: (type, extra chars) *)
Definition suffix_of (l : list char) : TokenType * N :=
  match l with
  | c :: r =>
    if negb (is_ascii_lower c || is_ascii_upper c) then (T_StringLiteral, 0)
    else if lower_is "b" c then (T_BitTestingLiteral, 1)
    else if lower_is "d" c then
      match r with
      | t :: _ => if (is_ascii_lower t || is_ascii_upper t) && lower_is "t" t then (T_DateTimeLiteral, 2) else (T_DateLiteral, 1)
      | [] => (T_DateLiteral, 1)
      end
    else if lower_is "n" c then (T_NameLiteral, 1)
    else if lower_is "t" c then (T_TimeLiteral, 1)
    else if lower_is "x" c then (T_HexStringLiteral, 1)
    else (T_StringLiteral, 0)
  | [] => (T_StringLiteral, 0)
  end.

Definition push_lit (st : rstate) (v : list char) : rstate * payload :=
  let bytes := utf8_encode_all v in
  let a := rs_litlen st in
  let b := a + len bytes in
  (mkRstate (rs_pending st) (rs_prev st) (rev_append bytes (rs_lit st)) b, PStr a b).

Fixpoint skipn_N {A} (n : nat) (l : list A) : list A :=
  match n, l with O, _ => l | S k, _ :: r => skipn_N k r | S _, [] => [] end.

(** first index of "*/" *)
Fixpoint find_comment_end (l : list char) (n : N) : option N :=
  match l with
  | a :: ((b :: _) as r) => if (a =? c_star) && (b =? c_slash) then Some (n + 2) else find_comment_end r (n + 1)
  | _ => None
  end.

Fixpoint find_semi (l : list char) (n : N) : N :=   (* chars through the first ';' or to the end *)
  match l with
  | [] => n
  | c :: r => if c =? c_semi then n + 1 else find_semi r (n + 1)
  end.

(** datalines terminator search: chars of data before the terminator, whether it was found,
    and for the unterminated case the number of ';' present *)
Fixpoint starts_semis (k : nat) (l : list char) : bool :=
  match k with O => true | S k' => match l with c :: r => (c =? c_semi) && starts_semis k' r | [] => false end end.

Fixpoint count_semis_upto (k : nat) (l : list char) : N :=
  match k, l with
  | S k', c :: r => if c =? c_semi then 1 + count_semis_upto k' r else 0
  | _, _ => 0
  end.

Fixpoint datalines_data (l : list char) (n : N) (tlen : nat) : N * bool :=
  match l with
  | [] => (n, false)
  | c :: r =>
    if c =? c_semi then
      if blen l <? N.of_nat tlen then (n, false)
      else if starts_semis tlen l then (n, true)
      else datalines_data r (n + 1) tlen
    else datalines_data r (n + 1) tlen
  end.

Definition sym1 (c : char) : option TokenType :=
  if c =? c_lparen then Some T_LPAREN else if c =? c_rparen then Some T_RPAREN
  else if c =? ch "{" then Some T_LCURLY else if c =? ch "}" then Some T_RCURLY
  else if c =? ch "[" then Some T_LBRACK else if c =? ch "]" then Some T_RBRACK
  else if c =? ch "+" then Some T_PLUS else if c =? ch "-" then Some T_MINUS
  else if c =? c_comma then Some T_COMMA else if c =? ch ":" then Some T_COLON
  else if c =? ch "@" then Some T_AT else if c =? ch "#" then Some T_HASH
  else if c =? ch "?" then Some T_QUESTION else None.

Definition charformat_len (l : list char) : option N :=   (* after the '$' *)
  let '(n1, l1) := match l with
                   | c :: r => if is_valid_unicode_sas_name_start c
                               then (1 + count_while is_xid_continue r, drop_while is_xid_continue r) else (0, l)
                   | [] => (0, l)
                   end in
  let n2 := count_while is_ascii_digit l1 in
  match drop_while is_ascii_digit l1 with
  | x :: q => if x =? c_dot then Some (n1 + n2 + 1 + count_while is_ascii_digit q) else None
  | [] => None
  end.

Definition is_x (c : char) : bool := (c =? ch "x") || (c =? ch "X").

(** numeric literal at [l]: (type, payload, chars, errors in order) *)
Definition numeric_literal (l : list char) : TokenType * payload * N * list ErrorKind :=
  let seen_dot := match l with c :: _ => c =? c_dot | [] => false end in
  let hexr := if seen_dot then None else try_parse_hex_integer l in
  let decr := try_parse_decimal l (negb seen_dot) true in
  let pick_hex (h : numres) :=
      let after := skipn_N (N.to_nat (n_len h)) l in
      let has_x := match after with c :: _ => is_x c | [] => false end in
      (n_type h, n_payload h, n_len h + (if has_x then 1 else 0),
       (match n_err h with Some e => [e] | None => [] end) ++ (if has_x then [] else [E_UnterminatedHexNumericLiteral])) in
  let pick_dec (r : numres) := (n_type r, n_payload r, n_len r, match n_err r with Some e => [e] | None => [] end) in
  match decr, hexr with
  | Some dr, Some hr =>
    if n_len hr <? n_len dr then pick_dec dr
    else if n_len dr <? n_len hr then pick_hex hr
    else match skipn_N (N.to_nat (n_len hr)) l with
         | c :: _ => if is_x c then pick_hex hr else pick_dec dr
         | [] => pick_dec dr
         end
  | Some dr, None => pick_dec dr
  | None, Some hr => pick_hex hr
  | None, None => (T_FloatLiteral, PFloat 0, len (take_while is_ascii_digit l), [E_InvalidNumericLiteral])
  end.

Definition DATALINES_WORDS : list (list char * bool) :=
  map (fun p => (string_chars (fst p), snd p))
      [("DATALINES", false); ("CARDS", false); ("LINES", false); ("DATALINES4", true); ("CARDS4", true); ("LINES4", true)]%string.

Fixpoint assoc_chars (k : list char) (m : list (list char * bool)) : option bool :=
  match m with [] => None | (k', v) :: r => if chars_eqb k k' then Some v else assoc_chars k r end.

Fixpoint ws_then_semi (l : list char) (n : N) : option N :=   (* chars through the ';' *)
  match l with
  | c :: r => if c =? c_semi then Some (n + 1) else if is_whitespace c then ws_then_semi r (n + 1) else None
  | [] => None
  end.

Record rout : Set := mkRout { ro_toks : list rtok; ro_errs : list rerr }.

(** one lexeme: tokens (in order), errors, characters consumed, new state *)
Definition lexeme (l : list char) (pos : N) (st : rstate) : list rtok * list rerr * N * rstate :=
  let tok ty chn pl := mkRtok ty chn pos pl in
  let adv (n : N) : N := pos + blen (firstn (N.to_nat n) l) in
  let set p ty (s : rstate) := mkRstate p (Some ty) (rs_lit s) (rs_litlen s) in
  let one ty := ([tok ty CH_DEFAULT PNone], [], 1, set true ty st) in
  let two ty := ([tok ty CH_DEFAULT PNone], [], 2, set true ty st) in
  match l with
  | [] => ([], [], 0, st)
  | c :: r =>
    let c2 := match r with x :: _ => x | [] => 0 end in
    if is_whitespace c then ([tok T_WS CH_HIDDEN PNone], [], count_while is_whitespace l, st)
    else if (c =? c_squote) || (c =? c_dquote) then
      let '(n, closed, val, esc) := scan_quoted c r 1 [] false in
      if negb closed then
        let '(st', pl) := if esc then push_lit st val else (st, PNone) in
        ([tok T_StringLiteral CH_DEFAULT pl], [mkRerr E_UnterminatedStringLiteral (adv n)], n, set true T_StringLiteral st')
      else
        let after := skipn_N (N.to_nat n) l in
        let '(ty, extra) := suffix_of after in
        let total := n + extra in
        let body := firstn (N.to_nat (n - 2)) r in
        let hexv := if tt_eqb ty T_HexStringLiteral
                    then match parse_sas_hex_string (firstn (N.to_nat total) l) with inl v => Some (inl v) | inr e => Some (inr e) end
                    else None in
        let '(st', pl, errs) :=
            match hexv with
            | Some (inl v) => let '(s', p) := push_lit st v in (s', p, [])
            | Some (inr e) =>
              let '(s', p) := if esc then push_lit st val else (st, PNone) in (s', p, [mkRerr e (adv total)])
            | None => let '(s', p) := if esc then push_lit st val else (st, PNone) in (s', p, [])
            end in
        ([tok ty CH_DEFAULT pl], errs, total, set true ty st')
    else if c =? c_semi then ([tok T_SEMI CH_DEFAULT PNone], [], 1, set false T_SEMI st)
    else if c =? c_slash then
      if c2 =? c_star then
        match find_comment_end (skipn_N 2 l) 2 with
        | Some n => ([tok T_CStyleComment CH_COMMENT PNone], [], n, st)
        | None => ([tok T_CStyleComment CH_COMMENT PNone], [mkRerr E_UnterminatedComment (pos + blen l)], len l, st)
        end
      else one T_FSLASH
    else if c =? c_amp then ([tok T_AMP CH_DEFAULT PNone], [], count_while (fun x => x =? c_amp) l, set true T_AMP st)
    else if c =? c_pct then one T_PERCENT
    else if is_ascii_digit c || ((c =? c_dot) && is_ascii_digit c2) then
      let '(ty, pl, n, errs) := numeric_literal l in
      ([tok ty CH_DEFAULT pl], map (fun e => mkRerr e (adv n)) errs, n, set true ty st)
    else if is_valid_unicode_sas_name_start c then
      let ident := take_while ident_char l in
      let n := len ident in
      let plain := ([tok T_Identifier CH_DEFAULT PNone], [], n, set true T_Identifier st) in
      if negb (forallb is_ascii ident) || (MAX_KEYWORDS_LEN <? blen ident) then plain
      else
        match parse_keyword (upper ident) with
        | Some kw => ([tok kw CH_DEFAULT PNone], [], n, set true kw st)
        | None =>
          match assoc_chars (upper ident) DATALINES_WORDS with
          | Some four =>
            let prev_ok := match rs_prev st with None => true | Some p => tt_eqb p T_SEMI end in
            match (if prev_ok then ws_then_semi (skipn_N (N.to_nat n) l) 0 else None) with
            | Some k =>
              let start_n := n + k in
              let after := skipn_N (N.to_nat start_n) l in
              let tlen := if four then 4%nat else 1%nat in
              let '(dn, found) := datalines_data after 0 tlen in
              let dpos := adv start_n in
              let after_data := skipn_N (N.to_nat dn) after in
              let epos := dpos + blen (firstn (N.to_nat dn) after) in
              let term_n := if found then N.of_nat tlen else count_semis_upto tlen after_data in
              ([tok T_DatalinesStart CH_DEFAULT PNone;
                mkRtok T_DatalinesData CH_DEFAULT dpos PNone;
                mkRtok T_SEMI CH_DEFAULT epos PNone],
               (if found then [] else [mkRerr E_UnterminatedDatalines epos]),
               start_n + dn + term_n, set false T_SEMI st)
            | None => plain
            end
          | None => plain
          end
        end
    else if c =? c_star then
      if rs_pending st then (if c2 =? c_star then two T_STAR2 else one T_STAR)
      else ([tok T_PredictedCommentStat CH_COMMENT PNone], [], find_semi r 1, st)
    else if c =? ch "!" then (if c2 =? ch "!" then two T_EXCL2 else one T_EXCL)
    else if c =? 166 then (if c2 =? 166 then two T_BPIPE2 else one T_BPIPE)
    else if c =? ch "|" then (if c2 =? ch "|" then two T_PIPE2 else one T_PIPE)
    else if (c =? 172) || (c =? ch "^") || (c =? ch "~") || (c =? 8728) then (if c2 =? c_eq then two T_NE else one T_NOT)
    else if c =? ch "<" then (if c2 =? c_eq then two T_LE else if c2 =? ch ">" then two T_LTGT else one T_LT)
    else if c =? ch ">" then (if c2 =? c_eq then two T_GE else if c2 =? ch "<" then two T_GTLT else one T_GT)
    else if c =? c_eq then (if c2 =? c_star then two T_SoundsLike else one T_ASSIGN)
    else if c =? c_dot then one T_DOT
    else if c =? ch "$" then
      match charformat_len r with
      | Some n => ([tok T_CharFormat CH_DEFAULT PNone], [], 1 + n, set true T_CharFormat st)
      | None => one T_DOLLAR
      end
    else match sym1 c with
         | Some ty => one ty
         | None => ([tok T_CatchAll CH_HIDDEN PNone], [], 1,
                    mkRstate true (rs_prev st) (rs_lit st) (rs_litlen st))
         end
  end.

Fixpoint reflex_loop (fuel : nat) (l : list char) (pos : N) (st : rstate) (toks : list rtok) (errs : list rerr)
  : list rtok * list rerr * rstate :=
  match fuel with
  | O => (rev toks, rev errs, st)
  | S f =>
    match l with
    | [] => (rev (mkRtok T_EOF CH_DEFAULT pos PNone :: toks), rev errs, st)
    | _ =>
      let '(ts, es, n, st') := lexeme l pos st in
      let k := N.to_nat n in
      reflex_loop f (skipn_N k l) (pos + blen (firstn k l)) st' (rev_append ts toks) (rev_append es errs)
    end
  end.

(** the reference result for a source text (a leading BOM is skipped, offsets are absolute) *)
Definition reflex (src : list char) : list rtok * list rerr * list N :=
  let '(bb, text) := match src with c :: r => if c =? 65279 then (utf8_len c, r) else (0, src) | [] => (0, src) end in
  let '(toks, errs, st) := reflex_loop (S (List.length text)) text bb (mkRstate false None [] 0) [] [] in
  (toks, errs, rev (rs_lit st)).
