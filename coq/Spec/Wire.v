(** * The wire format between the Rust binding and the Python package (C20).
    MessagePack as [rmp_serde::encode::to_vec] writes it for the types involved (structs and
    tuples as arrays, unsigned integers in their shortest form, [f64] as float64, [None] and unit
    variants as nil, byte strings as bin), and a reader for the same subset, as [msgspec] reads it
    into [array_like] structs by position. *)
From Coq Require Import NArith List Bool String.
From SasLexer Require Import Model.Base.
Import ListNotations.
Open Scope N_scope.

Inductive mp : Set :=
| MNil
| MUInt (n : N)
| MF64 (bits : N)
| MBin (b : list N)
| MArr (l : list mp).

(** [k] bytes, big endian *)
Fixpoint be_bytes (k : nat) (n : N) : list N :=
  match k with O => [] | S k' => be_bytes k' (n / 256) ++ [n mod 256] end.

Definition be_value (bs : list N) : N := fold_left (fun a b => a * 256 + b) bs 0.

Definition enc_uint (n : N) : list N :=
  if n <? 128 then [n]
  else if n <? 256 then [204; n]
  else if n <? 65536 then 205 :: be_bytes 2 n
  else if n <? 4294967296 then 206 :: be_bytes 4 n
  else 207 :: be_bytes 8 n.

Definition enc_bin_hdr (n : N) : list N :=
  if n <? 256 then [196; n] else if n <? 65536 then 197 :: be_bytes 2 n else 198 :: be_bytes 4 n.

Definition enc_arr_hdr (n : N) : list N :=
  if n <? 16 then [144 + n] else if n <? 65536 then 220 :: be_bytes 2 n else 221 :: be_bytes 4 n.

Fixpoint encode (v : mp) : list N :=
  match v with
  | MNil => [192]
  | MUInt n => enc_uint n
  | MF64 b => 203 :: be_bytes 8 b
  | MBin b => enc_bin_hdr (len b) ++ b
  | MArr l =>
    enc_arr_hdr (len l) ++
    (fix enc_list (l : list mp) : list N :=
       match l with [] => [] | x :: r => encode x ++ enc_list r end) l
  end.

Definition enc_list (l : list mp) : list N := flat_map encode l.

(** split off [k] items *)
Fixpoint take_n {A} (k : nat) (l : list A) : option (list A * list A) :=
  match k with
  | O => Some ([], l)
  | S k' => match l with
            | [] => None
            | x :: r => match take_n k' r with Some (a, b) => Some (x :: a, b) | None => None end
            end
  end.

Definition read_be (k : nat) (bs : list N) : option (N * list N) :=
  match take_n k bs with Some (a, r) => Some (be_value a, r) | None => None end.

(** reader: [fuel] bounds the nesting depth *)
Fixpoint decode (fuel : nat) (bs : list N) : option (mp * list N) :=
  match fuel with
  | O => None
  | S f =>
    let items :=
        (fix items (k : nat) (bs : list N) : option (list mp * list N) :=
           match k with
           | O => Some ([], bs)
           | S k' =>
             match decode f bs with
             | Some (v, r) => match items k' r with Some (vs, r') => Some (v :: vs, r') | None => None end
             | None => None
             end
           end) in
    let arr (n : N) (r : list N) :=
        match items (N.to_nat n) r with Some (vs, r') => Some (MArr vs, r') | None => None end in
    let bin (n : N) (r : list N) :=
        match take_n (N.to_nat n) r with Some (b, r') => Some (MBin b, r') | None => None end in
    match bs with
    | [] => None
    | t :: r =>
      if t <? 128 then Some (MUInt t, r)
      else if (144 <=? t) && (t <? 160) then arr (t - 144) r
      else if t =? 192 then Some (MNil, r)
      else if t =? 196 then match read_be 1 r with Some (n, r') => bin n r' | None => None end
      else if t =? 197 then match read_be 2 r with Some (n, r') => bin n r' | None => None end
      else if t =? 198 then match read_be 4 r with Some (n, r') => bin n r' | None => None end
      else if t =? 203 then match read_be 8 r with Some (n, r') => Some (MF64 n, r') | None => None end
      else if t =? 204 then match read_be 1 r with Some (n, r') => Some (MUInt n, r') | None => None end
      else if t =? 205 then match read_be 2 r with Some (n, r') => Some (MUInt n, r') | None => None end
      else if t =? 206 then match read_be 4 r with Some (n, r') => Some (MUInt n, r') | None => None end
      else if t =? 207 then match read_be 8 r with Some (n, r') => Some (MUInt n, r') | None => None end
      else if t =? 220 then match read_be 2 r with Some (n, r') => arr n r' | None => None end
      else if t =? 221 then match read_be 4 r with Some (n, r') => arr n r' | None => None end
      else None
    end
  end.

(** well-formed values: what the Rust types can hold *)
Fixpoint depth (v : mp) : nat :=
  match v with
  | MArr l => S ((fix dl (l : list mp) : nat := match l with [] => O | x :: r => Nat.max (depth x) (dl r) end) l)
  | _ => O
  end.

Fixpoint wf (v : mp) : bool :=
  match v with
  | MNil => true
  | MUInt n => n <? 18446744073709551616
  | MF64 b => b <? 18446744073709551616
  | MBin b => (len b <? 4294967296) && forallb (fun x => x <? 256) b
  | MArr l => (len l <? 4294967296) &&
              (fix wl (l : list mp) : bool := match l with [] => true | x :: r => wf x && wl r end) l
  end.

(** ** The structures on the wire *)
Definition mp_payload (p : payload) : mp :=
  match p with
  | PNone => MNil
  | PInt v => MUInt v
  | PFloat b => MF64 b
  | PStr a b => MArr [MUInt a; MUInt b]
  end.

(** [ResolvedTokenInfo], in declaration order: name and value of every field *)
Record rtoken : Set := mkRtoken {
  rk_channel : N; rk_token_type : N; rk_token_index : N; rk_start : N; rk_stop : N;
  rk_line : N; rk_column : N; rk_end_line : N; rk_end_column : N; rk_payload : payload
}.

Record rerror : Set := mkRerror {
  rr_error_kind : N; rr_at_byte_offset : N; rr_at_char_offset : N; rr_on_line : N; rr_at_column : N;
  rr_last_token : option N
}.

Definition named_token (t : rtoken) : list (string * mp) :=
  [("channel", MUInt (rk_channel t)); ("token_type", MUInt (rk_token_type t));
   ("token_index", MUInt (rk_token_index t)); ("start", MUInt (rk_start t)); ("stop", MUInt (rk_stop t));
   ("line", MUInt (rk_line t)); ("column", MUInt (rk_column t)); ("end_line", MUInt (rk_end_line t));
   ("end_column", MUInt (rk_end_column t)); ("payload", mp_payload (rk_payload t))]%string.

Definition named_error (e : rerror) : list (string * mp) :=
  [("error_kind", MUInt (rr_error_kind e)); ("at_byte_offset", MUInt (rr_at_byte_offset e));
   ("at_char_offset", MUInt (rr_at_char_offset e)); ("on_line", MUInt (rr_on_line e));
   ("at_column", MUInt (rr_at_column e));
   ("last_token", match rr_last_token e with Some i => MUInt i | None => MNil end)]%string.

(** serde: a struct is the array of its fields in declaration order *)
Definition mp_struct (fields : list (string * mp)) : mp := MArr (map snd fields).

Definition mp_result (toks : list rtoken) (errs : list rerror) (lit : list N) : mp :=
  MArr [MArr (map (fun t => mp_struct (named_token t)) toks);
        MArr (map (fun e => mp_struct (named_error e)) errs);
        MBin lit].

Definition wire_bytes (toks : list rtoken) (errs : list rerror) (lit : list N) : list N :=
  encode (mp_result toks errs lit).

(** msgspec: an [array_like] Struct takes the array's items by position, under the names of its
    annotations; more or fewer items than fields is an error *)
Fixpoint zip_fields (names : list string) (items : list mp) : option (list (string * mp)) :=
  match names, items with
  | [], [] => Some []
  | n :: ns, v :: vs => match zip_fields ns vs with Some r => Some ((n, v) :: r) | None => None end
  | _, _ => None
  end.

Definition py_struct (names : list string) (v : mp) : option (list (string * mp)) :=
  match v with MArr items => zip_fields names items | _ => None end.

Fixpoint all_some {A} (l : list (option A)) : option (list A) :=
  match l with
  | [] => Some []
  | Some x :: r => match all_some r with Some xs => Some (x :: xs) | None => None end
  | None :: _ => None
  end.

(** what Python receives: for every token and error, the value bound to each attribute name *)
Definition py_decode (tok_names err_names : list string) (fuel : nat) (bs : list N)
  : option (list (list (string * mp)) * list (list (string * mp)) * list N) :=
  match decode fuel bs with
  | Some (MArr [MArr ts; MArr es; MBin lit], []) =>
    match all_some (map (py_struct tok_names) ts), all_some (map (py_struct err_names) es) with
    | Some pt, Some pe => Some (pt, pe, lit)
    | _, _ => None
    end
  | _ => None
  end.
