(** * Closed prefixes and the composition of results (DESIGN.md section 6.4, property C15).
    [closed A r]: lexing [A] alone gave [r], which returned, ended in the initial open-code
    configuration, reported nothing unterminated, and whose last token before EOF is a consumed
    ';' or a statement-level comment closed by its own ';'.
    [glue rA rB]: [rA] without its EOF followed by [rB] shifted by the extent of [A]. *)
From Coq Require Import NArith List Bool.
From SasLexer Require Import Gen.TokenType Gen.ErrorKind Gen.Channel Model.Base Model.Core Model.Helpers Model.Lexer3.
Import ListNotations.
Open Scope N_scope.

Definition is_unterminated (e : ErrorKind) : bool :=
  ek_eqb e E_UnterminatedStringLiteral || ek_eqb e E_UnterminatedComment ||
  ek_eqb e E_UnterminatedDatalines || ek_eqb e E_UnterminatedHexNumericLiteral.

(** a [%*] comment body (after the two opening characters) ends with its first ';' outside quotes *)
Fixpoint mc_ends (l : list char) (quote : option char) : bool :=
  match l with
  | [] => false
  | c :: r =>
    match quote with
    | None => if c =? c_semi then match r with [] => true | _ => false end
              else if (c =? c_squote) || (c =? c_dquote) then mc_ends r (Some c) else mc_ends r None
    | Some q => if c =? q then mc_ends r None else mc_ends r quote
    end
  end.

Definition initial_config (s : st) : bool :=
  match s_modes s with [MDefault] => true | _ => false end &&
  (s_mnl s =? 0) && match s_pstat s with [false] => true | _ => false end && negb (cp_is_some s).

Fixpoint last2 {A} (l : list A) : option (A * A) :=
  match l with
  | [a; b] => Some (a, b)
  | _ :: r => last2 r
  | [] => None
  end.

Definition closed (A : list char) (r : lex_result) : bool :=
  match lr_outcome r with Some _ => false | None => true end &&
  negb (s_aborted (lr_state r)) &&
  initial_config (lr_end r) &&
  negb (existsb (fun e => is_unterminated (e_kind e)) (lr_errors r)) &&
  match last2 (b_toks (lr_buffer r)) with
  | Some (t, eof) =>
    let text := firstn (N.to_nat (t_start eof - t_start t)) (skipn (N.to_nat (t_start t)) A) in
    (t_start eof =? len A) &&
    (if tt_eqb (t_type t) T_SEMI then negb (t_start eof =? t_start t)
     else if tt_eqb (t_type t) T_PredictedCommentStat then
       match rev text with c :: _ => c =? c_semi | [] => false end
     else if tt_eqb (t_type t) T_MacroComment then mc_ends (skipn 2 text) None
     else false)
  | None => false
  end.

(** extent of A: bytes, chars, line feeds, tokens (without EOF), literal bytes, start (char) of the last line *)
Definition shift_payload (d : N) (p : payload) : payload :=
  match p with PStr a b => PStr (a + d) (b + d) | x => x end.

Definition glue_tok (nb nc nl nlit : N) (t : tok) : tok :=
  mkTok (t_chan t) (t_type t) (t_byte t + nb) (t_start t + nc) (t_line t + nl) (shift_payload nlit (t_payload t)).

Definition glue_err (nb nc nl nt last_line_start : N) (e : err_info) : err_info :=
  mkErr (e_kind e) (e_byte e + nb) (e_char e + nc) (e_line e + nl)
        (if e_line e =? 1 then e_col e + (nc - last_line_start) else e_col e)
        (match e_last e with Some i => Some (i + nt) | None => if 0 <? nt then Some (nt - 1) else None end).

Record result : Set := mkResult { r_buf : tbuf; r_errs : list err_info }.

Definition result_of (r : lex_result) : result := mkResult (lr_buffer r) (lr_errors r).

Definition glue (A : list char) (ra rb : result) : result :=
  let nb := blen A in
  let nc := len A in
  let nl := len (b_lines (r_buf ra)) - 1 in
  let nt := len (b_toks (r_buf ra)) - 1 in
  let nlit := len (b_lit (r_buf ra)) in
  let lls := match rev (b_lines (r_buf ra)) with l :: _ => l_start l | [] => 0 end in
  mkResult
    (mkTbuf (b_lines (r_buf ra) ++ map (fun l => mkLine (l_byte l + nb) (l_start l + nc)) (tl (b_lines (r_buf rb))))
            (removelast (b_toks (r_buf ra)) ++ map (glue_tok nb nc nl nlit) (b_toks (r_buf rb)))
            (b_lit (r_buf ra) ++ b_lit (r_buf rb)))
    (r_errs ra ++ map (glue_err nb nc nl nt lls) (r_errs rb)).


(** decidable equality of results *)
Fixpoint list_eqb {A} (f : A -> A -> bool) (l l' : list A) : bool :=
  match l, l' with
  | [], [] => true
  | a :: r, b :: r' => f a b && list_eqb f r r'
  | _, _ => false
  end.
Definition tok_eqb (a b : tok) : bool :=
  ch_eqb (t_chan a) (t_chan b) && tt_eqb (t_type a) (t_type b) && (t_byte a =? t_byte b) &&
  (t_start a =? t_start b) && (t_line a =? t_line b) && payload_eqb (t_payload a) (t_payload b).
Definition line_eqb (a b : line_info) : bool := (l_byte a =? l_byte b) && (l_start a =? l_start b).
Definition optN_eqb (a b : option N) : bool :=
  match a, b with Some x, Some y => x =? y | None, None => true | _, _ => false end.
Definition err_eqb (a b : err_info) : bool :=
  ek_eqb (e_kind a) (e_kind b) && (e_byte a =? e_byte b) && (e_char a =? e_char b) &&
  (e_line a =? e_line b) && (e_col a =? e_col b) && optN_eqb (e_last a) (e_last b).
Definition result_eqb (x y : result) : bool :=
  list_eqb line_eqb (b_lines (r_buf x)) (b_lines (r_buf y)) &&
  list_eqb tok_eqb (b_toks (r_buf x)) (b_toks (r_buf y)) &&
  list_eqb N.eqb (b_lit (r_buf x)) (b_lit (r_buf y)) &&
  list_eqb err_eqb (r_errs x) (r_errs y).

(** the property, for one pair: [Some true] holds, [Some false] violated, [None] A is not a closed prefix
    (or B starts with a byte-order mark, which is not a continuation) *)
Definition compose_check (cfg : config) (A B : list char) : option bool :=
  let ra := lex cfg A in
  if negb (closed A ra) then None
  else match B with
       | c :: _ => if c =? 65279 then None else
         let rb := lex cfg B in
         let rab := lex cfg (A ++ B) in
         match lr_outcome rb, lr_outcome rab with
         | None, None =>
           if s_aborted (lr_state rb) || s_aborted (lr_state rab) then None
           else Some (result_eqb (result_of rab) (glue A (result_of ra) (result_of rb)))
         | _, _ => Some false
         end
       | [] => Some true
       end.
