(** * C11 - macro-free open code is tokenized according to the SAS lexical grammar.
    The grammar's executable form is [Spec.RefLex.reflex] (DESIGN 6.2): a pure longest-match
    reader with two bits of carried state, written without the lexer model's modes or handlers.
    Decided by: (a) the theorems below, which show the reference is a longest-match reading
    (maximal runs, first comment closer) and fix its values on a set of pinned neighbourhoods;
    (b) the check, which runs the extracted [reflex] and the implementation on the same
    macro-free inputs and reports every difference as a violation with the (shrunk) input.
    (c) [C11_lexer_is_reference], which proves the statement [C11_statement] for the lexer model:
    on every macro-free text (no macro trigger anywhere, quoted text included; with or without a
    byte-order mark; either setting of the macro-separator switch) the model's release-profile run
    returns, is not cut by the iteration budget, and yields exactly the reference reading - types,
    channels, byte offsets and payloads of all tokens, kinds and offsets of all errors, the literal
    buffer. The proof is a simulation: every lexeme class of the reference (whitespace, comments,
    symbols, numbers, identifiers and keywords, character formats, datalines blocks, statement
    comments, single- and double-quoted literals with suffixes, escapes, hex decoding and the
    unterminated forms) is matched by one or two iterations of the model's main loop, and the
    text that ends right after an opening double quote by [finalize_lexing]. No size bound.
    What ties the model to the Rust code is the correspondence check (the same inputs run through
    the extracted model and the implementation, both profiles). *)
From Coq Require Import NArith List Bool String Ascii.
From SasLexer Require Import Gen.TokenType Gen.ErrorKind Gen.Channel Model.Base Model.Helpers Model.Numeric
     Model.Core Model.Lexer3 Spec.RefLex Proofs.RefLexProofs Proofs.OcBase Proofs.OcWhole Proofs.OcAll Proofs.MacroFree.
Import ListNotations.
Open Scope N_scope.

Theorem C11_whitespace_is_maximal : forall c r pos st,
  is_whitespace c = true ->
  let '(toks, errs, n, st') := lexeme (c :: r) pos st in
  map rt_type toks = [T_WS] /\ map rt_chan toks = [CH_HIDDEN] /\ errs = [] /\ st' = st /\
  forallb is_whitespace (firstn (N.to_nat n) (c :: r)) = true /\
  match skipn (N.to_nat n) (c :: r) with x :: _ => is_whitespace x = false | [] => True end.
Proof. exact reflex_ws_maximal. Qed.
Print Assumptions C11_whitespace_is_maximal.

Theorem C11_comment_ends_at_first_closer : forall rest pos st k,
  find_comment_end rest 2 = Some k ->
  lexeme (c_slash :: c_star :: rest) pos st =
    ([mkRtok T_CStyleComment CH_COMMENT pos PNone], [], k, st) /\
  exists body post, rest = body ++ c_star :: c_slash :: post /\ k = len body + 4 /\
                    find_comment_end (body ++ [c_star]) 0 = None.
Proof. exact reflex_cstyle_comment_extent. Qed.
Print Assumptions C11_comment_ends_at_first_closer.

Theorem C11_star_depends_on_statement_position : forall r pos lit n prev,
  let st b := mkRstate b prev lit n in
  (let '(toks, _, k, _) := lexeme (c_star :: r) pos (st false) in
   map rt_type toks = [T_PredictedCommentStat] /\ map rt_chan toks = [CH_COMMENT] /\ k = find_semi r 1) /\
  (let '(toks, _, k, _) := lexeme (c_star :: r) pos (st true) in
   map rt_chan toks = [CH_DEFAULT] /\
   (map rt_type toks = [T_STAR] /\ k = 1 \/ map rt_type toks = [T_STAR2] /\ k = 2)).
Proof. exact reflex_star_position. Qed.
Print Assumptions C11_star_depends_on_statement_position.

Fixpoint chars_of_string (s : string) : list char :=
  match s with EmptyString => [] | String a r => N_of_ascii a :: chars_of_string r end.
(** the property, for the lexer model: its result on macro-free text is the reference reading *)
Definition agrees (msep : bool) (src : list char) : Prop :=
  let r := lex (mkCfg false msep) src in
  let '(T, E, lit) := reflex src in
  lr_outcome r = None /\ s_aborted (lr_state r) = false /\
  map tv0 (b_toks (lr_buffer r)) = map rv T /\ map ev0 (lr_errors r) = map rve E /\
  b_lit (lr_buffer r) = lit.

Definition C11_statement : Prop := forall msep src, macro_free (body_of src) = true -> agrees msep src.

Theorem C11_lexer_is_reference : C11_statement.
Proof. exact mf_C11_lexer_is_reference. Qed.
Print Assumptions C11_lexer_is_reference.

(** the premise is satisfiable, by texts with both kinds of quoted literals, comments and a datalines block *)
Example c11_premise_example :
  macro_free (body_of (chars_of_string "data a; x=""a""""b""n; y='41'x; *c; /*d*/ cards; 1 2;; run;")) = true.
Proof. vm_compute. reflexivity. Qed.

(** pinned neighbourhoods (evaluated by the kernel) *)
Definition types_of (s : string) : list TokenType := map rt_type (fst (fst (reflex (chars_of_string s)))).

Example c11_examples :
  types_of "a*b;*c;" = [T_Identifier; T_STAR; T_Identifier; T_SEMI; T_PredictedCommentStat; T_EOF] /\
  types_of "x='a'dt;" = [T_Identifier; T_ASSIGN; T_DateTimeLiteral; T_SEMI; T_EOF] /\
  types_of "a<>b" = [T_Identifier; T_LTGT; T_Identifier; T_EOF] /\
  types_of "1e3 1e3x" = [T_FloatExponentLiteral; T_WS; T_IntegerLiteral; T_EOF] /\
  types_of "$f1. $" = [T_CharFormat; T_WS; T_DOLLAR; T_EOF].
Proof. vm_compute. repeat split; reflexivity. Qed.
