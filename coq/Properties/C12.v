(** * C12 - well-formed programs lex without diagnostics and leave no residual state.
    Proved so far (sub-grammar, grown production by production; the full statement is tested):
    [Program ::= ';'*] - for every number of empty statements the release-profile run returns,
    reports no error, emits one SEMI token per statement followed by EOF, and is back in the
    initial open-code configuration at the end of the input.  The proof is the segment-lemma
    pattern: [default_semi_step] holds from *any* state in open-code mode and is obtained by
    symbolic execution of the handler; the theorem is an induction over repetitions.  The other
    productions of the construct grammar (DESIGN.md 6.3) are covered by the check: programs
    sampled from the whole grammar, lexed by implementation and model, must show no error and
    the initial configuration at the end.
    For every macro-free text (release profile) [C12_macro_free_no_residue] proves the configuration
    half of the statement: when the input is exhausted no checkpoint is live, the macro nesting level
    is 0, and the mode stack is the open-code stack - or, if the text ends inside a double-quoted
    string, that stack with the string-expression mode on top, which finalization then closes
    (corollary of the C11 simulation). *)
From Coq Require Import NArith List Bool.
From SasLexer Require Import Gen.TokenType Gen.ErrorKind Gen.Channel Model.Base Model.Core Model.Helpers
     Model.Lexer3 Spec.RefLex Proofs.SemiProgram Proofs.OcBase Proofs.OcWhole Proofs.OcAll Proofs.MacroFree.
Import ListNotations.
Open Scope N_scope.

Theorem C12_empty_statements : forall (m : bool) (n : nat),
  lr_outcome (lex (mkCfg false m) (semis n)) = None /\
  lr_errors (lex (mkCfg false m) (semis n)) = [] /\
  map t_type (b_toks (lr_buffer (lex (mkCfg false m) (semis n)))) = repeat T_SEMI n ++ [T_EOF] /\
  s_modes (lr_end (lex (mkCfg false m) (semis n))) = [MDefault] /\
  s_mnl (lr_end (lex (mkCfg false m) (semis n))) = 0 /\
  cp_is_some (lr_end (lex (mkCfg false m) (semis n))) = false /\
  s_pstat (lr_end (lex (mkCfg false m) (semis n))) = [false] /\
  s_aborted (lr_end (lex (mkCfg false m) (semis n))) = false.
Proof. exact semis_program. Qed.
Print Assumptions C12_empty_statements.

(** the step behind it, from any state in open-code mode *)
Theorem C12_semicolon_step : forall F msep s ms r p b ps,
  s_modes s = MDefault :: ms -> c_rest (s_cur s) = c_semi :: r ->
  w_nlines (s_buf s) = Npos p -> s_pstat s = b :: ps ->
  exists s', run false (lex_token F msep c_semi) s = Done tt s' /\
    s_errs s' = s_errs s /\ s_modes s' = s_modes s /\ c_rest (s_cur s') = r /\ s_pstat s' = false :: ps.
Proof.
  intros F msep s ms r p b ps H1 H2 H3 H4.
  destruct (default_semi_step F msep s ms r p b ps H1 H2 H3 H4) as (s' & Hr & Ho).
  exists s'. split; [exact Hr|]. unfold observe in Ho. inversion Ho. repeat split; assumption.
Qed.

Theorem C12_macro_free_no_residue : forall (msep : bool) (src : list char),
  macro_free (body_of src) = true ->
  let e := lr_end (lex (mkCfg false msep) src) in
  s_cp e = None /\ s_mnl e = 0 /\ (s_modes e = [MDefault] \/ s_modes e = [MStringExpr true; MDefault]).
Proof. exact mf_C12_macro_free_no_residue. Qed.
Print Assumptions C12_macro_free_no_residue.
