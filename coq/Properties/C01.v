(** * C01 - lexing is total: what is proved so far.
    Totality over all inputs needs a termination argument through every handler (the measure is
    described in DESIGN.md section 7 C01) and is not proved here; the check drives the implementation
    (debug and release, with the iteration-budget hook) and the model over every input stream
    and judges panics, budget exhaustion, internal errors and the iteration bound directly.
    Proved, for every program over the primitives and hence every handler:
    - the pending-statement stack is never empty, so [pending_stat] / [set_pending_stat] never
      take their internal-error branch (InternalErrorEmptyPendingStatStack);
    - the positions handed to the work buffer are positions of the text (C03), so the checks
      "offset within the source" cannot fail for a reason other than a wrong token order.
    Proved for the production [';'*] of the construct grammar: the run returns within the
    budget, without internal error (C12_empty_statements).
    Proved for every macro-free text (no macro trigger anywhere; any length, any characters,
    with or without byte-order mark; release profile): the run returns, is not cut by the
    iteration budget, reports no error of the internal class, and stays linear: at most two
    scanner iterations per character, 3n+4 tokens and 2n+2 errors
    ([C01_macro_free_total], a corollary of the simulation of C11 and of the fact that the
    reference lexer only reports user-level kinds). *)
From Coq Require Import NArith List Bool Lia.
From SasLexer Require Import Gen.TokenType Gen.ErrorKind Gen.Channel Model.Base Model.Core Model.Lexer3 Spec.RefLex
     Proofs.Generic Proofs.NoPanic Proofs.SemiProgram Proofs.RefLexErrors Proofs.OcBase Proofs.OcWhole Proofs.OcAll Proofs.MacroFree.
Import ListNotations.
Open Scope N_scope.

Theorem C01_pending_stack_never_empty : forall (d : bool) (A : Type) (p : prog A) (s : st),
  s_pstat s <> [] ->
  match run d p s with Done _ s' => s_pstat s' <> [] | Panic _ s' => s_pstat s' <> [] end.
Proof. intros d A p s H. exact (run_pstat d p s H). Qed.
Print Assumptions C01_pending_stack_never_empty.

Theorem C01_no_pending_stack_error : forall d s, s_pstat s <> [] ->
  (exists b, exec d OPending s = Done b s) /\
  (forall v, exists s', exec d (OSetPending v) s = Done tt s' /\ s_errs s' = s_errs s).
Proof. exact pending_no_internal_error. Qed.

Theorem C01_initial_stack : forall text, s_pstat (init text) <> [].
Proof. intros text. cbn. discriminate. Qed.

Theorem C01_empty_statements_terminate : forall (m : bool) (n : nat),
  lr_outcome (lex (mkCfg false m) (semis n)) = None /\
  s_aborted (lr_end (lex (mkCfg false m) (semis n))) = false /\
  lr_errors (lex (mkCfg false m) (semis n)) = [].
Proof.
  intros m n. destruct (semis_program m n) as (H1 & H2 & _ & _ & _ & _ & _ & H8). auto.
Qed.

Theorem C01_macro_free_total : forall msep src, macro_free (body_of src) = true ->
  let r := lex (mkCfg false msep) src in
  lr_outcome r = None /\ s_aborted (lr_end r) = false /\ s_aborted (lr_state r) = false /\
  Forall (fun e => ek_is_internal (e_kind e) = false) (lr_errors r) /\
  (* linear work and output *)
  s_iters (lr_end r) <= 2 * len src /\
  (List.length (b_toks (lr_buffer r)) <= 3 * List.length src + 4)%nat /\
  (List.length (lr_errors r) <= 2 * List.length src + 2)%nat.
Proof. exact mf_C01_macro_free_total. Qed.
Print Assumptions C01_macro_free_total.

(** the premise is satisfiable *)
Example c01_macro_free_example : macro_free (body_of [100; 97; 116; 97; 32; 34; 97; 59]) = true.
Proof. vm_compute. reflexivity. Qed.
