(** * C05 - the bulk resolved-token view equals the per-token accessors.
    This file contains only statements closed by [exact]; the proofs are in Proofs/. *)
From Coq Require Import NArith List.
From SasLexer Require Import Gen.TokenType Gen.ErrorKind Gen.Channel Model.Base Model.Buffer Proofs.BufferProofs Proofs.WfCheck.
Import ListNotations.
Open Scope N_scope.

(** For every well-formed buffer, in both build profiles ([d] = overflow checks and debug
    assertions), [into_resolved_token_vec] returns (no panic) exactly one row per token, in
    order, and row [k] is field by field what the ten accessors return for token [k] - each of
    which succeeds. *)
Theorem C05_views_agree : forall (d : bool) (b : tbuf), WFbuf b ->
  exists rows,
    into_resolved_token_vec d b = Some rows /\
    len rows = n_toks b /\
    forall k r, nth_error rows k = Some r -> row_of_accessors d b (N.of_nat k) = AOk r.
Proof. exact views_agree. Qed.
Print Assumptions C05_views_agree.

(** The same with the decidable premise that the check evaluates on every buffer the
    implementation returns ([wfbuf_b] is extracted and run on the implementation's output). *)
Theorem C05_views_agree_checked : forall (d : bool) (b : tbuf), wfbuf_b b = true ->
  exists rows,
    into_resolved_token_vec d b = Some rows /\
    len rows = n_toks b /\
    forall k r, nth_error rows k = Some r -> row_of_accessors d b (N.of_nat k) = AOk r.
Proof. intros d b H. exact (views_agree d b (wfbuf_b_sound b H)). Qed.
Print Assumptions C05_views_agree_checked.

(** Non-vacuity: a buffer with an empty token at a line start, a token ending in a line feed
    and a multi-line token is well formed, and the statement computes on it. *)
Definition ex_buf : tbuf :=
  mkTbuf [mkLine 3 1; mkLine 6 4; mkLine 9 7]
         [mkTok CH_DEFAULT T_Identifier 3 1 0 PNone;      (* "ab\n" ends in LF *)
          mkTok CH_DEFAULT T_MacroStringEmpty 6 4 1 PNone; (* empty token at a line start *)
          mkTok CH_HIDDEN T_WS 6 4 1 PNone;                (* "c\nd" spans two lines *)
          mkTok CH_DEFAULT T_EOF 10 8 2 PNone]
         [].
Example ex_buf_rows :
  into_resolved_token_vec true ex_buf =
  Some [mkRow CH_DEFAULT T_Identifier 0 1 4 1 0 1 3 PNone;
        mkRow CH_DEFAULT T_MacroStringEmpty 1 4 4 2 0 2 0 PNone;
        mkRow CH_HIDDEN T_WS 2 4 8 2 0 3 1 PNone;
        mkRow CH_DEFAULT T_EOF 3 8 8 3 1 3 1 PNone].
Proof. vm_compute. reflexivity. Qed.
Example ex_buf_wf : WFbuf ex_buf.
Proof. apply wfbuf_b_sound. vm_compute. reflexivity. Qed.
