(** * C07 - string payloads: hex string literals.
    Proved (all inputs): the hex-string decoder accepts exactly the literals whose body, commas
    removed, is an even number of hex digits, and returns the byte values of the digit pairs
    (Latin-1: byte = code point); everything else is InvalidHexStringConstant.  That payload
    ranges partition the literal buffer and that every payload equals the unquoted token text
    is tested on every token of every input by the check's oracle (independent unquoting).
    For macro-free texts (release profile) [C07_macro_free_ranges] proves the partition clause outright:
    the string payloads of successive tokens are consecutive ranges (a0,a1) (a1,a2) ... starting at 0
    and ending at the length of the literal buffer (corollary of the C11 simulation; the content of
    each range is the reference's unquoted text by the same theorem). *)
From Coq Require Import NArith List Bool.
From SasLexer Require Import Gen.TokenType Gen.ErrorKind Gen.Channel Model.Base Model.Helpers Model.Numeric Model.Core Model.Lexer3 Spec.RefLex Proofs.HexString
     Proofs.RefLexRanges Proofs.OcBase Proofs.OcWhole Proofs.OcAll Proofs.MacroFree.
Import ListNotations.
Open Scope N_scope.

Theorem C07_hex_string_decoding : forall q body q2 x,
  is_ascii q = true -> is_ascii q2 = true -> is_ascii x = true ->
  parse_sas_hex_string (q :: body ++ [q2; x]) =
  if forallb is_ascii_hexdigit (filter (fun c => negb (c =? c_comma)) body)
     && Nat.even (List.length (filter (fun c => negb (c =? c_comma)) body))
  then inl (decode_pairs (filter (fun c => negb (c =? c_comma)) body))
  else inr E_InvalidHexStringConstant.
Proof. exact parse_sas_hex_string_spec. Qed.
Print Assumptions C07_hex_string_decoding.

Example c07_example :
  parse_sas_hex_string [39; 52; 49; 44; 52; 50; 39; 120] = inl [65; 66] /\
  parse_sas_hex_string [39; 43; 49; 39; 120] = inr E_InvalidHexStringConstant.
Proof. split; reflexivity. Qed.

(** macro-free texts: the string payload ranges tile the literal buffer;
    [contig a rs z] = rs is (a,a1) (a1,a2) ... (ak,z) with a <= a1 <= ... <= z *)
Theorem C07_macro_free_ranges : forall (msep : bool) (src : list char),
  macro_free (body_of src) = true ->
  let r := lex (mkCfg false msep) src in
  contig 0 (tranges (b_toks (lr_buffer r))) (len (b_lit (lr_buffer r))).
Proof. exact mf_C07_macro_free_ranges. Qed.
Print Assumptions C07_macro_free_ranges.
