(** * C20 - the Python binding gives Python code the same positional guarantees.
    Proved:
    - the MessagePack reader reads back every well-formed value the writer wrote
      ([decode (encode v ++ rest) = Some (v, rest)], all sizes, all nesting);
    - for every token vector, error vector and literal buffer, decoding the bytes of
      [(tokens, errors, bytes)] through the attribute names of the Python [Token] and [Error]
      classes binds each attribute to the Rust field at the same position; the field lists are
      generated from the sources on both sides (the lexer crate the binding links, token.py,
      error.py) and agree name by name up to the one documented rename;
    - the Python enum modules list exactly the codes and (case-normalised) names of the linked
      crate's enums.
    Checked at run time by the check (not provable here): the extension module built from a scratch
    copy of the tree regenerates byte-identical enum modules; the bytes it returns are the bytes
    [wire_bytes] (extracted) gives for the values they decode to; the decoded tokens satisfy the
    Python-level positional contract on every input on which the binding returns; it returns
    on well-formed programs.  The lexer inside the binding is the published registry crate,
    which is not modelled. *)
From Coq Require Import NArith List Bool String.
From SasLexer Require Import Model.Base Spec.Wire Proofs.WireProofs Gen.WireFields.
Import ListNotations.
Open Scope N_scope.

Theorem C20_msgpack_roundtrip : forall v, wf v = true ->
  forall f rest, (depth v <= f)%nat -> decode (S f) (encode v ++ rest) = Some (v, rest).
Proof. exact decode_encode. Qed.
Print Assumptions C20_msgpack_roundtrip.

(** the Coq records list the Rust fields in the order the linked crate declares them *)
Theorem C20_model_fields_are_source_fields :
  (forall t, map fst (named_token t) = RS_TOKEN_FIELDS) /\ (forall e, map fst (named_error e) = RS_ERROR_FIELDS).
Proof. split; intros; reflexivity. Qed.
Print Assumptions C20_model_fields_are_source_fields.

Definition rename (n : string) : string :=
  match find (fun p => String.eqb (fst p) n) FIELD_ALIASES with Some p => snd p | None => n end.

Theorem C20_field_orders_agree :
  map rename RS_TOKEN_FIELDS = PY_TOKEN_FIELDS /\ map rename RS_ERROR_FIELDS = PY_ERROR_FIELDS.
Proof. split; vm_compute; reflexivity. Qed.
Print Assumptions C20_field_orders_agree.

Theorem C20_python_view : forall toks errs lit, result_ok toks errs lit = true ->
  py_decode PY_TOKEN_FIELDS PY_ERROR_FIELDS 8 (wire_bytes toks errs lit) =
  Some (map (fun t => combine PY_TOKEN_FIELDS (map snd (named_token t))) toks,
        map (fun e => combine PY_ERROR_FIELDS (map snd (named_error e))) errs, lit).
Proof. intros. apply python_view; [reflexivity|reflexivity|assumption]. Qed.
Print Assumptions C20_python_view.

(** attribute by attribute: the Python name is the (renamed) Rust name *)
Theorem C20_python_attributes : forall t e,
  combine PY_TOKEN_FIELDS (map snd (named_token t)) = map (fun p => (rename (fst p), snd p)) (named_token t) /\
  combine PY_ERROR_FIELDS (map snd (named_error e)) = map (fun p => (rename (fst p), snd p)) (named_error e).
Proof. intros t e. split; reflexivity. Qed.
Print Assumptions C20_python_attributes.

Theorem C20_enums_are_the_linked_crates :
  PY_TOKEN_TYPES = LINKED_TOKEN_TYPES /\ PY_CHANNELS = LINKED_CHANNELS /\ PY_ERROR_KINDS = LINKED_ERROR_KINDS.
Proof. repeat split; vm_compute; reflexivity. Qed.
Print Assumptions C20_enums_are_the_linked_crates.

Example c20_example :
  wire_bytes [mkRtoken 0 172 0 0 1 1 0 1 1 PNone; mkRtoken 0 0 1 1 1 1 1 1 1 PNone] [] [] =
  [147; 146; 154; 0; 204; 172; 0; 0; 1; 1; 0; 1; 1; 192; 154; 0; 0; 1; 1; 1; 1; 1; 1; 1; 192; 144; 196; 0].
Proof. vm_compute. reflexivity. Qed.
