(** * C19 - the result is a function of the source text alone: the model part.
    Debug assertions, overflow checks and the debug-only loop detector are pure observers.
    (Threads, toolchains and optimisation levels are outside any model: they are covered by
    run-time comparison of the builds, see DESIGN.md.) *)
From Coq Require Import NArith List.
From SasLexer Require Import Gen.TokenType Gen.ErrorKind Gen.Channel Model.Base Model.Core
     Model.Lexer3 Proofs.DbgErase.
Import ListNotations.
Open Scope N_scope.

(** For every program over the primitives (hence every handler): a debug run that completes
    without the loop detector firing is step for step the release run. *)
Theorem C19_every_program : forall (A : Type) (p : prog A) (s : st) (a : A) (s' : st),
  run true p s = Done a s' -> s_loop_detected s' = false -> run false p s = Done a s'.
Proof. exact (@run_dbg_release). Qed.
Print Assumptions C19_every_program.

(** For the whole lexer, every source text and both feature settings: if the debug-profile
    run returns (no assertion fails, no overflow check trips) and its loop detector stays
    silent, the release-profile run returns the identical result - tokens, payloads, literal
    buffer, lines, errors, iteration count and final lexer state. *)
Theorem C19_debug_release : forall (m : bool) (src : list char),
  lr_outcome (lex (mkCfg true m) src) = None ->
  s_loop_detected (lr_state (lex (mkCfg true m) src)) = false ->
  lex (mkCfg false m) src = lex (mkCfg true m) src.
Proof.
  intros m src. unfold lex. destruct (split_bom src) as [[bb bc] text]. unfold lex_text. cbn [dbg msep].
  match goal with |- context [run true ?p (init text)] => set (ml := p) end.
  destruct (run true ml (init text)) as [det s1|site s1] eqn:E1; [|cbn; discriminate].
  destruct det.
  - cbn [lr_outcome lr_state]. intros _ F. rewrite (run_dbg_release ml _ _ _ E1 F). reflexivity.
  - destruct (run true (finalize_lexing _) s1) as [u s2|site s2] eqn:E2; [|cbn; discriminate].
    cbn [lr_outcome lr_state]. intros _ F.
    destruct (run_never_fired _ _ _ _ E2 F) as [F1 _].
    rewrite (run_dbg_release ml _ _ _ E1 F1). rewrite (run_dbg_release _ _ _ _ E2 F). reflexivity.
Qed.
Print Assumptions C19_debug_release.

Example c19_example :
  let src := [37; 109; 40; 97; 32; 61; 49; 41; 59] in   (* %m(a =1); - takes a rollback *)
  lr_outcome (lex (mkCfg true false) src) = None /\
  lr_buffer (lex (mkCfg false false) src) = lr_buffer (lex (mkCfg true false) src).
Proof. vm_compute. split; reflexivity. Qed.
