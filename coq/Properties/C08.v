(** * C08 - numeric literal payloads equal the value written in the source.
    Proved (all inputs):
    - decimal and hexadecimal integer readings are the positional value of the maximal digit
      prefix, exact whenever it fits in 64 bits;
    - [round_b64 num den] is the IEEE-754 binary64 nearest (ties to even) to the rational
      num/den, stated against Flocq's generic rounding operator
      [round radix2 (FLT_exp (-1074) 53) ZnearestE], with overflow to the infinity pattern;
      the bit patterns are read as Flocq's [b64_of_bits] reads them;
    - for every literal spelled digits[.digits][(e|E)[+|-]digits] (any following text that does
      not extend it) [try_parse_float] consumes exactly the literal, types it by its notation
      and returns the correctly rounded double of its decimal value.
    Axioms: the four real-number axioms of Coq's standard library (through Reals and Flocq).
    Tested by the check on every numeric token of every input (independent oracle: exact
    integer parsing and Python's correctly rounded [float()]): the disambiguation between
    decimal, exponent and hex notation in [lex_numeric_literal], the macro-expression
    contexts, and the extent of malformed literals.  [lexical::parse_partial] is modelled by
    [try_parse_float]/[try_parse_integer]; model and crate are compared on every input. *)
From Coq Require Import NArith ZArith List Bool Reals.
From Flocq Require Import Core IEEE754.Binary IEEE754.Bits.
From SasLexer Require Import Gen.TokenType Gen.ErrorKind Gen.Channel Model.Base Model.Helpers Model.Numeric
     Proofs.NumericInt Proofs.RoundProofs Proofs.NumericFloat.
Import ListNotations.

Theorem C08_positional_value : forall base dv l, digits_val base dv l = pos_value base dv l.
Proof. exact digits_val_is_positional. Qed.
Print Assumptions C08_positional_value.

Theorem C08_decimal_integer : forall l,
  let ds := take_while is_ascii_digit l in
  match try_parse_integer l with
  | Some r =>
    ds <> [] /\ (pos_value 10 digit_val ds <= U64_MAX)%N /\
    r = mkNum T_IntegerLiteral (PInt (pos_value 10 digit_val ds)) (len ds) None
  | None => ds = [] \/ (U64_MAX < pos_value 10 digit_val ds)%N
  end.
Proof. exact try_parse_integer_spec. Qed.
Print Assumptions C08_decimal_integer.

Theorem C08_hex_integer : forall l,
  let ds := take_while is_ascii_hexdigit l in
  match try_parse_hex_integer l with
  | Some r =>
    ds <> [] /\
    ((pos_value 16 hexdigit_val ds <= U64_MAX)%N ->
       r = mkNum T_IntegerLiteral (PInt (pos_value 16 hexdigit_val ds)) (len ds) None) /\
    ((U64_MAX < pos_value 16 hexdigit_val ds)%N ->
       n_type r = T_FloatLiteral /\ n_err r = Some E_InvalidNumericLiteral /\ (len ds <= n_len r)%N)
  | None => ds = []
  end.
Proof. exact try_parse_hex_integer_spec. Qed.
Print Assumptions C08_hex_integer.

Theorem C08_digit_values : forall c,
  (is_ascii_digit c = true -> (digit_val c < 10)%N /\ c = (48 + digit_val c)%N) /\
  (is_ascii_hexdigit c = true ->
     (hexdigit_val c < 16)%N /\
     ((48 <= c <= 57 /\ hexdigit_val c = c - 48) \/
      (97 <= c <= 102 /\ hexdigit_val c = 10 + (c - 97)) \/
      (65 <= c <= 70 /\ hexdigit_val c = 10 + (c - 65)))%N).
Proof. intros c. split; [apply digit_val_spec|apply hexdigit_val_spec]. Qed.
Print Assumptions C08_digit_values.

Theorem C08_round_to_nearest_even : forall num den, (0 < den)%N ->
  let x := (IZR (Z.of_N num) / IZR (Z.of_N den))%R in
  let rx := round radix2 (FLT_exp (-1074) 53) ZnearestE x in
  ((rx < bpow radix2 1024)%R ->
     (round_b64 num den < INF_BITS)%N /\ b64_value (round_b64 num den) = rx) /\
  ((bpow radix2 1024 <= rx)%R -> round_b64 num den = INF_BITS).
Proof. exact round_b64_correct. Qed.
Print Assumptions C08_round_to_nearest_even.

Theorem C08_bit_patterns_are_ieee : forall bits, (bits < INF_BITS)%N ->
  B2R 53 1024 (b64_of_bits (Z.of_N bits)) = b64_value bits.
Proof. exact b64_value_flocq. Qed.
Print Assumptions C08_bit_patterns_are_ieee.

Theorem C08_float_literal : forall ip dot fp ex rest, float_text_ok ip dot fp ex rest ->
  exists bits,
    try_parse_float (float_text ip dot fp ex rest) =
      Some (mkNum (match ex with Some _ => T_FloatExponentLiteral | None => T_FloatLiteral end)
                  (PFloat bits) (float_text_len ip dot fp ex) None) /\
    is_b64_of bits (dec_real (pos_value 10 digit_val (ip ++ fp)) (float_text_exp ex - Z.of_N (len fp))).
Proof. exact try_parse_float_correct. Qed.
Print Assumptions C08_float_literal.

(** the hypotheses are satisfiable: "12.50e-3;" *)
Example c08_float_text_example :
  float_text_ok [49; 50]%N true [53; 48]%N (Some (c_e, Some true, [51]%N)) [59]%N /\
  try_parse_float (float_text [49; 50]%N true [53; 48]%N (Some (c_e, Some true, [51]%N)) [59]%N) =
    Some (mkNum T_FloatExponentLiteral (PFloat 4578359381184846234) 8 None).
Proof.
  split; [|vm_compute; reflexivity].
  unfold float_text_ok. repeat split; try reflexivity; try discriminate; try (left; reflexivity);
    try (cbn; apply N.leb_le; reflexivity).
Qed.
