(** * C06 - token shapes: the tables behind them.
    Proved (by computation over the generated enumerations): the keyword maps have no ambiguous
    key, every key is upper-case ASCII no longer than the declared maximum (which is attained),
    macro keywords map into the macro-call-or-statement subset, the ASCII rows of the Unicode
    predicates are the closed forms the scanners assume, and the characters that delimit tokens
    are not identifier characters.  The per-type text shapes of DESIGN.md section 6.1 are tested on every
    token of every input by the check's oracle.
    For macro-free texts (release profile) [C06_macro_free_channels] proves the channel clauses outright:
    comment types are exactly the tokens of the comment channel, whitespace is hidden, and the hidden
    channel holds only whitespace and catch-all characters (corollary of the C11 simulation). *)
From Coq Require Import NArith List Bool.
From SasLexer Require Import Model.Core Model.Lexer3 Spec.RefLex Proofs.RefLexTiling Proofs.RefLexShape Proofs.OcBase Proofs.OcWhole Proofs.OcAll Proofs.MacroFree.
From SasLexer Require Import Gen.TokenType Gen.ErrorKind Gen.Channel Model.Base Model.Helpers Proofs.Tables.
Import ListNotations.

Theorem C06_keyword_tables :
  keys_distinct KEYWORDS_C = true /\ keys_distinct MKEYWORDS_C = true /\
  forallb (fun p => chars_eqb (upper (fst p)) (fst p)) (KEYWORDS_C ++ MKEYWORDS_C) = true.
Proof. exact (conj keywords_lookup (conj mkeywords_lookup keywords_upper)). Qed.
Print Assumptions C06_keyword_tables.

Theorem C06_keyword_lengths :
  (forallb (fun p => blen (fst p) <=? MAX_KEYWORDS_LEN)%N KEYWORDS_C
   && forallb (fun p => blen (fst p) <=? MAX_MKEYWORDS_LEN)%N MKEYWORDS_C
   && existsb (fun p => blen (fst p) =? MAX_KEYWORDS_LEN)%N KEYWORDS_C
   && existsb (fun p => blen (fst p) =? MAX_MKEYWORDS_LEN)%N MKEYWORDS_C)%bool = true.
Proof. exact keywords_len. Qed.

Theorem C06_macro_keywords_in_subset :
  forallb (fun p => (tt_to_N SUBSET_START <? tt_to_N (snd p))%N && (tt_to_N (snd p) <=? tt_to_N SUBSET_END)%N) MKEYWORDS_C = true.
Proof. exact mkeywords_in_subset. Qed.

Theorem C06_character_classes :
  forallb (fun c => negb (is_xid_continue c) && negb (is_xid_start c))
          [10; 13; 32; 34; 37; 38; 39; 40; 41; 42; 44; 46; 47; 59; 61]%N = true.
Proof. exact special_chars_not_ident. Qed.

(** the channel clauses of the property, for every macro-free text (release profile) *)
Theorem C06_macro_free_channels : forall (msep : bool) (src : list char),
  macro_free (body_of src) = true ->
  Forall (fun t =>
            (t_chan t = CH_COMMENT <-> is_comment_type (t_type t) = true) /\
            (t_type t = T_WS -> t_chan t = CH_HIDDEN) /\
            (t_chan t = CH_HIDDEN -> t_type t = T_WS \/ t_type t = T_CatchAll))
         (b_toks (lr_buffer (lex (mkCfg false msep) src))).
Proof. exact mf_C06_macro_free_channels. Qed.
Print Assumptions C06_macro_free_channels.
