(** * C10 - paired and grouped tokens: the pre-loaded expectations.
    Proved (by computation over the whole token type enumeration): every argument-taking
    built-in macro function keyword pushes, on top of the mode stack, "skip whitespace and
    comments, then expect '(' on the keyword's channel" and, at the bottom, "expect ')' on
    that channel"; every macro keyword type has a dispatch arm; statements that end in ';'
    pre-load the ';' expectation.  An [ExpectSymbol] mode always produces its token (real or
    virtual, see lex_expected_token / finalize_lexing in Model/Lexer3.v).  Balance of string
    expressions, datalines triples and label colons over all inputs is tested by the oracle.
    For macro-free texts (release profile) [C10_macro_free_groups] proves the grouping outright: no
    string-expression or label token occurs at all (every quoted text is one literal token), and every
    datalines start is followed at once by its data token and its terminator ([grp_okb], a decision
    procedure over the type sequence; corollary of the C11 simulation). *)
From Coq Require Import NArith List Bool.
From SasLexer Require Import Model.Core Model.Lexer3 Spec.RefLex Proofs.RefLexTiling Proofs.RefLexShape Proofs.OcBase Proofs.OcWhole Proofs.OcAll Proofs.MacroFree.
From SasLexer Require Import Gen.TokenType Gen.ErrorKind Gen.Channel Model.Base Model.Core Model.Helpers Model.Lexer2 Proofs.Tables.
Import ListNotations.

Theorem C10_builtin_parenthesis_preloaded : forall t, arg_builtin t = true -> preload_ok t = true.
Proof. exact builtin_preloads. Qed.
Print Assumptions C10_builtin_parenthesis_preloaded.

Theorem C10_every_macro_keyword_dispatched :
  forallb (fun t => implb ((tt_to_N SUBSET_START <=? tt_to_N t)%N && (tt_to_N t <=? tt_to_N SUBSET_END)%N)
                          (match kw_arm_of t with A_unknown => false | _ => true end)) all_token_types = true.
Proof. exact every_subset_type_has_arm. Qed.

Theorem C10_statement_semicolons_preloaded : stat_preload_bottom_semi = true.
Proof. exact stat_preloads_end_in_semi. Qed.

Theorem C10_macro_free_groups : forall (msep : bool) (src : list char),
  macro_free (body_of src) = true ->
  grp_okb (map t_type (b_toks (lr_buffer (lex (mkCfg false msep) src)))) = true.
Proof. exact mf_C10_macro_free_groups. Qed.
Print Assumptions C10_macro_free_groups.

(** what [grp_okb] decides, on examples *)
Example c10_grp_examples :
  grp_okb [T_DatalinesStart; T_DatalinesData; T_SEMI; T_EOF] = true /\
  grp_okb [T_DatalinesStart; T_SEMI] = false /\ grp_okb [T_StringExprStart; T_EOF] = false.
Proof. vm_compute. repeat split; reflexivity. Qed.
