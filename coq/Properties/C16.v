(** * C16 - ASCII case independence: the classification helpers.
    Proved for all inputs: the functions through which letter case could influence token
    types - keyword lookup after upper-casing, the macro keyword scanner, the statement
    look-ahead, the mnemonic-operator recogniser - return the same result on ASCII case variants.
    The whole-lexer statement (same token types, channels, offsets and errors) is tested by the
    check on random and extreme case variants of every input; it is not proved here. *)
From Coq Require Import NArith List.
From SasLexer Require Import Gen.TokenType Gen.ErrorKind Gen.Channel Model.Base Model.Helpers Proofs.Tables Proofs.CaseInv.
Import ListNotations.
Open Scope N_scope.

Theorem C16_keyword_lookup : forall l l', case_variant l l' ->
  parse_keyword (upper l) = parse_keyword (upper l') /\
  parse_macro_keyword (upper l) = parse_macro_keyword (upper l').
Proof. exact parse_keyword_case. Qed.
Print Assumptions C16_keyword_lookup.

Theorem C16_macro_keyword_scanner : forall l l', case_variant l l' ->
  lex_macro_call_stat_or_label l = lex_macro_call_stat_or_label l'.
Proof. exact lex_macro_call_stat_or_label_case. Qed.
Print Assumptions C16_macro_keyword_scanner.

Theorem C16_macro_stat_lookahead : forall l l', case_variant l l' -> is_macro_stat l = is_macro_stat l'.
Proof. exact is_macro_stat_case. Qed.
Print Assumptions C16_macro_stat_lookahead.

Theorem C16_mnemonics : forall l l', case_variant l l' ->
  is_macro_eval_mnemonic l = is_macro_eval_mnemonic l'.
Proof. exact is_macro_eval_mnemonic_case. Qed.
Print Assumptions C16_mnemonics.

(** every key of both keyword maps is upper case and is found under its own spelling *)
Theorem C16_keys_upper_and_found :
  forallb (fun p => chars_eqb (upper (fst p)) (fst p)) (KEYWORDS_C ++ MKEYWORDS_C) = true /\
  keys_distinct KEYWORDS_C = true /\ keys_distinct MKEYWORDS_C = true.
Proof. exact (conj keywords_upper (conj keywords_lookup mkeywords_lookup)). Qed.

Example c16_example :
  case_variant [103; 69; 32] [71; 101; 32] /\ is_macro_eval_mnemonic [103; 69; 32] = (Some T_KwGE, 1).
Proof.
  split; [|vm_compute; reflexivity].
  repeat constructor; right; vm_compute; repeat split; reflexivity.
Qed.
