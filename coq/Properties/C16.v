(** * C16 - ASCII case independence: the classification helpers.
    Proved for all inputs: the functions through which letter case could influence token
    types - keyword lookup after upper-casing, the macro keyword scanner, the statement
    look-ahead, the mnemonic-operator recogniser - return the same result on ASCII case variants.
    [C16_macro_free_case_insensitive]: for macro-free texts (release profile) the whole-lexer statement
    is proved - two texts that differ only in the case of ASCII letters yield the same token types,
    channels, byte offsets and payloads (numeric values and literal-buffer ranges) and the same error
    kinds and offsets (the reference reading is invariant under upper-casing every letter,
    Proofs/RefLexCase.v, and the model is the reference reading, C11). For texts with macro triggers
    the whole-lexer statement is tested by the check on random and extreme case variants of every input. *)
From Coq Require Import NArith List.
From SasLexer Require Import Gen.TokenType Gen.ErrorKind Gen.Channel Model.Base Model.Helpers Model.Core Model.Lexer3 Spec.RefLex Proofs.Tables Proofs.CaseInv
     Proofs.OcBase Proofs.OcWhole Proofs.OcAll Proofs.MacroFree.
Import ListNotations.
Open Scope N_scope.

Theorem C16_keyword_lookup : forall l l', case_variant l l' ->
  parse_keyword (upper l) = parse_keyword (upper l') /\
  parse_macro_keyword (upper l) = parse_macro_keyword (upper l').
Proof. exact parse_keyword_case. Qed.
Print Assumptions C16_keyword_lookup.

Theorem C16_macro_keyword_scanner : forall l l', case_variant l l' ->
  lex_macro_call_stat_or_label l = lex_macro_call_stat_or_label l'.
Proof. exact lex_macro_call_stat_or_label_case. Qed.
Print Assumptions C16_macro_keyword_scanner.

Theorem C16_macro_stat_lookahead : forall l l', case_variant l l' -> is_macro_stat l = is_macro_stat l'.
Proof. exact is_macro_stat_case. Qed.
Print Assumptions C16_macro_stat_lookahead.

Theorem C16_mnemonics : forall l l', case_variant l l' ->
  is_macro_eval_mnemonic l = is_macro_eval_mnemonic l'.
Proof. exact is_macro_eval_mnemonic_case. Qed.
Print Assumptions C16_mnemonics.

(** every key of both keyword maps is upper case and is found under its own spelling *)
Theorem C16_keys_upper_and_found :
  forallb (fun p => chars_eqb (upper (fst p)) (fst p)) (KEYWORDS_C ++ MKEYWORDS_C) = true /\
  keys_distinct KEYWORDS_C = true /\ keys_distinct MKEYWORDS_C = true.
Proof. exact (conj keywords_upper (conj keywords_lookup mkeywords_lookup)). Qed.

Example c16_example :
  case_variant [103; 69; 32] [71; 101; 32] /\ is_macro_eval_mnemonic [103; 69; 32] = (Some T_KwGE, 1).
Proof.
  split; [|vm_compute; reflexivity].
  repeat constructor; right; vm_compute; repeat split; reflexivity.
Qed.

(** the whole-lexer statement on macro-free texts *)
Theorem C16_macro_free_case_insensitive : forall (msep : bool) (a b : list char),
  case_variant a b -> macro_free (body_of a) = true ->
  let ra := lex (mkCfg false msep) a in
  let rb := lex (mkCfg false msep) b in
  map tv0 (b_toks (lr_buffer ra)) = map tv0 (b_toks (lr_buffer rb)) /\
  map ev0 (lr_errors ra) = map ev0 (lr_errors rb).
Proof. exact mf_C16_macro_free_case_insensitive. Qed.
Print Assumptions C16_macro_free_case_insensitive.

(** the premises are satisfiable by texts whose tokenization involves case at every kind of site:
    keyword, datalines word, literal suffix, hex digits, exponent marker, hex terminator *)
Example c16_premise_example :
  let a := [68;65;84;65;32;120;61;39;52;49;39;88;43;49;69;51;43;48;70;70;88;59;99;65;114;68;115;59;49;59]%N in
  let b := map lc a in
  case_variant a b /\ macro_free (body_of a) = true /\ a <> b.
Proof.
  cbv zeta. split; [apply case_variant_lc|]. split; [vm_compute; reflexivity|vm_compute; discriminate].
Qed.
