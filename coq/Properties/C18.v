(** * C18 - the macro_sep feature only adds separators: the predicate that guards them.
    Proved: [needs_macro_sep] (the only guard of both insertion sites) is true only when the
    previous default-channel token exists and is none of SEMI, MacroLabel, %then, %else, and the
    token that follows is a macro statement keyword or a macro label.  That the two builds
    otherwise produce identical output is checked by lexing every input with both feature
    builds of the implementation (and both configurations of the model).
    For macro-free texts (release profile) [C18_macro_free_no_effect] proves the statement outright:
    the result with the feature is the result without it and contains no MacroSep token (both are
    the reference reading, C11). *)
From Coq Require Import NArith List Bool.
From SasLexer Require Import Gen.TokenType Gen.ErrorKind Gen.Channel Model.Base Model.Helpers Model.Core Model.Lexer3 Spec.RefLex Proofs.Tables
     Proofs.OcBase Proofs.OcWhole Proofs.OcAll Proofs.MacroFree.
Import ListNotations.

Theorem C18_separator_guard : forall prev t, needs_macro_sep prev t = true ->
  (exists p, prev = Some p /\ tt_in p [T_SEMI; T_MacroLabel; T_KwmThen; T_KwmElse] = false) /\
  (is_macro_stat_tok_type t || tt_eqb t T_MacroLabel) = true.
Proof. exact needs_sep_spec. Qed.
Print Assumptions C18_separator_guard.

Example c18_example : needs_macro_sep (Some T_Identifier) T_KwmLet = true /\ needs_macro_sep (Some T_SEMI) T_KwmLet = false.
Proof. split; reflexivity. Qed.

Theorem C18_macro_free_no_effect : forall (src : list char), macro_free (body_of src) = true ->
  let r0 := lex (mkCfg false false) src in
  let r1 := lex (mkCfg false true) src in
  map tv0 (b_toks (lr_buffer r1)) = map tv0 (b_toks (lr_buffer r0)) /\
  map ev0 (lr_errors r1) = map ev0 (lr_errors r0) /\ b_lit (lr_buffer r1) = b_lit (lr_buffer r0) /\
  Forall (fun t => t_type t <> T_MacroSep) (b_toks (lr_buffer r1)).
Proof. exact mf_C18_macro_free_no_effect. Qed.
Print Assumptions C18_macro_free_no_effect.
