(** * C18 - the macro_sep feature only adds separators: the predicate that guards them.
    Proved: [needs_macro_sep] (the only guard of both insertion sites) is true only when the
    previous default-channel token exists and is none of SEMI, MacroLabel, %then, %else, and the
    token that follows is a macro statement keyword or a macro label.  That the two builds
    otherwise produce identical output is checked by lexing every input with both feature
    builds of the implementation (and both configurations of the model). *)
From Coq Require Import NArith List Bool.
From SasLexer Require Import Gen.TokenType Gen.ErrorKind Gen.Channel Model.Base Model.Helpers Proofs.Tables.
Import ListNotations.

Theorem C18_separator_guard : forall prev t, needs_macro_sep prev t = true ->
  (exists p, prev = Some p /\ tt_in p [T_SEMI; T_MacroLabel; T_KwmThen; T_KwmElse] = false) /\
  (is_macro_stat_tok_type t || tt_eqb t T_MacroLabel) = true.
Proof. exact needs_sep_spec. Qed.
Print Assumptions C18_separator_guard.

Example c18_example : needs_macro_sep (Some T_Identifier) T_KwmLet = true /\ needs_macro_sep (Some T_SEMI) T_KwmLet = false.
Proof. split; reflexivity. Qed.
